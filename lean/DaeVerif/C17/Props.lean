import DaeVerif.C17.Proofs
/-!
# C17 — property theorems

Only statements a reader should audit live here (namespace `DaeVerif.C17.Props`); the proofs are
in `ParserProofs`, `LexProofs`, `MergeProofs`, `ConfigProofs`, `DefaultsProofs`.  Every theorem is
about the definitions of `Model.lean`, the same ones the driver `c17drv` executes against the real
code on every check.  Each theorem is followed by a non-vacuity `example`.

Reading guide (clauses of the property → theorems):
* "parsed into sections, parameters and rules that correspond one-to-one, in order, to what is
  written"  → `tokens_iff_tree`, `parse_spells`, `parse_render`, `parse_render_canonical`,
  `lexer_reads_back`, `walk_keeps_every_item`, `walkFn_faithful`
* "comments and whitespace anywhere" → `skips_whitespace`, `skips_line_comment`,
  `skips_block_comment`, `skips_concat`
* "rejected with an error … never crashes" → no theorem (tie only, see the note below `stdK`)
* "applies documented defaults" → `defaults_applied` (+ `_scalar`, `_any_depth`),
  `default_routing_fallback_applied`, `default_http_method_applied`
* "rejects unknown sections and keys, missing required ones" → `unknown_section_rejected`,
  `missing_required_section_rejected`, `unknown_and_missing_keys_rejected` (config.New level),
  `unknown_key_rejected_one_struct`, `missing_required_key_rejected_one_struct`; `written_list_replaces_default`
* "rule programs beyond the supported size" → `oversize_rejected` (total length, traffic routing),
  `oversize_domain_set_rejected` (every builder), `compiled_within_limit`
* "merges included files deterministically (the including file first, then each included file in
  listed order)" → `merge_order`, `merge_into_appends`
* "rejecting circular includes" → `circular_include_rejected`, `include_of_visited_rejected`,
  `merge_no_path_twice`, `merge_terminates` (closed universe of spellings), `merge_terminates_partial`
* "never reading a file that is not a .dae file or that lies outside the entry configuration
  directory" → `merge_reads_confined`, `confined_means_under`
* the composition `cmd.readConfig` = merge ; `config.New` ("deterministically", "one-to-one, in order"
  across files, unknown/missing keys in any file) → `merged_map_one_section_per_name`,
  `readConfig_independent_of_map_order`, `readConfig_decodes_every_file_in_order`, `readConfig_checks_every_file`
* the size limit on the PRODUCTION path (after the rule optimizers) → `optimizers_never_enlarge`,
  `optimizers_never_cause_oversize`, `production_oversize_rejected`
-/
namespace DaeVerif.C17.Props
open DaeVerif.C17

/-- the character table probed from the real lexer (what the harness sends on every run) -/
def stdK : Classes :=
  Classes.ofTable 0x7fffffe87fffffe0000000000000000 0x5000000003ffec0000000000 0x12000003a00000000 0x100002600

/-! ## 1. Text ↔ tokens ↔ tree -/

/-! "Parsing never crashes, whatever the input" has NO theorem here: in Lean every function is total,
so a statement about the model would be vacuous.  That clause is established only by the
correspondence streams (grammar texts, near misses, bytes, long/deep stress inputs), which run the
real `Parse` under `recover` and in a child process. -/

/-- **One-to-one, in order (token level).** The token-level parser accepts a token sequence with
tree `p` exactly when `p` spells that sequence token for token, in order: section names, keys,
bare and quoted literals (with their quoting style), `!`, `&&` chains, `->` outbounds with
parameters, nested sections, `[...]` annotations. -/
theorem tokens_iff_tree (ts : List Tok) (p : Prog) : parseToks ts = .ok p ↔ progToks p = ts :=
  ⟨parseToks_sound, fun h => h ▸ parseToks_complete p⟩

example : parseToks [.id ['a'], .lbrace, .id ['b'], .colon, .quote '\'' ['c'], .rbrace]
    = .ok [(['a'], .decl ⟨['b'], .lits (.quote '\'' ['c']) [], none⟩ .nil)] := by rfl

/-- **What an accepted text spells.** If a text is accepted, its token sequence is exactly the
spelling of some tree, and the sections returned are that tree as the Walker reads it. -/
theorem parse_spells (K : Classes) (text : List Char) (ast : List ASection) (h : parse K text = some ast) :
    ∃ p, lex K text = some (progToks p) ∧ walkProg p = some ast := by
  unfold parse at h
  split at h
  · simp at h
  · rename_i ts hl
    split at h
    · simp at h
    · rename_i p hp
      exact ⟨p, by rw [hl, parseToks_sound hp], h⟩

/-- **Lexer completeness: nothing written is dropped.** If the lexer accepts a text, the text is the
concatenation, in order, of pieces each of which is either the exact spelling (`Tok.text`) of the
next token returned, or trivia of an exact shape (`isTrivia`): one whitespace character; `#`, a body
without newline characters and the whole newline run after it; `/*` body `*/`.  (Together with `tokens_iff_tree` and `parse_spells`: every character of an
accepted configuration is spelled by the tree or is whitespace/comment.) -/
theorem lexer_accounts_for_every_character (K : Classes) (text : List Char) (ts : List Tok)
    (h : lex K text = some ts) :
    ∃ pieces : List (Option Tok × List Char),
      text = pieces.flatMap (·.2) ∧ pieces.filterMap (·.1) = ts ∧
      ∀ p ∈ pieces, (∀ t, p.1 = some t → p.2 = t.text) ∧ (p.1 = none → isTrivia K p.2) :=
  lex_complete text ts h

/-- **The lexer reads a rendering back.** For a well-formed class table, admissible tokens and
admissible text between them (nothing, or skipped text starting with whitespace), the lexer
returns exactly the rendered tokens. -/
theorem lexer_reads_back (K : Classes) (hK : K.WF) (tss : List (Tok × List Char))
    (htok : ∀ x ∈ tss, TokOK K x.1) (hsep : SepsOK K tss) :
    lex K (renderToks tss) = some (tss.map (·.1)) :=
  lex_renderToks hK tss htok hsep

/-- **parse ∘ render.** Rendering any tree with admissible tokens — any quoting style the tree
carries, any admissible text (whitespace, comments, or nothing where harmless) after each token,
any skipped text in front — and parsing it gives back exactly what the Walker makes of the tree:
names, keys, values, negations, `&&` chains, outbounds with parameters, nesting, annotations, in
order; or the Walker's error when a function or annotation has no parameter. -/
theorem parse_render (K : Classes) (hK : K.WF) (p : Prog) (seps : List (List Char)) (lead : List Char)
    (hlen : seps.length = (progToks p).length)
    (htok : ∀ t ∈ progToks p, TokOK K t)
    (hsep : SepsOK K ((progToks p).zip seps)) (hlead : Skips K lead) :
    parse K (lead ++ renderToks ((progToks p).zip seps)) = walkProg p := by
  have hmap : ((progToks p).zip seps).map (·.1) = progToks p := by
    rw [List.map_fst_zip]; omega
  have hl : lex K (lead ++ renderToks ((progToks p).zip seps)) = some (progToks p) := by
    rw [hlead, lex_renderToks hK _ ?_ hsep, hmap]
    intro x hx
    exact htok x.1 (by
      have := List.mem_map_of_mem (f := Prod.fst) hx
      rwa [hmap] at this)
  unfold parse
  rw [hl]
  simp only [parseToks_complete]

/-- the canonical printer (one space after every token) is a special case -/
theorem parse_render_canonical (K : Classes) (hK : K.WF) (hsp : K.ws ' ' = true) (p : Prog)
    (htok : ∀ t ∈ progToks p, TokOK K t) : parse K (render p) = walkProg p := by
  have hgen : ∀ ts : List Tok, (∀ t ∈ ts, TokOK K t) →
      lex K (renderToks (ts.map fun t => (t, [' ']))) = some ts := by
    intro ts hts
    have hs : SepsOK K (ts.map fun t => (t, [' '])) := by
      clear hts
      induction ts with
      | nil => trivial
      | cons t ts ih => exact ⟨Or.inr ⟨skips_ws hsp, ' ', [], rfl, hsp⟩, ih⟩
    have := lex_renderToks hK (ts.map fun t => (t, [' '])) (by
      intro x hx
      obtain ⟨t, ht, rfl⟩ := List.mem_map.mp hx
      exact hts t ht) hs
    simpa [List.map_map, Function.comp_def] using this
  unfold parse render
  rw [hgen _ htok]
  simp only [parseToks_complete]

/-- the probed table satisfies the hypotheses (`wfCheck` is what the driver evaluates at run time) -/
theorem wfCheck_establishes_WF (a b c d : Nat) (h : (Classes.ofTable a b c d).wfCheck = true) :
    (Classes.ofTable a b c d).WF := wfCheck_sound a b c d h

example : stdK.wfCheck = true ∧ stdK.ws ' ' = true := by decide

/-- a concrete rendering: `r { ! d ( s : "a b" ) -> p }` comes back as the rule it spells -/
example : parse stdK (render [(['r'],
      .rule ⟨⟨true, ['d'], [⟨some ['s'], .quote '"' ['a', ' ', 'b']⟩]⟩, [], .id ['p']⟩ .nil)])
    = some [⟨['r'], [.rule [⟨['d'], true, [⟨['s'], ['a', ' ', 'b']⟩]⟩] ⟨['p'], false, []⟩]⟩] := by
  have hK := wfCheck_sound _ _ _ _ (show stdK.wfCheck = true by decide)
  rw [parse_render_canonical stdK hK (by decide)]
  · rfl
  · intro t ht
    simp only [progToks, Items.toks, CRule.toks, fnsToks, fnsTail, CFn.toks, paramsToks, paramsTail, CParam.toks,
      COut.toks, Lit.tok, List.flatMap_nil, List.append_nil, List.cons_append, List.nil_append, if_true,
      List.mem_cons, List.not_mem_nil, or_false] at ht
    rcases ht with rfl | rfl | rfl | rfl | rfl | rfl | rfl | rfl | rfl | rfl | rfl | rfl <;>
      first
        | trivial
        | exact ⟨_, _, rfl, by decide, by decide⟩
        | exact ⟨Or.inl rfl, by decide⟩

/-- whitespace may be put anywhere between tokens … -/
theorem skips_whitespace (K : Classes) (w : Char) (hw : K.ws w = true) : Skips K [w] := skips_ws hw

/-- … and so may `#` comments (body without a newline, then a newline) … -/
theorem skips_line_comment (K : Classes) (hK : K.WF) (body : List Char) (n : Char)
    (hb : body.all (fun c => !isNL c) = true) (hn : isNL n = true) : Skips K ('#' :: (body ++ [n])) :=
  skips_lineComment hK body n hb hn

/-- … and `/* … */` comments (body without `/`) followed by a whitespace character (a block comment
glued to word characters is a NON_ID for the real lexer too) … -/
theorem skips_block_comment (K : Classes) (hK : K.WF) (body : List Char) (w : Char) (hb : '/' ∉ body)
    (hw : K.ws w = true) : Skips K ('/' :: '*' :: (body ++ ['*', '/', w])) :=
  skips_blockComment hK body w hb hw

/-- … and any concatenation of skipped pieces. -/
theorem skips_concat (K : Classes) (a b : List Char) (ha : Skips K a) (hb : Skips K b) : Skips K (a ++ b) :=
  skips_append ha hb

example : Skips stdK ([' '] ++ ('#' :: ([' ', 'x', '{', '"', '\''] ++ ['\n'])) ++ ['\t']) := by
  have hK := wfCheck_sound _ _ _ _ (show stdK.wfCheck = true by decide)
  have h1 : Skips stdK [' '] := skips_ws (by decide)
  have h2 : Skips stdK ('#' :: ([' ', 'x', '{', '"', '\''] ++ ['\n'])) :=
    skips_lineComment hK _ _ (by decide) (by decide)
  have h3 : Skips stdK ['\t'] := skips_ws (by decide)
  exact skips_append (skips_append h1 h2) h3

/-- **The Walker keeps every item, in order, under its own name**: the heads of the AST items (first
function name of a rule, key of a declaration, value of a literal, name of a section) are the heads
of the written items, one for one.  (`keysOK`: declaration keys are non-empty, as every ID token is.)
Scope of "one-to-one" at Walker level: the AST forgets the quoting style of a literal and joins a
declaration's literal list with `,` (`b: c, d` and `b: 'c,d'` give the same `Param`); nothing else. -/
theorem walk_keeps_every_item (items : Items) (as : List AItem) (h : walkItems items = some as)
    (hk : items.keysOK) : as.map AItem.head = items.heads := walkItems_heads_eq items as h hk

/-- **A function is read faithfully** (name, negation, every parameter's key and raw value, in
order), and the only thing the Walker refuses is an empty parameter list. -/
theorem walkFn_faithful (f : CFn) :
    (f.params = [] → walkFn f = none) ∧
    (f.params ≠ [] → walkFn f = some ⟨f.name, f.neg, f.params.map CParam.kv⟩) := by
  unfold walkFn
  constructor
  · intro h; simp [h]
  · intro h; simp [h]

/-! ## 2. Include merging -/

/-- **Order.** The merged map of a file is its own sections first, then, section by section, the
merged map of every included file in the order the includes are listed, depth first. -/
theorem merge_order (K : Classes) (fs : FS) (dir : List Char) (n : Nat) (st st' : MState)
    (entry : List Char) (m : SMap) (h : dfsMerge K fs dir (n + 1) st entry = (st', .ok m)) :
    ∃ st1 own pats children ms,
      readEntry K fs dir st entry = (st1, .ok own) ∧
      includePatterns dir (own.get "include".toList) = .ok pats ∧
      unsqueeze fs pats = .ok children ∧
      ChildMaps K fs dir n st1 children ms ∧
      ∀ name, m.get name = own.get name ++ ms.flatMap (fun mc => mc.getAll name) :=
  dfsMerge_order K fs dir n st st' entry m h

/-- **Relative includes resolve against the entry file's directory** — at every nesting level
(`merge_order` passes the same `dir` down): each include value yields one glob pattern, in order,
itself when absolute, otherwise `Join(quoted entryDir, value)` — the entry directory's own glob
metacharacters are quoted, only the value is a pattern; never the including file's directory. -/
theorem relative_includes_resolve_against_entry_dir (dir : List Char) (items : List AItem) (pats : List (List Char))
    (h : includePatterns dir items = .ok pats) :
    ∃ vs : List (List Char), items.map AItem.paramStr = vs.map some ∧
      pats = vs.map (fun v => if isAbsPath v then v else joinPath (quoteGlobMeta dir) v) :=
  includePatterns_spec dir items pats h

/-- merging a child appends its items after the father's, section by section -/
theorem merge_into_appends (father child : SMap) (name : List Char) :
    (mergeInto father child).get name = father.get name ++ child.getAll name :=
  mergeInto_get child father name

/-- **Circular includes.** A file already merged is rejected before it is opened again … -/
theorem circular_include_rejected (K : Classes) (fs : FS) (dir : List Char) (n : Nat) (st : MState)
    (entry : List Char) (h : entry ∈ st.visited) :
    dfsMerge K fs dir (n + 1) st entry = (st, .error .circular) := by
  rw [dfsMerge, readEntry_circular K fs dir st entry h]

/-- … so an include edge that points back to any file already visited — in particular the edge
that would close a cycle — fails the whole merge. -/
theorem include_of_visited_rejected (K : Classes) (fs : FS) (dir : List Char) (n : Nat) (st : MState)
    (acc : SMap) (c : List Char) (cs : List (List Char)) (h : c ∈ st.visited) :
    dfsChildren K fs dir (n + 1) st acc (c :: cs) = (st, .error .circular) := by
  rw [dfsChildren, circular_include_rejected K fs dir n st c h]

/-- **No path twice.** Whatever the include graph, the list of merged paths has no duplicates.  This is
about path STRINGS, as in the Go code (`entryToSectionMap` is keyed by the raw string): one file
written under two spellings (`'/e/./a.dae'` and `'/e/a.dae'`, absolute includes are not cleaned) is
merged twice; a cycle through such spellings is still rejected, one round later. -/
theorem merge_no_path_twice (K : Classes) (fs : FS) (fuel : Nat) (entry : List Char) :
    (merge K fs fuel entry).1.visited.Nodup :=
  dfsMerge_visited_nodup K fs _ fuel ⟨[], []⟩ entry List.nodup_nil

/-- **Confinement.** Whatever the include graph (globs, nesting, cycles, absolute or relative
paths, `..`), and whether or not the merge succeeds, every file handed to `os.Open` ends in
`.dae` and passed `EnsureFileInSubDir` against the entry file's directory. -/
theorem merge_reads_confined (K : Classes) (fs : FS) (fuel : Nat) (entry : List Char) :
    ∀ p ∈ (merge K fs fuel entry).1.opened, Confined (dirOf entry) p := by
  intro p hp
  rcases dfsMerge_opened_confined K fs (dirOf entry) fuel ⟨[], []⟩ entry p hp with h | h
  · simp at h
  · exact h

/-- … and passing that check means, lexically: the file's cleaned directory is the entry
directory or extends its components by components not starting with `..`. -/
theorem confined_means_under (file dir : List Char) (h : ensureInSubDir file dir = true) :
    dir ≠ [] ∧
    (cleanPath (dirOf file) = cleanPath dir ∨
      ∃ rest, targComps (cleanPath (dirOf file)) = cleanComps (relBase (cleanPath dir)) ++ rest ∧
        isAbsPath (relBase (cleanPath dir)) = isAbsPath (cleanPath (dirOf file)) ∧
        restOK rest = true) :=
  ensureInSubDir_lexical file dir h

example : ensureInSubDir ['/', 'e', '/', 's', '/', 'a'] ['/', 'e'] = true ∧
    ensureInSubDir ['/', 'e', '/', '.', '.', '/', 'b'] ['/', 'e'] = false ∧
    ensureInSubDir ['/', 'e', 'x', '/', 'b'] ['/', 'e'] = false := by decide

/-- **Termination — for real file systems with alias spellings.** `U` is any finite list of path
spellings that contains the entry and is closed under "is included by" (`ClosedUniverse`: whatever a
readable, parsable member of `U` includes, after glob expansion and filtering, is again in `U`).
Then `|U| + 1` levels of fuel are never exhausted.  Such a `U` exists for every finite directory
tree although each file has infinitely many spellings (`/e/a.dae`, `/e/./a.dae`, …): file contents
do not depend on the spelling, so only finitely many include values are written, each expanding
to finitely many glob answers; `U = entry :: all glob answers`.  (The driver takes exactly that
bound as its fuel.)  The nesting depth is bounded because every nested call adds a NEW spelling
of `U` to the duplicate-free visited list (pigeonhole). -/
theorem merge_terminates (K : Classes) (fs : FS) (U : List (List Char)) (entry : List Char) (fuel : Nat)
    (hentry : entry ∈ U) (hclosed : ClosedUniverse K fs (dirOf entry) U) (hfuel : U.length + 1 ≤ fuel) :
    (merge K fs fuel entry).2 ≠ .error .fuel :=
  (levelOK_all K fs (dirOf entry) U hclosed fuel ⟨[], []⟩ entry hentry ⟨List.nodup_nil, by simp⟩).2
    (by simpa using hfuel)

example :
    let fs : FS := { stat := fun p => if p = ['a', '.', 'd', 'a', 'e'] then some ⟨false, 0o600, []⟩ else none,
                     glob := fun _ => some [] }
    (merge stdK fs 2 ['a', '.', 'd', 'a', 'e']).2 ≠ .error .fuel := by
  intro fs
  refine merge_terminates stdK fs [['a', '.', 'd', 'a', 'e']] _ 2 (by simp) ?_ (by simp)
  intro p _ fi _ ss _ pats _ children hch c hc
  rw [unsqueeze_empty_globs fs (fun _ => rfl) pats children hch] at hc
  simp at hc

/-- **Termination — partial.** If the set of path STRINGS that can be stat-ed is finite (`files` lists
them all), the merge never runs out of fuel when given at least `|files| + 1` levels: every nested
`dfsMerge` call has added a new, existing path to the duplicate-free visited list, so the nesting
depth is bounded by the number of paths (pigeonhole).
The hypothesis `hfiles` cannot be met on a real file system, where one file has infinitely many
spellings (`/e/a.dae`, `/e/./a.dae`, `/e/x/../a.dae` …); `merge_terminates` above is the theorem
for that case (finite closed universe of WRITTEN spellings), and it is the bound the driver uses. -/
theorem merge_terminates_partial (K : Classes) (fs : FS) (files : List (List Char)) (entry : List Char) (fuel : Nat)
    (hfiles : ∀ p, (fs.stat p).isSome = true → p ∈ files) (hfuel : files.length + 1 ≤ fuel) :
    (merge K fs fuel entry).2 ≠ .error .fuel :=
  dfsMerge_not_fuel K fs (dirOf entry) files hfiles fuel ⟨[], []⟩ entry
    ⟨List.nodup_nil, by simp⟩ (by simpa using hfuel)

/-- non-vacuity: a two-file system whose files include each other; the merge stops with the
circular-include error, not by exhausting its fuel -/
example :
    let fs : FS := { stat := fun p => if p = ['a', '.', 'd', 'a', 'e'] ∨ p = ['b', '.', 'd', 'a', 'e']
                                     then some ⟨false, 0o600, []⟩ else none,
                     glob := fun _ => some [] }
    (merge stdK fs 3 ['a', '.', 'd', 'a', 'e']).2 ≠ .error .fuel := by
  intro fs
  exact merge_terminates_partial stdK fs [['a', '.', 'd', 'a', 'e'], ['b', '.', 'd', 'a', 'e']] _ 3
    (by intro p hp; simp only [fs] at hp; split at hp <;> simp_all) (by simp)

/-! ## 3. Typed configuration -/

/-- **Unknown sections** are an error (whatever else the configuration contains). -/
theorem unknown_section_rejected (S : Schema) (dec : Dec) (fuel : Nat) (ss : List ASection)
    (h : ∃ s ∈ ss, s.name ≠ "include".toList ∧ ∀ sp ∈ S.specs, sp.name ≠ s.name) :
    ∃ e, configNew S dec fuel ss = .error e :=
  configNew_unknown_section S dec fuel ss h

/-- **Missing required sections** are an error. -/
theorem missing_required_section_rejected (S : Schema) (dec : Dec) (fuel : Nat) (ss : List ASection)
    (h : ∃ sp ∈ S.specs, sp.required = true ∧ ∀ s ∈ ss, s.name ≠ sp.name) :
    configNew S dec fuel ss = .error (.requiredSection, []) :=
  configNew_missing_required S dec fuel ss h

/-- **Unknown keys / key-less text / misplaced rules / missing required keys — at `config.New` level**
for the top-level struct sections: if `config.New` succeeds, every item of the section it decoded
for `global` / `routing` / `dns` is admissible and every `required` key is written.  (The section
decoded for a name is the LAST one so named — `config.New` documents that it assumes `Merger` has
merged equal names; `merge` does, see `sectionsToMap`.) -/
theorem unknown_and_missing_keys_rejected (S : Schema) (dec : Dec) (fuel : Nat) (ss : List ASection) (st' : Store)
    (h : configNew S dec fuel ss = .ok st') (sp : SectionSpec) (hsp : sp ∈ S.specs) (sid : Nat)
    (hkind : sp.kind = .struct sid) :
    ∃ sd, S.structs[sid]? = some sd ∧
      (∀ it ∈ itemsOf ss sp.name, itemAdmissible sd it) ∧
      (∀ f ∈ sd.fields, f.required = true → ∃ it ∈ itemsOf ss sp.name, it.key? = some f.key) :=
  configNew_ok_sections S dec fuel ss st' h sp hsp sid hkind

/-- the same for ONE run of `ParamParser` (any struct at any depth — a nested section, a group
element): if it succeeds, every item was admissible for that struct … -/
theorem unknown_key_rejected_one_struct (S : Schema) (dec : Dec) (n sid : Nat) (path : Path) (items : List AItem)
    (st st' : Store) (h : paramParser S dec (n + 1) sid path items st = .ok st') :
    ∃ sd, S.structs[sid]? = some sd ∧ ∀ it ∈ items, itemAdmissible sd it := by
  obtain ⟨sd, h1, h2, _⟩ := paramParser_ok S dec n sid path items st st' h
  exact ⟨sd, h1, h2⟩

/-- … and every `required` field's key is written among its items. -/
theorem missing_required_key_rejected_one_struct (S : Schema) (dec : Dec) (n sid : Nat) (path : Path)
    (items : List AItem) (st st' : Store) (h : paramParser S dec (n + 1) sid path items st = .ok st') :
    ∃ sd, S.structs[sid]? = some sd ∧
      ∀ f ∈ sd.fields, f.required = true → ∃ it ∈ items, it.key? = some f.key := by
  obtain ⟨sd, h1, _, h3⟩ := paramParser_ok S dec n sid path items st st' h
  exact ⟨sd, h1, h3⟩

/-- **A written list replaces the default (958eeab).** The first section-form occurrence of a
string-list key (`tcp_check_url { a b }`) starts from the empty list, not from the pre-filled
`default:` value: afterwards the field holds exactly the written items, in order. -/
theorem written_list_replaces_default (S : Schema) (dec : Dec) (n : Nat) (sd : StructDef) (path : Path)
    (name : List Char) (items rest : List AItem) (st : Store) (set : List (List Char)) (f : Field)
    (hf : findField sd.fields name = some f) (hk : f.kind = .strList) (hns : set.contains name = false)
    (st1 : Store) (h1 : stringListParser (sub path name) items (st.put (sub path name) (.strs [])) = .ok st1) :
    paramItems S dec (n + 1) sd path (.sec name items :: rest) st set
        = paramItems S dec (n + 1) sd path rest st1 (name :: set) ∧
      ∃ vs : List (List Char), items.map AItem.paramStr = vs.map some ∧ getStrs st1 (sub path name) = vs :=
  sectionForm_list_replaces_default S dec n sd path name items rest st set f hf hk hns st1 h1

/-- **A written value is what the typed configuration holds.** For any struct at any depth (`global`,
`dns.routing.request`, a group element …): after a successful `ParamParser`, the field named by the LAST
`key: value` item of that key holds `FuzzyDecode` of exactly that value when it is a scalar field
(`writtenLeaf` = `.scalar k (dec k value)`), the raw value when it is a function-or-string field —
whatever is written before it, whatever other keys follow, whatever the defaults were.  (String lists
accumulate instead: `written_list_replaces_default`.) -/
theorem written_value_is_stored (S : Schema) (dec : Dec) (n sid : Nat) (path : Path)
    (pre post : List AItem) (key val : List Char) (ann : List KV) (st st' : Store)
    (h : paramParser S dec (n + 1) sid path (pre ++ .str key val ann :: post) st = .ok st')
    (sd : StructDef) (hsd : S.structs[sid]? = some sd)
    (f : Field) (hf : findField sd.fields key = some f) (hkind : f.kind ≠ .strList)
    (hrk : key ≠ rulesKey) (hlast : ∀ it ∈ post, it.key? ≠ some key) :
    ∃ leaf, writtenLeaf dec f.kind val = some leaf ∧ st'.get? (sub path key) = some leaf :=
  paramParser_written S dec n sid path pre post key val ann st st' h sd hsd f hf hkind hrk hlast

/-- non-vacuity: `o: 1  o: 2` in a struct whose field `o` defaults to `9`: the field holds `2` -/
example :
    let S : Schema := ⟨[⟨[⟨['o'], .scalar 1, some ['9'], false, false⟩], false⟩], []⟩
    let dec : Dec := fun _ v => some v
    ∃ st', paramParser S dec 2 0 [['d']] [.str ['o'] ['1'] [], .str ['o'] ['2'] []] [] = .ok st' ∧
      st'.get? [['d'], ['o']] = some (.scalar 1 ['2']) := by
  intro S dec
  have hok : ∃ st', paramParser S dec 2 0 [['d']] [.str ['o'] ['1'] [], .str ['o'] ['2'] []] [] = .ok st' := by
    simp [S, dec, paramParser, applyDefaults, paramItems, findField, checkRequired, Store.put, Store.get?, sub]
  obtain ⟨st', h⟩ := hok
  refine ⟨st', h, ?_⟩
  obtain ⟨leaf, hl, hg⟩ := written_value_is_stored S dec 1 0 [['d']] [.str ['o'] ['1'] []] [] ['o'] ['2'] [] [] st' h
    ⟨[⟨['o'], .scalar 1, some ['9'], false, false⟩], false⟩ rfl ⟨['o'], .scalar 1, some ['9'], false, false⟩ rfl
    (by decide) (by decide) (by simp)
  simp only [writtenLeaf, dec, Option.map_some, Option.some.injEq] at hl
  have hp : sub [['d']] ['o'] = [['d'], ['o']] := rfl
  rw [hp] at hg
  rw [hg, ← hl]

/-- **Documented defaults are applied — full strength, every field kind.** In the typed
configuration returned by `config.New`, every field of a top-level struct section (`global`,
`routing`, `dns`) that carries a `default:` tag and is not written in the configuration holds its
default — `FuzzyDecode` of the tag for scalars, the raw tag for interface fields
(`routing.fallback`), `strings.Split(tag, ",")` for string lists (`tcp_check_url`,
`udp_check_dns`) — whether its section is present or omitted (2aec039).  Excluded by hypothesis
here are only the two fields the patch stage may rewrite on purpose; they are covered by
`default_routing_fallback_applied` and `default_http_method_applied` below. -/
theorem defaults_applied (S : Schema) (dec : Dec) (fuel : Nat) (ss : List ASection) (st' : Store)
    (h : configNew S dec fuel ss = .ok st') (hnames : (S.specs.map (·.name)).Nodup)
    (sp : SectionSpec) (hsp : sp ∈ S.specs) (sid : Nat) (sd : StructDef) (hkind : sp.kind = .struct sid)
    (hsd : S.structs[sid]? = some sd) (hfnd : (sd.fields.map (·.key)).Nodup)
    (f : Field) (hf : f ∈ sd.fields) (d : List Char) (hd : f.dflt = some d)
    (hrk : f.key ≠ rulesKey) (hso : [sp.name, f.key] ≠ soMarkPath)
    (hp1 : pHttpMethod ≠ [sp.name, f.key]) (hp2 : pFallback ≠ [sp.name, f.key])
    (hno : ∀ it ∈ itemsOf ss sp.name, it.key? ≠ some f.key) :
    ∃ leaf, defaultLeaf dec f.kind d = some leaf ∧ st'.get? [sp.name, f.key] = some leaf :=
  configNew_defaults S dec fuel ss st' h hnames sp hsp sid sd hkind hsd hfnd f hf d hd hrk hso hp1 hp2 hno

/-- the scalar reading of `defaults_applied` -/
theorem defaults_applied_scalar (S : Schema) (dec : Dec) (fuel : Nat) (ss : List ASection) (st' : Store)
    (h : configNew S dec fuel ss = .ok st') (hnames : (S.specs.map (·.name)).Nodup)
    (sp : SectionSpec) (hsp : sp ∈ S.specs) (sid : Nat) (sd : StructDef) (hkind : sp.kind = .struct sid)
    (hsd : S.structs[sid]? = some sd) (hfnd : (sd.fields.map (·.key)).Nodup)
    (f : Field) (hf : f ∈ sd.fields) (k : Nat) (d : List Char) (hk : f.kind = .scalar k) (hd : f.dflt = some d)
    (hrk : f.key ≠ rulesKey) (hso : [sp.name, f.key] ≠ soMarkPath)
    (hp1 : pHttpMethod ≠ [sp.name, f.key]) (hp2 : pFallback ≠ [sp.name, f.key])
    (hno : ∀ it ∈ itemsOf ss sp.name, it.key? ≠ some f.key) :
    ∃ c, dec k d = some c ∧ st'.get? [sp.name, f.key] = some (.scalar k c) := by
  obtain ⟨leaf, hl, hg⟩ := defaults_applied S dec fuel ss st' h hnames sp hsp sid sd hkind hsd hfnd f hf d hd
    hrk hso hp1 hp2 hno
  rw [hk] at hl
  simp only [defaultLeaf, Option.map_eq_some_iff] at hl
  obtain ⟨c, hc, rfl⟩ := hl
  exact ⟨c, hc, hg⟩

/-- `routing.fallback` (interface default, rewritten by `patchMustOutbound` only when it starts with
`must_`): an unwritten fallback is the documented default. -/
theorem default_routing_fallback_applied (S : Schema) (dec : Dec) (fuel : Nat) (ss : List ASection) (st' : Store)
    (h : configNew S dec fuel ss = .ok st') (hnames : (S.specs.map (·.name)).Nodup)
    (sp : SectionSpec) (hsp : sp ∈ S.specs) (hname : sp.name = "routing".toList) (sid : Nat) (sd : StructDef)
    (hkind : sp.kind = .struct sid) (hsd : S.structs[sid]? = some sd) (hfnd : (sd.fields.map (·.key)).Nodup)
    (f : Field) (hf : f ∈ sd.fields) (hkey : f.key = "fallback".toList) (hfk : f.kind = .iface)
    (d : List Char) (hd : f.dflt = some d) (hm : hasPrefixC d "must_".toList = false)
    (hno : ∀ it ∈ itemsOf ss sp.name, it.key? ≠ some f.key) :
    st'.get? pFallback = some (.istr d) :=
  configNew_default_fallback S dec fuel ss st' h hnames sp hsp hname sid sd hkind hsd hfnd f hf hkey hfk d hd hm hno

/-- `global.tcp_check_http_method` (rewritten to `CONNECT` by `patchTcpCheckHttpMethod` only when
invalid): an unwritten method is the documented default when that default is a valid method. -/
theorem default_http_method_applied (S : Schema) (dec : Dec) (fuel : Nat) (ss : List ASection) (st' : Store)
    (h : configNew S dec fuel ss = .ok st') (hnames : (S.specs.map (·.name)).Nodup)
    (sp : SectionSpec) (hsp : sp ∈ S.specs) (hname : sp.name = "global".toList) (sid : Nat) (sd : StructDef)
    (hkind : sp.kind = .struct sid) (hsd : S.structs[sid]? = some sd) (hfnd : (sd.fields.map (·.key)).Nodup)
    (f : Field) (hf : f ∈ sd.fields) (hkey : f.key = "tcp_check_http_method".toList) (k : Nat)
    (hfk : f.kind = .scalar k) (d c : List Char) (hd : f.dflt = some d) (hc : dec k d = some c)
    (hv : dec kindHttpMethod c ≠ none)
    (hno : ∀ it ∈ itemsOf ss sp.name, it.key? ≠ some f.key) :
    st'.get? pHttpMethod = some (.scalar k c) :=
  configNew_default_http_method S dec fuel ss st' h hnames sp hsp hname sid sd hkind hsd hfnd f hf hkey k hfk d c hd hc
    hv hno

/-- the same for a struct at any nesting depth (`dns.routing.request`, a `group` element, …): after
a successful `ParamParser`, an unwritten field with a `default:` tag holds its default -/
theorem defaults_applied_any_depth (S : Schema) (dec : Dec) (n sid : Nat) (path : Path) (items : List AItem)
    (st st' : Store) (h : paramParser S dec (n + 1) sid path items st = .ok st')
    (sd : StructDef) (hsd : S.structs[sid]? = some sd) (hnd : (sd.fields.map (·.key)).Nodup)
    (f : Field) (hf : f ∈ sd.fields) (d : List Char) (hd : f.dflt = some d)
    (hrk : f.key ≠ rulesKey) (hno : ∀ it ∈ items, it.key? ≠ some f.key) :
    ∃ leaf, defaultLeaf dec f.kind d = some leaf ∧ st'.get? (sub path f.key) = some leaf :=
  paramParser_defaults S dec n sid path items st st' h sd hsd hnd f hf d hd hrk hno

/-- a miniature schema: one optional struct section `d` with a field `o` defaulting to `1` (and a
`routing` section whose `fallback` defaults to `x`); the
empty configuration is accepted and the omitted section's default is in the typed result -/
example :
    let S : Schema := ⟨[⟨[⟨['o'], .scalar 1, some ['1'], false, false⟩], false⟩,
                        ⟨[⟨"fallback".toList, .iface, some ['x'], false, false⟩], true⟩],
                       [⟨['d'], false, .struct 0⟩, ⟨"routing".toList, false, .struct 1⟩]⟩
    let dec : Dec := fun _ v => some v
    ∃ st, configNew S dec 4 [] = .ok st ∧ st.get? [['d'], ['o']] = some (.scalar 1 ['1']) := by
  intro S dec
  have hok : ∃ st, configNew S dec 4 [] = .ok st := by
    simp [S, dec, configNew, decodeSpecs, lookupSection, sectionParser, paramParser, applyDefaults, paramItems,
      checkRequired, applyPatches, patchMustFallback, patchMustRules, patchEmptyDns, patchHttp, putIfAbsent,
      Store.get?, Store.put, sub, pReqFallback, pRespFallback, pRules,
      pFallback, kindAddrPort, kindHttpMethod, hasPrefixC, List.isPrefixOf]
  obtain ⟨st, hst⟩ := hok
  refine ⟨st, hst, ?_⟩
  obtain ⟨c, hc, hget⟩ := defaults_applied_scalar S dec 4 [] st hst (by simp [S]) ⟨['d'], false, .struct 0⟩
    (by simp [S]) 0 ⟨[⟨['o'], .scalar 1, some ['1'], false, false⟩], false⟩ rfl rfl (by simp)
    ⟨['o'], .scalar 1, some ['1'], false, false⟩ (by simp) 1 ['1'] rfl rfl (by decide) (by decide) (by decide)
    (by decide) (by simp [itemsOf, lookupSection])
  simp only [dec, Option.some.injEq] at hc
  subst hc
  exact hget

/-- **Oversized rule programs are a build error (traffic routing, 51cbe59)** — at the strength the
design promised: a program that lowers to more than `maxLen` match sets, the fallback entry
included, is rejected, whatever its match sets are (exactly `maxLen` is accepted, see the example
and the boundary ops of the tie). -/
theorem oversize_rejected (emit : List Char → Option Emit) (maxLen : Nat) (rules : List (List Fn × Fn))
    (k : Nat) (ds : List Nat) (hl : lowerRules emit rules 0 = .ok (k, ds)) (hbig : maxLen < k + 1) :
    compileSize emit true maxLen rules = .error .oversize :=
  compileSize_too_long emit maxLen rules k ds hl hbig

/-- For every builder, also the DNS matchers (which have no total limit: only domain sets index
their fixed-size bitmap): a DOMAIN SET at a match-set index ≥ the table size is a build error,
never an out-of-range access. -/
theorem oversize_domain_set_rejected (emit : List Char → Option Emit) (totalLimit : Bool) (maxLen : Nat)
    (rules : List (List Fn × Fn))
    (k : Nat) (ds : List Nat) (hl : lowerRules emit rules 0 = .ok (k, ds)) (hbig : ∃ i ∈ ds, maxLen ≤ i) :
    compileSize emit totalLimit maxLen rules = .error .oversize :=
  compileSize_oversize emit totalLimit maxLen rules k ds hl hbig

/-- … and a program that compiles keeps every domain set inside the table and, for the traffic
builder, has at most `maxLen` match sets in total. -/
theorem compiled_within_limit (emit : List Char → Option Emit) (totalLimit : Bool) (maxLen : Nat)
    (rules : List (List Fn × Fn)) (n : Nat) (h : compileSize emit totalLimit maxLen rules = .ok n) :
    ∃ ds, lowerRules emit rules 0 = .ok (n - 1, ds) ∧ 1 ≤ n ∧ (∀ i ∈ ds, i < maxLen) ∧
      (totalLimit = true → n ≤ maxLen) :=
  compileSize_ok emit totalLimit maxLen rules n h

example :
    let emit : List Char → Option Emit := fun n => if n = ['d'] then some .domain else if n = ['p'] then some .perValue else none
    let rules : List (List Fn × Fn) :=
      [([⟨['p'], false, [⟨[], ['8', '0']⟩, ⟨[], ['4', '4', '3']⟩]⟩], ⟨['o'], false, []⟩),
       ([⟨['d'], false, [⟨['f'], ['x']⟩]⟩], ⟨['o'], false, []⟩)]
    -- 2 port sets + 1 domain set (index 2) + fallback = 4 match sets
    compileSize emit true 4 rules = .ok 4 ∧ compileSize emit true 3 rules = .error .oversize ∧
    compileSize emit false 3 rules = .ok 4 ∧ compileSize emit false 2 rules = .error .oversize := by
  refine ⟨?_, ?_, ?_, ?_⟩ <;> rfl

/-! ## 4. The production compositions: `cmd.readConfig`, and the optimizer chain in front of the size limit -/

/-- **One section per name.** Whatever the include graph, the merged map `Merger.Merge` returns has
every section name exactly once (equal names of all files were merged), which is the precondition
`config.New` documents. -/
theorem merged_map_one_section_per_name (K : Classes) (fs : FS) (fuel : Nat) (entry : List Char) (m : SMap)
    (h : (merge K fs fuel entry).2 = .ok m) : m.names.Nodup := by
  unfold merge at h
  exact dfsMerge_names_nodup K fs (dirOf entry) fuel ⟨[], []⟩ (dfsMerge K fs (dirOf entry) fuel ⟨[], []⟩ entry).1 entry m
    (by rw [← h])

/-- **Deterministically.** `Merger.convertMapToSections` walks a Go map, so the ORDER of the sections
handed to `config.New` is unspecified.  It cannot matter: for every ordering `ss'` of the merged
sections, `config.New` returns the same typed configuration or the same error. -/
theorem readConfig_independent_of_map_order (K : Classes) (fs : FS) (S : Schema) (dec : Dec) (mfuel cfuel : Nat)
    (entry : List Char) (m : SMap) (hm : (merge K fs mfuel entry).2 = .ok m) (ss' : List ASection)
    (hp : (sectionsOf m).Perm ss') :
    configNew S dec cfuel ss' = configNew S dec cfuel (sectionsOf m) :=
  (configNew_perm S dec cfuel (sectionsOf m) ss' hp
    (by rw [sectionsOf_names]; exact merged_map_one_section_per_name K fs mfuel entry m hm)).symm

/-- **What `config.New` decodes after a merge** (`cmd.readConfig`): for every section name, the items
it decodes are the including file's own items followed by the merged items of every included file
in listed order, depth first — nothing of any file is dropped, nothing is reordered. -/
theorem readConfig_decodes_every_file_in_order (K : Classes) (fs : FS) (dir : List Char) (n : Nat) (st st' : MState)
    (entry : List Char) (m : SMap) (h : dfsMerge K fs dir (n + 1) st entry = (st', .ok m)) :
    ∃ st1 own pats children ms,
      readEntry K fs dir st entry = (st1, .ok own) ∧
      includePatterns dir (own.get "include".toList) = .ok pats ∧
      unsqueeze fs pats = .ok children ∧
      ChildMaps K fs dir n st1 children ms ∧
      ∀ name, itemsOf (sectionsOf m) name = own.get name ++ ms.flatMap (fun mc => mc.getAll name) := by
  obtain ⟨st1, own, pats, children, ms, h1, h2, h3, h4, h5⟩ := dfsMerge_order K fs dir n st st' entry m h
  refine ⟨st1, own, pats, children, ms, h1, h2, h3, h4, ?_⟩
  intro name
  rw [itemsOf_sectionsOf m (dfsMerge_names_nodup K fs dir (n + 1) st st' entry m h) name]
  exact h5 name

/-- **An unknown key or a missing required key in ANY file is an error of `readConfig`**: if
`readConfig` succeeds then, for every top-level struct section, every item filed under its name in
the merged map — from whichever file it came — is admissible for that struct, and every `required`
key is written in some file. -/
theorem readConfig_checks_every_file (K : Classes) (fs : FS) (S : Schema) (dec : Dec) (mfuel cfuel : Nat)
    (entry : List Char) (st : Store) (h : readConfig K fs S dec mfuel cfuel entry = .ok st)
    (sp : SectionSpec) (hsp : sp ∈ S.specs) (sid : Nat) (hkind : sp.kind = .struct sid) :
    ∃ m sd, (merge K fs mfuel entry).2 = .ok m ∧ S.structs[sid]? = some sd ∧
      (∀ it ∈ m.get sp.name, itemAdmissible sd it) ∧
      (∀ f ∈ sd.fields, f.required = true → ∃ it ∈ m.get sp.name, it.key? = some f.key) := by
  unfold readConfig at h
  split at h
  · simp at h
  · rename_i m hm
    split at h
    · simp at h
    · rename_i st0 hnew
      obtain ⟨sd, hsd, hadm, hreq⟩ := unknown_and_missing_keys_rejected S dec cfuel (sectionsOf m) st0 hnew sp hsp sid hkind
      have hnd := merged_map_one_section_per_name K fs mfuel entry m hm
      rw [itemsOf_sectionsOf m hnd] at hadm hreq
      exact ⟨m, sd, hm, hsd, hadm, hreq⟩

/-- non-vacuity: a one-file tree (an empty, well-protected `/e/c.dae`) and the miniature schema of the
defaults example; `readConfig` accepts it -/
example :
    let fs : FS := { stat := fun p => if p = "/e/c.dae".toList then some ⟨false, 0o600, []⟩ else none,
                     glob := fun _ => some [] }
    let S : Schema := ⟨[⟨[⟨['o'], .scalar 1, some ['1'], false, false⟩], false⟩,
                        ⟨[⟨"fallback".toList, .iface, some ['x'], false, false⟩], true⟩],
                       [⟨['d'], false, .struct 0⟩, ⟨"routing".toList, false, .struct 1⟩]⟩
    let dec : Dec := fun _ v => some v
    ∃ st, readConfig stdK fs S dec 2 4 "/e/c.dae".toList = .ok st := by
  intro fs S dec
  have hm := merge_empty_file stdK fs "/e/c.dae".toList 1 (by decide) (by decide) (by simp [fs])
  have hok : ∃ st, configNew S dec 4 [] = .ok st := by
    simp [S, dec, configNew, decodeSpecs, lookupSection, sectionParser, paramParser, applyDefaults, paramItems,
      checkRequired, applyPatches, patchMustFallback, patchMustRules, patchEmptyDns, patchHttp, putIfAbsent,
      Store.get?, Store.put, sub, pReqFallback, pRespFallback, pRules,
      pFallback, kindAddrPort, kindHttpMethod, hasPrefixC, List.isPrefixOf]
  obtain ⟨st, hst⟩ := hok
  refine ⟨st, ?_⟩
  unfold readConfig
  rw [hm]
  simp only [sectionsOf, List.map_nil, hst]

/-- **The optimizers never enlarge a program.** `routing.NewNormalizedProgram` runs the alias stage,
merges adjacent single-condition rules and removes repeated parameters before the program is
lowered.  If the program after the alias stage lowers to `k` match sets, the optimized program
lowers too (no new error), to at most `k`. -/
theorem optimizers_never_enlarge (emit : List Char → Option Emit) (withAlias : Bool) (rules : List Rule)
    (k : Nat) (ds : List Nat) (h : lowerRules emit (if withAlias then aliasRules rules else rules) 0 = .ok (k, ds)) :
    ∃ k' ds', k' ≤ k ∧ lowerRules emit (optimizeRules withAlias rules) 0 = .ok (k', ds') ∧ ∀ d ∈ ds', d < k' := by
  obtain ⟨a, ha, hk, _⟩ := lowerRules_sets emit _ 0 k ds h
  obtain ⟨b, hb, hopt⟩ := optimize_sets_le emit withAlias rules a ha
  obtain ⟨ds', hl'⟩ := lowerRules_of_sets emit _ 0 b hopt
  obtain ⟨_, _, _, hds'⟩ := lowerRules_sets emit _ 0 _ ds' hl'
  exact ⟨0 + b, ds', by omega, hl', fun d hd => (hds' d hd).2⟩

/-- **… so they never push a program over the limit**: a traffic program that fits the match-set
table as written (after the alias stage) is still accepted after merging and de-duplication, with
at most as many match sets.  (Only programs beyond the supported size are rejected for their size.) -/
theorem optimizers_never_cause_oversize (emit : List Char → Option Emit) (maxLen : Nat) (withAlias : Bool)
    (rules : List Rule) (n : Nat)
    (h : compileSize emit true maxLen (if withAlias then aliasRules rules else rules) = .ok n) :
    ∃ n', n' ≤ n ∧ compileSize emit true maxLen (optimizeRules withAlias rules) = .ok n' :=
  compileSize_optimized emit maxLen withAlias rules n h

/-- **The production path rejects what is too large AFTER the optimizers** (the program the daemon
would load): more than `maxLen` match sets, fallback included, is a build error. -/
theorem production_oversize_rejected (maxLen : Nat) (rules : List Rule) (k : Nat) (ds : List Nat)
    (hl : lowerRules routingEmit (optimizeRules true rules) 0 = .ok (k, ds)) (hbig : maxLen < k + 1) :
    compileRouting maxLen rules = .error .oversize :=
  oversize_rejected routingEmit maxLen _ k ds hl hbig

/-- non-vacuity: `dport(80) -> direct`, `dport(80) -> direct`, `dport(443) -> direct`: three sets
and the fallback as written (too many for a table of 3), one rule with two values after the
optimizers (accepted); two negated rules are not merged -/
example :
    let p : List Char → Rule := fun v => ([⟨"dport".toList, false, [⟨[], v⟩]⟩], ⟨"direct".toList, false, []⟩)
    let q : List Char → Rule := fun v => ([⟨"dport".toList, true, [⟨[], v⟩]⟩], ⟨"direct".toList, false, []⟩)
    let rules := [p "80".toList, p "80".toList, p "443".toList]
    compileSize routingEmit true 3 (aliasRules rules) = .error .oversize ∧ compileRouting 3 rules = .ok 3 ∧
    compileSize routingEmit true 4 (aliasRules rules) = .ok 4 ∧ compileRouting 4 rules = .ok 3 ∧
    compileRouting 4 [q "80".toList, q "443".toList] = .ok 3 ∧ compileRouting 2 [q "80".toList, q "443".toList] = .error .oversize := by
  intro p q rules
  refine ⟨?_, ?_, ?_, ?_, ?_, ?_⟩ <;> rfl

end DaeVerif.C17.Props
