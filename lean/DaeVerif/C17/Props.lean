import DaeVerif.C17.Proofs
/-! # C17 — property theorems -/
namespace DaeVerif.C17.Props
open DaeVerif.C17

/-- The model parser is total: every text is rejected or yields sections. -/
theorem parse_total (K : Classes) (text : List Char) :
    parse K text = none ∨ ∃ ss, parse K text = some ss := by
  cases parse K text <;> simp

end DaeVerif.C17.Props
