import DaeVerif.C17.DefaultsProofs
/-! # C17 — what a WRITTEN value becomes in the typed configuration (last occurrence of its key) -/
namespace DaeVerif.C17

/-- after one item, the loop goes on with the rest from some state -/
theorem paramItems_tail (S : Schema) (dec : Dec) (n : Nat) (sd : StructDef) (path : Path) (it : AItem)
    (rest : List AItem) (st : Store) (set : List (List Char)) (r : Store × List (List Char))
    (h : paramItems S dec n sd path (it :: rest) st set = .ok r) :
    ∃ st1 set1, paramItems S dec n sd path rest st1 set1 = .ok r := by
  unfold paramItems at h
  split at h
  · split at h
    · simp at h
    · split at h
      · simp at h
      · split at h
        · exact ⟨_, _, h⟩
        · exact ⟨_, _, h⟩
        · split at h
          · exact ⟨_, _, h⟩
          · simp at h
        · simp at h
  · split at h
    · simp at h
    · split at h
      · exact ⟨_, _, h⟩
      · split at h
        · dsimp only at h
          split at h
          · exact ⟨_, _, h⟩
          · exact ⟨_, _, h⟩
        · simp at h
      · simp at h
  · split at h
    · simp at h
    · dsimp only at h
      split at h
      · simp at h
      · exact ⟨_, _, h⟩
  · split at h
    · dsimp only at h
      split at h
      · exact ⟨_, _, h⟩
      · exact ⟨_, _, h⟩
    · simp at h

/-- the loop over `pre ++ suf` reaches `suf` in some state and finishes from there -/
theorem paramItems_suffix (S : Schema) (dec : Dec) (n : Nat) (sd : StructDef) (path : Path) :
    ∀ (pre suf : List AItem) (st : Store) (set : List (List Char)) (r : Store × List (List Char)),
    paramItems S dec n sd path (pre ++ suf) st set = .ok r →
    ∃ st1 set1, paramItems S dec n sd path suf st1 set1 = .ok r := by
  intro pre
  induction pre with
  | nil => intro suf st set r h; exact ⟨st, set, h⟩
  | cons it pre ih =>
    intro suf st set r h
    obtain ⟨st1, set1, h1⟩ := paramItems_tail S dec n sd path it (pre ++ suf) st set r h
    exact ih suf st1 set1 r h1

/-- what the loop stores for a `key: value` item, by the kind of the field -/
def writtenLeaf (dec : Dec) (kind : FKind) (val : List Char) : Option Leaf :=
  match kind with
  | .scalar k => (dec k val).map (.scalar k)
  | .iface => some (.istr val)
  | _ => none

theorem paramItems_written_head (S : Schema) (dec : Dec) (n : Nat) (sd : StructDef) (path : Path)
    (key val : List Char) (ann : List KV) (post : List AItem) (st : Store) (set : List (List Char))
    (st' : Store) (set' : List (List Char))
    (h : paramItems S dec n sd path (.str key val ann :: post) st set = .ok (st', set'))
    (f : Field) (hf : findField sd.fields key = some f) (hkind : f.kind ≠ .strList)
    (hrk : key ≠ rulesKey) (hlast : ∀ it ∈ post, it.key? ≠ some key) :
    ∃ leaf, writtenLeaf dec f.kind val = some leaf ∧ st'.get? (sub path key) = some leaf := by
  have frame : ∀ st1 set1, paramItems S dec n sd path post st1 set1 = .ok (st', set') →
      st'.get? (sub path key) = st1.get? (sub path key) := by
    intro st1 set1 hpost
    apply (frame_all S dec n).2.1 _ _ _ _ _ _ _ hpost
    intro k' more hk' heq
    have : key = k' ∧ more = [] := by
      unfold sub at heq
      have := List.append_cancel_left heq
      simp only [List.cons.injEq] at this
      exact ⟨this.1, this.2.symm⟩
    rcases hk' with rfl | ⟨it, hit, hitk⟩
    · exact hrk this.1
    · exact hlast it hit (by rw [hitk, this.1])
  unfold paramItems at h
  simp only at h
  split at h
  · simp at h
  · rw [hf] at h
    simp only at h
    split at h
    · rename_i hk
      refine ⟨.istr val, by simp [writtenLeaf, hk], ?_⟩
      rw [frame _ _ h, Store.get?_put_self]
    · rename_i hk
      exact absurd hk hkind
    · rename_i k hk
      split at h
      · rename_i c hc
        refine ⟨.scalar k c, by simp [writtenLeaf, hk, hc], ?_⟩
        rw [frame _ _ h, Store.get?_put_self]
      · simp at h
    · simp at h

/-- **A written value is what the typed configuration holds.** In one run of `ParamParser`'s item loop,
for the LAST item written under a key (`key: value`, the key naming a scalar or a function-or-string
field): the field holds `FuzzyDecode` of exactly that value (scalar) or the raw value (interface);
whatever stands before it in the section, and whatever other keys follow. -/
theorem paramItems_written (S : Schema) (dec : Dec) (n : Nat) (sd : StructDef) (path : Path)
    (pre post : List AItem) (key val : List Char) (ann : List KV) (st : Store) (set : List (List Char))
    (st' : Store) (set' : List (List Char))
    (h : paramItems S dec n sd path (pre ++ .str key val ann :: post) st set = .ok (st', set'))
    (f : Field) (hf : findField sd.fields key = some f) (hkind : f.kind ≠ .strList)
    (hrk : key ≠ rulesKey) (hlast : ∀ it ∈ post, it.key? ≠ some key) :
    ∃ leaf, writtenLeaf dec f.kind val = some leaf ∧ st'.get? (sub path key) = some leaf := by
  obtain ⟨st1, set1, h1⟩ := paramItems_suffix S dec n sd path pre _ st set _ h
  exact paramItems_written_head S dec n sd path key val ann post st1 set1 st' set' h1 f hf hkind hrk hlast

/-- the same for a whole `ParamParser` run (defaults first, required-check last) -/
theorem paramParser_written (S : Schema) (dec : Dec) (n sid : Nat) (path : Path)
    (pre post : List AItem) (key val : List Char) (ann : List KV) (st st' : Store)
    (h : paramParser S dec (n + 1) sid path (pre ++ .str key val ann :: post) st = .ok st')
    (sd : StructDef) (hsd : S.structs[sid]? = some sd)
    (f : Field) (hf : findField sd.fields key = some f) (hkind : f.kind ≠ .strList)
    (hrk : key ≠ rulesKey) (hlast : ∀ it ∈ post, it.key? ≠ some key) :
    ∃ leaf, writtenLeaf dec f.kind val = some leaf ∧ st'.get? (sub path key) = some leaf := by
  rw [paramParser] at h
  rw [hsd] at h
  simp only at h
  split at h
  · simp at h
  · split at h
    · simp at h
    · rename_i st2 set hitems
      split at h
      · simp only [Except.ok.injEq] at h
        subst h
        exact paramItems_written S dec n sd path pre post key val ann _ [] _ set hitems f hf hkind hrk hlast
      · simp at h

end DaeVerif.C17
