import DaeVerif.C17.Model
/-!
# C17 — the production compositions (core-only, executed by `c17drv`)

1. `readConfig` — `cmd.readConfig`: `Merger.Merge` followed by `config.New` on the merged sections.
2. `optimizeRules` — what `routing.NewNormalizedProgram` does to a rule program before it is lowered
   (`AliasOptimizer`, `MergeAndSortRulesOptimizer`, `DeduplicateParamsOptimizer`; the geodata reader is
   the identity on programs without `geosite:` / `geoip:` / `ext:` parameters), as far as the NUMBER and
   POSITION of the match sets is concerned, and `compileConfig`: typed configuration → optimizers →
   `compileSize`.
-/
namespace DaeVerif.C17

/-! ## 1. `cmd.readConfig` -/

/-- `Merger.convertMapToSections`: one section per name of the merged map.  (The Go map is iterated
in an unspecified order; `configNew_perm_invariant` shows the order cannot matter.) -/
def sectionsOf (m : SMap) : List ASection := m.map fun e => ⟨e.1, e.2⟩

inductive RErr where
  | merge (e : MErr)
  | new (e : CErr) (sec : List Char)
  deriving Repr

/-- `cmd.readConfig(cfgFile)`: merge the include tree, then build the typed configuration. -/
def readConfig (K : Classes) (fs : FS) (S : Schema) (dec : Dec) (mfuel cfuel : Nat) (entry : List Char) :
    Except RErr Store :=
  match (merge K fs mfuel entry).2 with
  | .error e => .error (.merge e)
  | .ok m =>
    match configNew S dec cfuel (sectionsOf m) with
    | .error (e, sec) => .error (.new e sec)
    | .ok st => .ok st

/-! ## 2. the rule optimizers, as far as the number and position of match sets goes -/

/-- `AliasOptimizer`, the parameter keys of `domain(...)`: `""`/`domain` → `suffix`, `contains` → `keyword` -/
def aliasKey (p : KV) : KV :=
  if p.key = [] ∨ p.key = "domain".toList then ⟨"suffix".toList, p.val⟩
  else if p.key = "contains".toList then ⟨"keyword".toList, p.val⟩
  else p

/-- `AliasOptimizer` on one function: `dport` → `port`, `dip` → `ip`, then the keys of `domain` -/
def aliasFn (f : Fn) : Fn :=
  let name := if f.name = "dport".toList then "port".toList else if f.name = "dip".toList then "ip".toList else f.name
  ⟨name, f.neg, if name = "domain".toList then f.params.map aliasKey else f.params⟩

abbrev Rule := List Fn × Fn

def aliasRules (rules : List Rule) : List Rule := rules.map fun r => (r.1.map aliasFn, r.2)

/-- byte-wise `<` of Go strings = code-point-wise `<` of the characters (UTF-8 keeps the order) -/
def ltChars : List Char → List Char → Bool
  | [], [] => false
  | [], _ :: _ => true
  | _ :: _, [] => false
  | a :: as, b :: bs => if a.toNat < b.toNat then true else if b.toNat < a.toNat then false else ltChars as bs

/-- insertion into a list sorted by name: after every function whose name is smaller, before the
first whose name is not (so that equal names keep their written order) -/
def insertFn (x : Fn) : List Fn → List Fn
  | [] => [x]
  | g :: gs => if ltChars g.name x.name then g :: insertFn x gs else x :: g :: gs

/-- `sort.SliceStable(rule.AndFunctions, by Name)`: a stable sort by function name -/
def sortFns (fs : List Fn) : List Fn := fs.foldr insertFn []

/-- "Merge singleton rules with the same outbound": `cur` is the rule being merged into.  Two
adjacent rules are merged when both have exactly one condition, of the same function, neither
negated, and their outbounds are written identically (`sameOutbound`: name, negation, every
parameter's key and value). -/
def mergeRules : Rule → List Rule → List Rule
  | cur, [] => [cur]
  | cur, r :: rs =>
    match cur.1, r.1 with
    | [f], [g] =>
      if f.name = g.name ∧ f.neg = false ∧ g.neg = false ∧ r.2 = cur.2 then
        mergeRules ([⟨f.name, f.neg, f.params ++ g.params⟩], cur.2) rs
      else cur :: mergeRules r rs
    | _, _ => cur :: mergeRules r rs

/-- `MergeAndSortRulesOptimizer` without its final parameter sort (which changes neither the
number of key groups nor the number of values of a function) -/
def mergeAndSort (rules : List Rule) : List Rule :=
  match rules.map (fun r => (sortFns r.1, r.2)) with
  | [] => []
  | r :: rs => mergeRules r rs

/-- `deduplicateParams`: the first occurrence of every (key, value) pair is kept -/
def dedupKV (seen : List KV) : List KV → List KV
  | [] => []
  | p :: ps => if seen.contains p then dedupKV seen ps else p :: dedupKV (p :: seen) ps

def dedupRules (rules : List Rule) : List Rule :=
  rules.map fun r => (r.1.map fun f => ⟨f.name, f.neg, dedupKV [] f.params⟩, r.2)

/-- a parameter the geodata reader would expand (`geosite:`, `geoip:`, `ext:`) -/
def usesGeodata (rules : List Rule) : Bool :=
  rules.any fun r => r.1.any fun f => f.params.any fun p =>
    p.key = "geosite".toList || p.key = "geoip".toList || p.key = "ext".toList

/-- the optimizer chain of `routing.NewNormalizedProgram` as the traffic builder (`withAlias`) and the
DNS response builder (no alias stage) call it, on programs without geodata parameters -/
def optimizeRules (withAlias : Bool) (rules : List Rule) : List Rule :=
  dedupRules (mergeAndSort (if withAlias then aliasRules rules else rules))

/-- the last item named `name` that is a section -/
def subSection (items : List AItem) (name : List Char) : List AItem :=
  match items.reverse.find? (fun | .sec n _ => n = name | _ => false) with
  | some (.sec _ body) => body
  | _ => []

/-- the traffic rules of a parsed configuration as `config.New` hands them on: the rule items of
the (last) `routing` section with `patchMustOutbound` applied -/
def routingRulesOf (ss : List ASection) : List Rule :=
  match lookupSection ss "routing".toList with
  | none => []
  | some sec => (sec.items.filterMap fun | .rule fs o => some (fs, mustPatchFn o) | _ => none)

/-- the rules of `dns { routing { response { … } } }` -/
def dnsResponseRulesOf (ss : List ASection) : List Rule :=
  match lookupSection ss "dns".toList with
  | none => []
  | some sec =>
    (subSection (subSection sec.items "routing".toList) "response".toList).filterMap
      fun | .rule fs o => some (fs, o) | _ => none

/-- production path of the traffic rules: optimizers, then lowering with the total-length check -/
def compileRouting (maxLen : Nat) (rules : List Rule) : Except SizeErr Nat :=
  compileSize routingEmit true maxLen (optimizeRules true rules)

/-- production path of the DNS response rules (`dns.New`): no alias stage, no total limit -/
def compileDnsResponse (maxLen : Nat) (rules : List Rule) : Except SizeErr Nat :=
  compileSize dnsResponseEmit false maxLen (optimizeRules false rules)

end DaeVerif.C17
