import DaeVerif.C17.ConfigProofs
/-! # C17 — documented defaults are applied (present or omitted sections) -/
namespace DaeVerif.C17

/-! ## the store -/

theorem Store.get?_put (st : Store) (p q : Path) (v : Leaf) :
    (st.put p v).get? q = if p = q then some v else st.get? q := by
  unfold Store.put Store.get?
  by_cases hany : st.any (fun e => e.1 = p) = true
  · simp only [hany, if_true]
    rw [List.find?_map]
    have hcomp : ((fun e : Path × Leaf => decide (e.1 = q)) ∘
        (fun e : Path × Leaf => if e.1 = p then (p, v) else e)) = (fun e => decide (e.1 = q)) := by
      funext e
      simp only [Function.comp]
      split
      · rename_i h; simp [h]
      · rfl
    rw [hcomp]
    cases hfind : st.find? (fun e => decide (e.1 = q)) with
    | none =>
      have hne : ¬ p = q := by
        rintro rfl
        obtain ⟨x, hx, hxk⟩ := List.any_eq_true.mp hany
        have := List.find?_eq_none.mp hfind x hx
        simp at hxk
        simp [hxk] at this
      simp [hne]
    | some e =>
      have he : e.1 = q := by simpa using List.find?_some hfind
      by_cases hek : e.1 = p
      · have : p = q := hek ▸ he
        simp [hek, this]
      · have : ¬ p = q := by rintro rfl; exact hek he
        simp [hek, this]
  · simp only [hany, Bool.false_eq_true, if_false]
    rw [List.find?_append]
    cases hfind : st.find? (fun e => decide (e.1 = q)) with
    | none => by_cases hk : p = q <;> simp [hk]
    | some e =>
      have he : e.1 = q := by simpa using List.find?_some hfind
      have hmem := List.mem_of_find?_eq_some hfind
      have hne : ¬ p = q := by
        rintro rfl
        apply hany
        exact List.any_eq_true.mpr ⟨e, hmem, by simp [he]⟩
      simp [hne]

theorem Store.get?_put_ne (st : Store) {p q : Path} (v : Leaf) (h : p ≠ q) :
    (st.put p v).get? q = st.get? q := by
  rw [Store.get?_put]; simp [h]

theorem Store.get?_put_self (st : Store) (p : Path) (v : Leaf) : (st.put p v).get? p = some v := by
  rw [Store.get?_put]; simp

/-! ## defaults -/

theorem applyDefaults_frame (dec : Dec) (path : Path) : ∀ (fields : List Field) (st st' : Store),
    applyDefaults dec path fields st = .ok st' →
    ∀ q, (∀ f ∈ fields, q ≠ sub path f.key) → st'.get? q = st.get? q := by
  intro fields
  induction fields with
  | nil => intro st st' h q _; simp only [applyDefaults, Except.ok.injEq] at h; rw [h]
  | cons f fs ih =>
    intro st st' h q hq
    have hq0 : sub path f.key ≠ q := fun e => hq f List.mem_cons_self e.symm
    have hqs : ∀ g ∈ fs, q ≠ sub path g.key := fun g hg => hq g (List.mem_cons_of_mem _ hg)
    unfold applyDefaults at h
    split at h
    · exact ih st st' h q hqs
    · split at h
      · rw [ih _ st' h q hqs, Store.get?_put_ne _ _ hq0]
      · split at h
        · rw [ih _ st' h q hqs, Store.get?_put_ne _ _ hq0]
        · simp at h
      · rw [ih _ st' h q hqs, Store.get?_put_ne _ _ hq0]
      · simp at h

theorem sub_inj {path : Path} {a b : List Char} (h : sub path a = sub path b) : a = b := by
  unfold sub at h
  simpa using List.append_cancel_left h

/-- what "fill in default value before parsing section" stores for a field of this kind:
`FuzzyDecode` of the tag for scalars, the raw tag for interface fields, `strings.Split(tag, ",")`
for string lists (other kinds with a `default:` tag are a decode error) -/
def defaultLeaf (dec : Dec) : FKind → List Char → Option Leaf
  | .scalar k, d => (dec k d).map (.scalar k)
  | .iface, d => some (.istr d)
  | .strList, d => some (.strs (splitOnC ',' d))
  | _, _ => none

/-- after "fill in default value before parsing section", every field with a `default:` tag
holds its default -/
theorem applyDefaults_sets (dec : Dec) (path : Path) : ∀ (fields : List Field) (st st' : Store),
    applyDefaults dec path fields st = .ok st' → (fields.map (·.key)).Nodup →
    ∀ f ∈ fields, ∀ d, f.dflt = some d →
      ∃ leaf, defaultLeaf dec f.kind d = some leaf ∧ st'.get? (sub path f.key) = some leaf := by
  intro fields
  induction fields with
  | nil => intro st st' _ _ f hf; simp at hf
  | cons g gs ih =>
    intro st st' h hnd f hf d hd
    simp only [List.map_cons, List.nodup_cons] at hnd
    rcases List.mem_cons.mp hf with rfl | hf'
    · -- the head field: it is set now and the others do not touch it
      have tail : ∀ (leaf : Leaf), applyDefaults dec path gs (st.put (sub path f.key) leaf) = .ok st' →
          st'.get? (sub path f.key) = some leaf := by
        intro leaf h'
        rw [applyDefaults_frame dec path gs _ st' h' (sub path f.key) ?_, Store.get?_put_self]
        intro g' hg' heq
        exact hnd.1 (by rw [sub_inj heq]; exact List.mem_map_of_mem hg')
      unfold applyDefaults at h
      rw [hd] at h
      simp only at h
      split at h
      · rename_i hkind
        exact ⟨.istr d, by simp [defaultLeaf, hkind], tail _ h⟩
      · rename_i k hkind
        split at h
        · rename_i c hc
          exact ⟨.scalar k c, by simp [defaultLeaf, hkind, hc], tail _ h⟩
        · simp at h
      · rename_i hkind
        exact ⟨.strs (splitOnC ',' d), by simp [defaultLeaf, hkind], tail _ h⟩
      · simp at h
    · unfold applyDefaults at h
      split at h
      · exact ih st st' h hnd.2 f hf' d hd
      · split at h
        · exact ih _ st' h hnd.2 f hf' d hd
        · split at h
          · exact ih _ st' h hnd.2 f hf' d hd
          · simp at h
        · exact ih _ st' h hnd.2 f hf' d hd
        · simp at h

/-! ## frame: who writes where -/

theorem stringListParser_frame (p : Path) : ∀ (items : List AItem) (st st' : Store),
    stringListParser p items st = .ok st' → ∀ q, q ≠ p → st'.get? q = st.get? q := by
  intro items
  induction items with
  | nil => intro st st' h q _; simp only [stringListParser, Except.ok.injEq] at h; rw [h]
  | cons it rest ih =>
    intro st st' h q hq
    unfold stringListParser at h
    split at h
    · simp at h
    · rw [ih _ st' h q hq, Store.get?_put_ne _ _ (Ne.symm hq)]

def rulesKey : List Char := "#rules".toList

/-- frame statements of the two fuel-recursive parsers at fuel `n` -/
def FrameP (S : Schema) (dec : Dec) (n : Nat) : Prop :=
  (∀ sid path items st st', paramParser S dec n sid path items st = .ok st' →
    ∀ q, ¬ path <+: q → st'.get? q = st.get? q) ∧
  (∀ kind path items st st', sectionParser S dec n kind path items st = .ok st' →
    ∀ q, ¬ path <+: q → st'.get? q = st.get? q)

/-- frame statements of the two item loops at fuel `n` -/
def FrameI (S : Schema) (dec : Dec) (n : Nat) : Prop :=
  (∀ sd path items st set st' set', paramItems S dec n sd path items st set = .ok (st', set') →
    ∀ q, (∀ k more, (k = rulesKey ∨ ∃ it ∈ items, it.key? = some k) → q ≠ path ++ k :: more) →
      st'.get? q = st.get? q) ∧
  (∀ sid path items st st', structListItems S dec n sid path items st = .ok st' →
    ∀ q, ¬ path <+: q → st'.get? q = st.get? q)

theorem prefix_sub {path q : Path} {k : List Char} (h : sub path k <+: q) : ∃ more, q = path ++ k :: more := by
  obtain ⟨t, ht⟩ := h
  exact ⟨t, by rw [← ht]; simp [sub]⟩

theorem frameI_of_frameP (S : Schema) (dec : Dec) (n : Nat) (hP : FrameP S dec n) : FrameI S dec n := by
  refine ⟨?_, ?_⟩
  · intro sd path items
    induction items with
    | nil =>
      intro st set st' set' h q _
      simp only [paramItems, Except.ok.injEq, Prod.mk.injEq] at h
      rw [h.1]
    | cons it rest ih =>
      intro st set st' set' h q hq
      have hrest : ∀ k more, (k = rulesKey ∨ ∃ x ∈ rest, x.key? = some k) → q ≠ path ++ k :: more := by
        intro k more hk
        apply hq k more
        rcases hk with hk | ⟨x, hx, hxk⟩
        · exact Or.inl hk
        · exact Or.inr ⟨x, List.mem_cons_of_mem _ hx, hxk⟩
      have hkey : ∀ key, it.key? = some key → sub path key ≠ q := by
        intro key hkey heq
        exact hq key [] (Or.inr ⟨it, List.mem_cons_self, hkey⟩) (by rw [← heq]; rfl)
      unfold paramItems at h
      split at h
      · rename_i key val ann
        split at h
        · simp at h
        · split at h
          · simp at h
          · split at h
            · rw [ih _ _ st' set' h q hrest, Store.get?_put_ne _ _ (hkey key rfl)]
            · rw [ih _ _ st' set' h q hrest, Store.get?_put_ne _ _ (hkey key rfl)]
            · split at h
              · rw [ih _ _ st' set' h q hrest, Store.get?_put_ne _ _ (hkey key rfl)]
              · simp at h
            · simp at h
      · rename_i key fs ann
        split at h
        · simp at h
        · split at h
          · rw [ih _ _ st' set' h q hrest, Store.get?_put_ne _ _ (hkey key rfl)]
          · split at h
            · dsimp only at h
              split at h
              · rw [ih _ _ st' set' h q hrest, Store.get?_put_ne _ _ (hkey key rfl)]
              · rw [ih _ _ st' set' h q hrest, Store.get?_put_ne _ _ (hkey key rfl)]
            · simp at h
          · simp at h
      · rename_i name sitems
        split at h
        · simp at h
        · dsimp only at h
          split at h
          · simp at h
          · rename_i st1 hsec
            rw [ih _ _ st' set' h q hrest]
            have hnp : ¬ sub path name <+: q := by
              intro hpre
              obtain ⟨more, hmore⟩ := prefix_sub hpre
              exact hq name more (Or.inr ⟨_, List.mem_cons_self, rfl⟩) hmore
            rw [hP.2 _ _ _ _ _ hsec q hnp]
            split
            · exact Store.get?_put_ne _ _ (fun e => hnp (e ▸ List.prefix_refl _))
            · rfl
      · rename_i fs out
        split at h
        · have hr : sub path "#rules".toList ≠ q := by
            intro heq
            exact hq rulesKey [] (Or.inl rfl) (by rw [← heq]; rfl)
          dsimp only at h
          split at h
          · rw [ih _ _ st' set' h q hrest, Store.get?_put_ne _ _ hr]
          · rw [ih _ _ st' set' h q hrest, Store.get?_put_ne _ _ hr]
        · simp at h
  · intro sid path items
    induction items with
    | nil => intro st st' h q _; simp only [structListItems, Except.ok.injEq] at h; rw [h]
    | cons it rest ih =>
      intro st st' h q hq
      unfold structListItems at h
      split at h
      · rename_i name sitems
        dsimp only at h
        split at h
        · simp at h
        · rename_i st1 hpp
          rw [ih _ st' h q hq]
          have hne : path ≠ q := fun e => hq (e ▸ List.prefix_refl _)
          rw [Store.get?_put_ne _ _ hne]
          have hep : ¬ (path ++ ['[' :: (natStr (getCount st path) ++ [']'])]) <+: q :=
            fun hpre => hq (List.IsPrefix.trans (List.prefix_append _ _) hpre)
          rw [hP.1 _ _ _ _ _ hpp q hep]
          apply Store.get?_put_ne
          intro heq
          apply hq
          rw [← heq]
          unfold sub
          rw [List.append_assoc]
          exact List.prefix_append _ _
      · simp at h

theorem frameP_succ (S : Schema) (dec : Dec) (n : Nat) (hP : FrameP S dec n) (hI : FrameI S dec n) :
    FrameP S dec (n + 1) := by
  refine ⟨?_, ?_⟩
  · intro sid path items st st' h q hq
    rw [paramParser] at h
    split at h
    · simp at h
    · rename_i sd _
      split at h
      · simp at h
      · rename_i st1 hdef
        split at h
        · simp at h
        · rename_i st2 set hitems
          split at h
          · simp only [Except.ok.injEq] at h
            subst h
            rw [hI.1 _ _ _ _ _ _ _ hitems q ?_, applyDefaults_frame dec path _ _ _ hdef q ?_]
            · intro f _ heq
              exact hq (heq ▸ List.prefix_append _ _)
            · intro k more _ heq
              exact hq (heq ▸ List.prefix_append _ _)
          · simp at h
  · intro kind path items st st' h q hq
    unfold sectionParser at h
    split at h
    · exact stringListParser_frame path items st st' h q (fun e => hq (e ▸ List.prefix_refl _))
    · exact hP.1 _ _ _ _ _ h q hq
    · exact hI.2 _ _ _ _ _ h q hq
    · simp at h

theorem frame_all (S : Schema) (dec : Dec) : ∀ n, FrameP S dec n ∧ FrameI S dec n := by
  intro n
  induction n with
  | zero =>
    have hP : FrameP S dec 0 := by
      refine ⟨?_, ?_⟩
      · intro sid path items st st' h; simp [paramParser] at h
      · intro kind path items st st' h; simp [sectionParser] at h
    exact ⟨hP, frameI_of_frameP S dec 0 hP⟩
  | succ n ih =>
    have hP := frameP_succ S dec n ih.1 ih.2
    exact ⟨hP, frameI_of_frameP S dec (n + 1) hP⟩

/-! ## defaults of one struct -/

/-- **Defaults, one struct.** After a successful `ParamParser`, a scalar field with a `default:`
tag whose key is not written in the section holds the decoded default — at any nesting depth. -/
theorem paramParser_defaults (S : Schema) (dec : Dec) (n sid : Nat) (path : Path) (items : List AItem)
    (st st' : Store) (h : paramParser S dec (n + 1) sid path items st = .ok st')
    (sd : StructDef) (hsd : S.structs[sid]? = some sd) (hnd : (sd.fields.map (·.key)).Nodup)
    (f : Field) (hf : f ∈ sd.fields) (d : List Char) (hd : f.dflt = some d)
    (hrk : f.key ≠ rulesKey) (hno : ∀ it ∈ items, it.key? ≠ some f.key) :
    ∃ leaf, defaultLeaf dec f.kind d = some leaf ∧ st'.get? (sub path f.key) = some leaf := by
  rw [paramParser] at h
  rw [hsd] at h
  simp only at h
  split at h
  · simp at h
  · rename_i st1 hdef
    obtain ⟨c, hc, hget⟩ := applyDefaults_sets dec path sd.fields st st1 hdef hnd f hf d hd
    split at h
    · simp at h
    · rename_i st2 set hitems
      split at h
      · simp only [Except.ok.injEq] at h
        subst h
        refine ⟨c, hc, ?_⟩
        rw [(frame_all S dec n).2.1 _ _ _ _ _ _ _ hitems (sub path f.key) ?_, hget]
        intro k' more hk' heq
        have : f.key = k' ∧ more = [] := by
          unfold sub at heq
          have := List.append_cancel_left heq
          simp only [List.cons.injEq] at this
          exact ⟨this.1, this.2.symm⟩
        rcases hk' with rfl | ⟨it, hit, hitk⟩
        · exact hrk this.1
        · exact hno it hit (by rw [hitk, this.1])
      · simp at h

/-! ## defaults of the whole configuration -/

def soMarkPath : Path := ["global".toList, "so_mark_from_dae_set".toList]

theorem decodeSpecs_frame (S : Schema) (dec : Dec) (fuel : Nat) (ss : List ASection) :
    ∀ (specs : List SectionSpec) (st st' : Store), decodeSpecs S dec fuel ss specs st = .ok st' →
    ∀ q, (∀ sp ∈ specs, ¬ [sp.name] <+: q) → q ≠ soMarkPath → st'.get? q = st.get? q := by
  intro specs
  induction specs with
  | nil => intro st st' h q _ _; simp only [decodeSpecs, Except.ok.injEq] at h; rw [h]
  | cons sp rest ih =>
    intro st st' h q hq hso
    have hq0 : ¬ [sp.name] <+: q := hq sp List.mem_cons_self
    have hqr : ∀ sp' ∈ rest, ¬ [sp'.name] <+: q := fun sp' h' => hq sp' (List.mem_cons_of_mem _ h')
    have hsec := (frame_all S dec fuel).1.2
    have hso' : (["global".toList, "so_mark_from_dae_set".toList] : Path) ≠ q := Ne.symm hso
    unfold decodeSpecs at h
    split at h
    · split at h
      · simp at h
      · rename_i st1 hs
        rw [ih _ st' h q hqr hso, hsec _ _ _ _ _ hs q hq0]
    · split at h
      · simp at h
      · rename_i st1 hs
        rw [ih _ st' h q hqr hso]
        split
        · rw [Store.get?_put_ne _ _ hso', hsec _ _ _ _ _ hs q hq0]
        · exact hsec _ _ _ _ _ hs q hq0

theorem decodeSpecs_defaults (S : Schema) (dec : Dec) (fuel : Nat) (ss : List ASection) :
    ∀ (specs : List SectionSpec) (st st' : Store), decodeSpecs S dec fuel ss specs st = .ok st' →
    (specs.map (·.name)).Nodup →
    ∀ sp ∈ specs, ∀ sid sd, sp.kind = .struct sid → S.structs[sid]? = some sd → (sd.fields.map (·.key)).Nodup →
    ∀ f ∈ sd.fields, ∀ d, f.dflt = some d → f.key ≠ rulesKey →
      [sp.name, f.key] ≠ soMarkPath →
      (∀ it ∈ itemsOf ss sp.name, it.key? ≠ some f.key) →
      ∃ leaf, defaultLeaf dec f.kind d = some leaf ∧ st'.get? [sp.name, f.key] = some leaf := by
  intro specs
  induction specs with
  | nil => intro st st' _ _ sp hsp; simp at hsp
  | cons sp0 rest ih =>
    intro st st' h hnd sp hsp sid sd hkind hsd hfnd f hf d hd hrk hso hno
    simp only [List.map_cons, List.nodup_cons] at hnd
    rcases List.mem_cons.mp hsp with rfl | hsp'
    · -- this spec is decoded now; the later ones write elsewhere
      have hlater : ∀ sp' ∈ rest, ¬ [sp'.name] <+: [sp.name, f.key] := by
        intro sp' hsp' hpre
        obtain ⟨t, ht⟩ := hpre
        simp only [List.cons_append, List.nil_append, List.cons.injEq] at ht
        exact hnd.1 (by rw [← ht.1]; exact List.mem_map_of_mem hsp')
      have core : ∀ (items : List AItem) (st1 : Store),
          sectionParser S dec fuel sp.kind [sp.name] items st = .ok st1 →
          (∀ it ∈ items, it.key? ≠ some f.key) →
          ∃ leaf, defaultLeaf dec f.kind d = some leaf ∧ st1.get? [sp.name, f.key] = some leaf := by
        intro items st1 hs hnoi
        cases fuel with
        | zero => simp [sectionParser] at hs
        | succ m =>
          simp only [sectionParser, hkind] at hs
          cases m with
          | zero => simp [paramParser] at hs
          | succ n =>
            exact paramParser_defaults S dec n sid [sp.name] items st st1 hs sd hsd hfnd f hf d hd hrk hnoi
      unfold decodeSpecs at h
      split at h
      · rename_i hlook
        split at h
        · simp at h
        · rename_i st1 hs
          obtain ⟨c, hc, hget⟩ := core [] st1 hs (by simp)
          exact ⟨c, hc, by rw [decodeSpecs_frame S dec fuel ss rest _ st' h _ hlater hso, hget]⟩
      · rename_i sec hlook
        split at h
        · simp at h
        · rename_i st1 hs
          have hitems : itemsOf ss sp.name = sec.items := by simp [itemsOf, hlook]
          obtain ⟨c, hc, hget⟩ := core sec.items st1 hs (by rw [← hitems]; exact hno)
          refine ⟨c, hc, ?_⟩
          rw [decodeSpecs_frame S dec fuel ss rest _ st' h _ hlater hso]
          have hso' : (["global".toList, "so_mark_from_dae_set".toList] : Path) ≠ [sp.name, f.key] := Ne.symm hso
          split
          · rw [Store.get?_put_ne _ _ hso', hget]
          · exact hget
    · -- an earlier spec: whatever it does, the target spec is decoded later
      unfold decodeSpecs at h
      split at h
      · split at h
        · simp at h
        · exact ih _ st' h hnd.2 sp hsp' sid sd hkind hsd hfnd f hf d hd hrk hso hno
      · split at h
        · simp at h
        · exact ih _ st' h hnd.2 sp hsp' sid sd hkind hsd hfnd f hf d hd hrk hso hno


/-! ## the patches touch five fixed paths -/

theorem putIfAbsent_frame (st : Store) (p q : Path) (v : Leaf) (h : p ≠ q) :
    (putIfAbsent st p v).get? q = st.get? q := by
  unfold putIfAbsent
  split
  · exact Store.get?_put_ne _ _ h
  · rfl

theorem applyPatches_frame (dec : Dec) (st st' : Store) (h : applyPatches dec st = .ok st') (q : Path)
    (h1 : pHttpMethod ≠ q) (h2 : pReqFallback ≠ q) (h3 : pRespFallback ≠ q) (h4 : pRules ≠ q)
    (h5 : pFallback ≠ q) : st'.get? q = st.get? q := by
  unfold applyPatches at h
  split at h
  · simp at h
  · have e1 : (patchHttp dec st).get? q = st.get? q := by
      unfold patchHttp; split
      · rfl
      · exact Store.get?_put_ne _ _ h1
    have e2 : (patchEmptyDns (patchHttp dec st)).get? q = st.get? q := by
      unfold patchEmptyDns
      rw [putIfAbsent_frame _ _ _ _ h3, putIfAbsent_frame _ _ _ _ h2, e1]
    have e3 : (patchMustRules (patchEmptyDns (patchHttp dec st))).get? q = st.get? q := by
      unfold patchMustRules; split
      · rw [Store.get?_put_ne _ _ h4, e2]
      · exact e2
    unfold patchMustFallback at h
    dsimp only at h
    split at h
    · simp at h
    · split at h
      · simp only [Except.ok.injEq] at h
        rw [← h, Store.get?_put_ne _ _ h5, e3]
      · simp only [Except.ok.injEq] at h
        rw [← h, e3]

/-- **Defaults, whole configuration.** In the typed configuration returned by `config.New`, a
scalar field of a top-level struct section that carries a `default:` tag and is not written in the
configuration holds the decoded default — whether the section is present or omitted. -/
theorem configNew_defaults (S : Schema) (dec : Dec) (fuel : Nat) (ss : List ASection) (st' : Store)
    (h : configNew S dec fuel ss = .ok st') (hnames : (S.specs.map (·.name)).Nodup)
    (sp : SectionSpec) (hsp : sp ∈ S.specs) (sid : Nat) (sd : StructDef) (hkind : sp.kind = .struct sid)
    (hsd : S.structs[sid]? = some sd) (hfnd : (sd.fields.map (·.key)).Nodup)
    (f : Field) (hf : f ∈ sd.fields) (d : List Char) (hd : f.dflt = some d)
    (hrk : f.key ≠ rulesKey) (hso : [sp.name, f.key] ≠ soMarkPath)
    (hp1 : pHttpMethod ≠ [sp.name, f.key]) (hp2 : pFallback ≠ [sp.name, f.key])
    (hno : ∀ it ∈ itemsOf ss sp.name, it.key? ≠ some f.key) :
    ∃ leaf, defaultLeaf dec f.kind d = some leaf ∧ st'.get? [sp.name, f.key] = some leaf := by
  unfold configNew at h
  split at h
  · simp at h
  · split at h
    · simp at h
    · rename_i st hdec
      split at h
      · simp at h
      · split at h
        · simp at h
        · rename_i st2 hpatch
          simp only [Except.ok.injEq] at h
          subst h
          obtain ⟨c, hc, hget⟩ := decodeSpecs_defaults S dec fuel ss S.specs [] st hdec hnames sp hsp sid sd
            hkind hsd hfnd f hf d hd hrk hso hno
          refine ⟨c, hc, ?_⟩
          rw [applyPatches_frame dec st st2 hpatch _ hp1 (by simp [pReqFallback]) (by simp [pRespFallback]) ?_ hp2,
            hget]
          intro heq
          simp only [pRules, List.cons.injEq, and_true] at heq
          exact hrk heq.2.symm


/-! ## the two defaults the patch stage may rewrite on purpose -/

theorem configNew_stages (S : Schema) (dec : Dec) (fuel : Nat) (ss : List ASection) (st' : Store)
    (h : configNew S dec fuel ss = .ok st') :
    ∃ st, decodeSpecs S dec fuel ss S.specs [] = .ok st ∧ applyPatches dec st = .ok st' := by
  unfold configNew at h
  split at h
  · simp at h
  · split at h
    · simp at h
    · rename_i st hdec
      split at h
      · simp at h
      · split at h
        · simp at h
        · rename_i st2 hpatch
          simp only [Except.ok.injEq] at h
          subst h
          exact ⟨st, hdec, hpatch⟩

/-- the store on which `patchMustOutbound`'s fallback step works -/
def prePatch (dec : Dec) (st : Store) : Store := patchMustRules (patchEmptyDns (patchHttp dec st))

theorem prePatch_frame (dec : Dec) (st : Store) (q : Path)
    (h1 : pHttpMethod ≠ q) (h2 : pReqFallback ≠ q) (h3 : pRespFallback ≠ q) (h4 : pRules ≠ q) :
    (prePatch dec st).get? q = st.get? q := by
  have e1 : (patchHttp dec st).get? q = st.get? q := by
    unfold patchHttp; split
    · rfl
    · exact Store.get?_put_ne _ _ h1
  have e2 : (patchEmptyDns (patchHttp dec st)).get? q = st.get? q := by
    unfold patchEmptyDns
    rw [putIfAbsent_frame _ _ _ _ h3, putIfAbsent_frame _ _ _ _ h2, e1]
  unfold prePatch patchMustRules; split
  · rw [Store.get?_put_ne _ _ h4, e2]
  · exact e2

/-- `routing.fallback` given as a plain name without the `must_` prefix survives the patches -/
theorem applyPatches_fallback_kept (dec : Dec) (st st' : Store) (h : applyPatches dec st = .ok st')
    (s : List Char) (hs : st.get? pFallback = some (.istr s)) (hm : hasPrefixC s "must_".toList = false) :
    st'.get? pFallback = some (.istr s) := by
  unfold applyPatches at h
  split at h
  · simp at h
  · have e3 : (prePatch dec st).get? pFallback = some (.istr s) := by
      rw [prePatch_frame dec st pFallback (by simp [pHttpMethod, pFallback]) (by simp [pReqFallback, pFallback])
        (by simp [pRespFallback, pFallback]) (by simp [pRules, pFallback]), hs]
    change patchMustFallback (prePatch dec st) = .ok st' at h
    unfold patchMustFallback at h
    rw [e3] at h
    simp only [hm, Bool.false_eq_true, if_false, Except.ok.injEq] at h
    rw [← h, e3]

/-- a valid `global.tcp_check_http_method` survives the patches -/
theorem applyPatches_http_kept (dec : Dec) (st st' : Store) (h : applyPatches dec st = .ok st')
    (k : Nat) (c : List Char) (hs : st.get? pHttpMethod = some (.scalar k c)) (hv : dec kindHttpMethod c ≠ none) :
    st'.get? pHttpMethod = some (.scalar k c) := by
  unfold applyPatches at h
  split at h
  · simp at h
  · have e1 : patchHttp dec st = st := by
      unfold patchHttp scalarAt
      rw [hs]
      simp only
      split
      · rfl
      · rename_i hnone; exact absurd hnone hv
    have e3 : (patchMustRules (patchEmptyDns st)).get? pHttpMethod = some (.scalar k c) := by
      have e2 : (patchEmptyDns st).get? pHttpMethod = st.get? pHttpMethod := by
        unfold patchEmptyDns
        rw [putIfAbsent_frame _ _ _ _ (by simp [pRespFallback, pHttpMethod]),
          putIfAbsent_frame _ _ _ _ (by simp [pReqFallback, pHttpMethod])]
      unfold patchMustRules; split
      · rw [Store.get?_put_ne _ _ (by simp [pRules, pHttpMethod]), e2, hs]
      · rw [e2, hs]
    rw [e1] at h
    unfold patchMustFallback at h
    dsimp only at h
    split at h
    · simp at h
    · split at h
      · simp only [Except.ok.injEq] at h
        rw [← h, Store.get?_put_ne _ _ (by simp [pFallback, pHttpMethod]), e3]
      · simp only [Except.ok.injEq] at h
        rw [← h, e3]


/-- `routing.fallback`: the documented default (an interface default, a plain outbound name) is in
the typed configuration when the key is not written -/
theorem configNew_default_fallback (S : Schema) (dec : Dec) (fuel : Nat) (ss : List ASection) (st' : Store)
    (h : configNew S dec fuel ss = .ok st') (hnames : (S.specs.map (·.name)).Nodup)
    (sp : SectionSpec) (hsp : sp ∈ S.specs) (hname : sp.name = "routing".toList) (sid : Nat) (sd : StructDef)
    (hkind : sp.kind = .struct sid) (hsd : S.structs[sid]? = some sd) (hfnd : (sd.fields.map (·.key)).Nodup)
    (f : Field) (hf : f ∈ sd.fields) (hkey : f.key = "fallback".toList) (hfk : f.kind = .iface)
    (d : List Char) (hd : f.dflt = some d) (hm : hasPrefixC d "must_".toList = false)
    (hno : ∀ it ∈ itemsOf ss sp.name, it.key? ≠ some f.key) :
    st'.get? pFallback = some (.istr d) := by
  obtain ⟨st, hdec, hpatch⟩ := configNew_stages S dec fuel ss st' h
  obtain ⟨leaf, hleaf, hget⟩ := decodeSpecs_defaults S dec fuel ss S.specs [] st hdec hnames sp hsp sid sd
    hkind hsd hfnd f hf d hd (by rw [hkey]; simp [rulesKey]) (by rw [hname, hkey]; simp [soMarkPath]) hno
  rw [hfk] at hleaf
  simp only [defaultLeaf, Option.some.injEq] at hleaf
  subst hleaf
  rw [hname, hkey] at hget
  exact applyPatches_fallback_kept dec st st' hpatch d hget hm

/-- `global.tcp_check_http_method`: a valid default stays; (an invalid value is rewritten to
`CONNECT` by `patchTcpCheckHttpMethod`, on purpose) -/
theorem configNew_default_http_method (S : Schema) (dec : Dec) (fuel : Nat) (ss : List ASection) (st' : Store)
    (h : configNew S dec fuel ss = .ok st') (hnames : (S.specs.map (·.name)).Nodup)
    (sp : SectionSpec) (hsp : sp ∈ S.specs) (hname : sp.name = "global".toList) (sid : Nat) (sd : StructDef)
    (hkind : sp.kind = .struct sid) (hsd : S.structs[sid]? = some sd) (hfnd : (sd.fields.map (·.key)).Nodup)
    (f : Field) (hf : f ∈ sd.fields) (hkey : f.key = "tcp_check_http_method".toList) (k : Nat)
    (hfk : f.kind = .scalar k) (d c : List Char) (hd : f.dflt = some d) (hc : dec k d = some c)
    (hv : dec kindHttpMethod c ≠ none)
    (hno : ∀ it ∈ itemsOf ss sp.name, it.key? ≠ some f.key) :
    st'.get? pHttpMethod = some (.scalar k c) := by
  obtain ⟨st, hdec, hpatch⟩ := configNew_stages S dec fuel ss st' h
  obtain ⟨leaf, hleaf, hget⟩ := decodeSpecs_defaults S dec fuel ss S.specs [] st hdec hnames sp hsp sid sd
    hkind hsd hfnd f hf d hd (by rw [hkey]; simp [rulesKey]) (by rw [hname, hkey]; simp [soMarkPath]) hno
  rw [hfk] at hleaf
  simp only [defaultLeaf, hc, Option.map_some, Option.some.injEq] at hleaf
  subst hleaf
  rw [hname, hkey] at hget
  exact applyPatches_http_kept dec st st' hpatch k c hget hv


/-! ## a list written in section form (958eeab) -/

theorem getStrs_put_self (st : Store) (p : Path) (vs : List (List Char)) : getStrs (st.put p (.strs vs)) p = vs := by
  unfold getStrs; rw [Store.get?_put_self]

/-- `StringListParser` appends the written items, in order, to what the field holds -/
theorem stringListParser_value (p : Path) : ∀ (items : List AItem) (st st' : Store),
    stringListParser p items st = .ok st' →
    ∃ vs : List (List Char), items.map AItem.paramStr = vs.map some ∧ getStrs st' p = getStrs st p ++ vs := by
  intro items
  induction items with
  | nil => intro st st' h; simp only [stringListParser, Except.ok.injEq] at h; subst h; exact ⟨[], rfl, by simp⟩
  | cons it rest ih =>
    intro st st' h
    unfold stringListParser at h
    split at h
    · simp at h
    · rename_i v hv
      obtain ⟨vs, h1, h2⟩ := ih _ st' h
      refine ⟨v :: vs, by simp [hv, h1], ?_⟩
      rw [h2, getStrs_put_self]
      simp

/-- **A written list replaces the default.** The first section-form occurrence of a string-list
key starts from the empty list (not from the pre-filled `default:` value): afterwards the field
holds exactly the written items, in order. -/
theorem sectionForm_list_replaces_default (S : Schema) (dec : Dec) (n : Nat) (sd : StructDef) (path : Path)
    (name : List Char) (items rest : List AItem) (st : Store) (set : List (List Char)) (f : Field)
    (hf : findField sd.fields name = some f) (hk : f.kind = .strList) (hns : set.contains name = false)
    (st1 : Store) (h1 : stringListParser (sub path name) items (st.put (sub path name) (.strs [])) = .ok st1) :
    paramItems S dec (n + 1) sd path (.sec name items :: rest) st set
        = paramItems S dec (n + 1) sd path rest st1 (name :: set) ∧
      ∃ vs : List (List Char), items.map AItem.paramStr = vs.map some ∧ getStrs st1 (sub path name) = vs := by
  constructor
  · rw [paramItems]
    simp only [hf, hk, hns, Bool.not_false, and_self, if_true, sectionParser, h1]
  · obtain ⟨vs, hv, hg⟩ := stringListParser_value (sub path name) items _ st1 h1
    exact ⟨vs, hv, by rw [hg, getStrs_put_self]; simp⟩

end DaeVerif.C17
