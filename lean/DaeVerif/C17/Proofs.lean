import DaeVerif.C17.ParserProofs
import DaeVerif.C17.LexProofs
import DaeVerif.C17.MergeProofs
import DaeVerif.C17.TermProofs
import DaeVerif.C17.ConfigProofs
import DaeVerif.C17.DefaultsProofs
/-! Helper lemmas for C17 live in `ParserProofs`, `LexProofs`, `MergeProofs`, `ConfigProofs`;
this file adds the few that combine them. -/
namespace DaeVerif.C17

/-- the key or name an item is written under (rule: name of its first function) -/
def Items.heads : Items → List (List Char)
  | .nil => []
  | .rule r rest => r.first.name :: rest.heads
  | .decl d rest => d.key :: rest.heads
  | .lit l rest => l.val :: rest.heads
  | .sec n _ rest => n :: rest.heads

def AItem.head : AItem → List Char
  | .rule fs _ => (fs.head?.map (·.name)).getD []
  | .str k v _ => if k.isEmpty then v else k
  | .fns k _ _ => k
  | .sec n _ => n

theorem walkFn_some {f : CFn} {g : Fn} (h : walkFn f = some g) :
    f.params ≠ [] ∧ g = ⟨f.name, f.neg, f.params.map CParam.kv⟩ := by
  unfold walkFn at h
  split at h
  · simp at h
  · rename_i hne
    simp only [Option.some.injEq] at h
    exact ⟨by simpa using hne, h.symm⟩

theorem walkItems_heads : ∀ (items : Items) (as : List AItem), walkItems items = some as →
    as.length = items.heads.length := by
  intro items
  induction items with
  | nil => intro as h; simp only [walkItems, Option.some.injEq] at h; subst h; rfl
  | rule r rest ih =>
    intro as h
    simp only [walkItems] at h
    split at h
    · rename_i a as' _ h2
      simp only [Option.some.injEq] at h; subst h
      simp [Items.heads, ih as' h2]
    · simp at h
  | decl d rest ih =>
    intro as h
    simp only [walkItems] at h
    split at h
    · rename_i a as' _ h2
      simp only [Option.some.injEq] at h; subst h
      simp [Items.heads, ih as' h2]
    · simp at h
  | lit l rest ih =>
    intro as h
    simp only [walkItems] at h
    split at h
    · rename_i as' h2
      simp only [Option.some.injEq] at h; subst h
      simp [Items.heads, ih as' h2]
    · simp at h
  | sec n body rest _ ihr =>
    intro as h
    simp only [walkItems] at h
    split at h
    · rename_i b as' _ h2
      simp only [Option.some.injEq] at h; subst h
      simp [Items.heads, ihr as' h2]
    · simp at h

end DaeVerif.C17
