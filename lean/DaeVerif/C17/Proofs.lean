import DaeVerif.C17.Model
/-! Helper lemmas for C17. -/
namespace DaeVerif.C17

end DaeVerif.C17
