import DaeVerif.C17.ParserProofs
import DaeVerif.C17.LexProofs
import DaeVerif.C17.MergeProofs
import DaeVerif.C17.TermProofs
import DaeVerif.C17.ConfigProofs
import DaeVerif.C17.DefaultsProofs
import DaeVerif.C17.PipelineProofs
import DaeVerif.C17.OptProofs
import DaeVerif.C17.WrittenProofs
/-! Helper lemmas for C17 live in `ParserProofs`, `LexProofs`, `MergeProofs`, `ConfigProofs`;
this file adds the few that combine them. -/
namespace DaeVerif.C17

/-- the key or name an item is written under (rule: name of its first function) -/
def Items.heads : Items → List (List Char)
  | .nil => []
  | .rule r rest => r.first.name :: rest.heads
  | .decl d rest => d.key :: rest.heads
  | .lit l rest => l.val :: rest.heads
  | .sec n _ rest => n :: rest.heads

def AItem.head : AItem → List Char
  | .rule fs _ => (fs.head?.map (·.name)).getD []
  | .str k v _ => if k.isEmpty then v else k
  | .fns k _ _ => k
  | .sec n _ => n

theorem walkFn_some {f : CFn} {g : Fn} (h : walkFn f = some g) :
    f.params ≠ [] ∧ g = ⟨f.name, f.neg, f.params.map CParam.kv⟩ := by
  unfold walkFn at h
  split at h
  · simp at h
  · rename_i hne
    simp only [Option.some.injEq] at h
    exact ⟨by simpa using hne, h.symm⟩

theorem walkItems_heads : ∀ (items : Items) (as : List AItem), walkItems items = some as →
    as.length = items.heads.length := by
  intro items
  induction items with
  | nil => intro as h; simp only [walkItems, Option.some.injEq] at h; subst h; rfl
  | rule r rest ih =>
    intro as h
    simp only [walkItems] at h
    split at h
    · rename_i a as' _ h2
      simp only [Option.some.injEq] at h; subst h
      simp [Items.heads, ih as' h2]
    · simp at h
  | decl d rest ih =>
    intro as h
    simp only [walkItems] at h
    split at h
    · rename_i a as' _ h2
      simp only [Option.some.injEq] at h; subst h
      simp [Items.heads, ih as' h2]
    · simp at h
  | lit l rest ih =>
    intro as h
    simp only [walkItems] at h
    split at h
    · rename_i as' h2
      simp only [Option.some.injEq] at h; subst h
      simp [Items.heads, ih as' h2]
    · simp at h
  | sec n body rest _ ihr =>
    intro as h
    simp only [walkItems] at h
    split at h
    · rename_i b as' _ h2
      simp only [Option.some.injEq] at h; subst h
      simp [Items.heads, ihr as' h2]
    · simp at h


/-- every declaration key is non-empty (true of every tree the parser builds from lexer tokens:
an ID token has at least its head character) -/
def Items.keysOK : Items → Prop
  | .nil => True
  | .rule _ rest => rest.keysOK
  | .decl d rest => d.key ≠ [] ∧ rest.keysOK
  | .lit _ rest => rest.keysOK
  | .sec _ _ rest => rest.keysOK

theorem walkFns_cons {f : CFn} {fs : List CFn} {gs : List Fn} (h : walkFns (f :: fs) = some gs) :
    ∃ g gs', gs = g :: gs' ∧ g.name = f.name := by
  simp only [walkFns] at h
  split at h
  · rename_i a as ha _
    simp only [Option.some.injEq] at h
    exact ⟨a, as, h.symm, by rw [(walkFn_some ha).2]⟩
  · simp at h

/-- **The Walker keeps every item, in order, under its own name**: the heads of the AST items
(first function name of a rule, key of a declaration, value of a literal, name of a section) are
the heads of the written items. -/
theorem walkItems_heads_eq : ∀ (items : Items) (as : List AItem), walkItems items = some as → items.keysOK →
    as.map AItem.head = items.heads := by
  intro items
  induction items with
  | nil => intro as h _; simp only [walkItems, Option.some.injEq] at h; subst h; rfl
  | rule r rest ih =>
    intro as h hk
    simp only [walkItems] at h
    split at h
    · rename_i a as' h1 h2
      simp only [Option.some.injEq] at h; subst h
      have ha : a.head = r.first.name := by
        unfold walkRule at h1
        split at h1
        · rename_i fs o hfs _
          simp only [Option.some.injEq] at h1
          subst h1
          obtain ⟨g, gs', rfl, hg⟩ := walkFns_cons hfs
          simp [AItem.head, hg]
        · simp at h1
      simp [Items.heads, ha, ih as' h2 hk]
    · simp at h
  | decl d rest ih =>
    intro as h hk
    simp only [walkItems] at h
    split at h
    · rename_i a as' h1 h2
      simp only [Option.some.injEq] at h; subst h
      have ha : a.head = d.key := by
        unfold walkDecl at h1
        split at h1
        · simp at h1
        · split at h1
          · simp only [Option.some.injEq] at h1
            subst h1
            have : d.key.isEmpty = false := by
              cases hd : d.key with
              | nil => exact absurd hd hk.1
              | cons _ _ => rfl
            simp [AItem.head, this]
          · split at h1
            · simp at h1
            · simp only [Option.some.injEq] at h1
              subst h1
              rfl
      simp [Items.heads, ha, ih as' h2 hk.2]
    · simp at h
  | lit l rest ih =>
    intro as h hk
    simp only [walkItems] at h
    split at h
    · rename_i as' h2
      simp only [Option.some.injEq] at h; subst h
      simp [Items.heads, AItem.head, ih as' h2 hk]
    · simp at h
  | sec n body rest _ ihr =>
    intro as h hk
    simp only [walkItems] at h
    split at h
    · rename_i b as' _ h2
      simp only [Option.some.injEq] at h; subst h
      simp [Items.heads, AItem.head, ihr as' h2 hk]
    · simp at h

end DaeVerif.C17
