import DaeVerif.C17.Model
/-! # C17 — the lexer reads the renderer's output back, token for token -/
namespace DaeVerif.C17

variable {K : Classes}

theorem lex_cons (c : Char) (cs : List Char) :
    lex K (c :: cs) =
      match scan K c cs with
      | .err => none
      | .skip n => lex K (cs.drop n)
      | .tok t n => (lex K (cs.drop n)).map (t :: ·) := by
  rw [lex]; rfl

/-! ## words -/

/-- the text `rest` does not continue a run of `p` characters -/
def stops (p : Char → Bool) : List Char → Prop
  | [] => True
  | c :: _ => p c = false

theorem takeWhile_append_stop {p : Char → Bool} : ∀ (r rest : List Char), r.all p = true →
    stops p rest → (r ++ rest).takeWhile p = r := by
  intro r
  induction r with
  | nil =>
    intro rest _ h
    cases rest with
    | nil => rfl
    | cons c cs => simp only [List.nil_append]; simp [List.takeWhile, stops] at h ⊢; simp [h]
  | cons a r ih =>
    intro rest hr h
    simp only [List.all_cons, Bool.and_eq_true] at hr
    simp [List.takeWhile, hr.1, ih rest hr.2 h]

theorem safe_of_idHead {c : Char} (h : K.idHead c = true) : K.safe c = true := by
  simp [Classes.safe, h]

theorem safe_of_nonIdHead {c : Char} (h : K.nonIdHead c = true) : K.safe c = true := by
  simp [Classes.safe, h]

/-- a word character is none of the characters the decision tree tests first -/
theorem safe_facts (hK : K.WF) {c : Char} (h : K.safe c = true) :
    K.ws c = false ∧ c ≠ ',' ∧ c ≠ '{' ∧ c ≠ '}' ∧ c ≠ ':' ∧ c ≠ '[' ∧ c ≠ ']' ∧ c ≠ '(' ∧ c ≠ ')' ∧
      c ≠ '&' ∧ c ≠ '"' ∧ c ≠ '\'' ∧ c ≠ '>' := by
  have hs := hK.special
  refine ⟨?_, ?_, ?_, ?_, ?_, ?_, ?_, ?_, ?_, ?_, ?_, ?_, ?_⟩
  · cases hw : K.ws c with
    | false => rfl
    | true => have := hK.ws_not_safe c hw; simp [h] at this
  · rintro rfl; have := (hs ',' (by simp)).1; simp [h] at this
  · rintro rfl; have := (hs '{' (by simp)).1; simp [h] at this
  · rintro rfl; have := (hs '}' (by simp)).1; simp [h] at this
  · rintro rfl; have := (hs ':' (by simp)).1; simp [h] at this
  · rintro rfl; have := (hs '[' (by simp)).1; simp [h] at this
  · rintro rfl; have := (hs ']' (by simp)).1; simp [h] at this
  · rintro rfl; have := (hs '(' (by simp)).1; simp [h] at this
  · rintro rfl; have := (hs ')' (by simp)).1; simp [h] at this
  · rintro rfl; have := (hs '&' (by simp)).1; simp [h] at this
  · rintro rfl; have := (hs '"' (by simp)).1; simp [h] at this
  · rintro rfl; have := (hs '\'' (by simp)).1; simp [h] at this
  · rintro rfl; have := (hs '>' (by simp)).1; simp [h] at this

theorem wordEnd_takeWhile {rest : List Char} (h : wordEnd K rest) : stops K.safe rest := by
  cases rest with
  | nil => trivial
  | cons c cs => exact h.1

theorem scan_id (hK : K.WF) (c : Char) (r rest : List Char) (hc : K.idHead c = true)
    (hr : r.all K.safe = true) (hrest : wordEnd K rest) :
    scan K c (r ++ rest) = .tok (.id (c :: r)) r.length := by
  obtain ⟨h0, h1, h2, h3, h4, h5, h6, h7, h8, h9, h10, h11, _⟩ := safe_facts hK (safe_of_idHead hc)
  have n1 : c ≠ '!' := by rintro rfl; have := (hK.nohead '!' (by simp)).1; simp [hc] at this
  have n2 : c ≠ '#' := by rintro rfl; have := (hK.nohead '#' (by simp)).1; simp [hc] at this
  have n3 : c ≠ '-' := by rintro rfl; have := (hK.nohead '-' (by simp)).1; simp [hc] at this
  have n4 : c ≠ '/' := by rintro rfl; have := (hK.nohead '/' (by simp)).1; simp [hc] at this
  have htw := takeWhile_append_stop r rest hr (wordEnd_takeWhile hrest)
  simp [scan, isArrow, commentAt, h0, h1, h2, h3, h4, h5, h6, h7, h8, h9, h10, h11, n1, n2, n3, n4, hc, htw]

theorem blockEnd_cons_cons (x y : Char) (a : List Char) :
    blockEnd (x :: y :: a) = if x = '*' ∧ y = '/' then some 2 else (blockEnd (y :: a)).map (· + 1) := by
  simp [blockEnd]

theorem blockEnd_append : ∀ (a b : List Char) (e : Nat), blockEnd a = some e → blockEnd (a ++ b) = some e := by
  intro a
  induction a with
  | nil => intro b e h; simp [blockEnd] at h
  | cons x a ih =>
    intro b e h
    cases a with
    | nil => simp [blockEnd] at h
    | cons y a' =>
      rw [blockEnd_cons_cons] at h
      simp only [List.cons_append]
      rw [blockEnd_cons_cons]
      split at h
      · rename_i hc; simp only [hc, and_self, if_true]; exact h
      · rename_i hne
        simp only [hne, if_false]
        cases hb : blockEnd (y :: a') with
        | none => rw [hb] at h; simp at h
        | some e' =>
          rw [hb] at h
          simp only [Option.map_some, Option.some.injEq] at h
          have := ih b e' hb
          simp only [List.cons_append] at this
          rw [this]; simp [h]

theorem scan_nonId (hK : K.WF) (c : Char) (r rest : List Char) (hc : K.nonIdHead c = true)
    (hid : K.idHead c = false) (hr : r.all K.safe = true)
    (hslash : c = '/' → ∀ r', r = '*' :: r' → ∃ e, blockEnd r' = some e ∧ e < r'.length)
    (hrest : wordEnd K rest) :
    scan K c (r ++ rest) = .tok (.nonId (c :: r)) r.length := by
  obtain ⟨h0, h1, h2, h3, h4, h5, h6, h7, h8, h9, h10, h11, _⟩ := safe_facts hK (safe_of_nonIdHead hc)
  have n1 : c ≠ '!' := by rintro rfl; have := hK.bang_hash_nonid.1; simp [hc] at this
  have n2 : c ≠ '#' := by rintro rfl; have := hK.bang_hash_nonid.2; simp [hc] at this
  have htw := takeWhile_append_stop r rest hr (wordEnd_takeWhile hrest)
  -- the arrow test
  have harrow : isArrow c (r ++ rest) = false := by
    unfold isArrow
    by_cases hcm : c = '-'
    · cases r with
      | nil =>
        cases rest with
        | nil => simp [startsWithGt]
        | cons x xs =>
          have hx : x ≠ '>' := hrest.2.1
          simp only [List.nil_append, startsWithGt]
          split
          · rename_i heq; simp only [List.cons.injEq] at heq; exact absurd heq.1 hx
          · simp
      | cons a r' =>
        simp only [List.all_cons, Bool.and_eq_true] at hr
        have ha : a ≠ '>' := (safe_facts hK hr.1).2.2.2.2.2.2.2.2.2.2.2.2
        simp only [List.cons_append, startsWithGt]
        split
        · rename_i heq; simp only [List.cons.injEq] at heq; exact absurd heq.1 ha
        · simp
    · simp [hcm]
  -- the block comment test
  have hblock : commentAt K c (r ++ rest) = none := by
    unfold commentAt
    split
    · rename_i hc'
      cases r with
      | nil =>
        cases rest with
        | nil => simp [blockCommentWins]
        | cons x xs =>
          have hx : x ≠ '*' := hrest.2.2
          simp only [List.nil_append, blockCommentWins]
          split
          · rename_i heq; simp only [List.cons.injEq] at heq; exact absurd heq.1 hx
          · rfl
      | cons a r' =>
        by_cases ha : a = '*'
        · subst ha
          obtain ⟨e, he, hlt⟩ := hslash hc' r' rfl
          have hbe := blockEnd_append r' rest e he
          have hnh : K.nonIdHead '/' = true := by subst hc'; exact hc
          simp only [List.cons_append] at htw
          simp only [blockCommentWins, List.cons_append, hbe, hnh, if_true, htw, List.length_cons]
          split
          · omega
          · rfl
        · simp only [List.cons_append, blockCommentWins]
          split
          · rename_i heq; simp only [List.cons.injEq] at heq; exact absurd heq.1 ha
          · rfl
    · rfl
  unfold scan
  simp only [h0, h1, h2, h3, h4, h5, h6, h7, h8, h9, h10, h11, n1, n2, Bool.false_eq_true, if_false, false_or,
    harrow, hblock, hid, hc, if_true, htw]

/-! ## quoted strings -/

theorem quoteScan_ok (q : Char) : ∀ (s : List Char) (pb : Bool) (fb : Option Nat) (i : Nat) (rest : List Char),
    quoteBodyOK q pb s = true → quoteScan q pb fb i (s ++ q :: rest) = some (i + s.length + 1) := by
  intro s
  induction s with
  | nil =>
    intro pb fb i rest h
    simp only [quoteBodyOK, Bool.not_eq_true'] at h
    simp [quoteScan, h]
  | cons c cs ih =>
    intro pb fb i rest h
    simp only [quoteBodyOK] at h
    simp only [List.cons_append, quoteScan]
    split
    · rename_i hc
      simp only [hc, if_true, Bool.and_eq_true] at h
      simp only [h.1, if_true]
      rw [ih false _ (i + 1) rest h.2]
      simp; omega
    · rename_i hc
      simp only [hc, if_false] at h
      rw [ih _ fb (i + 1) rest h]
      simp; omega

theorem scan_quote (hK : K.WF) (q : Char) (s rest : List Char) (hq : q = '"' ∨ q = '\'')
    (hs : quoteBodyOK q false s = true) :
    scan K q (s ++ q :: rest) = .tok (.quote q s) (s.length + 1) := by
  have hscan := quoteScan_ok q s false none 0 rest hs
  have hw : K.ws q = false := by
    rcases hq with rfl | rfl
    · exact (hK.special _ (by simp)).2
    · exact (hK.special _ (by simp)).2
  have htake : List.take s.length (s ++ q :: rest) = s := by simp
  rcases hq with rfl | rfl <;>
    simp [scan, hw, hscan, htake]

/-! ## every admissible token is read back -/

theorem drop_length_append (r rest : List Char) : (r ++ rest).drop r.length = rest := by simp

theorem lex_text (hK : K.WF) (t : Tok) (ht : TokOK K t) (rest : List Char)
    (hrest : t.isWord = true → wordEnd K rest) :
    lex K (t.text ++ rest) = (lex K rest).map (t :: ·) := by
  have hsp := hK.special
  cases t with
  | comma => simp [Tok.text, lex_cons, scan, (hsp ',' (by simp)).2]
  | lbrace => simp [Tok.text, lex_cons, scan, (hsp '{' (by simp)).2]
  | rbrace => simp [Tok.text, lex_cons, scan, (hsp '}' (by simp)).2]
  | colon => simp [Tok.text, lex_cons, scan, (hsp ':' (by simp)).2]
  | lbrack => simp [Tok.text, lex_cons, scan, (hsp '[' (by simp)).2]
  | rbrack => simp [Tok.text, lex_cons, scan, (hsp ']' (by simp)).2]
  | bang => simp [Tok.text, lex_cons, scan, (hK.nohead '!' (by simp)).2]
  | lparen => simp [Tok.text, lex_cons, scan, (hsp '(' (by simp)).2]
  | rparen => simp [Tok.text, lex_cons, scan, (hsp ')' (by simp)).2]
  | arrow => simp [Tok.text, lex_cons, scan, isArrow, startsWithGt, (hK.nohead '-' (by simp)).2]
  | andand => simp [Tok.text, lex_cons, scan, startsWithAmp, (hsp '&' (by simp)).2]
  | id s =>
    obtain ⟨c, r, rfl, hc, hr⟩ := ht
    have hw := hrest rfl
    simp only [Tok.text, List.cons_append, lex_cons, scan_id hK c r rest hc hr hw, drop_length_append]
  | nonId s =>
    obtain ⟨c, r, rfl, hc, hid, hr, hslash⟩ := ht
    have hw := hrest rfl
    simp only [Tok.text, List.cons_append, lex_cons, scan_nonId hK c r rest hc hid hr hslash hw,
      drop_length_append]
  | quote q s =>
    obtain ⟨hq, hs⟩ := ht
    have : (s ++ q :: rest).drop (s.length + 1) = rest := by simp
    simp only [Tok.text, List.cons_append, List.append_assoc, List.nil_append, lex_cons,
      scan_quote hK q s rest hq hs, this]

/-! ## separators and the whole rendering -/

theorem wordEnd_of_ws (hK : K.WF) {w : Char} (hw : K.ws w = true) (r : List Char) : wordEnd K (w :: r) := by
  refine ⟨hK.ws_not_safe w hw, ?_, ?_⟩
  · rintro rfl; have := (hK.special '>' (by simp)).2; simp [hw] at this
  · rintro rfl; have := (hK.nohead '*' (by simp)).2; simp [hw] at this

theorem lex_renderToks (hK : K.WF) : ∀ (tss : List (Tok × List Char)),
    (∀ x ∈ tss, TokOK K x.1) → SepsOK K tss → lex K (renderToks tss) = some (tss.map (·.1)) := by
  intro tss
  induction tss with
  | nil => intro _ _; simp [renderToks, lex]
  | cons x rest ih =>
    intro htok hsep
    obtain ⟨t, sep⟩ := x
    simp only [SepsOK] at hsep
    obtain ⟨hs, hrest⟩ := hsep
    have ih' := ih (fun y hy => htok y (List.mem_cons_of_mem _ hy)) hrest
    have ht : TokOK K t := htok (t, sep) List.mem_cons_self
    simp only [renderToks]
    rcases hs with ⟨rfl, hw⟩ | ⟨hskip, w, r, rfl, hw⟩
    · rw [lex_text hK t ht _ (by simpa using hw)]
      simp [ih']
    · rw [lex_text hK t ht _ (fun _ => by simpa using wordEnd_of_ws hK hw _)]
      rw [hskip, ih']
      simp

/-! ## things the lexer skips -/

theorem skips_nil : Skips K [] := fun _ => rfl

theorem skips_append {a b : List Char} (ha : Skips K a) (hb : Skips K b) : Skips K (a ++ b) := by
  intro rest; rw [List.append_assoc, ha, hb]

theorem skips_ws {w : Char} (hw : K.ws w = true) : Skips K [w] := by
  intro rest; simp [lex_cons, scan, hw]

theorem lex_dropWhile_nl (hK : K.WF) : ∀ rest : List Char, lex K (rest.dropWhile isNL) = lex K rest := by
  intro rest
  induction rest with
  | nil => rfl
  | cons c cs ih =>
    simp only [List.dropWhile]
    split
    · rename_i hc
      have hw : K.ws c = true := by
        simp only [isNL, Bool.or_eq_true, decide_eq_true_eq] at hc
        rcases hc with rfl | rfl
        · exact hK.nl_ws.1
        · exact hK.nl_ws.2
      rw [ih]
      simp [lex_cons, scan, hw]
    · rfl

theorem drop_takeWhile_length (p : Char → Bool) : ∀ l : List Char,
    l.drop (l.takeWhile p).length = l.dropWhile p := by
  intro l
  induction l with
  | nil => rfl
  | cons a as ih =>
    simp only [List.takeWhile, List.dropWhile]
    split <;> simp_all

theorem lineCommentLen_body : ∀ (body : List Char) (n : Char) (rest : List Char),
    body.all (fun c => !isNL c) = true → isNL n = true →
    (body ++ n :: rest).drop (lineCommentLen (body ++ n :: rest)) = rest.dropWhile isNL := by
  intro body
  induction body with
  | nil =>
    intro n rest _ hn
    simp only [List.nil_append, lineCommentLen, hn, if_true]
    rw [Nat.add_comm, List.drop_succ_cons]
    exact drop_takeWhile_length isNL rest
  | cons b body ih =>
    intro n rest hb hn
    simp only [List.all_cons, Bool.and_eq_true, Bool.not_eq_true'] at hb
    simp only [List.cons_append, lineCommentLen, hb.1, Bool.false_eq_true, if_false]
    rw [Nat.add_comm, List.drop_succ_cons]
    exact ih n rest hb.2 hn

/-- a `#` comment up to and including its newline -/
theorem skips_lineComment (hK : K.WF) (body : List Char) (n : Char)
    (hb : body.all (fun c => !isNL c) = true) (hn : isNL n = true) :
    Skips K ('#' :: (body ++ [n])) := by
  intro rest
  have hw : K.ws '#' = false := (hK.nohead '#' (by simp)).2
  simp only [List.cons_append, List.append_assoc, List.nil_append, lex_cons]
  simp only [scan, hw, Bool.false_eq_true, if_false, if_true]
  rw [lineCommentLen_body body n rest hb hn, lex_dropWhile_nl hK]


/-! ## block comments -/

theorem blockEnd_body : ∀ (body rest : List Char), '/' ∉ body →
    blockEnd (body ++ '*' :: '/' :: rest) = some (body.length + 2) := by
  intro body
  induction body with
  | nil => intro rest _; simp [blockEnd_cons_cons]
  | cons a b ih =>
    intro rest hno
    have hb : '/' ∉ b := fun h => hno (List.mem_cons_of_mem _ h)
    cases b with
    | nil =>
      simp only [List.cons_append, List.nil_append]
      rw [blockEnd_cons_cons]
      simp [blockEnd_cons_cons]
    | cons y t =>
      have hy : y ≠ '/' := fun h => hno (by simp [h])
      simp only [List.cons_append]
      rw [blockEnd_cons_cons]
      have := ih rest hb
      simp only [List.cons_append] at this
      simp [hy, this]

theorem takeWhile_length_le_stop {p : Char → Bool} : ∀ (a : List Char) (w : Char) (rest : List Char),
    p w = false → ((a ++ w :: rest).takeWhile p).length ≤ a.length := by
  intro a
  induction a with
  | nil => intro w rest hw; simp [List.takeWhile, hw]
  | cons x a ih =>
    intro w rest hw
    simp only [List.cons_append, List.takeWhile]
    split
    · have := ih w rest hw; simp; omega
    · simp

/-- a `/* … */` comment (body without `/`) followed by a whitespace character -/
theorem skips_blockComment (hK : K.WF) (body : List Char) (w : Char) (hb : '/' ∉ body) (hw : K.ws w = true) :
    Skips K ('/' :: '*' :: (body ++ ['*', '/', w])) := by
  intro rest
  have h0 : K.ws '/' = false := (hK.nohead '/' (by simp)).2
  have hend : blockEnd (body ++ '*' :: '/' :: w :: rest) = some (body.length + 2) := blockEnd_body body _ hb
  have hwns : K.safe w = false := hK.ws_not_safe w hw
  have htw : (('*' :: (body ++ '*' :: '/' :: w :: rest)).takeWhile K.safe).length ≤ body.length + 3 := by
    have := takeWhile_length_le_stop (p := K.safe) ('*' :: (body ++ ['*', '/'])) w rest hwns
    simpa using this
  have hwin : blockCommentWins K ('*' :: (body ++ '*' :: '/' :: w :: rest)) = some (body.length + 3) := by
    simp only [blockCommentWins, hend]
    by_cases hn : K.nonIdHead '/' = true
    · simp only [hn, if_true]
      rw [if_pos (by omega)]
      congr 1; omega
    · simp only [hn, Bool.false_eq_true, if_false]
      rw [if_pos (by omega)]
      congr 1; omega
  have hdrop : List.drop (body.length + 3) ('*' :: (body ++ '*' :: '/' :: w :: rest)) = w :: rest := by
    have : body.length + 3 = ('*' :: (body ++ ['*', '/'])).length := by simp
    rw [this]
    have h2 : ('*' :: (body ++ '*' :: '/' :: w :: rest)) = ('*' :: (body ++ ['*', '/'])) ++ (w :: rest) := by simp
    rw [h2, List.drop_left]
  simp only [List.cons_append, List.append_assoc, List.nil_append, lex_cons]
  simp only [scan, h0, isArrow, commentAt, hwin, Bool.false_eq_true, if_false, if_true]
  simp [hdrop, lex_cons, scan, hw]

end DaeVerif.C17
