import DaeVerif.C17.Model
/-! # C17 — the lexer reads the renderer's output back, token for token -/
namespace DaeVerif.C17

variable {K : Classes}

theorem lex_cons (c : Char) (cs : List Char) :
    lex K (c :: cs) =
      match scan K c cs with
      | .err => none
      | .skip n => lex K (cs.drop n)
      | .tok t n => (lex K (cs.drop n)).map (t :: ·) := by
  rw [lex]; rfl

theorem scan_comma (hK : K.WF) (cs : List Char) : scan K ',' cs = .tok .comma 0 := by
  have := (hK.special ',' (by simp)).2
  simp [scan, this]

theorem scan_arrow (hK : K.WF) (cs : List Char) : scan K '-' ('>' :: cs) = .tok .arrow 1 := by
  have := (hK.nohead '-' (by simp)).2
  simp [scan, this]

theorem scan_andand (hK : K.WF) (cs : List Char) : scan K '&' ('&' :: cs) = .tok .andand 1 := by
  have := (hK.special '&' (by simp)).2
  simp [scan, this]

end DaeVerif.C17
