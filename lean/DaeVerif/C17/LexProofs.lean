import DaeVerif.C17.Model
/-! # C17 — the lexer reads the renderer's output back, token for token -/
namespace DaeVerif.C17

variable {K : Classes}

theorem lex_cons (c : Char) (cs : List Char) :
    lex K (c :: cs) =
      match scan K c cs with
      | .err => none
      | .skip n => lex K (cs.drop n)
      | .tok t n => (lex K (cs.drop n)).map (t :: ·) := by
  rw [lex]; rfl

/-! ## words -/

/-- the text `rest` does not continue a run of `p` characters -/
def stops (p : Char → Bool) : List Char → Prop
  | [] => True
  | c :: _ => p c = false

theorem takeWhile_append_stop {p : Char → Bool} : ∀ (r rest : List Char), r.all p = true →
    stops p rest → (r ++ rest).takeWhile p = r := by
  intro r
  induction r with
  | nil =>
    intro rest _ h
    cases rest with
    | nil => rfl
    | cons c cs => simp only [List.nil_append]; simp [List.takeWhile, stops] at h ⊢; simp [h]
  | cons a r ih =>
    intro rest hr h
    simp only [List.all_cons, Bool.and_eq_true] at hr
    simp [List.takeWhile, hr.1, ih rest hr.2 h]

theorem safe_of_idHead {c : Char} (h : K.idHead c = true) : K.safe c = true := by
  simp [Classes.safe, h]

theorem safe_of_nonIdHead {c : Char} (h : K.nonIdHead c = true) : K.safe c = true := by
  simp [Classes.safe, h]

/-- a word character is none of the characters the decision tree tests first -/
theorem safe_facts (hK : K.WF) {c : Char} (h : K.safe c = true) :
    K.ws c = false ∧ c ≠ ',' ∧ c ≠ '{' ∧ c ≠ '}' ∧ c ≠ ':' ∧ c ≠ '[' ∧ c ≠ ']' ∧ c ≠ '(' ∧ c ≠ ')' ∧
      c ≠ '&' ∧ c ≠ '"' ∧ c ≠ '\'' ∧ c ≠ '>' := by
  have hs := hK.special
  refine ⟨?_, ?_, ?_, ?_, ?_, ?_, ?_, ?_, ?_, ?_, ?_, ?_, ?_⟩
  · cases hw : K.ws c with
    | false => rfl
    | true => have := hK.ws_not_safe c hw; simp [h] at this
  · rintro rfl; have := (hs ',' (by simp)).1; simp [h] at this
  · rintro rfl; have := (hs '{' (by simp)).1; simp [h] at this
  · rintro rfl; have := (hs '}' (by simp)).1; simp [h] at this
  · rintro rfl; have := (hs ':' (by simp)).1; simp [h] at this
  · rintro rfl; have := (hs '[' (by simp)).1; simp [h] at this
  · rintro rfl; have := (hs ']' (by simp)).1; simp [h] at this
  · rintro rfl; have := (hs '(' (by simp)).1; simp [h] at this
  · rintro rfl; have := (hs ')' (by simp)).1; simp [h] at this
  · rintro rfl; have := (hs '&' (by simp)).1; simp [h] at this
  · rintro rfl; have := (hs '"' (by simp)).1; simp [h] at this
  · rintro rfl; have := (hs '\'' (by simp)).1; simp [h] at this
  · rintro rfl; have := (hs '>' (by simp)).1; simp [h] at this

theorem wordEnd_takeWhile {rest : List Char} (h : wordEnd K rest) : stops K.safe rest := by
  cases rest with
  | nil => trivial
  | cons c cs => exact h.1

theorem scan_id (hK : K.WF) (c : Char) (r rest : List Char) (hc : K.idHead c = true)
    (hr : r.all K.safe = true) (hrest : wordEnd K rest) :
    scan K c (r ++ rest) = .tok (.id (c :: r)) r.length := by
  obtain ⟨h0, h1, h2, h3, h4, h5, h6, h7, h8, h9, h10, h11, _⟩ := safe_facts hK (safe_of_idHead hc)
  have n1 : c ≠ '!' := by rintro rfl; have := (hK.nohead '!' (by simp)).1; simp [hc] at this
  have n2 : c ≠ '#' := by rintro rfl; have := (hK.nohead '#' (by simp)).1; simp [hc] at this
  have n3 : c ≠ '-' := by rintro rfl; have := (hK.nohead '-' (by simp)).1; simp [hc] at this
  have n4 : c ≠ '/' := by rintro rfl; have := (hK.nohead '/' (by simp)).1; simp [hc] at this
  have htw := takeWhile_append_stop r rest hr (wordEnd_takeWhile hrest)
  simp [scan, isArrow, commentAt, h0, h1, h2, h3, h4, h5, h6, h7, h8, h9, h10, h11, n1, n2, n3, n4, hc, htw]

theorem blockEnd_cons_cons (x y : Char) (a : List Char) :
    blockEnd (x :: y :: a) = if x = '*' ∧ y = '/' then some 2 else (blockEnd (y :: a)).map (· + 1) := by
  simp [blockEnd]

theorem blockEnd_append : ∀ (a b : List Char) (e : Nat), blockEnd a = some e → blockEnd (a ++ b) = some e := by
  intro a
  induction a with
  | nil => intro b e h; simp [blockEnd] at h
  | cons x a ih =>
    intro b e h
    cases a with
    | nil => simp [blockEnd] at h
    | cons y a' =>
      rw [blockEnd_cons_cons] at h
      simp only [List.cons_append]
      rw [blockEnd_cons_cons]
      split at h
      · rename_i hc; simp only [hc, and_self, if_true]; exact h
      · rename_i hne
        simp only [hne, if_false]
        cases hb : blockEnd (y :: a') with
        | none => rw [hb] at h; simp at h
        | some e' =>
          rw [hb] at h
          simp only [Option.map_some, Option.some.injEq] at h
          have := ih b e' hb
          simp only [List.cons_append] at this
          rw [this]; simp [h]

theorem scan_nonId (hK : K.WF) (c : Char) (r rest : List Char) (hc : K.nonIdHead c = true)
    (hid : K.idHead c = false) (hr : r.all K.safe = true)
    (hslash : c = '/' → ∀ r', r = '*' :: r' → ∃ e, blockEnd r' = some e ∧ e < r'.length)
    (hrest : wordEnd K rest) :
    scan K c (r ++ rest) = .tok (.nonId (c :: r)) r.length := by
  obtain ⟨h0, h1, h2, h3, h4, h5, h6, h7, h8, h9, h10, h11, _⟩ := safe_facts hK (safe_of_nonIdHead hc)
  have n1 : c ≠ '!' := by rintro rfl; have := hK.bang_hash_nonid.1; simp [hc] at this
  have n2 : c ≠ '#' := by rintro rfl; have := hK.bang_hash_nonid.2; simp [hc] at this
  have htw := takeWhile_append_stop r rest hr (wordEnd_takeWhile hrest)
  -- the arrow test
  have harrow : isArrow c (r ++ rest) = false := by
    unfold isArrow
    by_cases hcm : c = '-'
    · cases r with
      | nil =>
        cases rest with
        | nil => simp [startsWithGt]
        | cons x xs =>
          have hx : x ≠ '>' := hrest.2.1
          simp only [List.nil_append, startsWithGt]
          split
          · rename_i heq; simp only [List.cons.injEq] at heq; exact absurd heq.1 hx
          · simp
      | cons a r' =>
        simp only [List.all_cons, Bool.and_eq_true] at hr
        have ha : a ≠ '>' := (safe_facts hK hr.1).2.2.2.2.2.2.2.2.2.2.2.2
        simp only [List.cons_append, startsWithGt]
        split
        · rename_i heq; simp only [List.cons.injEq] at heq; exact absurd heq.1 ha
        · simp
    · simp [hcm]
  -- the block comment test
  have hblock : commentAt K c (r ++ rest) = none := by
    unfold commentAt
    split
    · rename_i hc'
      cases r with
      | nil =>
        cases rest with
        | nil => simp [blockCommentWins]
        | cons x xs =>
          have hx : x ≠ '*' := hrest.2.2
          simp only [List.nil_append, blockCommentWins]
          split
          · rename_i heq; simp only [List.cons.injEq] at heq; exact absurd heq.1 hx
          · rfl
      | cons a r' =>
        by_cases ha : a = '*'
        · subst ha
          obtain ⟨e, he, hlt⟩ := hslash hc' r' rfl
          have hbe := blockEnd_append r' rest e he
          have hnh : K.nonIdHead '/' = true := by subst hc'; exact hc
          simp only [List.cons_append] at htw
          simp only [blockCommentWins, List.cons_append, hbe, hnh, if_true, htw, List.length_cons]
          split
          · omega
          · rfl
        · simp only [List.cons_append, blockCommentWins]
          split
          · rename_i heq; simp only [List.cons.injEq] at heq; exact absurd heq.1 ha
          · rfl
    · rfl
  unfold scan
  simp only [h0, h1, h2, h3, h4, h5, h6, h7, h8, h9, h10, h11, n1, n2, Bool.false_eq_true, if_false, false_or,
    harrow, hblock, hid, hc, if_true, htw]

/-! ## quoted strings -/

theorem quoteScan_ok (q : Char) : ∀ (s : List Char) (pb : Bool) (fb : Option Nat) (i : Nat) (rest : List Char),
    quoteBodyOK q pb s = true → quoteScan q pb fb i (s ++ q :: rest) = some (i + s.length + 1) := by
  intro s
  induction s with
  | nil =>
    intro pb fb i rest h
    simp only [quoteBodyOK, Bool.not_eq_true'] at h
    simp [quoteScan, h]
  | cons c cs ih =>
    intro pb fb i rest h
    simp only [quoteBodyOK] at h
    simp only [List.cons_append, quoteScan]
    split
    · rename_i hc
      simp only [hc, if_true, Bool.and_eq_true] at h
      simp only [h.1, if_true]
      rw [ih false _ (i + 1) rest h.2]
      simp; omega
    · rename_i hc
      simp only [hc, if_false] at h
      rw [ih _ fb (i + 1) rest h]
      simp; omega

theorem scan_quote (hK : K.WF) (q : Char) (s rest : List Char) (hq : q = '"' ∨ q = '\'')
    (hs : quoteBodyOK q false s = true) :
    scan K q (s ++ q :: rest) = .tok (.quote q s) (s.length + 1) := by
  have hscan := quoteScan_ok q s false none 0 rest hs
  have hw : K.ws q = false := by
    rcases hq with rfl | rfl
    · exact (hK.special _ (by simp)).2
    · exact (hK.special _ (by simp)).2
  have htake : List.take s.length (s ++ q :: rest) = s := by simp
  rcases hq with rfl | rfl <;>
    simp [scan, hw, hscan, htake]

/-! ## every admissible token is read back -/

theorem drop_length_append (r rest : List Char) : (r ++ rest).drop r.length = rest := by simp

theorem lex_text (hK : K.WF) (t : Tok) (ht : TokOK K t) (rest : List Char)
    (hrest : t.isWord = true → wordEnd K rest) :
    lex K (t.text ++ rest) = (lex K rest).map (t :: ·) := by
  have hsp := hK.special
  cases t with
  | comma => simp [Tok.text, lex_cons, scan, (hsp ',' (by simp)).2]
  | lbrace => simp [Tok.text, lex_cons, scan, (hsp '{' (by simp)).2]
  | rbrace => simp [Tok.text, lex_cons, scan, (hsp '}' (by simp)).2]
  | colon => simp [Tok.text, lex_cons, scan, (hsp ':' (by simp)).2]
  | lbrack => simp [Tok.text, lex_cons, scan, (hsp '[' (by simp)).2]
  | rbrack => simp [Tok.text, lex_cons, scan, (hsp ']' (by simp)).2]
  | bang => simp [Tok.text, lex_cons, scan, (hK.nohead '!' (by simp)).2]
  | lparen => simp [Tok.text, lex_cons, scan, (hsp '(' (by simp)).2]
  | rparen => simp [Tok.text, lex_cons, scan, (hsp ')' (by simp)).2]
  | arrow => simp [Tok.text, lex_cons, scan, isArrow, startsWithGt, (hK.nohead '-' (by simp)).2]
  | andand => simp [Tok.text, lex_cons, scan, startsWithAmp, (hsp '&' (by simp)).2]
  | id s =>
    obtain ⟨c, r, rfl, hc, hr⟩ := ht
    have hw := hrest rfl
    simp only [Tok.text, List.cons_append, lex_cons, scan_id hK c r rest hc hr hw, drop_length_append]
  | nonId s =>
    obtain ⟨c, r, rfl, hc, hid, hr, hslash⟩ := ht
    have hw := hrest rfl
    simp only [Tok.text, List.cons_append, lex_cons, scan_nonId hK c r rest hc hid hr hslash hw,
      drop_length_append]
  | quote q s =>
    obtain ⟨hq, hs⟩ := ht
    have : (s ++ q :: rest).drop (s.length + 1) = rest := by simp
    simp only [Tok.text, List.cons_append, List.append_assoc, List.nil_append, lex_cons,
      scan_quote hK q s rest hq hs, this]

/-! ## separators and the whole rendering -/

theorem wordEnd_of_ws (hK : K.WF) {w : Char} (hw : K.ws w = true) (r : List Char) : wordEnd K (w :: r) := by
  refine ⟨hK.ws_not_safe w hw, ?_, ?_⟩
  · rintro rfl; have := (hK.special '>' (by simp)).2; simp [hw] at this
  · rintro rfl; have := (hK.nohead '*' (by simp)).2; simp [hw] at this

theorem lex_renderToks (hK : K.WF) : ∀ (tss : List (Tok × List Char)),
    (∀ x ∈ tss, TokOK K x.1) → SepsOK K tss → lex K (renderToks tss) = some (tss.map (·.1)) := by
  intro tss
  induction tss with
  | nil => intro _ _; simp [renderToks, lex]
  | cons x rest ih =>
    intro htok hsep
    obtain ⟨t, sep⟩ := x
    simp only [SepsOK] at hsep
    obtain ⟨hs, hrest⟩ := hsep
    have ih' := ih (fun y hy => htok y (List.mem_cons_of_mem _ hy)) hrest
    have ht : TokOK K t := htok (t, sep) List.mem_cons_self
    simp only [renderToks]
    rcases hs with ⟨rfl, hw⟩ | ⟨hskip, w, r, rfl, hw⟩
    · rw [lex_text hK t ht _ (by simpa using hw)]
      simp [ih']
    · rw [lex_text hK t ht _ (fun _ => by simpa using wordEnd_of_ws hK hw _)]
      rw [hskip, ih']
      simp

/-! ## things the lexer skips -/

theorem skips_nil : Skips K [] := fun _ => rfl

theorem skips_append {a b : List Char} (ha : Skips K a) (hb : Skips K b) : Skips K (a ++ b) := by
  intro rest; rw [List.append_assoc, ha, hb]

theorem skips_ws {w : Char} (hw : K.ws w = true) : Skips K [w] := by
  intro rest; simp [lex_cons, scan, hw]

theorem lex_dropWhile_nl (hK : K.WF) : ∀ rest : List Char, lex K (rest.dropWhile isNL) = lex K rest := by
  intro rest
  induction rest with
  | nil => rfl
  | cons c cs ih =>
    simp only [List.dropWhile]
    split
    · rename_i hc
      have hw : K.ws c = true := by
        simp only [isNL, Bool.or_eq_true, decide_eq_true_eq] at hc
        rcases hc with rfl | rfl
        · exact hK.nl_ws.1
        · exact hK.nl_ws.2
      rw [ih]
      simp [lex_cons, scan, hw]
    · rfl

theorem drop_takeWhile_length (p : Char → Bool) : ∀ l : List Char,
    l.drop (l.takeWhile p).length = l.dropWhile p := by
  intro l
  induction l with
  | nil => rfl
  | cons a as ih =>
    simp only [List.takeWhile, List.dropWhile]
    split <;> simp_all

theorem lineCommentLen_body : ∀ (body : List Char) (n : Char) (rest : List Char),
    body.all (fun c => !isNL c) = true → isNL n = true →
    (body ++ n :: rest).drop (lineCommentLen (body ++ n :: rest)) = rest.dropWhile isNL := by
  intro body
  induction body with
  | nil =>
    intro n rest _ hn
    simp only [List.nil_append, lineCommentLen, hn, if_true]
    rw [Nat.add_comm, List.drop_succ_cons]
    exact drop_takeWhile_length isNL rest
  | cons b body ih =>
    intro n rest hb hn
    simp only [List.all_cons, Bool.and_eq_true, Bool.not_eq_true'] at hb
    simp only [List.cons_append, lineCommentLen, hb.1, Bool.false_eq_true, if_false]
    rw [Nat.add_comm, List.drop_succ_cons]
    exact ih n rest hb.2 hn

/-- a `#` comment up to and including its newline -/
theorem skips_lineComment (hK : K.WF) (body : List Char) (n : Char)
    (hb : body.all (fun c => !isNL c) = true) (hn : isNL n = true) :
    Skips K ('#' :: (body ++ [n])) := by
  intro rest
  have hw : K.ws '#' = false := (hK.nohead '#' (by simp)).2
  simp only [List.cons_append, List.append_assoc, List.nil_append, lex_cons]
  simp only [scan, hw, Bool.false_eq_true, if_false, if_true]
  rw [lineCommentLen_body body n rest hb hn, lex_dropWhile_nl hK]


/-! ## block comments -/

theorem blockEnd_body : ∀ (body rest : List Char), '/' ∉ body →
    blockEnd (body ++ '*' :: '/' :: rest) = some (body.length + 2) := by
  intro body
  induction body with
  | nil => intro rest _; simp [blockEnd_cons_cons]
  | cons a b ih =>
    intro rest hno
    have hb : '/' ∉ b := fun h => hno (List.mem_cons_of_mem _ h)
    cases b with
    | nil =>
      simp only [List.cons_append, List.nil_append]
      rw [blockEnd_cons_cons]
      simp [blockEnd_cons_cons]
    | cons y t =>
      have hy : y ≠ '/' := fun h => hno (by simp [h])
      simp only [List.cons_append]
      rw [blockEnd_cons_cons]
      have := ih rest hb
      simp only [List.cons_append] at this
      simp [hy, this]

theorem takeWhile_length_le_stop {p : Char → Bool} : ∀ (a : List Char) (w : Char) (rest : List Char),
    p w = false → ((a ++ w :: rest).takeWhile p).length ≤ a.length := by
  intro a
  induction a with
  | nil => intro w rest hw; simp [List.takeWhile, hw]
  | cons x a ih =>
    intro w rest hw
    simp only [List.cons_append, List.takeWhile]
    split
    · have := ih w rest hw; simp; omega
    · simp

/-- a `/* … */` comment (body without `/`) followed by a whitespace character -/
theorem skips_blockComment (hK : K.WF) (body : List Char) (w : Char) (hb : '/' ∉ body) (hw : K.ws w = true) :
    Skips K ('/' :: '*' :: (body ++ ['*', '/', w])) := by
  intro rest
  have h0 : K.ws '/' = false := (hK.nohead '/' (by simp)).2
  have hend : blockEnd (body ++ '*' :: '/' :: w :: rest) = some (body.length + 2) := blockEnd_body body _ hb
  have hwns : K.safe w = false := hK.ws_not_safe w hw
  have htw : (('*' :: (body ++ '*' :: '/' :: w :: rest)).takeWhile K.safe).length ≤ body.length + 3 := by
    have := takeWhile_length_le_stop (p := K.safe) ('*' :: (body ++ ['*', '/'])) w rest hwns
    simpa using this
  have hwin : blockCommentWins K ('*' :: (body ++ '*' :: '/' :: w :: rest)) = some (body.length + 3) := by
    simp only [blockCommentWins, hend]
    by_cases hn : K.nonIdHead '/' = true
    · simp only [hn, if_true]
      rw [if_pos (by omega)]
      congr 1; omega
    · simp only [hn, Bool.false_eq_true, if_false]
      rw [if_pos (by omega)]
      congr 1; omega
  have hdrop : List.drop (body.length + 3) ('*' :: (body ++ '*' :: '/' :: w :: rest)) = w :: rest := by
    have : body.length + 3 = ('*' :: (body ++ ['*', '/'])).length := by simp
    rw [this]
    have h2 : ('*' :: (body ++ '*' :: '/' :: w :: rest)) = ('*' :: (body ++ ['*', '/'])) ++ (w :: rest) := by simp
    rw [h2, List.drop_left]
  simp only [List.cons_append, List.append_assoc, List.nil_append, lex_cons]
  simp only [scan, h0, isArrow, commentAt, hwin, Bool.false_eq_true, if_false, if_true]
  simp [hdrop, lex_cons, scan, hw]


/-! ## completeness: every character of an accepted text is accounted for -/

theorem take_length_takeWhile (p : Char → Bool) : ∀ l : List Char, l.take (l.takeWhile p).length = l.takeWhile p := by
  intro l
  induction l with
  | nil => rfl
  | cons a as ih =>
    simp only [List.takeWhile]
    split <;> simp_all

/-- where a quoted token ends there is a closing quote -/
theorem quoteScan_spec (q : Char) : ∀ (cs : List Char) (pb : Bool) (fb : Option Nat) (i m : Nat),
    quoteScan q pb fb i cs = some m →
    fb = some m ∨ (i < m ∧ m ≤ i + cs.length ∧ cs[m - i - 1]? = some q) := by
  intro cs
  induction cs with
  | nil => intro pb fb i m h; simp only [quoteScan] at h; exact Or.inl h
  | cons c cs ih =>
    intro pb fb i m h
    simp only [quoteScan] at h
    split at h
    · rename_i hc
      split at h
      · rcases ih _ _ _ _ h with h1 | ⟨h1, h2, h3⟩
        · simp only [Option.some.injEq] at h1
          subst h1
          exact Or.inr ⟨by omega, by simp, by simp [hc]⟩
        · refine Or.inr ⟨by omega, by simp; omega, ?_⟩
          have : m - i - 1 = (m - (i + 1) - 1) + 1 := by omega
          rw [this, List.getElem?_cons_succ]; exact h3
      · simp only [Option.some.injEq] at h
        subst h
        exact Or.inr ⟨by omega, by simp, by simp [hc]⟩
    · rcases ih _ _ _ _ h with h1 | ⟨h1, h2, h3⟩
      · exact Or.inl h1
      · refine Or.inr ⟨by omega, by simp; omega, ?_⟩
        have : m - i - 1 = (m - (i + 1) - 1) + 1 := by omega
        rw [this, List.getElem?_cons_succ]; exact h3

theorem take_succ_of_getElem? {l : List Char} {n : Nat} {q : Char} (h : l[n]? = some q) :
    l.take (n + 1) = l.take n ++ [q] := by
  rw [List.take_add_one, h]; rfl

theorem startsWithAmp_spec {cs : List Char} (h : startsWithAmp cs = true) : ∃ r, cs = '&' :: r := by
  unfold startsWithAmp at h; split at h
  · exact ⟨_, rfl⟩
  · simp at h

theorem isArrow_spec {c : Char} {cs : List Char} (h : isArrow c cs = true) : c = '-' ∧ ∃ r, cs = '>' :: r := by
  unfold isArrow at h
  simp only [Bool.and_eq_true, decide_eq_true_eq] at h
  refine ⟨h.1, ?_⟩
  have := h.2
  unfold startsWithGt at this; split at this
  · exact ⟨_, rfl⟩
  · simp at this

/-- a token step consumes exactly the token's spelling -/
theorem scan_tok_spec (c : Char) (cs : List Char) (t : Tok) (n : Nat) (h : scan K c cs = .tok t n) :
    c :: cs.take n = t.text := by
  unfold scan at h
  by_cases h1 : K.ws c = true
  · simp [h1] at h
  rw [if_neg h1] at h
  by_cases h2 : c = '#'
  · simp [h2] at h
  rw [if_neg h2] at h
  by_cases h3 : c = ','
  · simp only [h3, if_true, Scan.tok.injEq] at h; obtain ⟨rfl, rfl⟩ := h; simp [Tok.text, h3]
  rw [if_neg h3] at h
  by_cases h4 : c = '{'
  · simp only [h4, if_true, Scan.tok.injEq] at h; obtain ⟨rfl, rfl⟩ := h; simp [Tok.text, h4]
  rw [if_neg h4] at h
  by_cases h5 : c = '}'
  · simp only [h5, if_true, Scan.tok.injEq] at h; obtain ⟨rfl, rfl⟩ := h; simp [Tok.text, h5]
  rw [if_neg h5] at h
  by_cases h6 : c = ':'
  · simp only [h6, if_true, Scan.tok.injEq] at h; obtain ⟨rfl, rfl⟩ := h; simp [Tok.text, h6]
  rw [if_neg h6] at h
  by_cases h7 : c = '['
  · simp only [h7, if_true, Scan.tok.injEq] at h; obtain ⟨rfl, rfl⟩ := h; simp [Tok.text, h7]
  rw [if_neg h7] at h
  by_cases h8 : c = ']'
  · simp only [h8, if_true, Scan.tok.injEq] at h; obtain ⟨rfl, rfl⟩ := h; simp [Tok.text, h8]
  rw [if_neg h8] at h
  by_cases h9 : c = '!'
  · simp only [h9, if_true, Scan.tok.injEq] at h; obtain ⟨rfl, rfl⟩ := h; simp [Tok.text, h9]
  rw [if_neg h9] at h
  by_cases h10 : c = '('
  · simp only [h10, if_true, Scan.tok.injEq] at h; obtain ⟨rfl, rfl⟩ := h; simp [Tok.text, h10]
  rw [if_neg h10] at h
  by_cases h11 : c = ')'
  · simp only [h11, if_true, Scan.tok.injEq] at h; obtain ⟨rfl, rfl⟩ := h; simp [Tok.text, h11]
  rw [if_neg h11] at h
  by_cases h12 : c = '&'
  · rw [if_pos h12] at h
    by_cases ha : startsWithAmp cs = true
    · rw [if_pos ha] at h
      simp only [Scan.tok.injEq] at h; obtain ⟨rfl, rfl⟩ := h
      obtain ⟨r, rfl⟩ := startsWithAmp_spec ha
      simp [Tok.text, h12]
    · rw [if_neg ha] at h; simp at h
  rw [if_neg h12] at h
  by_cases h13 : c = '"' ∨ c = '\''
  · rw [if_pos h13] at h
    split at h
    · rename_i m hm
      simp only [Scan.tok.injEq] at h
      obtain ⟨ht, hn⟩ := h
      subst hn
      subst ht
      rcases quoteScan_spec c cs false none 0 m hm with h0 | ⟨hpos, hle, hq⟩
      · simp at h0
      · simp only [Nat.sub_zero] at hq
        have hn : m = (m - 1) + 1 := by omega
        rw [Tok.text]
        congr 1
        conv => lhs; rw [hn]
        exact take_succ_of_getElem? hq
    · simp at h
  rw [if_neg h13] at h
  by_cases h14 : isArrow c cs = true
  · rw [if_pos h14] at h
    simp only [Scan.tok.injEq] at h; obtain ⟨rfl, rfl⟩ := h
    obtain ⟨hc, r, rfl⟩ := isArrow_spec h14
    simp [Tok.text, hc]
  rw [if_neg h14] at h
  split at h
  · simp at h
  · by_cases h15 : K.idHead c = true
    · rw [if_pos h15] at h
      simp only [Scan.tok.injEq] at h; obtain ⟨rfl, rfl⟩ := h
      simp [Tok.text, take_length_takeWhile]
    · rw [if_neg h15] at h
      by_cases h16 : K.nonIdHead c = true
      · rw [if_pos h16] at h
        simp only [Scan.tok.injEq] at h; obtain ⟨rfl, rfl⟩ := h
        simp [Tok.text, take_length_takeWhile]
      · rw [if_neg h16] at h; simp at h

/-- what the lexer may skip, exactly: one whitespace character; a `#` comment — `#`, a body without
newline characters, then the whole run of newline characters that follows (empty only at the end
of the text); a block comment `/*` body `*/` -/
def isTrivia (K : Classes) (s : List Char) : Prop :=
  (∃ w, s = [w] ∧ K.ws w = true) ∨
  (∃ body nls, s = '#' :: (body ++ nls) ∧ body.all (fun c => !isNL c) = true ∧ nls.all isNL = true) ∨
  (∃ body, s = '/' :: '*' :: (body ++ ['*', '/']))

theorem all_takeWhile (p : Char → Bool) : ∀ l : List Char, (l.takeWhile p).all p = true := by
  intro l
  induction l with
  | nil => rfl
  | cons a as ih =>
    simp only [List.takeWhile]
    split
    · rename_i h; simp [h, ih]
    · rfl

theorem lineComment_take : ∀ cs : List Char,
    cs.take (lineCommentLen cs) =
      cs.takeWhile (fun c => !isNL c) ++ (cs.dropWhile (fun c => !isNL c)).takeWhile isNL := by
  intro cs
  induction cs with
  | nil => rfl
  | cons c cs ih =>
    by_cases hc : isNL c = true
    · simp only [lineCommentLen, hc, if_true, List.takeWhile, List.dropWhile, Bool.not_true, List.nil_append]
      rw [Nat.add_comm, List.take_succ_cons, take_length_takeWhile]
    · simp only [Bool.not_eq_true] at hc
      simp only [lineCommentLen, hc, Bool.false_eq_true, if_false, List.takeWhile, List.dropWhile, Bool.not_false,
        List.cons_append]
      rw [Nat.add_comm, List.take_succ_cons, ih]

theorem blockEnd_take : ∀ (l : List Char) (e : Nat), blockEnd l = some e → ∃ body, l.take e = body ++ ['*', '/'] := by
  intro l
  induction l with
  | nil => intro e h; simp [blockEnd] at h
  | cons x l ih =>
    intro e h
    cases l with
    | nil => simp [blockEnd] at h
    | cons y a =>
      rw [blockEnd_cons_cons] at h
      split at h
      · rename_i hxy
        simp only [Option.some.injEq] at h
        subst h
        exact ⟨[], by simp [hxy.1, hxy.2]⟩
      · cases hb : blockEnd (y :: a) with
        | none => rw [hb] at h; simp at h
        | some e' =>
          rw [hb] at h
          simp only [Option.map_some, Option.some.injEq] at h
          subst h
          obtain ⟨body, hbody⟩ := ih e' hb
          exact ⟨x :: body, by rw [List.take_succ_cons, hbody]; rfl⟩

theorem scan_skip_spec (c : Char) (cs : List Char) (n : Nat) (h : scan K c cs = .skip n) :
    isTrivia K (c :: cs.take n) := by
  unfold scan at h
  by_cases h1 : K.ws c = true
  · rw [if_pos h1] at h
    simp only [Scan.skip.injEq] at h; subst h
    exact Or.inl ⟨c, by simp, h1⟩
  rw [if_neg h1] at h
  by_cases h2 : c = '#'
  · rw [if_pos h2] at h
    simp only [Scan.skip.injEq] at h; subst h
    refine Or.inr (Or.inl ⟨_, _, by rw [h2, lineComment_take], ?_, ?_⟩)
    · exact all_takeWhile _ _
    · exact all_takeWhile _ _
  rw [if_neg h2] at h
  by_cases h3 : c = ','
  · simp [h3] at h
  rw [if_neg h3] at h
  by_cases h4 : c = '{'
  · simp [h4] at h
  rw [if_neg h4] at h
  by_cases h5 : c = '}'
  · simp [h5] at h
  rw [if_neg h5] at h
  by_cases h6 : c = ':'
  · simp [h6] at h
  rw [if_neg h6] at h
  by_cases h7 : c = '['
  · simp [h7] at h
  rw [if_neg h7] at h
  by_cases h8 : c = ']'
  · simp [h8] at h
  rw [if_neg h8] at h
  by_cases h9 : c = '!'
  · simp [h9] at h
  rw [if_neg h9] at h
  by_cases h10 : c = '('
  · simp [h10] at h
  rw [if_neg h10] at h
  by_cases h11 : c = ')'
  · simp [h11] at h
  rw [if_neg h11] at h
  by_cases h12 : c = '&'
  · rw [if_pos h12] at h; split at h <;> simp at h
  rw [if_neg h12] at h
  by_cases h13 : c = '"' ∨ c = '\''
  · rw [if_pos h13] at h; split at h <;> simp at h
  rw [if_neg h13] at h
  by_cases h14 : isArrow c cs = true
  · rw [if_pos h14] at h; simp at h
  rw [if_neg h14] at h
  split at h
  · rename_i m hm
    simp only [Scan.skip.injEq] at h; subst h
    unfold commentAt at hm
    split at hm
    · rename_i hc
      unfold blockCommentWins at hm
      split at hm
      · rename_i cs'
        split at hm
        · rename_i e he
          dsimp only at hm
          have hme : m = 1 + e := by
            split at hm
            · split at hm
              · simp only [Option.some.injEq] at hm; omega
              · simp at hm
            · simp at hm; omega
          obtain ⟨body, hbody⟩ := blockEnd_take cs' e he
          exact Or.inr (Or.inr ⟨body, by rw [hc, hme, Nat.add_comm 1 e, List.take_succ_cons, hbody]⟩)
        · simp at hm
      · simp at hm
    · simp at hm
  · split at h
    · simp at h
    · split at h <;> simp at h

/-- **Lexer completeness.** Every character of an accepted text is accounted for: the text is the
concatenation, in order, of pieces each of which is either the exact spelling of the next token
or trivia (one whitespace character, a `#…` comment, a `/*…` comment). -/
theorem lex_complete : ∀ (text : List Char) (ts : List Tok), lex K text = some ts →
    ∃ pieces : List (Option Tok × List Char),
      text = pieces.flatMap (·.2) ∧ pieces.filterMap (·.1) = ts ∧
      ∀ p ∈ pieces, (∀ t, p.1 = some t → p.2 = t.text) ∧ (p.1 = none → isTrivia K p.2) := by
  suffices H : ∀ (len : Nat) (text : List Char), text.length ≤ len → ∀ ts, lex K text = some ts →
      ∃ pieces : List (Option Tok × List Char),
        text = pieces.flatMap (·.2) ∧ pieces.filterMap (·.1) = ts ∧
        ∀ p ∈ pieces, (∀ t, p.1 = some t → p.2 = t.text) ∧ (p.1 = none → isTrivia K p.2) from
    fun text ts h => H text.length text (Nat.le_refl _) ts h
  intro len
  induction len with
  | zero =>
    intro text hlen ts hl
    have : text = [] := List.eq_nil_of_length_eq_zero (by omega)
    subst this
    simp only [lex, Option.some.injEq] at hl
    exact ⟨[], by simp, by simp [hl], by simp⟩
  | succ len ih =>
    intro text h ts hl
    cases text with
    | nil =>
      simp only [lex, Option.some.injEq] at hl
      exact ⟨[], by simp, by simp [hl], by simp⟩
    | cons c cs =>
      rw [lex_cons] at hl
      have hsplit : ∀ n, c :: cs = (c :: cs.take n) ++ cs.drop n := by intro n; simp
      have hlen : ∀ n, (cs.drop n).length ≤ len := by
        intro n; simp only [List.length_drop, List.length_cons] at h ⊢; omega
      split at hl
      · simp at hl
      · rename_i n hscan
        obtain ⟨ps, h1, h2, h3⟩ := ih (cs.drop n) (hlen n) ts hl
        refine ⟨(none, c :: cs.take n) :: ps, ?_, by simpa using h2, ?_⟩
        · rw [List.flatMap_cons, ← h1]; exact hsplit n
        · intro p hp
          rcases List.mem_cons.mp hp with rfl | hp
          · exact ⟨by simp, fun _ => scan_skip_spec c cs n hscan⟩
          · exact h3 p hp
      · rename_i t n hscan
        cases hrest : lex K (cs.drop n) with
        | none => simp [hrest] at hl
        | some ts' =>
          simp only [hrest, Option.map_some, Option.some.injEq] at hl
          obtain ⟨ps, h1, h2, h3⟩ := ih (cs.drop n) (hlen n) ts' hrest
          refine ⟨(some t, c :: cs.take n) :: ps, ?_, by simp [h2, hl], ?_⟩
          · rw [List.flatMap_cons, ← h1]; exact hsplit n
          · intro p hp
            rcases List.mem_cons.mp hp with rfl | hp
            · refine ⟨?_, by simp⟩
              intro t' ht'
              simp only [Option.some.injEq] at ht'
              subst ht'
              exact scan_tok_spec c cs t n hscan
            · exact h3 p hp


end DaeVerif.C17
