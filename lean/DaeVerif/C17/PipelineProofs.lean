import DaeVerif.C17.Pipeline
import DaeVerif.C17.MergeProofs
import DaeVerif.C17.TermProofs
import DaeVerif.C17.ConfigProofs
/-! # C17 — `cmd.readConfig`: the merged map has one entry per name; what `config.New` decodes from it;
the order in which the Go map is iterated cannot matter -/
namespace DaeVerif.C17

def SMap.names (m : SMap) : List (List Char) := m.map (·.1)

theorem SMap.append_names (m : SMap) (k : List Char) (v : List AItem) :
    (m.append k v).names = if m.any (fun e => e.1 = k) = true then m.names else m.names ++ [k] := by
  unfold SMap.append SMap.names
  split
  · rw [List.map_map]
    congr 1
    funext e
    simp only [Function.comp]
    split <;> rfl
  · simp

theorem SMap.append_nodup (m : SMap) (k : List Char) (v : List AItem) (h : m.names.Nodup) :
    (m.append k v).names.Nodup := by
  rw [SMap.append_names]
  split
  · exact h
  · rename_i hany
    refine List.nodup_append.mpr ⟨h, by simp, ?_⟩
    intro a ha b hb
    simp only [List.mem_singleton] at hb
    subst hb
    intro hab
    subst hab
    apply hany
    simp only [SMap.names, List.mem_map] at ha
    obtain ⟨e, he, hek⟩ := ha
    exact List.any_eq_true.mpr ⟨e, he, by simp [hek]⟩

theorem sectionsToMap_nodup (ss : List ASection) : (sectionsToMap ss).names.Nodup := by
  unfold sectionsToMap
  have : ∀ (l : List ASection) (m : SMap), m.names.Nodup →
      (l.foldl (fun m s => m.append s.name s.items) m).names.Nodup := by
    intro l
    induction l with
    | nil => intro m h; exact h
    | cons s l ih => intro m h; exact ih _ (SMap.append_nodup m _ _ h)
  exact this ss [] (by simp [SMap.names])

theorem mergeInto_nodup (child : SMap) : ∀ (father : SMap), father.names.Nodup →
    (mergeInto father child).names.Nodup := by
  unfold mergeInto
  induction child with
  | nil => intro f h; exact h
  | cons e c ih => intro f h; exact ih _ (SMap.append_nodup f _ _ h)

theorem dfsChildren_names_nodup (K : Classes) (fs : FS) (dir : List Char) (n : Nat) :
    ∀ (cs : List (List Char)) (st : MState) (acc : SMap) (st' : MState) (m : SMap), acc.names.Nodup →
    dfsChildren K fs dir n st acc cs = (st', .ok m) → m.names.Nodup := by
  intro cs
  induction cs with
  | nil =>
    intro st acc st' m hacc h
    simp only [dfsChildren, Prod.mk.injEq, Except.ok.injEq] at h
    exact h.2 ▸ hacc
  | cons c cs ih =>
    intro st acc st' m hacc h
    rw [dfsChildren] at h
    split at h
    · simp at h
    · rename_i st1 m1 _
      exact ih st1 (mergeInto acc m1) st' m (mergeInto_nodup m1 acc hacc) h

/-- the merged map of a file has every section name once -/
theorem dfsMerge_names_nodup (K : Classes) (fs : FS) (dir : List Char) (n : Nat) (st st' : MState)
    (entry : List Char) (m : SMap) (h : dfsMerge K fs dir n st entry = (st', .ok m)) : m.names.Nodup := by
  cases n with
  | zero => simp [dfsMerge] at h
  | succ n =>
    rw [dfsMerge] at h
    split at h
    · simp at h
    · rename_i st1 own hread
      obtain ⟨_, ss, _, _, hown⟩ := readEntry_ok_facts K fs dir st st1 entry own hread
      split at h
      · simp at h
      · split at h
        · simp at h
        · exact dfsChildren_names_nodup K fs dir n _ st1 own st' m (hown ▸ sectionsToMap_nodup ss) h

/-! ## lookups in a list of sections with distinct names -/

theorem nodup_map_inj {α β : Type} (f : α → β) : ∀ (l : List α), (l.map f).Nodup →
    ∀ {x y : α}, x ∈ l → y ∈ l → f x = f y → x = y := by
  intro l
  induction l with
  | nil => intro _ x y hx; simp at hx
  | cons a l ih =>
    intro h x y hx hy hxy
    simp only [List.map_cons, List.nodup_cons, List.mem_map, not_exists, not_and] at h
    rcases List.mem_cons.mp hx with rfl | hx' <;> rcases List.mem_cons.mp hy with rfl | hy'
    · rfl
    · exact absurd hxy.symm (h.1 y hy')
    · exact absurd hxy (h.1 x hx')
    · exact ih h.2 hx' hy' hxy

theorem lookupSection_none {ss : List ASection} {name : List Char} :
    lookupSection ss name = none ↔ ∀ s ∈ ss, s.name ≠ name := by
  unfold lookupSection
  rw [List.find?_eq_none]
  constructor
  · intro h s hs
    have := h s (List.mem_reverse.mpr hs)
    simpa using this
  · intro h s hs
    have := h s (List.mem_reverse.mp hs)
    simpa using this

theorem lookupSection_some_mem {ss : List ASection} {name : List Char} {s : ASection}
    (h : lookupSection ss name = some s) : s ∈ ss ∧ s.name = name := by
  unfold lookupSection at h
  exact ⟨List.mem_reverse.mp (List.mem_of_find?_eq_some h), by simpa using List.find?_some h⟩

/-- with distinct names, the section found for a name is THE section of that name -/
theorem lookupSection_of_mem {ss : List ASection} (hnd : (ss.map (·.name)).Nodup) {s : ASection} (hs : s ∈ ss) :
    lookupSection ss s.name = some s := by
  cases hl : lookupSection ss s.name with
  | none => exact absurd rfl (lookupSection_none.mp hl s hs)
  | some t =>
    obtain ⟨ht, htn⟩ := lookupSection_some_mem hl
    have : t = s := by
      exact nodup_map_inj (·.name) ss hnd ht hs htn
    rw [this]

theorem lookupSection_perm {ss ss' : List ASection} (hp : ss.Perm ss') (hnd : (ss.map (·.name)).Nodup)
    (name : List Char) : lookupSection ss name = lookupSection ss' name := by
  have hnd' : (ss'.map (·.name)).Nodup := (hp.map _).nodup_iff.mp hnd
  cases hl : lookupSection ss name with
  | none =>
    symm
    rw [lookupSection_none] at hl ⊢
    intro s hs
    exact hl s (hp.mem_iff.mpr hs)
  | some s =>
    obtain ⟨hs, hsn⟩ := lookupSection_some_mem hl
    rw [← hsn]
    exact (lookupSection_of_mem hnd' (hp.mem_iff.mp hs)).symm

/-! ## `config.New` sees its argument only through the per-name lookups -/

theorem decodeSpecs_congr (S : Schema) (dec : Dec) (fuel : Nat) (ss ss' : List ASection)
    (h : ∀ name, lookupSection ss name = lookupSection ss' name) :
    ∀ (specs : List SectionSpec) (st : Store), decodeSpecs S dec fuel ss specs st = decodeSpecs S dec fuel ss' specs st := by
  intro specs
  induction specs with
  | nil => intro st; rfl
  | cons sp rest ih =>
    intro st
    unfold decodeSpecs
    rw [h sp.name]
    split
    · split
      · rfl
      · exact ih _
    · split
      · rfl
      · exact ih _

theorem configNew_congr (S : Schema) (dec : Dec) (fuel : Nat) (ss ss' : List ASection)
    (h : ∀ name, lookupSection ss name = lookupSection ss' name)
    (hany : ∀ p : ASection → Bool, ss.any p = ss'.any p) :
    configNew S dec fuel ss = configNew S dec fuel ss' := by
  unfold configNew
  rw [decodeSpecs_congr S dec fuel ss ss' h, hany]
  have : (S.specs.all fun sp => !sp.required || (lookupSection ss sp.name).isSome) =
      (S.specs.all fun sp => !sp.required || (lookupSection ss' sp.name).isSome) := by
    congr 1
    funext sp
    rw [h]
  rw [this]

theorem any_perm {α : Type} {l l' : List α} (hp : l.Perm l') (p : α → Bool) : l.any p = l'.any p := by
  rw [Bool.eq_iff_iff, List.any_eq_true, List.any_eq_true]
  constructor
  · rintro ⟨x, hx, hpx⟩; exact ⟨x, hp.mem_iff.mp hx, hpx⟩
  · rintro ⟨x, hx, hpx⟩; exact ⟨x, hp.mem_iff.mpr hx, hpx⟩

/-- the order of sections with distinct names does not matter to `config.New` -/
theorem configNew_perm (S : Schema) (dec : Dec) (fuel : Nat) (ss ss' : List ASection) (hp : ss.Perm ss')
    (hnd : (ss.map (·.name)).Nodup) : configNew S dec fuel ss = configNew S dec fuel ss' :=
  configNew_congr S dec fuel ss ss' (lookupSection_perm hp hnd) (any_perm hp)

/-! ## what `config.New` decodes from a merged map -/

theorem sectionsOf_names (m : SMap) : (sectionsOf m).map (·.name) = m.names := by
  simp [sectionsOf, SMap.names, List.map_map, Function.comp_def]

theorem itemsOf_sectionsOf (m : SMap) (hnd : m.names.Nodup) (name : List Char) :
    itemsOf (sectionsOf m) name = m.get name := by
  unfold itemsOf SMap.get
  cases hf : m.find? (fun e => e.1 = name) with
  | none =>
    have : lookupSection (sectionsOf m) name = none := by
      rw [lookupSection_none]
      intro s hs
      simp only [sectionsOf, List.mem_map] at hs
      obtain ⟨e, he, rfl⟩ := hs
      have := List.find?_eq_none.mp hf e he
      simpa using this
    rw [this]
  | some e =>
    have hmem : (⟨e.1, e.2⟩ : ASection) ∈ sectionsOf m := by
      simp only [sectionsOf, List.mem_map]
      exact ⟨e, List.mem_of_find?_eq_some hf, rfl⟩
    have hname : e.1 = name := by simpa using List.find?_some hf
    have := lookupSection_of_mem (by rw [sectionsOf_names]; exact hnd) hmem
    simp only at this
    rw [hname] at this
    rw [this]

/-! ## a concrete merge, for the non-vacuity examples -/

theorem parse_empty (K : Classes) : parse K [] = some [] := by
  simp [parse, lex, parseToks, parseProg, walkProg]

/-- an empty, well-protected `.dae` file inside its own directory merges to the empty map -/
theorem merge_empty_file (K : Classes) (fs : FS) (e : List Char) (n : Nat)
    (hsuf : hasSuffixC e ".dae".toList = true) (hsub : ensureInSubDir e (dirOf e) = true)
    (hstat : fs.stat e = some ⟨false, 0o600, []⟩) :
    (merge K fs (n + 1) e).2 = .ok [] := by
  have h1 : readEntry K fs (dirOf e) ⟨[], []⟩ e = (⟨[e], [e]⟩, .ok []) := by
    unfold readEntry
    simp only [List.contains_nil, Bool.false_eq_true, if_false, hsuf, hsub, Bool.not_true, hstat, parse_empty,
      sectionsToMap, List.foldl_nil, List.nil_append]
    simp
  unfold merge
  rw [dfsMerge, h1]
  simp [SMap.get, includePatterns, unsqueeze, dfsChildren]

end DaeVerif.C17
