/-!
# C19 — data types shared by the REGENERATED tables (`Gen/*.lean`) and the hand-written model.

Core-only.  Nothing in this file is a fact about dae.
-/
namespace DaeVerif.C19

/-- Identifiers (record names, member paths, constant names, GOARCH names) are kept as natural
numbers, not as `String`: the table theorems are proved by kernel evaluation (`decide`), `String`
equality is very slow in the kernel, whereas comparing two numerals is one big-number operation.
Encoding: the UTF-8 bytes as base-256 digits, most significant first, below a leading digit 1
(so `n!""` = 1, `n!"a"` = 256 + 97, and the length is recoverable). -/
abbrev Name := Nat

def nameOfBytes (bs : List Nat) : Name := bs.foldl (fun acc b => acc * 256 + b) 1

open Lean in
/-- `n!"abc"` = the name of the literal, expanded at parse time to a raw numeral. -/
macro:max "n!" s:str : term => do
  let v := s.getString.toUTF8.toList.foldl (fun acc b => acc * 256 + b.toNat) 1
  `((nat_lit $(Syntax.mkNumLit (toString v)) : Nat))

/-- number of bytes of a name -/
def nameLen (n : Name) : Nat := n.log2 / 8

/-- concatenation: shift `a` left by the length of `b` and put `b` without its leading 1 below it -/
def nameCat (a b : Name) : Name := (a <<< (8 * nameLen b)) + (b - (1 <<< (8 * nameLen b)))

/-- the bytes of a name, most significant first -/
def nameBytes (n : Name) : List Nat := (List.range (nameLen n)).map (fun i => (n >>> (8 * (nameLen n - 1 - i))) % 256)

def nameEq (a b : Name) : Bool := Nat.beq a b

def nameMem (n : Name) : List Name → Bool
  | [] => false
  | x :: xs => nameEq n x || nameMem n xs

def nameStr (n : Name) : String := String.ofList ((nameBytes n).map Char.ofNat)
def nameOf (s : String) : Name := nameOfBytes (s.toUTF8.toList.map (·.toNat))

/-- Signedness class of a scalar leaf. `enum` = a C enum (compatible with an unsigned Go integer of
the same width), `recd` = an opaque record (only used for kernel-internal structs). -/
inductive Cls where
  | uint | sint | bool | enum | recd
deriving DecidableEq, Repr, Inhabited

/-- A scalar or array-of-scalars member of a record after flattening nested records:
`path` is the dotted member designator, `off` its byte offset from the start of the outermost
record, `esize` the width of one element, `count` the number of elements (1 for a scalar). `blank` marks a
Go `_` field (explicit padding). -/
structure Leaf where
  path : Name
  off : Nat
  esize : Nat
  count : Nat
  cls : Cls
  blank : Bool
deriving DecidableEq, Repr, Inhabited

structure Rec where
  name : Name
  size : Nat
  align : Nat
  leaves : List Leaf
deriving Repr, Inhabited

/-- One `SEC(".maps")` definition of the C program. -/
structure CMap where
  name : Name
  mtype : Nat
  keySize : Nat
  valSize : Nat
  maxEntries : Nat
  keyType : String
  valType : String
  /-- tag of the record the key / value type names (`"struct tuples_key"` ↦ `"tuples_key"`), `""` if it is not a record -/
  keyRec : Name
  valRec : Name
deriving Repr, Inhabited

/-- `common/consts/ebpf_sync_spec.json`. -/
structure Spec where
  matchTypes : List Name
  l4 : List (Name × Nat)
  ip : List (Name × Nat)
  outbound : List (Name × Nat)
deriving Repr, Inhabited

end DaeVerif.C19
