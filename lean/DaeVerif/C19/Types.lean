/-!
# C19 — data types shared by the REGENERATED tables (`Gen/*.lean`) and the hand-written model.

Core-only.  Nothing in this file is a fact about dae.
-/
namespace DaeVerif.C19

/-- Signedness class of a scalar leaf. `enum` = a C enum (compatible with an unsigned Go integer of
the same width), `recd` = an opaque record (only used for kernel-internal structs). -/
inductive Cls where
  | uint | sint | bool | enum | recd
deriving DecidableEq, Repr, Inhabited

/-- A scalar or array-of-scalars member of a record after flattening nested records:
`path` is the dotted member designator, `off` its byte offset from the start of the outermost
record, `esize` the width of one element, `count` the number of elements (1 for a scalar). `blank` marks a
Go `_` field (explicit padding). -/
structure Leaf where
  path : String
  off : Nat
  esize : Nat
  count : Nat
  cls : Cls
  blank : Bool
deriving DecidableEq, Repr, Inhabited

structure Rec where
  name : String
  size : Nat
  align : Nat
  leaves : List Leaf
deriving Repr, Inhabited

/-- One `SEC(".maps")` definition of the C program. -/
structure CMap where
  name : String
  mtype : Nat
  keySize : Nat
  valSize : Nat
  maxEntries : Nat
  keyType : String
  valType : String
  /-- tag of the record the key / value type names (`"struct tuples_key"` ↦ `"tuples_key"`), `""` if it is not a record -/
  keyRec : String
  valRec : String
deriving Repr, Inhabited

/-- `common/consts/ebpf_sync_spec.json`. -/
structure Spec where
  matchTypes : List String
  l4 : List (String × Nat)
  ip : List (String × Nat)
  outbound : List (String × Nat)
deriving Repr, Inhabited

end DaeVerif.C19
