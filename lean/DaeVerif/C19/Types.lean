/-!
# C19 — data types shared by the REGENERATED tables (`Gen/*.lean`) and the hand-written model.

Core-only.  Nothing in this file is a fact about dae.
-/
namespace DaeVerif.C19

/-- Identifiers (record names, member paths, constant names, GOARCH names) are kept as lists of
UTF-8 bytes, not as `String`: the table theorems are proved by kernel evaluation (`decide`) and
`String` equality is very slow in the kernel, whereas comparing short lists of small numbers is not. -/
abbrev Name := List Nat

open Lean in
/-- `n!"abc"` = the bytes of the literal, expanded at parse time to a list literal. -/
macro:max "n!" s:str : term => do
  let bytes := s.getString.toUTF8.toList
  let lits := bytes.map (fun b => Syntax.mkNumLit (toString b.toNat))
  `(([$(lits.toArray),*] : List Nat))

def nameStr (n : Name) : String := String.ofList (n.map Char.ofNat)
def nameOf (s : String) : Name := s.toUTF8.toList.map (·.toNat)

/-- Signedness class of a scalar leaf. `enum` = a C enum (compatible with an unsigned Go integer of
the same width), `recd` = an opaque record (only used for kernel-internal structs). -/
inductive Cls where
  | uint | sint | bool | enum | recd
deriving DecidableEq, Repr, Inhabited

/-- A scalar or array-of-scalars member of a record after flattening nested records:
`path` is the dotted member designator, `off` its byte offset from the start of the outermost
record, `esize` the width of one element, `count` the number of elements (1 for a scalar). `blank` marks a
Go `_` field (explicit padding). -/
structure Leaf where
  path : Name
  off : Nat
  esize : Nat
  count : Nat
  cls : Cls
  blank : Bool
deriving DecidableEq, Repr, Inhabited

structure Rec where
  name : Name
  size : Nat
  align : Nat
  leaves : List Leaf
deriving Repr, Inhabited

/-- One `SEC(".maps")` definition of the C program. -/
structure CMap where
  name : Name
  mtype : Nat
  keySize : Nat
  valSize : Nat
  maxEntries : Nat
  keyType : String
  valType : String
  /-- tag of the record the key / value type names (`"struct tuples_key"` ↦ `"tuples_key"`), `""` if it is not a record -/
  keyRec : Name
  valRec : Name
deriving Repr, Inhabited

/-- `common/consts/ebpf_sync_spec.json`. -/
structure Spec where
  matchTypes : List Name
  l4 : List (Name × Nat)
  ip : List (Name × Nat)
  outbound : List (Name × Nat)
deriving Repr, Inhabited

end DaeVerif.C19
