import DaeVerif.C19.Lifecycle
import DaeVerif.Common.Proto
/-! Line-protocol driver for C19 (op grammar: see harness/overlay/control/c19_test.go,
harness/c19/c19_native.c and checks/c19.py).  Evaluates the same definitions the theorems are about. -/
open DaeVerif DaeVerif.C19 DaeVerif.Proto

def clsStr : Cls → String
  | .uint => "uint" | .sint => "sint" | .bool => "bool" | .enum => "enum" | .recd => "rec"

def leafStr (l : Leaf) : String :=
  s!"{nameStr l.path}:{l.off}:{l.esize}:{l.count}:{clsStr l.cls}:{boolStr l.blank}"

def recStr (r : Rec) : String :=
  s!"size={r.size} align={r.align} leaves=" ++ ",".intercalate (r.leaves.map leafStr)

def parseEndian? : String → Option Endian
  | "le" => some .little
  | "be" => some .big
  | _ => none

/-- `path=v|v|v;path=v` for the non-blank leaves -/
def decodeRec (e : Endian) (r : Rec) (bs : List Nat) : String :=
  ";".intercalate ((r.leaves.filter (!·.blank)).map fun l =>
    nameStr l.path ++ "=" ++ "|".intercalate ((decodeLeaf e bs l).map toString))

/-- `4:0a000001` (Is4) or `6:<32 hex>` -/
def parseAddr? (tok : String) : Option GoAddr :=
  match tok.splitOn ":" with
  | ["4", h] => do let b ← hexToBytes? h; if b.length = 4 then pure ⟨true, b⟩ else none
  | ["6", h] => do let b ← hexToBytes? h; if b.length = 16 then pure ⟨false, b⟩ else none
  | _ => none

def parsePrefix? (tok : String) : Option GoPrefix :=
  match tok.splitOn "/" with
  | [a, b] => do let addr ← parseAddr? a; let bits ← b.toNat?; pure ⟨addr, bits⟩
  | _ => none

def parseNV? (tok : String) : Option (Name × Nat) :=
  match tok.splitOn ":" with
  | [n, v] => do let x ← v.toNat?; pure (nameOf n, x)
  | _ => none

def parseList (s : String) : List String := (s.splitOn ",").filter (· ≠ "")

/-- `mt=a,b l4=TCP:1 ip=4:1 ob=DIRECT:0` -/
def parseSpec? (toks : List String) : Option Spec := do
  let get (k : String) : Option String :=
    toks.findSome? fun t => if t.startsWith (k ++ "=") then some ((t.drop (k.length + 1)).toString) else none
  let mt ← get "mt"; let l4 ← get "l4"; let ip ← get "ip"; let ob ← get "ob"
  let l4' ← (parseList l4).mapM parseNV?
  let ip' ← (parseList ip).mapM parseNV?
  let ob' ← (parseList ob).mapM parseNV?
  pure ⟨(parseList mt).map nameOf, l4', ip', ob'⟩

def nvStr (l : List (Name × Nat)) : String := ",".intercalate (l.map fun x => s!"{nameStr x.1}={x.2}")

def genStr (g : GenOut) : String := s!"mt[{nvStr g.matchTypes}] ob[{nvStr g.outbound}] l4[{nvStr g.l4}] ip[{nvStr g.ip}]"

def optStr (o : Option Nat) : String := match o with | some v => toString v | none => "none"

def connAnswer (outbound l4 ip dom : String) : String :=
  let l4' := match l4 with | "tcp" => L4Str.tcp | "udp" => .udp | _ => .other
  let ip' := match ip with | "4" => IpStr.v4 | "6" => .v6 | _ => .other
  let dom' := match dom with | "dns" => UdpDomain.dns | "data" => .data | _ => .unset
  match outbound.toNat? with
  | some o => optStr (goConnKey? o ⟨l4', ip', dom'⟩)
  | none => "bad-op"

/-- `none` | `idx:<n>` | `pr:<a>-<b>` | `byte:<v>` | `pname:<hex>` -/
def parseMsValue? (s : String) : Option (List Nat) :=
  match s.splitOn ":" with
  | ["none"] => some (zeros 16)
  | ["idx", n] => n.toNat?.map goSetIndexValue
  | ["byte", n] => n.toNat?.map goByteValue
  | ["pname", h] => (hexToBytes? h).map goPnameValue
  | ["pr", ab] =>
    match ab.splitOn "-" with
    | [a, b] => do let x ← a.toNat?; let y ← b.toNat?; pure (goPortRangeValue x y)
    | _ => none
  | _ => none

/-- `RetrieveRoutingResult` finds the entry: in `conn_state_map` under the flow's own key for TCP/UDP with
routing metadata, else in `routing_handoff_map` under the flow's own key (any protocol). -/
def routeLookupFinds (wh : String) (proto : Nat) : Bool :=
  (wh == "conn" && (proto == 6 || proto == 17)) || wh == "handoff"

def allConstPairs : List (Name × Name) := specConstPairs ++ fixedConstPairs

def handle (line : String) : String :=
  match words line with
  -- ---------------------------------------------------------------- diagnostics (checks/c19.py)
  | ["counts"] =>
    s!"obl={layoutObligations.length} const={allConstPairs.length} limit={limitChecks.length} map={Gen.cMaps.length} mapio={Gen.goMapIO.length} buildsite={Gen.goBuildSites.length} cclass={Gen.cConsts.length} fieldlit={Gen.goFieldLiterals.length} param={paramContents.length} endian={machineBigEndian.length} wiretype={exchangedTypes.length}"
  | ["obl", i] =>
    match i.toNat? >>= fun k => layoutObligations[k]? with
    | some (p, a) =>
      let probs := pairProblems Gen.cRecs (goRecsFor a) p
      let hd := s!"{nameStr p.go}~{nameStr p.c}@{nameStr a}"
      if pairOk Gen.cRecs (goRecsFor a) p && probs.isEmpty then "ok " ++ hd
      else "BAD " ++ hd ++ " :: " ++ " ; ".intercalate (if probs.isEmpty then ["pairOk=false"] else probs)
    | none => "none"
  | ["const", i] =>
    match i.toNat? >>= fun k => allConstPairs[k]? with
    | some x => if constPairOk x then s!"ok {nameStr x.1}~{nameStr x.2}" else "BAD " ++ " ; ".intercalate (constPairProblem x)
    | none => "none"
  | ["limit", i] =>
    match i.toNat? >>= fun k => limitChecks[k]? with
    | some x =>
      (match x.2 with
       | some true => "ok "
       | some false => "BAD "
       | none => "BAD (a name this limit refers to no longer exists in the regenerated tables) ") ++ x.1
    | none => "none"
  | ["map", i] =>
    match i.toNat? >>= fun k => Gen.cMaps[k]? with
    | some m => (if mapOk m then "ok " ++ nameStr m.name
       else s!"BAD map {nameStr m.name} has a Go handle (bpfMaps) but its key `{m.keyType}` / value `{m.valType}` record has no entry in `pairing` (lean/DaeVerif/C19/Model.lean): add the pairing with the Go type that mirrors it, or, if the control plane never reads or writes the map's contents, add the map to `handleOnlyMaps`")
    | none => "none"
  | ["mapio", i] =>
    match i.toNat? >>= fun k => Gen.goMapIO[k]? with
    | some c =>
      if !mapIOOk c then "BAD Go hands a map a key/value that is not the type paired with the C record (or has the wrong size; `0 bytes` = the translator could not type the argument: give it a concrete type or teach translators/c19_go findMapIO the new call shape): " ++ mapIOProblem c
      else if !constKeyOk c then s!"BAD constant map key {c.const} used on {nameStr c.map} ({c.what}, result kind `{nameStr c.kind}`, at {c.at_}) is not the C constant it stands for"
      else "ok " ++ nameStr c.map ++ " " ++ c.what
    | none => "none"
  | ["buildsite", i] =>
    match i.toNat? >>= fun k => Gen.goBuildSites[k]? with
    | some b =>
      if buildSiteOk b then
        (if !kernelBound b.typ then "ok (type never handed to the kernel) " else if buildSiteClassified b then "ok (classified) " else "ok (auto-executed helper constructor) ")
          ++ nameStr b.fn ++ " " ++ nameStr b.typ ++ " " ++ nameStr b.kind
      else
        let unset := unsetFields b
        s!"UNCLASSIFIED {nameStr b.fn} constructs/modifies a {nameStr b.typ} ({nameStr b.kind} at {b.at_}; fields set: {b.fields.map nameStr}"
          ++ (if (nameEq b.kind n!"zero" || nameEq b.kind n!"lit") && !b.toCall && !unset.isEmpty then s!"; NEVER set: {unset.map nameStr}" else "")
          ++ "), a type the control plane hands to the kernel, and no harness stream executes that function against the kernel-side constructor: execute it in harness/overlay/control/c19*_test.go and add `(n!\"" ++ nameStr b.fn ++ "\", n!\"" ++ nameStr (baseTypeName b.typ) ++ "\", \"<stream>\")` to `buildSiteClass` (lean/DaeVerif/C19/Lifecycle.lean), or give the helper one of the shapes the generated harness executes by itself (autoShape?)"
    | none => "none"
  | ["ctorsigs"] =>
    ";".intercalate (Gen.goCtorSigs.map fun c => s!"{nameStr c.fn}:{nameStr c.typ}:{((autoShape? c).map nameStr).getD "-"}:{((lookupNameOpt c.fn ctorMeaning).map nameStr).getD "-"}")
  | ["cclass", i] =>
    match i.toNat? >>= fun k => Gen.cConsts[k]? with
    | some c =>
      if cConstClassified c.1 then "ok " ++ nameStr c.1
      else s!"BAD C constant {nameStr c.1}={c.2} is neither paired nor classified: if the control plane mirrors it add `(n!\"<Go constant, e.g. control.x or consts.X>\", n!\"{nameStr c.1}\")` to `fixedConstPairs`, otherwise add `(n!\"{nameStr c.1}\", \"<reason>\")` to `cKernelOnlyConsts` (lean/DaeVerif/C19/Model.lean)"
    | none => "none"
  | ["fieldlit", i] =>
    match i.toNat? >>= fun k => Gen.goFieldLiterals[k]? with
    | some l =>
      if fieldLiteralOk l then s!"ok {nameStr l.1}.{nameStr l.2.1}=={l.2.2.1}"
      else s!"BAD Go compares {nameStr l.1}.{nameStr l.2.1} with the literal {l.2.2.1} at {l.2.2.2.1}: not the value of the C constant it mirrors; if this is a new comparison add `(n!\"{nameStr l.1}\", n!\"{nameStr l.2.1}\", n!\"<C constant it mirrors, or empty for a zero test>\")` to `fieldLiteralMeaning` (lean/DaeVerif/C19/Model.lean)"
    | none => "none"
  | ["param", i] =>
    match i.toNat? >>= fun k => paramContents[k]? with
    | some x =>
      if paramContentOk x then "ok " ++ nameStr x.1
      else s!"BAD PARAM literal: the field at the position of dae_param.{nameStr x.1} ({(paramGoField x.1).map nameStr}) is not initialised from {x.2.1.map nameStr} (initialiser mentions {((paramGoField x.1).bind (lookupIdents · Gen.goParamInit)).map (·.map nameStr)})"
    | none => "none"
  | ["endian", i] =>
    match i.toNat? >>= fun k => machineBigEndian[k]? with
    | some x =>
      if nativeEndianOk x then "ok " ++ nameStr x.1
      else s!"BAD GOARCH {nameStr x.1}: pkg/ebpf_internal selects NativeEndian={(lookupNameOpt x.1 Gen.goNativeEndian).map nameStr}, the machine is {if x.2 then "big" else "little"}-endian"
    | none => "none"
  | ["wiretype", i] =>
    match i.toNat? >>= fun k => exchangedTypes[k]? with
    | some t =>
      if packedOkFor t || nameMem t stubPaddedStandIns then "ok " ++ nameStr t
      else s!"BAD Go type {nameStr t} is handed to cilium/ebpf but its encoding/binary layout does not agree with the C record (implicit padding): " ++
        " ; ".intercalate ((pairing.filter (fun p => nameEq p.go t)).flatMap (fun p => pairProblems Gen.cRecs Gen.goPacked p))
    | none => "none"
  | ["dnsport", e] =>
    match parseEndian? e with | some e => toString (goDnsPortConst e) | none => "bad-op"
  | ["cbidcheck"] =>
    if Gen.goCallbackIdShapes.any callbackShapeBad then
      "BAD a call site of outboundAliveChangeCallback forms the outbound id as `uint8(len(outbounds))` plus/minus a constant: the group's health is published under another group's connectivity slot (the rules carry the index itself: outboundName2Id[o.Name] = uint8(i))"
    else if !Gen.goCallbackIdShapes.any (nameEq · n!"index") then "BAD no call site of outboundAliveChangeCallback binds the group's index in `outbounds` any more (shapes: " ++ ",".intercalate (Gen.goCallbackIdShapes.map nameStr) ++ ")"
    else "ok callback ids"
  | ["mapiocover"] =>
    let bad := Gen.goMapTags.filter (!mapIOCovers ·)
    if bad.isEmpty then "ok every map with a Go handle has map-I/O rows"
    else "BAD no map-I/O call site was found for " ++ ",".intercalate (bad.map nameStr) ++ ": the translator (translators/c19_go findMapIO) no longer follows how this map is reached (alias / helper), or the control plane stopped using it (then add it to mapsWithoutGoIO)"
  | ["notes"] =>
    let n1 := driftPairs.flatMap fun x => (constPairProblem x).map (fun m => "drift (not demanded equal by the property): " ++ m)
    let n2 := driftLimits.filterMap fun x => if x.2 == some true then none else some ("drift: " ++ x.1)
    let n3 := paramContentsByLocalName.filterMap fun x => if paramContentOk x then none else some s!"PARAM.{nameStr x.1}: initialiser no longer mentions the local {x.2.1.map nameStr} (renamed local or swapped initialiser: review)"
    let n4 := if makefileGlueOk then [] else [s!"Makefile glue for MAX_MATCH_SET_LEN not recognised (default/-D/-X = {Gen.makefileMaxMatchSetLen.1}/{Gen.makefileMaxMatchSetLen.2.1}/{Gen.makefileMaxMatchSetLen.2.2})"]
    let n5 := if Gen.goCallbackIdShapes.any (nameEq · n!"other") then ["a call site of outboundAliveChangeCallback forms the outbound id in a way the translator cannot classify"] else []
    let all := n1 ++ n2 ++ n3 ++ n4 ++ n5
    if all.isEmpty then "none" else " ;; ".intercalate all
  | ["progcheck"] =>
    let a := Gen.goProgAttach.filter (!progAttachOk ·)
    let u := Gen.goProgUses.filter (!progUseOk ·)
    let r := Gen.goSpecMapRefs.filter fun n => (findMap n Gen.cMaps).isNone
    let k := goMapKindExpect.filter (!mapKindOk ·)
    let t := Gen.goNewMapTypes.filter (!newMapTypeOk ·)
    if a.isEmpty && u.isEmpty && r.isEmpty && k.isEmpty && t.isEmpty then "ok programs, sections and map kinds"
    else "BAD " ++ " ; ".intercalate (
      a.map (fun x => s!"program {nameStr x.1} is attached as {nameStr x.2} but lives in section {((progSection? x.1).map (nameStr ·.1)).getD "?"} (expected {((lookupNameOpt x.2 attachSection).map nameStr).getD "an attach type missing from attachSection in Model.lean"})")
      ++ u.map (fun p => s!"program {nameStr p} is used by the control plane but is neither in the cgroup attach table nor in a tc/ section ({((progSection? p).map (nameStr ·.1)).getD "not in C"})")
      ++ r.map (fun n => s!"the loader looks up spec.Maps[{nameStr n}] which the C program does not define")
      ++ k.map (fun x => s!"map {nameStr x.1} has BPF_MAP_TYPE {((findMap x.1 Gen.cMaps).map (·.mtype)).getD 0}, the control plane's use presupposes {x.2} (goMapKindExpect)")
      ++ t.map (fun x => s!"{nameStr x.1} creates ebpf.{nameStr x.2} maps but unused_lpm_type declares type {((findMap n!"unused_lpm_type" Gen.cMaps).map (·.mtype)).getD 0}"))
  | ["overridecheck"] =>
    if overrideConsistent then "ok MAX_MATCH_SET_LEN override"
    else s!"BAD MAX_MATCH_SET_LEN: Go default {goC? n!"consts.MaxMatchSetLen"}, C default {cC? n!"MAX_MATCH_SET_LEN"}, C with -DMAX_MATCH_SET_LEN=2048 gives [N, bitmap words, routing_map, lpm_array_map, MAX_LPM_NUM] = {Gen.cOverride2048}"
  | ["widthcheck"] =>
    if specFits Gen.specData && enumStorageOk then "ok generated values fit their storage"
    else "BAD the checked-in spec has more than 256 match types or a value above 255, or match_set.type/outbound are no longer one byte wide on both sides"
  | ["cmacsite", e, _site, hex] =>
    match parseEndian? e, hexToBytes? hex with
    | some e, some [a, b, c, d, f, g] => bytesToHex (cLpmProbe e (cMacPack e a b c d f g))
    | _, _ => "bad-op"
  | ["statscheck"] => if statsKeysCovered then "ok both overflow counters are read" else "BAD the control plane no longer reads both bpf_stats_map counters through recognisable constant keys"
  | ["classify"] =>
    let bad := (goRecsFor n!"amd64").filter fun r => !(pairing.any (fun p => nameEq p.go r.name) || nameMem r.name goOnlyTypes)
    if bad.isEmpty then "ok" else "BAD new plain-data Go struct type(s) " ++ ",".intercalate (bad.map (nameStr ·.name))
      ++ ": if it mirrors a C record add `{ c := n!\"<record>\", go := n!\"<this name>\", fields := [(Go field, C member), …], cAlt := [] }` to `pairing` in lean/DaeVerif/C19/Model.lean (and the type to c19Types in harness/overlay/control/c19_test.go); if it is not shared with the kernel add its name to `goOnlyTypes`"
  | ["handles"] =>
    let m := Gen.goMapTags.filter fun t => (findMap t Gen.cMaps).isNone
    let p := Gen.goProgTags.filter fun t => !nameMem t Gen.cProgs
    let v := Gen.goVarTags.filter fun t => !Gen.cGlobals.any (fun g => nameEq g.1 t)
    if m.isEmpty && p.isEmpty && v.isEmpty then "ok"
    else "BAD Go loader asks for objects missing in C: " ++ ",".intercalate ((m ++ p ++ v).map nameStr)
  | ["genfiles"] =>
    let g := (genGo Gen.specData).all.filter fun x => lookupConst (nameCat n!"consts." x.1) Gen.goConsts != some (x.2 : Int)
    let c := (genC Gen.specData).all.filter fun x => lookupConst x.1 Gen.cConsts != some (x.2 : Int)
    if g.isEmpty && c.isEmpty then "ok"
    else "BAD generated files differ from generator(spec): go[" ++ nvStr g ++ "] c[" ++ nvStr c ++ "]"
  | ["keymodelcheck"] =>
    if keyModelsFollowLayout then "ok key models follow the layouts"
    else "BAD the byte-level key models (tuples_key / lpm_key / match_set value) no longer follow the regenerated layouts: a member moved on both sides; update DaeVerif/C19/Model.lean §4"
  | ["listencheck"] =>
    let bad := [(6, false), (6, true), (17, false), (17, true)].filter fun x =>
      (cListenKey? x.1 x.2).isNone || cListenKey? x.1 x.2 != goListenKey? (listenerOfPacket x.1 x.2)
    if bad.isEmpty then "ok listener keys"
    else "BAD listener socket keys: " ++ " ; ".intercalate (bad.map fun x =>
      s!"l4proto={x.1} ipv6={x.2}: kernel looks up key {optStr (cListenKey? x.1 x.2)}, control plane stores the listener duplicated from listener.{nameStr (listenerOfPacket x.1 x.2).field} under key {optStr (goListenKey? (listenerOfPacket x.1 x.2))} (none = no such call site / constant)")
  | ["conncheck"] =>
    let cases := [0, 1, 2, 7, 128, 255].flatMap fun o => [(o, 6, true), (o, 6, false), (o, 17, true), (o, 17, false)]
    let bad := cases.filter fun x => cConnKey x.1 x.2.1 80 x.2.2 != goConnKey? x.1 (ntOfPacket x.2.1 x.2.2)
    let mx := (mapMax? n!"outbound_connectivity_map").getD 0
    let oob := cases.filter fun x => ((goConnKey? x.1 (ntOfPacket x.2.1 x.2.2)).getD mx) ≥ mx
    if bad.isEmpty && oob.isEmpty then "ok connectivity slots"
    else "BAD connectivity slots: " ++ " ; ".intercalate ((bad.take 4).map fun x =>
      s!"outbound={x.1} l4proto={x.2.1} ipv4={x.2.2} dport=80: kernel reads slot {optStr (cConnKey x.1 x.2.1 80 x.2.2)}, control plane writes slot {optStr (goConnKey? x.1 (ntOfPacket x.2.1 x.2.2))}")
      ++ (if oob.isEmpty then "" else s!" ; slot beyond max_entries={mx} for outbound {(oob.map (·.1)).take 3}")
  | ["archreport"] =>
    let bad := pairing.flatMap fun p => (archesAll.filter fun a => !pairOk Gen.cRecs (goRecsFor a) p).map fun a => s!"{nameStr p.go}@{nameStr a}"
    "mismatch-anywhere=" ++ ",".intercalate bad
  | ["wirereport"] =>
    let bad := pairing.filter fun p => !pairOk Gen.cRecs Gen.goPacked p
    "not-wire-exact=" ++ ",".intercalate (bad.map (nameStr ·.go))
  -- ---------------------------------------------------------------- tables
  | ["golayout", arch, name] =>
    match findRec (nameOf name) (goRecsFor (nameOf arch)) with
    | some r => recStr r
    | none => "none"
  | ["clayout", name] =>
    match findRec (nameOf name) Gen.cRecs with
    | some r => recStr r
    | none => "none"
  | ["godec", arch, e, name, hex] =>
    match parseEndian? e, findRec (nameOf name) (goRecsFor (nameOf arch)), hexToBytes? hex with
    | some e, some r, some bs => decodeRec e r bs
    | _, _, _ => "bad-op"
  | ["cdec", e, name, hex] =>
    match parseEndian? e, findRec (nameOf name) Gen.cRecs, hexToBytes? hex with
    | some e, some r, some bs => decodeRec e r bs
    | _, _, _ => "bad-op"
  | ["cmap", name] =>
    match findMap (nameOf name) Gen.cMaps with
    | some m => s!"type={m.mtype} key={m.keySize} value={m.valSize} max={m.maxEntries}"
    | none => "none"
  | ["cconst", name] =>
    match lookupConst (nameOf name) Gen.cConsts with | some v => toString v | none => "none"
  | ["goconst", name] =>
    match lookupConst (nameOf name) Gen.goConsts with | some v => toString v | none => "none"
  | ["gotags"] =>
    "maps=" ++ ",".intercalate (Gen.goMapTags.map nameStr) ++ " progs=" ++ ",".intercalate (Gen.goProgTags.map nameStr)
      ++ " vars=" ++ ",".intercalate (Gen.goVarTags.map nameStr)
  | ["cobjects"] =>
    "maps=" ++ ",".intercalate (Gen.cMaps.map (nameStr ·.name)) ++ " progs=" ++ ",".intercalate (Gen.cProgs.map nameStr)
  -- ---------------------------------------------------------------- key constructors, Go side
  | ["tuples", e, src, sport, dst, dport, proto] =>
    match parseEndian? e, parseAddr? src, sport.toNat?, parseAddr? dst, dport.toNat?, proto.toNat? with
    | some e, some s, some sp, some d, some dp, some p => bytesToHex (goTuplesKey e ⟨s, sp⟩ ⟨d, dp⟩ p)
    | _, _, _, _, _, _ => "bad-op"
  | ["connwrite-residue"] => "0"   -- every slot written by the callback is cleared through the same slot
  | ["domsync", _] => "found"      -- the entry written by syncOwner is found under the kernel's 16-byte key
  | ["conn", outbound, l4, ip, dom] => connAnswer outbound l4 ip dom
  | ["connwrite", outbound, l4, ip, dom] => connAnswer outbound l4 ip dom   -- slot written by the real callback
  | ["listen", which] =>
    match which with
    | "tcp4" => optStr (goListenKey? .tcp4)
    | "tcp6" => optStr (goListenKey? .tcp6)
    | "udp" => optStr (goListenKey? .udp)
    | _ => "bad-op"
  | ["lpm", e, pfx] =>
    match parseEndian? e, parsePrefix? pfx with
    | some e, some p => bytesToHex (goLpmKey e p)
    | _, _ => "bad-op"
  | ["domkey", e, a] =>
    match parseEndian? e, parseAddr? a with
    | some e, some a => bytesToHex (goDomainKey e a)
    | _, _ => "bad-op"
  | ["u32arr", e, hex] =>
    match parseEndian? e, hexToBytes? hex with
    | some e, some bs => " ".intercalate ((ipv6ToU32 e bs).map toString)
    | _, _ => "bad-op"
  | ["htons", e, p] =>
    match parseEndian? e, p.toNat? with
    | some e, some p => toString (htons e p)
    | _, _ => "bad-op"
  | ["setidx", idx] =>
    match idx.toNat? with | some i => bytesToHex (goSetIndexValue i) | none => "bad-op"
  | ["portrange", a, b] =>
    match a.toNat?, b.toNat? with | some a, some b => bytesToHex (goPortRangeValue a b) | _, _ => "bad-op"
  -- ---------------------------------------------------------------- key constructors, C side
  | ["ctuples", e, fam, src, dst, sport, dport, proto] =>
    match parseEndian? e, hexToBytes? src, hexToBytes? dst, sport.toNat?, dport.toNat?, proto.toNat? with
    | some e, some s, some d, some sp, some dp, some p =>
      let f : Flow := ⟨fam == "v4", s, d, sp, dp, p⟩
      if decide f.WF then
        let k := cTuplesKey e f
        s!"key={bytesToHex k} rev={bytesToHex (cReverseKey k)}"
      else "bad-op"
    | _, _, _, _, _, _ => "bad-op"
  | ["cconn", outbound, l4proto, dport, v4] =>
    match outbound.toNat?, l4proto.toNat?, dport.toNat? with
    | some o, some l, some d => optStr (cConnKey o l d (v4 == "1"))
    | _, _, _ => "bad-op"
  | ["clisten", l4proto, v6] =>
    match l4proto.toNat? with | some l => optStr (cListenKey? l (v6 == "1")) | none => "bad-op"
  | ["croute", e, saddr, daddr, mac] =>
    match parseEndian? e, hexToBytes? saddr, hexToBytes? daddr, hexToBytes? mac with
    | some e, some s, some d, some m =>
      s!"dom={bytesToHex (cDomainKey d)} lpm_d={bytesToHex (cLpmProbe e d)} lpm_s={bytesToHex (cLpmProbe e s)} lpm_m={bytesToHex (cLpmProbe e m)}"
    | _, _, _, _ => "bad-op"
  | ["byteval", v] =>
    match v.toNat? with | some v => bytesToHex (goByteValue v) | none => "bad-op"
  | ["ring", old, start, count] =>
    match old.toNat?, start.toNat?, count.toNat?, goC? n!"consts.MaxMatchSetLen" with
    | some o, some s, some c, some m => match goRingIndexValue m o s c with | some v => bytesToHex v | none => "error"
    | _, _, _, _ => "bad-op"
  | ["macaddr", e, hex] =>
    match parseEndian? e, hexToBytes? hex with
    | some e, some m => if m.length = 6 then bytesToHex (goLpmKey e ⟨⟨false, goMacAddr16 m⟩, 128⟩) else "bad-op"
    | _, _ => "bad-op"
  | ["cmacpack", e, hex] =>
    match parseEndian? e, hexToBytes? hex with
    | some e, some [a, b, c, d, f, g] => bytesToHex (cMacPack e a b c d f g)
    | _, _ => "bad-op"
  | ["creadmask", e, hex] =>
    match parseEndian? e, hexToBytes? hex with
    | some e, some v => toString (cReadEnumMask e v)
    | _, _ => "bad-op"
  | ["creadidx", e, hex] =>
    match parseEndian? e, hexToBytes? hex with
    | some e, some v => toString (cReadIndex e v)
    | _, _ => "bad-op"
  | ["creadpr", e, hex] =>
    match parseEndian? e, hexToBytes? hex with
    | some e, some v => let r := cReadPortRange e v; s!"{r.1}-{r.2}"
    | _, _ => "bad-op"
  -- ---------------------------------------------------------------- helper constructors: the kernel's derivations
  | ["ctorap", _fn, e, src, sport, dst, dport, proto] =>
    match parseEndian? e, parseAddr? src, sport.toNat?, parseAddr? dst, dport.toNat?, proto.toNat? with
    | some e, some s, some sp, some d, some dp, some p =>
      " ".intercalate ((apCandidates e ⟨s, sp⟩ ⟨d, dp⟩ p).map fun c => nameStr c.1 ++ "=" ++ bytesToHex c.2)
    | _, _, _, _, _, _ => "bad-op"
  | ["ctorkk", _fn, hex] =>
    match hexToBytes? hex with
    | some k => " ".intercalate ((kkCandidates k).map fun c => nameStr c.1 ++ "=" ++ bytesToHex c.2)
    | none => "bad-op"
  | ["ctorpfx", _fn, e, pfx] =>
    match parseEndian? e, parsePrefix? pfx with
    | some e, some p => "lpm=" ++ bytesToHex (goLpmKey e p)
    | _, _ => "bad-op"
  | ["rlookup", wh, proto] =>
    match proto.toNat? with
    | some p => if routeLookupFinds wh p then "found" else "notfound"
    | none => "bad-op"
  | ["msimg", e, _enc, mt, not_, ob, must, mark, val] =>
    let num (s : String) : Option Nat := ((s.splitOn "=").getD 1 "").toNat?
    match parseEndian? e, goC? (nameCat n!"consts." (nameOf mt)), num not_, num ob, num must, num mark, parseMsValue? val with
    | some e, some t, some n, some o, some m, some k, some v => bytesToHex (goMatchSetImage e v (n == 1) t o (m == 1) k)
    | _, _, _, _, _, _, _ => "bad-op"
  -- ---------------------------------------------------------------- generator
  | ["regen"] => "go=same c=same"   -- the checked-in generated files are the generator's output (oracle on the implementation side)
  | "gen" :: rest =>
    match parseSpec? rest with
    | some s => "go: " ++ genStr (genGo s) ++ " | c: " ++ genStr (genC s)
    | none => "bad-op"
  | _ => "bad-op"

/-! ### Stateful part: the conn_state_map key lifecycle (§8 of Lifecycle.lean) -/

structure DrvState where
  w : UWorld
  ids : List (Nat × Key)

def keyLabel (ids : List (Nat × Key)) (k : Key) : String :=
  match ids.find? (fun x => x.2 == k) with
  | some x => toString x.1
  | none => "x" ++ bytesToHex k

/-- labels sorted as strings (the harness sorts with Go's `sort.Strings`) -/
def sortedLabels (ls : List String) : String :=
  if ls.isEmpty then "-" else ",".intercalate (ls.toArray.qsort (· < ·)).toList

def kernelStr (st : DrvState) : String := "kernel=" ++ sortedLabels (st.w.kernel.map (keyLabel st.ids))

def epStr (st : DrvState) (i : Nat) : String :=
  "held=" ++ sortedLabels (((st.w.eps[i]?).map (·.keys)).getD [] |>.map (keyLabel st.ids)) ++ " " ++ kernelStr st

def handleS (st : DrvState) (line : String) : DrvState × String :=
  match words line with
  | ["uhist", n, tl] =>
    match n.toNat?, (tl.splitOn ",").mapM (·.toNat?) with
    | some n, some tl => (⟨UWorld.init n tl, []⟩, "ok")
    | _, _ => (st, "bad-op")
  | ["ukseen", id, hex] =>
    match id.toNat?, hexToBytes? hex with
    | some id, some k =>
      let ids := if st.ids.any (fun x => x.1 == id) then st.ids else st.ids ++ [(id, k)]
      let st' : DrvState := ⟨ustep st.w (.seen k), ids⟩
      (st', kernelStr st')
    | _, _ => (st, "bad-op")
  | ["utrack", i, e, src, sport, dst, dport] =>
    match i.toNat?, parseEndian? e, parseAddr? src, sport.toNat?, parseAddr? dst, dport.toNat? with
    | some i, some e, some s, some sp, some d, some dp =>
      let st' : DrvState := { st with w := ustep st.w (.track i e ⟨s, sp⟩ ⟨d, dp⟩) }
      (st', epStr st' i)
    | _, _, _, _, _, _ => (st, "bad-op")
  | ["uadopt", i, g] =>
    match i.toNat?, g.toNat? with
    | some i, some g => let st' : DrvState := { st with w := ustep st.w (.adopt i g) }; (st', epStr st' i)
    | _, _ => (st, "bad-op")
  | ["ufreeze"] => let st' : DrvState := { st with w := ustep st.w .freeze }; (st', kernelStr st')
  | ["urelease", i] =>
    match i.toNat? with
    | some i => let st' : DrvState := { st with w := ustep st.w (.release i) }; (st', epStr st' i)
    | none => (st, "bad-op")
  | _ => (st, handle line)

def main : IO Unit := lineLoopS (⟨UWorld.init 0 [0], []⟩ : DrvState) handleS
