import DaeVerif.C19.Lifecycle
import DaeVerif.C19.Proofs
/-! # C19 — helper lemmas for the conn_state_map key lifecycle (§8 of `Lifecycle.lean`).
The property theorems are in `Props.lean`. -/
namespace DaeVerif.C19

/-! ## list surgery -/

theorem modifyAt_length {α} (l : List α) (i : Nat) (f : α → α) : (modifyAt l i f).length = l.length := by
  induction l generalizing i with
  | nil => simp [modifyAt]
  | cons x xs ih => cases i <;> simp [modifyAt, ih]

theorem modifyAt_getD {α} (l : List α) (i j : Nat) (f : α → α) (d : α) (hi : i < l.length) :
    (modifyAt l i f).getD j d = if j = i then f (l.getD i d) else l.getD j d := by
  induction l generalizing i j with
  | nil => simp at hi
  | cons x xs ih =>
    cases i with
    | zero => cases j <;> simp [modifyAt]
    | succ i =>
      cases j with
      | zero => simp [modifyAt]
      | succ j =>
        have := ih i j (by simpa using hi)
        simpa [modifyAt] using this

theorem modifyAt_none {α} (l : List α) (i : Nat) (f : α → α) (h : l[i]? = none) : modifyAt l i f = l := by
  induction l generalizing i with
  | nil => simp [modifyAt]
  | cons x xs ih =>
    cases i with
    | zero => simp at h
    | succ i => simp [modifyAt, ih i (by simpa using h)]

/-- counting the elements that satisfy `p` after one element was replaced -/
theorem filter_modifyAt_length {α} (l : List α) (i : Nat) (f : α → α) (p : α → Bool) (x : α) (h : l[i]? = some x) :
    ((modifyAt l i f).filter p).length + (if p x then 1 else 0) = (l.filter p).length + (if p (f x) then 1 else 0) := by
  induction l generalizing i with
  | nil => simp at h
  | cons y ys ih =>
    cases i with
    | zero =>
      simp at h; subst h
      simp only [modifyAt, List.filter_cons]
      cases p y <;> cases p (f y) <;> simp <;> omega
    | succ i =>
      have := ih i (by simpa using h)
      simp only [modifyAt, List.filter_cons]
      cases p y <;> simp <;> omega

/-- every old element is still there, or it was the replaced one -/
theorem mem_modifyAt_of_mem {α} (l : List α) (i : Nat) (f : α → α) (y : α) (hy : y ∈ l) :
    y ∈ modifyAt l i f ∨ (l[i]? = some y ∧ f y ∈ modifyAt l i f) := by
  induction l generalizing i with
  | nil => simp at hy
  | cons x xs ih =>
    cases i with
    | zero =>
      rcases List.mem_cons.mp hy with rfl | h
      · right; simp [modifyAt]
      · left; simp [modifyAt, h]
    | succ i =>
      rcases List.mem_cons.mp hy with rfl | h
      · left; simp [modifyAt]
      · rcases ih i h with h' | ⟨h1, h2⟩
        · left; simp [modifyAt, h']
        · right; exact ⟨by simpa using h1, by simp [modifyAt, h2]⟩

theorem mem_modifyAt {α} (l : List α) (i : Nat) (f : α → α) (y : α) (hy : y ∈ modifyAt l i f) :
    y ∈ l ∨ ∃ x, l[i]? = some x ∧ y = f x := by
  induction l generalizing i with
  | nil => simp [modifyAt] at hy
  | cons x xs ih =>
    cases i with
    | zero =>
      simp only [modifyAt] at hy
      rcases List.mem_cons.mp hy with rfl | h
      · right; exact ⟨x, by simp, rfl⟩
      · left; exact List.mem_cons_of_mem _ h
    | succ i =>
      simp only [modifyAt] at hy
      rcases List.mem_cons.mp hy with rfl | h
      · left; exact List.mem_cons_self
      · rcases ih i h with h' | ⟨x', h1, h2⟩
        · left; exact List.mem_cons_of_mem _ h'
        · right; exact ⟨x', by simpa using h1, h2⟩

theorem modifyAt_mem_new {α} (l : List α) (i : Nat) (f : α → α) (x : α) (h : l[i]? = some x) : f x ∈ modifyAt l i f := by
  induction l generalizing i with
  | nil => simp at h
  | cons y ys ih =>
    cases i with
    | zero => simp at h; subst h; simp [modifyAt]
    | succ i => simp only [modifyAt]; exact List.mem_cons_of_mem _ (ih i (by simpa using h))

/-! ## reference counts -/

theorem count_retainAll (t ks : List Key) (k : Key) : (retainAll t ks).count k = ks.count k + t.count k := by
  simp [retainAll, List.count_append]

theorem count_forgetAll (t ks : List Key) (k : Key) : (forgetAll t ks).count k = t.count k - ks.count k := by
  unfold forgetAll
  induction ks generalizing t with
  | nil => simp
  | cons a as ih =>
    simp only [List.foldl_cons]
    rw [ih, List.count_erase, List.count_cons]
    by_cases h : a == k <;> simp [h] <;> omega

theorem count_releaseAll (t kern ks : List Key) (k : Key) :
    (releaseAll t kern ks).1.count k = t.count k - ks.count k := by
  induction ks generalizing t kern with
  | nil => simp [releaseAll]
  | cons a as ih =>
    unfold releaseAll
    by_cases h0 : (t.count a == 0) = true
    · rw [if_pos h0]
      rw [ih, List.count_cons]
      by_cases h : a == k
      · have : a = k := by simpa using h
        subst this
        have : List.count a t = 0 := by simpa using h0
        simp [this]
      · simp [h]
    · rw [if_neg h0]
      by_cases h1 : (t.count a == 1) = true
      · rw [if_pos h1]
        rw [ih, List.count_erase, List.count_cons]
        by_cases h : a == k <;> simp [h] <;> omega
      · rw [if_neg h1]
        rw [ih, List.count_erase, List.count_cons]
        by_cases h : a == k <;> simp [h] <;> omega

/-- with duplicate-free keys, the kernel map loses exactly the released keys whose count was one -/
theorem kernel_releaseAll (t kern ks : List Key) (hn : ks.Nodup) (k : Key) :
    k ∈ (releaseAll t kern ks).2 ↔ (k ∈ kern ∧ ¬ (k ∈ ks ∧ t.count k = 1)) := by
  induction ks generalizing t kern with
  | nil => simp [releaseAll]
  | cons a as ih =>
    have hna : a ∉ as := (List.nodup_cons.mp hn).1
    have hn' : as.Nodup := (List.nodup_cons.mp hn).2
    unfold releaseAll
    by_cases h0 : (t.count a == 0) = true
    · have h0' : List.count a t = 0 := by simpa using h0
      rw [if_pos h0]
      rw [ih _ _ hn']
      constructor
      · rintro ⟨hk, hno⟩
        refine ⟨hk, ?_⟩
        rintro ⟨hm, hc⟩
        rcases List.mem_cons.mp hm with rfl | hm
        · omega
        · exact hno ⟨hm, hc⟩
      · rintro ⟨hk, hno⟩
        exact ⟨hk, fun ⟨hm, hc⟩ => hno ⟨List.mem_cons_of_mem _ hm, hc⟩⟩
    · rw [if_neg h0]
      have cnt_other : ∀ x, x ∈ as → List.count x (t.erase a) = List.count x t := by
        intro x hx
        rw [List.count_erase]
        have : (a == x) = false := by
          apply Bool.eq_false_iff.mpr
          intro h; have : a = x := by simpa using h
          subst this; exact hna hx
        simp [this]
      by_cases h1 : (t.count a == 1) = true
      · have h1' : List.count a t = 1 := by simpa using h1
        rw [if_pos h1]
        rw [ih _ _ hn']
        constructor
        · rintro ⟨hk, hno⟩
          have hk' := List.mem_filter.mp hk
          have hne : k ≠ a := by simpa using hk'.2
          refine ⟨hk'.1, ?_⟩
          rintro ⟨hm, hc⟩
          rcases List.mem_cons.mp hm with rfl | hm
          · exact hne rfl
          · exact hno ⟨hm, by rw [cnt_other k hm]; exact hc⟩
        · rintro ⟨hk, hno⟩
          have hne : k ≠ a := by
            rintro rfl
            exact hno ⟨List.mem_cons_self, h1'⟩
          refine ⟨List.mem_filter.mpr ⟨hk, by simpa using hne⟩, ?_⟩
          rintro ⟨hm, hc⟩
          exact hno ⟨List.mem_cons_of_mem _ hm, by rw [← cnt_other k hm]; exact hc⟩
      · have h1' : List.count a t ≠ 1 := by simpa using h1
        rw [if_neg h1]
        rw [ih _ _ hn']
        constructor
        · rintro ⟨hk, hno⟩
          refine ⟨hk, ?_⟩
          rintro ⟨hm, hc⟩
          rcases List.mem_cons.mp hm with rfl | hm
          · exact h1' hc
          · exact hno ⟨hm, by rw [cnt_other k hm]; exact hc⟩
        · rintro ⟨hk, hno⟩
          exact ⟨hk, fun ⟨hm, hc⟩ => hno ⟨List.mem_cons_of_mem _ hm, by rw [← cnt_other k hm]; exact hc⟩⟩

/-- a key that is not among the released ones stays in the kernel map -/
theorem kernel_releaseAll_keeps (t kern ks : List Key) (k : Key) (hk : k ∈ kern) (hn : k ∉ ks) :
    k ∈ (releaseAll t kern ks).2 := by
  induction ks generalizing t kern with
  | nil => simpa [releaseAll] using hk
  | cons a as ih =>
    have hka : k ≠ a := fun e => hn (e ▸ List.mem_cons_self)
    have hnas : k ∉ as := fun h => hn (List.mem_cons_of_mem _ h)
    unfold releaseAll
    by_cases h0 : (t.count a == 0) = true
    · rw [if_pos h0]; exact ih _ _ hk hnas
    · rw [if_neg h0]
      by_cases h1 : (t.count a == 1) = true
      · rw [if_pos h1]
        exact ih _ _ (List.mem_filter.mpr ⟨hk, by simpa using hka⟩) hnas
      · rw [if_neg h1]; exact ih _ _ hk hnas

/-! ## holders -/

theorem holdersOf_modifyAt (eps : List Endpoint) (tof : List Nat) (i : Nat) (f : Endpoint → Endpoint) (x : Endpoint)
    (h : eps[i]? = some x) (t : Nat) (k : Key) :
    holdersOf (modifyAt eps i f) tof t k + (if (x.holds k && tof.getD x.owner 0 == t) then 1 else 0)
      = holdersOf eps tof t k + (if ((f x).holds k && tof.getD (f x).owner 0 == t) then 1 else 0) := by
  unfold holdersOf
  exact filter_modifyAt_length eps i f _ x h

theorem holdersOf_pos_iff (eps : List Endpoint) (tof : List Nat) (t : Nat) (k : Key) :
    0 < holdersOf eps tof t k ↔ ∃ ep ∈ eps, ep.holds k = true ∧ tof.getD ep.owner 0 = t := by
  unfold holdersOf
  rw [List.length_pos_iff_exists_mem]
  constructor
  · rintro ⟨ep, hep⟩
    have := List.mem_filter.mp hep
    exact ⟨ep, this.1, by simpa using this.2⟩
  · rintro ⟨ep, hm, h1, h2⟩
    exact ⟨ep, List.mem_filter.mpr ⟨hm, by simp [h1, ← h2]⟩⟩

theorem getElem?_mem' {α} {l : List α} {i : Nat} {x : α} (h : l[i]? = some x) : x ∈ l :=
  List.mem_of_getElem? h

theorem getD_of_getElem? {α} {l : List α} {i : Nat} {x d : α} (h : l[i]? = some x) : l.getD i d = x := by
  simp [List.getD, h]

/-! ## the keys `TrackUdpConnStateTuplePair` adds -/

theorem freshKeys_nodup (held : List Key) (ab : Key × Key) : (freshKeys held ab).Nodup := by
  unfold freshKeys
  by_cases h1 : ab.1 ∈ held <;> by_cases h2 : (ab.2 ∈ held ∨ ab.2 = ab.1)
  · simp [h1, h2]
  · simp [h1, h2]
  · simp [h1, h2]
  · have : ab.1 ≠ ab.2 := fun he => h2 (Or.inr he.symm)
    simp [h1, h2, this]

theorem freshKeys_not_held (held : List Key) (ab : Key × Key) (k : Key) (hk : k ∈ freshKeys held ab) : k ∉ held := by
  unfold freshKeys at hk
  by_cases h1 : ab.1 ∈ held <;> by_cases h2 : (ab.2 ∈ held ∨ ab.2 = ab.1)
  · simp [h1, h2] at hk
  · simp [h1, h2] at hk
    subst hk
    exact fun hm => h2 (Or.inl hm)
  · simp [h1, h2] at hk
    subst hk
    exact h1
  · simp [h1, h2] at hk
    rcases hk with rfl | rfl
    · exact h1
    · exact fun hm => h2 (Or.inl hm)

theorem count_of_nodup {l : List Key} (h : l.Nodup) (k : Key) : l.count k = if k ∈ l then 1 else 0 := by
  induction l with
  | nil => simp
  | cons a as ih =>
    have hna : a ∉ as := (List.nodup_cons.mp h).1
    have ih' := ih (List.nodup_cons.mp h).2
    rw [List.count_cons, ih']
    by_cases hak : a = k
    · subst hak
      simp [hna]
    · have : k ≠ a := fun e => hak e.symm
      simp [hak, this]

/-! ## the invariant is preserved -/

theorem inv_seen (w : UWorld) (h : w.Inv) (k : Key) (ht : Timely w (.seen k)) : (ustep w (.seen k)).Inv := by
  refine ⟨h.trk_lt, h.counts, h.nodup, ?_, h.notFrozen⟩
  intro k' hk' hev
  simp only [ustep, insertKey] at hk'
  split at hk'
  · exact h.noOrphan k' hk' hev
  · rcases List.mem_append.mp hk' with h1 | h1
    · exact h.noOrphan k' h1 hev
    · have : k' = k := by simpa using h1
      subst this; exact ht hev

theorem holds_open (ep : Endpoint) (k : Key) (hc : ep.closed = false) : ep.holds k = ep.keys.contains k := by
  simp [Endpoint.holds, hc]

theorem trk_ne {w : UWorld} {g t : Nat} (h : t ≠ w.trk g) : (w.trackerOf.getD g 0 == t) = false := by
  apply Bool.eq_false_iff.mpr
  intro hq
  apply h
  have : w.trackerOf.getD g 0 = t := by simpa using hq
  exact this.symm

theorem trk_eq (w : UWorld) (g : Nat) : (w.trackerOf.getD g 0 == w.trk g) = true := by
  simp [UWorld.trk]

theorem inv_track (w : UWorld) (h : w.Inv) (i : Nat) (e : Endian) (src dst : GoAddrPort) :
    (ustep w (.track i e src dst)).Inv := by
  cases hi : w.eps[i]? with
  | none => simpa [ustep, hi] using h
  | some ep =>
    by_cases hc : ep.closed = true
    · simpa [ustep, hi, hc] using h
    · have hc' : ep.closed = false := by simpa using hc
      generalize hfr : freshKeys ep.keys (trackKeys e src dst) = fresh
      have hw : ustep w (.track i e src dst) =
          { w with eps := modifyAt w.eps i (fun ep' => { ep' with keys := ep'.keys ++ fresh })
                   trackers := modifyAt w.trackers (w.trk ep.owner) (fun t => retainAll t fresh)
                   ever := w.ever ++ fresh } := by
        simp [ustep, hi, hc', hfr]
      rw [hw]
      have hfn : fresh.Nodup := hfr ▸ freshKeys_nodup _ _
      have hfd : ∀ k ∈ fresh, k ∉ ep.keys := fun k hk => freshKeys_not_held _ _ k (hfr ▸ hk)
      have hT := h.trk_lt ep.owner
      refine ⟨?_, ?_, ?_, ?_, h.notFrozen⟩
      · intro g
        show w.trk g < (modifyAt w.trackers _ _).length
        rw [modifyAt_length]; exact h.trk_lt g
      · intro t k ht
        have ht' : t < w.trackers.length := by
          have : t < (modifyAt w.trackers (w.trk ep.owner) (fun t => retainAll t fresh)).length := ht
          rwa [modifyAt_length] at this
        have hc0 := h.counts t k ht'
        have hh := holdersOf_modifyAt w.eps w.trackerOf i (fun ep' => { ep' with keys := ep'.keys ++ fresh }) ep hi t k
        dsimp only at hh
        show ((modifyAt w.trackers (w.trk ep.owner) (fun t => retainAll t fresh)).getD t []).count k
          = holdersOf (modifyAt w.eps i (fun ep' => { ep' with keys := ep'.keys ++ fresh })) w.trackerOf t k
        rw [modifyAt_getD _ _ _ _ _ hT]
        have hcnt := count_of_nodup hfn k
        by_cases htT : t = w.trk ep.owner
        · subst htT
          rw [if_pos rfl, count_retainAll, hcnt, hc0]
          simp only [Endpoint.holds, hc', trk_eq, Bool.and_true, Bool.not_false, Bool.true_and] at hh
          by_cases hkf : k ∈ fresh
          · have hnk : k ∉ ep.keys := hfd k hkf
            have c1 : ep.keys.contains k = false := by simpa using hnk
            have c2 : (ep.keys ++ fresh).contains k = true := by simp [hkf]
            rw [c1, c2] at hh
            simp only [hkf, if_true] at hh ⊢
            simp at hh
            omega
          · by_cases hkk : k ∈ ep.keys
            · have c1 : ep.keys.contains k = true := by simpa using hkk
              have c2 : (ep.keys ++ fresh).contains k = true := by simp [hkk]
              rw [c1, c2] at hh
              simp only [hkf, if_false] at hh ⊢
              omega
            · have c1 : ep.keys.contains k = false := by simpa using hkk
              have c2 : (ep.keys ++ fresh).contains k = false := by simp [hkk, hkf]
              rw [c1, c2] at hh
              simp only [hkf, if_false] at hh ⊢
              simp at hh
              omega
        · rw [if_neg htT, hc0]
          simp only [trk_ne htT, Bool.and_false] at hh
          simp at hh
          omega
      · intro ep' hep'
        rcases mem_modifyAt _ _ _ _ hep' with hm | ⟨x, hx, rfl⟩
        · exact h.nodup ep' hm
        · have : x = ep := by rw [hi] at hx; exact (Option.some.inj hx).symm
          subst this
          show (x.keys ++ fresh).Nodup
          refine List.nodup_append.mpr ⟨h.nodup x (getElem?_mem' hi), hfn, ?_⟩
          intro a ha b hb hab
          subst hab
          exact hfd a hb ha
      · intro k hk hev
        have hk' : k ∈ w.kernel := hk
        have hev' : k ∈ w.ever ++ fresh := hev
        rcases List.mem_append.mp hev' with he | hf
        · obtain ⟨ep'', hm, hh⟩ := h.noOrphan k hk' he
          rcases mem_modifyAt_of_mem w.eps i (fun ep' => { ep' with keys := ep'.keys ++ fresh }) ep'' hm with h1 | ⟨_, h2⟩
          · exact ⟨ep'', h1, hh⟩
          · refine ⟨_, h2, ?_⟩
            simp only [Endpoint.holds] at hh ⊢
            simp only [Bool.and_eq_true] at hh ⊢
            refine ⟨hh.1, ?_⟩
            have : k ∈ ep''.keys := by simpa using hh.2
            simp [this]
        · refine ⟨_, modifyAt_mem_new w.eps i (fun ep' => { ep' with keys := ep'.keys ++ fresh }) ep hi, ?_⟩
          simp [Endpoint.holds, hc', hf]

theorem inv_adopt (w : UWorld) (h : w.Inv) (i g : Nat) : (ustep w (.adopt i g)).Inv := by
  cases hi : w.eps[i]? with
  | none => simpa [ustep, hi] using h
  | some ep =>
    by_cases hc : ep.closed = true
    · simpa [ustep, hi, hc] using h
    · have hc' : ep.closed = false := by simpa using hc
      have hTo := h.trk_lt ep.owner
      have hTg := h.trk_lt g
      -- facts shared by both sub-cases: key sets and the kernel map do not change
      have nodup' : ∀ ep' ∈ modifyAt w.eps i (fun ep' => { ep' with owner := g }), ep'.keys.Nodup := by
        intro ep' hep'
        rcases mem_modifyAt _ _ _ _ hep' with hm | ⟨x, hx, rfl⟩
        · exact h.nodup ep' hm
        · exact h.nodup x (getElem?_mem' hx)
      have orphan' : ∀ k ∈ w.kernel, k ∈ w.ever → ∃ ep' ∈ modifyAt w.eps i (fun ep' => { ep' with owner := g }), ep'.holds k = true := by
        intro k hk hev
        obtain ⟨ep'', hm, hh⟩ := h.noOrphan k hk hev
        rcases mem_modifyAt_of_mem w.eps i (fun ep' => { ep' with owner := g }) ep'' hm with h1 | ⟨_, h2⟩
        · exact ⟨ep'', h1, hh⟩
        · exact ⟨_, h2, by simpa [Endpoint.holds] using hh⟩
      by_cases hs : (w.trk g == w.trk ep.owner) = true
      · have hs' : w.trk g = w.trk ep.owner := by simpa using hs
        have hw : ustep w (.adopt i g) = { w with eps := modifyAt w.eps i (fun ep' => { ep' with owner := g }) } := by
          simp [ustep, hi, hc', hs']
        rw [hw]
        refine ⟨h.trk_lt, ?_, nodup', orphan', h.notFrozen⟩
        intro t k ht
        have hh := holdersOf_modifyAt w.eps w.trackerOf i (fun ep' => { ep' with owner := g }) ep hi t k
        dsimp only at hh
        have : w.trackerOf.getD g 0 = w.trackerOf.getD ep.owner 0 := hs'
        show (w.trackers.getD t []).count k = holdersOf (modifyAt w.eps i (fun ep' => { ep' with owner := g })) w.trackerOf t k
        rw [h.counts t k ht]
        simp only [Endpoint.holds, hc', Bool.not_false, Bool.true_and] at hh
        rw [this] at hh
        omega
      · have hs' : w.trk g ≠ w.trk ep.owner := by simpa using hs
        have hw : ustep w (.adopt i g) =
            { w with eps := modifyAt w.eps i (fun ep' => { ep' with owner := g })
                     trackers := modifyAt (modifyAt w.trackers (w.trk g) (fun t => retainAll t ep.keys))
                                   (w.trk ep.owner) (fun t => forgetAll t ep.keys) } := by
          simp [ustep, hi, hc', hs']
        rw [hw]
        refine ⟨?_, ?_, nodup', orphan', h.notFrozen⟩
        · intro g'
          show w.trk g' < (modifyAt (modifyAt w.trackers _ _) _ _).length
          rw [modifyAt_length, modifyAt_length]; exact h.trk_lt g'
        · intro t k ht
          have ht' : t < w.trackers.length := by
            have : t < (modifyAt (modifyAt w.trackers (w.trk g) (fun t => retainAll t ep.keys))
              (w.trk ep.owner) (fun t => forgetAll t ep.keys)).length := ht
            rwa [modifyAt_length, modifyAt_length] at this
          have hc0 := h.counts t k ht'
          have hh := holdersOf_modifyAt w.eps w.trackerOf i (fun ep' => { ep' with owner := g }) ep hi t k
          dsimp only at hh
          have hn := count_of_nodup (h.nodup ep (getElem?_mem' hi)) k
          show ((modifyAt (modifyAt w.trackers (w.trk g) (fun t => retainAll t ep.keys))
              (w.trk ep.owner) (fun t => forgetAll t ep.keys)).getD t []).count k
            = holdersOf (modifyAt w.eps i (fun ep' => { ep' with owner := g })) w.trackerOf t k
          rw [modifyAt_getD _ _ _ _ _ (by rw [modifyAt_length]; exact hTo), modifyAt_getD _ _ _ _ _ hTg,
            modifyAt_getD _ _ _ _ _ hTg]
          simp only [Endpoint.holds, hc', Bool.not_false, Bool.true_and] at hh
          by_cases hto : t = w.trk ep.owner
          · subst hto
            have hne : w.trk ep.owner ≠ w.trk g := fun e => hs' e.symm
            rw [if_pos rfl, if_neg hne, count_forgetAll, hn, hc0]
            simp only [trk_eq, Bool.and_true, trk_ne hne, Bool.and_false] at hh
            by_cases hk : k ∈ ep.keys
            · have c1 : ep.keys.contains k = true := by simpa using hk
              rw [c1] at hh
              simp only [hk, if_true]
              simp at hh
              omega
            · have c1 : ep.keys.contains k = false := by simpa using hk
              rw [c1] at hh
              simp only [hk, if_false]
              simp at hh
              omega
          · rw [if_neg hto]
            by_cases htg : t = w.trk g
            · subst htg
              rw [if_pos rfl, count_retainAll, hn, hc0]
              simp only [trk_eq, Bool.and_true, trk_ne hto, Bool.and_false] at hh
              by_cases hk : k ∈ ep.keys
              · have c1 : ep.keys.contains k = true := by simpa using hk
                rw [c1] at hh
                simp only [hk, if_true]
                simp at hh
                omega
              · have c1 : ep.keys.contains k = false := by simpa using hk
                rw [c1] at hh
                simp only [hk, if_false]
                simp at hh
                omega
            · rw [if_neg htg, hc0]
              simp only [trk_ne hto, trk_ne htg, Bool.and_false] at hh
              simp at hh
              omega

theorem inv_release (w : UWorld) (h : w.Inv) (i : Nat) : (ustep w (.release i)).Inv := by
  cases hi : w.eps[i]? with
  | none => simpa [ustep, hi] using h
  | some ep =>
    by_cases hc : ep.closed = true
    · simpa [ustep, hi, hc] using h
    · have hc' : ep.closed = false := by simpa using hc
      have hT := h.trk_lt ep.owner
      have hnd := h.nodup ep (getElem?_mem' hi)
      generalize hr : releaseAll (w.trackers.getD (w.trk ep.owner) []) w.kernel ep.keys = r
      have hw : ustep w (.release i) =
          { w with eps := modifyAt w.eps i (fun ep' => { ep' with closed := true, keys := [] })
                   trackers := modifyAt w.trackers (w.trk ep.owner) (fun _ => r.1), kernel := r.2 } := by
        simp only [ustep, hi, hc', hr, h.notFrozen, Bool.false_eq_true, ↓reduceIte]
      rw [hw]
      have hhold : ∀ t k, holdersOf (modifyAt w.eps i (fun ep' => { ep' with closed := true, keys := [] })) w.trackerOf t k
          + (if (ep.keys.contains k && w.trackerOf.getD ep.owner 0 == t) = true then 1 else 0) = holdersOf w.eps w.trackerOf t k := by
        intro t k
        have hh := holdersOf_modifyAt w.eps w.trackerOf i (fun ep' => { ep' with closed := true, keys := [] }) ep hi t k
        dsimp only at hh
        simp only [Endpoint.holds, hc', Bool.not_false, Bool.true_and, Bool.not_true, Bool.false_and] at hh
        simpa using hh
      have counts' : ∀ t k, t < w.trackers.length →
          ((modifyAt w.trackers (w.trk ep.owner) (fun _ => r.1)).getD t []).count k
            = holdersOf (modifyAt w.eps i (fun ep' => { ep' with closed := true, keys := [] })) w.trackerOf t k := by
        intro t k ht'
        have hc0 := h.counts t k ht'
        have hh := hhold t k
        have hn := count_of_nodup hnd k
        rw [modifyAt_getD _ _ _ _ _ hT]
        by_cases hto : t = w.trk ep.owner
        · subst hto
          rw [if_pos rfl, ← hr, count_releaseAll, hn, hc0]
          simp only [trk_eq, Bool.and_true] at hh
          by_cases hk : k ∈ ep.keys
          · have c1 : ep.keys.contains k = true := by simpa using hk
            rw [c1] at hh
            simp only [hk, if_true]
            simp at hh
            omega
          · have c1 : ep.keys.contains k = false := by simpa using hk
            rw [c1] at hh
            simp only [hk, if_false]
            simp at hh
            omega
        · rw [if_neg hto, hc0]
          simp only [trk_ne hto, Bool.and_false] at hh
          simp at hh
          omega
      refine ⟨?_, ?_, ?_, ?_, h.notFrozen⟩
      · intro g'
        show w.trk g' < (modifyAt w.trackers _ _).length
        rw [modifyAt_length]; exact h.trk_lt g'
      · intro t k ht
        have ht' : t < w.trackers.length := by
          have : t < (modifyAt w.trackers (w.trk ep.owner) (fun _ => r.1)).length := ht
          rwa [modifyAt_length] at this
        exact counts' t k ht'
      · intro ep' hep'
        rcases mem_modifyAt _ _ _ _ hep' with hm | ⟨x, _, rfl⟩
        · exact h.nodup ep' hm
        · exact List.nodup_nil
      · intro k hk hev
        have hk2 : k ∈ r.2 := hk
        rw [← hr] at hk2
        obtain ⟨hkk, hno⟩ := (kernel_releaseAll _ _ _ hnd k).mp hk2
        have hev' : k ∈ w.ever := hev
        by_cases hke : k ∈ ep.keys
        · -- the released endpoint held k: the count was not one, so another open endpoint of the tracker holds it
          have hc0 := h.counts (w.trk ep.owner) k hT
          have hh := hhold (w.trk ep.owner) k
          have c1 : ep.keys.contains k = true := by simpa using hke
          simp only [trk_eq, Bool.and_true, c1, if_true] at hh
          have hne : (w.trackers.getD (w.trk ep.owner) []).count k ≠ 1 := fun e1 => hno ⟨hke, e1⟩
          have hpos : 0 < holdersOf (modifyAt w.eps i (fun ep' => { ep' with closed := true, keys := [] })) w.trackerOf (w.trk ep.owner) k := by
            omega
          obtain ⟨ep', hm, hh', _⟩ := (holdersOf_pos_iff _ _ _ _).mp hpos
          exact ⟨ep', hm, hh'⟩
        · obtain ⟨ep'', hm, hh⟩ := h.noOrphan k hkk hev'
          rcases mem_modifyAt_of_mem w.eps i (fun ep' => { ep' with closed := true, keys := [] }) ep'' hm with h1 | ⟨h2, _⟩
          · exact ⟨ep'', h1, hh⟩
          · exfalso
            have : ep'' = ep := by rw [hi] at h2; exact (Option.some.inj h2).symm
            subst this
            apply hke
            have := hh
            simp only [Endpoint.holds, Bool.and_eq_true] at this
            simpa using this.2

theorem inv_step (w : UWorld) (h : w.Inv) (op : UOp) (ht : Timely w op) : (ustep w op).Inv := by
  cases op with
  | seen k => exact inv_seen w h k ht
  | track i e src dst => exact inv_track w h i e src dst
  | adopt i g => exact inv_adopt w h i g
  | release i => exact inv_release w h i
  | freeze => exact False.elim ht

theorem foldl_max_le (l : List Nat) (a : Nat) : a ≤ l.foldl max a ∧ ∀ x ∈ l, x ≤ l.foldl max a := by
  induction l generalizing a with
  | nil => simp
  | cons y ys ih =>
    simp only [List.foldl_cons]
    obtain ⟨h1, h2⟩ := ih (max a y)
    refine ⟨by omega, ?_⟩
    intro x hx
    rcases List.mem_cons.mp hx with rfl | hx
    · omega
    · exact h2 x hx

theorem inv_init (n : Nat) (tof : List Nat) : (UWorld.init n tof).Inv := by
  refine ⟨?_, ?_, ?_, ?_, rfl⟩
  · intro g
    simp only [UWorld.init, UWorld.trk, List.length_replicate]
    by_cases hg : g < tof.length
    · have : tof.getD g 0 = tof[g] := by simp [List.getD, hg]
      rw [this]
      have := (foldl_max_le tof 0).2 tof[g] (List.getElem_mem hg)
      omega
    · have : tof.getD g 0 = 0 := by simp [List.getD, Nat.le_of_not_lt hg]
      omega
  · intro t k ht
    have h1 : holdersOf (UWorld.init n tof).eps (UWorld.init n tof).trackerOf t k = 0 := by
      unfold holdersOf
      rw [List.length_eq_zero_iff, List.filter_eq_nil_iff]
      intro ep hep
      have : ep = ⟨0, false, []⟩ := by
        simp only [UWorld.init] at hep
        exact (List.mem_replicate.mp hep).2
      subst this
      simp [Endpoint.holds]
    rw [h1]
    simp only [UWorld.init] at ht ⊢
    rw [List.getD_eq_getElem?_getD, List.getElem?_replicate]
    split <;> simp
  · intro ep hep
    have : ep = ⟨0, false, []⟩ := by
      simp only [UWorld.init] at hep
      exact (List.mem_replicate.mp hep).2
    subst this; exact List.nodup_nil
  · intro k hk
    simp [UWorld.init] at hk

theorem inv_run (w : UWorld) (h : w.Inv) (ops : List UOp) (ht : TimelyRun w ops) : (urun w ops).Inv := by
  induction ops generalizing w with
  | nil => simpa [urun] using h
  | cons op ops ih =>
    simp only [urun, List.foldl_cons]
    exact ih (ustep w op) (inv_step w h op ht.1) ht.2

end DaeVerif.C19
