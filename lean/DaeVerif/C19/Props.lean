import DaeVerif.C19.Proofs
/-!
# C19 — property theorems

Only statements a reader should audit (namespace `DaeVerif.C19.Props`); helper lemmas are in
`Proofs.lean`.  Two kinds of theorem:

* **table theorems** (`by decide`): statements over the tables REGENERATED from the C and Go sources on
  every run (`Gen/*.lean`) and the hand-written pairing.  They quantify over every declaration that
  exists in the sources now; a change of either source changes the table and the theorem is
  re-proved (or fails) on the next run.
* **∀-theorems** about the byte-level key constructors and the generator model: all addresses,
  ports, outbound ids, specs, both byte orders.
-/
namespace DaeVerif.C19.Props
open DaeVerif.C19

/-! ## A. Structures: size, offsets, widths, signedness, padding -/

set_option maxRecDepth 200000 in
/-- **Headline (layouts).** For every hand-paired (C record, Go type) and every GOARCH on which the
pairing is required (stub types: the nine 64-bit arches; hand-written real-build types and the
`PARAM` literal: all thirteen arches of the release matrix), and additionally under the
encoding/binary layout for every type that is marshalled by cilium/ebpf: the sizes are equal, every
mirrored field has the same offset, element width, element count and signedness class, every named
Go field is mirrored, and every C member is mirrored or is an alternate union view / padding member
whose bytes are all covered. -/
theorem layouts_agree :
    ∀ x ∈ layoutObligations, pairOk Gen.cRecs (goRecsFor x.2) x.1 = true := by decide +kernel

-- non-vacuity: the obligation list is not empty and contains the key type on both the memory and
-- the wire layout; and the predicate can fail (a pairing against the wrong record is rejected)
set_option maxRecDepth 200000 in
example : layoutObligations.length > 100 := by decide +kernel
example : pairOk Gen.cRecs (goRecsFor n!"amd64")
    { c := n!"redirect_entry", go := n!"stub.bpfTuplesKey", fields := [], cAlt := [], wire := false } = false := by decide +kernel

/-- What `pairOk` gives for one mirrored field: the same bytes of the record image are read as
the same values on both sides, on either byte order. -/
theorem paired_fields_decode_equal (g c : Leaf) (h : leafAgree g c = true) (e : Endian) (bs : List Nat) :
    decodeLeaf e bs g = decodeLeaf e bs c := by
  unfold leafAgree at h
  simp only [Bool.and_eq_true, beq_iff_eq] at h
  obtain ⟨⟨⟨h1, h2⟩, h3⟩, _⟩ := h
  unfold decodeLeaf
  rw [h1, h2, h3]

/-- `pairOk` unfolded for a reader: equal sizes, and offset / width / count / class of every mirrored
field. -/
theorem pairOk_sound (cs gs : List Rec) (p : Pairing) (h : pairOk cs gs p = true) :
    ∃ c g, findRec p.c cs = some c ∧ findRec p.go gs = some g ∧ c.size = g.size ∧
      ∀ f ∈ p.fields, ∃ gl cl, findLeaf f.1 g.leaves = some gl ∧ findLeaf f.2 c.leaves = some cl ∧
        gl.off = cl.off ∧ gl.esize = cl.esize ∧ gl.count = cl.count ∧ clsCompat gl.cls cl.cls = true
        ∧ gl.blank = false := by
  unfold pairOk at h
  split at h
  · rename_i c g hc hg
    simp only [Bool.and_eq_true, beq_iff_eq, List.all_eq_true] at h
    obtain ⟨⟨⟨hs, hf⟩, _⟩, _⟩ := h
    refine ⟨c, g, hc, hg, hs, ?_⟩
    intro f hfm
    have := hf f hfm
    split at this
    · rename_i gl cl hgl hcl
      simp only [leafAgree, Bool.and_eq_true, beq_iff_eq, Bool.not_eq_true'] at this
      obtain ⟨hb, ⟨⟨⟨h1, h2⟩, h3⟩, h4⟩⟩ := this
      exact ⟨gl, cl, hgl, hcl, h1, h2, h3, h4, hb⟩
    · simp at this
  · simp at h

/-- Every plain-data struct type `bpf*` / `_bpf*` that exists in package control now (stub or real
build, incl. the `PARAM` literal) is either paired with a C record or explicitly listed as Go-only:
a new shared type cannot appear without a pairing. -/
theorem every_go_type_classified :
    ∀ r ∈ goRecsFor n!"amd64", (pairing.any (fun p => nameEq p.go r.name) || nameMem r.name goOnlyTypes) = true := by
  decide

/-- Every map of the C program that the Go side holds a handle for (`bpfMaps`) and whose contents it
reads or writes has paired record types for key and value; and every map, program and variable the Go
loader asks for (`ebpf:"…"` tags) exists in the C program. -/
theorem shared_maps_are_paired : ∀ m ∈ Gen.cMaps, mapOk m = true := by decide +kernel

theorem go_handles_exist_in_c :
    (∀ t ∈ Gen.goMapTags, (findMap t Gen.cMaps).isSome = true)
    ∧ (∀ t ∈ Gen.goProgTags, nameMem t Gen.cProgs = true)
    ∧ (∀ t ∈ Gen.goVarTags, Gen.cGlobals.any (fun g => nameEq g.1 t) = true) := by decide +kernel

/-- Key and value widths used by the control plane for scalar-keyed maps equal the C definitions; in
particular the LPM key size declared by `unused_lpm_type` is the size of `struct lpm_key` = `_bpfLpmKey`. -/
theorem scalar_map_io_widths : ∀ x ∈ goScalarIO, scalarIOOk x = true := by decide +kernel

/-- Every call site `<map>.Update/Lookup/Delete(key, value)` found in package control passes a key /
value whose static type has the size the C map declares (regenerated from the Go sources). -/
theorem go_map_calls_match_c : ∀ c ∈ Gen.goMapCalls, mapCallOk c = true := by decide +kernel

example : Gen.goMapCalls.length > 10 := by decide +kernel

/-! ## B. Enumerations, constants, limits -/

/-- **Generator, all specs.** For ANY spec, `gen_ebpf_sync` writes the same numeric value for every
entry on the Go side and on the C side: match types get their list index (Go `iota`, C explicit
`= i`), the other groups their `value`; names correspond position by position. -/
theorem generator_values_agree (s : Spec) :
    (genGo s).matchTypes.map (·.2) = (genC s).matchTypes.map (·.2)
    ∧ (genGo s).outbound.map (·.2) = (genC s).outbound.map (·.2)
    ∧ (genGo s).l4.map (·.2) = (genC s).l4.map (·.2)
    ∧ (genGo s).ip.map (·.2) = (genC s).ip.map (·.2) := by
  simp [genGo, genC, Function.comp_def]

/-- … and that value is the index in the spec for match types (so inserting a match type in the
middle renumbers both sides identically). -/
theorem generator_match_type_index (s : Spec) (i : Nat) (n : Name) (h : s.matchTypes[i]? = some n) :
    (genGo s).matchTypes[i]? = some (nameCat n!"MatchType_" n, i) ∧ (genC s).matchTypes[i]? = some (nameCat n!"MatchType_" n, i) := by
  simp [genGo, genC, enumFrom_getElem?, h]

example : (genGo Gen.specData).matchTypes.length > 3 := by decide +kernel

/-- The checked-in generated files carry exactly the generator's output for the checked-in spec
(a spec edit without regeneration, or a hand edit of one generated file, breaks this). -/
theorem generated_files_match_spec : goFileMatchesSpec = true ∧ cFileMatchesSpec = true := by decide +kernel

set_option maxRecDepth 200000 in
/-- **Headline (constants).** Every shared enumeration value and limit has the same numeric value on
both sides: everything the generator emits for the current spec, and the hand-paired limits. -/
theorem consts_agree : ∀ x ∈ specConstPairs ++ fixedConstPairs, constPairOk x = true := by decide +kernel

example : (specConstPairs ++ fixedConstPairs).length > 30 := by decide +kernel

/-- Array lengths and map sizes derived from those limits agree as well (bitmap words × 32 =
MaxMatchSetLen, connectivity slots = 256 × 6, pname lengths = TaskCommLen, …). -/
theorem limits_agree : ∀ x ∈ limitChecks, x.2 = true := by decide +kernel

/-! ## C. Map keys, byte for byte -/

/-- The byte-level key images below are laid out as the regenerated C and Go layouts say (member
positions of `tuples_key` / `bpfTuplesKey`, `lpm_key` / `_bpfLpmKey`, the `match_set` value union, key
sizes of the scalar-keyed maps). -/
theorem key_models_follow_layout : keyModelsFollowLayout = true := by decide +kernel

/-- **Headline (flow tuples).** For every flow (IPv4 or IPv6, any addresses, ports, protocol), on
either byte order, and whether the control plane holds an IPv4 peer as an `Is4` address or as the
IPv4-mapped IPv6 address: the memory image of `bpfTuplesKeyFromAddrPorts(src, dst, proto)` equals the
memory image of `tuples.five` after `get_tuples` on the packet — all 40 bytes. -/
theorem tuples_key_bytes (e : Endian) (f : Flow) (mapped : Bool) (_hf : f.WF) :
    goTuplesKey e (f.goSrc mapped) (f.goDst mapped) f.proto = cTuplesKey e f := by
  unfold goTuplesKey cTuplesKey
  simp only [goSrc_as16, goDst_as16, cIp_eq, store_htons]
  rfl

/-- The key is 40 bytes = `sizeof(struct tuples_key)` as the compiler reports it, and the three
trailing bytes (padding in C, an explicit `_ [3]uint8` in Go) are zero on both sides. -/
theorem tuples_key_size_and_padding (e : Endian) (f : Flow) (hf : f.WF) :
    (cTuplesKey e f).length = 40
    ∧ (findRec n!"tuples_key" Gen.cRecs).map (·.size) = some 40
    ∧ (cTuplesKey e f).drop 37 = [0, 0, 0] := by
  obtain ⟨hlen, _, _, _, _, _⟩ := hf
  have hs : (flowAddr16 f.v4 f.src).length = 16 := by
    apply flowAddr16_length; cases hv : f.v4 <;> simp_all
  have hd : (flowAddr16 f.v4 f.dst).length = 16 := by
    apply flowAddr16_length; cases hv : f.v4 <;> simp_all
  refine ⟨?_, by decide, ?_⟩
  · simp [cTuplesKey, cIp_eq, hs, hd, beBytes_length, zeros]
  · have : cTuplesKey e f = (flowAddr16 f.v4 f.src ++ flowAddr16 f.v4 f.dst ++ beBytes 2 f.sport
        ++ beBytes 2 f.dport ++ [f.proto]) ++ zeros 3 := by simp [cTuplesKey, cIp_eq]
    rw [this, List.drop_left' (by simp [hs, hd, beBytes_length])]
    rfl

/-- IPv4 convergence: the `Is4` and the IPv4-mapped form of the same peer give the same key. -/
theorem tuples_key_v4_forms_converge (e : Endian) (f : Flow) (hf : f.WF) :
    goTuplesKey e (f.goSrc true) (f.goDst true) f.proto = goTuplesKey e (f.goSrc false) (f.goDst false) f.proto := by
  rw [tuples_key_bytes e f true hf, tuples_key_bytes e f false hf]

/-- The reply-direction key: `copy_reversed_tuples` in the kernel = `bpfTuplesKeyFromAddrPorts(dst, src)`
in the control plane (`udp_endpoint_pool.go`). -/
theorem reversed_key_bytes (e : Endian) (f : Flow) (mapped : Bool) (hf : f.WF) :
    goTuplesKey e (f.goDst mapped) (f.goSrc mapped) f.proto = cReverseKey (cTuplesKey e f) := by
  have hr : f.reverse.WF := by
    obtain ⟨h1, h2, h3, h4, h5, h6⟩ := hf
    refine ⟨?_, h3, h2, h5, h4, h6⟩
    cases hv : f.v4 <;> simp_all [Flow.reverse]
  have h := tuples_key_bytes e f.reverse mapped hr
  have e1 : f.reverse.goSrc mapped = f.goDst mapped := rfl
  have e2 : f.reverse.goDst mapped = f.goSrc mapped := rfl
  rw [e1, e2] at h
  rw [show f.proto = f.reverse.proto from rfl, h]
  obtain ⟨hlen, _, _, _, _, _⟩ := hf
  have hs : (flowAddr16 f.v4 f.src).length = 16 := by
    apply flowAddr16_length; cases hv : f.v4 <;> simp_all
  have hd : (flowAddr16 f.v4 f.dst).length = 16 := by
    apply flowAddr16_length; cases hv : f.v4 <;> simp_all
  obtain ⟨k1, k2, k3, k4, k5⟩ := key_slices (flowAddr16 f.v4 f.src) (flowAddr16 f.v4 f.dst)
    (beBytes 2 f.sport) (beBytes 2 f.dport) [f.proto] (zeros 3) hs hd (beBytes_length _ _) (beBytes_length _ _) rfl
  unfold cReverseKey
  simp only [cTuplesKey, cIp_eq] at k1 k2 k3 k4 k5 ⊢
  rw [k1, k2, k3, k4, k5]
  simp [Flow.reverse]

example : (⟨true, [10, 0, 0, 1], [8, 8, 8, 8], 40000, 443, 6⟩ : Flow).WF := by decide +kernel
example : (⟨false, [0x20, 1, 0xd, 0xb8, 0, 0, 0, 0, 0, 0, 0, 0, 0, 0, 0, 1],
    [0, 0, 0, 0, 0, 0, 0, 0, 0, 0, 0xff, 0xff, 1, 2, 3, 4], 53, 65535, 17⟩ : Flow).WF := by decide +kernel
example : cTuplesKey .little ⟨true, [10, 0, 0, 1], [8, 8, 8, 8], 40000, 443, 6⟩ =
    [0,0,0,0,0,0,0,0,0,0,255,255,10,0,0,1, 0,0,0,0,0,0,0,0,0,0,255,255,8,8,8,8, 156,64, 1,187, 6, 0,0,0] := by decide +kernel

/-- **Connectivity slots.** For every outbound id and every packet the kernel consults the map for
(TCP, and UDP to a port other than 53), the slot the kernel reads is the slot under which the
control plane publishes the health of that traffic class (TCP / data UDP, IPv4 / IPv6). -/
theorem connectivity_key_agree (outbound l4proto dport : Nat) (ethIsV4 : Bool) (h53 : dport ≠ 53) :
    cConnKey outbound l4proto dport ethIsV4 = some (goConnKey outbound (ntOfPacket l4proto ethIsV4)) := by
  have h6 : goConstNat n!"control.outboundConnectivitySlotsPerOutbound" = 6 := by decide +kernel
  have h2 : goConstNat n!"control.outboundConnectivitySlotsPerDomain" = 2 := by decide +kernel
  have d0 : goConstNat n!"control.outboundConnectivityDomainTCP" = 0 := by decide +kernel
  have d2 : goConstNat n!"control.outboundConnectivityDomainDataUDP" = 2 := by decide +kernel
  unfold cConnKey goConnKey goDomainIdx ntOfPacket NetworkType.effDomain
  by_cases hu : l4proto = 17 <;> cases ethIsV4 <;> simp [h53, hu, h6, h2, d0, d2]

/-- Every slot the control plane can write is inside the map (`max_entries` as the compiler folds it),
for every outbound id and network type. -/
theorem connectivity_key_in_range (outbound : Nat) (t : NetworkType) (ho : outbound < 256) :
    goConnKey outbound t < mapMaxEntries n!"outbound_connectivity_map" := by
  have hm : mapMaxEntries n!"outbound_connectivity_map" = 1536 := by decide +kernel
  have h6 : goConstNat n!"control.outboundConnectivitySlotsPerOutbound" = 6 := by decide +kernel
  have h2 : goConstNat n!"control.outboundConnectivitySlotsPerDomain" = 2 := by decide +kernel
  have d0 : goConstNat n!"control.outboundConnectivityDomainTCP" = 0 := by decide +kernel
  have d1 : goConstNat n!"control.outboundConnectivityDomainDnsUDP" = 1 := by decide +kernel
  have d2 : goConstNat n!"control.outboundConnectivityDomainDataUDP" = 2 := by decide +kernel
  have hd : goDomainIdx t ≤ 2 := by
    unfold goDomainIdx; rw [d0, d1, d2]
    split
    · omega
    · split <;> omega
  rw [hm]
  unfold goConnKey
  rw [h6, h2]
  have : (if t.ip = IpStr.v6 then 1 else 0) ≤ 1 := by split <;> omega
  have hlt : outbound * 6 + goDomainIdx t * 2 + (if t.ip = IpStr.v6 then 1 else 0) < 2 ^ 32 := by omega
  rw [Nat.mod_eq_of_lt hlt]
  omega

/-- No two logical entities share a slot: the key determines the outbound id, the health domain and
the IP version. -/
theorem connectivity_key_injective (o o' : Nat) (t t' : NetworkType) (ho : o < 256) (ho' : o' < 256)
    (h : goConnKey o t = goConnKey o' t') :
    o = o' ∧ goDomainIdx t = goDomainIdx t' ∧ (t.ip = .v6 ↔ t'.ip = .v6) := by
  have h6 : goConstNat n!"control.outboundConnectivitySlotsPerOutbound" = 6 := by decide +kernel
  have h2 : goConstNat n!"control.outboundConnectivitySlotsPerDomain" = 2 := by decide +kernel
  have d0 : goConstNat n!"control.outboundConnectivityDomainTCP" = 0 := by decide +kernel
  have d1 : goConstNat n!"control.outboundConnectivityDomainDnsUDP" = 1 := by decide +kernel
  have d2 : goConstNat n!"control.outboundConnectivityDomainDataUDP" = 2 := by decide +kernel
  have hd : ∀ x : NetworkType, goDomainIdx x ≤ 2 := by
    intro x; unfold goDomainIdx; rw [d0, d1, d2]
    split
    · omega
    · split <;> omega
  unfold goConnKey at h
  rw [h6, h2] at h
  have b1 := hd t
  have b2 := hd t'
  by_cases c1 : t.ip = IpStr.v6 <;> by_cases c2 : t'.ip = IpStr.v6 <;> simp only [c1, c2, if_true, if_false] at h ⊢ <;>
    (rw [Nat.mod_eq_of_lt (by omega), Nat.mod_eq_of_lt (by omega)] at h) <;>
    (refine ⟨by omega, by omega, ?_⟩) <;> simp
  all_goals omega

example : goConnKey 255 ⟨.udp, .v6, .unset⟩ = 1535 := by decide +kernel
example : cConnKey 7 17 443 false = some 47 := by decide +kernel

/-- **Listener sockets.** The key under which the control plane stores the TCP/IPv4, TCP/IPv6 and UDP
listener is the key `assign_listener` looks up for a packet of that kind; the three keys are
distinct. -/
theorem listen_key_agree (l4proto : Nat) (ethIsV6 : Bool) :
    cListenKey l4proto ethIsV6 = goListenKey (listenerOfPacket l4proto ethIsV6) := by
  have z : cConstNat n!"zero_key" = goListenKey .tcp4 := by decide +kernel
  have o : cConstNat n!"one_key" = goListenKey .udp := by decide +kernel
  have t : cConstNat n!"two_key" = goListenKey .tcp6 := by decide +kernel
  unfold cListenKey listenerOfPacket
  by_cases h : l4proto = 6 <;> cases ethIsV6 <;> simp [h, z, o, t]

theorem listen_keys_distinct :
    goListenKey .tcp4 ≠ goListenKey .tcp6 ∧ goListenKey .tcp4 ≠ goListenKey .udp ∧ goListenKey .tcp6 ≠ goListenKey .udp := by
  decide

/-- **`Ipv6ByteSliceToUint32Array` is byte preserving** on either byte order: four native loads
followed by the native store of the `[4]uint32` give back the 16 address bytes. -/
theorem ipv6_words_preserve_bytes (e : Endian) (a : List Nat) (hl : a.length = 16) (hb : Bytes a) :
    u32ArrayBytes e (ipv6ToU32 e a) = a := ipv6ToU32_identity e a hl hb

/-- **LPM keys.** `cidrToBpfLpmKey` stores (prefix length counted in the IPv4-mapped space as a native
u32, then the 16 address bytes in network order) — the layout of `struct lpm_key` — on either byte
order … -/
theorem lpm_key_bytes (e : Endian) (p : GoPrefix) (hl : p.addr.as16.length = 16) (hb : Bytes p.addr.as16) :
    goLpmKey e p = nativeBytes e 4 ((if p.addr.is4 then p.bits + 96 else p.bits) % 2 ^ 32) ++ p.addr.as16 := by
  unfold goLpmKey
  rw [ipv6ToU32_identity e _ hl hb]

/-- … so the host key of an address (`/32` for IPv4, `/128` for IPv6) is byte-identical to the probe
`route()` builds for the same address of a flow. -/
theorem lpm_host_key_bytes (e : Endian) (f : Flow) (hf : f.WF) :
    goLpmKey e ⟨(f.goDst false).addr, if f.v4 then 32 else 128⟩ = cLpmProbe e (flowAddr16 f.v4 f.dst) := by
  obtain ⟨hlen, _, hbd, _, _, _⟩ := hf
  have h16 : (flowAddr16 f.v4 f.dst).length = 16 := by
    apply flowAddr16_length; cases hv : f.v4 <;> simp_all
  have hb16 : Bytes (flowAddr16 f.v4 f.dst) := by
    unfold flowAddr16; split
    · exact bytes_append v4Prefix_bytes hbd
    · exact hbd
  have has : (f.goDst false).addr.as16 = flowAddr16 f.v4 f.dst := by
    unfold Flow.goDst flowAddr16 GoAddr.as16
    cases hv : f.v4 <;> simp
  rw [lpm_key_bytes e _ (by rw [has]; exact h16) (by rw [has]; exact hb16), has]
  unfold cLpmProbe Flow.goDst
  cases hv : f.v4 <;> simp

/-- **Domain-routing keys.** The key the control plane computes for an address learnt from DNS
(`Ipv6ByteSliceToUint32Array(ip.As16())`, marshalled natively) is byte-identical to the key the
kernel looks up for a packet to that address (`memcpy` of the 16-byte destination), in both Go forms
of an IPv4 address and on either byte order. -/
theorem domain_routing_key_bytes (e : Endian) (f : Flow) (mapped : Bool) (hf : f.WF) :
    goDomainKey e (f.goDst mapped).addr = cDomainKey (flowAddr16 f.v4 f.dst) := by
  obtain ⟨hlen, _, hbd, _, _, _⟩ := hf
  have h16 : (flowAddr16 f.v4 f.dst).length = 16 := by
    apply flowAddr16_length; cases hv : f.v4 <;> simp_all
  have hb16 : Bytes (flowAddr16 f.v4 f.dst) := by
    unfold flowAddr16; split
    · exact bytes_append v4Prefix_bytes hbd
    · exact hbd
  have has : (f.goDst mapped).addr.as16 = flowAddr16 f.v4 f.dst := by
    unfold Flow.goDst flowAddr16 GoAddr.as16
    cases hv : f.v4 <;> cases mapped <;> simp
  unfold goDomainKey cDomainKey
  rw [has, ipv6ToU32_identity e _ h16 hb16]

/-! ## D. Byte order of the `match_set` value union -/

/-- The full statement one would like: what the control plane writes into `match_set.value` for an LPM
index is what the kernel reads as `match_set->index`, on either byte order.  It is FALSE (next
theorem): the control plane writes with `binary.LittleEndian`, the kernel reads natively. -/
def value_encoding_any_endian_full : Prop :=
  ∀ (e : Endian) (idx : Nat), idx < 2 ^ 32 → cReadIndex e (goSetIndexValue idx) = idx

/-- Proved part: on little-endian machines (amd64, arm64, riscv64, loong64, 386, arm, mipsle,
mips64le, ppc64le) the index and the port range are read back as written. Missing: big-endian
GOARCHes of the release matrix (mips, mips64, ppc64, s390x) — see `value_encoding_big_endian_differs`. -/
theorem value_encoding_little_endian_partial (idx start stop : Nat) (hi : idx < 2 ^ 32)
    (hs : start < 2 ^ 16) (ht : stop < 2 ^ 16) :
    cReadIndex .little (goSetIndexValue idx) = idx
    ∧ cReadPortRange .little (goPortRangeValue start stop) = (start, stop) := by
  have l4 : (leBytes 4 idx).length = 4 := leBytes_length 4 idx
  have l2 : (leBytes 2 start).length = 2 := leBytes_length 2 start
  have l2' : (leBytes 2 stop).length = 2 := leBytes_length 2 stop
  constructor
  · unfold cReadIndex goSetIndexValue nativeVal
    rw [List.take_left' l4]
    exact leVal_leBytes 4 idx (by simpa using hi)
  · unfold cReadPortRange goPortRangeValue nativeVal
    have a : (leBytes 2 start ++ leBytes 2 stop ++ zeros 12).take 2 = leBytes 2 start := by
      rw [List.append_assoc]; exact List.take_left' l2
    have b : ((leBytes 2 start ++ leBytes 2 stop ++ zeros 12).drop 2).take 2 = leBytes 2 stop := by
      rw [List.append_assoc, List.drop_left' l2]; exact List.take_left' l2'
    rw [a, b, leVal_leBytes 2 start (by simpa using hs), leVal_leBytes 2 stop (by simpa using ht)]

theorem value_encoding_big_endian_differs : ¬ value_encoding_any_endian_full := by
  intro h
  have := h .big 1 (by decide)
  revert this
  decide

end DaeVerif.C19.Props
