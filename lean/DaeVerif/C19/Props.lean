import DaeVerif.C19.Proofs
import DaeVerif.C19.LifecycleProofs
/-!
# C19 — property theorems

Only statements a reader should audit (namespace `DaeVerif.C19.Props`); helper lemmas are in
`Proofs.lean`.  Two kinds of theorem:

* **table theorems** (`by decide`): statements over the tables REGENERATED from the C and Go sources on
  every run (`Gen/*.lean`) and the hand-written pairing.  They quantify over every declaration that
  exists in the sources now; a change of either source changes the table and the theorem is
  re-proved (or fails) on the next run.
* **∀-theorems** about the byte-level key constructors and the generator model: all addresses,
  ports, outbound ids, specs, both byte orders.
-/
namespace DaeVerif.C19.Props
open DaeVerif.C19

/-! ## A. Structures: size, offsets, widths, signedness, padding -/

/-- The full statement of the property's quantifier ("stub build types" without an arch restriction):
every pairing on every GOARCH of the release matrix. NOT proved — it is false for four stub types on
386/arm/mipsle/mips (Go aligns `uint64` to 4 there; bpf2go output, for which the stub types stand in,
has explicit pads); the driver lists them (`archreport`). -/
def layouts_agree_all_arches_full : Prop :=
  ∀ p ∈ pairing, ∀ a ∈ archesAll, pairOk Gen.cRecs (goRecsFor a) p = true

set_option maxRecDepth 200000 in
/-- **Headline (layouts), proved part.** For every hand-paired (C record, Go type) and every GOARCH on which the
pairing is required (stub types: the nine 64-bit arches; hand-written real-build types and the
`PARAM` literal: all thirteen arches of the release matrix), and additionally under the
encoding/binary layout for every type that is marshalled by cilium/ebpf: the sizes are equal, every
mirrored field has the same offset, element width, element count and signedness class, every named
Go field is mirrored, and every C member is mirrored or is an alternate union view / padding member
whose bytes are all covered. -/
theorem layouts_agree_partial :
    ∀ x ∈ layoutObligations, pairOk Gen.cRecs (goRecsFor x.2) x.1 = true := by decide +kernel

-- non-vacuity: the obligation list is not empty and contains the key type on both the memory and
-- the wire layout; and the predicate can fail (a pairing against the wrong record is rejected)
set_option maxRecDepth 200000 in
example : layoutObligations.length > 100 := by decide +kernel
example : pairOk Gen.cRecs (goRecsFor n!"amd64")
    { c := n!"redirect_entry", go := n!"stub.bpfTuplesKey", fields := [], cAlt := [] } = false := by decide +kernel

/-- What `pairOk` gives for one mirrored field: the same bytes of the record image are read as
the same values on both sides, on either byte order. -/
theorem paired_fields_decode_equal (g c : Leaf) (h : leafAgree g c = true) (e : Endian) (bs : List Nat) :
    decodeLeaf e bs g = decodeLeaf e bs c := by
  unfold leafAgree at h
  simp only [Bool.and_eq_true, beq_iff_eq] at h
  obtain ⟨⟨⟨h1, h2⟩, h3⟩, _⟩ := h
  unfold decodeLeaf
  rw [h1, h2, h3]

/-- `pairOk` unfolded for a reader: equal sizes, and offset / width / count / class of every mirrored
field. -/
theorem pairOk_sound (cs gs : List Rec) (p : Pairing) (h : pairOk cs gs p = true) :
    ∃ c g, findRec p.c cs = some c ∧ findRec p.go gs = some g ∧ c.size = g.size ∧
      ∀ f ∈ p.fields, ∃ gl cl, findLeaf f.1 g.leaves = some gl ∧ findLeaf f.2 c.leaves = some cl ∧
        gl.off = cl.off ∧ gl.esize = cl.esize ∧ gl.count = cl.count ∧ clsCompat gl.cls cl.cls = true
        ∧ gl.blank = false := by
  unfold pairOk at h
  split at h
  · rename_i c g hc hg
    simp only [Bool.and_eq_true, beq_iff_eq, List.all_eq_true] at h
    obtain ⟨⟨⟨hs, hf⟩, _⟩, _⟩ := h
    refine ⟨c, g, hc, hg, hs, ?_⟩
    intro f hfm
    have := hf f hfm
    split at this
    · rename_i gl cl hgl hcl
      simp only [leafAgree, Bool.and_eq_true, beq_iff_eq, Bool.not_eq_true'] at this
      obtain ⟨hb, ⟨⟨⟨h1, h2⟩, h3⟩, h4⟩⟩ := this
      exact ⟨gl, cl, hgl, hcl, h1, h2, h3, h4, hb⟩
    · simp at this
  · simp at h

/-- Every plain-data struct type `bpf*` / `_bpf*` that exists in package control now (stub or real
build, incl. the `PARAM` literal) is either paired with a C record or explicitly listed as Go-only:
a new shared type cannot appear without a pairing. -/
theorem every_go_type_classified :
    ∀ r ∈ goRecsFor n!"amd64", (pairing.any (fun p => nameEq p.go r.name) || nameMem r.name goOnlyTypes) = true := by
  decide

/-- Every map of the C program that the Go side holds a handle for (`bpfMaps`) and whose contents it
reads or writes has paired record types for key and value; and every map, program and variable the Go
loader asks for (`ebpf:"…"` tags) exists in the C program. -/
theorem shared_maps_are_paired : ∀ m ∈ Gen.cMaps, mapOk m = true := by decide +kernel

theorem go_handles_exist_in_c :
    (∀ t ∈ Gen.goMapTags, (findMap t Gen.cMaps).isSome = true)
    ∧ (∀ t ∈ Gen.goProgTags, nameMem t Gen.cProgs = true)
    ∧ (∀ t ∈ Gen.goVarTags, Gen.cGlobals.any (fun g => nameEq g.1 t) = true) := by decide +kernel

/-- **Map I/O, type identity.** At every place where package control hands a key or value to a map
(regenerated: direct and batch methods on `bpfMaps` fields, `BpfMapBatch{Update,Delete}`,
`BpfMapBatchDeleteAll[K,V]`, `newLpmMap`, and the same inside functions that receive the map as a
parameter) the Go type is THE type paired with that map's C key/value record — not merely a type of
the same size — or, for non-struct arguments, has the C size. -/
theorem go_map_io_uses_paired_types : ∀ c ∈ Gen.goMapIO, mapIOOk c = true := by decide +kernel

example : Gen.goMapIO.length > 40 := by decide +kernel
-- the predicate rejects a same-size wrong type (the janitor scratch mix-up): bpfRedirectEntry for pid_pname
example : mapIOOk ⟨n!"cookie_pid_map", 1, n!"stub.bpfRedirectEntry", 32, -1, n!"", "", ""⟩ = false := by decide +kernel

/-- The full statement one would like: every Go struct type handed to cilium/ebpf can be exchanged as
declared, i.e. its encoding/binary layout agrees with the C record (cilium v0.20 `sysenc` uses the
memory image only for types without implicit padding and fails on a size mismatch otherwise). It is
FALSE for the stub build (`exchanged_types_wire_exact_full_is_false`): four stub types rely on implicit
Go padding where the bpf2go output they stand in for has explicit pads. -/
def exchanged_types_wire_exact_full : Prop := ∀ t ∈ exchangedTypes, packedOkFor t = true

/-- Proved part: every exchanged type OTHER than the four listed stub stand-ins is wire exact; and the
list is tight — each listed type is really exchanged and really not wire exact. Missing: the real
bpf2go types (not producible offline). -/
theorem exchanged_types_wire_exact_partial :
    (∀ t ∈ exchangedTypes, (packedOkFor t || nameMem t stubPaddedStandIns) = true)
    ∧ (∀ t ∈ stubPaddedStandIns, (nameMem t exchangedTypes && !packedOkFor t) = true) := by decide +kernel

theorem exchanged_types_wire_exact_full_is_false : ¬ exchanged_types_wire_exact_full := by
  intro h
  have := h n!"stub.bpfConnState" (by decide +kernel)
  revert this
  decide +kernel

/-- `wireExact` is not a hand-set flag: a pairing carries the packed obligation exactly when the Go
type has no implicit padding (packed size = memory size) or is one of the two hand-written production
types that are marshalled (`PARAM`, `_bpfLpmKey`). -/
theorem packed_obligations_derived :
    (pairing.all fun p =>
      (layoutObligations.any fun o => nameEq o.1.go p.go && nameEq o.1.c p.c && nameEq o.2 n!"packed")
        == (wireExact p || p.marshalled)) = true := by decide +kernel

/-! ## B. Enumerations, constants, limits -/

/-- **Generator, all specs.** For ANY spec, `gen_ebpf_sync` writes the same numeric value for every
entry on the Go side and on the C side: match types get their list index (Go `iota`, C explicit
`= i`), the other groups their `value`; names correspond position by position. -/
theorem generator_values_agree (s : Spec) :
    (genGo s).matchTypes.map (·.2) = (genC s).matchTypes.map (·.2)
    ∧ (genGo s).outbound.map (·.2) = (genC s).outbound.map (·.2)
    ∧ (genGo s).l4.map (·.2) = (genC s).l4.map (·.2)
    ∧ (genGo s).ip.map (·.2) = (genC s).ip.map (·.2) := by
  simp [genGo, genC, Function.comp_def]

/-- … and that value is the index in the spec for match types (so inserting a match type in the
middle renumbers both sides identically). -/
theorem generator_match_type_index (s : Spec) (i : Nat) (n : Name) (h : s.matchTypes[i]? = some n) :
    (genGo s).matchTypes[i]? = some (nameCat n!"MatchType_" n, i) ∧ (genC s).matchTypes[i]? = some (nameCat n!"MatchType_" n, i) := by
  simp [genGo, genC, enumFrom_getElem?, h]

example : (genGo Gen.specData).matchTypes.length > 3 := by decide +kernel

/-- The checked-in generated files carry exactly the generator's output for the checked-in spec
(a spec edit without regeneration, or a hand edit of one generated file, breaks this). -/
theorem generated_files_match_spec : goFileMatchesSpec = true ∧ cFileMatchesSpec = true := by decide +kernel

set_option maxRecDepth 200000 in
/-- **Headline (constants).** Every shared enumeration value and limit has the same numeric value on
both sides: everything the generator emits for the current spec, and the hand-paired limits. -/
theorem consts_agree : ∀ x ∈ specConstPairs ++ fixedConstPairs, constPairOk x = true := by decide +kernel

example : (specConstPairs ++ fixedConstPairs).length > 30 := by decide +kernel

/-- Array lengths and map sizes derived from those limits agree as well (bitmap words × 32 =
MaxMatchSetLen, connectivity slots = 256 × 6, pname lengths = TaskCommLen, …). -/
theorem limits_agree : ∀ x ∈ limitChecks, x.2 = some true := by decide +kernel

/-- **Closure of the constant pairing.** Every integer `#define`, enum value and `static const` of
control/kern (and the probed UAPI names) is paired with a Go constant, tied by another check, or listed
kernel-only with a reason: a new or newly mirrored C constant cannot stay invisible. -/
theorem every_c_const_classified : ∀ c ∈ Gen.cConsts, cConstClassified c.1 = true := by decide +kernel

/-- **Literals in Go function bodies.** Every comparison / switch case between a field of a `bpf*`
value and an integer constant in package control (regenerated) is a plain zero test or carries the
value of the C enumeration it mirrors (`value.State == 1` ↔ `TCP_STATE_CLOSING`, …). -/
theorem field_literals_agree : ∀ l ∈ Gen.goFieldLiterals, fieldLiteralOk l = true := by decide +kernel

/-- Constant map keys: the `bpf_stats_map` key whose counter is stored in the …udp… / …tcp… variable is
`BPF_STATS_UDP_CONN_OVERFLOW` / `BPF_STATS_TCP_CONN_OVERFLOW`, both are read; the `routing_meta_map`
key is `zero_key`. -/
theorem const_keys_agree : (∀ c ∈ Gen.goMapIO, constKeyOk c = true) ∧ statsKeysCovered = true := by
  decide +kernel

/-- **PARAM contents.** Each member of `struct dae_param` is initialised, at the same position of the
Go literal, from the quantity it stands for (tproxy port, pid, dae0 ifindex, netns id, peer MAC, the two
feature flags, socket mark) and not from its neighbour's. -/
theorem param_contents_agree : ∀ x ∈ paramContents, paramContentOk x = true := by decide +kernel

/-- **Go's byte order is the machine's.** For every GOARCH of the release matrix exactly one file of
`pkg/ebpf_internal` declaring `NativeEndian` is selected by the build constraints, and it chooses the
byte order of that machine (so the single `e` of the key theorems is justified). -/
theorem go_native_endian_is_machine_endian :
    (∀ x ∈ machineBigEndian, nativeEndianOk x = true)
    ∧ (∀ a ∈ archesAll, machineBigEndian.any (fun x => nameEq x.1 a) = true) := by decide +kernel

/-- **Which id a group's health is published under.** No call site of `outboundAliveChangeCallback` forms
the outbound id as "index in `outbounds` plus a constant": the id is the index the routing rules carry
(or the reserved 0/1), so the slot written is the slot `wan_outbound_is_alive` reads for that group. -/
theorem callback_id_is_rule_id :
    (∀ s ∈ Gen.goCallbackIdShapes, callbackShapeBad s = false) ∧ Gen.goCallbackIdShapes.any (nameEq · n!"index") = true := by
  decide +kernel

/-- The map-I/O scan reaches every map the control plane holds a handle for (except the three it does
not do I/O on): rows cannot silently vanish behind a local alias or helper. -/
theorem map_io_covers_every_map : ∀ t ∈ Gen.goMapTags, mapIOCovers t = true := by decide +kernel

/-- **Programs and map kinds.** Every `{Prog, Attach}` pair of the control plane names a program whose
ELF section is the one that attach type requires; every program the control plane refers to is
attached that way or is a `tc/…` classifier; every map name the loader looks up in the collection spec
exists; every map has the kind the control plane's use of it presupposes, and `newLpmMap` creates the
kind `unused_lpm_type` declares. -/
theorem programs_and_map_kinds_agree :
    (∀ x ∈ Gen.goProgAttach, progAttachOk x = true) ∧ (∀ p ∈ Gen.goProgUses, progUseOk p = true)
    ∧ (∀ n ∈ Gen.goSpecMapRefs, (findMap n Gen.cMaps).isSome = true)
    ∧ (∀ x ∈ goMapKindExpect, mapKindOk x = true) ∧ (∀ x ∈ Gen.goNewMapTypes, newMapTypeOk x = true) := by
  decide +kernel

example : Gen.goProgAttach.length ≥ 6 ∧ Gen.goProgUses.length ≥ 10 := by decide +kernel

/-- **Build-time override of `MAX_MATCH_SET_LEN`.** One Makefile variable feeds both sides, its default is
both sources' default, and the C program recompiled with 2048 has bitmap words × 32 = `routing_map` size =
2048 and `lpm_array_map` = `MAX_LPM_NUM` = 2056. (The Go struct for a non-default value is bpf2go
output and cannot be regenerated offline.) -/
theorem max_match_set_len_override_consistent : overrideConsistent = true := by decide +kernel

/-- **Widths of the generated enumerations.** For ANY spec that fits the Go declarations (`uint8`: at
most 256 match types, values below 256) every generated value fits the byte it is stored in on both
sides; the checked-in spec fits; and the storage widths are as assumed (`match_set.type`/`outbound`
one byte on both sides; `l4proto_type`/`ip_version` 4-byte C enums of which the kernel uses the low byte). -/
theorem generated_values_fit_their_storage (s : Spec) (h : specFits s = true) :
    (∀ x ∈ (genGo s).all, x.2 < 256) ∧ (∀ x ∈ (genC s).all, x.2 < 256) := by
  unfold specFits at h
  simp only [Bool.and_eq_true, decide_eq_true_eq, List.all_eq_true] at h
  obtain ⟨⟨⟨hm, ho⟩, hl⟩, hi⟩ := h
  have hidx : ∀ (l : List Name) (i : Nat), ∀ x ∈ enumFrom i l, x.2 < i + l.length := by
    intro l
    induction l with
    | nil => intro i x hx; simp [enumFrom] at hx
    | cons a as ih =>
      intro i x hx
      simp only [enumFrom, List.mem_cons] at hx
      rcases hx with rfl | hx
      · simp
      · have := ih (i + 1) x hx; simp only [List.length_cons]; omega
  constructor <;>
  · intro x hx
    simp only [GenOut.all, genGo, genC, List.mem_append, List.mem_map] at hx
    rcases hx with ((⟨y, hy, rfl⟩ | ⟨y, hy, rfl⟩) | ⟨y, hy, rfl⟩) | ⟨y, hy, rfl⟩
    · have := hidx _ 0 y hy; simp only; omega
    · exact ho y hy
    · exact hl y hy
    · exact hi y hy

theorem checked_in_spec_fits : specFits Gen.specData = true ∧ enumStorageOk = true := by decide +kernel

/-! ## C. Map keys, byte for byte -/

/-- The byte-level key images below are laid out as the regenerated C and Go layouts say (member
positions of `tuples_key` / `bpfTuplesKey`, `lpm_key` / `_bpfLpmKey`, the `match_set` value union, key
sizes of the scalar-keyed maps). -/
theorem key_models_follow_layout : keyModelsFollowLayout = true := by decide +kernel

/-- **Headline (flow tuples).** For every flow (IPv4 or IPv6, any addresses, ports, protocol), on
either byte order, and whether the control plane holds an IPv4 peer as an `Is4` address or as the
IPv4-mapped IPv6 address: the memory image of `bpfTuplesKeyFromAddrPorts(src, dst, proto)` equals the
memory image of `tuples.five` after `get_tuples` on the packet — all 40 bytes. -/
theorem tuples_key_bytes (e : Endian) (f : Flow) (mappedSrc mappedDst : Bool) (_hf : f.WF) :
    goTuplesKey e (f.goSrc mappedSrc) (f.goDst mappedDst) f.proto = cTuplesKey e f := by
  unfold goTuplesKey cTuplesKey
  simp only [goSrc_as16, goDst_as16, cIp_eq, store_htons]
  rfl

/-- The key is 40 bytes = `sizeof(struct tuples_key)` as the compiler reports it, and the three
trailing bytes (padding in C, an explicit `_ [3]uint8` in Go) are zero on both sides. -/
theorem tuples_key_size_and_padding (e : Endian) (f : Flow) (hf : f.WF) :
    (cTuplesKey e f).length = 40
    ∧ (findRec n!"tuples_key" Gen.cRecs).map (·.size) = some 40
    ∧ (cTuplesKey e f).drop 37 = [0, 0, 0] := by
  obtain ⟨hlen, _, _, _, _, _⟩ := hf
  have hs : (flowAddr16 f.v4 f.src).length = 16 := by
    apply flowAddr16_length; cases hv : f.v4 <;> simp_all
  have hd : (flowAddr16 f.v4 f.dst).length = 16 := by
    apply flowAddr16_length; cases hv : f.v4 <;> simp_all
  refine ⟨?_, by decide, ?_⟩
  · simp [cTuplesKey, cIp_eq, hs, hd, beBytes_length, zeros]
  · have : cTuplesKey e f = (flowAddr16 f.v4 f.src ++ flowAddr16 f.v4 f.dst ++ beBytes 2 f.sport
        ++ beBytes 2 f.dport ++ [f.proto]) ++ zeros 3 := by simp [cTuplesKey, cIp_eq]
    rw [this, List.drop_left' (by simp [hs, hd, beBytes_length])]
    rfl

/-- IPv4 convergence: the `Is4` and the IPv4-mapped form of the same peer give the same key. -/
theorem tuples_key_v4_forms_converge (e : Endian) (f : Flow) (hf : f.WF) :
    goTuplesKey e (f.goSrc true) (f.goDst true) f.proto = goTuplesKey e (f.goSrc false) (f.goDst false) f.proto := by
  rw [tuples_key_bytes e f true true hf, tuples_key_bytes e f false false hf]

/-- The reply-direction key: `copy_reversed_tuples` in the kernel = `bpfTuplesKeyFromAddrPorts(dst, src)`
in the control plane (`udp_endpoint_pool.go`). -/
theorem reversed_key_bytes (e : Endian) (f : Flow) (mapped : Bool) (hf : f.WF) :
    goTuplesKey e (f.goDst mapped) (f.goSrc mapped) f.proto = cReverseKey (cTuplesKey e f) := by
  have hr : f.reverse.WF := by
    obtain ⟨h1, h2, h3, h4, h5, h6⟩ := hf
    refine ⟨?_, h3, h2, h5, h4, h6⟩
    cases hv : f.v4 <;> simp_all [Flow.reverse]
  have h := tuples_key_bytes e f.reverse mapped mapped hr
  have e1 : f.reverse.goSrc mapped = f.goDst mapped := rfl
  have e2 : f.reverse.goDst mapped = f.goSrc mapped := rfl
  rw [e1, e2] at h
  rw [show f.proto = f.reverse.proto from rfl, h]
  obtain ⟨hlen, _, _, _, _, _⟩ := hf
  have hs : (flowAddr16 f.v4 f.src).length = 16 := by
    apply flowAddr16_length; cases hv : f.v4 <;> simp_all
  have hd : (flowAddr16 f.v4 f.dst).length = 16 := by
    apply flowAddr16_length; cases hv : f.v4 <;> simp_all
  obtain ⟨k1, k2, k3, k4, k5⟩ := key_slices (flowAddr16 f.v4 f.src) (flowAddr16 f.v4 f.dst)
    (beBytes 2 f.sport) (beBytes 2 f.dport) [f.proto] (zeros 3) hs hd (beBytes_length _ _) (beBytes_length _ _) rfl
  unfold cReverseKey
  simp only [cTuplesKey, cIp_eq] at k1 k2 k3 k4 k5 ⊢
  rw [k1, k2, k3, k4, k5]
  simp [Flow.reverse]

example : (⟨true, [10, 0, 0, 1], [8, 8, 8, 8], 40000, 443, 6⟩ : Flow).WF := by decide +kernel
example : (⟨false, [0x20, 1, 0xd, 0xb8, 0, 0, 0, 0, 0, 0, 0, 0, 0, 0, 0, 1],
    [0, 0, 0, 0, 0, 0, 0, 0, 0, 0, 0xff, 0xff, 1, 2, 3, 4], 53, 65535, 17⟩ : Flow).WF := by decide +kernel
example : cTuplesKey .little ⟨true, [10, 0, 0, 1], [8, 8, 8, 8], 40000, 443, 6⟩ =
    [0,0,0,0,0,0,0,0,0,0,255,255,10,0,0,1, 0,0,0,0,0,0,0,0,0,0,255,255,8,8,8,8, 156,64, 1,187, 6, 0,0,0] := by decide +kernel

/-- the five constants of `connectivity.go` exist and have these values now (a vanished constant makes
this — and everything below — fail; nothing is read as 0) -/
theorem conn_consts_now : connConsts? = some ⟨6, 2, 0, 1, 2⟩ := by decide +kernel

/-- **Connectivity slots.** For every outbound id and every packet the kernel consults the map for
(TCP, and UDP to a port other than 53), the slot the kernel reads is the slot under which the
control plane publishes the health of that traffic class (TCP / data UDP, IPv4 / IPv6). -/
theorem connectivity_key_agree (outbound l4proto dport : Nat) (ethIsV4 : Bool) (h53 : dport ≠ 53) :
    cConnKey outbound l4proto dport ethIsV4 = goConnKey? outbound (ntOfPacket l4proto ethIsV4) := by
  unfold goConnKey?
  rw [conn_consts_now]
  unfold cConnKey goConnKeyWith goDomainIdx ntOfPacket NetworkType.effDomain
  by_cases hu : l4proto = 17 <;> cases ethIsV4 <;> simp [h53, hu]

/-- Every slot the control plane can write is inside the map (`max_entries` as the compiler folds it),
for every outbound id and network type. -/
theorem connectivity_key_in_range (outbound : Nat) (t : NetworkType) (ho : outbound < 256) :
    ∃ k m, goConnKey? outbound t = some k ∧ mapMax? n!"outbound_connectivity_map" = some m ∧ k < m := by
  have hm : mapMax? n!"outbound_connectivity_map" = some 1536 := by decide +kernel
  refine ⟨_, 1536, by unfold goConnKey?; rw [conn_consts_now]; rfl, hm, ?_⟩
  have hd := goDomainIdx_le t
  unfold goConnKeyWith
  have : (if t.ip = IpStr.v6 then 1 else 0) ≤ 1 := by split <;> omega
  simp only
  rw [Nat.mod_eq_of_lt (by omega)]
  omega

/-- No two logical entities share a slot: the key determines the outbound id, the health domain and
the IP version. -/
theorem connectivity_key_injective (o o' : Nat) (t t' : NetworkType) (ho : o < 256) (ho' : o' < 256)
    (h : goConnKey? o t = goConnKey? o' t') :
    o = o' ∧ goDomainIdx ⟨6, 2, 0, 1, 2⟩ t = goDomainIdx ⟨6, 2, 0, 1, 2⟩ t' ∧ (t.ip = .v6 ↔ t'.ip = .v6) := by
  unfold goConnKey? at h
  rw [conn_consts_now] at h
  simp only [Option.map_some, Option.some.injEq] at h
  unfold goConnKeyWith at h
  simp only at h
  have b1 := goDomainIdx_le t
  have b2 := goDomainIdx_le t'
  by_cases c1 : t.ip = IpStr.v6 <;> by_cases c2 : t'.ip = IpStr.v6 <;> simp only [c1, c2, if_true, if_false] at h ⊢ <;>
    (rw [Nat.mod_eq_of_lt (by omega), Nat.mod_eq_of_lt (by omega)] at h) <;>
    (refine ⟨by omega, by omega, ?_⟩) <;> simp
  all_goals omega

example : goConnKey? 255 ⟨.udp, .v6, .unset⟩ = some 1535 := by decide +kernel
example : cConnKey 7 17 443 false = some 47 := by decide +kernel

/-- **Listener sockets.** The key under which the control plane stores the listener that was duplicated
from `listener.tcp4Listener` / `.tcp6Listener` / `.packetConn` is the key `assign_listener` looks up for
a packet of that kind — both sides exist (`some`), nothing is defaulted. -/
theorem listen_key_agree (l4proto : Nat) (ethIsV6 : Bool) :
    ∃ k, cListenKey? l4proto ethIsV6 = some k ∧ goListenKey? (listenerOfPacket l4proto ethIsV6) = some k := by
  have z : cC? n!"zero_key" = some 0 ∧ goListenKey? .tcp4 = some 0 := by decide +kernel
  have o : cC? n!"one_key" = some 1 ∧ goListenKey? .udp = some 1 := by decide +kernel
  have t : cC? n!"two_key" = some 2 ∧ goListenKey? .tcp6 = some 2 := by decide +kernel
  unfold cListenKey? listenerOfPacket
  by_cases h : l4proto = 6 <;> cases ethIsV6 <;> simp [h, z, o, t]

theorem listen_keys_distinct :
    goListenKey? .tcp4 ≠ goListenKey? .tcp6 ∧ goListenKey? .tcp4 ≠ goListenKey? .udp ∧ goListenKey? .tcp6 ≠ goListenKey? .udp := by
  decide +kernel

/-- **`Ipv6ByteSliceToUint32Array` is byte preserving** on either byte order: four native loads
followed by the native store of the `[4]uint32` give back the 16 address bytes. -/
theorem ipv6_words_preserve_bytes (e : Endian) (a : List Nat) (hl : a.length = 16) (hb : Bytes a) :
    u32ArrayBytes e (ipv6ToU32 e a) = a := ipv6ToU32_identity e a hl hb

/-- **LPM keys.** `cidrToBpfLpmKey` stores (prefix length counted in the IPv4-mapped space as a native
u32, then the 16 address bytes in network order) — the layout of `struct lpm_key` — on either byte
order … -/
theorem lpm_key_bytes (e : Endian) (p : GoPrefix) (hl : p.addr.as16.length = 16) (hb : Bytes p.addr.as16) :
    goLpmKey e p = nativeBytes e 4 ((if p.addr.is4 then p.bits + 96 else p.bits) % 2 ^ 32) ++ p.addr.as16 := by
  unfold goLpmKey
  rw [ipv6ToU32_identity e _ hl hb]

/-- … so the host key of an address (`/32` for IPv4, `/128` for IPv6) is byte-identical to the probe
`route()` builds for the same address of a flow. -/
theorem lpm_host_key_bytes (e : Endian) (f : Flow) (hf : f.WF) :
    goLpmKey e ⟨(f.goDst false).addr, if f.v4 then 32 else 128⟩ = cLpmProbe e (flowAddr16 f.v4 f.dst) := by
  obtain ⟨hlen, _, hbd, _, _, _⟩ := hf
  have h16 : (flowAddr16 f.v4 f.dst).length = 16 := by
    apply flowAddr16_length; cases hv : f.v4 <;> simp_all
  have hb16 : Bytes (flowAddr16 f.v4 f.dst) := by
    unfold flowAddr16; split
    · exact bytes_append v4Prefix_bytes hbd
    · exact hbd
  have has : (f.goDst false).addr.as16 = flowAddr16 f.v4 f.dst := by
    unfold Flow.goDst flowAddr16 GoAddr.as16
    cases hv : f.v4 <;> simp
  rw [lpm_key_bytes e _ (by rw [has]; exact h16) (by rw [has]; exact hb16), has]
  unfold cLpmProbe Flow.goDst
  cases hv : f.v4 <;> simp

/-- **Domain-routing keys.** The key the control plane computes for an address learnt from DNS
(`Ipv6ByteSliceToUint32Array(ip.As16())`, marshalled natively) is byte-identical to the key the
kernel looks up for a packet to that address (`memcpy` of the 16-byte destination), in both Go forms
of an IPv4 address and on either byte order. -/
theorem domain_routing_key_bytes (e : Endian) (f : Flow) (mapped : Bool) (hf : f.WF) :
    goDomainKey e (f.goDst mapped).addr = cDomainKey (flowAddr16 f.v4 f.dst) := by
  obtain ⟨hlen, _, hbd, _, _, _⟩ := hf
  have h16 : (flowAddr16 f.v4 f.dst).length = 16 := by
    apply flowAddr16_length; cases hv : f.v4 <;> simp_all
  have hb16 : Bytes (flowAddr16 f.v4 f.dst) := by
    unfold flowAddr16; split
    · exact bytes_append v4Prefix_bytes hbd
    · exact hbd
  have has : (f.goDst mapped).addr.as16 = flowAddr16 f.v4 f.dst := by
    unfold Flow.goDst flowAddr16 GoAddr.as16
    cases hv : f.v4 <;> cases mapped <;> simp
  unfold goDomainKey cDomainKey
  rw [has, ipv6ToU32_identity e _ h16 hb16]

/-- **Port 53 at the Go read site.** On either byte order, the value the janitor (and the kernel) load from
`key.Sport`/`key.Dport` equals `dnsPortNetworkOrder = Htons(53)` exactly for port 53 — so "DNS entry"
means the same flows on both sides. (With a host-order 53 it would mean port 13568 on little-endian.) -/
theorem dns_port_read_site (e : Endian) (p : Nat) (hp : p < 65536) :
    keyPortLoad e p = goDnsPortConst e ↔ p = 53 := by
  unfold keyPortLoad goDnsPortConst htons
  constructor
  · intro h
    have hb := nativeVal_inj e (beBytes 2 p) (beBytes 2 53) (by simp [beBytes_length]) (beBytes_bytes 2 p) (beBytes_bytes 2 53) h
    have := congrArg beVal hb
    rw [beVal_beBytes 2 p (by simpa using hp), beVal_beBytes 2 53 (by decide)] at this
    exact this
  · rintro rfl; rfl

example : keyPortLoad .little 13568 = 53 ∧ goDnsPortConst .little = 13568 := by decide +kernel

/-! ## D. Byte order of the `match_set` value union -/

/-- The full statement one would like: what the control plane writes into `match_set.value` for an LPM
index is what the kernel reads as `match_set->index`, on either byte order.  It is FALSE (next
theorem): the control plane writes with `binary.LittleEndian`, the kernel reads natively. -/
def value_encoding_any_endian_full : Prop :=
  ∀ (e : Endian) (idx : Nat), idx < 2 ^ 32 → cReadIndex e (goSetIndexValue idx) = idx

/-- Proved part: on little-endian machines (amd64, arm64, riscv64, loong64, 386, arm, mipsle,
mips64le, ppc64le) the index and the port range are read back as written. Missing: big-endian
GOARCHes of the release matrix (mips, mips64, ppc64, s390x) — see `value_encoding_big_endian_differs`. -/
theorem value_encoding_little_endian_partial (idx start stop : Nat) (hi : idx < 2 ^ 32)
    (hs : start < 2 ^ 16) (ht : stop < 2 ^ 16) :
    cReadIndex .little (goSetIndexValue idx) = idx
    ∧ cReadPortRange .little (goPortRangeValue start stop) = (start, stop) := by
  have l4 : (leBytes 4 idx).length = 4 := leBytes_length 4 idx
  have l2 : (leBytes 2 start).length = 2 := leBytes_length 2 start
  have l2' : (leBytes 2 stop).length = 2 := leBytes_length 2 stop
  constructor
  · unfold cReadIndex goSetIndexValue nativeVal
    rw [List.take_left' l4]
    exact leVal_leBytes 4 idx (by simpa using hi)
  · unfold cReadPortRange goPortRangeValue nativeVal
    have a : (leBytes 2 start ++ leBytes 2 stop ++ zeros 12).take 2 = leBytes 2 start := by
      rw [List.append_assoc]; exact List.take_left' l2
    have b : ((leBytes 2 start ++ leBytes 2 stop ++ zeros 12).drop 2).take 2 = leBytes 2 stop := by
      rw [List.append_assoc, List.drop_left' l2]; exact List.take_left' l2'
    rw [a, b, leVal_leBytes 2 start (by simpa using hs), leVal_leBytes 2 stop (by simpa using ht)]

theorem value_encoding_big_endian_differs : ¬ value_encoding_any_endian_full := by
  intro h
  have := h .big 1 (by decide)
  revert this
  decide

/-- The other views of the value union. `l4proto()` / `ipversion()` rules: Go writes ONE byte
(`[16]byte{byte(v)}`), the kernel reads a 4-byte enum natively and truncates it — read back on
little-endian machines (partial, same gap as above) … -/
theorem enum_mask_little_endian_partial (v : Nat) (hv : v < 256) :
    cReadEnumMask .little (goByteValue v) = v := by
  unfold cReadEnumMask goByteValue nativeVal
  have : ([v % 256] ++ zeros 15).take 4 = [v % 256, 0, 0, 0] := by simp [zeros]
  rw [this]
  simp [leVal]
  omega

/-- … and read as 0 on big-endian machines, whatever was written (the byte lands in the most
significant position and is cut off by the truncation to `__u8`): `l4proto(tcp)` never matches there. -/
theorem enum_mask_big_endian_differs (v : Nat) : cReadEnumMask .big (goByteValue v) = 0 := by
  unfold cReadEnumMask goByteValue nativeVal beVal
  have : ([v % 256] ++ zeros 15).take 4 = [v % 256, 0, 0, 0] := by simp [zeros]
  rw [this]
  simp [leVal]

/-- `dscp()` rules (one byte at offset 0) are read back on either byte order. -/
theorem dscp_view_any_endian (v : Nat) (hv : v < 256) : cReadDscp (goByteValue v) = v := by
  simp [cReadDscp, goByteValue, Nat.mod_eq_of_lt hv]

/-- `pname()` rules: `equal16` on native 8-byte loads is byte equality of the two 16-byte names on
either byte order. -/
theorem pname_view_any_endian (e : Endian) (v p : List Nat) (hv : v.length = 16) (hp : p.length = 16)
    (bv : Bytes v) (bp : Bytes p) : cPnameEqual e v p = true ↔ v = p := by
  unfold cPnameEqual
  simp only [Bool.and_eq_true, beq_iff_eq]
  constructor
  · rintro ⟨h1, h2⟩
    have a := nativeVal_inj e (v.take 8) (p.take 8) (by simp [hv, hp]) (bytes_take 8 bv) (bytes_take 8 bp) h1
    have b := nativeVal_inj e ((v.drop 8).take 8) ((p.drop 8).take 8) (by simp [hv, hp])
      (bytes_take 8 (bytes_drop 8 bv)) (bytes_take 8 (bytes_drop 8 bp)) h2
    have hv8 : (v.drop 8).take 8 = v.drop 8 := List.take_of_length_le (by simp [hv])
    have hp8 : (p.drop 8).take 8 = p.drop 8 := List.take_of_length_le (by simp [hp])
    rw [hv8, hp8] at b
    rw [← List.take_append_drop 8 v, ← List.take_append_drop 8 p, a, b]
  · rintro rfl; exact ⟨rfl, rfl⟩

/-- `rewriteKernRulesWithRingLpmIndex` keeps the encoding: the rewritten value reads back (little
endian) as `(start + old) % MaxMatchSetLen`. -/
theorem ring_index_little_endian_partial (maxSets old start count : Nat) (v : List Nat) (hm : 0 < maxSets)
    (hm2 : maxSets ≤ 2 ^ 32) (h : goRingIndexValue maxSets old start count = some v) :
    cReadIndex .little v = ((start + old) % 2 ^ 32) % maxSets ∧ old < count := by
  unfold goRingIndexValue at h
  split at h
  · simp at h
  · rename_i hc
    simp only [Option.some.injEq] at h
    subst h
    refine ⟨(value_encoding_little_endian_partial _ 0 0 ?_ (by decide) (by decide)).1, by omega⟩
    exact Nat.lt_of_lt_of_le (Nat.mod_lt _ hm) hm2

/-! ## E. MAC prefix keys -/

/-- **MAC keys.** For every MAC address and either byte order, the address whose /128 prefix
`addSourceMac` stores (`copy(addr16[10:], mac)`) is byte-identical to the `mac_be` array the kernel
callers of `route()` build with `bpf_htonl`, hence the stored LPM host key equals the kernel's probe.
(The three C packers are executed natively by the check: op `cmacsite`.) -/
theorem mac_key_bytes (e : Endian) (m0 m1 m2 m3 m4 m5 : Nat) (h0 : m0 < 256) (h1 : m1 < 256) (h2 : m2 < 256)
    (h3 : m3 < 256) (h4 : m4 < 256) (h5 : m5 < 256) :
    cMacPack e m0 m1 m2 m3 m4 m5 = goMacAddr16 [m0, m1, m2, m3, m4, m5]
    ∧ goLpmKey e ⟨⟨false, goMacAddr16 [m0, m1, m2, m3, m4, m5]⟩, 128⟩ = cLpmProbe e (cMacPack e m0 m1 m2 m3 m4 m5) := by
  have hp : cMacPack e m0 m1 m2 m3 m4 m5 = goMacAddr16 [m0, m1, m2, m3, m4, m5] := by
    unfold cMacPack goMacAddr16
    rw [store_htonl, store_htonl]
    have a : beBytes 4 (m0 * 256 + m1) = [0, 0, m0, m1] := by
      simp [beBytes, leBytes]; omega
    have b : beBytes 4 (m2 * 2 ^ 24 + m3 * 2 ^ 16 + m4 * 256 + m5) = [m2, m3, m4, m5] := by
      simp [beBytes, leBytes]; omega
    rw [a, b]; simp [zeros]
  refine ⟨hp, ?_⟩
  rw [hp]
  have hb : Bytes (goMacAddr16 [m0, m1, m2, m3, m4, m5]) := by
    intro x hx
    simp [goMacAddr16, zeros] at hx
    rcases hx with h | h | h | h | h | h | h <;> omega
  rw [lpm_key_bytes e _ (by simp [GoAddr.as16, goMacAddr16, zeros]) (by simpa [GoAddr.as16] using hb)]
  simp [cLpmProbe, GoAddr.as16]

/-! ## F. Where shared keys are built (construction sites, helper constructors) -/

/-- **Closure over construction sites.** Every place where package control constructs or modifies a value of
a type it hands to the kernel (as a map key, or as a value it writes — derived from the map-I/O table) is
either named in `buildSiteClass` with the harness stream that executes that function against the
kernel-side constructor, or is the body of a helper constructor whose shape the generated harness executes
on its own (and accepts only if it is one of the kernel's derivations on every input).  A new site of
any other kind refutes this theorem — the check then fails closed. -/
theorem every_build_site_classified : ∀ s ∈ Gen.goBuildSites, buildSiteOk s = true := by decide +kernel

example : (Gen.goBuildSites.filter (fun s => kernelBound s.typ)).length ≥ 15 := by decide +kernel
-- a helper like the one of seed C19-g, were it not auto-executable, would be refuted:
example : buildSiteOk ⟨n!"control.UdpEndpoint.TrackUdpConnStateTuplePair", n!"stub.bpfTuplesKey", n!"zero",
    [n!"Sip.U6Addr8", n!"Dip.U6Addr8", n!"Sport", n!"Dport"], false, false, ""⟩ = false := by decide +kernel
example : unsetFields ⟨n!"control.x", n!"stub.bpfTuplesKey", n!"zero",
    [n!"Sip.U6Addr8", n!"Dip.U6Addr8", n!"Sport", n!"Dport"], false, true, ""⟩ = [n!"L4proto"] := by decide +kernel

/-- No stale classification: every entry of `buildSiteClass` names a construction site that exists in the
sources now (a renamed or removed function must be re-classified, it cannot silently keep its entry). -/
theorem classified_sites_exist :
    ∀ c ∈ buildSiteClass, Gen.goBuildSites.any (fun s => nameEq s.fn c.1 && nameEq (baseTypeName s.typ) c.2.1) = true := by
  decide +kernel

/-- The helper constructors the check knows by name exist with an auto-executed shape (so their meaning in
`ctorMeaning` is enforced on every run by the generated harness). -/
theorem named_constructors_are_executed :
    ∀ m ∈ ctorMeaning, Gen.goCtorSigs.any (fun c => nameEq c.fn m.1 && (autoShape? c).isSome) = true := by
  decide +kernel

/-- `get_tuples` of the reply direction is `copy_reversed_tuples` of the key. -/
theorem reply_direction_key (e : Endian) (f : Flow) (hf : f.WF) :
    cTuplesKey e f.reverse = cReverseKey (cTuplesKey e f) := by
  have hr : f.reverse.WF := by
    obtain ⟨h1, h2, h3, h4, h5, h6⟩ := hf
    refine ⟨?_, h3, h2, h5, h4, h6⟩
    cases hv : f.v4 <;> simp_all [Flow.reverse]
  rw [← reversed_key_bytes e f false hf]
  exact (tuples_key_bytes e f.reverse false false hr).symm

/-- **Helper constructors, `(src, dst, proto) → key`.** The two derivations the generated harness offers such
a helper are, for every flow, byte order and Go form of the peers, exactly the kernel's two keys for
that packet: `get_tuples` and `copy_reversed_tuples` of it. -/
theorem ap_candidates_are_kernel_keys (e : Endian) (f : Flow) (m1 m2 : Bool) (hf : f.WF) :
    apCandidates e (f.goSrc m1) (f.goDst m2) f.proto
      = [(n!"fwd", cTuplesKey e f), (n!"rev", cReverseKey (cTuplesKey e f))] := by
  have hr : f.reverse.WF := by
    obtain ⟨h1, h2, h3, h4, h5, h6⟩ := hf
    refine ⟨?_, h3, h2, h5, h4, h6⟩
    cases hv : f.v4 <;> simp_all [Flow.reverse]
  have h2 := tuples_key_bytes e f.reverse m2 m1 hr
  have e1 : f.reverse.goSrc m2 = f.goDst m2 := rfl
  have e2 : f.reverse.goDst m1 = f.goSrc m1 := rfl
  rw [e1, e2, reply_direction_key e f hf] at h2
  unfold apCandidates
  rw [tuples_key_bytes e f m1 m2 hf, show f.proto = f.reverse.proto from rfl, h2]

/-- **Helper constructors, `key → key`.** `copy_reversed_tuples` is an involution on well-formed keys (40
bytes, padding clear) and keeps `l4proto`: a helper that loses a member cannot be either derivation. -/
theorem reversed_key_involutive (e : Endian) (f : Flow) (hf : f.WF) :
    cReverseKey (cReverseKey (cTuplesKey e f)) = cTuplesKey e f
    ∧ ((cReverseKey (cTuplesKey e f)).drop 36).take 1 = [f.proto] := by
  have hr : f.reverse.WF := by
    obtain ⟨h1, h2, h3, h4, h5, h6⟩ := hf
    refine ⟨?_, h3, h2, h5, h4, h6⟩
    cases hv : f.v4 <;> simp_all [Flow.reverse]
  have hrr : f.reverse.reverse = f := by cases f; rfl
  constructor
  · rw [← reply_direction_key e f hf, ← reply_direction_key e f.reverse hr, hrr]
  · rw [← reply_direction_key e f hf]
    obtain ⟨hlen, _, _, _, _, _⟩ := hr
    have hs : (flowAddr16 f.reverse.v4 f.reverse.src).length = 16 := by
      apply flowAddr16_length; cases hv : f.reverse.v4 <;> simp_all
    have hd : (flowAddr16 f.reverse.v4 f.reverse.dst).length = 16 := by
      apply flowAddr16_length; cases hv : f.reverse.v4 <;> simp_all
    obtain ⟨_, _, _, _, k5⟩ := key_slices (flowAddr16 f.reverse.v4 f.reverse.src) (flowAddr16 f.reverse.v4 f.reverse.dst)
      (beBytes 2 f.reverse.sport) (beBytes 2 f.reverse.dport) [f.reverse.proto] (zeros 3) hs hd (beBytes_length _ _) (beBytes_length _ _) rfl
    simp only [cTuplesKey, cIp_eq] at k5 ⊢
    rw [k5]; rfl

example : (kkCandidates (cTuplesKey .little ⟨true, [10, 0, 0, 1], [8, 8, 8, 8], 40000, 443, 17⟩)).map (·.2) =
    [[0,0,0,0,0,0,0,0,0,0,255,255,10,0,0,1, 0,0,0,0,0,0,0,0,0,0,255,255,8,8,8,8, 156,64, 1,187, 17, 0,0,0],
     [0,0,0,0,0,0,0,0,0,0,255,255,8,8,8,8, 0,0,0,0,0,0,0,0,0,0,255,255,10,0,0,1, 1,187, 156,64, 17, 0,0,0]] := by decide +kernel

/-! ## G. Life of a `conn_state_map` key -/

/-- **The keys an endpoint tracks are the kernel's keys.** For every UDP flow, byte order and Go form of the
two peers, `TrackUdpConnStateTuplePair(src, dst)` computes exactly the key `get_tuples` builds for a packet
of the flow and the key `copy_reversed_tuples` derives from it — all 40 bytes, `l4proto` = 17 included. -/
theorem track_keys_are_kernel_keys (e : Endian) (f : Flow) (m1 m2 : Bool) (hf : f.WF) (hu : f.proto = 17) :
    trackKeys e (f.goSrc m1) (f.goDst m2) = (cTuplesKey e f, cReverseKey (cTuplesKey e f)) := by
  have h := ap_candidates_are_kernel_keys e f m1 m2 hf
  unfold apCandidates at h
  rw [hu] at h
  unfold trackKeys
  have h1 := (List.cons.inj h).1
  have h2 := (List.cons.inj (List.cons.inj h).2).1
  rw [(Prod.mk.inj h1).2, (Prod.mk.inj h2).2]

/-- **Only a release deletes, and only what the endpoint holds.** In any state, if a step removes a key from
`conn_state_map` then it is the teardown of an open endpoint that tracked exactly that key: entries of other
logical entities (another protocol number, another port, …) are never touched. -/
theorem kernel_loses_only_held_keys (w : UWorld) (op : UOp) (k : Key) (hk : k ∈ w.kernel)
    (hgone : k ∉ (ustep w op).kernel) :
    ∃ i ep, op = .release i ∧ w.eps[i]? = some ep ∧ ep.closed = false ∧ k ∈ ep.keys := by
  cases op with
  | seen k' =>
    exfalso; apply hgone
    simp only [ustep, insertKey]
    split
    · exact hk
    · exact List.mem_append_left _ hk
  | track i e src dst =>
    exfalso; apply hgone
    simp only [ustep]
    cases hi : w.eps[i]? with
    | none => simpa using hk
    | some ep => by_cases hc : ep.closed = true <;> simp [hc, hk]
  | adopt i g =>
    exfalso; apply hgone
    simp only [ustep]
    cases hi : w.eps[i]? with
    | none => simpa using hk
    | some ep =>
      by_cases hc : ep.closed = true
      · simp [hc, hk]
      · by_cases hs : (w.trk g == w.trk ep.owner) = true <;> simp [hc, hs, hk]
  | release i =>
    cases hi : w.eps[i]? with
    | none => exfalso; apply hgone; simpa [ustep, hi] using hk
    | some ep =>
      by_cases hc : ep.closed = true
      · exfalso; apply hgone; simpa [ustep, hi, hc] using hk
      · have hc' : ep.closed = false := by simpa using hc
        refine ⟨i, ep, rfl, hi, hc', ?_⟩
        apply Classical.byContradiction
        intro hn
        apply hgone
        have := kernel_releaseAll_keeps (w.trackers.getD (w.trk ep.owner) []) w.kernel ep.keys k hk hn
        simp only [ustep, hi, hc', Bool.false_eq_true, ↓reduceIte]
        split
        · exact hk
        · exact this
  | freeze => exact absurd hk hgone

/-- **No entry outlives its endpoints (all histories).** Start from any number of endpoints and any
assignment of generations to trackers; run ANY sequence of kernel insertions, `TrackUdpConnStateTuplePair`,
`adoptGeneration` (reloads, with shared or separate trackers) and teardowns, in which no deletion fault is
injected and the kernel re-creates an entry of a tracked flow only while an open endpoint still holds it (`TimelyRun`).  Then every entry of
`conn_state_map` under a key the control plane has ever tracked is still held by an open endpoint. -/
theorem conn_state_entries_never_outlive_their_endpoints (n : Nat) (trackerOf : List Nat) (ops : List UOp)
    (ht : TimelyRun (UWorld.init n trackerOf) ops) :
    let w := urun (UWorld.init n trackerOf) ops
    ∀ k ∈ w.kernel, k ∈ w.ever → ∃ ep ∈ w.eps, ep.closed = false ∧ k ∈ ep.keys := by
  intro w k hk hev
  obtain ⟨ep, hm, hh⟩ := (inv_run _ (inv_init n trackerOf) ops ht).noOrphan k hk hev
  refine ⟨ep, hm, ?_⟩
  simp only [Endpoint.holds, Bool.and_eq_true] at hh
  exact ⟨by simpa using hh.1, by simpa using hh.2⟩

/-- … in particular, once every endpoint is torn down, no tracked flow has an entry left, in either direction. -/
theorem all_released_nothing_left (n : Nat) (trackerOf : List Nat) (ops : List UOp)
    (ht : TimelyRun (UWorld.init n trackerOf) ops)
    (hall : ∀ ep ∈ (urun (UWorld.init n trackerOf) ops).eps, ep.closed = true) :
    ∀ k ∈ (urun (UWorld.init n trackerOf) ops).ever, k ∉ (urun (UWorld.init n trackerOf) ops).kernel := by
  intro k hev hk
  obtain ⟨ep, hm, hc, _⟩ := conn_state_entries_never_outlive_their_endpoints n trackerOf ops ht k hk hev
  rw [hall ep hm] at hc
  exact Bool.noConfusion hc

/-- … and the reference counts the trackers keep are exact in every reachable state (this is what makes a
shared key survive the teardown of one of its two endpoints and go with the last). -/
theorem tracker_counts_are_exact (n : Nat) (trackerOf : List Nat) (ops : List UOp)
    (ht : TimelyRun (UWorld.init n trackerOf) ops) :
    let w := urun (UWorld.init n trackerOf) ops
    ∀ t k, t < w.trackers.length → (w.trackers.getD t []).count k = holdersOf w.eps w.trackerOf t k :=
  (inv_run _ (inv_init n trackerOf) ops ht).counts

-- non-vacuity: a two-endpoint history with a shared key, a reload onto a separate tracker and both teardowns
example :
    let a : GoAddrPort := ⟨⟨true, [10, 0, 0, 1]⟩, 40000⟩
    let b : GoAddrPort := ⟨⟨false, v4Prefix ++ [8, 8, 8, 8]⟩, 443⟩
    let ks := trackKeys .little a b
    let ops := [UOp.seen ks.1, .seen ks.2, .track 0 .little a b, .track 1 .little a b, .adopt 1 2, .release 0]
    let w := urun (UWorld.init 2 [0, 0, 1]) ops
    TimelyRun (UWorld.init 2 [0, 0, 1]) ops ∧ w.kernel = [] ∧ (urun w [.release 1]).kernel = [] := by
  decide +kernel

example :
    let a : GoAddrPort := ⟨⟨true, [10, 0, 0, 1]⟩, 40000⟩
    let b : GoAddrPort := ⟨⟨false, v4Prefix ++ [8, 8, 8, 8]⟩, 443⟩
    let ks := trackKeys .little a b
    let ops := [UOp.seen ks.1, .seen ks.2, .track 0 .little a b, .track 1 .little a b, .release 0]
    let w := urun (UWorld.init 2 [0, 0, 1]) ops
    w.kernel = [ks.1, ks.2] ∧ (urun w [.release 1]).kernel = [] := by
  decide +kernel

/-- The hypothesis "no deletion fault" of the two theorems above is needed: with a map that rejects deletions the
teardown returns an error, the tracker forgets the keys all the same, and the entries stay until the
kernel's own 120 s backstop (behaviour of the code as it is; executed by the harness, op `ufreeze`). -/
theorem failed_delete_leaves_entries :
    let a : GoAddrPort := ⟨⟨true, [10, 0, 0, 1]⟩, 40000⟩
    let b : GoAddrPort := ⟨⟨true, [8, 8, 8, 8]⟩, 443⟩
    let ks := trackKeys .little a b
    let w := urun (UWorld.init 1 [0]) [UOp.seen ks.1, .seen ks.2, .track 0 .little a b, .freeze, .release 0]
    w.kernel = [ks.1, ks.2] ∧ w.trackers = [[]] := by decide +kernel

/-! ## H. `match_set` images -/

theorem match_set_model_follows_layout : matchSetModelFollowsLayout = true := by decide +kernel

/-- **All 24 bytes of a rule.** For either byte order and all member values, the kernel reads back from the
image the control plane stores: the 16 value bytes, `not`, `type`, `outbound`, `must` and `mark`. -/
theorem match_set_image_reads_back (e : Endian) (value : List Nat) (not_ must : Bool) (type outbound mark : Nat)
    (hv : value.length = 16) (ht : type < 256) (ho : outbound < 256) (hm : mark < 2 ^ 32) :
    let img := goMatchSetImage e value not_ type outbound must mark
    img.length = 24 ∧ img.take 16 = value
    ∧ cMatchSetScalars e img = [if not_ then 1 else 0, type, outbound, if must then 1 else 0, mark] := by
  intro img
  have h4 : (nativeBytes e 4 mark).length = 4 := nativeBytes_length e 4 mark
  have himg : img = value ++ ([if not_ then 1 else 0, type % 256, outbound % 256, if must then 1 else 0] ++ nativeBytes e 4 mark) := by
    simp [img, goMatchSetImage]
  refine ⟨by simp [himg, hv, h4], by rw [himg]; exact List.take_left' hv, ?_⟩
  unfold cMatchSetScalars
  have g : ∀ j, j < 4 → img.getD (16 + j) 0 = ([if not_ then 1 else 0, type % 256, outbound % 256, if must then 1 else 0] ++ nativeBytes e 4 mark).getD j 0 := by
    intro j _
    rw [himg, List.getD_eq_getElem?_getD, List.getD_eq_getElem?_getD, ← hv, List.getElem?_append_right (by omega)]
    simp
  have d : (img.drop 20).take 4 = nativeBytes e 4 mark := by
    have : img = (value ++ [if not_ then 1 else 0, type % 256, outbound % 256, if must then 1 else 0]) ++ nativeBytes e 4 mark := by
      simp [himg]
    rw [this, List.drop_left' (by simp [hv])]
    exact List.take_of_length_le (by omega)
  rw [d, nativeVal_nativeBytes e 4 mark (by simpa using hm)]
  have g0 := g 0 (by omega); have g1 := g 1 (by omega); have g2 := g 2 (by omega); have g3 := g 3 (by omega)
  simp only [Nat.add_zero] at g0
  rw [g0, g1, g2, g3]
  simp [Nat.mod_eq_of_lt ht, Nat.mod_eq_of_lt ho]

example : goMatchSetImage .little (goSetIndexValue 3) true 2 200 false 0x11223344 =
    [3,0,0,0, 0,0,0,0, 0,0,0,0, 0,0,0,0, 1, 2, 200, 0, 0x44, 0x33, 0x22, 0x11] := by decide +kernel

end DaeVerif.C19.Props
