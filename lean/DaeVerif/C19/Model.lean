import DaeVerif.C19.Types
import DaeVerif.C19.Gen.CLayout
import DaeVerif.C19.Gen.CConsts
import DaeVerif.C19.Gen.GoLayout
import DaeVerif.C19.Gen.GoConsts
/-!
# C19 — kernel and control plane agree on every shared structure, constant and map key

Core-only executable model.  Three parts:

* **Regenerated data** (`Gen/*.lean`, written on every check run by `translators/c19_c` from
  `control/kern/tproxy.c` with clang for the BPF target, and by `translators/c19_go` from
  `control/*.go`, `common/consts/*.go` with go/types): record layouts, map definitions, constants.
* **Hand-written pairing** (this file): which Go type mirrors which C record and which Go field
  mirrors which C member; which constants are the same quantity; which maps are shared.
* **Byte-level key constructors** (this file): what `bpfTuplesKeyFromAddrPorts`,
  `outboundConnectivityMapKey`, `cidrToBpfLpmKey`, `Ipv6ByteSliceToUint32Array` put into memory, and
  what `get_tuples`, `copy_reversed_tuples`, `wan_outbound_is_alive`, `route`, `assign_listener`
  compute for the same logical entity — parametric in the byte order of the machine.
-/
namespace DaeVerif.C19

/-! ## 1. Table lookups and the layout comparison -/

def findRec (n : Name) : List Rec → Option Rec
  | [] => none
  | r :: rs => if nameEq r.name n then some r else findRec n rs

def findLeaf (p : Name) : List Leaf → Option Leaf
  | [] => none
  | l :: ls => if nameEq l.path p then some l else findLeaf p ls

def lookupConst (n : Name) : List (Name × Int) → Option Int
  | [] => none
  | (k, v) :: rest => if nameEq k n then some v else lookupConst n rest

def findMap (n : Name) : List CMap → Option CMap
  | [] => none
  | m :: ms => if nameEq m.name n then some m else findMap n ms

/-- Go memory layouts for one GOARCH (`"packed"` = encoding/binary layout). -/
def goRecsFor (arch : Name) : List Rec :=
  if nameEq arch n!"packed" then Gen.goPacked
  else match Gen.goLayouts.find? (fun c => nameMem arch c.1) with
    | some c => c.2
    | none => []

/-- Which Go scalar class may mirror which C scalar class: unsigned↔unsigned, signed↔signed,
bool↔bool, and a C enum is mirrored by an unsigned integer. -/
def clsCompat : (go c : Cls) → Bool
  | .uint, .uint => true
  | .sint, .sint => true
  | .bool, .bool => true
  | .uint, .enum => true
  | _, _ => false

/-- Offset, element width, element count and signedness class agree. -/
def leafAgree (g c : Leaf) : Bool :=
  g.off == c.off && g.esize == c.esize && g.count == c.count && clsCompat g.cls c.cls

def Leaf.bytes (l : Leaf) : Nat := l.esize * l.count

/-- byte `b` (offset in the record) lies inside leaf `l`. -/
def Leaf.covers (l : Leaf) (b : Nat) : Bool := l.off ≤ b && b < l.off + l.bytes

/-- the furthest end among the leaves of `ls` that contain byte `pos` (`pos` itself if none does) -/
def coverUpTo (ls : List Leaf) (pos : Nat) : Nat :=
  ls.foldl (fun acc l => if l.covers pos && acc < l.off + l.bytes then l.off + l.bytes else acc) pos

/-- every byte of `[pos, stop)` lies inside some leaf of `ls` (walks leaf by leaf; `fuel` bounds the
number of steps, `ls.length + 1` always suffices) -/
def coveredRange (ls : List Leaf) : (fuel pos stop : Nat) → Bool
  | 0, pos, stop => stop ≤ pos
  | fuel + 1, pos, stop =>
    if stop ≤ pos then true
    else if coverUpTo ls pos ≤ pos then false
    else coveredRange ls fuel (coverUpTo ls pos) stop

/-- One hand-written correspondence between a C record and a Go struct type. -/
structure Pairing where
  /-- C record name (`struct`/`union` tag). -/
  c : Name
  /-- Go type as named by the translator: `stub.<T>` (bpf_stub.go), `real.<T>` (bpf_utils.go),
  `real.PARAM` (the anonymous load-time literal). -/
  go : Name
  /-- (Go leaf path, C leaf path) -/
  fields : List (Name × Name)
  /-- C leaves that are not mirrored one-to-one: other views of a union whose bytes are mirrored by
  paired leaves, and explicit C padding members mirrored by a Go `_` field. Every byte of such a
  leaf must be covered by a paired C leaf or by a blank Go leaf. -/
  cAlt : List Name
  /-- hand-written production code hands values of this type to cilium/ebpf (`PARAM` through
  `VariableSpec.Set`, `_bpfLpmKey` through `newLpmMap`): the encoding/binary layout MUST agree with C
  whether or not the memory layout happens to. For every other type the packed obligation is derived
  (`wireExact`). -/
  marshalled : Bool := false
  /-- a hand-written type of the REAL build (`bpf_utils.go`), required to agree on every GOARCH -/
  real : Bool := false
deriving Repr

def clsName : Cls → String
  | .uint => "uint" | .sint => "sint" | .bool => "bool" | .enum => "enum" | .recd => "rec"

/-- Explanation of a failed comparison (empty list = agreement). Used by the driver to print a
concrete disagreement; the theorems are about `pairOk`. -/
def pairProblems (cs gs : List Rec) (p : Pairing) : List String :=
  match findRec p.c cs, findRec p.go gs with
  | none, _ => [s!"C record {nameStr p.c} not found"]
  | _, none => [s!"Go type {nameStr p.go} not found"]
  | some c, some g =>
    (if c.size == g.size then [] else [s!"size: C {nameStr p.c}={c.size} Go {nameStr p.go}={g.size}"])
    ++ p.fields.flatMap (fun (gp, cp) =>
        match findLeaf gp g.leaves, findLeaf cp c.leaves with
        | some gl, some cl =>
          if gl.blank then [s!"Go field {nameStr gp} is blank"]
          else if leafAgree gl cl then []
          else [s!"field {nameStr gp}~{nameStr cp}: Go off={gl.off} esize={gl.esize} count={gl.count} cls={clsName gl.cls} | C off={cl.off} esize={cl.esize} count={cl.count} cls={clsName cl.cls}"]
        | none, _ => [s!"Go field {nameStr p.go}.{nameStr gp} not found"]
        | _, none => [s!"C member {nameStr p.c}.{nameStr cp} not found"])
    ++ g.leaves.flatMap (fun gl =>
        if gl.blank || p.fields.any (fun f => nameEq f.1 gl.path) then [] else [s!"Go field {nameStr p.go}.{nameStr gl.path} has no C counterpart"])
    ++ c.leaves.flatMap (fun cl =>
        if p.fields.any (fun f => nameEq f.2 cl.path) then []
        else if nameMem cl.path p.cAlt then
          let cover := c.leaves.filter (fun x => p.fields.any (fun f => nameEq f.2 x.path)) ++ g.leaves.filter (·.blank)
          if coveredRange cover (cover.length + 1) cl.off (cl.off + cl.bytes) then []
          else [s!"C member {nameStr p.c}.{nameStr cl.path} (alternate view/padding) is not covered by mirrored fields"]
        else [s!"C member {nameStr p.c}.{nameStr cl.path} has no Go counterpart"])

/-- The layout agreement predicate for one pairing under given C and Go tables:
sizes equal; every paired field agrees in offset/width/count/class and is not blank; every
non-blank Go leaf is paired; every C leaf is paired or is a declared alternate view/padding whose
bytes are all covered by paired C leaves or blank Go leaves. -/
def pairOk (cs gs : List Rec) (p : Pairing) : Bool :=
  match findRec p.c cs, findRec p.go gs with
  | some c, some g =>
    c.size == g.size
    && p.fields.all (fun f =>
        match findLeaf f.1 g.leaves, findLeaf f.2 c.leaves with
        | some gl, some cl => !gl.blank && leafAgree gl cl
        | _, _ => false)
    && g.leaves.all (fun gl => gl.blank || p.fields.any (fun f => nameEq f.1 gl.path))
    && c.leaves.all (fun cl =>
        p.fields.any (fun f => nameEq f.2 cl.path)
        || (nameMem cl.path p.cAlt
            && coveredRange
                (c.leaves.filter (fun x => p.fields.any (fun f => nameEq f.2 x.path)) ++ g.leaves.filter (·.blank))
                (c.leaves.length + g.leaves.length + 1) cl.off (cl.off + cl.bytes)))
  | _, _ => false

/-! ## 2. The pairing (hand-written) -/

def ip6Alt (pfx : Name) : List Name :=
  [nameCat pfx n!".u6_addr16", nameCat pfx n!".u6_addr32", nameCat pfx n!".u6_addr64"]

def routingResultFields : List (Name × Name) :=
  [(n!"Mark", n!"mark"), (n!"Must", n!"must"), (n!"Mac", n!"mac"), (n!"Outbound", n!"outbound"),
   (n!"Pname", n!"pname"), (n!"Pid", n!"pid"), (n!"Dscp", n!"dscp")]

def daeParamFieldsC : List Name :=
  [n!"tproxy_port", n!"control_plane_pid", n!"dae0_ifindex", n!"dae_netns_id", n!"dae0peer_mac",
   n!"padding_after_mac", n!"use_redirect_peer", n!"has_bpf_get_current_task", n!"padding2", n!"dae_socket_mark"]

def pairing : List Pairing := [
  { c := n!"tuples_key", go := n!"stub.bpfTuplesKey",
    fields := [(n!"Sip.U6Addr8", n!"sip.u6_addr8"), (n!"Dip.U6Addr8", n!"dip.u6_addr8"), (n!"Sport", n!"sport"),
               (n!"Dport", n!"dport"), (n!"L4proto", n!"l4proto")],
    cAlt := ip6Alt n!"sip" ++ ip6Alt n!"dip" },
  { c := n!"redirect_tuple", go := n!"stub.bpfRedirectTuple",
    fields := [(n!"Sip.U6Addr8", n!"sip.u6_addr8"), (n!"Dip.U6Addr8", n!"dip.u6_addr8")],
    cAlt := ip6Alt n!"sip" ++ ip6Alt n!"dip" },
  { c := n!"redirect_entry", go := n!"stub.bpfRedirectEntry",
    fields := [(n!"Ifindex", n!"ifindex"), (n!"Smac", n!"smac"), (n!"Dmac", n!"dmac"), (n!"FromWan", n!"from_wan"),
               (n!"Padding", n!"padding"), (n!"LastSeenNs", n!"last_seen_ns")],
    cAlt := [] },
  { c := n!"routing_result", go := n!"stub.bpfRoutingResult",
    fields := routingResultFields, cAlt := [] },
  { c := n!"routing_result", go := n!"real.bpfRoutingResult", real := true,
    fields := routingResultFields, cAlt := [] },
  { c := n!"routing_handoff_entry", go := n!"stub.bpfRoutingHandoffEntry",
    fields := (n!"LastSeenNs", n!"last_seen_ns") :: routingResultFields.map (fun f => (nameCat n!"Result." f.1, nameCat n!"result." f.2)),
    cAlt := [] },
  { c := n!"dae_param", go := n!"stub.bpfDaeParam",
    fields := [(n!"TproxyPort", n!"tproxy_port"), (n!"ControlPlanePid", n!"control_plane_pid"),
               (n!"Dae0Ifindex", n!"dae0_ifindex"), (n!"DaeNetnsId", n!"dae_netns_id"), (n!"Dae0peerMac", n!"dae0peer_mac"),
               (n!"PaddingAfterMac", n!"padding_after_mac"), (n!"UseRedirectPeer", n!"use_redirect_peer"),
               (n!"HasBpfGetCurrentTask", n!"has_bpf_get_current_task"), (n!"Padding2", n!"padding2"),
               (n!"DaeSocketMark", n!"dae_socket_mark")],
    cAlt := [] },
  -- the literal's fields are unexported and marshalled BY POSITION: the i-th Go field mirrors the
  -- i-th member of `struct dae_param`, whatever it is called
  { c := n!"dae_param", go := n!"real.PARAM", real := true, marshalled := true,
    fields := (((findRec n!"real.PARAM" Gen.goPacked).map (fun r => r.leaves.map (·.path))).getD []).zip daeParamFieldsC,
    cAlt := [] },
  { c := n!"lpm_key", go := n!"stub._bpfLpmKey",
    fields := [(n!"PrefixLen", n!"prefixlen"), (n!"Data", n!"data")], cAlt := [] },
  { c := n!"lpm_key", go := n!"real._bpfLpmKey", real := true, marshalled := true,
    fields := [(n!"PrefixLen", n!"prefixlen"), (n!"Data", n!"data")], cAlt := [] },
  { c := n!"port_range", go := n!"stub.bpfPortRange",
    fields := [(n!"PortStart", n!"port_start"), (n!"PortEnd", n!"port_end")], cAlt := [] },
  { c := n!"match_set", go := n!"stub.bpfMatchSet",
    fields := [(n!"Value", n!"__value"), (n!"Not", n!"not"), (n!"Type", n!"type"), (n!"Outbound", n!"outbound"),
               (n!"Must", n!"must"), (n!"Mark", n!"mark")],
    cAlt := [n!"index", n!"port_range.port_start", n!"port_range.port_end", n!"l4proto_type", n!"ip_version",
             n!"pname", n!"dscp"] },
  { c := n!"domain_routing", go := n!"stub.bpfDomainRouting",
    fields := [(n!"Bitmap", n!"bitmap")], cAlt := [] },
  { c := n!"pid_pname", go := n!"stub.bpfPidPname",
    fields := [(n!"LastSeenNs", n!"last_seen_ns"), (n!"Pid", n!"pid"), (n!"Pname", n!"pname")], cAlt := [] },
  { c := n!"conn_state", go := n!"stub.bpfConnState",
    fields := [(n!"IsWanIngressDirection", n!"is_wan_ingress_direction"), (n!"State", n!"state"),
               (n!"LastSeenNs", n!"last_seen_ns"), (n!"Meta.Data.Mark", n!"meta.data.mark"),
               (n!"Meta.Data.Outbound", n!"meta.data.outbound"), (n!"Meta.Data.Must", n!"meta.data.must"),
               (n!"Meta.Data.Dscp", n!"meta.data.dscp"), (n!"Meta.Data.HasRouting", n!"meta.data.has_routing"),
               (n!"Mac", n!"mac"), (n!"Pname", n!"pname"), (n!"Pid", n!"pid")],
    cAlt := [n!"meta.raw", n!"padding"] },
  { c := n!"dae_event", go := n!"stub.bpfDaeEvent",
    fields := [(n!"Timestamp", n!"timestamp"), (n!"Type", n!"type"), (n!"Pid", n!"pid"), (n!"Pname", n!"pname"),
               (n!"Outbound", n!"outbound"), (n!"L4proto", n!"l4proto"), (n!"Pad", n!"pad"), (n!"Sip", n!"sip"),
               (n!"Dip", n!"dip"), (n!"Sport", n!"sport"), (n!"Dport", n!"dport")],
    cAlt := [] }
]

/-- Go data struct types `bpf*` that do not mirror a C record (interface feature flags). A new
`bpf*` plain-data type must be added to `pairing` or here. -/
def goOnlyTypes : List Name := [n!"stub.bpfIfParams", n!"real.bpfIfParams"]

/-- GOARCHes of dae's release matrix with 8-byte aligned `uint64` (the stub types, which stand in for the bpf2go
output, are memory mirrors of the BPF ABI on these). -/
def arches64 : List Name :=
  [n!"amd64", n!"arm64", n!"riscv64", n!"loong64", n!"mips64", n!"mips64le", n!"ppc64", n!"ppc64le", n!"s390x"]

/-- All GOARCHes of the release matrix (`.github/workflows/prerelease.yml` + amd64 + arm). -/
def archesAll : List Name := arches64 ++ [n!"386", n!"arm", n!"mipsle", n!"mips"]

/-- The arches on which a pairing is required to hold: hand-written real-build types everywhere,
stub types on the 64-bit ones. -/
def Pairing.arches (p : Pairing) : List Name := if p.real then archesAll else arches64

def recSizeOf (recs : List Rec) (r : Name) : Option Nat := (findRec r recs).map (·.size)

/-- Model of cilium/ebpf v0.20 `sysenc.Marshal/Unmarshal` for a struct value: the backing memory is
used iff `binary.Size` = `unsafe.Sizeof` (no implicit padding) and there are no unexported fields,
otherwise `encoding/binary` packs the fields; either way the bytes exchanged are the packed layout,
and the call fails unless the packed size equals the map's key/value size.  So a Go type CAN be
exchanged with the kernel iff its packed layout agrees with the C record; for a type without
implicit padding (`wireExact`) that is the memory layout as well. -/
def wireExact (p : Pairing) : Bool :=
  match recSizeOf Gen.goPacked p.go, recSizeOf (goRecsFor n!"amd64") p.go with
  | some a, some b => a == b
  | _, _ => false

/-- Every layout obligation: (pairing, arch), plus `n!"packed"` for every type without implicit
padding and for the hand-written production types that are marshalled. -/
def layoutObligations : List (Pairing × Name) :=
  pairing.flatMap (fun p => (p.arches.map (fun a => (p, a))) ++ (if wireExact p || p.marshalled then [(p, n!"packed")] else []))

/-! ### Maps -/

/-- Maps whose Go handle exists (`bpfMaps`) but whose contents the control plane never reads or
writes: per-CPU scratch space of the kernel program. -/
def handleOnlyMaps : List Name := [n!"pkt_scratch_map"]

def isPairedC (n : Name) : Bool := pairing.any (fun p => nameEq p.c n)

/-- A shared map's record key/value types are mirrored, and the Go-declared handle exists in C. -/
def mapOk (m : CMap) : Bool :=
  !nameMem m.name Gen.goMapTags || nameMem m.name handleOnlyMaps ||
    ((nameEq m.keyRec n!"" || isPairedC m.keyRec) && (nameEq m.valRec n!"" || isPairedC m.valRec))

/-- Go struct types the control plane hands to cilium although they have implicit padding, i.e.
cannot be exchanged as declared (sysenc would fail with a size error). They are the stub build's
stand-ins for bpf2go output, which carries explicit `_ [N]byte` pads at those places; the stub build
never loads a BPF object. Hand-written; `exchanged_types_wire_exact_partial` proves that every
OTHER exchanged type is wire exact and that each of these is really exchanged and really padded. -/
def stubPaddedStandIns : List Name :=
  [n!"stub.bpfRedirectEntry", n!"stub.bpfPidPname", n!"stub.bpfRoutingHandoffEntry", n!"stub.bpfConnState"]

/-- One regenerated map I/O site: the Go type handed over is THE type paired with the C key/value
record of that map (not merely one of the same size); a non-struct argument has the C size and the C
side is not a record; an argument of unknown type is tolerated only where C declares no size
(map-in-map values); constant co-arguments are judged by `constKeyOk`. -/
def mapIOOk (c : MapIO) : Bool :=
  match findMap c.map Gen.cMaps with
  | none => false
  | some m =>
    -- `unused_lpm_type` declares its key by size only (`key_size = sizeof(struct lpm_key)`); that the
    -- size is the record's is part of `keyModelsFollowLayout`
    let cRec := if c.role == 0 then (if nameEq c.map n!"unused_lpm_type" then n!"lpm_key" else m.keyRec) else m.valRec
    let cSize := if c.role == 0 then m.keySize else m.valSize
    if c.size == 0 && nameEq c.typeName n!"" && c.const ≥ 0 then true
    else if !nameEq c.typeName n!"" then
      !nameEq cRec n!"" && pairing.any (fun p => nameEq p.c cRec && nameEq p.go c.typeName)
    else if c.size == 0 then cSize == 0
    else nameEq cRec n!"" && c.size == cSize

def mapIOProblem (c : MapIO) : String :=
  let m := findMap c.map Gen.cMaps
  s!"{nameStr c.map} {if c.role == 0 then "key" else "value"}: Go passes `{c.what}` ({nameStr c.typeName}, {c.size} bytes) at {c.at_}; C declares key `{(m.map (·.keyType)).getD "?"}`/{(m.map (·.keySize)).getD 0} value `{(m.map (·.valType)).getD "?"}`/{(m.map (·.valSize)).getD 0}"

/-- Go struct types that are handed to a map somewhere (regenerated). -/
def exchangedTypes : List Name :=
  (Gen.goMapIO.filter (fun c => !nameEq c.typeName n!"")).map (·.typeName)

def packedOkFor (t : Name) : Bool :=
  pairing.any (fun p => nameEq p.go t && pairOk Gen.cRecs Gen.goPacked p)

/-! ### Constants -/

/-- Model of `cmd/generators/gen_ebpf_sync`: the (name, value) pairs it writes into
`common/consts/ebpf_generated.go` and `control/kern/ebpf_sync_defs.h`, group by group, for ANY
spec. -/
structure GenOut where
  matchTypes : List (Name × Nat)
  outbound : List (Name × Nat)
  l4 : List (Name × Nat)
  ip : List (Name × Nat)
deriving Repr, DecidableEq

/-- ASCII lower/upper case of one byte (spec names are C identifiers) -/
def lowerByte (b : Nat) : Nat := if 65 ≤ b ∧ b ≤ 90 then b + 32 else b
def upperByte (b : Nat) : Nat := if 97 ≤ b ∧ b ≤ 122 then b - 32 else b

/-- split a byte string on `_` (95), dropping empty parts -/
def splitUnderscore : List Nat → List Nat → List (List Nat)
  | [], cur => if cur.isEmpty then [] else [cur.reverse]
  | b :: bs, cur =>
    if b = 95 then (if cur.isEmpty then splitUnderscore bs [] else cur.reverse :: splitUnderscore bs [])
    else splitUnderscore bs (b :: cur)

def upperFirst : List Nat → List Nat
  | [] => []
  | c :: cs => upperByte c :: cs

/-- `toCamel(strings.ToLower(name))`: split on `_`, drop empty parts, capitalise each (ASCII). -/
def toCamelLower (s : Name) : Name :=
  nameOfBytes ((splitUnderscore ((nameBytes s).map lowerByte) []).map upperFirst).flatten

def goOutboundName (c : Name) : Name :=
  if nameEq c n!"DIRECT" then n!"OutboundDirect"
  else if nameEq c n!"BLOCK" then n!"OutboundBlock"
  else if nameEq c n!"MUST_RULES" then n!"OutboundMustRules"
  else if nameEq c n!"CONTROL_PLANE_ROUTING" then n!"OutboundControlPlaneRouting"
  else if nameEq c n!"LOGICAL_OR" then n!"OutboundLogicalOr"
  else if nameEq c n!"LOGICAL_AND" then n!"OutboundLogicalAnd"
  else if nameEq c n!"LOGICAL_MASK" then n!"OutboundLogicalMask"
  else nameCat n!"Outbound" (toCamelLower c)

/-- enumerate from `i` (the Go side uses `iota`, the C side prints the loop index). -/
def enumFrom (i : Nat) : List Name → List (Name × Nat)
  | [] => []
  | x :: xs => (x, i) :: enumFrom (i + 1) xs

def genGo (s : Spec) : GenOut :=
  { matchTypes := (enumFrom 0 s.matchTypes).map (fun x => (nameCat n!"MatchType_" x.1, x.2)),
    outbound := s.outbound.map (fun x => (goOutboundName x.1, x.2)),
    l4 := s.l4.map (fun x => (nameCat n!"L4ProtoType_" x.1, x.2)),
    ip := s.ip.map (fun x => (nameCat n!"IpVersion_" x.1, x.2)) }

def genC (s : Spec) : GenOut :=
  { matchTypes := (enumFrom 0 s.matchTypes).map (fun x => (nameCat n!"MatchType_" x.1, x.2)),
    outbound := s.outbound.map (fun x => (nameCat n!"OUTBOUND_" x.1, x.2)),
    l4 := s.l4.map (fun x => (nameCat n!"L4ProtoType_" x.1, x.2)),
    ip := s.ip.map (fun x => (nameCat n!"IpVersionType_" x.1, x.2)) }

def GenOut.all (g : GenOut) : List (Name × Nat) := g.matchTypes ++ g.outbound ++ g.l4 ++ g.ip

/-- the generated Go file as checked in carries exactly the generator's values -/
def goFileMatchesSpec : Bool :=
  (genGo Gen.specData).all.all (fun x => lookupConst (nameCat n!"consts." x.1) Gen.goConsts == some (x.2 : Int))

def cFileMatchesSpec : Bool :=
  (genC Gen.specData).all.all (fun x => lookupConst x.1 Gen.cConsts == some (x.2 : Int))

/-- pairs (Go constant, C constant) that the generator emits for the current spec -/
def specConstPairs : List (Name × Name) :=
  ((genGo Gen.specData).all.zip (genC Gen.specData).all).map (fun x => (nameCat n!"consts." x.1.1, x.2.1))

/-- hand-written pairs of constants that denote the same quantity -/
def fixedConstPairs : List (Name × Name) := [
  (n!"consts.TaskCommLen", n!"TASK_COMM_LEN"),
  (n!"consts.MaxMatchSetLen", n!"MAX_MATCH_SET_LEN"),
  (n!"consts.TproxyMark", n!"TPROXY_MARK"),
  (n!"consts.ZeroKey", n!"zero_key"),
  (n!"consts.OneKey", n!"one_key"),
  (n!"consts.TwoKey", n!"two_key"),
  (n!"consts.IPPROTO_TCP", n!"IPPROTO_TCP"),
  (n!"consts.IPPROTO_UDP", n!"IPPROTO_UDP"),
  (n!"consts.LinkHdrLen_Ethernet", n!"ETH_HLEN"),
  (n!"consts.L4ProtoType_TCP_UDP", n!"L4ProtoType_X"),
  -- conn_state_map idle limits: `tcp_conn_state_expired` (kernel, deletes on lookup) and
  -- `cleanupConnStateMap` (control-plane janitor) judge the same `last_seen_ns` of the same entries
  (n!"control.tcpConnStateTimeoutEstablished", n!"TCP_CONN_STATE_ESTABLISHED_TIMEOUT_NS"),
  (n!"control.tcpConnStateTimeoutClosing", n!"TCP_CONN_STATE_CLOSING_TIMEOUT_NS"),
  -- occupancy alarm of cleanupRedirectTrackMap: a function-local Go constant mirrors the map size
  (n!"control.cleanupRedirectTrackMapBeforeLocked.redirectTrackCapacity", n!"MAX_REDIRECT_TRACK_NUM")]

/-- Pairs where the property does not demand equality: the janitor's non-DNS UDP limit is
`QuicNatTimeout` (primarily the QUIC NAT timeout) and the kernel's value is a documented backstop; the
C defaults of `conn_state_map` / `fast_sock` sizes are overwritten by the loader. A difference is
printed as a NOTE (drift), never a violation. -/
def driftPairs : List (Name × Name) := [
  (n!"control.QuicNatTimeout", n!"UDP_CONN_STATE_TIMEOUT_NS"),
  (n!"control.defaultConnStateMapMaxEntries", n!"MAX_CONN_STATE_NUM")]

def constPairOk (x : Name × Name) : Bool :=
  match lookupConst x.1 Gen.goConsts, lookupConst x.2 Gen.cConsts with
  | some a, some b => a == b
  | _, _ => false

def constPairProblem (x : Name × Name) : List String :=
  match lookupConst x.1 Gen.goConsts, lookupConst x.2 Gen.cConsts with
  | some a, some b => if a == b then [] else [s!"{nameStr x.1}={a} but {nameStr x.2}={b}"]
  | none, _ => [s!"Go constant {nameStr x.1} not found"]
  | _, none => [s!"C constant {nameStr x.2} not found"]

/-- value of a Go / C constant of the regenerated tables; `none` when the name does not exist (or is
negative): a vanished name makes the obligation FAIL, it is never read as 0 -/
def goC? (n : Name) : Option Nat :=
  match lookupConst n Gen.goConsts with
  | some v => if v < 0 then none else some v.toNat
  | none => none
def cC? (n : Name) : Option Nat :=
  match lookupConst n Gen.cConsts with
  | some v => if v < 0 then none else some v.toNat
  | none => none

def leafCount? (recs : List Rec) (r l : Name) : Option Nat :=
  match findRec r recs with
  | some rc => (findLeaf l rc.leaves).map (·.count)
  | none => none

def mapMax? (n : Name) : Option Nat := (findMap n Gen.cMaps).map (·.maxEntries)

/-- Limits that tie constants to array lengths and map sizes (description, verdict); `none` = a name
used by the check no longer exists. -/
def limitChecks : List (String × Option Bool) := [
  ("domain bitmap words * 32 = MaxMatchSetLen (Go) = MAX_MATCH_SET_LEN (C)", do
    let cw ← leafCount? Gen.cRecs n!"domain_routing" n!"bitmap"
    let gw ← leafCount? (goRecsFor n!"amd64") n!"stub.bpfDomainRouting" n!"Bitmap"
    let g ← goC? n!"consts.MaxMatchSetLen"
    let c ← cC? n!"MAX_MATCH_SET_LEN"
    pure (cw * 32 == g && gw * 32 == c)),
  ("routing_map holds MaxMatchSetLen entries", do
    let m ← mapMax? n!"routing_map"; let g ← goC? n!"consts.MaxMatchSetLen"; pure (m == g)),
  ("lpm_array_map holds at least MaxMatchSetLen tries (Go allocates index % MaxMatchSetLen)", do
    let m ← mapMax? n!"lpm_array_map"; let g ← goC? n!"consts.MaxMatchSetLen"
    pure (g ≤ m && 0 < g)),
  ("outbound_connectivity_map holds 256 * slotsPerOutbound slots", do
    let m ← mapMax? n!"outbound_connectivity_map"; let g ← goC? n!"control.outboundConnectivitySlotsPerOutbound"
    pure (m == 256 * g)),
  ("slotsPerOutbound = 3 * slotsPerDomain", do
    let a ← goC? n!"control.outboundConnectivitySlotsPerOutbound"; let b ← goC? n!"control.outboundConnectivitySlotsPerDomain"
    pure (a == 3 * b)),
  ("TaskCommLen = length of every pname member", do
    let t ← goC? n!"consts.TaskCommLen"
    let a ← leafCount? Gen.cRecs n!"routing_result" n!"pname"
    let b ← leafCount? Gen.cRecs n!"conn_state" n!"pname"
    let c ← leafCount? Gen.cRecs n!"pid_pname" n!"pname"
    let d ← leafCount? Gen.cRecs n!"match_set" n!"pname"
    pure (a == t && b == t && c == t && d * 4 == t)),
  ("listen_socket_map holds the three listener keys", do
    let m ← mapMax? n!"listen_socket_map"
    let z ← goC? n!"consts.ZeroKey"; let o ← goC? n!"consts.OneKey"; let t ← goC? n!"consts.TwoKey"
    pure (z < m && o < m && t < m)),
  ("bpf_stats_map holds the two overflow counters", do
    let m ← mapMax? n!"bpf_stats_map"
    let u ← cC? n!"BPF_STATS_UDP_CONN_OVERFLOW"; let t ← cC? n!"BPF_STATS_TCP_CONN_OVERFLOW"
    pure (u < m && t < m && u != t)),
  ("user-defined outbound ids fit below the reserved ones", do
    let a ← goC? n!"consts.OutboundUserDefinedMax"; let b ← cC? n!"OUTBOUND_MUST_RULES"
    let c ← goC? n!"consts.OutboundUserDefinedMin"; let d ← cC? n!"OUTBOUND_BLOCK"
    pure (a + 1 == b && c == d + 1))
]

/-- Relations the loader overrides at load time (`tuneConnStateBpfMap`, `tunePlaceholderBpfMaps`): a
difference between the C default and the Go default is printed as a NOTE, it is not a theorem. -/
def driftLimits : List (String × Option Bool) := [
  ("conn_state_map default size (overwritten at load)", do
    let m ← mapMax? n!"conn_state_map"; let g ← goC? n!"control.defaultConnStateMapMaxEntries"; pure (m == g)),
  ("fast_sock placeholder size (overwritten at load)", do
    let m ← mapMax? n!"fast_sock"; let g ← goC? n!"control.fastSockPlaceholderMaxEntries"; pure (m == g))]

/-! ### Literals and constant keys in Go function bodies -/

/-- What a literal compared with a field of a `bpf*` value means: (Go type, field, C constant it
mirrors — `n!""` for a plain zero test that mirrors no enumeration). Every regenerated comparison
must be listed here (`field_literals_agree`). -/
def fieldLiteralMeaning : List (Name × Name × Name) := [
  (n!"stub.bpfConnState", n!"State", n!"TCP_STATE_CLOSING"),
  (n!"stub.bpfConnState", n!"LastSeenNs", n!""),
  (n!"stub.bpfConnState", n!"Meta.Data.HasRouting", n!""),
  (n!"stub.bpfRedirectEntry", n!"LastSeenNs", n!""),
  (n!"stub.bpfPidPname", n!"LastSeenNs", n!""),
  (n!"stub.bpfRoutingHandoffEntry", n!"LastSeenNs", n!""),
  (n!"stub.bpfRoutingResult", n!"Mark", n!""),
  (n!"stub.bpfRoutingResult", n!"Outbound", n!"OUTBOUND_CONTROL_PLANE_ROUTING"),
  (n!"stub.bpfMatchSet", n!"Type", n!"MatchType_Fallback"),
  (n!"stub.bpfMatchSet", n!"Not", n!""),
  (n!"stub.bpfMatchSet", n!"Must", n!"")]

/-- A comparison whose constant operand is a NAMED constant that is already tied by `consts_agree` needs
no meaning entry (its value is the C value by that theorem); bare literals and unpaired names do. -/
def fieldLiteralOk (l : Name × Name × Int × String × Name) : Bool :=
  (!nameEq l.2.2.2.2 n!"" && (specConstPairs ++ fixedConstPairs).any (fun x => nameEq x.1 l.2.2.2.2)) ||
  fieldLiteralMeaning.any (fun m =>
    nameEq m.1 l.1 && nameEq m.2.1 l.2.1 &&
      (if nameEq m.2.2 n!"" then l.2.2.1 == 0 else lookupConst m.2.2 Gen.cConsts == some l.2.2.1))

/-- Constant keys passed next to a map: `bpf_stats_map` — the key whose result is stored in a variable
named …udp… / …tcp… is the C enum value of that counter, and every constant key is one of the two;
`routing_meta_map` — the constant key is `zero_key`; `listen_socket_map` — judged by `listen_key_agree`. -/
def constKeyOk (c : MapIO) : Bool :=
  if c.const < 0 then true
  else if nameEq c.map n!"bpf_stats_map" then
    (if nameEq c.kind n!"udp" then lookupConst n!"BPF_STATS_UDP_CONN_OVERFLOW" Gen.cConsts == some c.const
     else if nameEq c.kind n!"tcp" then lookupConst n!"BPF_STATS_TCP_CONN_OVERFLOW" Gen.cConsts == some c.const
     else lookupConst n!"BPF_STATS_UDP_CONN_OVERFLOW" Gen.cConsts == some c.const
          || lookupConst n!"BPF_STATS_TCP_CONN_OVERFLOW" Gen.cConsts == some c.const)
  else if nameEq c.map n!"routing_meta_map" then lookupConst n!"zero_key" Gen.cConsts == some c.const
  else if nameEq c.map n!"listen_socket_map" then true
  else false

/-- both counters are read -/
def statsKeysCovered : Bool :=
  Gen.goMapIO.any (fun c => nameEq c.map n!"bpf_stats_map" && nameEq c.kind n!"udp" && c.const ≥ 0)
  && Gen.goMapIO.any (fun c => nameEq c.map n!"bpf_stats_map" && nameEq c.kind n!"tcp" && c.const ≥ 0)

/-! ### Closure of the constant pairing -/

/-- C constants that have no counterpart on the Go side, each with the reason. A C constant must be
paired (`specConstPairs`, `fixedConstPairs`, `fieldLiteralMeaning`, the stats keys, a limit) or be listed
here: a NEW `#define`/enum value cannot stay invisible (`every_c_const_classified`). -/
def cKernelOnlyConsts : List (Name × String) := [
  (n!"BPF_NO_PRESERVE_ACCESS_INDEX", "compile-time switch of the C program"),
  (n!"IPV6_BYTE_LENGTH", "address length; the Go side uses netip.Addr.As16()"),
  (n!"PACKET_HOST", "skb->pkt_type value, kernel only"),
  (n!"PACKET_OTHERHOST", "skb->pkt_type value, kernel only"),
  (n!"NOWHERE_IFINDEX", "kernel-internal sentinel"),
  (n!"MAX_INTERFACE_NUM", "kernel-internal bound"),
  (n!"MAX_LPM_NUM", "max_entries of lpm_array_map; the Go side needs only max_entries >= MaxMatchSetLen (limits_agree)"),
  (n!"MAX_LPM_SIZE", "max_entries of an LPM trie; the Go side copies it from the loaded map spec at run time"),
  (n!"MAX_ROUTING_HANDOFF_NUM", "map size; the janitor reads MaxEntries() from the loaded map"),
  (n!"MAX_COOKIE_PID_PNAME_MAPPING_NUM", "map size; the janitor reads MaxEntries() from the loaded map"),
  (n!"MAX_DOMAIN_ROUTING_NUM", "map size, not mirrored"),
  (n!"MAX_ARG_LEN", "process-name lookup buffer, kernel only"),
  (n!"IPV6_MAX_EXTENSIONS", "parser bound, kernel only"),
  (n!"NDP_REDIRECT", "ICMPv6 type, kernel only"),
  (n!"PARSE_FRAGMENT", "parser return code, kernel only"),
  (n!"HEADER_PULL_SIZE", "parser, kernel only"),
  (n!"REDIRECT_PULL_SIZE", "parser, kernel only"),
  (n!"LOAD_REDIRECT_TUPLE_FALLBACK", "kernel-internal return code"),
  (n!"UDP_CONN_STATE_UPDATE_INTERVAL_NS", "lazy timestamp refresh inside the kernel; the janitor's limits are far above it"),
  (n!"TCP_CONN_STATE_UPDATE_INTERVAL_NS", "lazy timestamp refresh inside the kernel"),
  (n!"TCP_STATE_ACTIVE", "the Go side only tests for TCP_STATE_CLOSING"),
  (n!"DAE_EVENT_BLOCKED", "event ring buffer has no Go consumer at this commit"),
  (n!"DAE_EVENT_UDP_CONN_OVERFLOW", "event ring buffer has no Go consumer at this commit"),
  (n!"DAE_EVENT_TCP_CONN_OVERFLOW", "event ring buffer has no Go consumer at this commit"),
  (n!"ROUTE_STATE_BAD_RULE", "route() scratch flag"),
  (n!"ROUTE_STATE_GOOD_SUBRULE", "route() scratch flag"),
  (n!"ROUTE_STATE_MUST", "route() scratch flag"),
  (n!"ROUTE_STATE_DNS_QUERY", "route() scratch flag")]

/-- C constants tied to the Go side by a check other than a constant pair. -/
def cConstsTiedElsewhere : List Name :=
  [n!"BPF_STATS_UDP_CONN_OVERFLOW", n!"BPF_STATS_TCP_CONN_OVERFLOW"]
  ++ driftPairs.map (·.2)
  ++ (fieldLiteralMeaning.map (·.2.2)).filter (fun n => !nameEq n n!"")

def cConstClassified (n : Name) : Bool :=
  (specConstPairs ++ fixedConstPairs).any (fun x => nameEq x.2 n)
  || nameMem n cConstsTiedElsewhere
  || cKernelOnlyConsts.any (fun x => nameEq x.1 n)

/-! ### PARAM contents, Go byte order per GOARCH -/

/-- What each member of `struct dae_param` must be initialised from (identifiers that must / must not
occur in the initialiser of the Go field at the same position, locals resolved through their
assignments to depth 3 — so the names are those of the called methods/fields, not of locals). -/
def paramContents : List (Name × List Name × List Name) := [
  (n!"tproxy_port", [n!"BigEndianTproxyPort"], []),
  (n!"control_plane_pid", [n!"Getpid"], []),
  (n!"dae0_ifindex", [n!"Dae0", n!"Index"], [n!"NetnsID", n!"Dae0Peer"]),
  (n!"dae_netns_id", [n!"NetnsID"], [n!"Index"]),
  (n!"dae0peer_mac", [n!"Dae0Peer", n!"HardwareAddr"], [])]

/-- Members whose source is only recognisable by the NAME of a local variable / parameter
(`useRedirectPeer`, `hasBpfGetCurrentTask`, `soMarkFromDae`): a mismatch is printed as a NOTE by the
check, it is not a theorem (renaming a local is harmless). -/
def paramContentsByLocalName : List (Name × List Name × List Name) := [
  (n!"use_redirect_peer", [n!"useRedirectPeer"], [n!"hasBpfGetCurrentTask"]),
  (n!"has_bpf_get_current_task", [n!"hasBpfGetCurrentTask"], [n!"useRedirectPeer"]),
  (n!"dae_socket_mark", [n!"soMarkFromDae"], [])]

def lookupIdents (n : Name) : List (Name × List Name) → Option (List Name)
  | [] => none
  | (k, v) :: rest => if nameEq k n then some v else lookupIdents n rest

/-- the Go field at the position of C member `c` -/
def paramGoField (c : Name) : Option Name :=
  match findRec n!"real.PARAM" Gen.goPacked with
  | some r => ((r.leaves.map (·.path)).zip daeParamFieldsC).findSome? (fun x => if nameEq x.2 c then some x.1 else none)
  | none => none

def paramContentOk (x : Name × List Name × List Name) : Bool :=
  match paramGoField x.1 with
  | some g =>
    match lookupIdents g Gen.goParamInit with
    | some ids => x.2.1.all (fun r => nameMem r ids) && x.2.2.all (fun f => !nameMem f ids)
    | none => false
  | none => false

/-- byte order of the machine for every release GOARCH (hand-written; Go's own list of big-endian
ports) -/
def machineBigEndian : List (Name × Bool) := [
  (n!"amd64", false), (n!"arm64", false), (n!"riscv64", false), (n!"loong64", false), (n!"mips64", true),
  (n!"mips64le", false), (n!"ppc64", true), (n!"ppc64le", false), (n!"s390x", true), (n!"386", false),
  (n!"arm", false), (n!"mipsle", false), (n!"mips", true)]

def lookupNameOpt (n : Name) : List (Name × Name) → Option Name
  | [] => none
  | (k, v) :: rest => if nameEq k n then some v else lookupNameOpt n rest

def nativeEndianOk (x : Name × Bool) : Bool :=
  match lookupNameOpt x.1 Gen.goNativeEndian with
  | some v => nameEq v (if x.2 then n!"big" else n!"little")
  | none => false

/-! ### Which outbound id a group's callback is bound to; coverage of the map-I/O scan -/

/-- The kernel reads the slot of `match_set.outbound` = index of the group in `outbounds`
(`outboundName2Id[o.Name] = uint8(i)`); the callback must be created with that same index
(`uint8(len(outbounds))` just before the append) or the reserved ids 0/1. A call site whose id is that
index plus a non-zero constant publishes a group's health under another group's slot. Shapes the
translator cannot classify (`other`) are reported as a NOTE. -/
def callbackShapeBad (s : Name) : Bool := nameEq s n!"index+k"

/-- maps with a Go handle whose contents the control plane does not touch through map I/O calls
(ring buffer consumer absent, placeholder sockhash, per-CPU scratch) -/
def mapsWithoutGoIO : List Name := [n!"event_ringbuf", n!"fast_sock", n!"pkt_scratch_map"]

/-- every other map of `bpfMaps` has at least one key row in the regenerated map-I/O table (a map
reached only through an alias the scan does not follow would silently drop its rows) -/
def mapIOCovers (t : Name) : Bool :=
  nameMem t mapsWithoutGoIO || Gen.goMapIO.any (fun c => nameEq c.map t && c.role == 0)

/-! ### Programs, sections, map kinds, build-time override -/

/-- cilium/libbpf derive program type and expected attach type from the ELF section name: the section a
program must live in for each cgroup attach type the control plane uses (hand-written from the
section table of cilium/ebpf). -/
def attachSection : List (Name × Name) := [
  (n!"AttachCGroupInetSockCreate", n!"cgroup/sock_create"),
  (n!"AttachCgroupInetSockRelease", n!"cgroup/sock_release"),
  (n!"AttachCGroupInet4Connect", n!"cgroup/connect4"),
  (n!"AttachCGroupInet6Connect", n!"cgroup/connect6"),
  (n!"AttachCGroupUDP4Sendmsg", n!"cgroup/sendmsg4"),
  (n!"AttachCGroupUDP6Sendmsg", n!"cgroup/sendmsg6")]

def progSection? (p : Name) : Option (Name × Name) :=
  Gen.cProgSections.findSome? (fun x => if nameEq x.1 p then some x.2 else none)

/-- `{Prog: bpf.P, Attach: ebpf.A}`: P's section is the one A requires -/
def progAttachOk (x : Name × Name) : Bool :=
  match progSection? x.1, lookupNameOpt x.2 attachSection with
  | some s, some want => nameEq s.1 want
  | _, _ => false

/-- a program the control plane refers to is attached through the cgroup table above or is a TC
classifier (`tc/…` section, attached with netlink/tcx) -/
def progUseOk (p : Name) : Bool :=
  Gen.goProgAttach.any (fun x => nameEq x.1 p) ||
    (match progSection? p with | some s => nameEq s.2 n!"tc" | none => false)

/-- What the control plane does with each map presupposes its kind (numeric `BPF_MAP_TYPE_*`):
arithmetic index keys need ARRAY (2), per-key lookup/delete and batch iteration need HASH (1), the LPM
tries created by `newLpmMap` are LPM_TRIE (11) inside an ARRAY_OF_MAPS (12), listener fds go into a
SOCKMAP (15). Hand-written; the LPM_TRIE row is additionally regenerated from `newLpmMap`. -/
def goMapKindExpect : List (Name × Nat) := [
  (n!"outbound_connectivity_map", 2), (n!"routing_map", 2), (n!"routing_meta_map", 2), (n!"bpf_stats_map", 2),
  (n!"conn_state_map", 1), (n!"routing_handoff_map", 1), (n!"redirect_track", 1), (n!"cookie_pid_map", 1),
  (n!"domain_routing_map", 1), (n!"unused_lpm_type", 11), (n!"lpm_array_map", 12), (n!"listen_socket_map", 15)]

def mapKindOk (x : Name × Nat) : Bool :=
  match findMap x.1 Gen.cMaps with
  | some m => m.mtype == x.2 || (x.2 == 1 && m.mtype == 9)   -- HASH or LRU_HASH: eviction policy is a tuning the property does not fix
  | none => false

/-- `ebpf.LPMTrie` etc. as numbers -/
def ebpfMapTypeNum : List (Name × Nat) := [(n!"Hash", 1), (n!"Array", 2), (n!"LPMTrie", 11), (n!"ArrayOfMaps", 12)]

/-- `newLpmMap` creates maps of the kind `unused_lpm_type` declares -/
def newMapTypeOk (x : Name × Name) : Bool :=
  if nameEq x.1 n!"newLpmMap" then
    match lookupConst x.2 (ebpfMapTypeNum.map (fun y => (y.1, (y.2 : Int)))), findMap n!"unused_lpm_type" Gen.cMaps with
    | some t, some m => t == (m.mtype : Int)
    | _, _ => false
  else true

/-- Build-time override (`makefileGlueOk` — recognised by text patterns in the Makefile, reported as a
NOTE when not recognised — and `overrideConsistent`, the theorem): the Makefile hands ONE variable to the C compiler (`-DMAX_MATCH_SET_LEN`) and
to the Go linker (`-X …consts.MaxMatchSetLen_`), its default is the default of both sources, and for a
non-default value (2048) the C program's dependent sizes follow it (bitmap words × 32, `routing_map`,
`lpm_array_map` = N + 8 = `MAX_LPM_NUM`). -/
def makefileGlueOk : Bool :=
  (match Gen.makefileMaxMatchSetLen.1, goC? n!"consts.MaxMatchSetLen", cC? n!"MAX_MATCH_SET_LEN" with
   | some d, some g, some c => d == g && d == c
   | _, _, _ => false)
  && Gen.makefileMaxMatchSetLen.2.1 && Gen.makefileMaxMatchSetLen.2.2

def overrideConsistent : Bool :=
  (match goC? n!"consts.MaxMatchSetLen", cC? n!"MAX_MATCH_SET_LEN" with
   | some g, some c => g == c
   | _, _ => false)
  && (match Gen.cOverride2048 with
      | [n, words, rm, lpm, lpmNum] => n == 2048 && words * 32 == n && rm == n && lpm == n + 8 && lpmNum == lpm
      | _ => false)

/-! ### Widths of the generated enumerations -/

/-- A spec the generated Go file can carry: Go declares all four enumerations `uint8`, the C header
packs `MatchType` into one byte and stores outbound ids in `__u8`. -/
def specFits (s : Spec) : Bool :=
  s.matchTypes.length ≤ 256 && s.outbound.all (·.2 < 256) && s.l4.all (·.2 < 256) && s.ip.all (·.2 < 256)

/-- widths on the C side of the places the generated values are stored in (bytes): `match_set.type`,
`match_set.outbound`, and the enum types behind `l4proto_type` / `ip_version` -/
def enumStorageOk : Bool :=
  (match findRec n!"match_set" Gen.cRecs with
   | some r =>
     (findLeaf n!"type" r.leaves).map (·.esize) == some 1 && (findLeaf n!"outbound" r.leaves).map (·.esize) == some 1
     && (findLeaf n!"l4proto_type" r.leaves).map (·.esize) == some 4 && (findLeaf n!"ip_version" r.leaves).map (·.esize) == some 4
   | none => false)
  && (match findRec n!"stub.bpfMatchSet" (goRecsFor n!"amd64") with
      | some r => (findLeaf n!"Type" r.leaves).map (·.esize) == some 1 && (findLeaf n!"Outbound" r.leaves).map (·.esize) == some 1
      | none => false)

/-! ## 3. Bytes and byte order -/

inductive Endian where
  | little | big
deriving DecidableEq, Repr

/-- `w` bytes of `n`, least significant first. -/
def leBytes : Nat → Nat → List Nat
  | 0, _ => []
  | w + 1, n => n % 256 :: leBytes w (n / 256)

def leVal : List Nat → Nat
  | [] => 0
  | b :: bs => b + 256 * leVal bs

def beBytes (w n : Nat) : List Nat := (leBytes w n).reverse
def beVal (bs : List Nat) : Nat := leVal bs.reverse

/-- how a machine of byte order `e` stores a `w`-byte unsigned integer -/
def nativeBytes (e : Endian) (w n : Nat) : List Nat :=
  match e with
  | .little => leBytes w n
  | .big => beBytes w n

/-- how it loads one -/
def nativeVal (e : Endian) (bs : List Nat) : Nat :=
  match e with
  | .little => leVal bs
  | .big => beVal bs

def Bytes (bs : List Nat) : Prop := ∀ b ∈ bs, b < 256

instance (bs : List Nat) : Decidable (Bytes bs) := by unfold Bytes; infer_instance

def zeros (n : Nat) : List Nat := List.replicate n 0

/-- `common.Htons` / `bpf_htons`: store big-endian, load natively. -/
def htons (e : Endian) (p : Nat) : Nat := nativeVal e (beBytes 2 p)
/-- `bpf_htonl` -/
def htonl (e : Endian) (x : Nat) : Nat := nativeVal e (beBytes 4 x)

/-! ## 4. Map keys -/

/-- `::ffff:0:0/96` -/
def v4Prefix : List Nat := [0, 0, 0, 0, 0, 0, 0, 0, 0, 0, 0xff, 0xff]

/-- `netip.Addr` as the key constructors see it: `is4` and the 4 or 16 address bytes. -/
structure GoAddr where
  is4 : Bool
  bytes : List Nat
deriving DecidableEq, Repr

def GoAddr.is4In6 (a : GoAddr) : Bool := !a.is4 && a.bytes.take 12 == v4Prefix
def GoAddr.as16 (a : GoAddr) : List Nat := if a.is4 then v4Prefix ++ a.bytes else a.bytes
def GoAddr.as4 (a : GoAddr) : List Nat := if a.is4 then a.bytes else a.bytes.drop 12
/-- `common.ConvergeAddrPort` on the address -/
def GoAddr.converge (a : GoAddr) : GoAddr := if a.is4In6 then ⟨true, a.as4⟩ else a

structure GoAddrPort where
  addr : GoAddr
  port : Nat
deriving DecidableEq, Repr

/-- Memory image of the `bpfTuplesKey` returned by `bpfTuplesKeyFromAddrPorts(src, dst, l4proto)` on
a machine of byte order `e`: Sip, Dip (16 bytes each), Sport, Dport (`Htons`, stored natively),
L4proto, three zero bytes of explicit padding. -/
def goTuplesKey (e : Endian) (src dst : GoAddrPort) (proto : Nat) : List Nat :=
  let s := src.addr.converge
  let d := dst.addr.converge
  s.as16 ++ d.as16 ++ nativeBytes e 2 (htons e src.port) ++ nativeBytes e 2 (htons e dst.port)
    ++ [proto] ++ zeros 3

/-- A flow as it appears in a packet: address family of the IP header, the address bytes in network
order (4 or 16), ports, IP protocol number. -/
structure Flow where
  v4 : Bool
  src : List Nat
  dst : List Nat
  sport : Nat
  dport : Nat
  proto : Nat
deriving DecidableEq, Repr

def Flow.WF (f : Flow) : Prop :=
  (if f.v4 then f.src.length = 4 ∧ f.dst.length = 4 else f.src.length = 16 ∧ f.dst.length = 16)
  ∧ Bytes f.src ∧ Bytes f.dst ∧ f.sport < 65536 ∧ f.dport < 65536 ∧ f.proto < 256

instance (f : Flow) : Decidable f.WF := by unfold Flow.WF; infer_instance

/-- `get_tuples`: one address of `struct tuples_key` after `memset 0`. IPv4: words 0,1 stay zero,
word 2 = `bpf_htonl(0x0000ffff)` stored natively, word 3 = the address as it is in the IP header. -/
def cIp (e : Endian) (v4 : Bool) (a : List Nat) : List Nat :=
  if v4 then zeros 8 ++ nativeBytes e 4 (htonl e 0xffff) ++ a else a

/-- Memory image of `tuples.five` after `get_tuples` (ports are copied from the L4 header, where
they are in network order; bytes 37..39 are padding cleared by the `memset`). -/
def cTuplesKey (e : Endian) (f : Flow) : List Nat :=
  cIp e f.v4 f.src ++ cIp e f.v4 f.dst ++ beBytes 2 f.sport ++ beBytes 2 f.dport ++ [f.proto] ++ zeros 3

/-- `copy_reversed_tuples` on the 40 key bytes: memset, swap addresses, swap ports, keep l4proto. -/
def cReverseKey (k : List Nat) : List Nat :=
  (k.drop 16).take 16 ++ k.take 16 ++ (k.drop 34).take 2 ++ (k.drop 32).take 2 ++ (k.drop 36).take 1 ++ zeros 3

/-- What the control plane holds for a flow: `netip.AddrPort`s. An IPv4 peer is an `Is4` address, or
— when it arrives through a dual-stack socket — the IPv4-mapped IPv6 address (`mapped`). -/
def Flow.goSrc (f : Flow) (mapped : Bool) : GoAddrPort :=
  ⟨if f.v4 then (if mapped then ⟨false, v4Prefix ++ f.src⟩ else ⟨true, f.src⟩) else ⟨false, f.src⟩, f.sport⟩
def Flow.goDst (f : Flow) (mapped : Bool) : GoAddrPort :=
  ⟨if f.v4 then (if mapped then ⟨false, v4Prefix ++ f.dst⟩ else ⟨true, f.dst⟩) else ⟨false, f.dst⟩, f.dport⟩

def Flow.reverse (f : Flow) : Flow := { f with src := f.dst, dst := f.src, sport := f.dport, dport := f.sport }

/-! ### Outbound connectivity slots -/

inductive L4Str where
  | tcp | udp | other
deriving DecidableEq, Repr

inductive UdpDomain where
  | unset | dns | data
deriving DecidableEq, Repr

inductive IpStr where
  | v4 | v6 | other
deriving DecidableEq, Repr

/-- `dialer.NetworkType` (the fields the key depends on) -/
structure NetworkType where
  l4 : L4Str
  ip : IpStr
  udpDomain : UdpDomain
deriving DecidableEq, Repr

/-- `EffectiveUdpHealthDomain` -/
def NetworkType.effDomain (t : NetworkType) : UdpDomain :=
  if t.l4 ≠ .udp then .unset else if t.udpDomain ≠ .unset then t.udpDomain else .data

/-- the five Go constants of `connectivity.go` -/
structure ConnConsts where
  slotsPerOutbound : Nat
  slotsPerDomain : Nat
  domTcp : Nat
  domDns : Nat
  domData : Nat
deriving DecidableEq, Repr

/-- read from the regenerated table; `none` if one of them no longer exists -/
def connConsts? : Option ConnConsts := do
  let a ← goC? n!"control.outboundConnectivitySlotsPerOutbound"
  let b ← goC? n!"control.outboundConnectivitySlotsPerDomain"
  let c ← goC? n!"control.outboundConnectivityDomainTCP"
  let d ← goC? n!"control.outboundConnectivityDomainDnsUDP"
  let e ← goC? n!"control.outboundConnectivityDomainDataUDP"
  pure ⟨a, b, c, d, e⟩

/-- `outboundConnectivityDomainIndex` -/
def goDomainIdx (k : ConnConsts) (t : NetworkType) : Nat :=
  if t.l4 ≠ .udp then k.domTcp
  else if t.effDomain = .dns then k.domDns
  else k.domData

/-- `outboundConnectivityMapKey` (uint32 arithmetic) -/
def goConnKeyWith (k : ConnConsts) (outbound : Nat) (t : NetworkType) : Nat :=
  (outbound * k.slotsPerOutbound + goDomainIdx k t * k.slotsPerDomain + (if t.ip = .v6 then 1 else 0)) % 2 ^ 32

def goConnKey? (outbound : Nat) (t : NetworkType) : Option Nat :=
  connConsts?.map (fun k => goConnKeyWith k outbound t)

/-- `wan_outbound_is_alive`: the slot the kernel reads, `none` when it does not consult the map
(destination port 53). `dport` is the port number, `ethIsV4` is `skb->protocol == htons(ETH_P_IP)`. -/
def cConnKey (outbound l4proto dport : Nat) (ethIsV4 : Bool) : Option Nat :=
  if dport = 53 then none
  else
    let domainIdx := if l4proto = 17 then (if dport = 53 then 1 else 2) else 0
    some ((outbound * 6 + domainIdx * 2 + (if ethIsV4 then 0 else 1)) % 2 ^ 32)

/-- The network type under which the control plane reports health for the traffic class of a packet:
TCP → tcp, non-DNS UDP → data UDP. -/
def ntOfPacket (l4proto : Nat) (ethIsV4 : Bool) : NetworkType :=
  { l4 := if l4proto = 17 then .udp else .tcp, ip := if ethIsV4 then .v4 else .v6,
    udpDomain := if l4proto = 17 then .data else .unset }

/-! ### Listener sockets -/

inductive Listener where
  | tcp4 | tcp6 | udp
deriving DecidableEq, Repr

/-- `assign_listener`: which `listen_socket_map` key the kernel uses (values of the C statics from the
regenerated table). -/
def cListenKey? (l4proto : Nat) (ethIsV6 : Bool) : Option Nat :=
  if l4proto = 6 then (if ethIsV6 then cC? n!"two_key" else cC? n!"zero_key") else cC? n!"one_key"

/-- the field of the `Listener` each kind of listener lives in -/
def Listener.field : Listener → Name
  | .tcp4 => n!"tcp4Listener"
  | .tcp6 => n!"tcp6Listener"
  | .udp => n!"packetConn"

/-- which key the control plane stores each listener under: the constant named at the regenerated
call site `ListenSocketMap.Update(consts.K, uint64(f.Fd()), …)` whose file `f` was duplicated from that
field of the listener (`f, e := dup…(listener.<field>)`). `none` if no such call site exists. -/
def goListenKey? (l : Listener) : Option Nat :=
  (lookupNameOpt l.field Gen.goListenUse).bind goC?

def listenerOfPacket (l4proto : Nat) (ethIsV6 : Bool) : Listener :=
  if l4proto = 6 then (if ethIsV6 then .tcp6 else .tcp4) else .udp

/-! ### LPM keys and domain-routing keys -/

/-- `common.Ipv6ByteSliceToUint32Array`: four native loads. -/
def ipv6ToU32 (e : Endian) (ip : List Nat) : List Nat :=
  [nativeVal e (ip.take 4), nativeVal e ((ip.drop 4).take 4), nativeVal e ((ip.drop 8).take 4),
   nativeVal e ((ip.drop 12).take 4)]

/-- memory image of a `[4]uint32` -/
def u32ArrayBytes (e : Endian) (ws : List Nat) : List Nat := ws.flatMap (nativeBytes e 4)

/-- `netip.Prefix` as `cidrToBpfLpmKey` sees it -/
structure GoPrefix where
  addr : GoAddr
  bits : Nat
deriving DecidableEq, Repr

/-- memory image of `cidrToBpfLpmKey(prefix)`: PrefixLen (native u32), Data -/
def goLpmKey (e : Endian) (p : GoPrefix) : List Nat :=
  nativeBytes e 4 ((if p.addr.is4 then p.bits + 96 else p.bits) % 2 ^ 32)
    ++ u32ArrayBytes e (ipv6ToU32 e p.addr.as16)

/-- `route()`: the probe key for a 16-byte address (`prefixlen = 128`, `memcpy` of the address) -/
def cLpmProbe (e : Endian) (a16 : List Nat) : List Nat := nativeBytes e 4 128 ++ a16

/-- domain_routing_map key on the Go side: `Ipv6ByteSliceToUint32Array(ip.As16())` marshalled natively -/
def goDomainKey (e : Endian) (a : GoAddr) : List Nat := u32ArrayBytes e (ipv6ToU32 e a.as16)

/-- on the C side: `memcpy(daddr, ctx->lpm_key_daddr.data, 16)` -/
def cDomainKey (a16 : List Nat) : List Nat := a16

/-- the 16-byte form in which `route()` receives an address of a flow (`tuples.five.*ip`) -/
def flowAddr16 (v4 : Bool) (a : List Nat) : List Nat := if v4 then v4Prefix ++ a else a

/-! ### match_set value encodings (explicitly little-endian writes, read natively by C) -/

/-- `binary.LittleEndian.PutUint32(set.Value[:], idx)` -/
def goSetIndexValue (idx : Nat) : List Nat := leBytes 4 idx ++ zeros 12
/-- `bpfPortRange.Encode` -/
def goPortRangeValue (start stop : Nat) : List Nat := leBytes 2 start ++ leBytes 2 stop ++ zeros 12
/-- `match_set->index` -/
def cReadIndex (e : Endian) (v : List Nat) : Nat := nativeVal e (v.take 4)
/-- `match_set->port_range.{port_start,port_end}` -/
def cReadPortRange (e : Endian) (v : List Nat) : Nat × Nat := (nativeVal e (v.take 2), nativeVal e ((v.drop 2).take 2))

/-- `addL4Proto` / `addIpVersion` / `addDscp`: `Value: [16]byte{byte(v)}` -/
def goByteValue (v : Nat) : List Nat := [v % 256] ++ zeros 15
/-- `__u8 mask = match_set->l4proto_type` / `->ip_version`: a 4-byte (non-packed) enum read natively,
then truncated to 8 bits -/
def cReadEnumMask (e : Endian) (v : List Nat) : Nat := nativeVal e (v.take 4) % 256
/-- `match_set->dscp` (`__u8` at offset 0) -/
def cReadDscp (v : List Nat) : Nat := v.headD 0
/-- `addProcessName`: the 16 name bytes; `equal16(match_set->pname, pname)` compares two native 8-byte
loads of each side -/
def cPnameEqual (e : Endian) (v p : List Nat) : Bool :=
  nativeVal e (v.take 8) == nativeVal e (p.take 8) && nativeVal e ((v.drop 8).take 8) == nativeVal e ((p.drop 8).take 8)

/-- `rewriteKernRulesWithRingLpmIndex`: the new value of an LPM-indexed rule (`none` = error) -/
def goRingIndexValue (maxSets old start count : Nat) : Option (List Nat) :=
  if old ≥ count then none else some (goSetIndexValue (((start + old) % 2 ^ 32) % maxSets))

/-! ### MAC prefix keys -/

/-- `addSourceMac`: the address whose /128 prefix is stored: `copy(addr16[10:], mac[:])` -/
def goMacAddr16 (mac : List Nat) : List Nat := zeros 10 ++ mac
/-- the three kernel callers of `route()`: `mac_be = {0, 0, htonl(m0<<8 | m1), htonl(m2<<24 | m3<<16 | m4<<8 | m5)}`
as it lies in memory -/
def cMacPack (e : Endian) (m0 m1 m2 m3 m4 m5 : Nat) : List Nat :=
  zeros 8 ++ nativeBytes e 4 (htonl e (m0 * 256 + m1))
    ++ nativeBytes e 4 (htonl e (m2 * 2 ^ 24 + m3 * 2 ^ 16 + m4 * 256 + m5))

/-! ### Reading a port of a key on the Go side -/

/-- `dnsPortNetworkOrder = common.Htons(53)`, compared by the janitor with `key.Sport` / `key.Dport`
(native loads of the two network-order bytes); the kernel's own test is `key->dport == bpf_htons(53)`. -/
def goDnsPortConst (e : Endian) : Nat := htons e 53
/-- what the janitor / the kernel load from the key for a flow with port `p` -/
def keyPortLoad (e : Endian) (p : Nat) : Nat := nativeVal e (beBytes 2 p)

/-! ### The hand-written key images follow the regenerated layouts -/

/-- (offset, length in bytes) of a leaf of a record of a table -/
def leafSpan (recs : List Rec) (r l : Name) : Option (Nat × Nat) :=
  match findRec r recs with
  | some rc => match findLeaf l rc.leaves with | some lf => some (lf.off, lf.bytes) | none => none
  | none => none

def recSize (recs : List Rec) (r : Name) : Option Nat := (findRec r recs).map (·.size)

/-- The positions at which `goTuplesKey` / `cTuplesKey` / `cReverseKey` place the members (addresses at
0 and 16, ports at 32 and 34, protocol at 36, 40 bytes) are the positions of the regenerated C and Go
layouts; likewise prefix length at 0 and data at 4 of the 20-byte LPM key. If both sides move a member
consistently, `layouts_agree` still holds but this check fails and the byte-level model must follow. -/
def keyModelsFollowLayout : Bool :=
  let c := Gen.cRecs
  let g := goRecsFor n!"amd64"
  leafSpan c n!"tuples_key" n!"sip.u6_addr8" == some (0, 16) && leafSpan c n!"tuples_key" n!"dip.u6_addr8" == some (16, 16)
  && leafSpan c n!"tuples_key" n!"sport" == some (32, 2) && leafSpan c n!"tuples_key" n!"dport" == some (34, 2)
  && leafSpan c n!"tuples_key" n!"l4proto" == some (36, 1) && recSize c n!"tuples_key" == some 40
  && leafSpan g n!"stub.bpfTuplesKey" n!"Sip.U6Addr8" == some (0, 16) && leafSpan g n!"stub.bpfTuplesKey" n!"Dip.U6Addr8" == some (16, 16)
  && leafSpan g n!"stub.bpfTuplesKey" n!"Sport" == some (32, 2) && leafSpan g n!"stub.bpfTuplesKey" n!"Dport" == some (34, 2)
  && leafSpan g n!"stub.bpfTuplesKey" n!"L4proto" == some (36, 1) && recSize g n!"stub.bpfTuplesKey" == some 40
  && leafSpan c n!"lpm_key" n!"prefixlen" == some (0, 4) && leafSpan c n!"lpm_key" n!"data" == some (4, 16)
  && recSize c n!"lpm_key" == some 20 && (findMap n!"unused_lpm_type" Gen.cMaps).map (·.keySize) == some 20
  && leafSpan g n!"real._bpfLpmKey" n!"PrefixLen" == some (0, 4) && leafSpan g n!"real._bpfLpmKey" n!"Data" == some (4, 16)
  && recSize g n!"real._bpfLpmKey" == some 20
  && leafSpan c n!"match_set" n!"index" == some (0, 4) && leafSpan c n!"match_set" n!"port_range.port_start" == some (0, 2)
  && leafSpan c n!"match_set" n!"port_range.port_end" == some (2, 2) && leafSpan g n!"stub.bpfMatchSet" n!"Value" == some (0, 16)
  && (findMap n!"domain_routing_map" Gen.cMaps).map (·.keySize) == some 16
  && (findMap n!"outbound_connectivity_map" Gen.cMaps).map (·.keySize) == some 4

/-! ## 5. Decoding bytes through a layout table (used by the correspondence harness and to state
what agreement of layouts means) -/

/-- the element values of leaf `l` in the byte image `bs` of a record, on a machine of byte order `e` -/
def decodeLeaf (e : Endian) (bs : List Nat) (l : Leaf) : List Nat :=
  (List.range l.count).map (fun i => nativeVal e ((bs.drop (l.off + i * l.esize)).take l.esize))

end DaeVerif.C19
