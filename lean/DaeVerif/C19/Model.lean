import DaeVerif.C19.Types
import DaeVerif.C19.Gen.CLayout
import DaeVerif.C19.Gen.CConsts
import DaeVerif.C19.Gen.GoLayout
import DaeVerif.C19.Gen.GoConsts
/-!
# C19 — kernel and control plane agree on every shared structure, constant and map key

Core-only executable model.  Three parts:

* **Regenerated data** (`Gen/*.lean`, written on every check run by `translators/c19_c` from
  `control/kern/tproxy.c` with clang for the BPF target, and by `translators/c19_go` from
  `control/*.go`, `common/consts/*.go` with go/types): record layouts, map definitions, constants.
* **Hand-written pairing** (this file): which Go type mirrors which C record and which Go field
  mirrors which C member; which constants are the same quantity; which maps are shared.
* **Byte-level key constructors** (this file): what `bpfTuplesKeyFromAddrPorts`,
  `outboundConnectivityMapKey`, `cidrToBpfLpmKey`, `Ipv6ByteSliceToUint32Array` put into memory, and
  what `get_tuples`, `copy_reversed_tuples`, `wan_outbound_is_alive`, `route`, `assign_listener`
  compute for the same logical entity — parametric in the byte order of the machine.
-/
namespace DaeVerif.C19

/-! ## 1. Table lookups and the layout comparison -/

def findRec (n : Name) : List Rec → Option Rec
  | [] => none
  | r :: rs => if nameEq r.name n then some r else findRec n rs

def findLeaf (p : Name) : List Leaf → Option Leaf
  | [] => none
  | l :: ls => if nameEq l.path p then some l else findLeaf p ls

def lookupConst (n : Name) : List (Name × Int) → Option Int
  | [] => none
  | (k, v) :: rest => if nameEq k n then some v else lookupConst n rest

def findMap (n : Name) : List CMap → Option CMap
  | [] => none
  | m :: ms => if nameEq m.name n then some m else findMap n ms

/-- Go memory layouts for one GOARCH (`"packed"` = encoding/binary layout). -/
def goRecsFor (arch : Name) : List Rec :=
  if nameEq arch n!"packed" then Gen.goPacked
  else match Gen.goLayouts.find? (fun c => nameMem arch c.1) with
    | some c => c.2
    | none => []

/-- Which Go scalar class may mirror which C scalar class: unsigned↔unsigned, signed↔signed,
bool↔bool, and a C enum is mirrored by an unsigned integer. -/
def clsCompat : (go c : Cls) → Bool
  | .uint, .uint => true
  | .sint, .sint => true
  | .bool, .bool => true
  | .uint, .enum => true
  | _, _ => false

/-- Offset, element width, element count and signedness class agree. -/
def leafAgree (g c : Leaf) : Bool :=
  g.off == c.off && g.esize == c.esize && g.count == c.count && clsCompat g.cls c.cls

def Leaf.bytes (l : Leaf) : Nat := l.esize * l.count

/-- byte `b` (offset in the record) lies inside leaf `l`. -/
def Leaf.covers (l : Leaf) (b : Nat) : Bool := l.off ≤ b && b < l.off + l.bytes

/-- the furthest end among the leaves of `ls` that contain byte `pos` (`pos` itself if none does) -/
def coverUpTo (ls : List Leaf) (pos : Nat) : Nat :=
  ls.foldl (fun acc l => if l.covers pos && acc < l.off + l.bytes then l.off + l.bytes else acc) pos

/-- every byte of `[pos, stop)` lies inside some leaf of `ls` (walks leaf by leaf; `fuel` bounds the
number of steps, `ls.length + 1` always suffices) -/
def coveredRange (ls : List Leaf) : (fuel pos stop : Nat) → Bool
  | 0, pos, stop => stop ≤ pos
  | fuel + 1, pos, stop =>
    if stop ≤ pos then true
    else if coverUpTo ls pos ≤ pos then false
    else coveredRange ls fuel (coverUpTo ls pos) stop

/-- One hand-written correspondence between a C record and a Go struct type. -/
structure Pairing where
  /-- C record name (`struct`/`union` tag). -/
  c : Name
  /-- Go type as named by the translator: `stub.<T>` (bpf_stub.go), `real.<T>` (bpf_utils.go),
  `real.PARAM` (the anonymous load-time literal). -/
  go : Name
  /-- (Go leaf path, C leaf path) -/
  fields : List (Name × Name)
  /-- C leaves that are not mirrored one-to-one: other views of a union whose bytes are mirrored by
  paired leaves, and explicit C padding members mirrored by a Go `_` field. Every byte of such a
  leaf must be covered by a paired C leaf or by a blank Go leaf. -/
  cAlt : List Name
  /-- the Go value itself is marshalled by cilium/ebpf (`sysenc.Marshal` = encoding/binary layout),
  so the packed layout must agree with C as well. -/
  wire : Bool
  /-- a hand-written type of the REAL build (`bpf_utils.go`), required to agree on every GOARCH -/
  real : Bool := false
deriving Repr

def clsName : Cls → String
  | .uint => "uint" | .sint => "sint" | .bool => "bool" | .enum => "enum" | .recd => "rec"

/-- Explanation of a failed comparison (empty list = agreement). Used by the driver to print a
concrete disagreement; the theorems are about `pairOk`. -/
def pairProblems (cs gs : List Rec) (p : Pairing) : List String :=
  match findRec p.c cs, findRec p.go gs with
  | none, _ => [s!"C record {nameStr p.c} not found"]
  | _, none => [s!"Go type {nameStr p.go} not found"]
  | some c, some g =>
    (if c.size == g.size then [] else [s!"size: C {nameStr p.c}={c.size} Go {nameStr p.go}={g.size}"])
    ++ p.fields.flatMap (fun (gp, cp) =>
        match findLeaf gp g.leaves, findLeaf cp c.leaves with
        | some gl, some cl =>
          if gl.blank then [s!"Go field {nameStr gp} is blank"]
          else if leafAgree gl cl then []
          else [s!"field {nameStr gp}~{nameStr cp}: Go off={gl.off} esize={gl.esize} count={gl.count} cls={clsName gl.cls} | C off={cl.off} esize={cl.esize} count={cl.count} cls={clsName cl.cls}"]
        | none, _ => [s!"Go field {nameStr p.go}.{nameStr gp} not found"]
        | _, none => [s!"C member {nameStr p.c}.{nameStr cp} not found"])
    ++ g.leaves.flatMap (fun gl =>
        if gl.blank || p.fields.any (fun f => nameEq f.1 gl.path) then [] else [s!"Go field {nameStr p.go}.{nameStr gl.path} has no C counterpart"])
    ++ c.leaves.flatMap (fun cl =>
        if p.fields.any (fun f => nameEq f.2 cl.path) then []
        else if nameMem cl.path p.cAlt then
          let cover := c.leaves.filter (fun x => p.fields.any (fun f => nameEq f.2 x.path)) ++ g.leaves.filter (·.blank)
          if coveredRange cover (cover.length + 1) cl.off (cl.off + cl.bytes) then []
          else [s!"C member {nameStr p.c}.{nameStr cl.path} (alternate view/padding) is not covered by mirrored fields"]
        else [s!"C member {nameStr p.c}.{nameStr cl.path} has no Go counterpart"])

/-- The layout agreement predicate for one pairing under given C and Go tables:
sizes equal; every paired field agrees in offset/width/count/class and is not blank; every
non-blank Go leaf is paired; every C leaf is paired or is a declared alternate view/padding whose
bytes are all covered by paired C leaves or blank Go leaves. -/
def pairOk (cs gs : List Rec) (p : Pairing) : Bool :=
  match findRec p.c cs, findRec p.go gs with
  | some c, some g =>
    c.size == g.size
    && p.fields.all (fun f =>
        match findLeaf f.1 g.leaves, findLeaf f.2 c.leaves with
        | some gl, some cl => !gl.blank && leafAgree gl cl
        | _, _ => false)
    && g.leaves.all (fun gl => gl.blank || p.fields.any (fun f => nameEq f.1 gl.path))
    && c.leaves.all (fun cl =>
        p.fields.any (fun f => nameEq f.2 cl.path)
        || (nameMem cl.path p.cAlt
            && coveredRange
                (c.leaves.filter (fun x => p.fields.any (fun f => nameEq f.2 x.path)) ++ g.leaves.filter (·.blank))
                (c.leaves.length + g.leaves.length + 1) cl.off (cl.off + cl.bytes)))
  | _, _ => false

/-! ## 2. The pairing (hand-written) -/

def ip6Alt (pfx : Name) : List Name :=
  [nameCat pfx n!".u6_addr16", nameCat pfx n!".u6_addr32", nameCat pfx n!".u6_addr64"]

def routingResultFields : List (Name × Name) :=
  [(n!"Mark", n!"mark"), (n!"Must", n!"must"), (n!"Mac", n!"mac"), (n!"Outbound", n!"outbound"),
   (n!"Pname", n!"pname"), (n!"Pid", n!"pid"), (n!"Dscp", n!"dscp")]

def daeParamFieldsC : List Name :=
  [n!"tproxy_port", n!"control_plane_pid", n!"dae0_ifindex", n!"dae_netns_id", n!"dae0peer_mac",
   n!"padding_after_mac", n!"use_redirect_peer", n!"has_bpf_get_current_task", n!"padding2", n!"dae_socket_mark"]

def pairing : List Pairing := [
  { c := n!"tuples_key", go := n!"stub.bpfTuplesKey", wire := true,
    fields := [(n!"Sip.U6Addr8", n!"sip.u6_addr8"), (n!"Dip.U6Addr8", n!"dip.u6_addr8"), (n!"Sport", n!"sport"),
               (n!"Dport", n!"dport"), (n!"L4proto", n!"l4proto")],
    cAlt := ip6Alt n!"sip" ++ ip6Alt n!"dip" },
  { c := n!"redirect_tuple", go := n!"stub.bpfRedirectTuple", wire := true,
    fields := [(n!"Sip.U6Addr8", n!"sip.u6_addr8"), (n!"Dip.U6Addr8", n!"dip.u6_addr8")],
    cAlt := ip6Alt n!"sip" ++ ip6Alt n!"dip" },
  { c := n!"redirect_entry", go := n!"stub.bpfRedirectEntry", wire := false,
    fields := [(n!"Ifindex", n!"ifindex"), (n!"Smac", n!"smac"), (n!"Dmac", n!"dmac"), (n!"FromWan", n!"from_wan"),
               (n!"Padding", n!"padding"), (n!"LastSeenNs", n!"last_seen_ns")],
    cAlt := [] },
  { c := n!"routing_result", go := n!"stub.bpfRoutingResult", wire := false,
    fields := routingResultFields, cAlt := [] },
  { c := n!"routing_result", go := n!"real.bpfRoutingResult", wire := false, real := true,
    fields := routingResultFields, cAlt := [] },
  { c := n!"routing_handoff_entry", go := n!"stub.bpfRoutingHandoffEntry", wire := false,
    fields := (n!"LastSeenNs", n!"last_seen_ns") :: routingResultFields.map (fun f => (nameCat n!"Result." f.1, nameCat n!"result." f.2)),
    cAlt := [] },
  { c := n!"dae_param", go := n!"stub.bpfDaeParam", wire := true,
    fields := [(n!"TproxyPort", n!"tproxy_port"), (n!"ControlPlanePid", n!"control_plane_pid"),
               (n!"Dae0Ifindex", n!"dae0_ifindex"), (n!"DaeNetnsId", n!"dae_netns_id"), (n!"Dae0peerMac", n!"dae0peer_mac"),
               (n!"PaddingAfterMac", n!"padding_after_mac"), (n!"UseRedirectPeer", n!"use_redirect_peer"),
               (n!"HasBpfGetCurrentTask", n!"has_bpf_get_current_task"), (n!"Padding2", n!"padding2"),
               (n!"DaeSocketMark", n!"dae_socket_mark")],
    cAlt := [] },
  { c := n!"dae_param", go := n!"real.PARAM", wire := true, real := true,
    fields := [(n!"tproxyPort", n!"tproxy_port"), (n!"controlPlanePid", n!"control_plane_pid"),
               (n!"dae0Ifindex", n!"dae0_ifindex"), (n!"daeNetnsId", n!"dae_netns_id"), (n!"dae0peerMac", n!"dae0peer_mac"),
               (n!"paddingAfterMac", n!"padding_after_mac"), (n!"useRedirectPeer", n!"use_redirect_peer"),
               (n!"hasBpfGetCurrentTask", n!"has_bpf_get_current_task"), (n!"padding2", n!"padding2"),
               (n!"daeSocketMark", n!"dae_socket_mark")],
    cAlt := [] },
  { c := n!"lpm_key", go := n!"stub._bpfLpmKey", wire := true,
    fields := [(n!"PrefixLen", n!"prefixlen"), (n!"Data", n!"data")], cAlt := [] },
  { c := n!"lpm_key", go := n!"real._bpfLpmKey", wire := true, real := true,
    fields := [(n!"PrefixLen", n!"prefixlen"), (n!"Data", n!"data")], cAlt := [] },
  { c := n!"port_range", go := n!"stub.bpfPortRange", wire := true,
    fields := [(n!"PortStart", n!"port_start"), (n!"PortEnd", n!"port_end")], cAlt := [] },
  { c := n!"match_set", go := n!"stub.bpfMatchSet", wire := true,
    fields := [(n!"Value", n!"__value"), (n!"Not", n!"not"), (n!"Type", n!"type"), (n!"Outbound", n!"outbound"),
               (n!"Must", n!"must"), (n!"Mark", n!"mark")],
    cAlt := [n!"index", n!"port_range.port_start", n!"port_range.port_end", n!"l4proto_type", n!"ip_version",
             n!"pname", n!"dscp"] },
  { c := n!"domain_routing", go := n!"stub.bpfDomainRouting", wire := true,
    fields := [(n!"Bitmap", n!"bitmap")], cAlt := [] },
  { c := n!"pid_pname", go := n!"stub.bpfPidPname", wire := false,
    fields := [(n!"LastSeenNs", n!"last_seen_ns"), (n!"Pid", n!"pid"), (n!"Pname", n!"pname")], cAlt := [] },
  { c := n!"conn_state", go := n!"stub.bpfConnState", wire := false,
    fields := [(n!"IsWanIngressDirection", n!"is_wan_ingress_direction"), (n!"State", n!"state"),
               (n!"LastSeenNs", n!"last_seen_ns"), (n!"Meta.Data.Mark", n!"meta.data.mark"),
               (n!"Meta.Data.Outbound", n!"meta.data.outbound"), (n!"Meta.Data.Must", n!"meta.data.must"),
               (n!"Meta.Data.Dscp", n!"meta.data.dscp"), (n!"Meta.Data.HasRouting", n!"meta.data.has_routing"),
               (n!"Mac", n!"mac"), (n!"Pname", n!"pname"), (n!"Pid", n!"pid")],
    cAlt := [n!"meta.raw", n!"padding"] },
  { c := n!"dae_event", go := n!"stub.bpfDaeEvent", wire := true,
    fields := [(n!"Timestamp", n!"timestamp"), (n!"Type", n!"type"), (n!"Pid", n!"pid"), (n!"Pname", n!"pname"),
               (n!"Outbound", n!"outbound"), (n!"L4proto", n!"l4proto"), (n!"Pad", n!"pad"), (n!"Sip", n!"sip"),
               (n!"Dip", n!"dip"), (n!"Sport", n!"sport"), (n!"Dport", n!"dport")],
    cAlt := [] }
]

/-- Go data struct types `bpf*` that do not mirror a C record (interface feature flags). A new
`bpf*` plain-data type must be added to `pairing` or here. -/
def goOnlyTypes : List Name := [n!"stub.bpfIfParams", n!"real.bpfIfParams"]

/-- GOARCHes of dae's release matrix with 8-byte aligned `uint64` (the stub types, which stand in for the bpf2go
output, are memory mirrors of the BPF ABI on these). -/
def arches64 : List Name :=
  [n!"amd64", n!"arm64", n!"riscv64", n!"loong64", n!"mips64", n!"mips64le", n!"ppc64", n!"ppc64le", n!"s390x"]

/-- All GOARCHes of the release matrix (`.github/workflows/prerelease.yml` + amd64 + arm). -/
def archesAll : List Name := arches64 ++ [n!"386", n!"arm", n!"mipsle", n!"mips"]

/-- The arches on which a pairing is required to hold: hand-written real-build types everywhere,
stub types on the 64-bit ones. -/
def Pairing.arches (p : Pairing) : List Name := if p.real then archesAll else arches64

/-- Every layout obligation: (pairing, arch) with `n!"packed"` for wire types that have no implicit
padding on the Go side.  `wire` stub types with implicit Go padding cannot exist: the packed check is
required of every `wire` pairing. -/
def layoutObligations : List (Pairing × Name) :=
  pairing.flatMap (fun p => (p.arches.map (fun a => (p, a))) ++ (if p.wire then [(p, n!"packed")] else []))

/-! ### Maps -/

/-- Maps whose Go handle exists (`bpfMaps`) but whose contents the control plane never reads or
writes: per-CPU scratch space of the kernel program. -/
def handleOnlyMaps : List Name := [n!"pkt_scratch_map"]

def isPairedC (n : Name) : Bool := pairing.any (fun p => nameEq p.c n)

/-- A shared map's record key/value types are mirrored, and the Go-declared handle exists in C. -/
def mapOk (m : CMap) : Bool :=
  !nameMem m.name Gen.goMapTags || nameMem m.name handleOnlyMaps ||
    ((nameEq m.keyRec n!"" || isPairedC m.keyRec) && (nameEq m.valRec n!"" || isPairedC m.valRec))

/-- Key/value widths the control plane uses for maps with scalar (or non-struct) keys/values:
(map, key bytes, value bytes; 0 = not used / not applicable). Hand-written from the Go call sites
(`Update(uint32, uint32)` for connectivity, `Update(ParamKey, uint64)` for listen sockets,
`[4]uint32` domain keys, `_bpfLpmKey` LPM keys with `uint32` values, `uint32` LPM array index). -/
def goScalarIO : List (Name × Nat × Nat) := [
  (n!"outbound_connectivity_map", 4, 4),
  (n!"listen_socket_map", 4, 8),
  (n!"routing_map", 4, 0),
  (n!"routing_meta_map", 4, 4),
  (n!"bpf_stats_map", 4, 8),
  (n!"cookie_pid_map", 8, 0),
  (n!"domain_routing_map", 16, 0),
  (n!"unused_lpm_type", 20, 4),
  (n!"lpm_array_map", 4, 0),
  (n!"fast_sock", 0, 8)]

def scalarIOOk (x : Name × Nat × Nat) : Bool :=
  match findMap x.1 Gen.cMaps with
  | some m => (x.2.1 == 0 || m.keySize == x.2.1) && (x.2.2 == 0 || m.valSize == x.2.2)
  | none => false

/-- one regenerated call site `<map>.Update/Lookup/Delete(key, value)`: when the static type of the
key (argument 0) / value (argument 1) is plain data, its size is the C map's key / value size. -/
def mapCallOk (c : Name × Name × Nat × Nat × String × String) : Bool :=
  match findMap c.1 Gen.cMaps with
  | some m =>
    c.2.2.2.1 == 0 || (if c.2.2.1 == 0 then m.keySize == c.2.2.2.1 else m.valSize == c.2.2.2.1)
  | none => false

/-! ### Constants -/

/-- Model of `cmd/generators/gen_ebpf_sync`: the (name, value) pairs it writes into
`common/consts/ebpf_generated.go` and `control/kern/ebpf_sync_defs.h`, group by group, for ANY
spec. -/
structure GenOut where
  matchTypes : List (Name × Nat)
  outbound : List (Name × Nat)
  l4 : List (Name × Nat)
  ip : List (Name × Nat)
deriving Repr, DecidableEq

/-- ASCII lower/upper case of one byte (spec names are C identifiers) -/
def lowerByte (b : Nat) : Nat := if 65 ≤ b ∧ b ≤ 90 then b + 32 else b
def upperByte (b : Nat) : Nat := if 97 ≤ b ∧ b ≤ 122 then b - 32 else b

/-- split a byte string on `_` (95), dropping empty parts -/
def splitUnderscore : List Nat → List Nat → List (List Nat)
  | [], cur => if cur.isEmpty then [] else [cur.reverse]
  | b :: bs, cur =>
    if b = 95 then (if cur.isEmpty then splitUnderscore bs [] else cur.reverse :: splitUnderscore bs [])
    else splitUnderscore bs (b :: cur)

def upperFirst : List Nat → List Nat
  | [] => []
  | c :: cs => upperByte c :: cs

/-- `toCamel(strings.ToLower(name))`: split on `_`, drop empty parts, capitalise each (ASCII). -/
def toCamelLower (s : Name) : Name :=
  nameOfBytes ((splitUnderscore ((nameBytes s).map lowerByte) []).map upperFirst).flatten

def goOutboundName (c : Name) : Name :=
  if nameEq c n!"DIRECT" then n!"OutboundDirect"
  else if nameEq c n!"BLOCK" then n!"OutboundBlock"
  else if nameEq c n!"MUST_RULES" then n!"OutboundMustRules"
  else if nameEq c n!"CONTROL_PLANE_ROUTING" then n!"OutboundControlPlaneRouting"
  else if nameEq c n!"LOGICAL_OR" then n!"OutboundLogicalOr"
  else if nameEq c n!"LOGICAL_AND" then n!"OutboundLogicalAnd"
  else if nameEq c n!"LOGICAL_MASK" then n!"OutboundLogicalMask"
  else nameCat n!"Outbound" (toCamelLower c)

/-- enumerate from `i` (the Go side uses `iota`, the C side prints the loop index). -/
def enumFrom (i : Nat) : List Name → List (Name × Nat)
  | [] => []
  | x :: xs => (x, i) :: enumFrom (i + 1) xs

def genGo (s : Spec) : GenOut :=
  { matchTypes := (enumFrom 0 s.matchTypes).map (fun x => (nameCat n!"MatchType_" x.1, x.2)),
    outbound := s.outbound.map (fun x => (goOutboundName x.1, x.2)),
    l4 := s.l4.map (fun x => (nameCat n!"L4ProtoType_" x.1, x.2)),
    ip := s.ip.map (fun x => (nameCat n!"IpVersion_" x.1, x.2)) }

def genC (s : Spec) : GenOut :=
  { matchTypes := (enumFrom 0 s.matchTypes).map (fun x => (nameCat n!"MatchType_" x.1, x.2)),
    outbound := s.outbound.map (fun x => (nameCat n!"OUTBOUND_" x.1, x.2)),
    l4 := s.l4.map (fun x => (nameCat n!"L4ProtoType_" x.1, x.2)),
    ip := s.ip.map (fun x => (nameCat n!"IpVersionType_" x.1, x.2)) }

def GenOut.all (g : GenOut) : List (Name × Nat) := g.matchTypes ++ g.outbound ++ g.l4 ++ g.ip

/-- the generated Go file as checked in carries exactly the generator's values -/
def goFileMatchesSpec : Bool :=
  (genGo Gen.specData).all.all (fun x => lookupConst (nameCat n!"consts." x.1) Gen.goConsts == some (x.2 : Int))

def cFileMatchesSpec : Bool :=
  (genC Gen.specData).all.all (fun x => lookupConst x.1 Gen.cConsts == some (x.2 : Int))

/-- pairs (Go constant, C constant) that the generator emits for the current spec -/
def specConstPairs : List (Name × Name) :=
  ((genGo Gen.specData).all.zip (genC Gen.specData).all).map (fun x => (nameCat n!"consts." x.1.1, x.2.1))

/-- hand-written pairs of constants that denote the same quantity -/
def fixedConstPairs : List (Name × Name) := [
  (n!"consts.TaskCommLen", n!"TASK_COMM_LEN"),
  (n!"consts.MaxMatchSetLen", n!"MAX_MATCH_SET_LEN"),
  (n!"consts.TproxyMark", n!"TPROXY_MARK"),
  (n!"consts.ZeroKey", n!"zero_key"),
  (n!"consts.OneKey", n!"one_key"),
  (n!"consts.TwoKey", n!"two_key"),
  (n!"consts.IPPROTO_TCP", n!"IPPROTO_TCP"),
  (n!"consts.IPPROTO_UDP", n!"IPPROTO_UDP"),
  (n!"consts.LinkHdrLen_Ethernet", n!"ETH_HLEN"),
  (n!"consts.L4ProtoType_TCP_UDP", n!"L4ProtoType_X"),
  (n!"control.defaultConnStateMapMaxEntries", n!"MAX_CONN_STATE_NUM"),
  -- conn_state_map idle limits: `tcp_conn_state_expired` (kernel, deletes on lookup) and
  -- `cleanupConnStateMap` (control-plane janitor) judge the same `last_seen_ns` of the same entries
  (n!"control.tcpConnStateTimeoutEstablished", n!"TCP_CONN_STATE_ESTABLISHED_TIMEOUT_NS"),
  (n!"control.tcpConnStateTimeoutClosing", n!"TCP_CONN_STATE_CLOSING_TIMEOUT_NS")]

def constPairOk (x : Name × Name) : Bool :=
  match lookupConst x.1 Gen.goConsts, lookupConst x.2 Gen.cConsts with
  | some a, some b => a == b
  | _, _ => false

def constPairProblem (x : Name × Name) : List String :=
  match lookupConst x.1 Gen.goConsts, lookupConst x.2 Gen.cConsts with
  | some a, some b => if a == b then [] else [s!"{nameStr x.1}={a} but {nameStr x.2}={b}"]
  | none, _ => [s!"Go constant {nameStr x.1} not found"]
  | _, none => [s!"C constant {nameStr x.2} not found"]

def goConstNat (n : Name) : Nat := ((lookupConst n Gen.goConsts).getD (-1)).toNat
def cConstNat (n : Name) : Nat := ((lookupConst n Gen.cConsts).getD (-1)).toNat

def leafCount (recs : List Rec) (r l : Name) : Nat :=
  match findRec r recs with
  | some rc => match findLeaf l rc.leaves with | some lf => lf.count | none => 0
  | none => 0

def mapMaxEntries (n : Name) : Nat := match findMap n Gen.cMaps with | some m => m.maxEntries | none => 0

/-- Limits that tie constants to array lengths and map sizes (name, holds). -/
def limitChecks : List (String × Bool) := [
  ("domain bitmap words * 32 = MaxMatchSetLen (Go) = MAX_MATCH_SET_LEN (C)",
    leafCount Gen.cRecs n!"domain_routing" n!"bitmap" * 32 == goConstNat n!"consts.MaxMatchSetLen"
    && leafCount (goRecsFor n!"amd64") n!"stub.bpfDomainRouting" n!"Bitmap" * 32 == cConstNat n!"MAX_MATCH_SET_LEN"),
  ("routing_map holds MaxMatchSetLen entries", mapMaxEntries n!"routing_map" == goConstNat n!"consts.MaxMatchSetLen"),
  ("lpm_array_map holds at least MaxMatchSetLen tries (Go allocates index % MaxMatchSetLen)",
    goConstNat n!"consts.MaxMatchSetLen" ≤ mapMaxEntries n!"lpm_array_map" && 0 < goConstNat n!"consts.MaxMatchSetLen"),
  ("outbound_connectivity_map holds 256 * slotsPerOutbound slots",
    mapMaxEntries n!"outbound_connectivity_map" == 256 * goConstNat n!"control.outboundConnectivitySlotsPerOutbound"),
  ("slotsPerOutbound = 3 * slotsPerDomain",
    goConstNat n!"control.outboundConnectivitySlotsPerOutbound" == 3 * goConstNat n!"control.outboundConnectivitySlotsPerDomain"),
  ("TaskCommLen = length of every pname member",
    leafCount Gen.cRecs n!"routing_result" n!"pname" == goConstNat n!"consts.TaskCommLen"
    && leafCount Gen.cRecs n!"conn_state" n!"pname" == goConstNat n!"consts.TaskCommLen"
    && leafCount Gen.cRecs n!"pid_pname" n!"pname" == goConstNat n!"consts.TaskCommLen"
    && leafCount Gen.cRecs n!"match_set" n!"pname" * 4 == goConstNat n!"consts.TaskCommLen"),
  ("conn_state_map default size", mapMaxEntries n!"conn_state_map" == goConstNat n!"control.defaultConnStateMapMaxEntries"),
  ("fast_sock placeholder size", mapMaxEntries n!"fast_sock" == goConstNat n!"control.fastSockPlaceholderMaxEntries"),
  ("listen_socket_map holds the three listener keys",
    goConstNat n!"consts.ZeroKey" < mapMaxEntries n!"listen_socket_map"
    && goConstNat n!"consts.OneKey" < mapMaxEntries n!"listen_socket_map"
    && goConstNat n!"consts.TwoKey" < mapMaxEntries n!"listen_socket_map"),
  ("user-defined outbound ids fit below the reserved ones",
    goConstNat n!"consts.OutboundUserDefinedMax" + 1 == cConstNat n!"OUTBOUND_MUST_RULES"
    && goConstNat n!"consts.OutboundUserDefinedMin" == cConstNat n!"OUTBOUND_BLOCK" + 1)
]

/-! ## 3. Bytes and byte order -/

inductive Endian where
  | little | big
deriving DecidableEq, Repr

/-- `w` bytes of `n`, least significant first. -/
def leBytes : Nat → Nat → List Nat
  | 0, _ => []
  | w + 1, n => n % 256 :: leBytes w (n / 256)

def leVal : List Nat → Nat
  | [] => 0
  | b :: bs => b + 256 * leVal bs

def beBytes (w n : Nat) : List Nat := (leBytes w n).reverse
def beVal (bs : List Nat) : Nat := leVal bs.reverse

/-- how a machine of byte order `e` stores a `w`-byte unsigned integer -/
def nativeBytes (e : Endian) (w n : Nat) : List Nat :=
  match e with
  | .little => leBytes w n
  | .big => beBytes w n

/-- how it loads one -/
def nativeVal (e : Endian) (bs : List Nat) : Nat :=
  match e with
  | .little => leVal bs
  | .big => beVal bs

def Bytes (bs : List Nat) : Prop := ∀ b ∈ bs, b < 256

instance (bs : List Nat) : Decidable (Bytes bs) := by unfold Bytes; infer_instance

def zeros (n : Nat) : List Nat := List.replicate n 0

/-- `common.Htons` / `bpf_htons`: store big-endian, load natively. -/
def htons (e : Endian) (p : Nat) : Nat := nativeVal e (beBytes 2 p)
/-- `bpf_htonl` -/
def htonl (e : Endian) (x : Nat) : Nat := nativeVal e (beBytes 4 x)

/-! ## 4. Map keys -/

/-- `::ffff:0:0/96` -/
def v4Prefix : List Nat := [0, 0, 0, 0, 0, 0, 0, 0, 0, 0, 0xff, 0xff]

/-- `netip.Addr` as the key constructors see it: `is4` and the 4 or 16 address bytes. -/
structure GoAddr where
  is4 : Bool
  bytes : List Nat
deriving DecidableEq, Repr

def GoAddr.is4In6 (a : GoAddr) : Bool := !a.is4 && a.bytes.take 12 == v4Prefix
def GoAddr.as16 (a : GoAddr) : List Nat := if a.is4 then v4Prefix ++ a.bytes else a.bytes
def GoAddr.as4 (a : GoAddr) : List Nat := if a.is4 then a.bytes else a.bytes.drop 12
/-- `common.ConvergeAddrPort` on the address -/
def GoAddr.converge (a : GoAddr) : GoAddr := if a.is4In6 then ⟨true, a.as4⟩ else a

structure GoAddrPort where
  addr : GoAddr
  port : Nat
deriving DecidableEq, Repr

/-- Memory image of the `bpfTuplesKey` returned by `bpfTuplesKeyFromAddrPorts(src, dst, l4proto)` on
a machine of byte order `e`: Sip, Dip (16 bytes each), Sport, Dport (`Htons`, stored natively),
L4proto, three zero bytes of explicit padding. -/
def goTuplesKey (e : Endian) (src dst : GoAddrPort) (proto : Nat) : List Nat :=
  let s := src.addr.converge
  let d := dst.addr.converge
  s.as16 ++ d.as16 ++ nativeBytes e 2 (htons e src.port) ++ nativeBytes e 2 (htons e dst.port)
    ++ [proto] ++ zeros 3

/-- A flow as it appears in a packet: address family of the IP header, the address bytes in network
order (4 or 16), ports, IP protocol number. -/
structure Flow where
  v4 : Bool
  src : List Nat
  dst : List Nat
  sport : Nat
  dport : Nat
  proto : Nat
deriving DecidableEq, Repr

def Flow.WF (f : Flow) : Prop :=
  (if f.v4 then f.src.length = 4 ∧ f.dst.length = 4 else f.src.length = 16 ∧ f.dst.length = 16)
  ∧ Bytes f.src ∧ Bytes f.dst ∧ f.sport < 65536 ∧ f.dport < 65536 ∧ f.proto < 256

instance (f : Flow) : Decidable f.WF := by unfold Flow.WF; infer_instance

/-- `get_tuples`: one address of `struct tuples_key` after `memset 0`. IPv4: words 0,1 stay zero,
word 2 = `bpf_htonl(0x0000ffff)` stored natively, word 3 = the address as it is in the IP header. -/
def cIp (e : Endian) (v4 : Bool) (a : List Nat) : List Nat :=
  if v4 then zeros 8 ++ nativeBytes e 4 (htonl e 0xffff) ++ a else a

/-- Memory image of `tuples.five` after `get_tuples` (ports are copied from the L4 header, where
they are in network order; bytes 37..39 are padding cleared by the `memset`). -/
def cTuplesKey (e : Endian) (f : Flow) : List Nat :=
  cIp e f.v4 f.src ++ cIp e f.v4 f.dst ++ beBytes 2 f.sport ++ beBytes 2 f.dport ++ [f.proto] ++ zeros 3

/-- `copy_reversed_tuples` on the 40 key bytes: memset, swap addresses, swap ports, keep l4proto. -/
def cReverseKey (k : List Nat) : List Nat :=
  (k.drop 16).take 16 ++ k.take 16 ++ (k.drop 34).take 2 ++ (k.drop 32).take 2 ++ (k.drop 36).take 1 ++ zeros 3

/-- What the control plane holds for a flow: `netip.AddrPort`s. An IPv4 peer is an `Is4` address, or
— when it arrives through a dual-stack socket — the IPv4-mapped IPv6 address (`mapped`). -/
def Flow.goSrc (f : Flow) (mapped : Bool) : GoAddrPort :=
  ⟨if f.v4 then (if mapped then ⟨false, v4Prefix ++ f.src⟩ else ⟨true, f.src⟩) else ⟨false, f.src⟩, f.sport⟩
def Flow.goDst (f : Flow) (mapped : Bool) : GoAddrPort :=
  ⟨if f.v4 then (if mapped then ⟨false, v4Prefix ++ f.dst⟩ else ⟨true, f.dst⟩) else ⟨false, f.dst⟩, f.dport⟩

def Flow.reverse (f : Flow) : Flow := { f with src := f.dst, dst := f.src, sport := f.dport, dport := f.sport }

/-! ### Outbound connectivity slots -/

inductive L4Str where
  | tcp | udp | other
deriving DecidableEq, Repr

inductive UdpDomain where
  | unset | dns | data
deriving DecidableEq, Repr

inductive IpStr where
  | v4 | v6 | other
deriving DecidableEq, Repr

/-- `dialer.NetworkType` (the fields the key depends on) -/
structure NetworkType where
  l4 : L4Str
  ip : IpStr
  udpDomain : UdpDomain
deriving DecidableEq, Repr

/-- `EffectiveUdpHealthDomain` -/
def NetworkType.effDomain (t : NetworkType) : UdpDomain :=
  if t.l4 ≠ .udp then .unset else if t.udpDomain ≠ .unset then t.udpDomain else .data

/-- `outboundConnectivityDomainIndex` with the Go constants read from the regenerated table. -/
def goDomainIdx (t : NetworkType) : Nat :=
  if t.l4 ≠ .udp then goConstNat n!"control.outboundConnectivityDomainTCP"
  else if t.effDomain = .dns then goConstNat n!"control.outboundConnectivityDomainDnsUDP"
  else goConstNat n!"control.outboundConnectivityDomainDataUDP"

/-- `outboundConnectivityMapKey` (uint32 arithmetic) -/
def goConnKey (outbound : Nat) (t : NetworkType) : Nat :=
  (outbound * goConstNat n!"control.outboundConnectivitySlotsPerOutbound"
    + goDomainIdx t * goConstNat n!"control.outboundConnectivitySlotsPerDomain"
    + (if t.ip = .v6 then 1 else 0)) % 2 ^ 32

/-- `wan_outbound_is_alive`: the slot the kernel reads, `none` when it does not consult the map
(destination port 53). `dport` is the port number, `ethIsV4` is `skb->protocol == htons(ETH_P_IP)`. -/
def cConnKey (outbound l4proto dport : Nat) (ethIsV4 : Bool) : Option Nat :=
  if dport = 53 then none
  else
    let domainIdx := if l4proto = 17 then (if dport = 53 then 1 else 2) else 0
    some ((outbound * 6 + domainIdx * 2 + (if ethIsV4 then 0 else 1)) % 2 ^ 32)

/-- The network type under which the control plane reports health for the traffic class of a packet:
TCP → tcp, non-DNS UDP → data UDP. -/
def ntOfPacket (l4proto : Nat) (ethIsV4 : Bool) : NetworkType :=
  { l4 := if l4proto = 17 then .udp else .tcp, ip := if ethIsV4 then .v4 else .v6,
    udpDomain := if l4proto = 17 then .data else .unset }

/-! ### Listener sockets -/

inductive Listener where
  | tcp4 | tcp6 | udp
deriving DecidableEq, Repr

/-- `assign_listener`: which `listen_socket_map` key the kernel uses (values of the C statics from the
regenerated table). -/
def cListenKey (l4proto : Nat) (ethIsV6 : Bool) : Nat :=
  if l4proto = 6 then (if ethIsV6 then cConstNat n!"two_key" else cConstNat n!"zero_key") else cConstNat n!"one_key"

def lookupName (n : Name) : List (Name × Name) → Name
  | [] => n!""
  | (k, v) :: rest => if nameEq k n then v else lookupName n rest

/-- which key the control plane stores each listener under: the constant named in the regenerated
call site `ListenSocketMap.Update(consts.K, uint64(<file>.Fd()), …)` of that listener's file. -/
def goListenKey : Listener → Nat
  | .tcp4 => goConstNat (lookupName n!"tcp4File" Gen.goListenUse)
  | .tcp6 => goConstNat (lookupName n!"tcp6File" Gen.goListenUse)
  | .udp => goConstNat (lookupName n!"udpFile" Gen.goListenUse)

def listenerOfPacket (l4proto : Nat) (ethIsV6 : Bool) : Listener :=
  if l4proto = 6 then (if ethIsV6 then .tcp6 else .tcp4) else .udp

/-! ### LPM keys and domain-routing keys -/

/-- `common.Ipv6ByteSliceToUint32Array`: four native loads. -/
def ipv6ToU32 (e : Endian) (ip : List Nat) : List Nat :=
  [nativeVal e (ip.take 4), nativeVal e ((ip.drop 4).take 4), nativeVal e ((ip.drop 8).take 4),
   nativeVal e ((ip.drop 12).take 4)]

/-- memory image of a `[4]uint32` -/
def u32ArrayBytes (e : Endian) (ws : List Nat) : List Nat := ws.flatMap (nativeBytes e 4)

/-- `netip.Prefix` as `cidrToBpfLpmKey` sees it -/
structure GoPrefix where
  addr : GoAddr
  bits : Nat
deriving DecidableEq, Repr

/-- memory image of `cidrToBpfLpmKey(prefix)`: PrefixLen (native u32), Data -/
def goLpmKey (e : Endian) (p : GoPrefix) : List Nat :=
  nativeBytes e 4 ((if p.addr.is4 then p.bits + 96 else p.bits) % 2 ^ 32)
    ++ u32ArrayBytes e (ipv6ToU32 e p.addr.as16)

/-- `route()`: the probe key for a 16-byte address (`prefixlen = 128`, `memcpy` of the address) -/
def cLpmProbe (e : Endian) (a16 : List Nat) : List Nat := nativeBytes e 4 128 ++ a16

/-- domain_routing_map key on the Go side: `Ipv6ByteSliceToUint32Array(ip.As16())` marshalled natively -/
def goDomainKey (e : Endian) (a : GoAddr) : List Nat := u32ArrayBytes e (ipv6ToU32 e a.as16)

/-- on the C side: `memcpy(daddr, ctx->lpm_key_daddr.data, 16)` -/
def cDomainKey (a16 : List Nat) : List Nat := a16

/-- the 16-byte form in which `route()` receives an address of a flow (`tuples.five.*ip`) -/
def flowAddr16 (v4 : Bool) (a : List Nat) : List Nat := if v4 then v4Prefix ++ a else a

/-! ### match_set value encodings (explicitly little-endian writes, read natively by C) -/

/-- `binary.LittleEndian.PutUint32(set.Value[:], idx)` -/
def goSetIndexValue (idx : Nat) : List Nat := leBytes 4 idx ++ zeros 12
/-- `bpfPortRange.Encode` -/
def goPortRangeValue (start stop : Nat) : List Nat := leBytes 2 start ++ leBytes 2 stop ++ zeros 12
/-- `match_set->index` -/
def cReadIndex (e : Endian) (v : List Nat) : Nat := nativeVal e (v.take 4)
/-- `match_set->port_range.{port_start,port_end}` -/
def cReadPortRange (e : Endian) (v : List Nat) : Nat × Nat := (nativeVal e (v.take 2), nativeVal e ((v.drop 2).take 2))

/-! ### The hand-written key images follow the regenerated layouts -/

/-- (offset, length in bytes) of a leaf of a record of a table -/
def leafSpan (recs : List Rec) (r l : Name) : Option (Nat × Nat) :=
  match findRec r recs with
  | some rc => match findLeaf l rc.leaves with | some lf => some (lf.off, lf.bytes) | none => none
  | none => none

def recSize (recs : List Rec) (r : Name) : Option Nat := (findRec r recs).map (·.size)

/-- The positions at which `goTuplesKey` / `cTuplesKey` / `cReverseKey` place the members (addresses at
0 and 16, ports at 32 and 34, protocol at 36, 40 bytes) are the positions of the regenerated C and Go
layouts; likewise prefix length at 0 and data at 4 of the 20-byte LPM key. If both sides move a member
consistently, `layouts_agree` still holds but this check fails and the byte-level model must follow. -/
def keyModelsFollowLayout : Bool :=
  let c := Gen.cRecs
  let g := goRecsFor n!"amd64"
  leafSpan c n!"tuples_key" n!"sip.u6_addr8" == some (0, 16) && leafSpan c n!"tuples_key" n!"dip.u6_addr8" == some (16, 16)
  && leafSpan c n!"tuples_key" n!"sport" == some (32, 2) && leafSpan c n!"tuples_key" n!"dport" == some (34, 2)
  && leafSpan c n!"tuples_key" n!"l4proto" == some (36, 1) && recSize c n!"tuples_key" == some 40
  && leafSpan g n!"stub.bpfTuplesKey" n!"Sip.U6Addr8" == some (0, 16) && leafSpan g n!"stub.bpfTuplesKey" n!"Dip.U6Addr8" == some (16, 16)
  && leafSpan g n!"stub.bpfTuplesKey" n!"Sport" == some (32, 2) && leafSpan g n!"stub.bpfTuplesKey" n!"Dport" == some (34, 2)
  && leafSpan g n!"stub.bpfTuplesKey" n!"L4proto" == some (36, 1) && recSize g n!"stub.bpfTuplesKey" == some 40
  && leafSpan c n!"lpm_key" n!"prefixlen" == some (0, 4) && leafSpan c n!"lpm_key" n!"data" == some (4, 16)
  && recSize c n!"lpm_key" == some 20
  && leafSpan g n!"real._bpfLpmKey" n!"PrefixLen" == some (0, 4) && leafSpan g n!"real._bpfLpmKey" n!"Data" == some (4, 16)
  && recSize g n!"real._bpfLpmKey" == some 20
  && leafSpan c n!"match_set" n!"index" == some (0, 4) && leafSpan c n!"match_set" n!"port_range.port_start" == some (0, 2)
  && leafSpan c n!"match_set" n!"port_range.port_end" == some (2, 2) && leafSpan g n!"stub.bpfMatchSet" n!"Value" == some (0, 16)
  && (findMap n!"domain_routing_map" Gen.cMaps).map (·.keySize) == some 16
  && (findMap n!"outbound_connectivity_map" Gen.cMaps).map (·.keySize) == some 4

/-! ## 5. Decoding bytes through a layout table (used by the correspondence harness and to state
what agreement of layouts means) -/

/-- the element values of leaf `l` in the byte image `bs` of a record, on a machine of byte order `e` -/
def decodeLeaf (e : Endian) (bs : List Nat) (l : Leaf) : List Nat :=
  (List.range l.count).map (fun i => nativeVal e ((bs.drop (l.off + i * l.esize)).take l.esize))

end DaeVerif.C19
