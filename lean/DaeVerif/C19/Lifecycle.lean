import DaeVerif.C19.Model
/-!
# C19, part 2 — where shared keys are BUILT, and the life of a `conn_state_map` key

Core-only, executable.

* §6 **Construction sites.** The translator lists every place where package control constructs or
  modifies a value of a `bpf*` data type (`Gen.goBuildSites`) and every package-level function that
  returns one (`Gen.goCtorSigs`).  A site of a type that is handed to the kernel (`Gen.goKernelBoundTypes`,
  derived from the map-I/O table) must be *classified*: named in `buildSiteClass` together with the
  harness stream that executes that function against the kernel-side constructor, or be the body of a
  helper constructor of a shape the generated harness executes on its own (`autoShape?`).  Everything
  else fails closed.
* §7 **Key derivations the kernel knows** for `struct tuples_key`: a helper that derives a key from
  address/ports must agree with `get_tuples` for the flow or for its reply direction; a helper that
  derives a key from a key must be the identity or `copy_reversed_tuples`.
* §8 **`conn_state_map` key lifecycle**: `UdpEndpoint.TrackUdpConnStateTuplePair`,
  `UdpEndpoint.adoptGeneration` → `controlPlaneCore.TransferRetainedUdpConnStateTuplesFrom`,
  `UdpEndpoint.releaseTrackedUdpConnState` → `controlPlaneCore.ReleaseUdpConnStateTuples` →
  `udpConnStateTracker.{Retain,BeginRelease,Forget,FinalizeRelease}` → `BpfMapBatchDelete`, as a
  sequential transition system over (endpoints, per-tracker reference counts, kernel map contents).
* §9 **`match_set` images**: all 24 bytes of what every `RoutingMatcherBuilder.add*` encoder stores.
-/
namespace DaeVerif.C19

/-! ## 6. Construction sites -/

/-- `stub.bpfTuplesKey` / `real._bpfLpmKey` ↦ `bpfTuplesKey` / `_bpfLpmKey` (both prefixes are 5 bytes). -/
def baseTypeName (n : Name) : Name :=
  let l := nameLen n
  if l ≤ 5 then n else
    let w := 1 <<< (8 * (l - 5))
    n % w + w

/-- The type is handed to the kernel as a map key or as a written value somewhere in package control. -/
def kernelBound (t : Name) : Bool :=
  Gen.goKernelBoundTypes.any (fun k => nameEq (baseTypeName k) (baseTypeName t))

/-- Hand-written: (function, type) ↦ the harness stream that executes THAT function and compares the
bytes it produced with the kernel side (native build of tproxy.c) and with this model. -/
def buildSiteClass : List (Name × Name × String) := [
  (n!"control.bpfTuplesKeyFromAddrPorts", n!"bpfTuplesKey", "tuples / flow cross-check / udptrack / rlookup"),
  (n!"control.cidrToBpfLpmKey", n!"_bpfLpmKey", "lpm / lpmhost / mackey (real build); the stub build's stand-in returns the zero key and never meets a map"),
  (n!"control.buildRoutingKernspace", n!"_bpfLpmKey", "slices filled element-wise by cidrToBpfLpmKey (lpm stream); the function itself is executed by C02's kernel-reload harness"),
  (n!"control.buildDomainRoutingOwnerSnapshot", n!"bpfDomainRouting", "domsync"),
  (n!"control.mergeDomainRoutingOwnerBitmaps", n!"bpfDomainRouting", "domsync (syncOwner merges the owners' bitmaps)"),
  (n!"control.orDomainRoutingBitmap", n!"bpfDomainRouting", "domsync"),
  (n!"control.RoutingMatcherBuilder.addDomain", n!"bpfMatchSet", "msimg"),
  (n!"control.RoutingMatcherBuilder.addIp", n!"bpfMatchSet", "msimg"),
  (n!"control.RoutingMatcherBuilder.addSourceIp", n!"bpfMatchSet", "msimg"),
  (n!"control.RoutingMatcherBuilder.addPort", n!"bpfMatchSet", "msimg"),
  (n!"control.RoutingMatcherBuilder.addSourcePort", n!"bpfMatchSet", "msimg"),
  (n!"control.RoutingMatcherBuilder.addL4Proto", n!"bpfMatchSet", "msimg"),
  (n!"control.RoutingMatcherBuilder.addIpVersion", n!"bpfMatchSet", "msimg"),
  (n!"control.RoutingMatcherBuilder.addSourceMac", n!"bpfMatchSet", "msimg"),
  (n!"control.RoutingMatcherBuilder.addProcessName", n!"bpfMatchSet", "msimg"),
  (n!"control.RoutingMatcherBuilder.addDscp", n!"bpfMatchSet", "msimg"),
  (n!"control.RoutingMatcherBuilder.addFallback", n!"bpfMatchSet", "msimg"),
  (n!"control.rewriteKernRulesWithRingLpmIndex", n!"bpfMatchSet", "ring")]

/-- Shapes of helper constructors the generated harness executes without being told about them:
`ap` = `(netip.AddrPort, netip.AddrPort, uint8) → bpfTuplesKey`, `kk` = `(*bpfTuplesKey | bpfTuplesKey) →
bpfTuplesKey`, `pfx` = `(netip.Prefix) → _bpfLpmKey`. -/
def autoShape? (c : CtorSig) : Option Name :=
  if c.nres != 1 then none
  else if nameEq (baseTypeName c.typ) n!"bpfTuplesKey" then
    (match c.params with
     | [a, b, p] => if nameEq a n!"netip.AddrPort" && nameEq b n!"netip.AddrPort" && nameEq p n!"uint8" then some n!"ap" else none
     | [k] => if nameEq k n!"*bpfTuplesKey" || nameEq k n!"bpfTuplesKey" then some n!"kk" else none
     | _ => none)
  else if nameEq (baseTypeName c.typ) n!"_bpfLpmKey" then
    (match c.params with
     | [p] => if nameEq p n!"netip.Prefix" then some n!"pfx" else none
     | _ => none)
  else none

/-- the site is the body of a helper constructor the generated harness executes -/
def autoExecuted (s : BuildSite) : Bool :=
  Gen.goCtorSigs.any fun c => nameEq (nameCat n!"control." c.fn) s.fn
    && nameEq (baseTypeName c.typ) (baseTypeName s.typ) && (autoShape? c).isSome

def buildSiteClassified (s : BuildSite) : Bool :=
  buildSiteClass.any (fun c => nameEq c.1 s.fn && nameEq c.2.1 (baseTypeName s.typ))

def buildSiteOk (s : BuildSite) : Bool :=
  !kernelBound s.typ || buildSiteClassified s || autoExecuted s

/-- Meaning the check insists on for the helper constructors it knows by name (`fwd` = `get_tuples` of the
flow src→dst, `lpm` = `struct lpm_key` of the prefix); a helper not listed here may be any ONE of the
kernel's derivations, consistently on all inputs. -/
def ctorMeaning : List (Name × Name) := [
  (n!"bpfTuplesKeyFromAddrPorts", n!"fwd"),
  (n!"cidrToBpfLpmKey", n!"lpm")]

/-- Non-blank top-level members of a Go record that the site never stores (diagnostic detail for an
unclassified `zero`/`lit` site). -/
def unsetFields (s : BuildSite) : List Name :=
  match findRec s.typ (goRecsFor n!"amd64") with
  | none => []
  | some r =>
    (r.leaves.filter fun l => !l.blank && !s.fields.any fun f =>
      nameEq f l.path || (nameLen f < nameLen l.path && nameEq (nameCat f n!".") (l.path >>> (8 * (nameLen l.path - nameLen f - 1))))).map (·.path)

/-! ## 7. Derivations of `struct tuples_key` the kernel has -/

/-- What a `(src, dst, proto) → key` helper may compute: the key `get_tuples` builds for a packet
src→dst, or the one for the reply direction. -/
def apCandidates (e : Endian) (src dst : GoAddrPort) (proto : Nat) : List (Name × List Nat) :=
  [(n!"fwd", goTuplesKey e src dst proto), (n!"rev", goTuplesKey e dst src proto)]

/-- What a `key → key` helper may compute: the key itself or `copy_reversed_tuples`. -/
def kkCandidates (k : List Nat) : List (Name × List Nat) :=
  [(n!"id", k), (n!"rev", cReverseKey k)]

/-! ## 8. Life of a `conn_state_map` key -/

abbrev Key := List Nat

/-- One `UdpEndpoint`: the generation (`controlPlaneCore`) that owns its conn-state bookkeeping,
`udpConnStateClosed`, and the key set `udpConnStateTuples`. -/
structure Endpoint where
  owner : Nat
  closed : Bool
  keys : List Key
deriving Repr, DecidableEq

/-- the endpoint is open and tracks `k` -/
def Endpoint.holds (ep : Endpoint) (k : Key) : Bool := !ep.closed && ep.keys.contains k

/-- `trackerOf g` = which `udpConnStateTracker` generation `g` uses (generations loaded over the same
`bpfObjects` share one through `sharedUdpConnStateTrackerRegistry`); a tracker is the multiset of
retained keys (`refs` = multiplicity); `kernel` = keys present in `conn_state_map`; `ever` (ghost, never
read by a transition) = every key some endpoint has tracked; `frozen` = injected fault (deletes fail). -/
structure UWorld where
  eps : List Endpoint
  trackerOf : List Nat
  trackers : List (List Key)
  kernel : List Key
  ever : List Key
  /-- fault: the map rejects deletions from user space (every `BpfMapBatchDelete` fails) -/
  frozen : Bool := false
deriving Repr

def UWorld.trk (w : UWorld) (g : Nat) : Nat := w.trackerOf.getD g 0

def insertKey (k : Key) (ks : List Key) : List Key := if ks.contains k then ks else ks ++ [k]

def modifyAt {α} : List α → Nat → (α → α) → List α
  | [], _, _ => []
  | x :: xs, 0, f => f x :: xs
  | x :: xs, i + 1, f => x :: modifyAt xs i f

/-- `udpConnStateTracker.Retain(keys)` -/
def retainAll (t : List Key) (ks : List Key) : List Key := ks ++ t
/-- `udpConnStateTracker.Forget(keys)`: one reference less per key (absent keys ignored) -/
def forgetAll (t : List Key) (ks : List Key) : List Key := ks.foldl (fun t k => t.erase k) t

/-- `ReleaseUdpConnStateTuples(keys)`: `BeginRelease` takes one reference per key; a key whose count
was one is deleted from the kernel map (`BpfMapBatchDelete`, a missing key is ignored) and
`FinalizeRelease` drops its tracker entry; an unknown key is skipped. Returns (tracker, kernel). -/
def releaseAll : List Key → List Key → List Key → List Key × List Key
  | t, kernel, [] => (t, kernel)
  | t, kernel, k :: ks =>
    if t.count k == 0 then releaseAll t kernel ks
    else if t.count k == 1 then releaseAll (t.erase k) (kernel.filter (· != k)) ks
    else releaseAll (t.erase k) kernel ks

inductive UOp where
  /-- the kernel program creates / refreshes the entry under key `k` -/
  | seen (k : Key)
  /-- `ue.TrackUdpConnStateTuplePair(src, dst)` on endpoint `i`, on a machine of byte order `e` -/
  | track (i : Nat) (e : Endian) (src dst : GoAddrPort)
  /-- `ue.adoptGeneration(core g, nil)` -/
  | adopt (i g : Nat)
  /-- `ue.releaseTrackedUdpConnState()` -/
  | release (i : Nat)
  /-- fault injection: from now on every deletion from `conn_state_map` fails (`BPF_MAP_FREEZE`) -/
  | freeze
deriving Repr

/-- The two keys `TrackUdpConnStateTuplePair` computes (code as it is: both through
`bpfTuplesKeyFromAddrPorts`, the reply direction with swapped arguments). -/
def trackKeys (e : Endian) (src dst : GoAddrPort) : Key × Key :=
  (goTuplesKey e src dst 17, goTuplesKey e dst src 17)

/-- the keys of the pair that the endpoint does not hold yet (`newKeys`) -/
def freshKeys (held : List Key) (ab : Key × Key) : List Key :=
  (if held.contains ab.1 then [] else [ab.1]) ++ (if held.contains ab.2 || ab.2 == ab.1 then [] else [ab.2])

def ustep (w : UWorld) : UOp → UWorld
  | .seen k => { w with kernel := insertKey k w.kernel }
  | .track i e src dst =>
    match w.eps[i]? with
    | none => w
    | some ep =>
      if ep.closed then w else
        let fresh := freshKeys ep.keys (trackKeys e src dst)
        { w with eps := modifyAt w.eps i (fun ep => { ep with keys := ep.keys ++ fresh })
                 trackers := modifyAt w.trackers (w.trk ep.owner) (fun t => retainAll t fresh)
                 ever := w.ever ++ fresh }
  | .adopt i g =>
    match w.eps[i]? with
    | none => w
    | some ep =>
      if ep.closed then w else
        let w' := { w with eps := modifyAt w.eps i (fun ep => { ep with owner := g }) }
        if w.trk g == w.trk ep.owner then w'
        else { w' with trackers := modifyAt (modifyAt w.trackers (w.trk g) (fun t => retainAll t ep.keys))
                                     (w.trk ep.owner) (fun t => forgetAll t ep.keys) }
  | .release i =>
    match w.eps[i]? with
    | none => w
    | some ep =>
      if ep.closed then w else
        let r := releaseAll (w.trackers.getD (w.trk ep.owner) []) w.kernel ep.keys
        { w with eps := modifyAt w.eps i (fun ep => { ep with closed := true, keys := [] })
                 trackers := modifyAt w.trackers (w.trk ep.owner) (fun _ => r.1)
                 -- a failing BpfMapBatchDelete leaves the entries; FinalizeRelease drops the tracker entries all the same
                 kernel := if w.frozen then w.kernel else r.2 }
  | .freeze => { w with frozen := true }

def urun (w : UWorld) (ops : List UOp) : UWorld := ops.foldl ustep w

/-- `n` fresh endpoints owned by generation 0; `trackerOf` as given, all trackers empty. -/
def UWorld.init (n : Nat) (trackerOf : List Nat) : UWorld :=
  ⟨List.replicate n ⟨0, false, []⟩, trackerOf, List.replicate (trackerOf.foldl max 0 + 1) [], [], [], false⟩

/-! ### Invariant of the lifecycle (used by `Props.conn_state_entries_never_outlive_their_endpoints`) -/

/-- number of open endpoints whose owner generation uses tracker `t` and that hold `k` -/
def holdersOf (eps : List Endpoint) (trackerOf : List Nat) (t : Nat) (k : Key) : Nat :=
  (eps.filter (fun ep => ep.holds k && trackerOf.getD ep.owner 0 == t)).length

/-- * every generation's tracker exists;
* a tracker's reference count of `k` = the number of open endpoints of its generations holding `k`;
* key sets are duplicate free;
* **no orphan**: an entry of `conn_state_map` under a key some endpoint has ever tracked is still held by
  an open endpoint;
* no deletion fault was injected. -/
structure UWorld.Inv (w : UWorld) : Prop where
  trk_lt : ∀ g, w.trk g < w.trackers.length
  counts : ∀ t k, t < w.trackers.length → (w.trackers.getD t []).count k = holdersOf w.eps w.trackerOf t k
  nodup : ∀ ep ∈ w.eps, ep.keys.Nodup
  noOrphan : ∀ k ∈ w.kernel, k ∈ w.ever → ∃ ep ∈ w.eps, ep.holds k = true
  notFrozen : w.frozen = false

/-- The assumptions about the environment: deletions from the map do not fail (no `freeze`), and the kernel program (re)creates an entry under a key the
control plane has tracked only while an open endpoint still holds it (the kernel creates conn-state for
packets of flows the control plane is relaying; an entry re-created AFTER the teardown of its endpoint is
outside the control plane's reach and left to the kernel's 120 s backstop). -/
def Timely (w : UWorld) : UOp → Prop
  | .seen k => k ∈ w.ever → ∃ ep ∈ w.eps, ep.holds k = true
  | .freeze => False
  | _ => True

def TimelyRun : UWorld → List UOp → Prop
  | _, [] => True
  | w, op :: ops => Timely w op ∧ TimelyRun (ustep w op) ops

instance (w : UWorld) (op : UOp) : Decidable (Timely w op) := by
  cases op <;> simp only [Timely] <;> infer_instance

def TimelyRun.dec : (w : UWorld) → (ops : List UOp) → Decidable (TimelyRun w ops)
  | _, [] => isTrue trivial
  | w, op :: ops => by
    unfold TimelyRun
    exact @instDecidableAnd _ _ _ (TimelyRun.dec (ustep w op) ops)

instance (w : UWorld) (ops : List UOp) : Decidable (TimelyRun w ops) := TimelyRun.dec w ops

/-! ## 9. `match_set` images -/

/-- All 24 bytes of the `bpfMatchSet` a `RoutingMatcherBuilder.add*` encoder appends: the 16-byte value
union, `not`, `type`, `outbound`, `must` (one byte each) and `mark` (native u32) — positions from the
regenerated Go layout (`keyModelsFollowLayout` pins them to the C record). -/
def goMatchSetImage (e : Endian) (value : List Nat) (not_ : Bool) (type outbound : Nat) (must : Bool) (mark : Nat) : List Nat :=
  value ++ [if not_ then 1 else 0, type % 256, outbound % 256, if must then 1 else 0] ++ nativeBytes e 4 mark

/-- the positions `goMatchSetImage` / `cMatchSetScalars` use are those of the regenerated layouts, both sides -/
def matchSetModelFollowsLayout : Bool :=
  let c := Gen.cRecs
  let g := goRecsFor n!"amd64"
  leafSpan c n!"match_set" n!"__value" == some (0, 16) && leafSpan c n!"match_set" n!"not" == some (16, 1)
  && leafSpan c n!"match_set" n!"type" == some (17, 1) && leafSpan c n!"match_set" n!"outbound" == some (18, 1)
  && leafSpan c n!"match_set" n!"must" == some (19, 1) && leafSpan c n!"match_set" n!"mark" == some (20, 4)
  && recSize c n!"match_set" == some 24 && leafSpan c n!"match_set" n!"pname" == some (0, 16) && leafSpan c n!"match_set" n!"dscp" == some (0, 1)
  && leafSpan g n!"stub.bpfMatchSet" n!"Value" == some (0, 16) && leafSpan g n!"stub.bpfMatchSet" n!"Not" == some (16, 1)
  && leafSpan g n!"stub.bpfMatchSet" n!"Type" == some (17, 1) && leafSpan g n!"stub.bpfMatchSet" n!"Outbound" == some (18, 1)
  && leafSpan g n!"stub.bpfMatchSet" n!"Must" == some (19, 1) && leafSpan g n!"stub.bpfMatchSet" n!"Mark" == some (20, 4)
  && recSize g n!"stub.bpfMatchSet" == some 24

/-- how the kernel reads the four scalar members and `mark` back -/
def cMatchSetScalars (e : Endian) (img : List Nat) : List Nat :=
  [img.getD 16 0, img.getD 17 0, img.getD 18 0, img.getD 19 0, nativeVal e ((img.drop 20).take 4)]

/-- `addProcessName`: the 16 bytes of the name, copied -/
def goPnameValue (p : List Nat) : List Nat := p.take 16 ++ zeros (16 - p.length)

end DaeVerif.C19
