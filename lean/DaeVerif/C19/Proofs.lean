import DaeVerif.C19.Model
/-! # C19 — helper lemmas (byte order, list surgery). The property theorems are in `Props.lean`. -/
namespace DaeVerif.C19

/-! ## little- and big-endian encodings round-trip -/

theorem leBytes_length (w n : Nat) : (leBytes w n).length = w := by
  induction w generalizing n with
  | zero => rfl
  | succ w ih => simp [leBytes, ih]

theorem leBytes_bytes (w n : Nat) : Bytes (leBytes w n) := by
  induction w generalizing n with
  | zero => intro b hb; simp [leBytes] at hb
  | succ w ih =>
    intro b hb
    simp only [leBytes, List.mem_cons] at hb
    rcases hb with rfl | hb
    · exact Nat.mod_lt _ (by decide)
    · exact ih _ b hb

theorem leVal_leBytes (w n : Nat) (h : n < 256 ^ w) : leVal (leBytes w n) = n := by
  induction w generalizing n with
  | zero => simp [leBytes, leVal]; simp at h; omega
  | succ w ih =>
    simp only [leBytes, leVal]
    have hq : n / 256 < 256 ^ w := by
      rw [Nat.div_lt_iff_lt_mul (by decide)]; rw [Nat.pow_succ] at h; exact h
    rw [ih _ hq]
    have := Nat.div_add_mod n 256
    omega

theorem leBytes_leVal (bs : List Nat) (h : Bytes bs) : leBytes bs.length (leVal bs) = bs := by
  induction bs with
  | nil => rfl
  | cons b bs ih =>
    have hb : b < 256 := h b (by simp)
    have hbs : Bytes bs := fun x hx => h x (by simp [hx])
    simp only [List.length_cons, leBytes, leVal]
    have h1 : (b + 256 * leVal bs) % 256 = b := by omega
    have h2 : (b + 256 * leVal bs) / 256 = leVal bs := by omega
    rw [h1, h2, ih hbs]

theorem beBytes_length (w n : Nat) : (beBytes w n).length = w := by
  simp [beBytes, leBytes_length]

theorem beBytes_bytes (w n : Nat) : Bytes (beBytes w n) := by
  intro b hb
  exact leBytes_bytes w n b (by simpa [beBytes] using hb)

theorem beVal_beBytes (w n : Nat) (h : n < 256 ^ w) : beVal (beBytes w n) = n := by
  simp [beVal, beBytes, leVal_leBytes w n h]

theorem beBytes_beVal (bs : List Nat) (h : Bytes bs) : beBytes bs.length (beVal bs) = bs := by
  have hr : Bytes bs.reverse := fun x hx => h x (by simpa using hx)
  have := leBytes_leVal bs.reverse hr
  simp only [List.length_reverse] at this
  simp [beBytes, beVal, this]

theorem nativeBytes_length (e : Endian) (w n : Nat) : (nativeBytes e w n).length = w := by
  cases e <;> simp [nativeBytes, leBytes_length, beBytes_length]

theorem nativeBytes_bytes (e : Endian) (w n : Nat) : Bytes (nativeBytes e w n) := by
  cases e
  · exact leBytes_bytes w n
  · exact beBytes_bytes w n

/-- storing what was loaded gives the same bytes back, on either byte order -/
theorem nativeBytes_nativeVal (e : Endian) (bs : List Nat) (h : Bytes bs) :
    nativeBytes e bs.length (nativeVal e bs) = bs := by
  cases e
  · exact leBytes_leVal bs h
  · exact beBytes_beVal bs h

theorem nativeVal_nativeBytes (e : Endian) (w n : Nat) (h : n < 256 ^ w) :
    nativeVal e (nativeBytes e w n) = n := by
  cases e
  · exact leVal_leBytes w n h
  · exact beVal_beBytes w n h

/-- `Htons(p)` stored natively is `p` in network order, on either byte order. -/
theorem store_htons (e : Endian) (p : Nat) : nativeBytes e 2 (htons e p) = beBytes 2 p := by
  have := nativeBytes_nativeVal e (beBytes 2 p) (beBytes_bytes 2 p)
  rw [beBytes_length] at this
  exact this

theorem store_htonl (e : Endian) (x : Nat) : nativeBytes e 4 (htonl e x) = beBytes 4 x := by
  have := nativeBytes_nativeVal e (beBytes 4 x) (beBytes_bytes 4 x)
  rw [beBytes_length] at this
  exact this

/-- a native load determines the bytes loaded -/
theorem nativeVal_inj (e : Endian) (a b : List Nat) (hl : a.length = b.length) (ha : Bytes a) (hb : Bytes b)
    (h : nativeVal e a = nativeVal e b) : a = b := by
  have h1 := nativeBytes_nativeVal e a ha
  have h2 := nativeBytes_nativeVal e b hb
  rw [h, hl] at h1
  rw [← h1, h2]

theorem bytes_append {a b : List Nat} (ha : Bytes a) (hb : Bytes b) : Bytes (a ++ b) := by
  intro x hx
  rcases List.mem_append.mp hx with h | h
  · exact ha x h
  · exact hb x h

theorem bytes_take {a : List Nat} (n : Nat) (ha : Bytes a) : Bytes (a.take n) :=
  fun x hx => ha x (List.mem_of_mem_take hx)

theorem bytes_drop {a : List Nat} (n : Nat) (ha : Bytes a) : Bytes (a.drop n) :=
  fun x hx => ha x (List.mem_of_mem_drop hx)

theorem v4Prefix_bytes : Bytes v4Prefix := by decide

/-! ## `Ipv6ByteSliceToUint32Array` followed by a native store is the identity on 16 bytes -/

theorem chunk_roundtrip (e : Endian) (c : List Nat) (hl : c.length = 4) (hb : Bytes c) :
    nativeBytes e 4 (nativeVal e c) = c := by
  have := nativeBytes_nativeVal e c hb
  rw [hl] at this
  exact this

theorem ipv6ToU32_identity (e : Endian) (a : List Nat) (hl : a.length = 16) (hb : Bytes a) :
    u32ArrayBytes e (ipv6ToU32 e a) = a := by
  unfold u32ArrayBytes ipv6ToU32
  simp only [List.flatMap_cons, List.flatMap_nil, List.append_nil]
  rw [chunk_roundtrip e (a.take 4) (by simp [hl]) (bytes_take 4 hb),
      chunk_roundtrip e ((a.drop 4).take 4) (by simp [hl]) (bytes_take 4 (bytes_drop 4 hb)),
      chunk_roundtrip e ((a.drop 8).take 4) (by simp [hl]) (bytes_take 4 (bytes_drop 8 hb)),
      chunk_roundtrip e ((a.drop 12).take 4) (by simp [hl]) (bytes_take 4 (bytes_drop 12 hb))]
  have h12 : (a.drop 12).take 4 = a.drop 12 := by
    apply List.take_of_length_le; simp [hl]
  rw [h12]
  have e1 : a.drop 12 = (a.drop 8).drop 4 := by simp
  have e2 : a.drop 8 = (a.drop 4).drop 4 := by simp
  rw [e1, List.take_append_drop, e2, List.take_append_drop, List.take_append_drop]

/-! ## addresses -/

theorem as16_converge_of_is4 (b : List Nat) : (GoAddr.converge ⟨true, b⟩).as16 = v4Prefix ++ b := by
  simp [GoAddr.converge, GoAddr.is4In6, GoAddr.as16]

theorem as16_converge_mapped (b : List Nat) : (GoAddr.converge ⟨false, v4Prefix ++ b⟩).as16 = v4Prefix ++ b := by
  have h : (v4Prefix ++ b).take 12 = v4Prefix := List.take_left' (by decide)
  have hd : (v4Prefix ++ b).drop 12 = b := List.drop_left' (by decide)
  simp [GoAddr.converge, GoAddr.is4In6, GoAddr.as16, GoAddr.as4, h, hd]

/-- converging an IPv6 address never changes its 16 bytes (it only changes how the address is
classified when the first 12 bytes are `::ffff:0:0/96`) -/
theorem as16_converge_v6 (b : List Nat) : (GoAddr.converge ⟨false, b⟩).as16 = b := by
  unfold GoAddr.converge GoAddr.is4In6
  by_cases h : (b.take 12 == v4Prefix) = true
  · have h' : b.take 12 = v4Prefix := by simpa using h
    simp only [Bool.not_false, Bool.true_and, h, if_true, GoAddr.as16, GoAddr.as4]
    simp only [Bool.false_eq_true, if_false]
    rw [← h', List.take_append_drop]
  · simp [h, GoAddr.as16]

theorem v4_word2 (e : Endian) : zeros 8 ++ nativeBytes e 4 (htonl e 0xffff) = v4Prefix := by
  rw [store_htonl]; decide

theorem cIp_eq (e : Endian) (v4 : Bool) (a : List Nat) : cIp e v4 a = flowAddr16 v4 a := by
  unfold cIp flowAddr16
  cases v4
  · simp
  · simp only [if_true]; rw [v4_word2]

theorem flowAddr16_length (v4 : Bool) (a : List Nat) (h : if v4 then a.length = 4 else a.length = 16) :
    (flowAddr16 v4 a).length = 16 := by
  unfold flowAddr16
  cases v4
  · simpa using h
  · simp only [if_true] at h ⊢; simp [v4Prefix, h]

theorem goSrc_as16 (f : Flow) (m : Bool) : (f.goSrc m).addr.converge.as16 = flowAddr16 f.v4 f.src := by
  unfold Flow.goSrc flowAddr16
  cases hv : f.v4 <;> cases m <;>
    simp [as16_converge_v6, as16_converge_of_is4]

theorem goDst_as16 (f : Flow) (m : Bool) : (f.goDst m).addr.converge.as16 = flowAddr16 f.v4 f.dst := by
  unfold Flow.goDst flowAddr16
  cases hv : f.v4 <;> cases m <;>
    simp [as16_converge_v6, as16_converge_of_is4]

/-! ## slicing the 40-byte key -/

theorem key_slices (a b p q x z : List Nat) (ha : a.length = 16) (hb : b.length = 16)
    (hp : p.length = 2) (hq : q.length = 2) (hx : x.length = 1) :
    let k := a ++ b ++ p ++ q ++ x ++ z
    k.take 16 = a ∧ (k.drop 16).take 16 = b ∧ (k.drop 32).take 2 = p ∧ (k.drop 34).take 2 = q
      ∧ (k.drop 36).take 1 = x := by
  intro k
  have hk : k = a ++ (b ++ (p ++ (q ++ (x ++ z)))) := by simp [k]
  refine ⟨?_, ?_, ?_, ?_, ?_⟩
  · rw [hk]; exact List.take_left' ha
  · rw [hk, List.drop_left' ha]; exact List.take_left' hb
  · have : k = (a ++ b) ++ (p ++ (q ++ (x ++ z))) := by simp [k]
    rw [this, List.drop_left' (by simp [ha, hb])]; exact List.take_left' hp
  · have : k = (a ++ b ++ p) ++ (q ++ (x ++ z)) := by simp [k]
    rw [this, List.drop_left' (by simp [ha, hb, hp])]; exact List.take_left' hq
  · have : k = (a ++ b ++ p ++ q) ++ (x ++ z) := by simp [k]
    rw [this, List.drop_left' (by simp [ha, hb, hp, hq])]; exact List.take_left' hx

/-! ## generator model -/

theorem enumFrom_map_snd (i : Nat) (l : List Name) :
    (enumFrom i l).map (·.2) = (List.range l.length).map (· + i) := by
  induction l generalizing i with
  | nil => rfl
  | cons x xs ih =>
    simp only [enumFrom, List.map_cons, List.length_cons, List.range_succ_eq_map, List.map_map, ih]
    simp only [Nat.zero_add, List.cons.injEq, true_and]
    apply List.map_congr_left
    intro a _
    simp only [Function.comp]
    omega

theorem enumFrom_getElem? (i : Nat) (l : List Name) (k : Nat) :
    (enumFrom i l)[k]? = (l[k]?).map (fun n => (n, i + k)) := by
  induction l generalizing i k with
  | nil => simp [enumFrom]
  | cons x xs ih =>
    cases k with
    | zero => simp [enumFrom]
    | succ k =>
      simp only [enumFrom, List.getElem?_cons_succ, ih]
      congr 1
      funext n
      congr 1
      omega

theorem goDomainIdx_le (t : NetworkType) : goDomainIdx ⟨6, 2, 0, 1, 2⟩ t ≤ 2 := by
  unfold goDomainIdx
  split
  · simp
  · split <;> simp


end DaeVerif.C19
