/-!
Line-protocol helpers shared by the per-property drivers (core-only).
-/
namespace DaeVerif.Proto

def hexDigit? (c : Char) : Option Nat :=
  if '0' ≤ c ∧ c ≤ '9' then some (c.toNat - '0'.toNat)
  else if 'a' ≤ c ∧ c ≤ 'f' then some (c.toNat - 'a'.toNat + 10)
  else if 'A' ≤ c ∧ c ≤ 'F' then some (c.toNat - 'A'.toNat + 10)
  else none

/-- big-endian hex string → number; `none` on a non-hex character. -/
def hexToNat? (s : String) : Option Nat :=
  s.toList.foldl (fun acc c => do let a ← acc; let d ← hexDigit? c; pure (a * 16 + d)) (some 0)

/-- hex string → bytes (two digits each). -/
def hexToBytes? (s : String) : Option (List Nat) :=
  let rec go : List Char → Option (List Nat)
    | [] => some []
    | [_] => none
    | a :: b :: rest => do
      let x ← hexDigit? a; let y ← hexDigit? b; let r ← go rest; pure ((x * 16 + y) :: r)
  go s.toList

def nibble (n : Nat) : Char := "0123456789abcdef".toList.getD n '?'

def bytesToHex (bs : List Nat) : String :=
  String.ofList (bs.flatMap fun b => [nibble (b / 16 % 16), nibble (b % 16)])

def boolStr (b : Bool) : String := if b then "1" else "0"

def stripNL (s : String) : String := String.ofList (s.toList.filter fun c => c != '\n' && c != '\r')

def words (line : String) : List String :=
  (line.splitOn " ").filter (· ≠ "")

/-- Read stdin line by line, print `f line` for each. -/
partial def lineLoop (f : String → String) : IO Unit := do
  let stdin ← IO.getStdin
  let stdout ← IO.getStdout
  let rec loop : IO Unit := do
    let line ← stdin.getLine
    if line.isEmpty then return ()
    let l := stripNL line
    stdout.putStrLn (f l)
    loop
  loop
  stdout.flush

/-- Stateful variant. -/
partial def lineLoopS {σ} (init : σ) (f : σ → String → σ × String) : IO Unit := do
  let stdin ← IO.getStdin
  let stdout ← IO.getStdout
  let rec loop (s : σ) : IO Unit := do
    let line ← stdin.getLine
    if line.isEmpty then return ()
    let l := stripNL line
    let (s', out) := f s l
    stdout.putStrLn out
    loop s'
  loop init
  stdout.flush

end DaeVerif.Proto
