/-!
# RuleScan — the OR/AND/NOT match-set scan equals first-match semantics

Shared by C01 (RoutingMatcher.Match), C02 (kernel route()), C04 (optimizers), C07 (DNS request /
response matchers): all four loops walk an array of match sets whose `outbound` byte is either a
logical sentinel (`or`, `and`), `must_rules`, or a final outbound; they keep `goodSubrule`,
`badRule` and a sticky `must` flag.  `scanAux` mirrors that loop; `firstMatch` is the
specification (first rule, top to bottom, whose conjunction of possibly-negated disjunctions
holds; `must_rules` only sets the flag and continues; fallback otherwise); `lower` mirrors
`RulesBuilder.Apply` + the per-function builders.  `scan_lower` is the refinement theorem.
Core-only.
-/
namespace DaeVerif.RuleScan

/-! Spike: the OR/AND/NOT scan equals first-match over rules. -/

inductive Tail (ο : Type) where
  | or | and | mustRules | final (o : ο)

structure Entry (κ ο : Type) where
  cond : κ
  neg : Bool
  tail : Tail ο

variable {κ ο : Type}

/-- mirrors the Go loop (goodSubrule / badRule / sticky must). -/
def scanAux (ev : κ → Bool) : List (Entry κ ο) → (good bad must : Bool) → Option (ο × Bool)
  | [], _, _, _ => none
  | e :: es, good, bad, must =>
    let good' := if bad || good then good else ev e.cond
    match e.tail with
    | .or => scanAux ev es good' bad must
    | .and => scanAux ev es false (bad || (good' == e.neg)) must
    | .mustRules =>
      if bad || (good' == e.neg) then scanAux ev es false false must
      else scanAux ev es false false true
    | .final o =>
      if bad || (good' == e.neg) then scanAux ev es false false must
      else some (o, must)

inductive RuleOut (ο : Type) where
  | final (o : ο) | mustRules

structure Cond (κ : Type) where
  neg : Bool
  first : κ
  rest : List κ          -- non-empty alternatives by construction

structure Rule (κ ο : Type) where
  first : Cond κ
  rest : List (Cond κ)   -- non-empty conjunction by construction
  out : RuleOut ο

def Cond.alts (c : Cond κ) : List κ := c.first :: c.rest
def Rule.conds (r : Rule κ ο) : List (Cond κ) := r.first :: r.rest

def condHolds (ev : κ → Bool) (c : Cond κ) : Bool := (c.alts.any ev) != c.neg
def ruleHolds (ev : κ → Bool) (r : Rule κ ο) : Bool := r.conds.all (condHolds ev)

/-- the spec -/
def firstMatch (ev : κ → Bool) : List (Rule κ ο) → (fb : ο) → (must : Bool) → ο × Bool
  | [], fb, must => (fb, must)
  | r :: rs, fb, must =>
    if ruleHolds ev r then
      match r.out with
      | .final o => (o, must)
      | .mustRules => firstMatch ev rs fb true
    else firstMatch ev rs fb must

/-- lowering: alternatives chained with `or`, last alternative carries `last`. -/
def lowerAlts (neg : Bool) (last : Tail ο) : κ → List κ → List (Entry κ ο)
  | k, [] => [⟨k, neg, last⟩]
  | k, k' :: ks => ⟨k, neg, .or⟩ :: lowerAlts neg last k' ks

def lowerCond (last : Tail ο) (c : Cond κ) : List (Entry κ ο) := lowerAlts c.neg last c.first c.rest

def outTail : RuleOut ο → Tail ο
  | .final o => .final o
  | .mustRules => .mustRules

def lowerConds (out : Tail ο) : Cond κ → List (Cond κ) → List (Entry κ ο)
  | c, [] => lowerCond out c
  | c, c' :: cs => lowerCond .and c ++ lowerConds out c' cs

def lowerRule (r : Rule κ ο) : List (Entry κ ο) := lowerConds (outTail r.out) r.first r.rest

def lower (rs : List (Rule κ ο)) : List (Entry κ ο) := rs.flatMap lowerRule


/-- what the loop does at the last entry of a chain, given the accumulated `g`. -/
def tailStep (ev : κ → Bool) (last : Tail ο) (neg : Bool) (rest : List (Entry κ ο))
    (g bad must : Bool) : Option (ο × Bool) :=
  match last with
  | .or => scanAux ev rest g bad must
  | .and => scanAux ev rest false (bad || (g == neg)) must
  | .mustRules =>
    if bad || (g == neg) then scanAux ev rest false false must
    else scanAux ev rest false false true
  | .final o =>
    if bad || (g == neg) then scanAux ev rest false false must
    else some (o, must)

theorem scanAux_cons (ev : κ → Bool) (e : Entry κ ο) (es : List (Entry κ ο)) (good bad must : Bool) :
    scanAux ev (e :: es) good bad must =
      tailStep ev e.tail e.neg es (if bad || good then good else ev e.cond) bad must := by
  cases h : e.tail <;> simp [scanAux, tailStep, h]

theorem scanAux_or (ev : κ → Bool) (k : κ) (neg : Bool) (es : List (Entry κ ο)) (good bad must : Bool) :
    scanAux ev (⟨k, neg, .or⟩ :: es) good bad must =
      scanAux ev es (if bad || good then good else ev k) bad must := by
  simp [scanAux]

theorem scan_alts (ev : κ → Bool) (neg : Bool) (last : Tail ο) (ks : List κ) :
    ∀ (k : κ) (rest : List (Entry κ ο)) (good bad must : Bool),
    scanAux ev (lowerAlts neg last k ks ++ rest) good bad must =
      tailStep ev last neg rest (if bad then good else good || (k :: ks).any ev) bad must := by
  induction ks with
  | nil =>
    intro k rest good bad must
    simp only [lowerAlts, List.cons_append, List.nil_append, scanAux_cons]
    have : (if bad || good then good else ev k) = (if bad then good else good || [k].any ev) := by
      cases bad <;> cases good <;> simp
    rw [this]
  | cons k' ks ih =>
    intro k rest good bad must
    simp only [lowerAlts, List.cons_append, scanAux_or]
    rw [ih]
    have : (if bad then (if bad || good then good else ev k)
              else (if bad || good then good else ev k) || (k' :: ks).any ev)
         = (if bad then good else good || (k :: k' :: ks).any ev) := by
      simp only [List.any_cons]
      cases bad <;> cases good <;> cases ev k <;> cases ev k' <;> cases ks.any ev <;> rfl
    rw [this]

/-- the decision at the end of a rule, as a function of "is the rule already bad". -/
def ruleEnd (ev : κ → Bool) (out : RuleOut ο) (rest : List (Entry κ ο)) (must : Bool) (bad : Bool) :
    Option (ο × Bool) :=
  match bad with
  | true => scanAux ev rest false false must
  | false =>
    match out with
    | .final o => some (o, must)
    | .mustRules => scanAux ev rest false false true

theorem tailStep_out (ev : κ → Bool) (out : RuleOut ο) (neg : Bool) (rest : List (Entry κ ο))
    (g bad must : Bool) :
    tailStep ev (outTail out) neg rest g bad must = ruleEnd ev out rest must (bad || (g == neg)) := by
  cases out <;> cases bad <;> cases g <;> cases neg <;> simp [tailStep, outTail, ruleEnd]

theorem scan_conds (ev : κ → Bool) (out : RuleOut ο) (cs : List (Cond κ)) :
    ∀ (c : Cond κ) (rest : List (Entry κ ο)) (bad must : Bool),
    scanAux ev (lowerConds (outTail out) c cs ++ rest) false bad must =
      ruleEnd ev out rest must (bad || !((c :: cs).all (condHolds ev))) := by
  induction cs with
  | nil =>
    intro c rest bad must
    simp only [lowerConds, lowerCond, scan_alts, tailStep_out, condHolds, Cond.alts, List.all_cons,
      List.all_nil, Bool.and_true]
    congr 1
    cases bad <;> cases (c.first :: c.rest).any ev <;> cases c.neg <;> rfl
  | cons c' cs ih =>
    intro c rest bad must
    simp only [lowerConds, lowerCond, List.append_assoc, scan_alts, tailStep]
    rw [ih]
    congr 1
    simp only [condHolds, Cond.alts, List.all_cons]
    cases bad <;> cases (c.first :: c.rest).any ev <;> cases c.neg <;>
      cases ((c'.first :: c'.rest).any ev != c'.neg) <;>
      cases cs.all (fun c => (c.first :: c.rest).any ev != c.neg) <;> rfl

theorem scan_rule (ev : κ → Bool) (r : Rule κ ο) (rest : List (Entry κ ο)) (must : Bool) :
    scanAux ev (lowerRule r ++ rest) false false must =
      ruleEnd ev r.out rest must (!ruleHolds ev r) := by
  simp only [lowerRule, scan_conds, ruleHolds, Rule.conds, Bool.false_or]

/-- the fallback entry: a condition that always holds -/
theorem scan_lower (ev : κ → Bool) (kfb : κ) (hfb : ev kfb = true) (fb : ο) (rs : List (Rule κ ο)) :
    ∀ must, scanAux ev (lower rs ++ [⟨kfb, false, .final fb⟩]) false false must =
      some (firstMatch ev rs fb must) := by
  induction rs with
  | nil => intro must; simp [lower, scanAux, firstMatch, hfb]
  | cons r rs ih =>
    intro must
    have : lower (r :: rs) = lowerRule r ++ lower rs := by simp [lower]
    rw [this, List.append_assoc, scan_rule]
    simp only [firstMatch]
    cases h : ruleHolds ev r
    · simp [ruleEnd, ih]
    · cases hr : r.out <;> simp [ruleEnd, ih]


end DaeVerif.RuleScan

