import Lean
/-!
`#audit_namespace Foo.Bar` prints, for every theorem whose name has the prefix `Foo.Bar`,
one line `AUDIT <name> :: <axioms, comma separated>`.  The check driver parses these lines:
the number of lines is the number of proof obligations, and an obligation counts as discharged
only when its axioms are a subset of {propext, Classical.choice, Quot.sound}.
-/
open Lean Elab Command

elab "#audit_namespace " id:ident : command => do
  let ns := id.getId
  let env ← getEnv
  let mut names : Array Name := #[]
  for (n, ci) in env.constants.map₁.toList ++ env.constants.map₂.toList do
    if ns.isPrefixOf n && !n.isInternal then
      match ci with
      | .thmInfo _ => names := names.push n
      | _ => pure ()
  let sorted := names.qsort (fun a b => a.toString < b.toString)
  for n in sorted do
    let axs ← liftCoreM (collectAxioms n)
    let axs := axs.qsort (fun a b => a.toString < b.toString)
    logInfo m!"AUDIT {n} :: {", ".intercalate (axs.toList.map (·.toString))}"
