import DaeVerif.C03.Parse
/-!
# C03 — the two header parsers agree (helper lemmas)

For every frame whose linear area is a prefix of the skb (`lin ≤ bytes.length`): whenever the fast
parser does not give up (`fallback`), it returns exactly what the slow parser returns — same return
code, same consumed context fields.
-/
namespace DaeVerif.C03

theorem rd_slice (bs : Bytes) (o n i : Nat) (h : i < n) : rd (slice bs o n) i = rd bs (o + i) := by
  simp [rd, slice, List.getD, h]

theorem be16_slice (bs : Bytes) (o n i : Nat) (h : i + 1 < n) :
    be16 (slice bs o n) i = be16 bs (o + i) := by
  unfold be16
  rw [rd_slice bs o n i (by omega), rd_slice bs o n (i + 1) h]
  rfl

theorem slice_slice (bs : Bytes) (o n a m : Nat) (h : a + m ≤ n) :
    slice (slice bs o n) a m = slice bs (o + a) m := by
  unfold slice
  apply List.map_congr_left
  intro i hi
  have hi' : i < m := by simpa using hi
  have := rd_slice bs o n (a + i) (by omega)
  unfold slice at this
  rw [this, Nat.add_assoc]

theorem loadBytes_of_le (bs : Bytes) (o n : Nat) (h : o + n ≤ bs.length) :
    loadBytes bs o n = some (slice bs o n) := by
  unfold loadBytes
  have : ¬ (o + n > bs.length) := by omega
  simp [this]

/-- "did not give up ⇒ same answer as the slow parser" -/
def Agree (f s : PR) : Prop := f = .fallback ∨ f = s

theorem fastTcp_agree (bs : Bytes) (lin o : Nat) (c : Ctx) (hl : lin ≤ bs.length) :
    Agree (fastTcp bs lin o c) (slowTcp bs o c) := by
  unfold Agree fastTcp slowTcp
  by_cases h : o + 20 > lin
  · left; simp [h]
  · right
    rw [loadBytes_of_le bs o 20 (by omega)]
    simp only [h, if_false, tcphSport, tcphDport, tcphFlags]
    rw [be16_slice bs o 20 0 (by omega), be16_slice bs o 20 2 (by omega), rd_slice bs o 20 13 (by omega)]
    rfl

theorem fastUdp_agree (bs : Bytes) (lin o : Nat) (c : Ctx) (hl : lin ≤ bs.length) :
    Agree (fastUdp bs lin o c) (slowUdp bs o c) := by
  unfold Agree fastUdp slowUdp
  by_cases h : o + 8 > lin
  · left; simp [h]
  · right
    rw [loadBytes_of_le bs o 8 (by omega)]
    simp only [h, if_false]
    rw [be16_slice bs o 8 0 (by omega), be16_slice bs o 8 2 (by omega)]
    rfl

theorem fastIcmp6_agree (bs : Bytes) (lin o : Nat) (c : Ctx) (hl : lin ≤ bs.length) :
    Agree (fastIcmp6 bs lin o c) (slowIcmp6 bs o c) := by
  unfold Agree fastIcmp6 slowIcmp6
  by_cases h : o + 8 > lin
  · left; simp [h]
  · right
    rw [loadBytes_of_le bs o 8 (by omega)]
    simp only [h, if_false]
    rw [rd_slice bs o 8 0 (by omega)]
    rfl

theorem fastV4_agree (bs : Bytes) (lin o : Nat) (c : Ctx) (hl : lin ≤ bs.length) :
    Agree (fastV4 bs lin o c) (slowV4 bs o c) := by
  unfold fastV4 slowV4
  by_cases h : o + 20 > lin
  · left; simp [h]
  · rw [loadBytes_of_le bs o 20 (by omega)]
    simp only [h, if_false]
    rw [rd_slice bs o 20 0 (by omega), rd_slice bs o 20 1 (by omega), rd_slice bs o 20 9 (by omega),
      be16_slice bs o 20 6 (by omega), slice_slice bs o 20 12 4 (by omega), slice_slice bs o 20 16 4 (by omega)]
    simp only [Nat.add_zero]
    by_cases h5 : rd bs o % 16 < 5
    · right; simp [h5]
    · simp only [h5, if_false]
      by_cases hf : (be16 bs (o + 6) % 8192 != 0) = true
      · right; simp [hf]
      · simp only [hf]
        by_cases ht : rd bs (o + 9) = IPPROTO_TCP
        · simp only [ht, if_true]; exact fastTcp_agree bs lin _ _ hl
        · simp only [ht, if_false]
          by_cases hu : rd bs (o + 9) = IPPROTO_UDP
          · simp only [hu, if_true]; exact fastUdp_agree bs lin _ _ hl
          · right; simp [hu]

/-- the extension-header loops: the fast one gives up or agrees -/
theorem fastLoop_agree (bs : Bytes) (lin : Nat) (hl : lin ≤ bs.length) :
    ∀ (fuel nh off : Nat), fastLoop bs lin fuel nh off = .fallback ∨
      fastLoop bs lin fuel nh off = slowLoop bs fuel nh off := by
  intro fuel
  induction fuel with
  | zero => intro nh off; right; rfl
  | succ f ih =>
    intro nh off
    unfold fastLoop slowLoop
    by_cases hn : nh = IPPROTO_NONE
    · right; simp [hn]
    · simp only [hn, if_false]
      by_cases hfr : nh = IPPROTO_FRAGMENT
      · simp only [hfr, if_true]
        by_cases h8 : off + 8 > lin
        · left; simp [h8]
        · rw [loadBytes_of_le bs off 8 (by omega)]
          simp only [h8, if_false]
          rw [be16_slice bs off 8 2 (by omega), rd_slice bs off 8 0 (by omega)]
          simp only [Nat.add_zero]
          by_cases hfo : (be16 bs (off + 2) / 8 != 0) = true
          · right; simp [hfo]
          · simp only [hfo]; exact ih _ _
      · simp only [hfr, if_false]
        by_cases he : (!isExt nh) = true
        · right; simp [he]
        · simp only [he]
          by_cases h2 : off + 2 > lin
          · left; simp [h2]
          · rw [loadBytes_of_le bs off 1 (by omega), loadBytes_of_le bs (off + 1) 1 (by omega)]
            simp only [h2, if_false]
            rw [rd_slice bs off 1 0 (by omega), rd_slice bs (off + 1) 1 0 (by omega)]
            simp only [Nat.add_zero]
            exact ih _ _

theorem fastV6_agree (bs : Bytes) (lin o : Nat) (c : Ctx) (hl : lin ≤ bs.length) :
    Agree (fastV6 bs lin o c) (slowV6 bs o c) := by
  unfold fastV6 slowV6
  by_cases h : o + 40 > lin
  · left; simp [h]
  · rw [loadBytes_of_le bs o 40 (by omega)]
    simp only [h, if_false]
    rw [rd_slice bs o 40 0 (by omega), rd_slice bs o 40 1 (by omega), rd_slice bs o 40 6 (by omega),
      slice_slice bs o 40 8 16 (by omega), slice_slice bs o 40 24 16 (by omega)]
    simp only [Nat.add_zero]
    rcases fastLoop_agree bs lin hl IPV6_MAX_EXTENSIONS (rd bs (o + 6)) (o + 40) with hfb | heq
    · left; rw [hfb]
    · rw [heq]
      cases hs : slowLoop bs IPV6_MAX_EXTENSIONS (rd bs (o + 6)) (o + 40) with
      | fallback => left; rfl
      | efault => right; rfl
      | frag nh => right; rfl
      | done nh off =>
        simp only
        by_cases he : isExt nh = true
        · right; simp [he]
        · simp only [he]
          by_cases ht : nh = IPPROTO_TCP
          · simp only [ht, if_true]; exact fastTcp_agree bs lin _ _ hl
          · simp only [ht, if_false]
            by_cases hu : nh = IPPROTO_UDP
            · simp only [hu, if_true]; exact fastUdp_agree bs lin _ _ hl
            · simp only [hu, if_false]
              by_cases hi : nh = IPPROTO_ICMPV6
              · simp only [hi, if_true]; exact fastIcmp6_agree bs lin _ _ hl
              · right; simp [hi]

theorem parseFast_agree (r : Raw) (l2 : Bool) (hl : r.lin ≤ r.bytes.length) :
    Agree (parseFast r l2) (parseSlow r l2) := by
  unfold parseFast parseSlow
  by_cases hp : r.pullOk = true
  · simp only [hp, Bool.not_true, Bool.false_eq_true, if_false]
    cases l2 with
    | true =>
      simp only [if_true]
      by_cases h14 : 14 > r.lin
      · left; simp [h14]
      · rw [loadBytes_of_le r.bytes 0 14 (by omega)]
        simp only [h14, if_false]
        rw [be16_slice r.bytes 0 14 12 (by omega), slice_slice r.bytes 0 14 0 6 (by omega),
          slice_slice r.bytes 0 14 6 6 (by omega)]
        simp only [Nat.zero_add]
        by_cases h4 : be16 r.bytes 12 = ETH_P_IP
        · simp only [h4, if_true]; exact fastV4_agree _ _ _ _ hl
        · simp only [h4, if_false]
          by_cases h6 : be16 r.bytes 12 = ETH_P_IPV6
          · simp only [h6, if_true]; exact fastV6_agree _ _ _ _ hl
          · right; simp [h6]
    | false =>
      simp only [Bool.false_eq_true, if_false]
      by_cases h4 : r.proto = ETH_P_IP
      · simp only [h4, if_true]; exact fastV4_agree _ _ _ _ hl
      · simp only [h4, if_false]
        by_cases h6 : r.proto = ETH_P_IPV6
        · simp only [h6, if_true]; exact fastV6_agree _ _ _ _ hl
        · right; simp [h6]
  · left
    have : r.pullOk = false := by cases h : r.pullOk <;> simp_all
    simp [this]

/-- whichever path handled the frame, `parse_transport` returns what the slow parser returns -/
theorem parseTransport_eq_slow (r : Raw) (l2 : Bool) (hl : r.lin ≤ r.bytes.length) :
    parseTransport r l2 = parseSlow r l2 := by
  unfold parseTransport
  rcases parseFast_agree r l2 hl with h | h
  · rw [h]
  · rw [h]
    cases hs : parseSlow r l2 <;> rfl

/-- the slow parser never answers -1 -/
theorem slowLoop_ne_fallback (bs : Bytes) : ∀ (fuel nh off : Nat), slowLoop bs fuel nh off ≠ .fallback := by
  intro fuel
  induction fuel with
  | zero => intro nh off; unfold slowLoop; simp
  | succ f ih =>
    intro nh off
    unfold slowLoop
    split
    · simp
    · split
      · split
        · simp
        · split
          · simp
          · exact ih _ _
      · split
        · simp
        · split
          · simp
          · split
            · simp
            · exact ih _ _

end DaeVerif.C03
