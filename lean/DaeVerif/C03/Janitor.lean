import DaeVerif.C03.Runs
/-!
# C03 — the control plane's janitors (`cleanupConnStateMapBeforeLocked`, `cleanupRoutingHandoffMapBeforeLocked`)

They run on a timer in userspace and DELETE entries of `conn_state_map` / `routing_handoff_map`, i.e.
they end the tracking the datapath theorems talk about.  Steady state uses the kernel's own idle
timeouts (120 s established TCP, 10 s closing TCP, 120 s UDP; 17 s for UDP tuples with port 53,
which the kernel never tracks); under pressure (map ≥ 70 % full or an overflow was counted) every
timeout is HALVED.  `staleBeforeNs` (reload retirement) is not modelled (0).
-/
namespace DaeVerif.C03

def JANITOR_UDP_DNS_TIMEOUT : Nat := 17000000000

/-- the timeout the conn-state janitor applies to an entry; `none`: entries of other protocols are skipped -/
def janitorTimeout (aggressive : Bool) (k : Key) (cs : ConnState) : Option Nat :=
  if k.l4 = IPPROTO_UDP then
    some ((if k.sport = 53 ∨ k.dport = 53 then JANITOR_UDP_DNS_TIMEOUT else UDP_TIMEOUT) / (if aggressive then 2 else 1))
  else if k.l4 = IPPROTO_TCP then
    some ((if cs.state = 1 then TCP_CLOSING_TIMEOUT else TCP_EST_TIMEOUT) / (if aggressive then 2 else 1))
  else none

/-- `age := nowNano - int64(value.LastSeenNs); age > timeout` -/
def janitorDeletesConn (aggressive : Bool) (userNow : Nat) (p : Key × ConnState) : Bool :=
  match janitorTimeout aggressive p.1 p.2 with
  | some t => decide ((userNow : Int) - (p.2.lastSeen : Int) > (t : Int))
  | none => false

def janitorDeletesHandoff (userNow : Nat) (p : Key × Handoff) : Bool := handoffExpired userNow p.2.lastSeen

/-- one janitor round at userspace time `userNow` -/
def janitor (aggressive : Bool) (userNow : Nat) (w : World) : World :=
  { w with conn := w.conn.filter fun p => !janitorDeletesConn aggressive userNow p
           handoff := w.handoff.filter fun p => !janitorDeletesHandoff userNow p }

/-- the control plane (janitor included) leaves the entry of `k` as it is before every frame of the run -/
def KeyKept (k : Key) : World → List Event → Prop
  | _, [] => True
  | w, e :: es => alookup (e.pre w).conn k = alookup w.conn k ∧ KeyKept k (e.apply w).1 es

end DaeVerif.C03
