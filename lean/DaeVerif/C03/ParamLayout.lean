import DaeVerif.C03.Layout
/-!
# C03 — `PARAM`: the hand-over of "who is dae, where is dae0" from the control plane to the programs

`fullLoadBpfObjects` (control/bpf_utils.go) stores an anonymous Go struct into the ELF variable `PARAM`
(`const volatile struct dae_param PARAM`); cilium/ebpf serialises it field by field in declaration order
(`encParam`), the programs read `struct dae_param` members at their C offsets (`decParam`).
-/
namespace DaeVerif.C03

/-- everything `fullLoadBpfObjects` puts into `PARAM` -/
structure ParamFull where
  tproxyPort : Nat
  p : Param
  hasTask : Bool
deriving DecidableEq, Repr

def SIZEOF_DAE_PARAM : Nat := 32

/-- the Go literal, field after field, native (little) endian: `tproxyPort, controlPlanePid, dae0Ifindex,
daeNetnsId uint32; dae0peerMac [6]byte; paddingAfterMac [2]uint8; useRedirectPeer, hasBpfGetCurrentTask uint8;
padding2 uint16; daeSocketMark uint32` -/
def encParam (x : ParamFull) : Bytes :=
  le 4 x.tproxyPort ++ le 4 x.p.ctlPid ++ le 4 x.p.dae0If ++ le 4 x.p.netns ++ fit 6 x.p.peerMac ++ zeros 2 ++
  [if x.p.usePeer then 1 else 0, if x.hasTask then 1 else 0] ++ zeros 2 ++ le 4 x.p.sockMark

/-- `struct dae_param` as the programs read it: `tproxy_port` @0, `control_plane_pid` @4, `dae0_ifindex` @8,
`dae_netns_id` @12, `dae0peer_mac` @16, `use_redirect_peer` @24, `has_bpf_get_current_task` @25,
`dae_socket_mark` @28 -/
def decParam (b : Bytes) : ParamFull :=
  { tproxyPort := leVal (slice b 0 4)
    p := { ctlPid := leVal (slice b 4 4), dae0If := leVal (slice b 8 4), netns := leVal (slice b 12 4),
           peerMac := slice b 16 6, usePeer := rd b 24 != 0, sockMark := leVal (slice b 28 4) }
    hasTask := rd b 25 != 0 }

end DaeVerif.C03
