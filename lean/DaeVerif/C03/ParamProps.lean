import DaeVerif.C03.ParamLayout
import DaeVerif.C03.LayoutProofs
/-!
# C03 — the `PARAM` image decodes to what the control plane encoded
-/
namespace DaeVerif.C03

theorem slice_mid (a b c : Bytes) (o n : Nat) (ha : a.length = o) (hb : b.length = n) :
    slice (a ++ (b ++ c)) o n = b := by
  rw [slice_append_right _ _ _ _ (by omega), ha, Nat.sub_self]
  exact slice_append_left _ _ n hb

theorem rd_mid (a : Bytes) (x : Nat) (c : Bytes) (o : Nat) (ha : a.length = o) : rd (a ++ (x :: c)) o = x := by
  rw [rd_append]
  subst ha
  simp [rd_cons_zero]

end DaeVerif.C03

namespace DaeVerif.C03.Props
open DaeVerif.C03

/-- **`PARAM` layout**: what the programs read from `struct dae_param` (`control_plane_pid`,
`dae_socket_mark`, `dae0_ifindex`, `dae_netns_id`, `dae0peer_mac`, `use_redirect_peer`,
`has_bpf_get_current_task`, `tproxy_port`) is exactly what the control plane's struct literal holds, for
every value of the fields; the image has the size of the C struct. -/
theorem param_layout (x : ParamFull) (h1 : x.tproxyPort < 2 ^ 32) (h2 : x.p.ctlPid < 2 ^ 32)
    (h3 : x.p.dae0If < 2 ^ 32) (h4 : x.p.netns < 2 ^ 32) (h5 : x.p.sockMark < 2 ^ 32)
    (h6 : x.p.peerMac.length = 6) :
    decParam (encParam x) = x ∧ (encParam x).length = SIZEOF_DAE_PARAM := by
  have e : encParam x = le 4 x.tproxyPort ++ (le 4 x.p.ctlPid ++ (le 4 x.p.dae0If ++ (le 4 x.p.netns ++
      (fit 6 x.p.peerMac ++ (zeros 2 ++ ((if x.p.usePeer then 1 else 0) :: (if x.hasTask then 1 else 0) ::
        (zeros 2 ++ le 4 x.p.sockMark))))))) := by
    simp [encParam, List.append_assoc]
  refine ⟨?_, by simp [encParam, SIZEOF_DAE_PARAM]⟩
  have s0 : slice (encParam x) 0 4 = le 4 x.tproxyPort := by rw [e]; exact slice_append_left _ _ 4 (by simp)
  have s1 : slice (encParam x) 4 4 = le 4 x.p.ctlPid := by rw [e]; exact slice_mid _ _ _ 4 4 (by simp) (by simp)
  have s2 : slice (encParam x) 8 4 = le 4 x.p.dae0If := by
    rw [e, ← List.append_assoc]; exact slice_mid _ _ _ 8 4 (by simp) (by simp)
  have s3 : slice (encParam x) 12 4 = le 4 x.p.netns := by
    rw [e, ← List.append_assoc, ← List.append_assoc]; exact slice_mid _ _ _ 12 4 (by simp) (by simp)
  have s4 : slice (encParam x) 16 6 = fit 6 x.p.peerMac := by
    rw [e, ← List.append_assoc, ← List.append_assoc, ← List.append_assoc]
    exact slice_mid _ _ _ 16 6 (by simp) (by simp)
  have s5 : rd (encParam x) 24 = (if x.p.usePeer then 1 else 0) := by
    rw [e, ← List.append_assoc, ← List.append_assoc, ← List.append_assoc, ← List.append_assoc, ← List.append_assoc]
    exact rd_mid _ _ _ 24 (by simp)
  have s6 : rd (encParam x) 25 = (if x.hasTask then 1 else 0) := by
    have e' : encParam x = (le 4 x.tproxyPort ++ le 4 x.p.ctlPid ++ le 4 x.p.dae0If ++ le 4 x.p.netns ++
        fit 6 x.p.peerMac ++ zeros 2 ++ [if x.p.usePeer then 1 else 0]) ++
        ((if x.hasTask then 1 else 0) :: (zeros 2 ++ le 4 x.p.sockMark)) := by
      simp [encParam, List.append_assoc]
    rw [e']; exact rd_mid _ _ _ 25 (by simp)
  have s7 : slice (encParam x) 28 4 = le 4 x.p.sockMark := by
    have e' : encParam x = (le 4 x.tproxyPort ++ le 4 x.p.ctlPid ++ le 4 x.p.dae0If ++ le 4 x.p.netns ++
        fit 6 x.p.peerMac ++ zeros 2 ++ [if x.p.usePeer then 1 else 0, if x.hasTask then 1 else 0] ++ zeros 2) ++
        (le 4 x.p.sockMark ++ []) := by
      simp [encParam, List.append_assoc]
    rw [e']; exact slice_mid _ _ _ 28 4 (by simp) (by simp)
  unfold decParam
  rw [s0, s1, s2, s3, s4, s5, s6, s7, leVal_le4 _ h1, leVal_le4 _ h2, leVal_le4 _ h3, leVal_le4 _ h4,
    leVal_le4 _ h5, fit_of_length 6 _ h6]
  obtain ⟨tp, ⟨cp, sm, d0, up, pm, ns⟩, ht⟩ := x
  cases up <;> cases ht <;> rfl

-- non-vacuity: dae is pid 4242, mark 0x8ae0, dae0 = interface 9 in netns 4026532100, redirect_peer on
example : decParam (encParam ⟨0x3930, ⟨4242, 0x8ae0, 9, true, [10,11,12,13,14,15], 4026532100⟩, true⟩) =
    ⟨0x3930, ⟨4242, 0x8ae0, 9, true, [10,11,12,13,14,15], 4026532100⟩, true⟩ := by decide

end DaeVerif.C03.Props
