import DaeVerif.C03.Janitor
namespace DaeVerif.C03

/-- `connStateJanitorPressureState` (the overflow counters it remembers only feed `overflowDelta`) -/
structure Pressure where
  active : Bool := false
  below : Nat := 0
deriving DecidableEq, Repr

def PRESSURE_ENTER_USAGE : Nat := 70
def PRESSURE_EXIT_USAGE : Nat := 50
def PRESSURE_EXIT_ROUNDS : Nat := 3

/-- `updateConnStateJanitorPressure`: after a janitor round that saw `usage` % of `conn_state_map` in use and
(`ov`) a grown overflow counter, is the NEXT round aggressive? -/
def pressureStep (st : Pressure) (ov : Bool) (usage : Nat) : Pressure :=
  if ov || usage ≥ PRESSURE_ENTER_USAGE then ⟨true, 0⟩
  else if !st.active then st
  else if usage < PRESSURE_EXIT_USAGE then
    (if st.below + 1 ≥ PRESSURE_EXIT_ROUNDS then ⟨false, 0⟩ else ⟨true, st.below + 1⟩)
  else ⟨true, 0⟩

/-- the pressure state after a sequence of rounds `(overflowDelta, usage %)` -/
def pressureRun (st : Pressure) : List (Bool × Nat) → Pressure
  | [] => st
  | r :: rs => pressureRun (pressureStep st r.1 r.2) rs

end DaeVerif.C03

namespace DaeVerif.C03.Props
open DaeVerif.C03

/-- **When the janitor may halve the timeouts.**  Pressure mode (the `aggressive` flag of the next round)
is entered exactly by a round that counted a map overflow or saw `conn_state_map` at least 70 % full; while
neither happens an inactive janitor stays in steady state along any number of rounds — where, by
`janitor_respects_idle_timeouts`, it applies the kernel's own idle timeouts; once active it leaves only
after 3 consecutive rounds below 50 % (a round at 50–69 % restarts the count). -/
theorem janitor_pressure_mode :
    (∀ st ov u, (ov = true ∨ 70 ≤ u) → (pressureStep st ov u).active = true) ∧
    (∀ st rounds, st.active = false → (∀ r ∈ rounds, r.1 = false ∧ r.2 < 70) →
      (pressureRun st rounds).active = false) ∧
    (∀ st u, st.active = true → 50 ≤ u → u < 70 → pressureStep st false u = ⟨true, 0⟩) ∧
    (∀ u1 u2 u3, u1 < 50 → u2 < 50 → u3 < 50 →
      (pressureRun ⟨true, 0⟩ [(false, u1), (false, u2)]).active = true ∧
      (pressureRun ⟨true, 0⟩ [(false, u1), (false, u2), (false, u3)]).active = false) := by
  refine ⟨?_, ?_, ?_, ?_⟩
  · intro st ov u h
    unfold pressureStep PRESSURE_ENTER_USAGE
    have : (ov || decide (u ≥ 70)) = true := by
      rcases h with h | h
      · simp [h]
      · simp [h]
    simp only [this, if_true]
  · intro st rounds
    induction rounds generalizing st with
    | nil => intro h _; exact h
    | cons r rs ih =>
      intro h hall
      have hr := hall r List.mem_cons_self
      have hstep : pressureStep st r.1 r.2 = st := by
        unfold pressureStep PRESSURE_ENTER_USAGE
        have h1 : (r.1 || decide (r.2 ≥ 70)) = false := by
          have : ¬ (r.2 ≥ 70) := by omega
          simp [hr.1, this]
        simp only [h1, Bool.false_eq_true, if_false, h, Bool.not_false, if_true]
      show (pressureRun (pressureStep st r.1 r.2) rs).active = false
      rw [hstep]
      exact ih st h (fun x hx => hall x (List.mem_cons_of_mem _ hx))
  · intro st u ha h50 h70
    unfold pressureStep PRESSURE_ENTER_USAGE PRESSURE_EXIT_USAGE
    have h1 : (false || decide (u ≥ 70)) = false := by
      have : ¬ (u ≥ 70) := by omega
      simp [this]
    have h2 : ¬ (u < 50) := by omega
    simp only [h1, Bool.false_eq_true, if_false, ha, Bool.not_true, h2]
  · intro u1 u2 u3 h1 h2 h3
    have step : ∀ b u, u < 50 → pressureStep ⟨true, b⟩ false u =
        if b + 1 ≥ 3 then ⟨false, 0⟩ else ⟨true, b + 1⟩ := by
      intro b u hu
      unfold pressureStep PRESSURE_ENTER_USAGE PRESSURE_EXIT_USAGE PRESSURE_EXIT_ROUNDS
      have h1 : (false || decide (u ≥ 70)) = false := by
        have : ¬ (u ≥ 70) := by omega
        simp [this]
      simp only [h1, Bool.false_eq_true, if_false, Bool.not_true, hu, if_true]
    unfold pressureRun pressureRun pressureRun pressureRun
    dsimp only
    rw [step 0 u1 h1]
    simp only [show ¬ (0 + 1 ≥ 3) by decide, if_false]
    rw [step 1 u2 h2]
    simp only [show ¬ (0 + 1 + 1 ≥ 3) by decide, if_false]
    refine ⟨by first | rfl | trivial, ?_⟩
    rw [step 2 u3 h3]
    first | rfl | trivial

end DaeVerif.C03.Props
