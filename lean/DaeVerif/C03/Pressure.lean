import DaeVerif.C03.Janitor
namespace DaeVerif.C03

/-- `connStateJanitorPressureState` (the overflow counters it remembers only feed `overflowDelta`) -/
structure Pressure where
  active : Bool := false
  below : Nat := 0
deriving DecidableEq, Repr

/-- `connStateJanitorPressure{EnterUsage,ExitUsage,ExitRounds}`: tuning the property does not fix; read from
the code on every run (`cfg` op) -/
structure PressureCfg where
  enter : Nat := 70
  exit : Nat := 50
  rounds : Nat := 3
deriving DecidableEq, Repr

/-- `updateConnStateJanitorPressure`: after a janitor round that saw `usage` % of `conn_state_map` in use and
(`ov`) a grown overflow counter, is the NEXT round aggressive? -/
def pressureStep (cfg : PressureCfg) (st : Pressure) (ov : Bool) (usage : Nat) : Pressure :=
  if ov || usage ≥ cfg.enter then ⟨true, 0⟩
  else if !st.active then st
  else if usage < cfg.exit then
    (if st.below + 1 ≥ cfg.rounds then ⟨false, 0⟩ else ⟨true, st.below + 1⟩)
  else ⟨true, 0⟩

/-- the pressure state after a sequence of rounds `(overflowDelta, usage %)` -/
def pressureRun (cfg : PressureCfg) (st : Pressure) : List (Bool × Nat) → Pressure
  | [] => st
  | r :: rs => pressureRun cfg (pressureStep cfg st r.1 r.2) rs

end DaeVerif.C03

namespace DaeVerif.C03.Props
open DaeVerif.C03

/-- **When the janitor may halve the timeouts.**  For any thresholds (`enter` 70 %, `exit` 50 %, `rounds` 3 as
shipped): pressure mode (the `aggressive` flag of the next round) is entered exactly by a round that counted
a map overflow or saw `conn_state_map` at least `enter` % full; while neither happens an inactive janitor
stays in steady state along any number of rounds — where, by `janitor_respects_idle_timeouts`, it applies
the kernel's own idle timeouts; once active, a round between `exit` and `enter` restarts the count, a round
below `exit` counts one, and the `rounds`-th such round in a row leaves pressure mode. -/
theorem janitor_pressure_mode (cfg : PressureCfg) :
    (∀ st ov u, (ov = true ∨ cfg.enter ≤ u) → (pressureStep cfg st ov u).active = true) ∧
    (∀ st rounds, st.active = false → (∀ r ∈ rounds, r.1 = false ∧ r.2 < cfg.enter) →
      (pressureRun cfg st rounds).active = false) ∧
    (∀ st u, st.active = true → cfg.exit ≤ u → u < cfg.enter → pressureStep cfg st false u = ⟨true, 0⟩) ∧
    (∀ b u, u < cfg.exit → u < cfg.enter →
      pressureStep cfg ⟨true, b⟩ false u = if b + 1 ≥ cfg.rounds then ⟨false, 0⟩ else ⟨true, b + 1⟩) := by
  refine ⟨?_, ?_, ?_, ?_⟩
  · intro st ov u h
    unfold pressureStep
    have : (ov || decide (u ≥ cfg.enter)) = true := by
      rcases h with h | h
      · simp [h]
      · simp [h]
    simp only [this, if_true]
  · intro st rounds
    induction rounds generalizing st with
    | nil => intro h _; exact h
    | cons r rs ih =>
      intro h hall
      have hr := hall r List.mem_cons_self
      have hstep : pressureStep cfg st r.1 r.2 = st := by
        unfold pressureStep
        have h1 : (r.1 || decide (r.2 ≥ cfg.enter)) = false := by
          have : ¬ (r.2 ≥ cfg.enter) := by omega
          simp [hr.1, this]
        simp only [h1, Bool.false_eq_true, if_false, h, Bool.not_false, if_true]
      show (pressureRun cfg (pressureStep cfg st r.1 r.2) rs).active = false
      rw [hstep]
      exact ih st h (fun x hx => hall x (List.mem_cons_of_mem _ hx))
  · intro st u ha h50 h70
    unfold pressureStep
    have h1 : (false || decide (u ≥ cfg.enter)) = false := by
      have : ¬ (u ≥ cfg.enter) := by omega
      simp [this]
    have h2 : ¬ (u < cfg.exit) := by omega
    simp only [h1, Bool.false_eq_true, if_false, ha, Bool.not_true, h2]
  · intro b u hu hu2
    unfold pressureStep
    have h1 : (false || decide (u ≥ cfg.enter)) = false := by
      have : ¬ (u ≥ cfg.enter) := by omega
      simp [this]
    simp only [h1, Bool.false_eq_true, if_false, Bool.not_true, hu, if_true]

end DaeVerif.C03.Props
