import DaeVerif.C03.Spec
import DaeVerif.C03.Proofs
/-!
# C03 — runs: finite sequences of frames with an arbitrary control plane in between

An event is one frame on one hook, preceded by whatever the rest of the system did since the
previous frame (`env`: clock, rule program via `rt`, `domain_routing_map` — both inside `rt` —,
connectivity bits, cookie map, `PARAM`, hand-off / redirect maps); the only thing `env` may not do
is touch `conn_state_map` (the janitor deleting an entry ends the tracking the theorems talk about).
-/
namespace DaeVerif.C03

structure Event where
  rt : RouteIn → Int
  env : World → World
  hook : Hook
  skb : Skb
  l2 : Bool

/-- the world the frame meets -/
def Event.pre (e : Event) (w : World) : World := e.env w

def Event.apply (e : Event) (w : World) : World × Out := step e.rt (e.pre w) e.hook e.skb e.l2

def run (w : World) : List Event → World
  | [] => w
  | e :: es => run (e.apply w).1 es

/-- the control plane leaves `conn_state_map` alone during the run -/
def EnvOk (e : Event) : Prop := ∀ w, (e.env w).conn = w.conn

/-- the frame is a pure SYN (`syn && !ack`) as the hook's parser sees it -/
def frameIsNewSyn (h : Hook) (s : Skb) (l2 : Bool) : Bool :=
  match h with
  | .lanIngress | .wanEgress =>
    match parsePacket s.raw l2 with
    | .pkt p => p.syn && !p.ack
    | _ => false
  | .wanIngress | .lanEgress =>
    match parseTransport s.raw l2 with
    | .ret _ c => c.tcpSyn && !c.tcpAck
    | _ => false

def Event.isNewSyn (e : Event) : Bool := frameIsNewSyn e.hook e.skb e.l2

/-- the entry of `k` is past its idle timeout (120 s; 10 s once FIN/RST was seen on TCP) -/
def expiredAt (w : World) (k : Key) : Bool :=
  match alookup w.conn k with
  | some cs => if k.l4 = IPPROTO_TCP then tcpExpired cs w.now else udpExpired cs w.now
  | none => false

/-- flow `k` has a live-able entry holding decision `d` (not a flow opened from the WAN side) -/
def Tracked (w : World) (k : Key) (d : Dec) : Prop :=
  ∃ cs, alookup w.conn k = some cs ∧ cs.hasRouting ≠ 0 ∧ cs.wanDir = false ∧ cs.decision = d

/-- no entry of `k` holds a decision -/
def NoDecision (w : World) (k : Key) : Prop :=
  ∀ cs, alookup w.conn k = some cs → cs.hasRouting = 0

/-- `k` has an entry created from the WAN side (reverse tuple of an inbound flow) -/
def WanOriginated (w : World) (k : Key) : Prop :=
  ∃ cs, alookup w.conn k = some cs ∧ cs.wanDir = true ∧ cs.hasRouting = 0

/-- "while the flow is tracked": no frame of flow `k` (either direction) in the run is a pure SYN,
and every one of them arrives before the entry's idle timeout -/
def KeepsTracking (k : Key) : World → List Event → Prop
  | _, [] => True
  | w, e :: es =>
    (frameKey e.hook e.skb e.l2 = some k → e.isNewSyn = false ∧ expiredAt (e.pre w) k = false) ∧
    KeepsTracking k (e.apply w).1 es

/-- the frame is one the capturing hooks decide on: LAN ingress, or WAN egress of a locally
originated frame that is not dae's own -/
def Event.capturing (e : Event) (w : World) : Prop :=
  e.hook = .lanIngress ∨
  (e.hook = .wanEgress ∧ e.skb.ingressIf = 0 ∧ (pidIsControlPlane (e.pre w) e.skb).isCp = false)

/-- the fate decision `d` earns on a hook -/
def hookFate (h : Hook) (w : World) (s : Skb) (p : Pkt) (d : Dec) : Fate :=
  match h with
  | .lanIngress => lanFate w s p d
  | _ => wanFate w s p d

/-- the fate decision `d` earns on the event's hook -/
def Event.fate (e : Event) (w : World) (p : Pkt) (d : Dec) : Fate := hookFate e.hook (e.pre w) e.skb p d

/-- every capturing frame of flow `k` in the run gets the fate of decision `d`, and the rule
program in force at that moment has no influence on what happens -/
def Follows (k : Key) (d : Dec) : World → List Event → Prop
  | _, [] => True
  | w, e :: es =>
    (∀ p, parsePacket e.skb.raw e.l2 = .pkt p → p.tuples.five = k → e.capturing w →
      (∀ rt', step rt' (e.pre w) e.hook e.skb e.l2 = e.apply w) ∧
      (rtrackRoom (e.pre w) e.skb p →
        (e.apply w).2.realises (e.pre w) e.skb (e.hook == .lanIngress) (e.fate w p d))) ∧
    Follows k d (e.apply w).1 es

/-- every TCP frame of flow `k` on the capturing hooks passes untouched -/
def AllPass (k : Key) : World → List Event → Prop
  | _, [] => True
  | w, e :: es =>
    (∀ p, parsePacket e.skb.raw e.l2 = .pkt p → p.tuples.five = k →
      (e.hook = .lanIngress ∨ e.hook = .wanEgress) → (e.apply w).2 = outOk e.skb e.skb.mark) ∧
    AllPass k (e.apply w).1 es

/-- no frame of the run is a pure SYN of flow `k` on a capturing hook (LAN ingress, or WAN egress
sent by anyone but dae) -/
def NoNewConnection (k : Key) : World → List Event → Prop
  | _, [] => True
  | w, e :: es =>
    (∀ p, parsePacket e.skb.raw e.l2 = .pkt p → p.tuples.five = k → (p.syn && !p.ack) = true →
      e.hook = .wanEgress ∧ (e.skb.ingressIf ≠ 0 ∨ (pidIsControlPlane (e.pre w) e.skb).isCp = true)) ∧
    NoNewConnection k (e.apply w).1 es

end DaeVerif.C03
