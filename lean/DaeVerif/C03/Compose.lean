import DaeVerif.C03.Props
import DaeVerif.C03.RouteOf
import DaeVerif.C02.Props
/-!
# C03 ∘ C02 ∘ C01 — the datapath theorems with the installed rule program

C03's theorems hold for every rule program `rt : RouteIn → Int`.  Here `rt` is instantiated with
`rtOf m` (`RouteOf.lean`): C02's model of the kernel `route()` over the byte images installed in the
maps `m` — the function the C03 driver executes and the native tie compares with the real `route()`
called from the real TC entry points.  C02 proves `routeK = pack ∘ dnsAdjust ∘ userspace Match`
(`routeK_eq_userspace`, `kernel_decision`) and, for a program compiled from rules as written,
`= first matching rule` (`kernel_eq_first_match_spec`, through C01's `match_is_first_match`).
Composing: the fate of the first frame of a flow, the record the control plane retrieves for it and
the decision the flow keeps following are those of the userspace matcher / of the first matching
rule (a DNS query not covered by a must rule goes to the control plane, keeping the rule's mark).

First part: helper lemmas (namespace `DaeVerif.C03`); second part: the property theorems
(namespace `DaeVerif.C03.Props`, counted by the audit).
-/
namespace DaeVerif.C03
open DaeVerif.C01 DaeVerif.C02 DaeVerif.C12

/-! ## ranges of what the parser delivers -/

/-- the frame is a list of bytes -/
def BytesOK (bs : Bytes) : Prop := ∀ b ∈ bs, b < 256

theorem rd_lt (bs : Bytes) (hb : BytesOK bs) (i : Nat) : rd bs i < 256 := by
  unfold rd
  cases h : bs[i]? with
  | none => simp [List.getD, h]
  | some v =>
    simp only [List.getD, h, Option.getD_some]
    exact hb v (List.mem_of_getElem? h)

theorem slice_bytesOK (bs : Bytes) (hb : BytesOK bs) (o n : Nat) : BytesOK (slice bs o n) := by
  intro b hbm
  simp only [slice, List.mem_map, List.mem_range] at hbm
  obtain ⟨i, _, rfl⟩ := hbm
  exact rd_lt bs hb _

theorem slice_length (bs : Bytes) (o n : Nat) : (slice bs o n).length = n := by simp [slice]

theorem zeros_bytesOK (n : Nat) : BytesOK (zeros n) := by
  intro b hb
  simp only [zeros, List.mem_replicate] at hb
  rw [hb.2]; decide

theorem beVal_lt (l : Bytes) (h : BytesOK l) : beVal l < 256 ^ l.length := by
  induction l with
  | nil => simp [beVal]
  | cons a rest ih =>
    rw [beVal_cons]
    have ha : a < 256 := h a (List.mem_cons_self ..)
    have := ih (fun b hb => h b (List.mem_cons_of_mem _ hb))
    simp only [List.length_cons, Nat.pow_succ]
    calc a * 256 ^ rest.length + beVal rest < a * 256 ^ rest.length + 256 ^ rest.length := by omega
      _ = (a + 1) * 256 ^ rest.length := by rw [Nat.add_mul, Nat.one_mul]
      _ ≤ 256 * 256 ^ rest.length := Nat.mul_le_mul_right _ (by omega)
      _ = 256 ^ rest.length * 256 := Nat.mul_comm _ _

/-- the address / MAC / DSCP fields of a parsed-header context are byte strings of the right length -/
structure CtxOK (c : Ctx) : Prop where
  ethSrc : c.ethSrc.length = 6 ∧ BytesOK c.ethSrc
  ipS : c.ipSaddr.length = 4 ∧ BytesOK c.ipSaddr
  ipD : c.ipDaddr.length = 4 ∧ BytesOK c.ipDaddr
  v6S : c.v6Saddr.length = 16 ∧ BytesOK c.v6Saddr
  v6D : c.v6Daddr.length = 16 ∧ BytesOK c.v6Daddr
  tos : c.ipTos < 256
  b0 : c.v6b0 < 256
  b1 : c.v6b1 < 256

theorem loadBytes_eq {bs : Bytes} {o n : Nat} {h : Bytes} (hl : loadBytes bs o n = some h) : h = slice bs o n := by
  unfold loadBytes at hl
  split at hl
  · cases hl
  · injection hl with hl; exact hl.symm

theorem slowTcp_ok (bs : Bytes) (o : Nat) (c c' : Ctx) (code : Nat) (hc : CtxOK c)
    (h : slowTcp bs o c = .ret code c') : CtxOK c' := by
  unfold slowTcp at h
  split at h
  · cases h
  · injection h with _ h; subst h; exact ⟨hc.ethSrc, hc.ipS, hc.ipD, hc.v6S, hc.v6D, hc.tos, hc.b0, hc.b1⟩

theorem slowUdp_ok (bs : Bytes) (o : Nat) (c c' : Ctx) (code : Nat) (hc : CtxOK c)
    (h : slowUdp bs o c = .ret code c') : CtxOK c' := by
  unfold slowUdp at h
  split at h
  · cases h
  · injection h with _ h; subst h; exact ⟨hc.ethSrc, hc.ipS, hc.ipD, hc.v6S, hc.v6D, hc.tos, hc.b0, hc.b1⟩

theorem slowIcmp6_ok (bs : Bytes) (o : Nat) (c c' : Ctx) (code : Nat) (hc : CtxOK c)
    (h : slowIcmp6 bs o c = .ret code c') : CtxOK c' := by
  unfold slowIcmp6 at h
  split at h
  · cases h
  · injection h with _ h; subst h; exact ⟨hc.ethSrc, hc.ipS, hc.ipD, hc.v6S, hc.v6D, hc.tos, hc.b0, hc.b1⟩

theorem slowV4_ok (bs : Bytes) (hb : BytesOK bs) (o : Nat) (c c' : Ctx) (code : Nat) (hc : CtxOK c)
    (h : slowV4 bs o c = .ret code c') : CtxOK c' := by
  unfold slowV4 at h
  split at h
  · cases h
  · rename_i hd hl
    have hhd := loadBytes_eq hl
    have hbh : BytesOK hd := by rw [hhd]; exact slice_bytesOK bs hb _ _
    have hc1 : CtxOK { c with ipVersion := rd hd 0 / 16, ipTos := rd hd 1, ipSaddr := slice hd 12 4, ipDaddr := slice hd 16 4, l4proto := rd hd 9 } :=
      ⟨hc.ethSrc, ⟨slice_length _ _ _, slice_bytesOK hd hbh _ _⟩, ⟨slice_length _ _ _, slice_bytesOK hd hbh _ _⟩,
        hc.v6S, hc.v6D, rd_lt hd hbh 1, hc.b0, hc.b1⟩
    split at h
    · cases h
    · simp only at h
      split at h
      · injection h with _ h; subst h; exact hc1
      · split at h
        · exact slowTcp_ok bs _ _ _ _ hc1 h
        · split at h
          · exact slowUdp_ok bs _ _ _ _ hc1 h
          · injection h with _ h; subst h; exact hc1

theorem slowV6_ok (bs : Bytes) (hb : BytesOK bs) (o : Nat) (c c' : Ctx) (code : Nat) (hc : CtxOK c)
    (h : slowV6 bs o c = .ret code c') : CtxOK c' := by
  unfold slowV6 at h
  split at h
  · cases h
  · rename_i hd hl
    have hhd := loadBytes_eq hl
    have hbh : BytesOK hd := by rw [hhd]; exact slice_bytesOK bs hb _ _
    have hc1 : ∀ nh, CtxOK { c with v6b0 := rd hd 0, v6b1 := rd hd 1, v6Saddr := slice hd 8 16, v6Daddr := slice hd 24 16, l4proto := nh } := fun nh =>
      ⟨hc.ethSrc, hc.ipS, hc.ipD, ⟨slice_length _ _ _, slice_bytesOK hd hbh _ _⟩,
        ⟨slice_length _ _ _, slice_bytesOK hd hbh _ _⟩, hc.tos, rd_lt hd hbh 0, rd_lt hd hbh 1⟩
    simp only at h
    split at h
    · cases h
    · cases h
    · injection h with _ h; subst h; exact hc1 _
    · split at h
      · cases h
      · split at h
        · exact slowTcp_ok bs _ _ _ _ (hc1 _) h
        · split at h
          · exact slowUdp_ok bs _ _ _ _ (hc1 _) h
          · split at h
            · exact slowIcmp6_ok bs _ _ _ _ (hc1 _) h
            · injection h with _ h; subst h; exact hc1 _

theorem ctxOK_init (src : Bytes) (hs : src.length = 6 ∧ BytesOK src) (ep : Nat) (dst : Bytes) :
    CtxOK { ethProto := ep, ethDst := dst, ethSrc := src } :=
  ⟨hs, ⟨by simp [zeros], zeros_bytesOK 4⟩, ⟨by simp [zeros], zeros_bytesOK 4⟩, ⟨by simp [zeros], zeros_bytesOK 16⟩,
    ⟨by simp [zeros], zeros_bytesOK 16⟩, Nat.zero_lt_succ _, Nat.zero_lt_succ _, Nat.zero_lt_succ _⟩

theorem parseSlow_ok (r : Raw) (l2 : Bool) (hb : BytesOK r.bytes) (code : Nat) (c : Ctx)
    (h : parseSlow r l2 = .ret code c) : CtxOK c := by
  have hz : (zeros 6).length = 6 ∧ BytesOK (zeros 6) := ⟨by simp [zeros], zeros_bytesOK 6⟩
  unfold parseSlow at h
  split at h
  · split at h
    · injection h with _ h; subst h; exact ctxOK_init _ hz _ _
    · rename_i eh hl
      have hhd := loadBytes_eq hl
      have hbe : BytesOK eh := by rw [hhd]; exact slice_bytesOK _ hb _ _
      have hc0 := ctxOK_init (slice eh 6 6) ⟨slice_length _ _ _, slice_bytesOK eh hbe _ _⟩ (be16 eh 12) (slice eh 0 6)
      simp only at h
      split at h
      · exact slowV4_ok _ hb _ _ _ _ hc0 h
      · split at h
        · exact slowV6_ok _ hb _ _ _ _ hc0 h
        · injection h with _ h; subst h; exact hc0
  · have hc0 := ctxOK_init (zeros 6) hz r.proto (zeros 6)
    simp only at h
    split at h
    · exact slowV4_ok _ hb _ _ _ _ hc0 h
    · split at h
      · exact slowV6_ok _ hb _ _ _ _ hc0 h
      · injection h with _ h; subst h; exact hc0

theorem tuples_ok (c : Ctx) (hc : CtxOK c) :
    (getTuples c).five.sip < 2 ^ 128 ∧ (getTuples c).five.dip < 2 ^ 128 ∧ (getTuples c).dscp < 256 := by
  have h4 : ∀ a : Bytes, a.length = 4 ∧ BytesOK a → mapped4 a < 2 ^ 128 := by
    intro a ⟨hl, hb⟩
    have := beVal_lt a hb
    rw [hl] at this
    unfold mapped4
    have e : (256 : Nat) ^ 4 = 4294967296 := by decide
    omega
  have h16 : ∀ a : Bytes, a.length = 16 ∧ BytesOK a → beVal a < 2 ^ 128 := by
    intro a ⟨hl, hb⟩
    have := beVal_lt a hb
    rw [hl] at this
    have e : (256 : Nat) ^ 16 = 2 ^ 128 := by decide
    omega
  unfold getTuples
  simp only
  split
  · refine ⟨h4 _ hc.ipS, h4 _ hc.ipD, ?_⟩
    have := hc.tos
    simp only; omega
  · refine ⟨h16 _ hc.v6S, h16 _ hc.v6D, ?_⟩
    have := hc.b1
    simp only; omega

theorem macVal_lt (a : Bytes) (h : a.length = 6 ∧ BytesOK a) : macVal a < 2 ^ 48 := by
  have := beVal_lt a h.2
  rw [h.1] at this
  unfold macVal
  have e : (256 : Nat) ^ 6 = 2 ^ 48 := by decide
  omega

/-- what the capturing hooks' parser delivers for a frame made of bytes -/
theorem parsePacket_ranges (r : Raw) (l2 : Bool) (p : Pkt) (hb : BytesOK r.bytes) (hl : r.lin ≤ r.bytes.length)
    (hp : parsePacket r l2 = .pkt p) :
    p.tuples.five.sip < 2 ^ 128 ∧ p.tuples.five.dip < 2 ^ 128 ∧ p.tuples.dscp < 256 ∧
    (p.ethSrc.length = 6 ∧ BytesOK p.ethSrc) := by
  obtain ⟨c, hc, hpc⟩ := pkOf_pkt hp
  rw [parseTransport_eq_slow r l2 hl] at hc
  have hok := parseSlow_ok r l2 hb 0 c hc
  obtain ⟨h1, h2, h3⟩ := tuples_ok c hok
  rw [hpc]
  exact ⟨h1, h2, h3, hok.ethSrc⟩

theorem ipVersionFlag_lt (s : Skb) : ipVersionFlag s < 256 ∧ (ipVersionFlag s = 1 ∨ ipVersionFlag s = 2) := by
  unfold ipVersionFlag IpVersionType_4 IpVersionType_6; split <;> simp

/-- `route()`'s arguments on the LAN hook are in range and carry no process name (C02's `PktOK`, H3) -/
theorem lan_pktOK (s : Skb) (l2 : Bool) (p : Pkt) (hb : BytesOK s.raw.bytes) (hl : s.raw.lin ≤ s.raw.bytes.length)
    (hp : parsePacket s.raw l2 = .pkt p) : PktOK (toPktK (lanRouteIn s p)) := by
  obtain ⟨h1, h2, h3, h4⟩ := parsePacket_ranges s.raw l2 p hb hl hp
  have hm := macVal_lt p.ethSrc h4
  refine ⟨h1, h2, ?_, ?_, (ipVersionFlag_lt s).1, h3, fun _ => rfl⟩
  · show macVal p.ethSrc < 2 ^ 128
    have : (2 : Nat) ^ 48 < 2 ^ 128 := by decide
    omega
  · show (if p.l4proto = IPPROTO_TCP then L4ProtoType_TCP else L4ProtoType_UDP) < 256
    split <;> decide

/-- … and on the WAN hook (`is_wan = 1`: H3 is vacuous) -/
theorem wan_pktOK (s : Skb) (l2 : Bool) (p : Pkt) (isTcp : Bool) (pname mac : Bytes)
    (hb : BytesOK s.raw.bytes) (hl : s.raw.lin ≤ s.raw.bytes.length) (hp : parsePacket s.raw l2 = .pkt p)
    (hmac : mac.length = 6 ∧ BytesOK mac) : PktOK (toPktK (wanRouteIn s p isTcp pname mac)) := by
  obtain ⟨h1, h2, h3, _⟩ := parsePacket_ranges s.raw l2 p hb hl hp
  have hm := macVal_lt mac hmac
  refine ⟨h1, h2, ?_, ?_, (ipVersionFlag_lt s).1, h3, fun h => ?_⟩
  · show macVal mac < 2 ^ 128
    have : (2 : Nat) ^ 48 < 2 ^ 128 := by decide
    omega
  · show (if isTcp then L4ProtoType_TCP else L4ProtoType_UDP) < 256
    split <;> decide
  · exact absurd (show (1 : Nat) % 256 = 0 from h) (by decide)

/-! ## from C02's packed result to C03's decision -/

/-- a userspace / first-match decision as the datapath stores it (`must` as the byte 0/1) -/
def decOf (o : C01.Out) : Dec := ⟨o.outbound, o.mark, if o.must then 1 else 0⟩

theorem unpackRoute_eq (r : Int) : unpackRoute r = decOf (C02.unpack r.toNat) := by
  unfold unpackRoute C02.unpack decOf
  have a1 : ∀ n : Nat, n &&& 0xff = n % 256 := fun n => Nat.and_two_pow_sub_one_eq_mod n 8
  have a2 : ∀ n : Nat, n &&& 1 = n % 2 := fun n => Nat.and_two_pow_sub_one_eq_mod n 1
  simp only [a1, a2, Nat.shiftRight_eq_div_pow]
  congr 1
  have : r.toNat / 2 ^ 40 % 2 = 0 ∨ r.toNat / 2 ^ 40 % 2 = 1 := by omega
  rcases this with h | h <;> simp [h]

/-- **Bridge.**  With the maps holding an installed program (C02's hypotheses), the value the hooks
get from `route()` is non-negative and unpacks to the DNS-adjusted userspace decision. -/
theorem rtOf_decision (m : KMaps) (i : RouteIn) (start : Nat) (kp : List KEntry) (tries : List (List Prefix))
    (ubm : List Nat) (installed : Installed m start kp tries) (triesWF : ∀ t ∈ tries, ∀ q ∈ t, q.WF)
    (pktOK : PktOK (toPktK i)) (domain : ∀ wd, m.domainWord i.daddr wd = ubm.getD wd 0)
    (entriesOK : ∀ k ∈ kp, EntryOK tries.length k) (o : C01.Out) (hu : matchU kp tries ubm (toPktK i) = some o) :
    0 ≤ rtOf m i ∧ unpackRoute (rtOf m i) = decOf (dnsAdjust (toPktK i) o) := by
  constructor
  · unfold rtOf
    rw [C02.Props.routeK_eq_userspace m (toPktK i) start kp tries ubm installed triesWF pktOK domain entriesOK, hu]
    exact pack_nonneg _ _ _
  · rw [unpackRoute_eq]
    unfold rtOf
    rw [C02.Props.kernel_decision m (toPktK i) start kp tries ubm installed triesWF pktOK domain entriesOK o hu]

/-- the packet C01's specification talks about, for given `route()` arguments and domain-oracle bits -/
def pktOf (i : RouteIn) (dom : List Bool) : C01.Pkt :=
  ⟨i.saddr, i.daddr, i.sport, i.dport, i.ipw, i.l4w, i.pname, i.dscp, i.mac, dom⟩

/-- C02's hypotheses for "the maps hold one build of the rules as written, on top of anything" -/
structure FirstMatchHyps (m : KMaps) (rules : List SRule) (fb : C01.Out) (P : C01.Pkt) (wan : Bool)
    (ubm : List Nat) : Prop where
  /-- one `buildRoutingKernspace` of the compiled program over arbitrary older map contents, then
  arbitrary updates of `domain_routing_map` -/
  maps : ∃ m0 dom start, m = { installGen .little start (assignFrom 0 (compileProgram rules fb)).1
      (assignFrom 0 (compileProgram rules fb)).2 m0 with domain := dom }
  pktWF : P.WF
  rulesWF : ∀ r ∈ rules, r.WF
  outboundsOK : ∀ e ∈ compileProgram rules fb, OutOK e
  domainPositions : DomOK ubm P 0 (compileProgram rules fb)
  rulesFit : (assignFrom 0 (compileProgram rules fb)).1.length ≤ MaxMatchSetLen
  triesFit : (assignFrom 0 (compileProgram rules fb)).2.length ≤ MaxMatchSetLen
  triesWF : ∀ t ∈ (assignFrom 0 (compileProgram rules fb)).2, ∀ q ∈ t, q.WF
  /-- H2: the bitmap installed for the destination is userspace's -/
  domain : ∀ wd, m.domainWord (toK P wan).daddr wd = ubm.getD wd 0
  entriesOK : ∀ k ∈ (assignFrom 0 (compileProgram rules fb)).1,
      EntryOK (assignFrom 0 (compileProgram rules fb)).2.length k

/-- **Bridge to the rules as written.** -/
theorem rtOf_first_match (m : KMaps) (i : RouteIn) (dom : List Bool) (wan : Bool) (rules : List SRule) (fb : C01.Out)
    (ubm : List Nat) (hwan : i.isWan = bpfBool wan) (pktOK : PktOK (toPktK i))
    (h : FirstMatchHyps m rules fb (pktOf i dom) wan ubm) :
    0 ≤ rtOf m i ∧
    unpackRoute (rtOf m i) = decOf (dnsAdjust (toPktK i) (firstMatchS (pktOf i dom) rules fb false)) := by
  have hk : toK (pktOf i dom) wan = toPktK i := by
    unfold toK pktOf toPktK; rw [hwan]
  obtain ⟨m0, dm, start, hm⟩ := h.maps
  have hu : matchU (assignFrom 0 (compileProgram rules fb)).1 (assignFrom 0 (compileProgram rules fb)).2 ubm (toPktK i) =
      some (firstMatchS (pktOf i dom) rules fb false) := by
    rw [← hk, C02.Props.userspace_typed_eq_C01_matchM _ _ wan ubm h.outboundsOK h.domainPositions,
      C01.Props.match_is_first_match rules fb _ h.pktWF h.rulesWF]
  have hdom := h.domain
  rw [hk] at hdom
  exact rtOf_decision m i start _ _ ubm
    (by rw [hm]; exact (installGen_installed start _ _ m0 h.rulesFit h.triesFit h.entriesOK).with_domain dm)
    h.triesWF pktOK hdom h.entriesOK _ hu

/-- an event whose rule program is the one installed in the maps `x.1` at that moment -/
def installedEvent (x : KMaps × (World → World) × Hook × Skb × Bool) : Event :=
  ⟨rtOf x.1, x.2.1, x.2.2.1, x.2.2.2.1, x.2.2.2.2⟩

theorem shortLived_tcp (k : Key) (h : k.l4 = IPPROTO_TCP) : shortLivedUdp k = false := by
  unfold shortLivedUdp; rw [h]; rfl

theorem wan_tcp_mac_ok (l2 : Bool) (p : Pkt) (h : p.ethSrc.length = 6 ∧ BytesOK p.ethSrc) :
    (if l2 then p.ethSrc else zeros 6).length = 6 ∧ BytesOK (if l2 then p.ethSrc else zeros 6) := by
  cases l2
  · exact ⟨by simp [zeros], zeros_bytesOK 6⟩
  · exact h

end DaeVerif.C03

namespace DaeVerif.C03.ComposeEx
open DaeVerif.C03 DaeVerif.C01 DaeVerif.C02 DaeVerif.C12

/-! ## Non-vacuity fixtures (used by the example at the end)

The program `dport(443) -> g2(mark 7)` · `dip(10.0.0.0/8) && l4proto(tcp) -> must_rules` ·
`mac(02:42:ac:11:00:02) -> g3`, fallback direct (the last two rules are C01's own example), installed
over empty maps; the frame is `exSyn` of `Props.lean` (TCP SYN to 1.2.3.4:443): the first matching
rule is the first one. -/

def exFb : C01.Out := ⟨0, 0, false⟩
def exRules : List SRule :=
  ⟨⟨false, .port true ⟨⟨(443, 443), []⟩, []⟩⟩, [], .final ⟨2, 7, false⟩⟩ :: C01.Props.exRules.tail
def exInstalled : KMaps :=
  { installGen .little 0 (assignFrom 0 (compileProgram exRules exFb)).1
      (assignFrom 0 (compileProgram exRules exFb)).2 KMaps.empty with domain := [] }

theorem exRulesWF : ∀ r ∈ exRules, r.WF := by
  intro r hr
  simp only [exRules, C01.Props.exRules, List.tail_cons, List.mem_cons, List.not_mem_nil, or_false] at hr
  rcases hr with rfl | rfl | rfl <;> intro c hc <;>
    simp only [List.mem_cons, List.not_mem_nil, or_false] at hc
  · subst hc; trivial
  · rcases hc with rfl | rfl
    · intro g hg pr hpr
      simp only [NE.toList, List.mem_cons, List.not_mem_nil, or_false] at hg hpr
      subst hg; simp only [List.not_mem_nil, or_false] at hpr; subst hpr
      unfold Prefix.WF C12.mapped4; decide
    · intro g hg b hb
      simp only [NE.toList, List.mem_cons, List.not_mem_nil, or_false] at hg hb
      subst hg; simp only [List.not_mem_nil, or_false] at hb; subst hb; decide
  · subst hc
    intro g hg m hm
    simp only [NE.toList, List.mem_cons, List.not_mem_nil, or_false] at hg hm
    subst hg; simp only [List.not_mem_nil, or_false] at hm; subst hm; decide

end DaeVerif.C03.ComposeEx

namespace DaeVerif.C03.Props
open DaeVerif.C03 DaeVerif.C01 DaeVerif.C02 DaeVerif.C12

/-! ## New flows: the fate and the record are the userspace matcher's / the first matching rule's

`m` = the kernel maps at the moment of the frame; `rtOf m` = the kernel `route()` over them (C02).
Frames are lists of bytes (`BytesOK`) whose linear part is a prefix (`lin ≤ len`).  `decOf
(dnsAdjust pk o)` is decision `o` as the datapath stores it, after the one intended difference: a
DNS query (dport 53) not covered by a must rule is handed to the control plane (outbound 0xFD) with
the rule's mark. -/

/-- **New TCP connection from the LAN, installed program.**  With any program installed in the maps
(C02's `Installed` + H2 for the destination), the SYN's fate is the one earned by the decision of the
userspace `RoutingMatcher.Match` on the same packet, and `RetrieveRoutingResult` returns exactly
that decision (outbound, mark, must) with the frame's DSCP and source MAC. -/
theorem lan_new_tcp_connection_follows_userspace (m : KMaps) (w : World) (s : Skb) (l2 : Bool) (p : Pkt)
    (hb : BytesOK s.raw.bytes) (hlin : s.raw.lin ≤ s.raw.bytes.length)
    (hp : parsePacket s.raw l2 = .pkt p) (ht : p.l4proto = IPPROTO_TCP) (hs : p.syn = true) (ha : p.ack = false)
    (hc : connRoom w p.tuples.five) (hrt : rtrackRoom w s p)
    (start : Nat) (kp : List KEntry) (tries : List (List Prefix)) (ubm : List Nat)
    (installed : Installed m start kp tries) (triesWF : ∀ t ∈ tries, ∀ q ∈ t, q.WF)
    (domain : ∀ wd, m.domainWord p.tuples.five.dip wd = ubm.getD wd 0)
    (entriesOK : ∀ k ∈ kp, EntryOK tries.length k) (o : C01.Out)
    (hu : matchU kp tries ubm (toPktK (lanRouteIn s p)) = some o) :
    (lanIngress (rtOf m) w s l2).2.realises w s true
      (lanFate w s p (decOf (dnsAdjust (toPktK (lanRouteIn s p)) o))) ∧
    ∀ t, retrieve (lanIngress (rtOf m) w s l2).1 p.tuples.five t =
      some ⟨(decOf (dnsAdjust (toPktK (lanRouteIn s p)) o)).mark, (decOf (dnsAdjust (toPktK (lanRouteIn s p)) o)).must,
            p.ethSrc, (decOf (dnsAdjust (toPktK (lanRouteIn s p)) o)).ob, zeros 16, 0, p.tuples.dscp⟩ := by
  obtain ⟨h0, hd⟩ := rtOf_decision m (lanRouteIn s p) start kp tries ubm installed triesWF
    (lan_pktOK s l2 p hb hlin hp) domain entriesOK o hu
  have := lan_new_tcp_connection (rtOf m) w s l2 p hp ht hs ha h0 hc hrt
  rw [hd] at this
  exact this

/-- **New TCP connection from the LAN, rules as written.**  When the maps hold one build of the rule
list `rules` with fallback `fb` (over arbitrary older contents), the SYN's fate and the retrieved
record are those of the FIRST rule, top to bottom, whose conditions all hold for the packet (C01's
`firstMatchS`; `must_rules` sets must and continues; fallback otherwise). -/
theorem lan_new_tcp_connection_follows_first_match (m : KMaps) (w : World) (s : Skb) (l2 : Bool) (p : Pkt)
    (hb : BytesOK s.raw.bytes) (hlin : s.raw.lin ≤ s.raw.bytes.length)
    (hp : parsePacket s.raw l2 = .pkt p) (ht : p.l4proto = IPPROTO_TCP) (hs : p.syn = true) (ha : p.ack = false)
    (hc : connRoom w p.tuples.five) (hrt : rtrackRoom w s p)
    (rules : List SRule) (fb : C01.Out) (dom : List Bool) (ubm : List Nat)
    (h : FirstMatchHyps m rules fb (pktOf (lanRouteIn s p) dom) false ubm) :
    (lanIngress (rtOf m) w s l2).2.realises w s true
      (lanFate w s p (decOf (dnsAdjust (toPktK (lanRouteIn s p)) (firstMatchS (pktOf (lanRouteIn s p) dom) rules fb false)))) ∧
    ∀ t, ∃ r, retrieve (lanIngress (rtOf m) w s l2).1 p.tuples.five t = some r ∧
      (⟨r.outbound, r.mark, r.must⟩ : Dec) =
        decOf (dnsAdjust (toPktK (lanRouteIn s p)) (firstMatchS (pktOf (lanRouteIn s p) dom) rules fb false)) ∧
      r.mac = p.ethSrc ∧ r.dscp = p.tuples.dscp := by
  obtain ⟨h0, hd⟩ := rtOf_first_match m (lanRouteIn s p) dom false rules fb ubm rfl (lan_pktOK s l2 p hb hlin hp) h
  obtain ⟨h1, h2⟩ := lan_new_tcp_connection (rtOf m) w s l2 p hp ht hs ha h0 hc hrt
  rw [hd] at h1 h2
  exact ⟨h1, fun t => ⟨_, h2 t, rfl, rfl, rfl⟩⟩

/-- **New UDP flow from the LAN, rules as written.** -/
theorem lan_new_udp_flow_follows_first_match (m : KMaps) (w : World) (s : Skb) (l2 : Bool) (p : Pkt)
    (hb : BytesOK s.raw.bytes) (hlin : s.raw.lin ≤ s.raw.bytes.length)
    (hp : parsePacket s.raw l2 = .pkt p) (ht : p.l4proto = IPPROTO_UDP)
    (hsl : shortLivedUdp p.tuples.five = false)
    (hnew : ∀ cs, udpLive w p.tuples.five = some cs → cs.hasRouting = 0 ∧ cs.wanDir = false)
    (hc : udpLive w p.tuples.five = none → connRoom w p.tuples.five)
    (hls : lanLocalSocket w s p = false) (hrt : rtrackRoom w s p)
    (rules : List SRule) (fb : C01.Out) (dom : List Bool) (ubm : List Nat)
    (h : FirstMatchHyps m rules fb (pktOf (lanRouteIn s p) dom) false ubm) :
    (lanIngress (rtOf m) w s l2).2.realises w s true
      (lanFate w s p (decOf (dnsAdjust (toPktK (lanRouteIn s p)) (firstMatchS (pktOf (lanRouteIn s p) dom) rules fb false)))) ∧
    ∀ t, ∃ r, retrieve (lanIngress (rtOf m) w s l2).1 p.tuples.five t = some r ∧
      (⟨r.outbound, r.mark, r.must⟩ : Dec) =
        decOf (dnsAdjust (toPktK (lanRouteIn s p)) (firstMatchS (pktOf (lanRouteIn s p) dom) rules fb false)) ∧
      r.mac = p.ethSrc ∧ r.dscp = p.tuples.dscp := by
  obtain ⟨h0, hd⟩ := rtOf_first_match m (lanRouteIn s p) dom false rules fb ubm rfl (lan_pktOK s l2 p hb hlin hp) h
  obtain ⟨h1, h2⟩ := lan_new_udp_flow (rtOf m) w s l2 p hp ht hsl hnew hc hls h0 hrt
  rw [hd] at h1
  refine ⟨h1, fun t => ?_⟩
  have h3 := h2 t
  cases hr : retrieve (lanIngress (rtOf m) w s l2).1 p.tuples.five t with
  | none => rw [hr] at h3; simp at h3
  | some r =>
    rw [hr] at h3
    simp only [Option.map_some, Option.some.injEq, Prod.mk.injEq] at h3
    obtain ⟨e1, e2, e3, e4, e5⟩ := h3
    refine ⟨r, rfl, ?_, e5, e4⟩
    rw [← hd, e1, e2, e3]

/-- **New TCP connection of a local process, installed program** (WAN egress; the sender's process
name, when its socket cookie is known, is what `pname(...)` rules see). -/
theorem wan_new_tcp_connection_follows_userspace (m : KMaps) (w : World) (s : Skb) (l2 : Bool) (p : Pkt)
    (hb : BytesOK s.raw.bytes) (hlin : s.raw.lin ≤ s.raw.bytes.length)
    (hi : s.ingressIf = 0) (hp : parsePacket s.raw l2 = .pkt p) (ht : p.l4proto = IPPROTO_TCP)
    (hs : p.syn = true) (ha : p.ack = false) (hcp : (pidIsControlPlane w s).isCp = false)
    (hc : connRoom w p.tuples.five) (hrt : rtrackRoom w s p)
    (start : Nat) (kp : List KEntry) (tries : List (List Prefix)) (ubm : List Nat)
    (installed : Installed m start kp tries) (triesWF : ∀ t ∈ tries, ∀ q ∈ t, q.WF)
    (domain : ∀ wd, m.domainWord p.tuples.five.dip wd = ubm.getD wd 0)
    (entriesOK : ∀ k ∈ kp, EntryOK tries.length k) (o : C01.Out)
    (hu : matchU kp tries ubm
      (toPktK (wanRouteIn s p true (ppName (pidIsControlPlane w s).pp) (if l2 then p.ethSrc else zeros 6))) = some o) :
    let pk := toPktK (wanRouteIn s p true (ppName (pidIsControlPlane w s).pp) (if l2 then p.ethSrc else zeros 6))
    (wanEgress (rtOf m) w s l2).2.realises w s false (wanFate w s p (decOf (dnsAdjust pk o))) ∧
    (¬ ((decOf (dnsAdjust pk o)).ob = OUTBOUND_DIRECT ∧ (decOf (dnsAdjust pk o)).mark = 0 ∧
        (decOf (dnsAdjust pk o)).must = 0) →
      ∀ t, retrieve (wanEgress (rtOf m) w s l2).1 p.tuples.five t =
        some ⟨(decOf (dnsAdjust pk o)).mark, (decOf (dnsAdjust pk o)).must, if l2 then p.ethSrc else zeros 6,
              (decOf (dnsAdjust pk o)).ob, ppName (pidIsControlPlane w s).pp, ppPid (pidIsControlPlane w s).pp,
              p.tuples.dscp⟩) := by
  intro pk
  obtain ⟨_, _, _, hsrc⟩ := parsePacket_ranges s.raw l2 p hb hlin hp
  obtain ⟨h0, hd⟩ := rtOf_decision m
    (wanRouteIn s p true (ppName (pidIsControlPlane w s).pp) (if l2 then p.ethSrc else zeros 6)) start kp tries ubm
    installed triesWF (wan_pktOK s l2 p true _ _ hb hlin hp (wan_tcp_mac_ok l2 p hsrc)) domain entriesOK o hu
  have := wan_new_tcp_connection (rtOf m) w s l2 p hi hp ht hs ha hcp h0 hc hrt
  simp only at this
  rw [hd] at this
  exact this

/-- **New TCP connection of a local process, rules as written.** -/
theorem wan_new_tcp_connection_follows_first_match (m : KMaps) (w : World) (s : Skb) (l2 : Bool) (p : Pkt)
    (hb : BytesOK s.raw.bytes) (hlin : s.raw.lin ≤ s.raw.bytes.length)
    (hi : s.ingressIf = 0) (hp : parsePacket s.raw l2 = .pkt p) (ht : p.l4proto = IPPROTO_TCP)
    (hs : p.syn = true) (ha : p.ack = false) (hcp : (pidIsControlPlane w s).isCp = false)
    (hc : connRoom w p.tuples.five) (hrt : rtrackRoom w s p)
    (rules : List SRule) (fb : C01.Out) (dom : List Bool) (ubm : List Nat)
    (h : FirstMatchHyps m rules fb
      (pktOf (wanRouteIn s p true (ppName (pidIsControlPlane w s).pp) (if l2 then p.ethSrc else zeros 6)) dom) true ubm) :
    let i := wanRouteIn s p true (ppName (pidIsControlPlane w s).pp) (if l2 then p.ethSrc else zeros 6)
    let d := decOf (dnsAdjust (toPktK i) (firstMatchS (pktOf i dom) rules fb false))
    (wanEgress (rtOf m) w s l2).2.realises w s false (wanFate w s p d) ∧
    (¬ (d.ob = OUTBOUND_DIRECT ∧ d.mark = 0 ∧ d.must = 0) →
      ∀ t, retrieve (wanEgress (rtOf m) w s l2).1 p.tuples.five t =
        some ⟨d.mark, d.must, if l2 then p.ethSrc else zeros 6, d.ob, ppName (pidIsControlPlane w s).pp,
              ppPid (pidIsControlPlane w s).pp, p.tuples.dscp⟩) := by
  intro i d
  obtain ⟨_, _, _, hsrc⟩ := parsePacket_ranges s.raw l2 p hb hlin hp
  obtain ⟨h0, hd⟩ := rtOf_first_match m i dom true rules fb ubm rfl
    (wan_pktOK s l2 p true _ _ hb hlin hp (wan_tcp_mac_ok l2 p hsrc)) h
  have := wan_new_tcp_connection (rtOf m) w s l2 p hi hp ht hs ha hcp h0 hc hrt
  simp only at this
  rw [hd] at this
  exact this

/-- **New UDP flow of a local process, rules as written.** -/
theorem wan_new_udp_flow_follows_first_match (m : KMaps) (w : World) (s : Skb) (l2 : Bool) (p : Pkt)
    (hb : BytesOK s.raw.bytes) (hlin : s.raw.lin ≤ s.raw.bytes.length)
    (hi : s.ingressIf = 0) (hp : parsePacket s.raw l2 = .pkt p) (ht : p.l4proto = IPPROTO_UDP)
    (hsl : shortLivedUdp p.tuples.five = false) (hcp : (pidIsControlPlane w s).isCp = false)
    (hnew : ∀ cs, udpLive w p.tuples.five = some cs → cs.hasRouting = 0 ∧ cs.wanDir = false)
    (hc : udpLive w p.tuples.five = none → connRoom w p.tuples.five) (hrt : rtrackRoom w s p)
    (rules : List SRule) (fb : C01.Out) (dom : List Bool) (ubm : List Nat)
    (h : FirstMatchHyps m rules fb
      (pktOf (wanRouteIn s p false (ppName (pidIsControlPlane w s).pp) p.ethSrc) dom) true ubm) :
    let i := wanRouteIn s p false (ppName (pidIsControlPlane w s).pp) p.ethSrc
    let d := decOf (dnsAdjust (toPktK i) (firstMatchS (pktOf i dom) rules fb false))
    (wanEgress (rtOf m) w s l2).2.realises w s false (wanFate w s p d) ∧
    ∀ t, ∃ r, retrieve (wanEgress (rtOf m) w s l2).1 p.tuples.five t = some r ∧
      (r.outbound, r.mark, r.must, r.dscp, r.mac) = (d.ob, d.mark, d.must, p.tuples.dscp, p.ethSrc) ∧
      ∀ x, (pidIsControlPlane w s).pp = some x → r.pname = x.pname ∧ r.pid = x.pid := by
  intro i d
  obtain ⟨_, _, _, hsrc⟩ := parsePacket_ranges s.raw l2 p hb hlin hp
  obtain ⟨h0, hd⟩ := rtOf_first_match m i dom true rules fb ubm rfl
    (wan_pktOK s l2 p false _ _ hb hlin hp hsrc) h
  have := wan_new_udp_flow (rtOf m) w s l2 p hi hp ht hsl hcp hnew hc h0 hrt
  simp only at this
  rw [hd] at this
  exact this

/-! ## Runs with installed programs -/

/-- **Stickiness with installed programs.**  `sticky_decision` for runs in which the rule program of
every event is whatever is installed in the kernel maps at that moment (`rtOf` of arbitrary maps: any
number of reloads, any learned domains): a tracked flow keeps following its decision, and on its
frames the installed program is not consulted — any other maps give the same output and world. -/
theorem sticky_decision_installed_programs (k : Key) (d : Dec) (h4 : k.l4 = IPPROTO_TCP ∨ k.l4 = IPPROTO_UDP)
    (hsl : shortLivedUdp k = false) (xs : List (KMaps × (World → World) × Hook × Skb × Bool)) (w : World)
    (henv : ∀ x ∈ xs, EnvOk (installedEvent x)) (ht : Tracked w k d)
    (hkeep : KeepsTracking k w (xs.map installedEvent)) :
    Follows k d w (xs.map installedEvent) ∧ Tracked (run w (xs.map installedEvent)) k d :=
  sticky_decision k d h4 hsl (xs.map installedEvent) w
    (fun e he => by
      obtain ⟨x, hx, rfl⟩ := List.mem_map.mp he
      exact henv x hx)
    ht hkeep

/-- **The first matching rule decides, and the decision sticks.**  A TCP connection from the LAN is
opened while the maps hold a build of `rules`/`fb`.  Its decision `d` is that of the first matching
rule (DNS-adjusted); and along ANY later run — reloads installing other programs, learned domains,
connectivity changes, other flows interleaved — as long as the flow stays tracked (no new SYN, no
idle timeout), every frame of it on the capturing hooks gets the fate `d` earns and the entry keeps
`d`. -/
theorem first_match_decision_is_sticky (m : KMaps) (w : World) (s : Skb) (l2 : Bool) (p : Pkt)
    (hb : BytesOK s.raw.bytes) (hlin : s.raw.lin ≤ s.raw.bytes.length)
    (hp : parsePacket s.raw l2 = .pkt p) (ht : p.l4proto = IPPROTO_TCP) (hs : p.syn = true) (ha : p.ack = false)
    (hc : connRoom w p.tuples.five)
    (rules : List SRule) (fb : C01.Out) (dom : List Bool) (ubm : List Nat)
    (h : FirstMatchHyps m rules fb (pktOf (lanRouteIn s p) dom) false ubm)
    (evs : List Event) (henv : ∀ e ∈ evs, EnvOk e)
    (hkeep : KeepsTracking p.tuples.five (lanIngress (rtOf m) w s l2).1 evs) :
    let d := decOf (dnsAdjust (toPktK (lanRouteIn s p)) (firstMatchS (pktOf (lanRouteIn s p) dom) rules fb false))
    Follows p.tuples.five d (lanIngress (rtOf m) w s l2).1 evs ∧
    Tracked (run (lanIngress (rtOf m) w s l2).1 evs) p.tuples.five d := by
  intro d
  obtain ⟨h0, hd⟩ := rtOf_first_match m (lanRouteIn s p) dom false rules fb ubm rfl (lan_pktOK s l2 p hb hlin hp) h
  have htr := lan_new_tcp_becomes_tracked (rtOf m) w s l2 p hp ht hs ha h0 hc
  rw [hd] at htr
  have hl4 : p.tuples.five.l4 = IPPROTO_TCP := by rw [parsePacket_l4 hp, ht]
  exact sticky_decision p.tuples.five d (Or.inl hl4) (shortLived_tcp _ hl4) evs _ henv htr hkeep

/-- … the same for a UDP flow from the LAN, -/
theorem first_match_decision_is_sticky_lan_udp (m : KMaps) (w : World) (s : Skb) (l2 : Bool) (p : Pkt)
    (hb : BytesOK s.raw.bytes) (hlin : s.raw.lin ≤ s.raw.bytes.length)
    (hp : parsePacket s.raw l2 = .pkt p) (ht : p.l4proto = IPPROTO_UDP)
    (hsl : shortLivedUdp p.tuples.five = false)
    (hnew : ∀ cs, udpLive w p.tuples.five = some cs → cs.hasRouting = 0 ∧ cs.wanDir = false)
    (hc : udpLive w p.tuples.five = none → connRoom w p.tuples.five)
    (hls : lanLocalSocket w s p = false)
    (rules : List SRule) (fb : C01.Out) (dom : List Bool) (ubm : List Nat)
    (h : FirstMatchHyps m rules fb (pktOf (lanRouteIn s p) dom) false ubm)
    (evs : List Event) (henv : ∀ e ∈ evs, EnvOk e)
    (hkeep : KeepsTracking p.tuples.five (lanIngress (rtOf m) w s l2).1 evs) :
    let d := decOf (dnsAdjust (toPktK (lanRouteIn s p)) (firstMatchS (pktOf (lanRouteIn s p) dom) rules fb false))
    Follows p.tuples.five d (lanIngress (rtOf m) w s l2).1 evs ∧
    Tracked (run (lanIngress (rtOf m) w s l2).1 evs) p.tuples.five d := by
  intro d
  obtain ⟨h0, hd⟩ := rtOf_first_match m (lanRouteIn s p) dom false rules fb ubm rfl (lan_pktOK s l2 p hb hlin hp) h
  have htr := lan_new_udp_becomes_tracked (rtOf m) w s l2 p hp ht hsl hnew hc hls h0
  rw [hd] at htr
  have hl4 : p.tuples.five.l4 = IPPROTO_UDP := by rw [parsePacket_l4 hp, ht]
  exact sticky_decision p.tuples.five d (Or.inr hl4) hsl evs _ henv htr hkeep

/-- … for a TCP connection of a local process (unless it is routed plain direct, in which case nothing is
cached and the rest of the connection passes: `wan_new_tcp_becomes_tracked`, `undecided_tcp_flow_passes`), -/
theorem first_match_decision_is_sticky_wan_tcp (m : KMaps) (w : World) (s : Skb) (l2 : Bool) (p : Pkt)
    (hb : BytesOK s.raw.bytes) (hlin : s.raw.lin ≤ s.raw.bytes.length)
    (hi : s.ingressIf = 0) (hp : parsePacket s.raw l2 = .pkt p) (ht : p.l4proto = IPPROTO_TCP)
    (hs : p.syn = true) (ha : p.ack = false) (hcp : (pidIsControlPlane w s).isCp = false)
    (hc : connRoom w p.tuples.five)
    (rules : List SRule) (fb : C01.Out) (dom : List Bool) (ubm : List Nat)
    (h : FirstMatchHyps m rules fb
      (pktOf (wanRouteIn s p true (ppName (pidIsControlPlane w s).pp) (if l2 then p.ethSrc else zeros 6)) dom) true ubm)
    (evs : List Event) (henv : ∀ e ∈ evs, EnvOk e)
    (hkeep : KeepsTracking p.tuples.five (wanEgress (rtOf m) w s l2).1 evs) :
    let i := wanRouteIn s p true (ppName (pidIsControlPlane w s).pp) (if l2 then p.ethSrc else zeros 6)
    let d := decOf (dnsAdjust (toPktK i) (firstMatchS (pktOf i dom) rules fb false))
    ¬ (d.ob = OUTBOUND_DIRECT ∧ d.mark = 0 ∧ d.must = 0) →
    Follows p.tuples.five d (wanEgress (rtOf m) w s l2).1 evs ∧
    Tracked (run (wanEgress (rtOf m) w s l2).1 evs) p.tuples.five d := by
  intro i d hnp
  obtain ⟨_, _, _, hsrc⟩ := parsePacket_ranges s.raw l2 p hb hlin hp
  obtain ⟨h0, hd⟩ := rtOf_first_match m i dom true rules fb ubm rfl
    (wan_pktOK s l2 p true _ _ hb hlin hp (wan_tcp_mac_ok l2 p hsrc)) h
  have htr := (wan_new_tcp_becomes_tracked (rtOf m) w s l2 p hi hp ht hs ha hcp h0 hc).1
  rw [hd] at htr
  have hl4 : p.tuples.five.l4 = IPPROTO_TCP := by rw [parsePacket_l4 hp, ht]
  exact sticky_decision p.tuples.five d (Or.inl hl4) (shortLived_tcp _ hl4) evs _ henv (htr hnp) hkeep

/-- … and for a UDP flow of a local process (plain direct included). -/
theorem first_match_decision_is_sticky_wan_udp (m : KMaps) (w : World) (s : Skb) (l2 : Bool) (p : Pkt)
    (hb : BytesOK s.raw.bytes) (hlin : s.raw.lin ≤ s.raw.bytes.length)
    (hi : s.ingressIf = 0) (hp : parsePacket s.raw l2 = .pkt p) (ht : p.l4proto = IPPROTO_UDP)
    (hsl : shortLivedUdp p.tuples.five = false) (hcp : (pidIsControlPlane w s).isCp = false)
    (hnew : ∀ cs, udpLive w p.tuples.five = some cs → cs.hasRouting = 0 ∧ cs.wanDir = false)
    (hc : udpLive w p.tuples.five = none → connRoom w p.tuples.five)
    (rules : List SRule) (fb : C01.Out) (dom : List Bool) (ubm : List Nat)
    (h : FirstMatchHyps m rules fb
      (pktOf (wanRouteIn s p false (ppName (pidIsControlPlane w s).pp) p.ethSrc) dom) true ubm)
    (evs : List Event) (henv : ∀ e ∈ evs, EnvOk e)
    (hkeep : KeepsTracking p.tuples.five (wanEgress (rtOf m) w s l2).1 evs) :
    let i := wanRouteIn s p false (ppName (pidIsControlPlane w s).pp) p.ethSrc
    let d := decOf (dnsAdjust (toPktK i) (firstMatchS (pktOf i dom) rules fb false))
    Follows p.tuples.five d (wanEgress (rtOf m) w s l2).1 evs ∧
    Tracked (run (wanEgress (rtOf m) w s l2).1 evs) p.tuples.five d := by
  intro i d
  obtain ⟨_, _, _, hsrc⟩ := parsePacket_ranges s.raw l2 p hb hlin hp
  obtain ⟨h0, hd⟩ := rtOf_first_match m i dom true rules fb ubm rfl
    (wan_pktOK s l2 p false _ _ hb hlin hp hsrc) h
  have htr := wan_new_udp_becomes_tracked (rtOf m) w s l2 p hi hp ht hsl hcp hnew hc h0
  rw [hd] at htr
  have hl4 : p.tuples.five.l4 = IPPROTO_UDP := by rw [parsePacket_l4 hp, ht]
  exact sticky_decision p.tuples.five d (Or.inr hl4) hsl evs _ henv htr hkeep

/-! ## Non-vacuity -/

open DaeVerif.C03.ComposeEx in
-- all hypotheses of `lan_new_tcp_connection_follows_first_match` / `first_match_decision_is_sticky` hold,
-- the first matching rule says "group 2, mark 7", and that is what `route()` over the installed bytes returns
example : BytesOK exSyn.raw.bytes ∧ exSyn.raw.lin ≤ exSyn.raw.bytes.length ∧
    FirstMatchHyps exInstalled exRules exFb (pktOf (lanRouteIn exSyn exSynPkt) []) false [] ∧
    firstMatchS (pktOf (lanRouteIn exSyn exSynPkt) []) exRules exFb false = ⟨2, 7, false⟩ ∧
    decOf (dnsAdjust (toPktK (lanRouteIn exSyn exSynPkt)) ⟨2, 7, false⟩) = ⟨2, 7, 0⟩ ∧
    unpackRoute (rtOf exInstalled (lanRouteIn exSyn exSynPkt)) = ⟨2, 7, 0⟩ := by
  refine ⟨by unfold BytesOK; decide, by decide, ⟨⟨KMaps.empty, [], 0, rfl⟩, ?_, exRulesWF, by decide, by decide,
    by decide, by decide, by decide, fun wd => ?_, by decide⟩, by decide, by decide, by decide⟩
  · unfold C01.Pkt.WF; decide
  · show exInstalled.domainWord _ wd = ([] : List Nat).getD wd 0
    simp [KMaps.domainWord, exInstalled]

end DaeVerif.C03.Props
