import DaeVerif.C03.HookProofs
/-!
# C03 — property theorems, part 1: one frame

Only statements a reader should audit live here and in `Props.lean` (both in namespace
`DaeVerif.C03.Props`; this file holds the theorems about a single frame, `Props.lean` the theorems
about whole runs, which are proved from these); helper lemmas are in `ParseProofs`, `Proofs`,
`VerdictProofs`, `SourceProofs`, `HookProofs`, `RunProofs`.  Non-vacuity `example`s for all of them
are at the end of `Props.lean`.

Vocabulary (`Spec.lean`): `lanFate w s p d` / `wanFate w s p d` — the fate (`pass mark | drop |
toDae`) the property text assigns to decision `d = (outbound, mark, must)`; `o.realises w s ingress
f` — the hook's output `o` is that fate (verdict code, skb mark, frame bytes untouched on a pass,
redirect target and `cb[0]` on a hand-over); `retrieve w k t` — the control plane's
`RetrieveRoutingResult` for tuple `k` at time `t`; `connRoom` / `rtrackRoom` / `handoffRoom` — the
map in question can take the entry (otherwise the code fails closed; stated separately).
`rt` is the rule program: the value `route()` returns for its arguments — every theorem holds for
every `rt`.
-/
namespace DaeVerif.C03.Props
open DaeVerif.C03

/-! ## Both header parsers -/

/-- **Parse-path independence (headers).**  For every frame whose linear area is a prefix of the
skb, whichever of the two parsers ends up handling it — the fast one on the linear bytes, or the
byte-load fallback after the fast one gave up (`bpf_skb_pull_data` failed, or a header crosses the
end of the linear area) — `parse_transport` returns the same code and the same consumed header
fields: namely those the byte-load parser computes from the whole skb.  In particular the result
does not depend on `lin` or on `pullOk`. -/
theorem parse_path_independent (bytes : Bytes) (proto : Nat) (l2 : Bool)
    (lin₁ lin₂ : Nat) (pull₁ pull₂ : Bool) (h₁ : lin₁ ≤ bytes.length) (h₂ : lin₂ ≤ bytes.length) :
    parseTransport ⟨bytes, lin₁, pull₁, proto⟩ l2 = parseTransport ⟨bytes, lin₂, pull₂, proto⟩ l2 := by
  rw [parseTransport_eq_slow _ _ h₁, parseTransport_eq_slow _ _ h₂]
  rfl

/-- **No verdict depends on the parse path.**  Two skbs that differ only in how much of the frame
is linear and in whether `bpf_skb_pull_data` succeeded get the same verdict, the same skb effects
and leave the same world behind, on every hook, for every rule program and world. -/
theorem verdict_parse_path_independent (rt : RouteIn → Int) (w : World) (h : Hook) (l2 : Bool)
    (bytes : Bytes) (proto iif ifx mark cookie : Nat) (sk : Option SockEntry)
    (lin₁ lin₂ : Nat) (pull₁ pull₂ : Bool) (h₁ : lin₁ ≤ bytes.length) (h₂ : lin₂ ≤ bytes.length) :
    step rt w h ⟨⟨bytes, lin₁, pull₁, proto⟩, iif, ifx, mark, cookie, sk⟩ l2 =
    step rt w h ⟨⟨bytes, lin₂, pull₂, proto⟩, iif, ifx, mark, cookie, sk⟩ l2 := by
  have hp := parse_path_independent bytes proto l2 lin₁ lin₂ pull₁ pull₂ h₁ h₂
  cases h <;> simp only [step, lanIngress, wanEgress, wanIngress, lanEgress, parsePacket, hp] <;> rfl

/-! ## LAN ingress: the first packet of a flow -/

/-- **New TCP connection from the LAN.**  A pure SYN is routed by the current rule program, and the
frame gets the fate its decision earns: direct ⇒ passed unmodified with the rule's mark in
`skb->mark`; block ⇒ dropped; proxy group whose health bit for (tcp, family) is down ⇒ dropped
(destination port 53 excepted); otherwise redirected to dae.  Whatever the fate, the conn-state
entry created for the flow holds the decision, and the control plane's `RetrieveRoutingResult`
returns exactly (outbound, mark, must, DSCP, source MAC) from it at any later time. -/
theorem lan_new_tcp_connection (rt : RouteIn → Int) (w : World) (s : Skb) (l2 : Bool) (p : Pkt)
    (hp : parsePacket s.raw l2 = .pkt p) (ht : p.l4proto = IPPROTO_TCP) (hs : p.syn = true) (ha : p.ack = false)
    (hr : 0 ≤ rt (lanRouteIn s p)) (hc : connRoom w p.tuples.five) (hrt : rtrackRoom w s p) :
    (lanIngress rt w s l2).2.realises w s true (lanFate w s p (unpackRoute (rt (lanRouteIn s p)))) ∧
    ∀ t, retrieve (lanIngress rt w s l2).1 p.tuples.five t =
      some ⟨(unpackRoute (rt (lanRouteIn s p))).mark, (unpackRoute (rt (lanRouteIn s p))).must, p.ethSrc,
            (unpackRoute (rt (lanRouteIn s p))).ob, zeros 16, 0, p.tuples.dscp⟩ := by
  rw [lanIngress_pkt rt w s l2 p hp, lanIngressPkt_tcp_syn rt w s l2 p ht hs ha,
    markTcpSeen_syn_room w p.tuples.five false (p.fin || p.rst) { dscp := p.tuples.dscp } hc]
  have hrest : ({ w with conn := aerase w.conn p.tuples.five ++
      [(p.tuples.five, newConnState false w.now { dscp := p.tuples.dscp })] } : World).rest = w.rest := rfl
  constructor
  · rw [← lanFate_congr hrest, ← realises_congr hrest]
    exact lanRouteNew_fate rt _ s l2 p _ (lanLocalSocket_tcp_syn _ s p ht hs ha) hr (fun _ => rfl)
      ((rtrackRoom_congr hrest s p).mpr hrt)
  · intro t
    have hl : alookup ({ w with conn := aerase w.conn p.tuples.five ++
        [(p.tuples.five, newConnState false w.now { dscp := p.tuples.dscp })] } : World).conn p.tuples.five =
        some (newConnState false w.now { dscp := p.tuples.dscp }) := by
      simp only [alookup_append, alookup_aerase_self]; simp
    have hsl : (decide (p.l4proto = IPPROTO_UDP) && shortLivedUdp p.tuples.five) = false := by
      rw [ht]; rfl
    rw [retrieve_of_conn _ _ t _ (lanRouteNew_conn rt _ s l2 p _ (lanLocalSocket_tcp_syn _ s p ht hs ha) hr hsl hl)
      (by simp) (Or.inl (by rw [parsePacket_l4 hp, ht]))]
    rfl

/-- **Fail-closed when `conn_state_map` is full.**  A new TCP connection from the LAN whose state
cannot be stored passes only if it is routed plain direct (direct, no mark); everything else is
dropped rather than forwarded without a record. -/
theorem lan_new_tcp_map_full (rt : RouteIn → Int) (w : World) (s : Skb) (l2 : Bool) (p : Pkt)
    (hp : parsePacket s.raw l2 = .pkt p) (ht : p.l4proto = IPPROTO_TCP) (hs : p.syn = true) (ha : p.ack = false)
    (hr : 0 ≤ rt (lanRouteIn s p)) (hc : ¬ connRoom w p.tuples.five) :
    (lanIngress rt w s l2).2 =
      if (unpackRoute (rt (lanRouteIn s p))).ob = OUTBOUND_DIRECT ∧ (unpackRoute (rt (lanRouteIn s p))).mark = 0
      then outOk s 0 else outShot s := by
  rw [lanIngress_pkt rt w s l2 p hp, lanIngressPkt_tcp_syn rt w s l2 p ht hs ha]
  have hnone := markTcpSeen_syn_full w p.tuples.five false (p.fin || p.rst) { dscp := p.tuples.dscp } hc
  have hrest := markTcpSeen_rest w p.tuples.five false true (p.fin || p.rst) { dscp := p.tuples.dscp }
  unfold lanRouteNew
  have hneg : ¬ rt (lanRouteIn s p) < 0 := by omega
  rw [lanLocalSocket_congr hrest, lanLocalSocket_tcp_syn w s p ht hs ha, hnone]
  simp only [Bool.false_eq_true, if_false, hneg, ht, decide_true, Option.isNone_none, Bool.and_self, if_true]
  by_cases hd : (unpackRoute (rt (lanRouteIn s p))).ob = OUTBOUND_DIRECT ∧ (unpackRoute (rt (lanRouteIn s p))).mark = 0
  · obtain ⟨h1, h2⟩ := hd
    simp [h1, h2]
  · simp only [hd, if_false]
    have : (decide ((unpackRoute (rt (lanRouteIn s p))).ob = OUTBOUND_DIRECT) &&
        (unpackRoute (rt (lanRouteIn s p))).mark == 0) = false := by
      cases hx : (decide ((unpackRoute (rt (lanRouteIn s p))).ob = OUTBOUND_DIRECT) &&
        (unpackRoute (rt (lanRouteIn s p))).mark == 0)
      · rfl
      · exfalso; apply hd
        simp only [Bool.and_eq_true, decide_eq_true_eq, beq_iff_eq] at hx
        exact hx
    simp [this]

/-- **New UDP flow from the LAN** (not port 53): no live entry, or a live entry that holds no
decision yet.  The datagram is routed by the current rule program and gets the fate of its decision;
the decision is cached in the flow's entry, from which `RetrieveRoutingResult` returns exactly
(outbound, mark, must, DSCP, source MAC). -/
theorem lan_new_udp_flow (rt : RouteIn → Int) (w : World) (s : Skb) (l2 : Bool) (p : Pkt)
    (hp : parsePacket s.raw l2 = .pkt p) (ht : p.l4proto = IPPROTO_UDP)
    (hsl : shortLivedUdp p.tuples.five = false)
    (hnew : ∀ cs, udpLive w p.tuples.five = some cs → cs.hasRouting = 0 ∧ cs.wanDir = false)
    (hc : udpLive w p.tuples.five = none → connRoom w p.tuples.five)
    (hls : lanLocalSocket w s p = false)
    (hr : 0 ≤ rt (lanRouteIn s p)) (hrt : rtrackRoom w s p) :
    (lanIngress rt w s l2).2.realises w s true (lanFate w s p (unpackRoute (rt (lanRouteIn s p)))) ∧
    ∀ t, (retrieve (lanIngress rt w s l2).1 p.tuples.five t).map
        (fun r => (r.outbound, r.mark, r.must, r.dscp, r.mac)) =
      some ((unpackRoute (rt (lanRouteIn s p))).ob, (unpackRoute (rt (lanRouteIn s p))).mark,
            (unpackRoute (rt (lanRouteIn s p))).must, p.tuples.dscp, p.ethSrc) := by
  have hnt : p.l4proto ≠ IPPROTO_TCP := by rw [ht]; decide
  rw [lanIngress_pkt rt w s l2 p hp, lanIngressPkt_udp rt w s l2 p hnt hsl]
  have hrest := markUdpSeen_rest w p.tuples.five false { dscp := p.tuples.dscp }
  -- in both cases the conntrack call returns an entry without a decision, stored under the key
  have hst : ∃ cs, (markUdpSeen w p.tuples.five false { dscp := p.tuples.dscp }).2 = some cs ∧
      cs.wanDir = false ∧ cs.hasRouting = 0 ∧
      alookup (markUdpSeen w p.tuples.five false { dscp := p.tuples.dscp }).1.conn p.tuples.five = some cs := by
    cases hl : udpLive w p.tuples.five with
    | none =>
      rw [markUdpSeen_new_room w _ false _ hl (hc hl)]
      refine ⟨_, rfl, rfl, rfl, ?_⟩
      simp only [alookup_append, alookup_aerase_self]; simp
    | some cs =>
      rw [markUdpSeen_live w _ false _ cs hl]
      obtain ⟨t, ht'⟩ := touchUdp_eq cs w.now { dscp := p.tuples.dscp } rfl
      refine ⟨_, rfl, ?_, ?_, alookup_areplace_self _ _ _ _ (udpLive_lookup w _ cs hl)⟩
      · rw [ht']; exact (hnew cs hl).2
      · rw [ht']; exact (hnew cs hl).1
  obtain ⟨cs, hm, hw, hr0, hlk⟩ := hst
  rw [lanUdp_untracked rt w s l2 p cs hm hw hr0]
  have hls' : lanLocalSocket (markUdpSeen w p.tuples.five false { dscp := p.tuples.dscp }).1 s p = false := by
    rw [lanLocalSocket_congr hrest]; exact hls
  constructor
  · rw [← lanFate_congr hrest, ← realises_congr hrest]
    exact lanRouteNew_fate rt _ s l2 p _ hls' hr (fun h => absurd h hnt) ((rtrackRoom_congr hrest s p).mpr hrt)
  · intro t
    have hsl' : (decide (p.l4proto = IPPROTO_UDP) && shortLivedUdp p.tuples.five) = false := by simp [hsl]
    rw [retrieve_of_conn _ _ t _ (lanRouteNew_conn rt _ s l2 p cs hls' hr hsl' hlk) (by simp)
      (Or.inr (by rw [parsePacket_l4 hp, ht]))]
    rfl

/-- **DNS datagram from the LAN** (UDP, port 53): stateless — routed on every datagram, no
conn-state entry is created or consulted, and a dead group does not drop it (the control plane
handles DNS fallback).  When it is handed over, the hand-off record carries exactly (outbound, mark,
must, DSCP, source MAC) and `RetrieveRoutingResult` returns it during the next ten seconds. -/
theorem lan_dns_datagram (rt : RouteIn → Int) (w : World) (s : Skb) (l2 : Bool) (p : Pkt)
    (hp : parsePacket s.raw l2 = .pkt p) (ht : p.l4proto = IPPROTO_UDP)
    (hsl : shortLivedUdp p.tuples.five = true) (hls : lanLocalSocket w s p = false)
    (hr : 0 ≤ rt (lanRouteIn s p)) (hrt : rtrackRoom w s p) (hh : handoffRoom w p.tuples.five)
    (hnc : ∀ cs, alookup w.conn p.tuples.five = some cs → cs.hasRouting = 0) (hnow : 0 < w.now) :
    (lanIngress rt w s l2).2.realises w s true (lanFate w s p (unpackRoute (rt (lanRouteIn s p)))) ∧
    (lanIngress rt w s l2).1.conn = w.conn ∧
    (lanFate w s p (unpackRoute (rt (lanRouteIn s p))) = .toDae →
      ∀ age, age ≤ HANDOFF_TIMEOUT →
        retrieve (lanIngress rt w s l2).1 p.tuples.five (w.now + age) =
          some ⟨(unpackRoute (rt (lanRouteIn s p))).mark, (unpackRoute (rt (lanRouteIn s p))).must, p.ethSrc,
                (unpackRoute (rt (lanRouteIn s p))).ob, zeros 16, 0, p.tuples.dscp⟩) := by
  have hnt : p.l4proto ≠ IPPROTO_TCP := by rw [ht]; decide
  rw [lanIngress_pkt rt w s l2 p hp, lanIngressPkt_dns rt w s l2 p hnt hsl]
  have hconn : (lanRouteNew rt w s l2 p none).1.conn = w.conn := by
    unfold lanRouteNew lanCache
    simp only [ht, hsl, decide_true, Bool.and_self, if_true]
    leaves <;> first | rfl | simp
  refine ⟨lanRouteNew_fate rt w s l2 p none hls hr (fun h => absurd h hnt) hrt, hconn, ?_⟩
  intro hf age hage
  have hho := lanRouteNew_handoff rt w s l2 p none hls hr (fun h => absurd h hnt) hrt hh hf
  exact retrieve_of_handoff _ _ _ _ (by rw [hconn]; exact hnc) hho (handoff_fresh w.now age hnow hage)

/-! ## LAN ingress: later packets of a tracked flow -/

/-- **A tracked TCP flow follows its cached decision.**  While the entry of the flow is live (no
pure SYN, not past its idle timeout) and holds a decision, a frame of the flow gets the fate of THAT
decision — the rule program is not consulted (the result is the same for any two rule programs),
whatever rules or learned domains have become meanwhile — and the entry keeps the decision. -/
theorem lan_tracked_tcp_follows_cache (rt rt' : RouteIn → Int) (w : World) (s : Skb) (l2 : Bool) (p : Pkt)
    (cs : ConnState) (hp : parsePacket s.raw l2 = .pkt p) (ht : p.l4proto = IPPROTO_TCP)
    (hns : (p.syn && !p.ack) = false) (hl : tcpLive w p.tuples.five false = some cs)
    (hr : cs.hasRouting ≠ 0) :
    (rtrackRoom w s p → (lanIngress rt w s l2).2.realises w s true (lanFate w s p cs.decision)) ∧
    lanIngress rt w s l2 = lanIngress rt' w s l2 ∧
    ∃ cs', alookup (lanIngress rt w s l2).1.conn p.tuples.five = some cs' ∧ cs'.decision = cs.decision ∧
      cs'.hasRouting = cs.hasRouting ∧ cs'.wanDir = cs.wanDir := by
  rw [lanIngress_pkt rt w s l2 p hp, lanIngress_pkt rt' w s l2 p hp, lanIngressPkt_tcp_est rt w s l2 p ht hns,
    lanIngressPkt_tcp_est rt' w s l2 p ht hns]
  obtain ⟨t, st, hte⟩ := touchTcp_eq cs w.now (p.fin || p.rst)
  have hm := markTcpSeen_live w p.tuples.five false (p.fin || p.rst) {} cs hl
  have hm2 : (markTcpSeen w p.tuples.five false false (p.fin || p.rst) {}).2 = some (touchTcp cs w.now (p.fin || p.rst) {}) := by
    rw [hm]
  have hdec : (touchTcp cs w.now (p.fin || p.rst) {}).decision = cs.decision := by rw [hte]; rfl
  have hr' : (touchTcp cs w.now (p.fin || p.rst) {}).hasRouting ≠ 0 := by rw [hte]; exact hr
  refine ⟨?_, rfl, ?_⟩
  · intro hrt
    rw [← hdec]
    exact lanTcpEstablished_tracked_out w s l2 p _ hm2 hr' hrt
  · refine ⟨touchTcp cs w.now (p.fin || p.rst) {}, ?_, hdec, by rw [hte], by rw [hte]⟩
    unfold lanTcpEstablished
    simp only [hm2, hr', if_false, lanVerdict_conn]
    rw [hm]
    exact alookup_areplace_self _ _ _ _ (tcpLive_lookup w _ false cs hl)

/-- **A tracked UDP flow follows its cached decision** (LAN side; not port 53, not a flow opened
from the WAN side). -/
theorem lan_tracked_udp_follows_cache (rt rt' : RouteIn → Int) (w : World) (s : Skb) (l2 : Bool) (p : Pkt)
    (cs : ConnState) (hp : parsePacket s.raw l2 = .pkt p) (ht : p.l4proto = IPPROTO_UDP)
    (hsl : shortLivedUdp p.tuples.five = false) (hl : udpLive w p.tuples.five = some cs)
    (hw : cs.wanDir = false) (hr : cs.hasRouting ≠ 0) :
    (rtrackRoom w s p → (lanIngress rt w s l2).2.realises w s true (lanFate w s p cs.decision)) ∧
    lanIngress rt w s l2 = lanIngress rt' w s l2 ∧
    ∃ cs', alookup (lanIngress rt w s l2).1.conn p.tuples.five = some cs' ∧ cs'.decision = cs.decision ∧
      cs'.hasRouting = cs.hasRouting ∧ cs'.wanDir = cs.wanDir := by
  have hnt : p.l4proto ≠ IPPROTO_TCP := by rw [ht]; decide
  rw [lanIngress_pkt rt w s l2 p hp, lanIngress_pkt rt' w s l2 p hp, lanIngressPkt_udp rt w s l2 p hnt hsl,
    lanIngressPkt_udp rt' w s l2 p hnt hsl]
  obtain ⟨t, hte⟩ := touchUdp_eq cs w.now { dscp := p.tuples.dscp } rfl
  have hm := markUdpSeen_live w p.tuples.five false { dscp := p.tuples.dscp } cs hl
  have hm2 : (markUdpSeen w p.tuples.five false { dscp := p.tuples.dscp }).2 =
      some (touchUdp cs w.now { dscp := p.tuples.dscp }) := by rw [hm]
  have hdec : (touchUdp cs w.now { dscp := p.tuples.dscp }).decision = cs.decision := by rw [hte]; rfl
  have hr' : (touchUdp cs w.now { dscp := p.tuples.dscp }).hasRouting ≠ 0 := by rw [hte]; exact hr
  have hw' : (touchUdp cs w.now { dscp := p.tuples.dscp }).wanDir = false := by rw [hte]; exact hw
  refine ⟨?_, lanUdp_tracked_rt rt rt' w s l2 p _ hm2 hw' hr', ?_⟩
  · intro hrt
    rw [← hdec]
    exact lanUdp_tracked_out rt w s l2 p _ hm2 hw' hr' hrt
  · have hlk : alookup (markUdpSeen w p.tuples.five false { dscp := p.tuples.dscp }).1.conn p.tuples.five =
        some (touchUdp cs w.now { dscp := p.tuples.dscp }) := by
      rw [hm]; exact alookup_areplace_self _ _ _ _ (udpLive_lookup w _ cs hl)
    obtain ⟨cs', h1, h2, h3, h4⟩ := lanUdp_tracked_conn rt w s l2 p _ hm2 hw' hr' hlk
    exact ⟨cs', h1, by rw [h2, hdec], by rw [h3, hte], by rw [h4, hte]⟩

/-- **Established TCP without a cached decision passes untouched** (LAN side): no entry, an expired
entry, or an entry that holds no decision — e.g. the reply path of a connection opened from the WAN
side.  Nothing is routed. -/
theorem lan_untracked_tcp_passes (rt : RouteIn → Int) (w : World) (s : Skb) (l2 : Bool) (p : Pkt)
    (hp : parsePacket s.raw l2 = .pkt p) (ht : p.l4proto = IPPROTO_TCP) (hns : (p.syn && !p.ack) = false)
    (hl : ∀ cs, tcpLive w p.tuples.five false = some cs → cs.hasRouting = 0) :
    (lanIngress rt w s l2).2 = outOk s s.mark := by
  rw [lanIngress_pkt rt w s l2 p hp, lanIngressPkt_tcp_est rt w s l2 p ht hns]
  apply lanTcpEstablished_untracked
  intro cs' hm
  cases hlv : tcpLive w p.tuples.five false with
  | none => rw [markTcpSeen_dead w _ false _ {} hlv] at hm; simp at hm
  | some cs =>
    rw [markTcpSeen_live w _ false _ {} cs hlv] at hm
    injection hm with hm
    obtain ⟨t, st, hte⟩ := touchTcp_eq cs w.now (p.fin || p.rst)
    rw [← hm, hte]; exact hl cs hlv

/-! ## WAN egress -/

/-- **Forwarded traffic is not captured on the WAN hook**: only locally originated frames
(`ingress_ifindex == 0`) are subject to WAN routing. -/
theorem wan_forwarded_passes (rt : RouteIn → Int) (w : World) (s : Skb) (l2 : Bool) (h : s.ingressIf ≠ 0) :
    wanEgress rt w s l2 = (w, outOk s s.mark) := by
  unfold wanEgress; simp [h]

/-- **New TCP connection of a local process** (not dae).  The SYN is routed by the current rule
program with the sender's process name; fate: direct without mark ⇒ passed untouched; direct with a
mark ⇒ handed to dae, which applies it; block ⇒ dropped; dead group ⇒ dropped (port 53 excepted);
otherwise handed to dae.  Unless the decision is plain direct (direct, no mark, not `must`) it is
cached in the conn-state entry, from which `RetrieveRoutingResult` returns exactly (outbound, mark,
must, DSCP, source MAC, process name, pid) at any later time. -/
theorem wan_new_tcp_connection (rt : RouteIn → Int) (w : World) (s : Skb) (l2 : Bool) (p : Pkt)
    (hi : s.ingressIf = 0) (hp : parsePacket s.raw l2 = .pkt p) (ht : p.l4proto = IPPROTO_TCP)
    (hs : p.syn = true) (ha : p.ack = false)
    (hcp : (pidIsControlPlane w s).isCp = false)
    (hr : 0 ≤ rt (wanRouteIn s p true (ppName (pidIsControlPlane w s).pp) (if l2 then p.ethSrc else zeros 6)))
    (hc : connRoom w p.tuples.five) (hrt : rtrackRoom w s p) :
    let d := unpackRoute (rt (wanRouteIn s p true (ppName (pidIsControlPlane w s).pp) (if l2 then p.ethSrc else zeros 6)))
    (wanEgress rt w s l2).2.realises w s false (wanFate w s p d) ∧
    (¬ (d.ob = OUTBOUND_DIRECT ∧ d.mark = 0 ∧ d.must = 0) →
      ∀ t, retrieve (wanEgress rt w s l2).1 p.tuples.five t =
        some ⟨d.mark, d.must, if l2 then p.ethSrc else zeros 6, d.ob, ppName (pidIsControlPlane w s).pp,
              ppPid (pidIsControlPlane w s).pp, p.tuples.dscp⟩) := by
  intro d
  rw [wanEgress_tcp rt w s l2 p hi hp ht]
  unfold wanEgressTcp
  simp only [hs, ha, Bool.not_false, Bool.and_self, if_true]
  unfold wanTcpSyn
  have hneg : ¬ rt (wanRouteIn s p true (ppName (pidIsControlPlane w s).pp) (if l2 then p.ethSrc else zeros 6)) < 0 := by
    omega
  simp only [hcp, Bool.false_eq_true, if_false, hneg]
  have hrest0 := pidIsControlPlane_rest w s
  have hc' : connRoom (pidIsControlPlane w s).w p.tuples.five :=
    (connRoom_congr (pidIsControlPlane_conn w s) hrest0 _).mpr hc
  rw [markTcpSeen_syn_room _ p.tuples.five false (p.fin || p.rst) _ hc']
  have hrest : ({ (pidIsControlPlane w s).w with conn := aerase (pidIsControlPlane w s).w.conn p.tuples.five ++
      [(p.tuples.five, newConnState false (pidIsControlPlane w s).w.now
        { rt := if d.ob = OUTBOUND_DIRECT ∧ d.mark = 0 ∧ d.must = 0 then none else some (d.ob, d.mark, d.must),
          mac := some (if l2 then p.ethSrc else zeros 6), dscp := p.tuples.dscp,
          pname := Option.map (fun x => x.pname) (pidIsControlPlane w s).pp,
          pid := ppPid (pidIsControlPlane w s).pp })] } : World).rest = w.rest := hrest0
  constructor
  · have := wanVerdict_realises _ s l2 p true d (if l2 then p.ethSrc else zeros 6) (ppName (pidIsControlPlane w s).pp)
      (ppPid (pidIsControlPlane w s).pp) false (by rw [ht]; rfl) ((rtrackRoom_congr hrest s p).mpr hrt)
      (by intro h; cases h)
    rw [wanFate_congr hrest, realises_congr hrest] at this
    simpa [d, Bool.and_eq_true, decide_eq_true_eq, beq_iff_eq, and_assoc] using this
  · intro hnp t
    have hrt' : (if (decide (d.ob = OUTBOUND_DIRECT) && d.mark == 0 && d.must == 0) = true then none
        else some (d.ob, d.mark, d.must)) = some (d.ob, d.mark, d.must) := by
      have : (decide (d.ob = OUTBOUND_DIRECT) && d.mark == 0 && d.must == 0) = false := by
        cases hx : (decide (d.ob = OUTBOUND_DIRECT) && d.mark == 0 && d.must == 0)
        · rfl
        · exfalso; apply hnp
          simp only [Bool.and_eq_true, decide_eq_true_eq, beq_iff_eq] at hx
          exact ⟨hx.1.1, hx.1.2, hx.2⟩
      simp [this]
    rw [retrieve_of_conn _ _ t (newConnState false (pidIsControlPlane w s).w.now
        { rt := some (d.ob, d.mark, d.must), mac := some (if l2 then p.ethSrc else zeros 6), dscp := p.tuples.dscp,
          pname := Option.map (fun x => x.pname) (pidIsControlPlane w s).pp,
          pid := ppPid (pidIsControlPlane w s).pp })
        (by simp only [d, hrt', wanVerdict_conn]
            exact alookup_erase_append_self (pidIsControlPlane w s).w.conn p.tuples.five _)
        (by simp [newConnState]) (Or.inl (by rw [parsePacket_l4 hp, ht]))]
    simp only [newConnState, Option.getD_some]
    cases (pidIsControlPlane w s).pp <;> rfl

/-- **Fail-closed when `conn_state_map` is full (WAN side).**  A new TCP connection of a local
process whose state cannot be stored passes only if it is routed direct without a mark; everything
else is dropped. -/
theorem wan_new_tcp_map_full (rt : RouteIn → Int) (w : World) (s : Skb) (l2 : Bool) (p : Pkt)
    (hi : s.ingressIf = 0) (hp : parsePacket s.raw l2 = .pkt p) (ht : p.l4proto = IPPROTO_TCP)
    (hs : p.syn = true) (ha : p.ack = false) (hcp : (pidIsControlPlane w s).isCp = false)
    (hr : 0 ≤ rt (wanRouteIn s p true (ppName (pidIsControlPlane w s).pp) (if l2 then p.ethSrc else zeros 6)))
    (hc : ¬ connRoom w p.tuples.five) :
    let d := unpackRoute (rt (wanRouteIn s p true (ppName (pidIsControlPlane w s).pp) (if l2 then p.ethSrc else zeros 6)))
    (wanEgress rt w s l2).2 = if d.ob = OUTBOUND_DIRECT ∧ d.mark = 0 then outOk s s.mark else outShot s := by
  intro d
  rw [wanEgress_tcp rt w s l2 p hi hp ht]
  unfold wanEgressTcp
  simp only [hs, ha, Bool.not_false, Bool.and_self, if_true]
  unfold wanTcpSyn
  have hneg : ¬ rt (wanRouteIn s p true (ppName (pidIsControlPlane w s).pp) (if l2 then p.ethSrc else zeros 6)) < 0 := by
    omega
  simp only [hcp, Bool.false_eq_true, if_false, hneg]
  have hc' : ¬ connRoom (pidIsControlPlane w s).w p.tuples.five := fun h =>
    hc ((connRoom_congr (pidIsControlPlane_conn w s) (pidIsControlPlane_rest w s) _).mp h)
  rw [markTcpSeen_syn_full _ p.tuples.five false (p.fin || p.rst) _ hc']
  by_cases hd : d.ob = OUTBOUND_DIRECT ∧ d.mark = 0
  · obtain ⟨h1, h2⟩ := hd
    simp [d, h1, h2] at h1 h2 ⊢
  · simp only [hd, if_false]
    have : (decide (d.ob = OUTBOUND_DIRECT) && d.mark == 0) = false := by
      cases hx : (decide (d.ob = OUTBOUND_DIRECT) && d.mark == 0)
      · rfl
      · exfalso; apply hd
        simp only [Bool.and_eq_true, decide_eq_true_eq, beq_iff_eq] at hx
        exact hx
    simp only [d] at this
    simp [this]

/-- **New UDP flow of a local process** (not dae, not port 53): no live entry, or a live entry that
holds no decision yet.  Routed by the current rule program; fate as for TCP.  The decision — plain
direct included — is cached in the flow's entry, from which `RetrieveRoutingResult` returns exactly
(outbound, mark, must, DSCP, source MAC) and, when the sender's socket cookie is known, its process
name and pid. -/
theorem wan_new_udp_flow (rt : RouteIn → Int) (w : World) (s : Skb) (l2 : Bool) (p : Pkt)
    (hi : s.ingressIf = 0) (hp : parsePacket s.raw l2 = .pkt p) (ht : p.l4proto = IPPROTO_UDP)
    (hsl : shortLivedUdp p.tuples.five = false) (hcp : (pidIsControlPlane w s).isCp = false)
    (hnew : ∀ cs, udpLive w p.tuples.five = some cs → cs.hasRouting = 0 ∧ cs.wanDir = false)
    (hc : udpLive w p.tuples.five = none → connRoom w p.tuples.five)
    (hr : 0 ≤ rt (wanRouteIn s p false (ppName (pidIsControlPlane w s).pp) p.ethSrc)) (hrt : rtrackRoom w s p) :
    let d := unpackRoute (rt (wanRouteIn s p false (ppName (pidIsControlPlane w s).pp) p.ethSrc))
    (wanEgress rt w s l2).2.realises w s false (wanFate w s p d) ∧
    ∀ t, ∃ r, retrieve (wanEgress rt w s l2).1 p.tuples.five t = some r ∧
      (r.outbound, r.mark, r.must, r.dscp, r.mac) = (d.ob, d.mark, d.must, p.tuples.dscp, p.ethSrc) ∧
      ∀ x, (pidIsControlPlane w s).pp = some x → r.pname = x.pname ∧ r.pid = x.pid := by
  intro d
  rw [wanEgress_udp rt w s l2 p hi hp ht]
  unfold wanEgressUdp
  simp only [hcp, Bool.false_eq_true, if_false, hsl, Bool.not_false, if_true]
  have hrest0 := pidIsControlPlane_rest w s
  have hconn0 := pidIsControlPlane_conn w s
  have hrest1 := markUdpSeen_rest (pidIsControlPlane w s).w p.tuples.five false {}
  have hrest : (markUdpSeen (pidIsControlPlane w s).w p.tuples.five false {}).1.rest = w.rest := hrest1.trans hrest0
  have hst : ∃ cs, (markUdpSeen (pidIsControlPlane w s).w p.tuples.five false {}).2 = some cs ∧
      cs.wanDir = false ∧ cs.hasRouting = 0 ∧
      alookup (markUdpSeen (pidIsControlPlane w s).w p.tuples.five false {}).1.conn p.tuples.five = some cs := by
    cases hl : udpLive (pidIsControlPlane w s).w p.tuples.five with
    | none =>
      have hl' : udpLive w p.tuples.five = none := by rw [← udpLive_congr hconn0 hrest0]; exact hl
      rw [markUdpSeen_new_room _ _ false _ hl ((connRoom_congr hconn0 hrest0 _).mpr (hc hl'))]
      refine ⟨_, rfl, ?_, ?_, ?_⟩
      · rfl
      · rfl
      · exact alookup_erase_append_self _ _ _
    | some cs =>
      have hl' : udpLive w p.tuples.five = some cs := by rw [← udpLive_congr hconn0 hrest0]; exact hl
      rw [markUdpSeen_live _ _ false _ cs hl]
      obtain ⟨t, ht'⟩ := touchUdp_eq cs (pidIsControlPlane w s).w.now {} rfl
      refine ⟨_, rfl, ?_, ?_, alookup_areplace_self _ _ _ _ (udpLive_lookup _ _ cs hl)⟩
      · rw [ht']; exact (hnew cs hl').2
      · rw [ht']; exact (hnew cs hl').1
  obtain ⟨cs, hm, hw, hr0, hlk⟩ := hst
  rw [hm]
  constructor
  · rw [← wanFate_congr hrest, ← realises_congr hrest]
    exact wanUdpRouted_untracked_fate rt _ s l2 p _ cs ht hsl hw hr0 hr ((rtrackRoom_congr hrest s p).mpr hrt)
  · intro t
    obtain ⟨cs', h1, h2, h3, h4, h5, h6, h7⟩ := wanUdpRouted_untracked_conn rt _ s l2 p (pidIsControlPlane w s).pp cs hw hr0 hr
      (dport_ne_53_of_not_shortLived _ (by rw [parsePacket_l4 hp, ht]) hsl) hlk
    refine ⟨_, retrieve_of_conn _ _ t cs' h1 (by rw [h3]; decide) (Or.inr (by rw [parsePacket_l4 hp, ht])), ?_, ?_⟩
    · have : cs'.outbound = d.ob ∧ cs'.mark = d.mark ∧ cs'.must = d.must := by
        have := congrArg Dec.ob h2; have := congrArg Dec.mark h2; have := congrArg Dec.must h2
        exact ⟨by assumption, by assumption, by assumption⟩
      simp only [this.1, this.2.1, this.2.2, h4, h5]
    · intro x hx
      simp only [h6, h7, hx, ppNameOr, ppPidOr, and_self]

/-- **DNS datagram of a local process** (UDP, port 53; not dae): stateless — routed on every
datagram, no conn-state entry created or consulted, never dropped for a dead group.  When handed
over, the (mandatory) hand-off record carries (outbound, mark, must, DSCP, source MAC, process name,
pid) and `RetrieveRoutingResult` returns it during the next ten seconds. -/
theorem wan_dns_datagram (rt : RouteIn → Int) (w : World) (s : Skb) (l2 : Bool) (p : Pkt)
    (hi : s.ingressIf = 0) (hp : parsePacket s.raw l2 = .pkt p) (ht : p.l4proto = IPPROTO_UDP)
    (hsl : shortLivedUdp p.tuples.five = true) (hcp : (pidIsControlPlane w s).isCp = false)
    (hr : 0 ≤ rt (wanRouteIn s p false (ppName (pidIsControlPlane w s).pp) p.ethSrc)) (hrt : rtrackRoom w s p)
    (hh : handoffRoom w p.tuples.five)
    (hnc : ∀ cs, alookup w.conn p.tuples.five = some cs → cs.hasRouting = 0) (hnow : 0 < w.now) :
    let d := unpackRoute (rt (wanRouteIn s p false (ppName (pidIsControlPlane w s).pp) p.ethSrc))
    (wanEgress rt w s l2).2.realises w s false (wanFate w s p d) ∧
    (wanEgress rt w s l2).1.conn = w.conn ∧
    (wanFate w s p d = .toDae → ∀ age, age ≤ HANDOFF_TIMEOUT →
      retrieve (wanEgress rt w s l2).1 p.tuples.five (w.now + age) =
        some ⟨d.mark, d.must, p.ethSrc, d.ob, ppName (pidIsControlPlane w s).pp, ppPid (pidIsControlPlane w s).pp,
              p.tuples.dscp⟩) := by
  intro d
  rw [wanEgress_udp rt w s l2 p hi hp ht]
  unfold wanEgressUdp
  simp only [hcp, Bool.false_eq_true, if_false, hsl, Bool.not_true]
  have hrest := pidIsControlPlane_rest w s
  have hconn := pidIsControlPlane_conn w s
  obtain ⟨h1, h2, h3⟩ := wanUdpRouted_none_fate rt (pidIsControlPlane w s).w s l2 p (pidIsControlPlane w s).pp ht hr
    ((rtrackRoom_congr hrest s p).mpr hrt) ((handoffRoom_congr hrest _).mpr hh)
  rw [wanFate_congr hrest, realises_congr hrest] at h1
  rw [wanFate_congr hrest] at h3
  refine ⟨h1, h2.trans hconn, ?_⟩
  intro hf age hage
  have hho := h3 hf
  rw [rest_now hrest] at hho
  exact retrieve_of_handoff _ _ _ _ (by rw [h2, hconn]; exact hnc) hho (handoff_fresh w.now age hnow hage)

/-! ## WAN egress: later packets of a tracked flow -/

/-- **A tracked TCP flow of a local process follows its cached decision**: the rule program is not
consulted, the fate is that of the cached decision, the entry keeps it. -/
theorem wan_tracked_tcp_follows_cache (rt rt' : RouteIn → Int) (w : World) (s : Skb) (l2 : Bool) (p : Pkt)
    (cs : ConnState) (hi : s.ingressIf = 0) (hp : parsePacket s.raw l2 = .pkt p) (ht : p.l4proto = IPPROTO_TCP)
    (hns : (p.syn && !p.ack) = false) (hl : tcpLive w p.tuples.five false = some cs)
    (hr : cs.hasRouting ≠ 0) :
    (rtrackRoom w s p → (wanEgress rt w s l2).2.realises w s false (wanFate w s p cs.decision)) ∧
    wanEgress rt w s l2 = wanEgress rt' w s l2 ∧
    ∃ cs', alookup (wanEgress rt w s l2).1.conn p.tuples.five = some cs' ∧ cs'.decision = cs.decision ∧
      cs'.hasRouting = cs.hasRouting ∧ cs'.wanDir = cs.wanDir := by
  rw [wanEgress_tcp rt w s l2 p hi hp ht, wanEgress_tcp rt' w s l2 p hi hp ht]
  unfold wanEgressTcp
  simp only [hns, Bool.false_eq_true, if_false]
  obtain ⟨t, st, hte⟩ := touchTcp_eq cs w.now (p.fin || p.rst)
  have hm := markTcpSeen_live w p.tuples.five false (p.fin || p.rst) {} cs hl
  have hm2 : (markTcpSeen w p.tuples.five false false (p.fin || p.rst) {}).2 = some (touchTcp cs w.now (p.fin || p.rst) {}) := by
    rw [hm]
  have hdec : (touchTcp cs w.now (p.fin || p.rst) {}).decision = cs.decision := by rw [hte]; rfl
  have hr' : (touchTcp cs w.now (p.fin || p.rst) {}).hasRouting ≠ 0 := by rw [hte]; exact hr
  refine ⟨?_, trivial, ?_⟩
  · intro hrt
    rw [← hdec]
    exact wanTcpEstablished_tracked_out w s l2 p _ ht hm2 hr' hrt
  · refine ⟨touchTcp cs w.now (p.fin || p.rst) {}, ?_, hdec, by rw [hte], by rw [hte]⟩
    unfold wanTcpEstablished
    simp only [hm2, hr', if_false, wanVerdict_conn]
    rw [hm]
    exact alookup_areplace_self _ _ _ _ (tcpLive_lookup w _ false cs hl)

/-- **A tracked UDP flow of a local process follows its cached decision** (not dae, not port 53, not
a flow opened from the WAN side). -/
theorem wan_tracked_udp_follows_cache (rt rt' : RouteIn → Int) (w : World) (s : Skb) (l2 : Bool) (p : Pkt)
    (cs : ConnState) (hi : s.ingressIf = 0) (hp : parsePacket s.raw l2 = .pkt p) (ht : p.l4proto = IPPROTO_UDP)
    (hsl : shortLivedUdp p.tuples.five = false) (hcp : (pidIsControlPlane w s).isCp = false)
    (hl : udpLive w p.tuples.five = some cs) (hw : cs.wanDir = false) (hr : cs.hasRouting ≠ 0) :
    (rtrackRoom w s p → (wanEgress rt w s l2).2.realises w s false (wanFate w s p cs.decision)) ∧
    wanEgress rt w s l2 = wanEgress rt' w s l2 ∧
    ∃ cs', alookup (wanEgress rt w s l2).1.conn p.tuples.five = some cs' ∧ cs'.decision = cs.decision ∧
      cs'.hasRouting ≠ 0 ∧ cs'.wanDir = cs.wanDir := by
  rw [wanEgress_udp rt w s l2 p hi hp ht, wanEgress_udp rt' w s l2 p hi hp ht]
  unfold wanEgressUdp
  simp only [hcp, Bool.false_eq_true, if_false, hsl, Bool.not_false, if_true]
  have hrest0 := pidIsControlPlane_rest w s
  have hconn0 := pidIsControlPlane_conn w s
  have hrest1 := markUdpSeen_rest (pidIsControlPlane w s).w p.tuples.five false {}
  have hrest : (markUdpSeen (pidIsControlPlane w s).w p.tuples.five false {}).1.rest = w.rest := hrest1.trans hrest0
  have hl' : udpLive (pidIsControlPlane w s).w p.tuples.five = some cs := by rw [udpLive_congr hconn0 hrest0]; exact hl
  obtain ⟨t, hte⟩ := touchUdp_eq cs (pidIsControlPlane w s).w.now {} rfl
  have hm := markUdpSeen_live (pidIsControlPlane w s).w p.tuples.five false {} cs hl'
  have hdec : (touchUdp cs (pidIsControlPlane w s).w.now {}).decision = cs.decision := by rw [hte]; rfl
  have hr' : (touchUdp cs (pidIsControlPlane w s).w.now {}).hasRouting ≠ 0 := by rw [hte]; exact hr
  have hw' : (touchUdp cs (pidIsControlPlane w s).w.now {}).wanDir = false := by rw [hte]; exact hw
  rw [hm]
  refine ⟨?_, wanUdpRouted_tracked_rt rt rt' _ s l2 p _ _ hw' hr', ?_⟩
  · have hrest2 : ({ (pidIsControlPlane w s).w with
        conn := areplace (pidIsControlPlane w s).w.conn p.tuples.five (touchUdp cs (pidIsControlPlane w s).w.now {}) }
        : World).rest = w.rest := hrest0
    intro hrt
    rw [← wanFate_congr hrest2, ← realises_congr hrest2, ← hdec]
    exact wanUdpRouted_tracked_fate rt _ s l2 p (pidIsControlPlane w s).pp _ ht hsl hw' hr'
      ((rtrackRoom_congr hrest2 s p).mpr hrt)
  · obtain ⟨cs', h1, h2, h3, h4⟩ := wanUdpRouted_tracked_conn rt ({ (pidIsControlPlane w s).w with
        conn := areplace (pidIsControlPlane w s).w.conn p.tuples.five (touchUdp cs (pidIsControlPlane w s).w.now {}) })
      s l2 p (pidIsControlPlane w s).pp _ hw' hr'
      (dport_ne_53_of_not_shortLived _ (by rw [parsePacket_l4 hp, ht]) hsl)
      (alookup_areplace_self _ _ _ _ (udpLive_lookup _ _ cs hl'))
    exact ⟨cs', h1, by rw [h2, hdec], by rw [h3]; decide, by rw [h4, hte]⟩

/-- **Established TCP without a cached decision passes untouched** (WAN side) — whoever sent it:
connections routed plain direct, dae's own connections, replies of connections opened from the WAN
side. -/
theorem wan_untracked_tcp_passes (rt : RouteIn → Int) (w : World) (s : Skb) (l2 : Bool) (p : Pkt)
    (hi : s.ingressIf = 0) (hp : parsePacket s.raw l2 = .pkt p) (ht : p.l4proto = IPPROTO_TCP)
    (hns : (p.syn && !p.ack) = false)
    (hl : ∀ cs, tcpLive w p.tuples.five false = some cs → cs.hasRouting = 0) :
    (wanEgress rt w s l2).2 = outOk s s.mark := by
  rw [wanEgress_tcp rt w s l2 p hi hp ht]
  unfold wanEgressTcp
  simp only [hns, Bool.false_eq_true, if_false]
  apply wanTcpEstablished_untracked
  intro cs' hm
  cases hlv : tcpLive w p.tuples.five false with
  | none => rw [markTcpSeen_dead w _ false _ {} hlv] at hm; simp at hm
  | some cs =>
    rw [markTcpSeen_live w _ false _ {} cs hlv] at hm
    injection hm with hm
    obtain ⟨t, st, hte⟩ := touchTcp_eq cs w.now (p.fin || p.rst)
    rw [← hm, hte]; exact hl cs hlv

/-! ## Packets sent by dae itself -/

/-- **dae's datagrams are never captured**: a UDP frame whose socket cookie maps to the control
plane's pid, or — when the cookie is unknown — whose mark is dae's socket mark or carries bit 0x100,
passes untouched, and no conn-state entry is created or changed. -/
theorem dae_udp_never_captured (rt : RouteIn → Int) (w : World) (s : Skb) (l2 : Bool) (p : Pkt)
    (hi : s.ingressIf = 0) (hp : parsePacket s.raw l2 = .pkt p) (ht : p.l4proto = IPPROTO_UDP)
    (hcp : (pidIsControlPlane w s).isCp = true) :
    (wanEgress rt w s l2).2 = outOk s s.mark ∧ (wanEgress rt w s l2).1.conn = w.conn := by
  rw [wanEgress_udp rt w s l2 p hi hp ht]
  unfold wanEgressUdp
  simp only [hcp, if_true, pidIsControlPlane_conn, and_self]

/-- **dae's new TCP connection is never captured**, and it starts clean: the SYN passes untouched
and whatever entry an earlier flow left under the same 5-tuple is removed, so that dae's later
packets (which are no longer recognisable by cookie) cannot inherit a cached decision. -/
theorem dae_tcp_syn_passes_and_clears (rt : RouteIn → Int) (w : World) (s : Skb) (l2 : Bool) (p : Pkt)
    (hi : s.ingressIf = 0) (hp : parsePacket s.raw l2 = .pkt p) (ht : p.l4proto = IPPROTO_TCP)
    (hs : p.syn = true) (ha : p.ack = false) (hcp : (pidIsControlPlane w s).isCp = true) :
    (wanEgress rt w s l2).2 = outOk s s.mark ∧ alookup (wanEgress rt w s l2).1.conn p.tuples.five = none := by
  rw [wanEgress_tcp rt w s l2 p hi hp ht]
  unfold wanEgressTcp wanTcpSyn
  simp only [hs, ha, Bool.not_false, Bool.and_self, if_true, hcp, alookup_aerase_self, and_self]

/-! ## Routing errors fail closed -/

/-- the LAN hook consults the rule program for this packet: a new TCP connection, or a UDP datagram
that is stateless (port 53) or whose flow holds no decision yet — and no local socket owns the tuple -/
def LanConsultsRoute (w : World) (s : Skb) (p : Pkt) : Prop :=
  (p.l4proto = IPPROTO_TCP ∧ p.syn = true ∧ p.ack = false) ∨
  (p.l4proto = IPPROTO_UDP ∧ lanLocalSocket w s p = false ∧
    (shortLivedUdp p.tuples.five = true ∨
      ∀ cs, udpLive w p.tuples.five = some cs → cs.hasRouting = 0 ∧ cs.wanDir = false))

/-- **A routing error fails closed (LAN).**  When `route()` returns a negative value (no match set
hit: a program without fallback, an active length shorter than the program, a missing LPM slot, an
unknown match type) for a packet the LAN hook routes, the frame is DROPPED: never passed, never
handed over, no hand-off record and no redirect entry written. -/
theorem lan_routing_error_fails_closed (rt : RouteIn → Int) (w : World) (s : Skb) (l2 : Bool) (p : Pkt)
    (hp : parsePacket s.raw l2 = .pkt p) (hc : LanConsultsRoute w s p) (hr : rt (lanRouteIn s p) < 0) :
    (lanIngress rt w s l2).2 = outShot s ∧ (lanIngress rt w s l2).1.handoff = w.handoff ∧
    (lanIngress rt w s l2).1.rtrack = w.rtrack := by
  have key : ∀ w1 st, w1.rest = w.rest → lanLocalSocket w s p = false →
      (lanRouteNew rt w1 s l2 p st).2 = outShot s ∧ (lanRouteNew rt w1 s l2 p st).1.handoff = w.handoff ∧
      (lanRouteNew rt w1 s l2 p st).1.rtrack = w.rtrack := by
    intro w1 st hrest hls
    unfold lanRouteNew
    rw [lanLocalSocket_congr hrest, hls]
    simp only [Bool.false_eq_true, if_false, hr, if_true]
    exact ⟨by first | rfl | trivial, (rest_handoff hrest).1, (rest_rtrack hrest).1⟩
  rw [lanIngress_pkt rt w s l2 p hp]
  rcases hc with ⟨ht, hs, ha⟩ | ⟨ht, hls, hsl | hnew⟩
  · rw [lanIngressPkt_tcp_syn rt w s l2 p ht hs ha]
    exact key _ _ (markTcpSeen_rest _ _ _ _ _ _) (lanLocalSocket_tcp_syn w s p ht hs ha)
  · have hnt : p.l4proto ≠ IPPROTO_TCP := by rw [ht]; decide
    rw [lanIngressPkt_dns rt w s l2 p hnt hsl]
    exact key w none rfl hls
  · have hnt : p.l4proto ≠ IPPROTO_TCP := by rw [ht]; decide
    by_cases hsl : shortLivedUdp p.tuples.five = true
    · rw [lanIngressPkt_dns rt w s l2 p hnt hsl]
      exact key w none rfl hls
    · have hsl' : shortLivedUdp p.tuples.five = false := by
        cases hx : shortLivedUdp p.tuples.five <;> simp_all
      rw [lanIngressPkt_udp rt w s l2 p hnt hsl']
      have hrest := markUdpSeen_rest w p.tuples.five false { dscp := p.tuples.dscp }
      cases hm : (markUdpSeen w p.tuples.five false { dscp := p.tuples.dscp }).2 with
      | none =>
        have : lanUdp rt w s l2 p =
            lanRouteNew rt (markUdpSeen w p.tuples.five false { dscp := p.tuples.dscp }).1 s l2 p none := by
          unfold lanUdp; simp only [hm]
        rw [this]; exact key _ _ hrest hls
      | some cs =>
        have hcs := markUdpSeen_result_untracked w p.tuples.five { dscp := p.tuples.dscp } rfl hnew cs hm
        rw [lanUdp_untracked rt w s l2 p cs hm hcs.1 hcs.2]
        exact key _ _ hrest hls

/-- **A routing error fails closed (WAN, new TCP connection of a local process).** -/
theorem wan_tcp_routing_error_fails_closed (rt : RouteIn → Int) (w : World) (s : Skb) (l2 : Bool) (p : Pkt)
    (hi : s.ingressIf = 0) (hp : parsePacket s.raw l2 = .pkt p) (ht : p.l4proto = IPPROTO_TCP)
    (hs : p.syn = true) (ha : p.ack = false) (hcp : (pidIsControlPlane w s).isCp = false)
    (hr : rt (wanRouteIn s p true (ppName (pidIsControlPlane w s).pp) (if l2 then p.ethSrc else zeros 6)) < 0) :
    (wanEgress rt w s l2).2 = outShot s ∧ (wanEgress rt w s l2).1.handoff = w.handoff ∧
    (wanEgress rt w s l2).1.rtrack = w.rtrack ∧ (wanEgress rt w s l2).1.conn = w.conn := by
  rw [wanEgress_tcp rt w s l2 p hi hp ht]
  unfold wanEgressTcp
  simp only [hs, ha, Bool.not_false, Bool.and_self, if_true]
  unfold wanTcpSyn
  simp only [hcp, Bool.false_eq_true, if_false, hr, if_true, pidIsControlPlane_conn]
  have hrest := pidIsControlPlane_rest w s
  exact ⟨by first | rfl | trivial, (rest_handoff hrest).1, (rest_rtrack hrest).1, by first | rfl | trivial⟩

/-- **A routing error fails closed (WAN, UDP of a local process)**: stateless port-53 datagrams and
datagrams of flows that hold no decision yet. -/
theorem wan_udp_routing_error_fails_closed (rt : RouteIn → Int) (w : World) (s : Skb) (l2 : Bool) (p : Pkt)
    (hi : s.ingressIf = 0) (hp : parsePacket s.raw l2 = .pkt p) (ht : p.l4proto = IPPROTO_UDP)
    (hcp : (pidIsControlPlane w s).isCp = false)
    (hnew : shortLivedUdp p.tuples.five = true ∨
      ∀ cs, udpLive w p.tuples.five = some cs → cs.hasRouting = 0 ∧ cs.wanDir = false)
    (hr : rt (wanRouteIn s p false (ppName (pidIsControlPlane w s).pp) p.ethSrc) < 0) :
    (wanEgress rt w s l2).2 = outShot s ∧ (wanEgress rt w s l2).1.handoff = w.handoff ∧
    (wanEgress rt w s l2).1.rtrack = w.rtrack := by
  rw [wanEgress_udp rt w s l2 p hi hp ht]
  unfold wanEgressUdp
  have hrest0 := pidIsControlPlane_rest w s
  have hconn0 := pidIsControlPlane_conn w s
  simp only [hcp, Bool.false_eq_true, if_false]
  have key : ∀ w1 st, w1.rest = w.rest → (∀ cs, st = some cs → cs.wanDir = false ∧ cs.hasRouting = 0) →
      (wanUdpRouted rt w1 s l2 p (pidIsControlPlane w s).pp st).2 = outShot s ∧
      (wanUdpRouted rt w1 s l2 p (pidIsControlPlane w s).pp st).1.handoff = w.handoff ∧
      (wanUdpRouted rt w1 s l2 p (pidIsControlPlane w s).pp st).1.rtrack = w.rtrack := by
    intro w1 st hrest hst
    unfold wanUdpRouted
    cases st with
    | none => simp only [hr, if_true]; exact ⟨by first | rfl | trivial, (rest_handoff hrest).1, (rest_rtrack hrest).1⟩
    | some cs =>
      obtain ⟨h1, h2⟩ := hst cs rfl
      simp only [h1, h2, Bool.false_eq_true, if_false, bne_self_eq_false, hr, if_true]
      exact ⟨by first | rfl | trivial, (rest_handoff hrest).1, (rest_rtrack hrest).1⟩
  by_cases hsl : shortLivedUdp p.tuples.five = true
  · simp only [hsl, Bool.not_true, Bool.false_eq_true, if_false]
    exact key _ none hrest0 (fun _ h => by cases h)
  · have hsl' : shortLivedUdp p.tuples.five = false := by
      cases hx : shortLivedUdp p.tuples.five <;> simp_all
    have hnew' : ∀ cs, udpLive w p.tuples.five = some cs → cs.hasRouting = 0 ∧ cs.wanDir = false := by
      rcases hnew with h | h
      · exact absurd h hsl
      · exact h
    simp only [hsl', Bool.not_false, if_true]
    have hrest1 := markUdpSeen_rest (pidIsControlPlane w s).w p.tuples.five false {}
    refine key _ _ (hrest1.trans hrest0) ?_
    intro cs hm
    exact markUdpSeen_result_untracked _ p.tuples.five {} rfl
      (fun cs0 hl => hnew' cs0 (by rw [← udpLive_congr hconn0 hrest0]; exact hl)) cs hm

end DaeVerif.C03.Props
