import DaeVerif.C03.Model
import DaeVerif.C03.ParseProofs
/-!
# C03 — helper lemmas about the step functions

* association-list maps (`alookup` after `areplace` / `aerase` / `aupdate`);
* the two conntrack functions: what they do to the entry of their key and that they leave every
  other key and every other map alone;
* the verdict tails (`lanVerdict`, `wanVerdict`, `redirectLan`) never touch `conn_state_map`.
-/
namespace DaeVerif.C03

/-! ## association lists -/

section AList
variable {α β : Type} [DecidableEq α]

theorem alookup_areplace_ne (m : List (α × β)) (k k' : α) (v : β) (h : k' ≠ k) :
    alookup (areplace m k v) k' = alookup m k' := by
  induction m with
  | nil => rfl
  | cons p rest ih =>
    obtain ⟨a, b⟩ := p
    unfold areplace at ih ⊢
    simp only [List.map_cons]
    by_cases ha : a = k
    · subst ha
      simp only [if_true]
      unfold alookup
      have h1 : ¬ a = k' := fun e => h e.symm
      simp only [h1, if_false]
      exact ih
    · simp only [ha, if_false]
      unfold alookup
      by_cases hk : a = k'
      · simp [hk]
      · simp only [hk, if_false]
        exact ih

theorem alookup_areplace_self (m : List (α × β)) (k : α) (v v0 : β) (h : alookup m k = some v0) :
    alookup (areplace m k v) k = some v := by
  induction m with
  | nil => simp [alookup] at h
  | cons p rest ih =>
    obtain ⟨a, b⟩ := p
    unfold areplace at ih ⊢
    simp only [List.map_cons]
    by_cases ha : a = k
    · subst ha
      simp [alookup]
    · simp only [ha, if_false]
      unfold alookup at h ⊢
      simp only [ha, if_false] at h ⊢
      exact ih h

theorem alookup_areplace_none (m : List (α × β)) (k : α) (v : β) (h : alookup m k = none) :
    alookup (areplace m k v) k = none := by
  induction m with
  | nil => rfl
  | cons p rest ih =>
    obtain ⟨a, b⟩ := p
    unfold areplace at ih ⊢
    simp only [List.map_cons]
    by_cases ha : a = k
    · subst ha; simp [alookup] at h
    · simp only [ha, if_false]
      unfold alookup at h ⊢
      simp only [ha, if_false] at h ⊢
      exact ih h

theorem alookup_aerase_self (m : List (α × β)) (k : α) : alookup (aerase m k) k = none := by
  induction m with
  | nil => rfl
  | cons p rest ih =>
    obtain ⟨a, b⟩ := p
    unfold aerase at ih ⊢
    simp only [List.filter_cons]
    by_cases ha : a = k
    · simp only [ha, decide_true, Bool.not_true, Bool.false_eq_true, if_false]
      exact ih
    · simp only [ha, decide_false, Bool.not_false, if_true]
      unfold alookup
      simp only [ha, if_false]
      exact ih

theorem alookup_aerase_ne (m : List (α × β)) (k k' : α) (h : k' ≠ k) :
    alookup (aerase m k) k' = alookup m k' := by
  induction m with
  | nil => rfl
  | cons p rest ih =>
    obtain ⟨a, b⟩ := p
    unfold aerase at ih ⊢
    simp only [List.filter_cons]
    by_cases ha : a = k
    · subst ha
      simp only [decide_true, Bool.not_true, Bool.false_eq_true, if_false]
      have h1 : ¬ a = k' := fun e => h e.symm
      conv => rhs; unfold alookup
      simp only [h1, if_false]
      exact ih
    · simp only [ha, decide_false, Bool.not_false, if_true]
      unfold alookup
      by_cases hk : a = k'
      · simp [hk]
      · simp only [hk, if_false]
        exact ih

theorem alookup_append (m : List (α × β)) (k k' : α) (v : β) :
    alookup (m ++ [(k, v)]) k' = match alookup m k' with
      | some x => some x
      | none => if k = k' then some v else none := by
  induction m with
  | nil => simp [alookup]
  | cons p rest ih =>
    obtain ⟨a, b⟩ := p
    simp only [List.cons_append]
    unfold alookup
    by_cases ha : a = k'
    · simp [ha]
    · simp only [ha, if_false]
      exact ih

theorem alookup_mem (m : List (α × β)) (k : α) (v : β) (h : alookup m k = some v) : (k, v) ∈ m := by
  induction m with
  | nil => simp [alookup] at h
  | cons p rest ih =>
    obtain ⟨a, b⟩ := p
    unfold alookup at h
    by_cases ha : a = k
    · simp only [ha, if_true] at h
      injection h with h
      rw [ha, h]; exact List.mem_cons_self ..
    · simp only [ha, if_false] at h
      exact List.mem_cons_of_mem _ (ih h)

theorem alookup_erase_append_self (m : List (α × β)) (k : α) (v : β) :
    alookup (aerase m k ++ [(k, v)]) k = some v := by
  rw [alookup_append, alookup_aerase_self]; simp

theorem aupdate_lookup_self (cap : Nat) (m m' : List (α × β)) (k : α) (v : β)
    (h : aupdate cap m k v = some m') : alookup m' k = some v := by
  unfold aupdate at h
  cases hl : alookup m k with
  | some v0 =>
    simp only [hl] at h
    injection h with h; subst h
    exact alookup_areplace_self m k v v0 hl
  | none =>
    simp only [hl] at h
    split at h
    · simp at h
    · injection h with h; subst h
      rw [alookup_append, hl]; simp

theorem aupdate_lookup_ne (cap : Nat) (m m' : List (α × β)) (k k' : α) (v : β)
    (h : aupdate cap m k v = some m') (hne : k' ≠ k) : alookup m' k' = alookup m k' := by
  unfold aupdate at h
  cases hl : alookup m k with
  | some v0 =>
    simp only [hl] at h
    injection h with h; subst h
    exact alookup_areplace_ne m k k' v hne
  | none =>
    simp only [hl] at h
    split at h
    · simp at h
    · injection h with h; subst h
      rw [alookup_append]
      have : ¬ k = k' := fun e => hne e.symm
      cases alookup m k' <;> simp [this]

/-- an update of a key that is present never fails -/
theorem aupdate_present (cap : Nat) (m : List (α × β)) (k : α) (v v0 : β) (h : alookup m k = some v0) :
    aupdate cap m k v = some (areplace m k v) := by
  unfold aupdate; simp [h]

/-- an insert succeeds while there is room -/
theorem aupdate_room (cap : Nat) (m : List (α × β)) (k : α) (v : β) (h : alookup m k = none)
    (hr : m.length < cap) : aupdate cap m k v = some (m ++ [(k, v)]) := by
  unfold aupdate
  have : ¬ (m.length ≥ cap) := by omega
  simp [h, this]

theorem aerase_length_le (m : List (α × β)) (k : α) : (aerase m k).length ≤ m.length := by
  unfold aerase; exact List.length_filter_le _ _

theorem alookup_filter_keep (m : List (α × β)) (keep : α × β → Bool) (k : α) :
    (∀ v, alookup m k = some v → keep (k, v) = true) → alookup (m.filter keep) k = alookup m k := by
  induction m with
  | nil => intro _; rfl
  | cons p rest ih =>
    obtain ⟨a, b⟩ := p
    intro h
    by_cases ha : a = k
    · subst ha
      have hk : keep (a, b) = true := h b (by simp [alookup])
      simp [List.filter_cons, hk, alookup]
    · have ih' := ih (fun v hv => h v (by simp [alookup, ha, hv]))
      by_cases hk : keep (a, b) = true
      · simp only [List.filter_cons, hk, if_true, alookup, ha, if_false]; exact ih'
      · simp only [List.filter_cons, hk, alookup, ha, if_false]; exact ih'


end AList

/-! ## `sub64` under a monotone clock -/

theorem sub64_of_le (a b : Nat) (h : b ≤ a) (ha : a < 2 ^ 64) : sub64 a b = a - b := by
  unfold sub64
  have hb : b < 2 ^ 64 := by omega
  rw [Nat.mod_eq_of_lt ha, Nat.mod_eq_of_lt hb]
  have : a + 2 ^ 64 - b = (a - b) + 2 ^ 64 := by omega
  rw [this, Nat.add_mod_right, Nat.mod_eq_of_lt (by omega)]

end DaeVerif.C03

namespace DaeVerif.C03

/-! ## conntrack: effect on other keys and other maps -/

/-- everything of the world the verdicts depend on besides `conn_state_map`: all of it except
`conn_state_map`, `cookie_pid_map`, the overflow counters and the event log -/
def World.rest (w : World) : Nat × List (Key × Handoff) × Nat × List (RKey × REntry) × Nat ×
    List (Nat × Nat) × Param × Nat :=
  (w.connCap, w.handoff, w.handoffCap, w.rtrack, w.rtrackCap, w.alive, w.param, w.now)

theorem createConn_lookup_ne (w : World) (k k' : Key) (ns : ConnState) (udp : Bool) (pid : Nat) (h : k' ≠ k) :
    alookup (createConn w k ns udp pid).1.conn k' = alookup w.conn k' := by
  unfold createConn
  split
  · rename_i c hc
    simp only
    rw [aupdate_lookup_ne _ _ _ _ _ _ hc h, alookup_aerase_ne _ _ _ h]
  · split <;> simp only [alookup_aerase_ne _ _ _ h]

theorem createConn_rest (w : World) (k : Key) (ns : ConnState) (udp : Bool) (pid : Nat) :
    (createConn w k ns udp pid).1.rest = w.rest := by
  unfold createConn World.rest
  split
  · rfl
  · split <;> rfl

theorem markUdpSeen_lookup_ne (w : World) (k k' : Key) (wd : Bool) (a : CtArgs) (h : k' ≠ k) :
    alookup (markUdpSeen w k wd a).1.conn k' = alookup w.conn k' := by
  unfold markUdpSeen
  split
  · simp only [alookup_areplace_ne _ _ _ _ h]
  · exact createConn_lookup_ne _ _ _ _ _ _ h

theorem markTcpSeen_lookup_ne (w : World) (k k' : Key) (wd ns fr : Bool) (a : CtArgs) (h : k' ≠ k) :
    alookup (markTcpSeen w k wd ns fr a).1.conn k' = alookup w.conn k' := by
  unfold markTcpSeen
  split
  · simp only [alookup_areplace_ne _ _ _ _ h]
  · split
    · exact createConn_lookup_ne _ _ _ _ _ _ h
    · simp only [alookup_aerase_ne _ _ _ h]

theorem markUdpSeen_rest (w : World) (k : Key) (wd : Bool) (a : CtArgs) :
    (markUdpSeen w k wd a).1.rest = w.rest := by
  unfold markUdpSeen
  split
  · rfl
  · exact createConn_rest _ _ _ _ _

theorem markTcpSeen_rest (w : World) (k : Key) (wd ns fr : Bool) (a : CtArgs) :
    (markTcpSeen w k wd ns fr a).1.rest = w.rest := by
  unfold markTcpSeen
  split
  · rfl
  · split
    · exact createConn_rest _ _ _ _ _
    · rfl

/-! ## the verdict tails never touch `conn_state_map` -/

/-- split every `if`/`match` of the goal into its leaves -/
macro "leaves" : tactic => `(tactic| ((try dsimp only) <;> (repeat' split) <;> (try dsimp only)))

@[simp] theorem pidIsControlPlane_conn (w : World) (s : Skb) : (pidIsControlPlane w s).w.conn = w.conn := by
  unfold pidIsControlPlane; split <;> rfl

@[simp] theorem prepRedirect_conn (w : World) (s : Skb) (l2 : Bool) (p : Pkt) (fw : Bool) :
    (prepRedirect w s l2 p fw).w.conn = w.conn := by
  unfold prepRedirect; simp only; split <;> rfl

@[simp] theorem publishHandoff_conn (w : World) (k : Key) (r : RResult) : (publishHandoff w k r).1.conn = w.conn := by
  unfold publishHandoff; split <;> rfl

@[simp] theorem redirectLan_conn (w : World) (s : Skb) (l2 : Bool) (p : Pkt) (ob mk mu d : Nat) :
    (redirectLan w s l2 p ob mk mu d).1.conn = w.conn := by
  unfold redirectLan; leaves <;> simp

@[simp] theorem lanVerdict_conn (w : World) (s : Skb) (l2 : Bool) (p : Pkt) (ob mk mu d : Nat) (e : Bool) :
    (lanVerdict w s l2 p ob mk mu d e).1.conn = w.conn := by
  unfold lanVerdict; leaves <;> first | rfl | simp

@[simp] theorem wanVerdict_conn (w : World) (s : Skb) (l2 : Bool) (p : Pkt) (t : Bool) (ob mk mu : Nat)
    (mac pn : Bytes) (pid : Nat) (m : Bool) :
    (wanVerdict w s l2 p t ob mk mu mac pn pid m).1.conn = w.conn := by
  unfold wanVerdict; leaves <;> first | rfl | simp

theorem setConn_lookup_ne (w : World) (k k' : Key) (cs : ConnState) (h : k' ≠ k) :
    alookup (setConn w k cs).conn k' = alookup w.conn k' := by
  unfold setConn; exact alookup_areplace_ne _ _ _ _ h

theorem lanCache_lookup_ne (w : World) (p : Pkt) (st : Option ConnState) (d : Dec) (k' : Key)
    (h : k' ≠ p.tuples.five) : alookup (lanCache w p st d).conn k' = alookup w.conn k' := by
  unfold lanCache; leaves <;> first | rfl | exact setConn_lookup_ne _ _ _ _ h

theorem wanUdpCache_lookup_ne (w : World) (p : Pkt) (st : Option ConnState) (c : Bool) (pp : Option PidPname)
    (d : Dec) (mac hp : Bytes) (k' : Key) (h : k' ≠ p.tuples.five) :
    alookup (wanUdpCache w p st c pp d mac hp).1.conn k' = alookup w.conn k' := by
  unfold wanUdpCache; leaves <;> first | rfl | exact setConn_lookup_ne _ _ _ _ h

/-! ## frame lemma: a hook only touches the entry of the frame's own tuple -/

theorem lanRouteNew_lookup_ne (rt : RouteIn → Int) (w : World) (s : Skb) (l2 : Bool) (p : Pkt)
    (st : Option ConnState) (k' : Key) (h : k' ≠ p.tuples.five) :
    alookup (lanRouteNew rt w s l2 p st).1.conn k' = alookup w.conn k' := by
  unfold lanRouteNew
  leaves <;> first | rfl | simp [lanCache_lookup_ne _ _ _ _ _ h]

theorem lanTcpEstablished_lookup_ne (w : World) (s : Skb) (l2 : Bool) (p : Pkt) (k' : Key)
    (h : k' ≠ p.tuples.five) : alookup (lanTcpEstablished w s l2 p).1.conn k' = alookup w.conn k' := by
  unfold lanTcpEstablished
  leaves <;> simp [markTcpSeen_lookup_ne _ _ _ _ _ _ _ h]

theorem lanUdp_lookup_ne (rt : RouteIn → Int) (w : World) (s : Skb) (l2 : Bool) (p : Pkt) (k' : Key)
    (h : k' ≠ p.tuples.five) : alookup (lanUdp rt w s l2 p).1.conn k' = alookup w.conn k' := by
  unfold lanUdp
  leaves <;>
    simp [markUdpSeen_lookup_ne _ _ _ _ _ h, lanRouteNew_lookup_ne _ _ _ _ _ _ _ h, setConn_lookup_ne _ _ _ _ h]

theorem lanIngressPkt_lookup_ne (rt : RouteIn → Int) (w : World) (s : Skb) (l2 : Bool) (p : Pkt) (k' : Key)
    (h : k' ≠ p.tuples.five) : alookup (lanIngressPkt rt w s l2 p).1.conn k' = alookup w.conn k' := by
  unfold lanIngressPkt
  leaves <;>
    simp [lanTcpEstablished_lookup_ne _ _ _ _ _ h, lanUdp_lookup_ne _ _ _ _ _ _ h,
      lanRouteNew_lookup_ne _ _ _ _ _ _ _ h, markTcpSeen_lookup_ne _ _ _ _ _ _ _ h]

theorem wanTcpSyn_lookup_ne (rt : RouteIn → Int) (w : World) (s : Skb) (l2 : Bool) (p : Pkt) (k' : Key)
    (h : k' ≠ p.tuples.five) : alookup (wanTcpSyn rt w s l2 p).1.conn k' = alookup w.conn k' := by
  unfold wanTcpSyn
  leaves <;> simp [markTcpSeen_lookup_ne _ _ _ _ _ _ _ h, alookup_aerase_ne _ _ _ h]

theorem wanTcpEstablished_lookup_ne (w : World) (s : Skb) (l2 : Bool) (p : Pkt) (k' : Key)
    (h : k' ≠ p.tuples.five) : alookup (wanTcpEstablished w s l2 p).1.conn k' = alookup w.conn k' := by
  unfold wanTcpEstablished
  leaves <;> simp [markTcpSeen_lookup_ne _ _ _ _ _ _ _ h]

theorem wanUdpRouted_lookup_ne (rt : RouteIn → Int) (w : World) (s : Skb) (l2 : Bool) (p : Pkt)
    (pp : Option PidPname) (st : Option ConnState) (k' : Key) (h : k' ≠ p.tuples.five) :
    alookup (wanUdpRouted rt w s l2 p pp st).1.conn k' = alookup w.conn k' := by
  unfold wanUdpRouted
  leaves <;> first | rfl | simp [wanUdpCache_lookup_ne _ _ _ _ _ _ _ _ _ h]

theorem wanEgressUdp_lookup_ne (rt : RouteIn → Int) (w : World) (s : Skb) (l2 : Bool) (p : Pkt) (k' : Key)
    (h : k' ≠ p.tuples.five) : alookup (wanEgressUdp rt w s l2 p).1.conn k' = alookup w.conn k' := by
  unfold wanEgressUdp
  leaves <;> simp [wanUdpRouted_lookup_ne _ _ _ _ _ _ _ _ h, markUdpSeen_lookup_ne _ _ _ _ _ h]

theorem reverseRefresh_lookup_ne (w : World) (c : Ctx) (k' : Key) (h : k' ≠ (getTuples c).five.rev) :
    alookup (reverseRefresh w c).conn k' = alookup w.conn k' := by
  unfold reverseRefresh
  leaves <;> first | rfl | simp [markTcpSeen_lookup_ne _ _ _ _ _ _ _ h, markUdpSeen_lookup_ne _ _ _ _ _ h]

/-- the tuple whose conn-state entry a hook may touch for this frame -/
def frameKey (h : Hook) (s : Skb) (l2 : Bool) : Option Key :=
  match h with
  | .lanIngress | .wanEgress =>
    match parsePacket s.raw l2 with
    | .pkt p => some p.tuples.five
    | _ => none
  | .wanIngress | .lanEgress =>
    match parseTransport s.raw l2 with
    | .ret _ c => some (getTuples c).five.rev
    | _ => none

/-- **Frame lemma.**  A frame leaves the conn-state entry of every other tuple exactly as it was. -/
theorem step_lookup_ne (rt : RouteIn → Int) (w : World) (h : Hook) (s : Skb) (l2 : Bool) (k : Key)
    (hk : frameKey h s l2 ≠ some k) : alookup (step rt w h s l2).1.conn k = alookup w.conn k := by
  cases h with
  | lanIngress =>
    simp only [step, lanIngress, frameKey] at hk ⊢
    cases hp : parsePacket s.raw l2 with
    | shot => rfl
    | pass => rfl
    | pkt p =>
      simp only [hp] at hk ⊢
      exact lanIngressPkt_lookup_ne _ _ _ _ _ _ (fun e => hk (by rw [e]))
  | wanEgress =>
    simp only [step, wanEgress, frameKey] at hk ⊢
    split
    · rfl
    · cases hp : parsePacket s.raw l2 with
      | shot => rfl
      | pass => rfl
      | pkt p =>
        simp only [hp] at hk ⊢
        have hne : k ≠ p.tuples.five := fun e => hk (by rw [e])
        split
        · unfold wanEgressTcp
          split
          · exact wanTcpSyn_lookup_ne _ _ _ _ _ _ hne
          · exact wanTcpEstablished_lookup_ne _ _ _ _ _ hne
        · split
          · exact wanEgressUdp_lookup_ne _ _ _ _ _ _ hne
          · rfl
  | wanIngress =>
    simp only [step, wanIngress, frameKey] at hk ⊢
    cases hp : parseTransport s.raw l2 with
    | fallback => rfl
    | efault => rfl
    | ret code c =>
      simp only [hp] at hk ⊢
      split
      · rfl
      · exact reverseRefresh_lookup_ne _ _ _ (fun e => hk (by rw [e]))
  | lanEgress =>
    simp only [step, lanEgress, frameKey] at hk ⊢
    cases hp : parseTransport s.raw l2 with
    | fallback => rfl
    | efault => rfl
    | ret code c =>
      simp only [hp] at hk ⊢
      split
      · rfl
      · split
        · rfl
        · exact reverseRefresh_lookup_ne _ _ _ (fun e => hk (by rw [e]))

end DaeVerif.C03
