import DaeVerif.C03.Dae0
import DaeVerif.C03.VerdictProofs
/-!
# C03 — the hand-over is consumed: `tproxy_dae0peer_ingress`, `tproxy_dae0_ingress`; the two
non-capturing hooks only observe

Theorems (namespace `DaeVerif.C03.Props`):
* `dae0peer_accepts_exactly_the_handed_over_frames`
* `dae0peer_assigns_listener_of_protocol_and_family`
* `dae_reply_returns_where_the_flow_came_from`
* `dae0_ingress_parse_path_independent`
* `reverse_hooks_only_observe`
-/
namespace DaeVerif.C03

/-- the skb marks a capturing hook leaves: `cb[0] = TPROXY_MARK` and a redirect with flags 0 exactly on
`TC_ACT_REDIRECT`, otherwise `cb[] = 0` and no redirect -/
def Out.marksOK (o : Out) : Prop :=
  (o.act = TC_ACT_REDIRECT ∧ o.cb0 = TPROXY_MARK ∧ ∃ ifx peer, o.redir = some (ifx, 0, peer)) ∨
  (o.act ≠ TC_ACT_REDIRECT ∧ o.cb0 = 0 ∧ o.cb1 = 0 ∧ o.redir = none)

theorem ne_ok : TC_ACT_OK ≠ TC_ACT_REDIRECT := by decide
theorem ne_shot : TC_ACT_SHOT ≠ TC_ACT_REDIRECT := by decide
theorem ne_pipe : TC_ACT_PIPE ≠ TC_ACT_REDIRECT := by decide

theorem marksOK_ok (s : Skb) (m : Nat) : (outOk s m).marksOK := Or.inr ⟨ne_ok, rfl, rfl, rfl⟩
theorem marksOK_shot (s : Skb) : (outShot s).marksOK := Or.inr ⟨ne_shot, rfl, rfl, rfl⟩
theorem marksOK_pipe (s : Skb) : (outPipe s).marksOK := Or.inr ⟨ne_pipe, rfl, rfl, rfl⟩

/-- closes a leaf of a hook function whose output is one of the elementary outputs -/
macro "marks_leaf" : tactic => `(tactic| first
  | exact marksOK_ok _ _
  | exact marksOK_shot _
  | exact marksOK_pipe _
  | exact Or.inr ⟨ne_shot, rfl, rfl, rfl⟩
  | exact Or.inl ⟨rfl, rfl, _, _, rfl⟩)

theorem redirectLan_marks (w : World) (s : Skb) (l2 : Bool) (p : Pkt) (ob mark must dscp : Nat) :
    (redirectLan w s l2 p ob mark must dscp).2.marksOK := by
  unfold redirectLan
  leaves <;> marks_leaf

theorem lanVerdict_marks (w : World) (s : Skb) (l2 : Bool) (p : Pkt) (ob mark must dscp : Nat) (e : Bool) :
    (lanVerdict w s l2 p ob mark must dscp e).2.marksOK := by
  unfold lanVerdict
  leaves <;> first | marks_leaf | exact redirectLan_marks _ _ _ _ _ _ _ _

theorem wanVerdict_marks (w : World) (s : Skb) (l2 : Bool) (p : Pkt) (isTcp : Bool) (ob mark must : Nat)
    (mac pname : Bytes) (pid : Nat) (mandatory : Bool) :
    (wanVerdict w s l2 p isTcp ob mark must mac pname pid mandatory).2.marksOK := by
  unfold wanVerdict
  leaves <;> marks_leaf

theorem lanRouteNew_marks (rt : RouteIn → Int) (w : World) (s : Skb) (l2 : Bool) (p : Pkt) (st : Option ConnState) :
    (lanRouteNew rt w s l2 p st).2.marksOK := by
  unfold lanRouteNew
  leaves <;> first | marks_leaf | exact lanVerdict_marks _ _ _ _ _ _ _ _ _

theorem lanTcpEstablished_marks (w : World) (s : Skb) (l2 : Bool) (p : Pkt) :
    (lanTcpEstablished w s l2 p).2.marksOK := by
  unfold lanTcpEstablished
  leaves <;> first | marks_leaf | exact lanVerdict_marks _ _ _ _ _ _ _ _ _

theorem lanUdp_marks (rt : RouteIn → Int) (w : World) (s : Skb) (l2 : Bool) (p : Pkt) :
    (lanUdp rt w s l2 p).2.marksOK := by
  unfold lanUdp
  leaves <;> first | marks_leaf | exact redirectLan_marks _ _ _ _ _ _ _ _ | exact lanRouteNew_marks _ _ _ _ _ _

theorem lanIngress_marks (rt : RouteIn → Int) (w : World) (s : Skb) (l2 : Bool) :
    (lanIngress rt w s l2).2.marksOK := by
  unfold lanIngress lanIngressPkt
  leaves <;> first
    | marks_leaf
    | exact lanTcpEstablished_marks _ _ _ _
    | exact lanUdp_marks _ _ _ _ _
    | exact lanRouteNew_marks _ _ _ _ _ _

theorem wanTcpSyn_marks (rt : RouteIn → Int) (w : World) (s : Skb) (l2 : Bool) (p : Pkt) :
    (wanTcpSyn rt w s l2 p).2.marksOK := by
  unfold wanTcpSyn
  leaves <;> first | marks_leaf | exact wanVerdict_marks _ _ _ _ _ _ _ _ _ _ _ _

theorem wanTcpEstablished_marks (w : World) (s : Skb) (l2 : Bool) (p : Pkt) :
    (wanTcpEstablished w s l2 p).2.marksOK := by
  unfold wanTcpEstablished
  leaves <;> first | marks_leaf | exact wanVerdict_marks _ _ _ _ _ _ _ _ _ _ _ _

theorem wanUdpRouted_marks (rt : RouteIn → Int) (w : World) (s : Skb) (l2 : Bool) (p : Pkt) (pp : Option PidPname)
    (st : Option ConnState) : (wanUdpRouted rt w s l2 p pp st).2.marksOK := by
  unfold wanUdpRouted
  leaves <;> first | marks_leaf | exact wanVerdict_marks _ _ _ _ _ _ _ _ _ _ _ _

theorem wanEgress_marks (rt : RouteIn → Int) (w : World) (s : Skb) (l2 : Bool) :
    (wanEgress rt w s l2).2.marksOK := by
  unfold wanEgress wanEgressTcp wanEgressUdp
  leaves <;> first
    | marks_leaf
    | exact wanTcpSyn_marks _ _ _ _ _
    | exact wanTcpEstablished_marks _ _ _ _
    | exact wanUdpRouted_marks _ _ _ _ _ _ _

theorem dae0peer_of_mark (ls : List Nat) (mark cb1 proto : Nat) :
    (dae0peerIngress ls mark TPROXY_MARK cb1 proto).act = TC_ACT_OK ∧
    (dae0peerIngress ls mark TPROXY_MARK cb1 proto).mark = TPROXY_MARK ∧
    (dae0peerIngress ls mark TPROXY_MARK cb1 proto).pktType = some PACKET_HOST ∧
    ((dae0peerIngress ls mark TPROXY_MARK cb1 proto).assigned = none ∨
      (dae0peerIngress ls mark TPROXY_MARK cb1 proto).assigned = some (listenerKey (cb1 % 256) proto)) := by
  unfold dae0peerIngress
  rw [if_neg (fun h => h rfl)]
  refine ⟨rfl, rfl, rfl, ?_⟩
  dsimp only
  split
  · exact Or.inl rfl
  · split
    · exact Or.inr rfl
    · exact Or.inl rfl

theorem dae0peer_of_zero (ls : List Nat) (mark cb1 proto : Nat) :
    dae0peerIngress ls mark 0 cb1 proto = ⟨TC_ACT_SHOT, mark, none, none⟩ := by
  unfold dae0peerIngress
  rw [if_pos (by decide : (0 : Nat) ≠ TPROXY_MARK)]

theorem reverseRefresh_rest (w : World) (c : Ctx) : (reverseRefresh w c).rest = w.rest := by
  unfold reverseRefresh
  split
  · exact markTcpSeen_rest _ _ _ _ _ _
  · split
    · split
      · rfl
      · exact markUdpSeen_rest _ _ _ _
    · rfl

macro "triv" : tactic => `(tactic| first
  | rfl
  | trivial
  | (intro h; first | rfl | trivial | exact absurd rfl h | exact absurd trivial h | exact False.elim h))

/-- the verdict of the two non-capturing hooks -/
def reverseVerdict (h : Hook) (s : Skb) (l2 : Bool) : Nat :=
  match parseTransport s.raw l2 with
  | .fallback => TC_ACT_SHOT
  | .efault => TC_ACT_SHOT
  | .ret code c =>
    if code ≠ 0 then TC_ACT_OK
    else if h = .lanEgress ∧ s.ingressIf = 0 ∧ c.l4proto = IPPROTO_ICMPV6 ∧ c.icmpType = NDP_REDIRECT then TC_ACT_SHOT
    else TC_ACT_PIPE

end DaeVerif.C03

namespace DaeVerif.C03.Props
open DaeVerif.C03

/-- **`tproxy_dae0peer_ingress` lets in exactly the frames a capturing hook handed over.**  Whatever a
capturing hook (LAN ingress, WAN egress) did to a frame: the program on dae's veth peer accepts the
resulting skb (`TC_ACT_OK`, marked `TPROXY_MARK` for the local-delivery policy route, packet type
`PACKET_HOST`) iff the hook answered `TC_ACT_REDIRECT`; any other skb reaching `dae0peer` is shot.
When accepted, the skb is assigned — if at all — to the listener `cb[1]` names. -/
theorem dae0peer_accepts_exactly_the_handed_over_frames (rt : RouteIn → Int) (w : World) (h : Hook) (s : Skb)
    (l2 : Bool) (ls : List Nat) (hh : h = .lanIngress ∨ h = .wanEgress) (o : Out) (ho : o = (step rt w h s l2).2) :
    (o.act = TC_ACT_REDIRECT →
      (dae0peerIngress ls o.mark o.cb0 o.cb1 s.raw.proto).act = TC_ACT_OK ∧
      (dae0peerIngress ls o.mark o.cb0 o.cb1 s.raw.proto).mark = TPROXY_MARK ∧
      (dae0peerIngress ls o.mark o.cb0 o.cb1 s.raw.proto).pktType = some PACKET_HOST ∧
      ((dae0peerIngress ls o.mark o.cb0 o.cb1 s.raw.proto).assigned = none ∨
        (dae0peerIngress ls o.mark o.cb0 o.cb1 s.raw.proto).assigned = some (listenerKey (o.cb1 % 256) s.raw.proto))) ∧
    (o.act ≠ TC_ACT_REDIRECT →
      (dae0peerIngress ls o.mark o.cb0 o.cb1 s.raw.proto).act = TC_ACT_SHOT ∧
      (dae0peerIngress ls o.mark o.cb0 o.cb1 s.raw.proto).assigned = none) := by
  have hm : o.marksOK := by
    rw [ho]
    rcases hh with hh | hh <;> subst hh
    · exact lanIngress_marks rt w s l2
    · exact wanEgress_marks rt w s l2
  rcases hm with ⟨ha, hc, _⟩ | ⟨ha, hc, _, _⟩
  · refine ⟨fun _ => ?_, fun hn => absurd ha hn⟩
    rw [hc]
    exact dae0peer_of_mark ls o.mark o.cb1 s.raw.proto
  · refine ⟨fun hy => absurd hy ha, fun _ => ?_⟩
    rw [hc, dae0peer_of_zero]
    exact ⟨rfl, rfl⟩

/-- **Which listener gets the handed-over frame**: a TCP SYN (`cb[1] = IPPROTO_TCP`) goes to dae's
TCP listener of the frame's family (`listen_socket_map[0]` IPv4, `[2]` IPv6), a datagram
(`cb[1] = IPPROTO_UDP`) to the UDP listener (`[1]`), later TCP segments (`cb[1] = 0`) to no listener
(the established socket is found by the stack). -/
theorem dae0peer_assigns_listener_of_protocol_and_family (mark : Nat) :
    (dae0peerIngress [0, 1, 2] mark TPROXY_MARK IPPROTO_TCP ETH_P_IP).assigned = some 0 ∧
    (dae0peerIngress [0, 1, 2] mark TPROXY_MARK IPPROTO_TCP ETH_P_IPV6).assigned = some 2 ∧
    (∀ proto, (dae0peerIngress [0, 1, 2] mark TPROXY_MARK IPPROTO_UDP proto).assigned = some 1) ∧
    (∀ proto ls, (dae0peerIngress ls mark TPROXY_MARK 0 proto).assigned = none) ∧
    (∀ cb1 proto, (dae0peerIngress [] mark TPROXY_MARK cb1 proto).assigned = none) := by
  refine ⟨by simp [dae0peerIngress, listenerKey, TPROXY_MARK, IPPROTO_TCP, ETH_P_IP, ETH_P_IPV6],
    by simp [dae0peerIngress, listenerKey, TPROXY_MARK, IPPROTO_TCP, ETH_P_IP, ETH_P_IPV6], ?_, ?_, ?_⟩
  · intro proto
    unfold dae0peerIngress listenerKey
    simp [IPPROTO_UDP, IPPROTO_TCP]
  · intro proto ls
    unfold dae0peerIngress
    simp
  · intro cb1 proto
    unfold dae0peerIngress
    simp

/-- `load_redirect_tuple` does not depend on how much of the frame is linear, nor on whether
`bpf_skb_pull_data` worked, for a frame whose Ethernet protocol field is `skb->protocol`. -/
theorem dae0_ingress_parse_path_independent (r : Raw) (hl : r.lin ≤ r.bytes.length)
    (he : be16 r.bytes 12 = r.proto) (w : World) :
    loadRedirectTuple r = loadRedirectTupleSlow r ∧
    dae0Ingress w r = dae0Ingress w { r with lin := r.bytes.length, pullOk := true } := by
  have key : ∀ r : Raw, r.lin ≤ r.bytes.length → be16 r.bytes 12 = r.proto →
      loadRedirectTuple r = loadRedirectTupleSlow r := by
    intro r hl he
    unfold loadRedirectTuple loadRedirectTupleFast loadRedirectTupleSlow
    rw [he]
    by_cases hp : r.pullOk = true
    · simp only [hp, Bool.not_true, Bool.false_eq_true, if_false]
      by_cases h14 : r.lin < 14
      · simp only [h14, if_true]
      · simp only [h14, if_false]
        by_cases h4 : r.proto = ETH_P_IP
        · simp only [h4, if_true]
          by_cases h34 : r.lin < 34
          · simp only [h34, if_true]
          · have : ¬ r.bytes.length < 34 := by omega
            simp only [h34, this, if_false]
        · simp only [h4, if_false]
          by_cases h6 : r.proto = ETH_P_IPV6
          · simp only [h6, if_true]
            by_cases h54 : r.lin < 54
            · simp only [h54, if_true]
            · have : ¬ r.bytes.length < 54 := by omega
              simp only [h54, this, if_false]
          · simp only [h6, if_false]
    · have hp' : r.pullOk = false := by cases h : r.pullOk <;> simp_all
      simp only [hp', Bool.not_false, if_true]
  refine ⟨key r hl he, ?_⟩
  unfold dae0Ingress
  rw [key r hl he, key { r with lin := r.bytes.length, pullOk := true } (Nat.le_refl _) he]
  rfl

/-- **dae's reply to a captured client goes back where the flow came from.**  After a frame of a flow was
handed over (`prep_redirect_to_control_plane` stored the `redirect_track` entry), a frame dae sends with
the flow's addresses reversed (`rk` = the reply's (destination, source) = the flow's (source,
destination)) is redirected by `tproxy_dae0_ingress` to the interface the flow was captured on — out of
it for a LAN client, into its ingress for a local (WAN-hook) process — with the Ethernet addresses of
the original frame swapped; nothing but that entry's timestamp changes. -/
theorem dae_reply_returns_where_the_flow_came_from (w : World) (s : Skb) (l2 : Bool) (p : Pkt) (fromWan : Bool)
    (r : Raw) (hroom : rtrackRoom w s p) (hk : loadRedirectTuple r = .key (redirectKey s p.tuples)) :
    let w1 := (prepRedirect w s l2 p fromWan).w
    (prepRedirect w s l2 p fromWan).failed = false ∧
    (dae0Ingress w1 r).2.act = TC_ACT_REDIRECT ∧
    (dae0Ingress w1 r).2.redir = some (s.ifindex, if fromWan then BPF_F_INGRESS else 0) ∧
    (dae0Ingress w1 r).2.pktType = some (if fromWan then PACKET_HOST else PACKET_OTHERHOST) ∧
    (dae0Ingress w1 r).2.bytes =
      storeBytes (storeBytes r.bytes 6 (if l2 then p.ethDst else zeros 6)) 0 (if l2 then p.ethSrc else zeros 6) ∧
    (dae0Ingress w1 r).1.rest = (w1.rest.1, w1.rest.2.1, w1.rest.2.2.1, (dae0Ingress w1 r).1.rtrack, w1.rest.2.2.2.2) ∧
    (∀ k', k' ≠ redirectKey s p.tuples → alookup (dae0Ingress w1 r).1.rtrack k' = alookup w1.rtrack k') := by
  intro w1
  have hok := prepRedirect_ok w s l2 p fromWan hroom
  obtain ⟨m', hm⟩ := aupdate_isSome_of_room w.rtrackCap w.rtrack (redirectKey s p.tuples)
    ⟨s.ifindex, if l2 then p.ethSrc else zeros 6, if l2 then p.ethDst else zeros 6, if fromWan then 1 else 0, w.now⟩ hroom
  have hw1 : w1 = { w with rtrack := m' } := by
    show (prepRedirect w s l2 p fromWan).w = _
    unfold prepRedirect
    simp only [hm]
  have hlk : alookup w1.rtrack (redirectKey s p.tuples) =
      some ⟨s.ifindex, if l2 then p.ethSrc else zeros 6, if l2 then p.ethDst else zeros 6, if fromWan then 1 else 0, w.now⟩ := by
    rw [hw1]
    exact aupdate_lookup_self _ _ _ _ _ hm
  have hd : dae0Ingress w1 r = dae0Return w1 r (redirectKey s p.tuples)
      ⟨s.ifindex, if l2 then p.ethSrc else zeros 6, if l2 then p.ethDst else zeros 6, if fromWan then 1 else 0, w.now⟩ := by
    unfold dae0Ingress
    rw [hk]
    simp only [hlk]
  rw [hd]
  unfold dae0Return
  cases fromWan
  · refine ⟨hok, rfl, rfl, rfl, rfl, rfl, ?_⟩
    intro k' hne
    exact alookup_areplace_ne _ _ _ _ hne
  · refine ⟨hok, rfl, rfl, rfl, rfl, rfl, ?_⟩
    intro k' hne
    exact alookup_areplace_ne _ _ _ _ hne

/-- **WAN ingress and LAN egress only observe.**  They never redirect, never rewrite the frame, the
mark or `cb[]`, never touch `routing_handoff_map`, `redirect_track`, the connectivity map or `PARAM`
(only conn-state entries of the REVERSED tuple are refreshed / created, see
`wan_ingress_*_marks_reverse_tuple`), and leave the world alone unless the verdict is `TC_ACT_PIPE`.
Their verdict (`reverseVerdict`): `TC_ACT_SHOT` when the headers cannot be read, `TC_ACT_OK` for what
the parser passes over (other protocols, ICMPv6, fragments), `TC_ACT_PIPE` for parsed TCP/UDP — except
that LAN egress drops a locally generated (`ingress_ifindex = 0`) ICMPv6 redirect. -/
theorem reverse_hooks_only_observe (rt : RouteIn → Int) (w : World) (h : Hook) (s : Skb) (l2 : Bool)
    (hh : h = .wanIngress ∨ h = .lanEgress) :
    (step rt w h s l2).2 = ⟨reverseVerdict h s l2, s.mark, 0, 0, none, s.raw.bytes⟩ ∧
    (step rt w h s l2).1.rest = w.rest ∧
    (reverseVerdict h s l2 ≠ TC_ACT_PIPE → (step rt w h s l2).1 = w) := by
  rcases hh with hh | hh <;> subst hh
  · show (wanIngress w s l2).2 = _ ∧ (wanIngress w s l2).1.rest = _ ∧ (_ → (wanIngress w s l2).1 = w)
    unfold wanIngress reverseVerdict
    cases parseTransport s.raw l2 with
    | fallback => exact ⟨by triv, by triv, by triv⟩
    | efault => exact ⟨by triv, by triv, by triv⟩
    | ret code c =>
      dsimp only
      by_cases hc : code = 0
      · subst hc
        have hne : ¬ (Hook.wanIngress = Hook.lanEgress ∧ s.ingressIf = 0 ∧ c.l4proto = IPPROTO_ICMPV6 ∧ c.icmpType = NDP_REDIRECT) :=
          fun h => by cases h.1
        simp only [bne_self_eq_false, Bool.false_eq_true, if_false, ne_eq, not_true_eq_false, hne]
        exact ⟨by triv, reverseRefresh_rest w c, by triv⟩
      · have hb : (code != 0) = true := by simp [hc]
        simp only [hb, if_true, ne_eq, hc, not_false_eq_true]
        exact ⟨by triv, by triv, by triv⟩
  · show (lanEgress w s l2).2 = _ ∧ (lanEgress w s l2).1.rest = _ ∧ (_ → (lanEgress w s l2).1 = w)
    unfold lanEgress reverseVerdict
    cases parseTransport s.raw l2 with
    | fallback => exact ⟨by triv, by triv, by triv⟩
    | efault => exact ⟨by triv, by triv, by triv⟩
    | ret code c =>
      dsimp only
      by_cases hc : code = 0
      · subst hc
        simp only [bne_self_eq_false, Bool.false_eq_true, if_false, ne_eq, not_true_eq_false, true_and]
        by_cases hn : s.ingressIf = 0 ∧ c.l4proto = IPPROTO_ICMPV6 ∧ c.icmpType = NDP_REDIRECT
        · have hb : (decide (s.ingressIf = 0) && decide (c.l4proto = IPPROTO_ICMPV6) && decide (c.icmpType = NDP_REDIRECT)) = true := by
            simp [hn.1, hn.2.1, hn.2.2]
          simp only [hb, if_true, hn, and_self]
          exact ⟨by triv, by triv, by triv⟩
        · have hb : (decide (s.ingressIf = 0) && decide (c.l4proto = IPPROTO_ICMPV6) && decide (c.icmpType = NDP_REDIRECT)) = false := by
            cases hx : (decide (s.ingressIf = 0) && decide (c.l4proto = IPPROTO_ICMPV6) && decide (c.icmpType = NDP_REDIRECT))
            · rfl
            · exfalso; apply hn
              simp only [Bool.and_eq_true, decide_eq_true_eq] at hx
              exact ⟨hx.1.1, hx.1.2, hx.2⟩
          simp only [hb, Bool.false_eq_true, if_false, hn]
          exact ⟨by triv, reverseRefresh_rest w c, by triv⟩
      · have hb : (code != 0) = true := by simp [hc]
        simp only [hb, if_true, ne_eq, hc, not_false_eq_true]
        exact ⟨by triv, by triv, by triv⟩

end DaeVerif.C03.Props
