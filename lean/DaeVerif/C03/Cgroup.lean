import DaeVerif.C03.Model
/-!
# C03 — the cgroup programs that say WHO owns a socket (`control/kern/tproxy.c`)

`tproxy_wan_cg_sock_create`, `tproxy_wan_cg_connect4/6`, `tproxy_wan_cg_sendmsg4/6` all call
`update_map_elem_by_cookie(bpf_get_socket_cookie(ctx))`, `tproxy_wan_cg_sock_release` deletes the
cookie's entry.  The entry `cookie_pid_map[cookie] = {last_seen_ns, pid, pname}` is what
`pid_is_control_plane` (the loop guard of the WAN-egress hook) and the `pname` / `pid` of the per-flow
record are read from — so "packets sent by dae itself (its pid) are never captured again" and the
"process" component of the hand-over start here.

Executable, core-only model of `get_real_comm_loop_cb` + the copy loop (`realComm`), `get_pid_pname`,
`_update_map_elem_by_cookie`, `update_map_elem_by_cookie` (with its "only write pid" fallback) and the
release program.  `cookie_pid_map` is a `BPF_MAP_TYPE_HASH` with `cap = max_entries`
(`aupdate`: replace, or insert unless full).

The current task is an input (`CgTask`): `bpf_get_current_pid_tgid() >> 32`, what
`bpf_get_current_comm` writes (`none`: the helper fails), the NUL-terminated string
`bpf_core_read_user_str` finds at `mm->arg_start` (`none`: the read fails), and
`PARAM.has_bpf_get_current_task`.
-/
namespace DaeVerif.C03

def MAX_ARG_LEN : Nat := 128
def TASK_COMM_LEN : Nat := 16
def COOKIE_PID_MAX : Nat := 65536

structure CgTask where
  /-- `bpf_get_current_pid_tgid() >> 32` -/
  tgid : Nat
  /-- `bpf_get_current_comm`: the 16 bytes it writes, `none` when it fails -/
  comm : Option Bytes
  /-- the string at `mm->arg_start` in user memory up to (not including) its first NUL; `none`: the
  read faults -/
  args : Option Bytes
  /-- `PARAM.has_bpf_get_current_task` -/
  hasTask : Bool
deriving DecidableEq, Repr

/-- what `bpf_core_read_user_str(arg_buf, MAX_ARG_LEN, args)` leaves in the defined part of the
buffer: at most 127 bytes of the string, then the NUL -/
def readUserStr (args : Bytes) : Bytes := args.take (MAX_ARG_LEN - 1) ++ [0]

/-- `bpf_loop(MAX_ARG_LEN, get_real_comm_loop_cb, &ctx, 0)` from index `i` with `ctx.l = l` over the
rest of the buffer: every `'/'` moves `l` behind it, the first `' '` or NUL stops the walk (and is
overwritten with NUL).  Result: (`ctx.l`, index of the terminator). -/
def isTerm (c : Nat) : Bool := c == 32 || c == 0

def commScan : Bytes → Nat → Nat → Nat × Nat
  | [], i, l => (l, i)
  | c :: rest, i, l =>
    if isTerm c then (l, i)
    else commScan rest (i + 1) (if c = 47 then i + 1 else l)

/-- the copy loop after the scan: bytes `[l, stop)` of the buffer, at most `TASK_COMM_LEN`, the rest of the
zero-initialised `pname` stays 0 -/
def realComm (args : Bytes) : Bytes :=
  let buf := readUserStr args
  let r := commScan buf 0 0
  let word := (buf.take r.2).drop r.1
  let name := word.take TASK_COMM_LEN
  name ++ zeros (TASK_COMM_LEN - name.length)

/-- exactly 16 bytes of a comm buffer -/
def comm16 (c : Bytes) : Bytes := (c ++ zeros TASK_COMM_LEN).take TASK_COMM_LEN

/-- `get_pid_pname`: `none` = it returned an error (the value is then discarded by the caller) -/
def getPidPname (now : Nat) (t : CgTask) : Option PidPname :=
  if !t.hasTask then
    some ⟨now, t.tgid, match t.comm with | some c => comm16 c | none => zeros TASK_COMM_LEN⟩
  else
    match t.args with
    | none => none
    | some a => some ⟨now, t.tgid, realComm a⟩

/-- `_update_map_elem_by_cookie`: the cookie map afterwards, `true` = it returned an error -/
def cgInner (cap : Nat) (w : World) (cookie : Nat) (t : CgTask) : List (Nat × PidPname) × Bool :=
  if cookie = 0 then (w.cookies, true)
  else
    match alookup w.cookies cookie with
    | some pp => (areplace w.cookies cookie { pp with lastSeen := w.now }, false)
    | none =>
      match getPidPname w.now t with
      | none => (w.cookies, true)
      | some v =>
        match aupdate cap w.cookies cookie v with
        | some m => (m, false)
        | none => (w.cookies, true)

/-- `update_map_elem_by_cookie` = every one of the five registering programs
(`sock_create`, `connect4/6`, `sendmsg4/6`); on an error of the inner function "only write pid to avoid
loop due to packets sent by dae" (that update's own result is ignored) -/
def cgUpdate (cap : Nat) (w : World) (cookie : Nat) (t : CgTask) : World :=
  let r := cgInner cap w cookie t
  if r.2 then
    match aupdate cap r.1 cookie ⟨w.now, t.tgid, zeros TASK_COMM_LEN⟩ with
    | some m => { w with cookies := m }
    | none => { w with cookies := r.1 }
  else { w with cookies := r.1 }

/-- `tproxy_wan_cg_sock_release` -/
def cgRelease (w : World) (cookie : Nat) : World :=
  if cookie = 0 then w else { w with cookies := aerase w.cookies cookie }

/-! ## the short specification of the process name -/

/-- the part of `s` behind its last `'/'` -/
def lastSeg : Bytes → Bytes
  | [] => []
  | c :: rest => if rest.contains 47 then lastSeg rest else if c = 47 then rest else c :: rest

/-- first word of the command line as read (at most 127 bytes): up to the first space -/
def firstWord (args : Bytes) : Bytes := (args.take (MAX_ARG_LEN - 1)).takeWhile fun c => !isTerm c

/-- short spec: base name of the first word, cut to 16 bytes, zero padded -/
def commSpec (args : Bytes) : Bytes :=
  let name := (lastSeg (firstWord args)).take TASK_COMM_LEN
  name ++ zeros (TASK_COMM_LEN - name.length)

end DaeVerif.C03
