import DaeVerif.C03.Parse
/-!
# C03 — the TC datapath programs as pure step functions

Executable, core-only model of `do_tproxy_lan_ingress`, `do_tproxy_wan_egress{,_tcp,_udp}`,
`do_tproxy_wan_ingress`, `do_tproxy_lan_egress` of `control/kern/tproxy.c` together with
`__mark_tcp_seen` / `__mark_udp_seen` (+ `conntrack_args_set`), `pid_is_control_plane`,
`wan_outbound_is_alive`, `prep_redirect_to_control_plane`, `redirect_lan_packet_to_control_plane`,
`publish_routing_handoff`, and of the control plane's `RetrieveRoutingResult`
(`control/utils.go`).

The world is explicit: the kernel maps the programs read and write (`conn_state_map`,
`routing_handoff_map`, `redirect_track`, `cookie_pid_map`, `outbound_connectivity_map`,
`bpf_stats_map`), the ring-buffer events emitted so far, `PARAM`, and the clock
(`bpf_ktime_get_ns`).  The rule program is a parameter `rt : RouteIn → Int` (the value `route()`
returns for its arguments); the driver instantiates it with C02's `routeK` on the installed
`routing_map` images, the theorems quantify over every `rt`, a different one for every frame.
Hash maps are association lists with the kernel's update contract (`BPF_ANY`: replace, or insert
unless `max_entries` entries exist ⇒ error).  Times are `u64` nanoseconds; `now - last_seen`
wraps like the C expression.
-/
namespace DaeVerif.C03

/-! ## Constants -/

def OUTBOUND_DIRECT : Nat := 0
def OUTBOUND_BLOCK : Nat := 1
def TC_ACT_OK : Nat := 0
def TC_ACT_SHOT : Nat := 2
def TC_ACT_PIPE : Nat := 3
def TC_ACT_REDIRECT : Nat := 7
def TPROXY_MARK : Nat := 0x8000000
def NDP_REDIRECT : Nat := 137
def BPF_TCP_LISTEN : Nat := 10
def L4ProtoType_TCP : Nat := 1
def L4ProtoType_UDP : Nat := 2
def IpVersionType_4 : Nat := 1
def IpVersionType_6 : Nat := 2
def UDP_TIMEOUT : Nat := 120000000000
def TCP_EST_TIMEOUT : Nat := 120000000000
def TCP_CLOSING_TIMEOUT : Nat := 10000000000
def UPDATE_INTERVAL : Nat := 1000000000
def HANDOFF_TIMEOUT : Nat := 10000000000
def CONNECTIVITY_MAX : Nat := 1536
def EV_BLOCKED : Nat := 0
def EV_UDP_OVERFLOW : Nat := 1
def EV_TCP_OVERFLOW : Nat := 2

/-- `a - b` on `__u64` -/
def sub64 (a b : Nat) : Nat := (a % 2 ^ 64 + 2 ^ 64 - b % 2 ^ 64) % 2 ^ 64

/-! ## Association-list maps -/

def alookup {α β} [DecidableEq α] (m : List (α × β)) (k : α) : Option β :=
  match m with
  | [] => none
  | (k', v) :: rest => if k' = k then some v else alookup rest k

def aerase {α β} [DecidableEq α] (m : List (α × β)) (k : α) : List (α × β) :=
  m.filter fun p => !(p.1 = k)

/-- overwrite the value of an existing key -/
def areplace {α β} [DecidableEq α] (m : List (α × β)) (k : α) (v : β) : List (α × β) :=
  m.map fun p => if p.1 = k then (k, v) else p

/-- `bpf_map_update_elem(.., BPF_ANY)` on a HASH map with `cap = max_entries`: `none` = error -/
def aupdate {α β} [DecidableEq α] (cap : Nat) (m : List (α × β)) (k : α) (v : β) : Option (List (α × β)) :=
  match alookup m k with
  | some _ => some (areplace m k v)
  | none => if m.length ≥ cap then none else some (m ++ [(k, v)])

/-! ## World -/

/-- `struct conn_state` -/
structure ConnState where
  wanDir : Bool
  state : Nat
  lastSeen : Nat
  mark : Nat
  outbound : Nat
  must : Nat
  dscp : Nat
  hasRouting : Nat
  mac : Bytes
  pname : Bytes
  pid : Nat
deriving DecidableEq, Repr

/-- `struct routing_result` -/
structure RResult where
  mark : Nat
  must : Nat
  mac : Bytes
  outbound : Nat
  pname : Bytes
  pid : Nat
  dscp : Nat
deriving DecidableEq, Repr

/-- `struct routing_handoff_entry` -/
structure Handoff where
  lastSeen : Nat
  result : RResult
deriving DecidableEq, Repr

/-- `struct redirect_tuple` -/
structure RKey where
  sip : Nat
  dip : Nat
deriving DecidableEq, Repr

/-- `struct redirect_entry` -/
structure REntry where
  ifindex : Nat
  smac : Bytes
  dmac : Bytes
  fromWan : Nat
  lastSeen : Nat
deriving DecidableEq, Repr

/-- `struct pid_pname` -/
structure PidPname where
  lastSeen : Nat
  pid : Nat
  pname : Bytes
deriving DecidableEq, Repr

/-- the fields of `PARAM` the TC programs read -/
structure Param where
  ctlPid : Nat := 0
  sockMark : Nat := 0
  dae0If : Nat := 0
  usePeer : Bool := false
  peerMac : Bytes := zeros 6
  /-- `dae_netns_id` -/
  netns : Nat := 0
deriving DecidableEq, Repr

/-- one ring-buffer event: type, pid, outbound, l4proto -/
structure Ev where
  type : Nat
  pid : Nat
  outbound : Nat
  l4proto : Nat
deriving DecidableEq, Repr

structure World where
  conn : List (Key × ConnState) := []
  connCap : Nat := 262144
  handoff : List (Key × Handoff) := []
  handoffCap : Nat := 65536
  rtrack : List (RKey × REntry) := []
  rtrackCap : Nat := 65536
  cookies : List (Nat × PidPname) := []
  /-- `outbound_connectivity_map`: the slots that were written; an ARRAY slot never written is 0 -/
  alive : List (Nat × Nat) := []
  ovfUdp : Nat := 0
  ovfTcp : Nat := 0
  events : List Ev := []
  param : Param := {}
  now : Nat := 1000000000
deriving Repr

/-- a socket as the lookup helpers see it -/
structure SockEntry where
  /-- `IPPROTO_TCP` / `IPPROTO_UDP`: which helper finds it -/
  proto : Nat
  mark : Nat
  state : Nat
  netns : Nat
  /-- the `struct bpf_sock_tuple` image it is found under -/
  tuple : Bytes
deriving DecidableEq, Repr

/-- an skb as the programs see it -/
structure Skb where
  raw : Raw
  ingressIf : Nat
  ifindex : Nat
  mark : Nat
  cookie : Nat
  /-- the one socket of the host's socket table that matters for this frame (`none`: no socket):
  `bpf_skc_lookup_tcp` / `bpf_sk_lookup_udp` return it exactly when they are asked for ITS protocol,
  lookup tuple (`struct bpf_sock_tuple` bytes: 12 for IPv4, 36 for IPv6) and netns -/
  sk : Option SockEntry
deriving Repr

/-- verdict and the observable effects on the skb -/
structure Out where
  act : Nat
  mark : Nat
  cb0 : Nat := 0
  cb1 : Nat := 0
  /-- `bpf_redirect(ifindex, flags)` / `bpf_redirect_peer`: (ifindex, flags, peer) -/
  redir : Option (Nat × Nat × Bool) := none
  bytes : Bytes
deriving DecidableEq, Repr

/-- arguments of `route()` (`flag[0]`, `flag[1]`, `flag[2..5]`, `flag[6]`, `flag[7]`, ports in host
order, the three 16-byte arrays as big-endian values) -/
structure RouteIn where
  l4w : Nat
  ipw : Nat
  pname : Bytes
  dscp : Nat
  isWan : Nat
  sport : Nat
  dport : Nat
  saddr : Nat
  daddr : Nat
  mac : Nat
deriving DecidableEq, Repr

/-! ## Connection tracking -/

/-- `struct conntrack_args` after `conntrack_args_set` -/
structure CtArgs where
  /-- `outbound`, `mark`, `must` pointers (all three or none) -/
  rt : Option (Nat × Nat × Nat) := none
  mac : Option Bytes := none
  dscp : Nat := 0
  pname : Option Bytes := none
  pid : Nat := 0
deriving DecidableEq, Repr

/-- a fresh `struct conn_state new_state = {}` filled as both `__mark_*_seen` do -/
def newConnState (wanDir : Bool) (now : Nat) (a : CtArgs) : ConnState :=
  match a.rt with
  | some (ob, mk, mu) =>
    { wanDir := wanDir, state := 0, lastSeen := now, mark := mk, outbound := ob, must := mu, dscp := a.dscp,
      hasRouting := 1, mac := a.mac.getD (zeros 6), pname := a.pname.getD (zeros 16), pid := a.pid }
  | none =>
    { wanDir := wanDir, state := 0, lastSeen := now, mark := 0, outbound := 0, must := 0, dscp := a.dscp,
      hasRouting := 0, mac := zeros 6, pname := zeros 16, pid := a.pid }

/-- "Update routing if provided" on an existing entry -/
def applyRouting (cs : ConnState) (a : CtArgs) : ConnState :=
  match a.rt with
  | some (ob, mk, mu) =>
    { cs with mac := a.mac.getD cs.mac, pname := a.pname.getD cs.pname, pid := a.pid,
              outbound := ob, mark := mk, must := mu, dscp := a.dscp, hasRouting := 1 }
  | none => cs

def refresh (cs : ConnState) (now : Nat) : ConnState :=
  if sub64 now cs.lastSeen > UPDATE_INTERVAL then { cs with lastSeen := now } else cs

def udpExpired (cs : ConnState) (now : Nat) : Bool := sub64 now cs.lastSeen > UDP_TIMEOUT

def tcpExpired (cs : ConnState) (now : Nat) : Bool :=
  sub64 now cs.lastSeen > (if cs.state = 1 then TCP_CLOSING_TIMEOUT else TCP_EST_TIMEOUT)

/-- the unexpired UDP entry of `k` (an expired one is deleted by the caller) -/
def udpLive (w : World) (k : Key) : Option ConnState :=
  match alookup w.conn k with
  | some cs => if udpExpired cs w.now then none else some cs
  | none => none

/-- the TCP entry of `k` that survives the lookup: none after a pure SYN or when expired -/
def tcpLive (w : World) (k : Key) (newSyn : Bool) : Option ConnState :=
  match alookup w.conn k with
  | some cs => if newSyn then none else if tcpExpired cs w.now then none else some cs
  | none => none

/-- delete whatever is stored under `k`, then insert `ns` (`bpf_map_update_elem(.., BPF_ANY)`); on
failure count the overflow and emit the event -/
def createConn (w : World) (k : Key) (ns : ConnState) (udp : Bool) (pid : Nat) : World × Option ConnState :=
  match aupdate w.connCap (aerase w.conn k) k ns with
  | some c => ({ w with conn := c }, some ns)
  | none =>
    if udp then
      ({ w with conn := aerase w.conn k, ovfUdp := w.ovfUdp + 1,
                events := w.events ++ [⟨EV_UDP_OVERFLOW, pid, 0, k.l4⟩] }, none)
    else
      ({ w with conn := aerase w.conn k, ovfTcp := w.ovfTcp + 1,
                events := w.events ++ [⟨EV_TCP_OVERFLOW, pid, 0, k.l4⟩] }, none)

/-- what a packet does to a live UDP entry -/
def touchUdp (cs : ConnState) (now : Nat) (a : CtArgs) : ConnState := applyRouting (refresh cs now) a

/-- what a packet does to a live TCP entry -/
def touchTcp (cs : ConnState) (now : Nat) (finRst : Bool) (a : CtArgs) : ConnState :=
  applyRouting (if finRst then { refresh cs now with state := 1 } else refresh cs now) a

/-- `__mark_udp_seen`; the second component is the entry the returned pointer designates -/
def markUdpSeen (w : World) (k : Key) (wanDir : Bool) (a : CtArgs) : World × Option ConnState :=
  match udpLive w k with
  | some cs => ({ w with conn := areplace w.conn k (touchUdp cs w.now a) }, some (touchUdp cs w.now a))
  | none => createConn w k (newConnState wanDir w.now a) true a.pid

/-- `__mark_tcp_seen` with `tcp_flags` bit 0 = `newSyn`, bit 1 = `finRst` -/
def markTcpSeen (w : World) (k : Key) (wanDir : Bool) (newSyn finRst : Bool) (a : CtArgs) :
    World × Option ConnState :=
  match tcpLive w k newSyn with
  | some cs => ({ w with conn := areplace w.conn k (touchTcp cs w.now finRst a) }, some (touchTcp cs w.now finRst a))
  | none =>
    if newSyn then createConn w k (newConnState wanDir w.now a) false a.pid
    else ({ w with conn := aerase w.conn k }, none)

/-- `copy_reversed_tuples` -/
def Key.rev (k : Key) : Key := ⟨k.dip, k.sip, k.dport, k.sport, k.l4⟩

/-- `is_short_lived_udp_traffic` -/
def shortLivedUdp (k : Key) : Bool := k.l4 == IPPROTO_UDP && (k.dport == 53 || k.sport == 53)

/-! ## Helpers of the verdict paths -/

def aliveAt (w : World) (key : Nat) : Nat := (alookup w.alive key).getD 0

/-- `wan_outbound_is_alive` (`skbProto` = ethertype in `skb->protocol`) -/
def wanAlive (w : World) (skbProto ob l4 dport : Nat) : Bool :=
  if dport = 53 then true
  else
    let key := ob % 256 * 6 + (if l4 = IPPROTO_UDP then 2 else 0) * 2 + (if skbProto = ETH_P_IP then 0 else 1)
    if key < CONNECTIVITY_MAX then aliveAt w key != 0 else true

/-- result of `pid_is_control_plane`: touched world, verdict, the `pid_pname` found -/
structure CpR where
  w : World
  isCp : Bool
  pp : Option PidPname

/-- `pid_is_control_plane` -/
def pidIsControlPlane (w : World) (s : Skb) : CpR :=
  match alookup w.cookies s.cookie with
  | some pp =>
    { w := { w with cookies := areplace w.cookies s.cookie { pp with lastSeen := w.now } }
      isCp := if w.param.ctlPid = 0 then false else pp.pid == w.param.ctlPid
      pp := some { pp with lastSeen := w.now } }
  | none =>
    { w := w
      isCp := (w.param.sockMark != 0 && s.mark == w.param.sockMark) || (s.mark % 512 / 256 == 1)
      pp := none }

def be16Bytes (v : Nat) : Bytes := [v / 256 % 256, v % 256]

/-- replace `n = new.length` bytes at offset `o` (`bpf_skb_store_bytes` inside the frame) -/
def storeBytes (bs : Bytes) (o : Nat) (new : Bytes) : Bytes :=
  bs.take o ++ new ++ bs.drop (o + new.length)

/-- `rewrite_packet_for_control_plane` (its helper calls cannot fail on a frame that parsed) -/
def rewriteForControlPlane (w : World) (s : Skb) (l2 : Bool) (fromWan : Bool) (bytes : Bytes) : Bytes :=
  if w.param.usePeer && !fromWan then bytes
  else
    let b1 := if l2 then bytes
      else storeBytes (storeBytes (zeros 14 ++ bytes) 12 (be16Bytes s.raw.proto)) 6 (zeros 6)
    storeBytes b1 0 w.param.peerMac

/-- `fill_redirect_tuple_from_forward_packet` -/
def redirectKey (s : Skb) (t : Tuples) : RKey :=
  if s.raw.proto = ETH_P_IP then
    ⟨0xffff * 2 ^ 32 + t.five.sip % 2 ^ 32, 0xffff * 2 ^ 32 + t.five.dip % 2 ^ 32⟩
  else ⟨t.five.sip, t.five.dip⟩

/-- result of `prep_redirect_to_control_plane`: world, rewritten frame, `failed` -/
structure PrepR where
  w : World
  bytes : Bytes
  failed : Bool

/-- `prep_redirect_to_control_plane` -/
def prepRedirect (w : World) (s : Skb) (l2 : Bool) (p : Pkt) (fromWan : Bool) : PrepR :=
  let b := rewriteForControlPlane w s l2 fromWan s.raw.bytes
  let e : REntry := ⟨s.ifindex, if l2 then p.ethSrc else zeros 6, if l2 then p.ethDst else zeros 6,
    if fromWan then 1 else 0, w.now⟩
  match aupdate w.rtrackCap w.rtrack (redirectKey s p.tuples) e with
  | some m => ⟨{ w with rtrack := m }, b, false⟩
  | none => ⟨w, b, true⟩

/-- `publish_routing_handoff` / the inline handoff write of the LAN path: world, failed? -/
def publishHandoff (w : World) (k : Key) (r : RResult) : World × Bool :=
  match aupdate w.handoffCap w.handoff k ⟨w.now, r⟩ with
  | some m => ({ w with handoff := m }, false)
  | none => (w, true)

/-- `redirect_lan_packet_to_control_plane` -/
def redirectLan (w : World) (s : Skb) (l2 : Bool) (p : Pkt) (ob mark must dscp : Nat) : World × Out :=
  let pr := prepRedirect w s l2 p false
  if pr.failed then (pr.w, { act := TC_ACT_SHOT, mark := s.mark, bytes := pr.bytes })
  else
    ((publishHandoff pr.w p.tuples.five ⟨mark, must, p.ethSrc, ob, zeros 16, 0, dscp⟩).1,
     { act := TC_ACT_REDIRECT, mark := s.mark, cb0 := TPROXY_MARK, cb1 := p.listener,
       redir := some (w.param.dae0If, 0, w.param.usePeer), bytes := pr.bytes })

def outOk (s : Skb) (mark : Nat) : Out := { act := TC_ACT_OK, mark := mark, bytes := s.raw.bytes }
def outShot (s : Skb) : Out := { act := TC_ACT_SHOT, mark := s.mark, bytes := s.raw.bytes }
def outPipe (s : Skb) : Out := { act := TC_ACT_PIPE, mark := s.mark, bytes := s.raw.bytes }

/-- a routing decision: `outbound = r & 0xff; mark = r >> 8 (as __u32); must = (r >> 40) & 1` -/
structure Dec where
  ob : Nat
  mark : Nat
  must : Nat
deriving DecidableEq, Repr

def unpackRoute (r : Int) : Dec :=
  ⟨r.toNat % 256, r.toNat / 256 % 2 ^ 32, r.toNat / 2 ^ 40 % 2⟩

/-- `mac_be`: the source MAC in the low 48 bits of a 16-byte big-endian value -/
def macVal (mac : Bytes) : Nat := beVal mac

def ipVersionFlag (s : Skb) : Nat := if s.raw.proto = ETH_P_IP then IpVersionType_4 else IpVersionType_6

/-- overwrite the entry of `k` through the pointer a `mark_*_seen` call returned -/
def setConn (w : World) (k : Key) (cs : ConnState) : World := { w with conn := areplace w.conn k cs }

/-! ## `do_tproxy_lan_ingress` -/

/-- the shared tail: direct / block / dead group / redirect -/
def lanVerdict (w : World) (s : Skb) (l2 : Bool) (p : Pkt) (ob mark must dscp : Nat) (blockEvent : Bool) :
    World × Out :=
  if ob = OUTBOUND_DIRECT then (w, outOk s mark)
  else if ob = OUTBOUND_BLOCK then
    (if blockEvent then { w with events := w.events ++ [⟨EV_BLOCKED, 0, ob, p.l4proto⟩] } else w, outShot s)
  else if !wanAlive w s.raw.proto ob p.l4proto p.tuples.five.dport then (w, outShot s)
  else redirectLan w s l2 p ob mark must dscp

def beN (n v : Nat) : Bytes := (List.range n).map fun i => v / 2 ^ (8 * (n - 1 - i)) % 256

/-- the `struct bpf_sock_tuple` the LAN hook fills: by `pkt->ethh.h_proto` either
`ipv4.{saddr,daddr,sport,dport}` (the low 32 bits of the tuple's addresses; 12 bytes) or
`ipv6.{saddr,daddr,sport,dport}` (36 bytes), everything in network order -/
def lookupTuple (p : Pkt) : Bytes :=
  if p.ethProto = ETH_P_IP then
    beN 4 (p.tuples.five.sip % 2 ^ 32) ++ beN 4 (p.tuples.five.dip % 2 ^ 32) ++
      beN 2 p.tuples.five.sport ++ beN 2 p.tuples.five.dport
  else
    beN 16 p.tuples.five.sip ++ beN 16 p.tuples.five.dip ++ beN 2 p.tuples.five.sport ++ beN 2 p.tuples.five.dport

/-- `bpf_skc_lookup_tcp` / `bpf_sk_lookup_udp` `(skb, &tuple, tuple_size, PARAM.dae_netns_id, 0)` -/
def skLookup (w : World) (s : Skb) (p : Pkt) (proto : Nat) : Option SockEntry :=
  match s.sk with
  | some e => if e.proto = proto ∧ e.tuple = lookupTuple p ∧ e.netns = w.param.netns then some e else none
  | none => none

/-- socket lookup before routing: `true` = a local (non-dae) socket owns the tuple ⇒ pass -/
def lanLocalSocket (w : World) (s : Skb) (p : Pkt) : Bool :=
  let notDae (mk : Nat) : Bool := !(w.param.sockMark != 0 && mk == w.param.sockMark)
  if p.l4proto = IPPROTO_TCP then
    if !(p.syn && !p.ack) then
      match skLookup w s p IPPROTO_TCP with
      | some e => notDae e.mark && e.state == BPF_TCP_LISTEN
      | none => false
    else false
  else if p.l4proto = IPPROTO_UDP then
    match skLookup w s p IPPROTO_UDP with
    | some e => notDae e.mark
    | none => false
  else false

def lanRouteIn (s : Skb) (p : Pkt) : RouteIn :=
  { l4w := if p.l4proto = IPPROTO_TCP then L4ProtoType_TCP else L4ProtoType_UDP
    ipw := ipVersionFlag s
    pname := zeros 16
    dscp := p.tuples.dscp
    isWan := 0
    sport := p.tuples.five.sport
    dport := p.tuples.five.dport
    saddr := p.tuples.five.sip
    daddr := p.tuples.five.dip
    mac := macVal p.ethSrc }

/-- "Cache routing in conn state" of the LAN path: `st` is the entry `tcp_state` / `udp_state` points to -/
def lanCache (w : World) (p : Pkt) (st : Option ConnState) (d : Dec) : World :=
  if p.l4proto = IPPROTO_UDP && shortLivedUdp p.tuples.five then w
  else
    match st with
    | some cs =>
      setConn w p.tuples.five { cs with mac := p.ethSrc, outbound := d.ob, mark := d.mark, must := d.must,
                                        dscp := p.tuples.dscp, hasRouting := 1 }
    | none => w

/-- routing for a new connection (everything after "Routing for new connection" once the conn
state was looked up) -/
def lanRouteNew (rt : RouteIn → Int) (w : World) (s : Skb) (l2 : Bool) (p : Pkt) (st : Option ConnState) :
    World × Out :=
  if lanLocalSocket w s p then (w, outOk s s.mark)
  else if rt (lanRouteIn s p) < 0 then (w, outShot s)
  else
    let d := unpackRoute (rt (lanRouteIn s p))
    let w1 := lanCache w p st d
    if p.l4proto = IPPROTO_TCP && st.isNone then
      -- fail-closed: TCP without conn state
      if d.ob = OUTBOUND_DIRECT && d.mark == 0 then (w1, outOk s d.mark) else (w1, outShot s)
    else lanVerdict w1 s l2 p d.ob d.mark d.must p.tuples.dscp true

/-- established TCP on the LAN side: cached decision or pass -/
def lanTcpEstablished (w : World) (s : Skb) (l2 : Bool) (p : Pkt) : World × Out :=
  let r := markTcpSeen w p.tuples.five false false (p.fin || p.rst) {}
  match r.2 with
  | none => (r.1, outOk s s.mark)
  | some cs =>
    if cs.hasRouting = 0 then (r.1, outOk s s.mark)
    else lanVerdict r.1 s l2 p cs.outbound cs.mark cs.must cs.dscp false

/-- UDP (not port 53) on the LAN side -/
def lanUdp (rt : RouteIn → Int) (w : World) (s : Skb) (l2 : Bool) (p : Pkt) : World × Out :=
  let k := p.tuples.five
  let r := markUdpSeen w k false { dscp := p.tuples.dscp }
  match r.2 with
  | some cs =>
    if cs.wanDir then (r.1, outOk s s.mark)
    else if cs.hasRouting != 0 then
      if cs.outbound = OUTBOUND_DIRECT then (r.1, outOk s cs.mark)
      else if cs.outbound = OUTBOUND_BLOCK then (r.1, outShot s)
      else if !wanAlive r.1 s.raw.proto cs.outbound p.l4proto k.dport then (r.1, outShot s)
      else redirectLan (setConn r.1 k { cs with lastSeen := r.1.now }) s l2 p cs.outbound cs.mark cs.must cs.dscp
    else lanRouteNew rt r.1 s l2 p (some cs)
  | none => lanRouteNew rt r.1 s l2 p none

def lanIngressPkt (rt : RouteIn → Int) (w : World) (s : Skb) (l2 : Bool) (p : Pkt) : World × Out :=
  if p.l4proto = IPPROTO_TCP && !(p.syn && !p.ack) then lanTcpEstablished w s l2 p
  else if p.l4proto = IPPROTO_TCP then
    let r := markTcpSeen w p.tuples.five false true (p.fin || p.rst) { dscp := p.tuples.dscp }
    lanRouteNew rt r.1 s l2 p r.2
  else if !shortLivedUdp p.tuples.five then lanUdp rt w s l2 p
  else lanRouteNew rt w s l2 p none

def lanIngress (rt : RouteIn → Int) (w : World) (s : Skb) (l2 : Bool) : World × Out :=
  match parsePacket s.raw l2 with
  | .shot => (w, outShot s)
  | .pass => (w, outOk s s.mark)
  | .pkt p => lanIngressPkt rt w s l2 p

/-! ## `do_tproxy_wan_egress` -/

def wanRouteIn (s : Skb) (p : Pkt) (isTcp : Bool) (pname : Bytes) (mac : Bytes) : RouteIn :=
  { l4w := if isTcp then L4ProtoType_TCP else L4ProtoType_UDP
    ipw := ipVersionFlag s
    pname := pname
    dscp := p.tuples.dscp
    isWan := 1
    sport := p.tuples.five.sport
    dport := p.tuples.five.dport
    saddr := p.tuples.five.sip
    daddr := p.tuples.five.dip
    mac := macVal mac }

/-- the shared tail of both WAN egress functions -/
def wanVerdict (w : World) (s : Skb) (l2 : Bool) (p : Pkt) (isTcp : Bool) (ob mark must : Nat)
    (mac pname : Bytes) (pid : Nat) (mandatory : Bool) : World × Out :=
  if ob = OUTBOUND_DIRECT && mark == 0 then
    (w, outOk s (if isTcp then mark else s.mark))
  else if ob = OUTBOUND_BLOCK then (w, outShot s)
  else if !wanAlive w s.raw.proto ob (if isTcp then IPPROTO_TCP else IPPROTO_UDP) p.tuples.five.dport then
    (w, outShot s)
  else
    let ho := publishHandoff w p.tuples.five ⟨mark, must, mac, ob, pname, pid, p.tuples.dscp⟩
    if ho.2 && mandatory then (ho.1, outShot s)
    else
      let pr := prepRedirect ho.1 s l2 p true
      if pr.failed then (pr.w, { act := TC_ACT_SHOT, mark := s.mark, bytes := pr.bytes })
      else
        (pr.w, { act := TC_ACT_REDIRECT, mark := s.mark, cb0 := TPROXY_MARK,
                 cb1 := (if isTcp then (if p.syn && !p.ack then IPPROTO_TCP else 0) else IPPROTO_UDP),
                 redir := some (w.param.dae0If, 0, false), bytes := pr.bytes })

def ppName (pp : Option PidPname) : Bytes := match pp with | some x => x.pname | none => zeros 16
def ppPid (pp : Option PidPname) : Nat := match pp with | some x => x.pid | none => 0
/-- `if (pid_pname) memcpy(dst, pid_pname->pname)`: the sender's name if known, else what was there -/
def ppNameOr (pp : Option PidPname) (old : Bytes) : Bytes := match pp with | some x => x.pname | none => old
def ppPidOr (pp : Option PidPname) (old : Nat) : Nat := match pp with | some x => x.pid | none => old

/-- a new TCP connection of a local process -/
def wanTcpSyn (rt : RouteIn → Int) (w : World) (s : Skb) (l2 : Bool) (p : Pkt) : World × Out :=
  let k := p.tuples.five
  let cp := pidIsControlPlane w s
  -- dae's own SYN: drop whatever an earlier flow left under this 5-tuple, then pass
  if cp.isCp then ({ cp.w with conn := aerase cp.w.conn k }, outOk s s.mark)
  else
    let mac := if l2 then p.ethSrc else zeros 6
    let r := rt (wanRouteIn s p true (ppName cp.pp) mac)
    if r < 0 then (cp.w, outShot s)
    else
      let d := unpackRoute r
      let a : CtArgs :=
        { rt := if d.ob = OUTBOUND_DIRECT && d.mark == 0 && d.must == 0 then none else some (d.ob, d.mark, d.must)
          mac := some mac
          dscp := p.tuples.dscp
          pname := cp.pp.map (·.pname)
          pid := ppPid cp.pp }
      let m := markTcpSeen cp.w k false true (p.fin || p.rst) a
      match m.2 with
      | none => if d.ob = OUTBOUND_DIRECT && d.mark == 0 then (m.1, outOk s s.mark) else (m.1, outShot s)
      | some _ => wanVerdict m.1 s l2 p true d.ob d.mark d.must mac (ppName cp.pp) (ppPid cp.pp) false

/-- established TCP of a local process: only connections with cached routing are touched -/
def wanTcpEstablished (w : World) (s : Skb) (l2 : Bool) (p : Pkt) : World × Out :=
  let m := markTcpSeen w p.tuples.five false false (p.fin || p.rst) {}
  match m.2 with
  | none => (m.1, outOk s s.mark)
  | some cs =>
    if cs.hasRouting = 0 then (m.1, outOk s s.mark)
    else wanVerdict m.1 s l2 p true cs.outbound cs.mark cs.must cs.mac cs.pname cs.pid false

def wanEgressTcp (rt : RouteIn → Int) (w : World) (s : Skb) (l2 : Bool) (p : Pkt) : World × Out :=
  if p.syn && !p.ack then wanTcpSyn rt w s l2 p else wanTcpEstablished w s l2 p

/-- `fast_path_skip_routing`: EVERY decision is cached into the conn state (`udp_conn_state`
non-NULL, dport ≠ 53); the second component is the name the hand-off record will carry (read
through `handoff_pname`, which in the cached case points into the entry just rewritten) -/
def wanUdpCache (w : World) (p : Pkt) (st : Option ConnState) (cached : Bool) (pp : Option PidPname)
    (d : Dec) (mac hpname : Bytes) : World × Bytes :=
  match st with
  | some cs =>
    if p.tuples.five.dport != 53 then
      let cs1 := { cs with mac := mac,
                           pname := ppNameOr pp cs.pname,
                           pid := ppPidOr pp cs.pid,
                           outbound := d.ob, mark := d.mark, must := d.must, dscp := p.tuples.dscp,
                           hasRouting := 1, lastSeen := w.now }
      (setConn w p.tuples.five cs1, if cached then cs1.pname else hpname)
    else (w, hpname)
  | none => (w, hpname)

/-- the part of `do_tproxy_wan_egress_udp` after the control-plane test and the conn-state lookup;
`st` is the entry `udp_conn_state` points to (`none` for port 53 and on map overflow) -/
def wanUdpRouted (rt : RouteIn → Int) (w : World) (s : Skb) (l2 : Bool) (p : Pkt) (pp : Option PidPname)
    (st : Option ConnState) : World × Out :=
  let mandatory := shortLivedUdp p.tuples.five || st.isNone
  match st with
  | some cs =>
    if cs.wanDir then (w, outOk s s.mark)
    else if cs.hasRouting != 0 then
      -- cached decision
      let c := wanUdpCache w p st true pp ⟨cs.outbound, cs.mark, cs.must⟩ cs.mac cs.pname
      wanVerdict c.1 s l2 p false cs.outbound cs.mark cs.must cs.mac c.2 cs.pid mandatory
    else
      let r := rt (wanRouteIn s p false (ppName pp) p.ethSrc)
      if r < 0 then (w, outShot s)
      else
        let d := unpackRoute r
        let c := wanUdpCache w p st false pp d p.ethSrc (ppName pp)
        wanVerdict c.1 s l2 p false d.ob d.mark d.must p.ethSrc c.2 (ppPid pp) mandatory
  | none =>
    let r := rt (wanRouteIn s p false (ppName pp) p.ethSrc)
    if r < 0 then (w, outShot s)
    else
      let d := unpackRoute r
      wanVerdict w s l2 p false d.ob d.mark d.must p.ethSrc (ppName pp) (ppPid pp) mandatory

def wanEgressUdp (rt : RouteIn → Int) (w : World) (s : Skb) (l2 : Bool) (p : Pkt) : World × Out :=
  let cp := pidIsControlPlane w s
  if cp.isCp then (cp.w, outOk s s.mark)
  else if !shortLivedUdp p.tuples.five then
    let m := markUdpSeen cp.w p.tuples.five false {}
    wanUdpRouted rt m.1 s l2 p cp.pp m.2
  else wanUdpRouted rt cp.w s l2 p cp.pp none

def wanEgress (rt : RouteIn → Int) (w : World) (s : Skb) (l2 : Bool) : World × Out :=
  if s.ingressIf != 0 then (w, outOk s s.mark)
  else
    match parsePacket s.raw l2 with
    | .shot => (w, outShot s)
    | .pass => (w, outOk s s.mark)
    | .pkt p =>
      if p.l4proto = IPPROTO_TCP then wanEgressTcp rt w s l2 p
      else if p.l4proto = IPPROTO_UDP then wanEgressUdp rt w s l2 p
      else (w, outOk s s.mark)

/-! ## `do_tproxy_wan_ingress`, `do_tproxy_lan_egress`: reverse-direction refresh -/

def reverseRefresh (w : World) (c : Ctx) : World :=
  if c.l4proto = IPPROTO_TCP then
    (markTcpSeen w (getTuples c).five.rev true (c.tcpSyn && !c.tcpAck) (c.tcpFin || c.tcpRst) {}).1
  else if c.l4proto = IPPROTO_UDP then
    if c.udpSport = 53 || c.udpDport = 53 then w
    else (markUdpSeen w (getTuples c).five.rev true {}).1
  else w

def wanIngress (w : World) (s : Skb) (l2 : Bool) : World × Out :=
  match parseTransport s.raw l2 with
  | .fallback => (w, outShot s)
  | .efault => (w, outShot s)
  | .ret code c =>
    if code != 0 then (w, outOk s s.mark)
    else (reverseRefresh w c, outPipe s)

def lanEgress (w : World) (s : Skb) (l2 : Bool) : World × Out :=
  match parseTransport s.raw l2 with
  | .fallback => (w, outShot s)
  | .efault => (w, outShot s)
  | .ret code c =>
    if code != 0 then (w, outOk s s.mark)
    else if s.ingressIf = 0 && c.l4proto = IPPROTO_ICMPV6 && c.icmpType = NDP_REDIRECT then (w, outShot s)
    else (reverseRefresh w c, outPipe s)

/-! ## Hooks as one step function; runs -/

inductive Hook where
  | lanIngress | lanEgress | wanIngress | wanEgress
deriving DecidableEq, Repr

def step (rt : RouteIn → Int) (w : World) (h : Hook) (s : Skb) (l2 : Bool) : World × Out :=
  match h with
  | .lanIngress => lanIngress rt w s l2
  | .wanEgress => wanEgress rt w s l2
  | .wanIngress => wanIngress w s l2
  | .lanEgress => lanEgress w s l2

/-! ## The control plane's `RetrieveRoutingResult` -/

/-- `routingHandoffExpired` -/
def handoffExpired (now lastSeen : Nat) : Bool :=
  if lastSeen = 0 then true
  else if now ≤ lastSeen then false
  else now - lastSeen > HANDOFF_TIMEOUT

/-- `RetrieveRoutingResult`: embedded conn-state routing first (TCP/UDP, `has_routing ≠ 0`), then an
unexpired hand-off entry; `none` = `ErrKeyNotExist` -/
def retrieve (w : World) (k : Key) (userNow : Nat) : Option RResult :=
  let embedded : Option RResult :=
    if k.l4 = IPPROTO_TCP ∨ k.l4 = IPPROTO_UDP then
      match alookup w.conn k with
      | some cs =>
        if cs.hasRouting = 0 then none
        else some ⟨cs.mark, cs.must, cs.mac, cs.outbound, cs.pname, cs.pid, cs.dscp⟩
      | none => none
    else none
  match embedded with
  | some r => some r
  | none =>
    match alookup w.handoff k with
    | some h => if handoffExpired userNow h.lastSeen then none else some h.result
    | none => none

end DaeVerif.C03
