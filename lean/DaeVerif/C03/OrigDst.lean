import DaeVerif.C03.Layout
/-!
# C03 — `RetrieveOriginalDest` (control/utils.go): the destination half of the lookup key

For a handed-over UDP datagram the control plane learns the ORIGINAL destination (the address the client
sent to, which the kernel record is keyed by) from the control messages `recvmsg` returns on the transparent
listener: `IP_RECVORIGDSTADDR` (level `SOL_IP` = 0, type 20, a `sockaddr_in`) or `IPV6_RECVORIGDSTADDR`
(level `SOL_IPV6` = 41, type 74, a `sockaddr_in6`).  Executable model of the cmsg walk on a 64-bit
little-endian host (`cmsghdr` = `size_t len; int level; int type`, 16 bytes; alignment 8).
-/
namespace DaeVerif.C03

def CMSG_HDR : Nat := 16
def SOL_IP : Nat := 0
def IP_RECVORIGDSTADDR : Nat := 20
def SOL_IPV6 : Nat := 41
def IPV6_RECVORIGDSTADDR : Nat := 74

/-- what the function returns: the zero `netip.AddrPort`, an IPv4 address + port, or an IPv6 one -/
inductive OrigDst where
  | none
  | v4 (addr : Bytes) (port : Nat)
  | v6 (addr : Bytes) (port : Nat)
deriving DecidableEq, Repr

/-- `cmsgAlign(length, 8)` -/
def cmsgAlign (n : Nat) : Nat := (n + 7) / 8 * 8

/-- `int(int32(binary.NativeEndian.Uint32(..)))` compared with a small non-negative constant -/
def i32Is (b : Bytes) (o c : Nat) : Bool := leVal (slice b o 4) == c

/-- one round of the `for len(oob) >= hdrLen` loop; `fuel` bounds the number of messages -/
def origDstLoop : Nat → Bytes → OrigDst
  | 0, _ => .none
  | fuel + 1, oob =>
    if oob.length < CMSG_HDR then .none
    else
      let cmsgLen := leVal (slice oob 0 8)
      -- parseNativeUintptr rejects values above MaxInt; cmsgLen < hdrLen || cmsgLen > len(oob) ⇒ zero value
      if cmsgLen ≥ 2 ^ 63 ∨ cmsgLen < CMSG_HDR ∨ cmsgLen > oob.length then .none
      else
        let data := (oob.take cmsgLen).drop CMSG_HDR
        if i32Is oob 8 SOL_IP && i32Is oob 12 IP_RECVORIGDSTADDR && decide (data.length ≥ 16) then
          .v4 (slice data 4 4) (be16 data 2)
        else if i32Is oob 8 SOL_IPV6 && i32Is oob 12 IPV6_RECVORIGDSTADDR && decide (data.length ≥ 28) then
          .v6 (slice data 8 16) (be16 data 2)
        else
          let next := cmsgAlign cmsgLen
          if next > oob.length then .none else origDstLoop fuel (oob.drop next)

/-- `RetrieveOriginalDest(oob)` -/
def retrieveOriginalDest (oob : Bytes) : OrigDst := origDstLoop (oob.length / CMSG_HDR + 1) oob

/-- a control message as the kernel lays it out (`CMSG_SPACE`: padded to 8) -/
def mkCmsg (level typ : Nat) (data : Bytes) : Bytes :=
  le 8 (CMSG_HDR + data.length) ++ le 4 level ++ le 4 typ ++ data ++
    zeros (cmsgAlign (CMSG_HDR + data.length) - (CMSG_HDR + data.length))

/-- `struct sockaddr_in` {family, port (network order), addr, zero[8]} -/
def sockaddrIn (ip : Bytes) (port : Nat) : Bytes := le 2 2 ++ beBytes 2 port ++ fit 4 ip ++ zeros 8

/-- `struct sockaddr_in6` {family, port, flowinfo, addr, scope_id} -/
def sockaddrIn6 (ip : Bytes) (port : Nat) : Bytes := le 2 10 ++ beBytes 2 port ++ zeros 4 ++ fit 16 ip ++ zeros 4

end DaeVerif.C03
