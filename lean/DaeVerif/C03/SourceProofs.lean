import DaeVerif.C03.VerdictProofs
/-!
# C03 — which decision reaches the verdict tail (helper lemmas)

Closed forms of the conntrack calls in the situations the property distinguishes (new connection,
tracked flow, untracked flow), and transfer lemmas: fates and room predicates only look at the
parts of the world conntrack never touches.
-/
namespace DaeVerif.C03

/-! ## transfer along `World.rest` -/

theorem rest_alive {w1 w : World} (h : w1.rest = w.rest) : w1.alive = w.alive := by
  unfold World.rest at h; simp only [Prod.mk.injEq] at h; exact h.2.2.2.2.2.1

theorem rest_param {w1 w : World} (h : w1.rest = w.rest) : w1.param = w.param := by
  unfold World.rest at h; simp only [Prod.mk.injEq] at h; exact h.2.2.2.2.2.2.1

theorem rest_now {w1 w : World} (h : w1.rest = w.rest) : w1.now = w.now := by
  unfold World.rest at h; simp only [Prod.mk.injEq] at h; exact h.2.2.2.2.2.2.2

theorem rest_handoff {w1 w : World} (h : w1.rest = w.rest) :
    w1.handoff = w.handoff ∧ w1.handoffCap = w.handoffCap := by
  unfold World.rest at h; simp only [Prod.mk.injEq] at h; exact ⟨h.2.1, h.2.2.1⟩

theorem rest_rtrack {w1 w : World} (h : w1.rest = w.rest) :
    w1.rtrack = w.rtrack ∧ w1.rtrackCap = w.rtrackCap := by
  unfold World.rest at h; simp only [Prod.mk.injEq] at h; exact ⟨h.2.2.2.1, h.2.2.2.2.1⟩

theorem rest_connCap {w1 w : World} (h : w1.rest = w.rest) : w1.connCap = w.connCap := by
  unfold World.rest at h; simp only [Prod.mk.injEq] at h; exact h.1

theorem wanAlive_congr {w1 w : World} (h : w1.alive = w.alive) (pr ob l4 dp : Nat) :
    wanAlive w1 pr ob l4 dp = wanAlive w pr ob l4 dp := by
  unfold wanAlive aliveAt; rw [h]

theorem lanFate_congr {w1 w : World} (h : w1.rest = w.rest) (s : Skb) (p : Pkt) (d : Dec) :
    lanFate w1 s p d = lanFate w s p d := by
  unfold lanFate groupUp; rw [wanAlive_congr (rest_alive h)]

theorem wanFate_congr {w1 w : World} (h : w1.rest = w.rest) (s : Skb) (p : Pkt) (d : Dec) :
    wanFate w1 s p d = wanFate w s p d := by
  unfold wanFate groupUp; rw [wanAlive_congr (rest_alive h)]

theorem rtrackRoom_congr {w1 w : World} (h : w1.rest = w.rest) (s : Skb) (p : Pkt) :
    rtrackRoom w1 s p ↔ rtrackRoom w s p := by
  unfold rtrackRoom; rw [(rest_rtrack h).1, (rest_rtrack h).2]

theorem handoffRoom_congr {w1 w : World} (h : w1.rest = w.rest) (k : Key) :
    handoffRoom w1 k ↔ handoffRoom w k := by
  unfold handoffRoom; rw [(rest_handoff h).1, (rest_handoff h).2]

theorem realises_congr {w1 w : World} (h : w1.rest = w.rest) (o : Out) (s : Skb) (i : Bool) (f : Fate) :
    o.realises w1 s i f ↔ o.realises w s i f := by
  cases f <;> simp only [Out.realises, rest_param h]

theorem pidIsControlPlane_rest (w : World) (s : Skb) : (pidIsControlPlane w s).w.rest = w.rest := by
  unfold pidIsControlPlane; split <;> rfl

theorem setConn_rest (w : World) (k : Key) (cs : ConnState) : (setConn w k cs).rest = w.rest := rfl

theorem lanCache_rest (w : World) (p : Pkt) (st : Option ConnState) (d : Dec) : (lanCache w p st d).rest = w.rest := by
  unfold lanCache; leaves <;> rfl

theorem wanUdpCache_rest (w : World) (p : Pkt) (st : Option ConnState) (c : Bool) (pp : Option PidPname)
    (d : Dec) (mac hp : Bytes) : (wanUdpCache w p st c pp d mac hp).1.rest = w.rest := by
  unfold wanUdpCache; leaves <;> rfl

/-! ## closed forms of the conntrack calls -/

theorem tcpLive_syn (w : World) (k : Key) : tcpLive w k true = none := by
  unfold tcpLive; split <;> simp

theorem createConn_room (w : World) (k : Key) (ns : ConnState) (udp : Bool) (pid : Nat) (h : connRoom w k) :
    createConn w k ns udp pid = ({ w with conn := aerase w.conn k ++ [(k, ns)] }, some ns) := by
  unfold createConn
  rw [aupdate_room w.connCap (aerase w.conn k) k ns (alookup_aerase_self _ _) h]

theorem markTcpSeen_syn_room (w : World) (k : Key) (wd fr : Bool) (a : CtArgs) (h : connRoom w k) :
    markTcpSeen w k wd true fr a =
      ({ w with conn := aerase w.conn k ++ [(k, newConnState wd w.now a)] }, some (newConnState wd w.now a)) := by
  unfold markTcpSeen
  rw [tcpLive_syn]
  simp only [if_true]
  exact createConn_room _ _ _ _ _ h

theorem markTcpSeen_live (w : World) (k : Key) (wd fr : Bool) (a : CtArgs) (cs : ConnState)
    (h : tcpLive w k false = some cs) :
    markTcpSeen w k wd false fr a =
      ({ w with conn := areplace w.conn k (touchTcp cs w.now fr a) }, some (touchTcp cs w.now fr a)) := by
  unfold markTcpSeen; rw [h]

theorem markTcpSeen_dead (w : World) (k : Key) (wd fr : Bool) (a : CtArgs) (h : tcpLive w k false = none) :
    markTcpSeen w k wd false fr a = ({ w with conn := aerase w.conn k }, none) := by
  unfold markTcpSeen; rw [h]; simp

theorem markUdpSeen_live (w : World) (k : Key) (wd : Bool) (a : CtArgs) (cs : ConnState)
    (h : udpLive w k = some cs) :
    markUdpSeen w k wd a =
      ({ w with conn := areplace w.conn k (touchUdp cs w.now a) }, some (touchUdp cs w.now a)) := by
  unfold markUdpSeen; rw [h]

theorem markUdpSeen_new_room (w : World) (k : Key) (wd : Bool) (a : CtArgs) (h : udpLive w k = none)
    (hr : connRoom w k) :
    markUdpSeen w k wd a =
      ({ w with conn := aerase w.conn k ++ [(k, newConnState wd w.now a)] }, some (newConnState wd w.now a)) := by
  unfold markUdpSeen; rw [h]; exact createConn_room _ _ _ _ _ hr

theorem tcpLive_lookup (w : World) (k : Key) (ns : Bool) (cs : ConnState) (h : tcpLive w k ns = some cs) :
    alookup w.conn k = some cs := by
  unfold tcpLive at h
  split at h
  · rename_i cs' hl
    split at h
    · simp at h
    · split at h
      · simp at h
      · injection h with h; rw [hl, h]
  · simp at h

theorem udpLive_lookup (w : World) (k : Key) (cs : ConnState) (h : udpLive w k = some cs) :
    alookup w.conn k = some cs := by
  unfold udpLive at h
  split at h
  · rename_i cs' hl
    split at h
    · simp at h
    · injection h with h; rw [hl, h]
  · simp at h

theorem applyRouting_none (cs : ConnState) (a : CtArgs) (h : a.rt = none) : applyRouting cs a = cs := by
  unfold applyRouting; rw [h]

/-- `refresh` only moves `last_seen_ns` -/
theorem refresh_eq (cs : ConnState) (now : Nat) : ∃ t, refresh cs now = { cs with lastSeen := t } := by
  unfold refresh
  split
  · exact ⟨now, rfl⟩
  · exact ⟨cs.lastSeen, rfl⟩

/-- a touch without routing arguments keeps everything but `last_seen_ns` and `state` -/
theorem touchTcp_eq (cs : ConnState) (now : Nat) (fr : Bool) :
    ∃ t st, touchTcp cs now fr {} = { cs with lastSeen := t, state := st } := by
  unfold touchTcp
  rw [applyRouting_none _ _ rfl]
  obtain ⟨t, ht⟩ := refresh_eq cs now
  rw [ht]
  cases fr
  · exact ⟨t, cs.state, rfl⟩
  · exact ⟨t, 1, rfl⟩

theorem touchUdp_eq (cs : ConnState) (now : Nat) (a : CtArgs) (h : a.rt = none) :
    ∃ t, touchUdp cs now a = { cs with lastSeen := t } := by
  unfold touchUdp
  rw [applyRouting_none _ _ h]
  exact refresh_eq cs now

theorem createConn_full (w : World) (k : Key) (ns : ConnState) (udp : Bool) (pid : Nat) (h : ¬ connRoom w k) :
    (createConn w k ns udp pid).2 = none := by
  unfold createConn aupdate
  unfold connRoom at h
  have hge : (aerase w.conn k).length ≥ w.connCap := by omega
  simp only [alookup_aerase_self, hge, if_true]
  split <;> rfl

theorem markTcpSeen_syn_full (w : World) (k : Key) (wd fr : Bool) (a : CtArgs) (h : ¬ connRoom w k) :
    (markTcpSeen w k wd true fr a).2 = none := by
  unfold markTcpSeen
  rw [tcpLive_syn]
  simp only [if_true]
  exact createConn_full _ _ _ _ _ h

theorem createConn_result (w : World) (k : Key) (ns cs : ConnState) (udp : Bool) (pid : Nat)
    (h : (createConn w k ns udp pid).2 = some cs) : cs = ns := by
  unfold createConn at h
  cases hx : aupdate w.connCap (aerase w.conn k) k ns with
  | some c => rw [hx] at h; injection h with h; exact h.symm
  | none =>
    rw [hx] at h
    cases udp <;> simp at h

/-- the entry `mark_udp_seen` (called without routing arguments, not from the WAN side) returns for
a flow that holds no decision: still without decision, not WAN-originated -/
theorem markUdpSeen_result_untracked (w : World) (k : Key) (a : CtArgs) (ha : a.rt = none)
    (hnew : ∀ cs, udpLive w k = some cs → cs.hasRouting = 0 ∧ cs.wanDir = false)
    (cs : ConnState) (hm : (markUdpSeen w k false a).2 = some cs) : cs.wanDir = false ∧ cs.hasRouting = 0 := by
  cases hl : udpLive w k with
  | none =>
    unfold markUdpSeen at hm
    rw [hl] at hm
    have := createConn_result _ _ _ _ _ _ hm
    rw [this]
    unfold newConnState; rw [ha]; exact ⟨rfl, rfl⟩
  | some cs0 =>
    rw [markUdpSeen_live w k false a cs0 hl] at hm
    injection hm with hm
    obtain ⟨t, hte⟩ := touchUdp_eq cs0 w.now a ha
    rw [← hm, hte]; exact ⟨(hnew cs0 hl).2, (hnew cs0 hl).1⟩

end DaeVerif.C03
