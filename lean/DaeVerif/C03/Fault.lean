import DaeVerif.C03.Consumer
import DaeVerif.C03.Props
/-!
# C03 — a failing map lookup at any point of the record retrieval

`RetrieveRoutingResult` makes up to two map lookups (`conn_state_map`, then `routing_handoff_map`); each can
fail with an error that is NOT `ErrKeyNotExist` (closed map fd during a reload, `EPERM`, `EINTR`, …).  The
function then returns that error; the consumers react differently:

* head of `handleConn` (TCP): the error is returned — the accepted connection is closed, nothing is relayed;
* UDP ingress task: a record still in the per-endpoint cache is used (the lookup is not even made); otherwise
  the datagram is dropped (`return` before `handlePkt`), except for destination port 53, which falls back to
  userspace routing;
* DNS ingress fast path: keeps its fallback record (userspace routing with dae's socket mark).

In no case does a consumer continue with a record that is not the kernel's or the explicit fallback.
-/
namespace DaeVerif.C03

/-- which of the two lookups fails -/
inductive LookupFault where
  | none | conn | handoff
deriving DecidableEq, Repr

/-- answer of `RetrieveRoutingResult` -/
inductive Retrieved where
  | found (r : RResult)
  | missing
  | failed
deriving DecidableEq, Repr

def embeddedOf (w : World) (k : Key) : Option RResult :=
  if k.l4 = IPPROTO_TCP ∨ k.l4 = IPPROTO_UDP then
    match alookup w.conn k with
    | some cs =>
      if cs.hasRouting = 0 then none
      else some ⟨cs.mark, cs.must, cs.mac, cs.outbound, cs.pname, cs.pid, cs.dscp⟩
    | none => none
  else none

/-- `RetrieveRoutingResult` with a fault injected at one of its lookups.  Protocols other than TCP / UDP
skip the conn-state lookup altogether. -/
def retrieveF (f : LookupFault) (w : World) (k : Key) (userNow : Nat) : Retrieved :=
  if f = .conn ∧ (k.l4 = IPPROTO_TCP ∨ k.l4 = IPPROTO_UDP) then .failed
  else
    match embeddedOf w k with
    | some r => .found r
    | none =>
      if f = .handoff then .failed
      else
        match alookup w.handoff k with
        | some h => if handoffExpired userNow h.lastSeen then .missing else .found h.result
        | none => .missing

def Retrieved.toOption : Retrieved → Option RResult
  | .found r => some r
  | _ => none

/-- head of `handleConn`: `none` = the function returns the error (connection closed) -/
def tcpConsumerF (r : Retrieved) : Option RResult :=
  match r with
  | .failed => none
  | x => some (tcpConsumer x.toOption)

/-- the retry loop stops at once on an error that is not `ErrKeyNotExist` -/
def tcpConsumerDelayF (cfg : RelayCfg) (r : Retrieved) : Nat :=
  match r with
  | .failed => 0
  | x => tcpConsumerDelay cfg x.toOption

def dnsConsumerF (soMark : Nat) (r : Retrieved) : RResult := dnsConsumer soMark r.toOption

/-- UDP ingress task: `none` = the datagram is dropped before `handlePkt` -/
def udpConsumerF (cfg : RelayCfg) (scopeSensitive : Bool) (u : UState) (src dst : AddrPort) (r : Retrieved) :
    UState × Option (RResult × Bool) :=
  match r with
  | .failed =>
    match (if scopeSensitive then none else cacheLookup cfg u src dst) with
    | some e => (u, some (e.rr, false))
    | none => if dst.2 = 53 then (u, some (fallbackRecord, false)) else (u, none)
  | x =>
    let y := udpConsumer cfg scopeSensitive u src dst x.toOption
    (y.u, some (y.rr, y.fresh))

end DaeVerif.C03

namespace DaeVerif.C03.Props
open DaeVerif.C03

theorem retrieve_eq_embedded (w : World) (k : Key) (t : Nat) :
    retrieve w k t = match embeddedOf w k with
      | some r => some r
      | none =>
        match alookup w.handoff k with
        | some h => if handoffExpired t h.lastSeen then none else some h.result
        | none => none := rfl

/-- **Without a fault this is `RetrieveRoutingResult`.** -/
theorem retrieve_without_fault (w : World) (k : Key) (t : Nat) :
    (retrieveF .none w k t).toOption = retrieve w k t ∧ retrieveF .none w k t ≠ .failed := by
  rw [retrieve_eq_embedded]
  unfold retrieveF
  have h1 : ¬ (LookupFault.none = LookupFault.conn ∧ (k.l4 = IPPROTO_TCP ∨ k.l4 = IPPROTO_UDP)) :=
    fun h => by cases h.1
  have h2 : ¬ (LookupFault.none = LookupFault.handoff) := fun h => by cases h
  simp only [h1, h2, if_false]
  cases embeddedOf w k with
  | some r => exact ⟨rfl, fun h => by cases h⟩
  | none =>
    simp only
    cases alookup w.handoff k with
    | none => exact ⟨rfl, fun h => by cases h⟩
    | some h =>
      simp only
      cases handoffExpired t h.lastSeen with
      | true => exact ⟨rfl, fun h => by cases h⟩
      | false => exact ⟨rfl, fun h => by cases h⟩

/-- **A failing lookup never yields a wrong record.**  Whatever lookup fails, at whatever state of the maps:
`RetrieveRoutingResult` answers the kernel's record for the tuple (exactly what it answers without the fault)
or reports the failure — never another record, and never "no such flow" for a flow that has a record. -/
theorem lookup_fault_never_yields_a_wrong_record (f : LookupFault) (w : World) (k : Key) (t : Nat) :
    retrieveF f w k t = .failed ∨ (retrieveF f w k t).toOption = retrieve w k t ∧
      (retrieveF f w k t = .missing → retrieve w k t = none) := by
  by_cases hf : retrieveF f w k t = .failed
  · exact Or.inl hf
  · right
    have h0 := (retrieve_without_fault w k t).1
    have : retrieveF f w k t = retrieveF .none w k t := by
      unfold retrieveF at hf ⊢
      cases f
      · rfl
      · by_cases h4 : k.l4 = IPPROTO_TCP ∨ k.l4 = IPPROTO_UDP
        · simp [h4] at hf
        · have he : embeddedOf w k = none := by unfold embeddedOf; simp [h4]
          simp [h4, he]
      · cases he : embeddedOf w k with
        | some r => simp [he]
        | none => simp [he] at hf
    rw [this]
    refine ⟨h0, fun hm => ?_⟩
    rw [← h0, hm]; rfl

/-- **The consumers fail closed on a lookup error**: the TCP relay closes the connection; the UDP task uses a
record from its cache (which `udp_relay_record_is_at_most_cache_ttl_old` bounds) or drops the datagram — only
port 53 falls back to userspace routing; the DNS fast path keeps its fallback.  None of them continues with
anything but the kernel's record or the explicit fallback record. -/
theorem consumers_fail_closed_on_lookup_error (cfg : RelayCfg) (scope : Bool) (u : UState) (src dst : AddrPort)
    (soMark : Nat) :
    tcpConsumerF .failed = none ∧ tcpConsumerDelayF cfg .failed = 0 ∧
    dnsConsumerF soMark .failed = { fallbackRecord with mark := soMark } ∧
    (udpConsumerF cfg scope u src dst .failed).1 = u ∧
    ((udpConsumerF cfg scope u src dst .failed).2 = none ∨
     (∃ e, scope = false ∧ cacheLookup cfg u src dst = some e ∧
        (udpConsumerF cfg scope u src dst .failed).2 = some (e.rr, false)) ∨
     (dst.2 = 53 ∧ (udpConsumerF cfg scope u src dst .failed).2 = some (fallbackRecord, false))) := by
  refine ⟨rfl, rfl, rfl, ?_, ?_⟩
  · unfold udpConsumerF; simp only; split
    · rfl
    · split <;> rfl
  · unfold udpConsumerF
    cases scope with
    | true =>
      simp only [if_true]
      by_cases h53 : dst.2 = 53
      · simp [h53]
      · simp [h53]
    | false =>
      simp only [Bool.false_eq_true, if_false]
      cases hc : cacheLookup cfg u src dst with
      | some e => right; left; exact ⟨e, by simp, by simp⟩
      | none =>
        by_cases h53 : dst.2 = 53
        · simp [h53]
        · simp [h53]

-- non-vacuity: a tracked flow; the conn-state lookup fails ⇒ failed; the hand-off lookup fails ⇒ still found
example : retrieveF .conn exTracked exK 0 = .failed ∧
    retrieveF .handoff exTracked exK 0 = .found ⟨0, 0, [2,0,0,0,0,1], 2, zeros 16, 0, 0⟩ ∧
    retrieveF .handoff exWorld exK 0 = .failed ∧ retrieveF .none exWorld exK 0 = .missing := by decide

end DaeVerif.C03.Props
