import DaeVerif.C03.Model
/-!
# C03 — byte images of the shared records

`enc*` : the bytes the kernel program stores (BPF/amd64 struct layout of `control/kern/tproxy.c`,
little-endian scalars, zeroed padding; offsets are compared with the compiled program by `const`
ops on every run).  `goDec*` : what the control plane reads back through the bpf2go struct types of
`control/bpf_stub.go` (`bpfConnState`, `bpfRoutingHandoffEntry`, `bpfRoutingResult`; field offsets
compared with `unsafe.Offsetof` on every run), and `goKey` : the lookup key
`bpfTuplesKeyFromAddrPorts` builds.
-/
namespace DaeVerif.C03

def le (n : Nat) (v : Nat) : Bytes := (List.range n).map fun i => v / 2 ^ (8 * i) % 256
def beBytes (n : Nat) (v : Nat) : Bytes := (List.range n).map fun i => v / 2 ^ (8 * (n - 1 - i)) % 256
def leVal (bs : Bytes) : Nat := bs.foldr (fun b a => a * 256 + b) 0
/-- exactly `n` bytes: truncated or zero-padded -/
def fit (n : Nat) (bs : Bytes) : Bytes := (List.range n).map fun i => rd bs i

/-- `struct tuples_key` (40 bytes) -/
def encKey (k : Key) : Bytes :=
  beBytes 16 k.sip ++ beBytes 16 k.dip ++ beBytes 2 k.sport ++ beBytes 2 k.dport ++ [k.l4 % 256] ++ zeros 3

def decKey (b : Bytes) : Key :=
  ⟨beVal (slice b 0 16), beVal (slice b 16 16), be16 b 32, be16 b 34, rd b 36⟩

/-- `struct conn_state` (56 bytes) -/
def encConn (c : ConnState) : Bytes :=
  [if c.wanDir then 1 else 0, c.state % 256] ++ zeros 6 ++ le 8 c.lastSeen ++
  le 4 c.mark ++ [c.outbound % 256, c.must % 256, c.dscp % 256, c.hasRouting % 256] ++
  fit 6 c.mac ++ zeros 2 ++ fit 16 c.pname ++ le 4 c.pid ++ zeros 4

/-- `struct routing_result` (36 bytes) -/
def encResult (r : RResult) : Bytes :=
  le 4 r.mark ++ [r.must % 256] ++ fit 6 r.mac ++ [r.outbound % 256] ++ fit 16 r.pname ++ le 4 r.pid ++
  [r.dscp % 256] ++ zeros 3

/-- `struct routing_handoff_entry` (48 bytes) -/
def encHandoff (h : Handoff) : Bytes := le 8 h.lastSeen ++ encResult h.result ++ zeros 4

/-- `struct redirect_tuple` (32 bytes) -/
def encRKey (k : RKey) : Bytes := beBytes 16 k.sip ++ beBytes 16 k.dip

/-- `struct redirect_entry` (32 bytes) -/
def encREntry (e : REntry) : Bytes :=
  le 4 e.ifindex ++ fit 6 e.smac ++ fit 6 e.dmac ++ [e.fromWan % 256] ++ zeros 3 ++ zeros 4 ++ le 8 e.lastSeen

/-- `struct pid_pname` (32 bytes) -/
def encPidPname (p : PidPname) : Bytes := le 8 p.lastSeen ++ le 4 p.pid ++ fit 16 p.pname ++ zeros 4

/-! ## The Go side -/

/-- `bpfRoutingResult` read from a `struct routing_result` image at offset `o`:
`Mark@0 Must@4 Mac@5 Outbound@11 Pname@12 Pid@28 Dscp@32` -/
def goDecResult (b : Bytes) (o : Nat) : RResult :=
  { mark := leVal (slice b o 4), must := rd b (o + 4), mac := slice b (o + 5) 6, outbound := rd b (o + 11),
    pname := slice b (o + 12) 16, pid := leVal (slice b (o + 28) 4), dscp := rd b (o + 32) }

/-- `bpfRoutingHandoffEntry`: `LastSeenNs@0 Result@8` -/
def goDecHandoff (b : Bytes) : Handoff := ⟨leVal (slice b 0 8), goDecResult b 8⟩

/-- what `retrieveEmbeddedRoutingResult` reads of a `bpfConnState` image:
`Meta.Data.{Mark@16 Outbound@20 Must@21 Dscp@22 HasRouting@23} Mac@24 Pname@32 Pid@48` -/
structure GoConn where
  hasRouting : Nat
  result : RResult
deriving DecidableEq, Repr

def goDecConn (b : Bytes) : GoConn :=
  { hasRouting := rd b 23
    result := { mark := leVal (slice b 16 4), must := rd b 21, mac := slice b 24 6, outbound := rd b 20,
                pname := slice b 32 16, pid := leVal (slice b 48 4), dscp := rd b 22 } }

/-- `bpfTuplesKeyFromAddrPorts(src, dst, l4proto)` for already-converged addresses given as 16-byte
values: `Sip@0 Dip@16 Sport@32 (Htons) Dport@34 (Htons) L4proto@36`, 3 bytes of padding -/
def goKey (sip sport dip dport l4 : Nat) : Bytes :=
  beBytes 16 sip ++ beBytes 16 dip ++ beBytes 2 sport ++ beBytes 2 dport ++ [l4 % 256] ++ zeros 3

/-! ## `RetrieveRoutingResult` on the stored bytes -/

/-- the kernel maps as the control plane sees them: raw key bytes ↦ raw value bytes -/
def connImage (w : World) : List (Bytes × Bytes) := w.conn.map fun p => (encKey p.1, encConn p.2)
def handoffImage (w : World) : List (Bytes × Bytes) := w.handoff.map fun p => (encKey p.1, encHandoff p.2)

/-- `RetrieveRoutingResult` as the Go code runs it: build the key bytes, look them up in the two
maps, read the value bytes through the bpf2go struct types -/
def retrieveGo (conn ho : List (Bytes × Bytes)) (sip sport dip dport l4 : Nat) (userNow : Nat) : Option RResult :=
  let key := goKey sip sport dip dport l4
  let embedded : Option RResult :=
    if l4 = IPPROTO_TCP ∨ l4 = IPPROTO_UDP then
      match alookup conn key with
      | some v => if (goDecConn v).hasRouting = 0 then none else some (goDecConn v).result
      | none => none
    else none
  match embedded with
  | some r => some r
  | none =>
    match alookup ho key with
    | some v => if handoffExpired userNow (goDecHandoff v).lastSeen then none else some (goDecHandoff v).result
    | none => none

/-- values in range for their C types -/
def Key.WF (k : Key) : Prop := k.sip < 2 ^ 128 ∧ k.dip < 2 ^ 128 ∧ k.sport < 2 ^ 16 ∧ k.dport < 2 ^ 16 ∧ k.l4 < 256

def ConnState.WF (c : ConnState) : Prop :=
  c.mark < 2 ^ 32 ∧ c.pid < 2 ^ 32 ∧ c.outbound < 256 ∧ c.must < 256 ∧ c.dscp < 256 ∧ c.hasRouting < 256 ∧
  c.mac.length = 6 ∧ c.pname.length = 16

def Handoff.WF (x : Handoff) : Prop :=
  x.lastSeen < 2 ^ 64 ∧ x.result.mark < 2 ^ 32 ∧ x.result.pid < 2 ^ 32 ∧ x.result.outbound < 256 ∧
  x.result.must < 256 ∧ x.result.dscp < 256 ∧ x.result.mac.length = 6 ∧ x.result.pname.length = 16

def World.WF (w : World) : Prop :=
  (∀ p ∈ w.conn, p.1.WF ∧ p.2.WF) ∧ (∀ p ∈ w.handoff, p.1.WF ∧ p.2.WF)

end DaeVerif.C03
