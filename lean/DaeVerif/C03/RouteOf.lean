import DaeVerif.C03.Model
import DaeVerif.C02.Model
/-!
# C03 ∘ C02 — the rule program the hooks consult is C02's `routeK` on the installed maps

`route(flag, l4hdr, saddr, daddr, mac)` is called from three places of `control/kern/tproxy.c`; the
hooks' arguments are `RouteIn` (built by `lanRouteIn` / `wanRouteIn` in `Model.lean`), C02's model
of `route()` takes a `PktK`.  Field by field:

| `PktK`   | `route()` reads            | LAN ingress (`do_tproxy_lan_ingress`)                         | WAN egress TCP / UDP (`do_tproxy_wan_egress_{tcp,udp}`)            |
|----------|----------------------------|---------------------------------------------------------------|---------------------------------------------------------------------|
| `l4w`    | `flag[0]`                  | `route_flag[0] = L4ProtoType_TCP` / `_UDP` (by `pkt->l4proto`) | `scratch->flag[0] = L4ProtoType_TCP` / `L4ProtoType_UDP`            |
| `ipw`    | `flag[1]`                  | `skb->protocol == htons(ETH_P_IP) ? IpVersionType_4 : _6`      | the same test on `skb->protocol`                                    |
| `pname`  | `flag[2..5]` (16 bytes)    | left zero (`__u32 route_flag[8] = {}`)                         | `memcpy(&scratch->flag[2], pid_pname->pname, 16)` if the cookie is known, else zero (`memset`) |
| `dscpw`  | `flag[6]`                  | `pkt->tuples.dscp`                                             | `tuples->dscp`                                                      |
| `wanw`   | `flag[7]` (`is_wan`)       | left zero                                                      | `scratch->flag[7] = 1`                                              |
| `sport`, `dport` | `bpf_ntohs(l4hdr->source/dest)` | `&pkt->tcph` or `&pkt->udph` (whose ports are the tuple's)   | `tcph` / `udph`                                                     |
| `saddr`, `daddr` | 16 bytes each      | `pkt->tuples.five.sip/dip.u6_addr32`                           | `tuples->five.sip/dip.u6_addr32`                                    |
| `mac`    | 16 bytes, MAC in the last 6| `mac_be` built from `pkt->ethh.h_source` (zero on L3 links)    | `scratch->mac_be` from `ethh->h_source`: TCP only when `link_h_len == ETH_HLEN`, UDP always (`ethh` is zeroed on L3 links) |
-/
namespace DaeVerif.C03

/-- the `route()` arguments as C02's packet -/
def toPktK (i : RouteIn) : C02.PktK :=
  ⟨i.l4w, i.ipw, i.pname, i.dscp, i.isWan, i.sport, i.dport, i.saddr, i.daddr, i.mac⟩

/-- the rule program in force when the kernel maps are `m` (little-endian target) -/
def rtOf (m : C02.KMaps) : RouteIn → Int := fun i => C02.routeK .little m (toPktK i)

end DaeVerif.C03
