import DaeVerif.C03.Cgroup
import DaeVerif.C03.Props
/-!
# C03 — who is dae, who owns a flow: theorems about the cgroup programs

Helper lemmas first (namespace `DaeVerif.C03`), then the property theorems
(namespace `DaeVerif.C03.Props`).
-/
namespace DaeVerif.C03

/-! ## `realComm` refines the short specification -/

/-- `ctx.l` after walking a terminator-free word from index `i` -/
def slashPos : Bytes → Nat → Nat → Nat
  | [], _, l => l
  | c :: r, i, l => slashPos r (i + 1) (if c = 47 then i + 1 else l)

theorem commScan_word (w : Bytes) (t : Nat) (tail : Bytes) (i l : Nat)
    (hw : ∀ c ∈ w, isTerm c = false) (ht : isTerm t = true) :
    commScan (w ++ t :: tail) i l = (slashPos w i l, i + w.length) := by
  induction w generalizing i l with
  | nil => simp [commScan, slashPos, ht]
  | cons c r ih =>
    have hc := hw c (List.mem_cons_self ..)
    simp only [List.cons_append, commScan, hc, Bool.false_eq_true, if_false]
    rw [ih (i + 1) _ (fun x hx => hw x (List.mem_cons_of_mem _ hx))]
    simp only [slashPos, List.length_cons, Prod.mk.injEq, true_and]
    omega

theorem slashPos_noslash (w : Bytes) (i l : Nat) (h : w.contains 47 = false) : slashPos w i l = l := by
  induction w generalizing i l with
  | nil => rfl
  | cons c r ih =>
    simp only [List.contains_cons, Bool.or_eq_false_iff, beq_eq_false_iff_ne, ne_eq] at h
    have hc : ¬ c = 47 := fun e => h.1 e.symm
    simp only [slashPos, hc, if_false]
    exact ih _ _ h.2

theorem slashPos_slash (w : Bytes) (i l : Nat) (h : w.contains 47 = true) : i + 1 ≤ slashPos w i l := by
  induction w generalizing i l with
  | nil => simp at h
  | cons c r ih =>
    simp only [slashPos]
    by_cases hr : r.contains 47 = true
    · have := ih (i + 1) (if c = 47 then i + 1 else l) hr; omega
    · have hr' : r.contains 47 = false := by simpa using hr
      rw [slashPos_noslash r _ _ hr']
      simp only [List.contains_cons, hr', Bool.or_false, beq_iff_eq] at h
      simp [h.symm]

theorem slashPos_le (w : Bytes) (i l : Nat) (h : l ≤ i) : slashPos w i l ≤ i + w.length := by
  induction w generalizing i l with
  | nil => simpa [slashPos] using h
  | cons c r ih =>
    simp only [slashPos, List.length_cons]
    have := ih (i + 1) (if c = 47 then i + 1 else l) (by split <;> omega)
    omega

theorem drop_slashPos (w : Bytes) (i l : Nat) (h : l ≤ i) : w.drop (slashPos w i l - i) = lastSeg w := by
  induction w generalizing i l with
  | nil => simp [lastSeg]
  | cons c r ih =>
    simp only [slashPos, lastSeg]
    by_cases hr : r.contains 47 = true
    · simp only [hr, if_true]
      have h1 := slashPos_slash r (i + 1) (if c = 47 then i + 1 else l) hr
      have h2 := ih (i + 1) (if c = 47 then i + 1 else l) (by split <;> omega)
      have : slashPos r (i + 1) (if c = 47 then i + 1 else l) - i =
          (slashPos r (i + 1) (if c = 47 then i + 1 else l) - (i + 1)) + 1 := by omega
      rw [this, List.drop_succ_cons]
      exact h2
    · have hr' : r.contains 47 = false := by simpa using hr
      simp only [hr', Bool.false_eq_true, if_false]
      rw [slashPos_noslash r _ _ hr']
      by_cases hc : c = 47
      · simp [hc]
      · simp only [hc, if_false]
        have : l - i = 0 := by omega
        rw [this]; rfl

/-- the buffer after `bpf_core_read_user_str` = first word, its terminator, whatever follows -/
theorem readUserStr_split (args : Bytes) :
    ∃ t tail, isTerm t = true ∧ readUserStr args = firstWord args ++ t :: tail := by
  unfold readUserStr firstWord
  generalize args.take (MAX_ARG_LEN - 1) = a
  induction a with
  | nil => exact ⟨0, [], rfl, by simp⟩
  | cons c r ih =>
    cases hc : isTerm c with
    | true => exact ⟨c, r ++ [0], hc, by simp [List.takeWhile_cons, hc]⟩
    | false =>
      obtain ⟨t, tail, ht, he⟩ := ih
      exact ⟨t, tail, ht, by simp [List.takeWhile_cons, hc, he]⟩

theorem takeWhile_all (q : Nat → Bool) (a : Bytes) : ∀ c ∈ a.takeWhile q, q c = true := by
  induction a with
  | nil => intro c hc; simp at hc
  | cons x r ih =>
    intro c hc
    rw [List.takeWhile_cons] at hc
    cases hx : q x with
    | true =>
      simp only [hx, if_true, List.mem_cons] at hc
      rcases hc with h | h
      · rw [h]; exact hx
      · exact ih c h
    | false => simp [hx] at hc

theorem firstWord_clean (args : Bytes) : ∀ c ∈ firstWord args, isTerm c = false := by
  intro c hc
  unfold firstWord at hc
  have := takeWhile_all _ _ c hc
  simpa using this

/-- **the process name the kernel stores = base name of the first word of the command line**,
cut to `TASK_COMM_LEN` bytes (no terminating NUL when the base name has 16 bytes or more) -/
theorem realComm_eq_spec (args : Bytes) : realComm args = commSpec args := by
  obtain ⟨t, tail, ht, he⟩ := readUserStr_split args
  unfold realComm commSpec
  simp only [he]
  rw [commScan_word _ t tail 0 0 (firstWord_clean args) ht]
  simp only [Nat.zero_add, List.take_left']
  have := drop_slashPos (firstWord args) 0 0 (Nat.le_refl _)
  simp only [Nat.sub_zero] at this
  rw [this]

/-! ## what the registering programs do to `cookie_pid_map` -/

/-- identity part of an entry: pid and name (everything but the refresh timestamp) -/
def PidPname.ident (p : PidPname) : Nat × Bytes := (p.pid, p.pname)

/-- who owns cookie `c` according to the map -/
def ownerOf (w : World) (c : Nat) : Option (Nat × Bytes) := (alookup w.cookies c).map PidPname.ident

theorem cgUpdate_other (cap : Nat) (w : World) (cookie c' : Nat) (t : CgTask) (h : c' ≠ cookie) :
    alookup (cgUpdate cap w cookie t).cookies c' = alookup w.cookies c' := by
  have hin : alookup (cgInner cap w cookie t).1 c' = alookup w.cookies c' := by
    unfold cgInner
    split
    · rfl
    · split
      · exact alookup_areplace_ne _ _ _ _ h
      · split
        · rfl
        · split
          · rename_i m hm; exact aupdate_lookup_ne _ _ _ _ _ _ hm h
          · rfl
  unfold cgUpdate
  simp only
  split
  · split
    · rename_i m hm
      show alookup m c' = _
      rw [aupdate_lookup_ne _ _ _ _ _ _ hm h, hin]
    · exact hin
  · exact hin

/-- the registering programs touch nothing but `cookie_pid_map` -/
theorem cgUpdate_frame (cap : Nat) (w : World) (cookie : Nat) (t : CgTask) :
    (cgUpdate cap w cookie t).conn = w.conn ∧ (cgUpdate cap w cookie t).rest = w.rest ∧
    (cgUpdate cap w cookie t).events = w.events := by
  unfold cgUpdate
  simp only
  split
  · split <;> exact ⟨rfl, rfl, rfl⟩
  · exact ⟨rfl, rfl, rfl⟩

theorem cgUpdate_known (cap : Nat) (w : World) (cookie : Nat) (t : CgTask) (pp : PidPname)
    (h0 : cookie ≠ 0) (h : alookup w.cookies cookie = some pp) :
    alookup (cgUpdate cap w cookie t).cookies cookie = some { pp with lastSeen := w.now } := by
  unfold cgUpdate cgInner
  simp only [h0, if_false, h, Bool.false_eq_true]
  exact alookup_areplace_self _ _ _ _ h

theorem cgUpdate_new (cap : Nat) (w : World) (cookie : Nat) (t : CgTask) (v : PidPname)
    (h0 : cookie ≠ 0) (h : alookup w.cookies cookie = none) (hr : w.cookies.length < cap)
    (hv : getPidPname w.now t = some v) :
    alookup (cgUpdate cap w cookie t).cookies cookie = some v := by
  unfold cgUpdate cgInner
  simp only [h0, if_false, h, hv, aupdate_room cap _ _ _ h hr, Bool.false_eq_true]
  rw [alookup_append, h]; simp

theorem cgUpdate_unreadable (cap : Nat) (w : World) (cookie : Nat) (t : CgTask)
    (h0 : cookie ≠ 0) (h : alookup w.cookies cookie = none) (hr : w.cookies.length < cap)
    (hv : getPidPname w.now t = none) :
    alookup (cgUpdate cap w cookie t).cookies cookie = some ⟨w.now, t.tgid, zeros TASK_COMM_LEN⟩ := by
  unfold cgUpdate cgInner
  simp only [h0, if_false, h, hv, if_true, aupdate_room cap _ _ _ h hr]
  rw [alookup_append, h]; simp

theorem getPidPname_pid (now : Nat) (t : CgTask) (v : PidPname) (h : getPidPname now t = some v) :
    v.pid = t.tgid ∧ v.lastSeen = now := by
  unfold getPidPname at h
  split at h
  · injection h with h; subst h; exact ⟨rfl, rfl⟩
  · split at h
    · cases h
    · injection h with h; subst h; exact ⟨rfl, rfl⟩

/-! ## the TC hooks never change who owns a cookie -/

theorem ownerOf_areplace_lastSeen (m : List (Nat × PidPname)) (c c' : Nat) (pp : PidPname) (t : Nat)
    (h : alookup m c = some pp) :
    (alookup (areplace m c { pp with lastSeen := t }) c').map PidPname.ident = (alookup m c').map PidPname.ident := by
  by_cases hc : c' = c
  · subst hc
    rw [alookup_areplace_self _ _ _ _ h, h]; rfl
  · rw [alookup_areplace_ne _ _ _ _ hc]

theorem pidIsControlPlane_owner (w : World) (s : Skb) (c : Nat) :
    ownerOf (pidIsControlPlane w s).w c = ownerOf w c := by
  unfold pidIsControlPlane ownerOf
  split
  · rename_i pp h
    exact ownerOf_areplace_lastSeen _ _ _ _ _ h
  · rfl

@[simp] theorem createConn_cookies (w : World) (k : Key) (ns : ConnState) (udp : Bool) (pid : Nat) :
    (createConn w k ns udp pid).1.cookies = w.cookies := by
  unfold createConn; split
  · rfl
  · split <;> rfl

@[simp] theorem markUdpSeen_cookies (w : World) (k : Key) (wd : Bool) (a : CtArgs) :
    (markUdpSeen w k wd a).1.cookies = w.cookies := by
  unfold markUdpSeen; split
  · rfl
  · exact createConn_cookies _ _ _ _ _

@[simp] theorem markTcpSeen_cookies (w : World) (k : Key) (wd ns fr : Bool) (a : CtArgs) :
    (markTcpSeen w k wd ns fr a).1.cookies = w.cookies := by
  unfold markTcpSeen; split
  · rfl
  · split
    · exact createConn_cookies _ _ _ _ _
    · rfl

@[simp] theorem prepRedirect_cookies (w : World) (s : Skb) (l2 : Bool) (p : Pkt) (fw : Bool) :
    (prepRedirect w s l2 p fw).w.cookies = w.cookies := by
  unfold prepRedirect; simp only; split <;> rfl

@[simp] theorem publishHandoff_cookies (w : World) (k : Key) (r : RResult) :
    (publishHandoff w k r).1.cookies = w.cookies := by
  unfold publishHandoff; split <;> rfl

@[simp] theorem redirectLan_cookies (w : World) (s : Skb) (l2 : Bool) (p : Pkt) (ob mk mu d : Nat) :
    (redirectLan w s l2 p ob mk mu d).1.cookies = w.cookies := by
  unfold redirectLan; leaves <;> simp

@[simp] theorem lanVerdict_cookies (w : World) (s : Skb) (l2 : Bool) (p : Pkt) (ob mk mu d : Nat) (e : Bool) :
    (lanVerdict w s l2 p ob mk mu d e).1.cookies = w.cookies := by
  unfold lanVerdict; leaves <;> first | rfl | simp

@[simp] theorem wanVerdict_cookies (w : World) (s : Skb) (l2 : Bool) (p : Pkt) (t : Bool) (ob mk mu : Nat)
    (mac pn : Bytes) (pid : Nat) (m : Bool) :
    (wanVerdict w s l2 p t ob mk mu mac pn pid m).1.cookies = w.cookies := by
  unfold wanVerdict; leaves <;> first | rfl | simp

@[simp] theorem setConn_cookies (w : World) (k : Key) (cs : ConnState) : (setConn w k cs).cookies = w.cookies := rfl

@[simp] theorem lanCache_cookies (w : World) (p : Pkt) (st : Option ConnState) (d : Dec) :
    (lanCache w p st d).cookies = w.cookies := by
  unfold lanCache; leaves <;> rfl

@[simp] theorem wanUdpCache_cookies (w : World) (p : Pkt) (st : Option ConnState) (c : Bool) (pp : Option PidPname)
    (d : Dec) (mac hp : Bytes) : (wanUdpCache w p st c pp d mac hp).1.cookies = w.cookies := by
  unfold wanUdpCache; leaves <;> rfl

@[simp] theorem lanRouteNew_cookies (rt : RouteIn → Int) (w : World) (s : Skb) (l2 : Bool) (p : Pkt)
    (st : Option ConnState) : (lanRouteNew rt w s l2 p st).1.cookies = w.cookies := by
  unfold lanRouteNew; leaves <;> simp

theorem lanIngress_cookies (rt : RouteIn → Int) (w : World) (s : Skb) (l2 : Bool) :
    (lanIngress rt w s l2).1.cookies = w.cookies := by
  unfold lanIngress
  split
  · rfl
  · rfl
  · unfold lanIngressPkt lanTcpEstablished lanUdp
    leaves <;> simp

@[simp] theorem wanUdpRouted_cookies (rt : RouteIn → Int) (w : World) (s : Skb) (l2 : Bool) (p : Pkt)
    (pp : Option PidPname) (st : Option ConnState) : (wanUdpRouted rt w s l2 p pp st).1.cookies = w.cookies := by
  unfold wanUdpRouted; leaves <;> simp

theorem reverseRefresh_cookies (w : World) (c : Ctx) : (reverseRefresh w c).cookies = w.cookies := by
  unfold reverseRefresh; leaves <;> first | rfl | simp

@[simp] theorem createConn_param (w : World) (k : Key) (ns : ConnState) (udp : Bool) (pid : Nat) :
    (createConn w k ns udp pid).1.param = w.param := by
  unfold createConn; split
  · rfl
  · split <;> rfl

@[simp] theorem markUdpSeen_param (w : World) (k : Key) (wd : Bool) (a : CtArgs) :
    (markUdpSeen w k wd a).1.param = w.param := by
  unfold markUdpSeen; split
  · rfl
  · exact createConn_param _ _ _ _ _

@[simp] theorem markTcpSeen_param (w : World) (k : Key) (wd ns fr : Bool) (a : CtArgs) :
    (markTcpSeen w k wd ns fr a).1.param = w.param := by
  unfold markTcpSeen; split
  · rfl
  · split
    · exact createConn_param _ _ _ _ _
    · rfl

@[simp] theorem prepRedirect_param (w : World) (s : Skb) (l2 : Bool) (p : Pkt) (fw : Bool) :
    (prepRedirect w s l2 p fw).w.param = w.param := by
  unfold prepRedirect; simp only; split <;> rfl

@[simp] theorem publishHandoff_param (w : World) (k : Key) (r : RResult) :
    (publishHandoff w k r).1.param = w.param := by
  unfold publishHandoff; split <;> rfl

@[simp] theorem redirectLan_param (w : World) (s : Skb) (l2 : Bool) (p : Pkt) (ob mk mu d : Nat) :
    (redirectLan w s l2 p ob mk mu d).1.param = w.param := by
  unfold redirectLan; leaves <;> simp

@[simp] theorem lanVerdict_param (w : World) (s : Skb) (l2 : Bool) (p : Pkt) (ob mk mu d : Nat) (e : Bool) :
    (lanVerdict w s l2 p ob mk mu d e).1.param = w.param := by
  unfold lanVerdict; leaves <;> first | rfl | simp

@[simp] theorem wanVerdict_param (w : World) (s : Skb) (l2 : Bool) (p : Pkt) (t : Bool) (ob mk mu : Nat)
    (mac pn : Bytes) (pid : Nat) (m : Bool) :
    (wanVerdict w s l2 p t ob mk mu mac pn pid m).1.param = w.param := by
  unfold wanVerdict; leaves <;> first | rfl | simp

@[simp] theorem setConn_param (w : World) (k : Key) (cs : ConnState) : (setConn w k cs).param = w.param := rfl

@[simp] theorem lanCache_param (w : World) (p : Pkt) (st : Option ConnState) (d : Dec) :
    (lanCache w p st d).param = w.param := by
  unfold lanCache; leaves <;> rfl

@[simp] theorem wanUdpCache_param (w : World) (p : Pkt) (st : Option ConnState) (c : Bool) (pp : Option PidPname)
    (d : Dec) (mac hp : Bytes) : (wanUdpCache w p st c pp d mac hp).1.param = w.param := by
  unfold wanUdpCache; leaves <;> rfl

@[simp] theorem lanRouteNew_param (rt : RouteIn → Int) (w : World) (s : Skb) (l2 : Bool) (p : Pkt)
    (st : Option ConnState) : (lanRouteNew rt w s l2 p st).1.param = w.param := by
  unfold lanRouteNew; leaves <;> simp

theorem lanIngress_param (rt : RouteIn → Int) (w : World) (s : Skb) (l2 : Bool) :
    (lanIngress rt w s l2).1.param = w.param := by
  unfold lanIngress
  split
  · rfl
  · rfl
  · unfold lanIngressPkt lanTcpEstablished lanUdp
    leaves <;> simp

@[simp] theorem wanUdpRouted_param (rt : RouteIn → Int) (w : World) (s : Skb) (l2 : Bool) (p : Pkt)
    (pp : Option PidPname) (st : Option ConnState) : (wanUdpRouted rt w s l2 p pp st).1.param = w.param := by
  unfold wanUdpRouted; leaves <;> simp

theorem reverseRefresh_param (w : World) (c : Ctx) : (reverseRefresh w c).param = w.param := by
  unfold reverseRefresh; leaves <;> first | rfl | simp

@[simp] theorem pidIsControlPlane_param (w : World) (s : Skb) : (pidIsControlPlane w s).w.param = w.param := by
  unfold pidIsControlPlane; split <;> rfl

theorem step_param (rt : RouteIn → Int) (w : World) (h : Hook) (s : Skb) (l2 : Bool) :
    (step rt w h s l2).1.param = w.param := by
  cases h with
  | lanIngress => exact lanIngress_param rt w s l2
  | wanIngress =>
    show (wanIngress w s l2).1.param = _
    unfold wanIngress; leaves <;> first | rfl | rw [reverseRefresh_param]
  | lanEgress =>
    show (lanEgress w s l2).1.param = _
    unfold lanEgress; leaves <;> first | rfl | rw [reverseRefresh_param]
  | wanEgress =>
    show (wanEgress rt w s l2).1.param = _
    unfold wanEgress wanEgressTcp wanEgressUdp wanTcpSyn wanTcpEstablished
    leaves <;> first | rfl | (simp; done)

/-- every TC hook leaves pid and name of every cookie alone (only `last_seen_ns` is refreshed) -/
theorem step_owner (rt : RouteIn → Int) (w : World) (h : Hook) (s : Skb) (l2 : Bool) (c : Nat) :
    ownerOf (step rt w h s l2).1 c = ownerOf w c := by
  have hcp := pidIsControlPlane_owner w s c
  unfold ownerOf at hcp ⊢
  cases h with
  | lanIngress => show Option.map _ (alookup (lanIngress rt w s l2).1.cookies c) = _; rw [lanIngress_cookies]
  | wanIngress =>
    show Option.map _ (alookup (wanIngress w s l2).1.cookies c) = _
    unfold wanIngress; leaves <;> first | rfl | rw [reverseRefresh_cookies]
  | lanEgress =>
    show Option.map _ (alookup (lanEgress w s l2).1.cookies c) = _
    unfold lanEgress; leaves <;> first | rfl | rw [reverseRefresh_cookies]
  | wanEgress =>
    show Option.map _ (alookup (wanEgress rt w s l2).1.cookies c) = _
    unfold wanEgress wanEgressTcp wanEgressUdp wanTcpSyn wanTcpEstablished
    leaves <;> first | rfl | exact hcp | (simp; done) | (simp; exact hcp)

end DaeVerif.C03

namespace DaeVerif.C03.Props
open DaeVerif.C03

/-! ## Who owns a socket: the cgroup programs -/

/-- **The stored process name is the base name of the command.**  `get_pid_pname` (scan callback +
copy loop) on the command line found at `mm->arg_start` yields: the first word (up to the first space
/ NUL, at most 127 bytes are read), its part behind the last `'/'`, cut to 16 bytes, zero padded —
for EVERY byte string. -/
theorem process_name_is_basename_of_command (args : Bytes) : realComm args = commSpec args :=
  realComm_eq_spec args

-- "/usr/lib/x/sddm-helper --socket /tmp/x" ⇒ "sddm-helper"
example : realComm [47, 117, 115, 114, 47, 108, 105, 98, 47, 120, 47, 115, 100, 100, 109, 45, 104, 101, 108, 112, 101, 114, 32,
    45, 45, 115, 111, 99, 107, 101, 116, 32, 47, 116, 109, 112, 47, 120] =
    [115, 100, 100, 109, 45, 104, 101, 108, 112, 101, 114, 0, 0, 0, 0, 0] := by decide
-- a base name of 19 bytes is cut to 16 bytes WITHOUT a terminating NUL
example : realComm [47, 111, 47, 48, 49, 50, 51, 52, 53, 54, 55, 56, 57, 97, 98, 99, 100, 101, 102, 88, 89, 90] =
    [48, 49, 50, 51, 52, 53, 54, 55, 56, 57, 97, 98, 99, 100, 101, 102] := by decide
-- a first word ending in '/' gives the empty name
example : realComm [100, 105, 114, 47, 32, 120] = zeros 16 := by decide

/-- **A registering program (`sock_create`, `connect4/6`, `sendmsg4/6`) records the calling process**
under a socket cookie that is not known yet (cookie ≠ 0, room in `cookie_pid_map`, the process
information is readable): pid = the caller's tgid, name = base name of its command (kernel with
`bpf_get_current_task`) or its `comm`; the timestamp is now; no other cookie and nothing else in the
world changes. -/
theorem cgroup_hook_registers_the_process (cap : Nat) (w : World) (cookie : Nat) (t : CgTask)
    (h0 : cookie ≠ 0) (h : alookup w.cookies cookie = none) (hr : w.cookies.length < cap)
    (hread : t.hasTask = true → t.args.isSome) :
    alookup (cgUpdate cap w cookie t).cookies cookie =
      some ⟨w.now, t.tgid,
        if t.hasTask then commSpec (t.args.getD []) else
          match t.comm with | some c => comm16 c | none => zeros TASK_COMM_LEN⟩ ∧
    (∀ c', c' ≠ cookie → alookup (cgUpdate cap w cookie t).cookies c' = alookup w.cookies c') ∧
    (cgUpdate cap w cookie t).conn = w.conn ∧ (cgUpdate cap w cookie t).rest = w.rest := by
  refine ⟨?_, fun c' hc => cgUpdate_other cap w cookie c' t hc, (cgUpdate_frame cap w cookie t).1,
    (cgUpdate_frame cap w cookie t).2.1⟩
  apply cgUpdate_new cap w cookie t _ h0 h hr
  unfold getPidPname
  cases ht : t.hasTask with
  | false => cases hc : t.comm <;> simp
  | true =>
    have := hread ht
    cases ha : t.args with
    | none => rw [ha] at this; cases this
    | some a => simp [realComm_eq_spec]

/-- **The first registration wins**: for a cookie that is already known every registering program only
refreshes `last_seen_ns` — pid and name stay those of the process that registered the socket first (a
socket handed to another process keeps its creator's identity). -/
theorem cgroup_hook_keeps_first_owner (cap : Nat) (w : World) (cookie : Nat) (t : CgTask) (pp : PidPname)
    (h0 : cookie ≠ 0) (h : alookup w.cookies cookie = some pp) :
    alookup (cgUpdate cap w cookie t).cookies cookie = some { pp with lastSeen := w.now } ∧
    ownerOf (cgUpdate cap w cookie t) cookie = ownerOf w cookie := by
  have h1 := cgUpdate_known cap w cookie t pp h0 h
  refine ⟨h1, ?_⟩
  unfold ownerOf; rw [h1, h]; rfl

/-- **When the process information cannot be read the pid is recorded all the same** ("only write pid
to avoid loop due to packets sent by dae"): the entry carries the caller's tgid and an empty name. -/
theorem cgroup_hook_failure_still_records_pid (cap : Nat) (w : World) (cookie : Nat) (t : CgTask)
    (h0 : cookie ≠ 0) (h : alookup w.cookies cookie = none) (hr : w.cookies.length < cap)
    (ht : t.hasTask = true) (ha : t.args = none) :
    alookup (cgUpdate cap w cookie t).cookies cookie = some ⟨w.now, t.tgid, zeros TASK_COMM_LEN⟩ := by
  apply cgUpdate_unreadable cap w cookie t h0 h hr
  unfold getPidPname; simp [ht, ha]

/-- **`sock_release` forgets the socket** and nothing else. -/
theorem sock_release_forgets_the_socket (w : World) (cookie : Nat) (h0 : cookie ≠ 0) :
    alookup (cgRelease w cookie).cookies cookie = none ∧
    (∀ c', c' ≠ cookie → alookup (cgRelease w cookie).cookies c' = alookup w.cookies c') ∧
    (cgRelease w cookie).conn = w.conn ∧ (cgRelease w cookie).rest = w.rest := by
  have : cgRelease w cookie = { w with cookies := aerase w.cookies cookie } := by
    unfold cgRelease; simp [h0]
  rw [this]
  exact ⟨alookup_aerase_self _ _, fun c' hc => alookup_aerase_ne _ _ _ hc, rfl, rfl⟩

/-- the control plane keeps the owner of cookie `c` and `control_plane_pid` as they are between frames -/
def EnvOwnerOk (c : Nat) (e : Event) : Prop :=
  ∀ w, ownerOf (e.env w) c = ownerOf w c ∧ (e.env w).param.ctlPid = w.param.ctlPid

/-- every skb carrying cookie `c` is recognised as dae's at every frame of the run -/
def RecognisedAlong (c : Nat) : World → List Event → Prop
  | _, [] => True
  | w, e :: es =>
    (∀ s : Skb, s.cookie = c → (pidIsControlPlane (e.pre w) s).isCp = true) ∧ RecognisedAlong c (e.apply w).1 es

/-- no skb carrying cookie `c` is recognised as dae's at any frame of the run, whatever its mark -/
def NeverRecognisedAlong (c : Nat) : World → List Event → Prop
  | _, [] => True
  | w, e :: es =>
    (∀ s : Skb, s.cookie = c → (pidIsControlPlane (e.pre w) s).isCp = false) ∧
      NeverRecognisedAlong c (e.apply w).1 es

theorem isCp_of_owner (w : World) (s : Skb) (pid : Nat) (n : Bytes) (h : ownerOf w s.cookie = some (pid, n)) :
    (pidIsControlPlane w s).isCp = (w.param.ctlPid != 0 && pid == w.param.ctlPid) := by
  rw [dae_recognition]
  unfold ownerOf at h
  cases hl : alookup w.cookies s.cookie with
  | none => rw [hl] at h; cases h
  | some pp =>
    rw [hl] at h
    simp only [Option.map_some, PidPname.ident, Option.some.injEq, Prod.mk.injEq] at h
    simp [h.1]

/-- **The TC hooks never change who owns a socket**: along any run (frames of any flows on any hooks,
the control plane in between leaving this cookie's owner alone) pid and name stored for cookie `c` are
those registered — only `last_seen_ns` moves. -/
theorem tc_hooks_never_change_socket_ownership (c : Nat) :
    ∀ (evs : List Event) (w : World), (∀ e ∈ evs, EnvOwnerOk c e) → ownerOf (run w evs) c = ownerOf w c := by
  intro evs
  induction evs with
  | nil => intro w _; rfl
  | cons e es ih =>
    intro w henv
    show ownerOf (run (e.apply w).1 es) c = _
    rw [ih _ (fun e' he' => henv e' (List.mem_cons_of_mem _ he'))]
    unfold Event.apply Event.pre
    rw [step_owner, (henv e (List.mem_cons_self ..) w).1]

/-- **dae's sockets are recognised for as long as they live.**  Once a socket cookie is registered to
dae's own process (pid = `control_plane_pid` ≠ 0) EVERY frame carrying that cookie is recognised as
dae's at every later point of any run — whatever its mark, whatever happened to other flows, rules,
connectivity or the clock in between.  (With `dae_udp_never_captured` / `dae_tcp_syn_passes_and_clears`
/ `dae_connection_never_recaptured`: such frames pass untouched.) -/
theorem registered_dae_socket_is_always_recognised (c : Nat) (n : Bytes) :
    ∀ (evs : List Event) (w : World), (∀ e ∈ evs, EnvOwnerOk c e) → w.param.ctlPid ≠ 0 →
      ownerOf w c = some (w.param.ctlPid, n) → RecognisedAlong c w evs := by
  intro evs
  induction evs with
  | nil => intro w _ _ _; trivial
  | cons e es ih =>
    intro w henv h0 ho
    obtain ⟨he1, he2⟩ := henv e (List.mem_cons_self ..) w
    have hpre : ownerOf (e.pre w) c = some ((e.pre w).param.ctlPid, n) := by
      unfold Event.pre; rw [he1, he2]; exact ho
    have h0' : (e.pre w).param.ctlPid ≠ 0 := by unfold Event.pre; rw [he2]; exact h0
    refine ⟨?_, ?_⟩
    · intro s hs
      subst hs
      rw [isCp_of_owner _ s _ n hpre]
      simp [h0']
    · apply ih _ (fun e' he' => henv e' (List.mem_cons_of_mem _ he'))
      · unfold Event.apply
        rw [step_param]; exact h0'
      · unfold Event.apply
        rw [step_owner, step_param]
        exact hpre

/-- **A registered socket of another process can never pass as dae's**: when the cookie is known and
its pid is not `control_plane_pid`, neither dae's socket mark nor mark bit `0x100` on the skb makes
the WAN hook treat the frame as dae's — at any point of any run. -/
theorem registered_foreign_socket_is_never_recognised (c pid : Nat) (n : Bytes) :
    ∀ (evs : List Event) (w : World), (∀ e ∈ evs, EnvOwnerOk c e) → pid ≠ w.param.ctlPid →
      ownerOf w c = some (pid, n) → NeverRecognisedAlong c w evs := by
  intro evs
  induction evs with
  | nil => intro w _ _ _; trivial
  | cons e es ih =>
    intro w henv hne ho
    obtain ⟨he1, he2⟩ := henv e (List.mem_cons_self ..) w
    have hpre : ownerOf (e.pre w) c = some (pid, n) := by unfold Event.pre; rw [he1]; exact ho
    have hne' : pid ≠ (e.pre w).param.ctlPid := by unfold Event.pre; rw [he2]; exact hne
    refine ⟨?_, ?_⟩
    · intro s hs
      subst hs
      rw [isCp_of_owner _ s _ n hpre]
      simp [hne']
    · apply ih _ (fun e' he' => henv e' (List.mem_cons_of_mem _ he'))
      · unfold Event.apply
        rw [step_param]; exact hne'
      · unfold Event.apply
        rw [step_owner]; exact hpre

/-- **From the socket's creation to the record.**  A process (not dae) creates a socket — the cgroup
program registers it — and opens a TCP connection through it: the SYN is routed with THAT process's
name, and unless the decision is plain direct the record the control plane retrieves carries exactly
that name and pid (tgid) together with the decision. -/
theorem record_names_the_process_that_owns_the_socket (rt : RouteIn → Int) (cap : Nat) (w : World) (t : CgTask)
    (s : Skb) (l2 : Bool) (p : Pkt) (a : Bytes)
    (h0 : s.cookie ≠ 0) (hnew : alookup w.cookies s.cookie = none) (hroom : w.cookies.length < cap)
    (hta : t.hasTask = true) (hargs : t.args = some a) (hnd : t.tgid ≠ w.param.ctlPid)
    (hi : s.ingressIf = 0) (hp : parsePacket s.raw l2 = .pkt p) (ht : p.l4proto = IPPROTO_TCP)
    (hs : p.syn = true) (ha : p.ack = false)
    (hr : 0 ≤ rt (wanRouteIn s p true (commSpec a) (if l2 then p.ethSrc else zeros 6)))
    (hc : connRoom w p.tuples.five) (hrt : rtrackRoom w s p) :
    let w1 := cgUpdate cap w s.cookie t
    let d := unpackRoute (rt (wanRouteIn s p true (commSpec a) (if l2 then p.ethSrc else zeros 6)))
    (wanEgress rt w1 s l2).2.realises w1 s false (wanFate w1 s p d) ∧
    (¬ (d.ob = OUTBOUND_DIRECT ∧ d.mark = 0 ∧ d.must = 0) →
      ∀ tm, retrieve (wanEgress rt w1 s l2).1 p.tuples.five tm =
        some ⟨d.mark, d.must, if l2 then p.ethSrc else zeros 6, d.ob, commSpec a, t.tgid, p.tuples.dscp⟩) := by
  intro w1 d
  have hreg := (cgroup_hook_registers_the_process cap w s.cookie t h0 hnew hroom (fun _ => by simp [hargs])).1
  simp only [hta, if_true, hargs, Option.getD_some] at hreg
  have hfr := cgUpdate_frame cap w s.cookie t
  have hpp : (pidIsControlPlane w1 s).pp = some ⟨w1.now, t.tgid, commSpec a⟩ := by
    unfold pidIsControlPlane
    show (match alookup w1.cookies s.cookie with | some pp => _ | none => _ : CpR).pp = _
    rw [show alookup w1.cookies s.cookie = _ from hreg]
  have hcp : (pidIsControlPlane w1 s).isCp = false := by
    rw [isCp_of_owner w1 s t.tgid (commSpec a) (by unfold ownerOf; rw [show alookup w1.cookies s.cookie = _ from hreg]; rfl)]
    have : w1.param = w.param := rest_param hfr.2.1
    rw [this]; simp [hnd]
  have hn : ppName (pidIsControlPlane w1 s).pp = commSpec a := by rw [hpp]; rfl
  have hpid : ppPid (pidIsControlPlane w1 s).pp = t.tgid := by rw [hpp]; rfl
  have hc1 : connRoom w1 p.tuples.five := (connRoom_congr hfr.1 hfr.2.1 _).mpr hc
  have hrt1 : rtrackRoom w1 s p := (rtrackRoom_congr hfr.2.1 s p).mpr hrt
  have := wan_new_tcp_connection rt w1 s l2 p hi hp ht hs ha hcp (by rw [hn]; exact hr) hc1 hrt1
  simp only [hn, hpid] at this
  exact this

/-! ## Non-vacuity: concrete states satisfying the hypotheses above -/

/-- curl (tgid 4321, command line "/usr/bin/curl -v") on a kernel with `bpf_get_current_task` -/
def exCurl : CgTask := ⟨4321, some [99,117,114,108], some [47,117,115,114,47,98,105,110,47,99,117,114,108,32,45,118], true⟩
/-- dae itself (tgid 777) -/
def exDaeTask : CgTask := ⟨777, none, some [100,97,101], true⟩
/-- dae is pid 777; cookie 9 belongs to sshd (pid 22) -/
def exCgWorld : World := { exWorld with cookies := [(9, ⟨5, 22, zeros 16⟩)], param := { ctlPid := 777 } }

-- `cgroup_hook_registers_the_process`: cookie 5 is new, the map has room, the command line is readable;
-- the entry then names "curl" / 4321
example : (5 : Nat) ≠ 0 ∧ alookup exCgWorld.cookies 5 = none ∧ exCgWorld.cookies.length < COOKIE_PID_MAX ∧
    (exCurl.hasTask = true → exCurl.args.isSome) ∧
    alookup (cgUpdate COOKIE_PID_MAX exCgWorld 5 exCurl).cookies 5 =
      some ⟨1000000000, 4321, [99,117,114,108,0,0,0,0,0,0,0,0,0,0,0,0]⟩ := by
  refine ⟨by decide, by decide, by decide, fun _ => rfl, by decide⟩

-- `cgroup_hook_keeps_first_owner`: curl calls connect() on sshd's socket (cookie 9): still sshd's
example : alookup exCgWorld.cookies 9 = some ⟨5, 22, zeros 16⟩ ∧
    ownerOf (cgUpdate COOKIE_PID_MAX exCgWorld 9 exCurl) 9 = some (22, zeros 16) := by
  refine ⟨by decide, by decide⟩

-- `cgroup_hook_failure_still_records_pid`: the command line cannot be read
example : alookup (cgUpdate COOKIE_PID_MAX exCgWorld 5 { exCurl with args := none }).cookies 5 =
    some ⟨1000000000, 4321, zeros 16⟩ := by decide

-- a full map: neither the entry nor the pid-only fallback can be stored; the cookie stays unknown
example : alookup (cgUpdate 1 exCgWorld 5 exCurl).cookies 5 = none := by decide

-- `registered_dae_socket_is_always_recognised`: dae registers cookie 5, then a run of two frames with a
-- rule swap and a clock jump in between: dae's SYN (mark 0!) is recognised at both points
example : let w := cgUpdate COOKIE_PID_MAX exCgWorld 5 exDaeTask
    w.param.ctlPid ≠ 0 ∧ ownerOf w 5 = some (w.param.ctlPid, [100,97,101,0,0,0,0,0,0,0,0,0,0,0,0,0]) ∧
    EnvOwnerOk 5 ⟨fun _ => 0, fun w => { w with now := w.now + 5000000000 }, .wanEgress, exSynWan, true⟩ ∧
    RecognisedAlong 5 w [⟨fun _ => 2, id, .lanIngress, exAck, true⟩,
      ⟨fun _ => 0, fun w => { w with now := w.now + 5000000000 }, .wanEgress, exSynWan, true⟩] := by
  intro w
  refine ⟨by decide, by decide, fun _ => ⟨rfl, rfl⟩, ?_⟩
  exact registered_dae_socket_is_always_recognised 5 [100,97,101,0,0,0,0,0,0,0,0,0,0,0,0,0] _ w
    (fun e he => by
      simp only [List.mem_cons, List.mem_nil_iff, or_false] at he
      rcases he with h | h <;> subst h <;> exact fun _ => ⟨rfl, rfl⟩)
    (by decide) (by decide)

-- `registered_foreign_socket_is_never_recognised`: sshd's socket (cookie 9) with dae's mark bit 0x100 set
example : (22 : Nat) ≠ exCgWorld.param.ctlPid ∧ ownerOf exCgWorld 9 = some (22, zeros 16) ∧
    (pidIsControlPlane exCgWorld { exSynWan with cookie := 9, mark := 0x100 }).isCp = false ∧
    (pidIsControlPlane exCgWorld { exSynWan with cookie := 99, mark := 0x100 }).isCp = true := by
  refine ⟨by decide, by decide, by decide, by decide⟩

-- `record_names_the_process_that_owns_the_socket`: curl's SYN through cookie 5 under "group 2"
example : exSynWan.cookie ≠ 0 ∧ alookup exCgWorld.cookies exSynWan.cookie = none ∧
    exCurl.tgid ≠ exCgWorld.param.ctlPid ∧ parsePacket exSynWan.raw true = .pkt exSynPkt ∧
    connRoom exCgWorld exSynPkt.tuples.five ∧ rtrackRoom exCgWorld exSynWan exSynPkt ∧
    retrieve (wanEgress (fun _ => 2) (cgUpdate COOKIE_PID_MAX exCgWorld 5 exCurl) exSynWan true).1 exK 0 =
      some ⟨0, 0, [2,0,0,0,0,1], 2, [99,117,114,108,0,0,0,0,0,0,0,0,0,0,0,0], 4321, 0⟩ := by
  refine ⟨by decide, by decide, by decide, by decide, by unfold connRoom; decide, Or.inr (by decide), by decide⟩

end DaeVerif.C03.Props
