import DaeVerif.C03.PropsFrame
import DaeVerif.C03.Runs
/-!
# C03 — one step of a run preserves the flow invariants (helper lemmas)
-/
namespace DaeVerif.C03

theorem frameKey_capture {h : Hook} {s : Skb} {l2 : Bool} {k : Key} (hh : h = .lanIngress ∨ h = .wanEgress)
    (hk : frameKey h s l2 = some k) : ∃ p, parsePacket s.raw l2 = .pkt p ∧ p.tuples.five = k := by
  rcases hh with rfl | rfl <;>
  · simp only [frameKey] at hk
    cases hp : parsePacket s.raw l2 with
    | shot => simp [hp] at hk
    | pass => simp [hp] at hk
    | pkt p => simp only [hp, Option.some.injEq] at hk; exact ⟨p, rfl, hk⟩

theorem frameKey_reverse {h : Hook} {s : Skb} {l2 : Bool} {k : Key} (hh : h = .wanIngress ∨ h = .lanEgress)
    (hk : frameKey h s l2 = some k) : ∃ code c, parseTransport s.raw l2 = .ret code c ∧ (getTuples c).five.rev = k := by
  rcases hh with rfl | rfl <;>
  · simp only [frameKey] at hk
    cases hp : parseTransport s.raw l2 with
    | fallback => simp [hp] at hk
    | efault => simp [hp] at hk
    | ret code c => simp only [hp, Option.some.injEq] at hk; exact ⟨code, c, rfl, hk⟩

theorem tcpLive_of (w : World) (k : Key) (cs : ConnState) (hl : alookup w.conn k = some cs)
    (h4 : k.l4 = IPPROTO_TCP) (he : expiredAt w k = false) : tcpLive w k false = some cs := by
  unfold expiredAt at he
  simp only [hl, h4, if_true] at he
  unfold tcpLive
  simp only [hl, Bool.false_eq_true, if_false, he]

theorem udpLive_of (w : World) (k : Key) (cs : ConnState) (hl : alookup w.conn k = some cs)
    (h4 : k.l4 ≠ IPPROTO_TCP) (he : expiredAt w k = false) : udpLive w k = some cs := by
  unfold expiredAt at he
  simp only [hl, h4, if_false] at he
  unfold udpLive
  simp only [hl, he, Bool.false_eq_true, if_false]

theorem rev_l4 (k : Key) : k.rev.l4 = k.l4 := rfl

/-- reverse-direction refresh keeps the decision of a live entry -/
theorem reverseRefresh_tracked (w : World) (c : Ctx) (k : Key) (d : Dec) (hk : (getTuples c).five.rev = k)
    (hns : (c.tcpSyn && !c.tcpAck) = false) (he : expiredAt w k = false) (ht : Tracked w k d) :
    Tracked (reverseRefresh w c) k d := by
  obtain ⟨cs, hl, hr, hw, hd⟩ := ht
  have hl4 : k.l4 = c.l4proto := by rw [← hk, rev_l4, getTuples_l4]
  unfold reverseRefresh
  by_cases htcp : c.l4proto = IPPROTO_TCP
  · simp only [htcp, if_true, hk, hns]
    rw [markTcpSeen_live w k true _ {} cs (tcpLive_of w k cs hl (by rw [hl4, htcp]) he)]
    obtain ⟨t, st, hte⟩ := touchTcp_eq cs w.now (c.tcpFin || c.tcpRst)
    exact ⟨_, alookup_areplace_self _ _ _ _ hl, by rw [hte]; exact hr, by rw [hte]; exact hw, by rw [hte]; exact hd⟩
  · simp only [htcp, if_false]
    by_cases hudp : c.l4proto = IPPROTO_UDP
    · simp only [hudp, if_true]
      split
      · exact ⟨cs, hl, hr, hw, hd⟩
      · rw [hk, markUdpSeen_live w k true {} cs (udpLive_of w k cs hl (by rw [hl4]; exact htcp) he)]
        obtain ⟨t, hte⟩ := touchUdp_eq cs w.now {} rfl
        exact ⟨_, alookup_areplace_self _ _ _ _ hl, by rw [hte]; exact hr, by rw [hte]; exact hw, by rw [hte]; exact hd⟩
    · simp only [hudp, if_false]
      exact ⟨cs, hl, hr, hw, hd⟩

/-- the new-SYN flag of a frame on a capturing hook is the parsed packet's -/
theorem isNewSyn_capture (h : Hook) (s : Skb) (l2 : Bool) (p : Pkt)
    (hh : h = .lanIngress ∨ h = .wanEgress) (hp : parsePacket s.raw l2 = .pkt p) :
    frameIsNewSyn h s l2 = (p.syn && !p.ack) := by
  rcases hh with rfl | rfl <;> simp [frameIsNewSyn, hp]

theorem isNewSyn_reverse (h : Hook) (s : Skb) (l2 : Bool) (code : Nat)
    (c : Ctx) (hh : h = .wanIngress ∨ h = .lanEgress) (hp : parseTransport s.raw l2 = .ret code c) :
    frameIsNewSyn h s l2 = (c.tcpSyn && !c.tcpAck) := by
  rcases hh with rfl | rfl <;> simp [frameIsNewSyn, hp]

/-- what a capturing hook does to a tracked flow: the rule program is irrelevant, the fate is the
cached decision's, the entry keeps the decision -/
theorem tracked_capture (rt rt' : RouteIn → Int) (w : World) (h : Hook) (s : Skb) (l2 : Bool) (p : Pkt)
    (cs : ConnState) (hh : h = .lanIngress ∨ h = .wanEgress) (hp : parsePacket s.raw l2 = .pkt p)
    (h4 : p.tuples.five.l4 = IPPROTO_TCP ∨ p.tuples.five.l4 = IPPROTO_UDP)
    (hsl : shortLivedUdp p.tuples.five = false) (hns : (p.syn && !p.ack) = false)
    (he : expiredAt w p.tuples.five = false) (hl : alookup w.conn p.tuples.five = some cs)
    (hr : cs.hasRouting ≠ 0) (hw : cs.wanDir = false) :
    (∃ cs', alookup (step rt w h s l2).1.conn p.tuples.five = some cs' ∧ cs'.decision = cs.decision ∧
      cs'.hasRouting ≠ 0 ∧ cs'.wanDir = false) ∧
    ((h = .lanIngress ∨ (s.ingressIf = 0 ∧ (pidIsControlPlane w s).isCp = false)) →
      step rt' w h s l2 = step rt w h s l2 ∧
      (rtrackRoom w s p → (step rt w h s l2).2.realises w s (h == .lanIngress) (hookFate h w s p cs.decision))) := by
  have hl4 := parsePacket_l4 hp
  rcases hh with rfl | rfl
  · -- LAN ingress
    simp only [step]
    rcases h4 with h4 | h4
    · obtain ⟨a, b, cs', h1, h2, h3, h5⟩ := Props.lan_tracked_tcp_follows_cache rt rt' w s l2 p cs hp
        (by rw [← hl4, h4]) hns (tcpLive_of w _ cs hl h4 he) hr
      exact ⟨⟨cs', h1, h2, by rw [h3]; exact hr, by rw [h5]; exact hw⟩, fun _ => ⟨b.symm, a⟩⟩
    · have hnt : p.tuples.five.l4 ≠ IPPROTO_TCP := by rw [h4]; decide
      obtain ⟨a, b, cs', h1, h2, h3, h5⟩ := Props.lan_tracked_udp_follows_cache rt rt' w s l2 p cs hp
        (by rw [← hl4, h4]) hsl (udpLive_of w _ cs hl hnt he) hw hr
      exact ⟨⟨cs', h1, h2, by rw [h3]; exact hr, by rw [h5]; exact hw⟩, fun _ => ⟨b.symm, a⟩⟩
  · -- WAN egress
    simp only [step]
    by_cases hi : s.ingressIf = 0
    · rcases h4 with h4 | h4
      · obtain ⟨a, b, cs', h1, h2, h3, h5⟩ := Props.wan_tracked_tcp_follows_cache rt rt' w s l2 p cs hi hp
          (by rw [← hl4, h4]) hns (tcpLive_of w _ cs hl h4 he) hr
        refine ⟨⟨cs', h1, h2, by rw [h3]; exact hr, by rw [h5]; exact hw⟩, fun _ => ⟨b.symm, ?_⟩⟩
        have hb : (Hook.wanEgress == Hook.lanIngress) = false := by decide
        rw [hb]; exact a
      · have hnt : p.tuples.five.l4 ≠ IPPROTO_TCP := by rw [h4]; decide
        have hu : p.l4proto = IPPROTO_UDP := by rw [← hl4, h4]
        by_cases hcp : (pidIsControlPlane w s).isCp = false
        · obtain ⟨a, b, cs', h1, h2, h3, h5⟩ := Props.wan_tracked_udp_follows_cache rt rt' w s l2 p cs hi hp hu hsl hcp
            (udpLive_of w _ cs hl hnt he) hw hr
          refine ⟨⟨cs', h1, h2, h3, by rw [h5]; exact hw⟩, fun _ => ⟨b.symm, ?_⟩⟩
          have hb : (Hook.wanEgress == Hook.lanIngress) = false := by decide
          rw [hb]; exact a
        · have hcp' : (pidIsControlPlane w s).isCp = true := by
            cases hx : (pidIsControlPlane w s).isCp <;> simp_all
          refine ⟨⟨cs, ?_, rfl, hr, hw⟩, ?_⟩
          · rw [(Props.dae_udp_never_captured rt w s l2 p hi hp hu hcp').2]; exact hl
          · rintro (hc | ⟨_, hc⟩)
            · cases hc
            · rw [hcp'] at hc; cases hc
    · refine ⟨⟨cs, ?_, rfl, hr, hw⟩, ?_⟩
      · rw [Props.wan_forwarded_passes rt w s l2 hi]; exact hl
      · rintro (hc | ⟨hc, _⟩)
        · cases hc
        · exact absurd hc hi

/-- **one step keeps a tracked flow tracked** unless the frame is a pure SYN of the flow or finds
the entry expired -/
theorem tracked_step (rt : RouteIn → Int) (w : World) (h : Hook) (s : Skb) (l2 : Bool) (k : Key) (d : Dec)
    (h4 : k.l4 = IPPROTO_TCP ∨ k.l4 = IPPROTO_UDP) (hsl : shortLivedUdp k = false)
    (hkeep : frameKey h s l2 = some k → frameIsNewSyn h s l2 = false ∧ expiredAt w k = false)
    (ht : Tracked w k d) : Tracked (step rt w h s l2).1 k d := by
  by_cases hfk : frameKey h s l2 = some k
  · obtain ⟨hns, he⟩ := hkeep hfk
    have hcap : ∀ (hh : h = .lanIngress ∨ h = .wanEgress), Tracked (step rt w h s l2).1 k d := by
      intro hh
      obtain ⟨cs, hl, hr, hw, hd⟩ := ht
      obtain ⟨p, hp, hpk⟩ := frameKey_capture hh hfk
      subst hpk
      rw [isNewSyn_capture h s l2 p hh hp] at hns
      obtain ⟨⟨cs', h1, h2, h3, h5⟩, _⟩ := tracked_capture rt rt w h s l2 p cs hh hp h4 hsl hns he hl hr hw
      exact ⟨cs', h1, h3, h5, by rw [h2]; exact hd⟩
    have hrev : ∀ (hh : h = .wanIngress ∨ h = .lanEgress),
        ∃ code c, parseTransport s.raw l2 = .ret code c ∧ (getTuples c).five.rev = k ∧ (c.tcpSyn && !c.tcpAck) = false := by
      intro hh
      obtain ⟨code, c, hp, hck⟩ := frameKey_reverse hh hfk
      rw [isNewSyn_reverse h s l2 code c hh hp] at hns
      exact ⟨code, c, hp, hck, hns⟩
    cases h with
    | lanIngress => exact hcap (Or.inl rfl)
    | wanEgress => exact hcap (Or.inr rfl)
    | wanIngress =>
      obtain ⟨code, c, hp, hck, hns'⟩ := hrev (Or.inl rfl)
      simp only [step, wanIngress, hp]
      split
      · exact ht
      · exact reverseRefresh_tracked w c k d hck hns' he ht
    | lanEgress =>
      obtain ⟨code, c, hp, hck, hns'⟩ := hrev (Or.inr rfl)
      simp only [step, lanEgress, hp]
      split
      · exact ht
      · split
        · exact ht
        · exact reverseRefresh_tracked w c k d hck hns' he ht
  · obtain ⟨cs, hl, hr, hw, hd⟩ := ht
    exact ⟨cs, by rw [step_lookup_ne rt w h s l2 k hfk]; exact hl, hr, hw, hd⟩

/-! ## flows without a decision (dae's own connections, replies of WAN-opened connections) -/

theorem touchTcp_eq' (cs : ConnState) (now : Nat) (fr : Bool) (a : CtArgs) (h : a.rt = none) :
    ∃ t st, touchTcp cs now fr a = { cs with lastSeen := t, state := st } := by
  unfold touchTcp
  rw [applyRouting_none _ _ h]
  obtain ⟨t, ht⟩ := refresh_eq cs now
  rw [ht]
  cases fr
  · exact ⟨t, cs.state, rfl⟩
  · exact ⟨t, 1, rfl⟩

theorem newConnState_none (wd : Bool) (now : Nat) (a : CtArgs) (h : a.rt = none) :
    (newConnState wd now a).hasRouting = 0 ∧ (newConnState wd now a).wanDir = wd := by
  unfold newConnState; rw [h]; exact ⟨rfl, rfl⟩

theorem createConn_noDecision (w : World) (k : Key) (ns : ConnState) (udp : Bool) (pid : Nat)
    (h : ns.hasRouting = 0) : NoDecision (createConn w k ns udp pid).1 k := by
  intro cs hl
  unfold createConn at hl
  split at hl
  · rename_i c hc
    rw [aupdate_lookup_self _ _ _ _ _ hc] at hl
    injection hl with hl; rw [← hl]; exact h
  · split at hl <;> simp [alookup_aerase_self] at hl

/-- a conntrack call without routing arguments never gives the entry a decision -/
theorem markTcpSeen_noDecision (w : World) (k : Key) (wd ns fr : Bool) (a : CtArgs) (ha : a.rt = none)
    (h : NoDecision w k) : NoDecision (markTcpSeen w k wd ns fr a).1 k := by
  unfold markTcpSeen
  cases hl : tcpLive w k ns with
  | some cs =>
    intro cs' hl'
    simp only at hl'
    rw [alookup_areplace_self _ _ _ _ (tcpLive_lookup w k ns cs hl)] at hl'
    injection hl' with hl'
    obtain ⟨t, st, hte⟩ := touchTcp_eq' cs w.now fr a ha
    rw [← hl', hte]; exact h cs (tcpLive_lookup w k ns cs hl)
  | none =>
    simp only
    split
    · exact createConn_noDecision _ _ _ _ _ (newConnState_none wd w.now a ha).1
    · intro cs' hl'; simp [alookup_aerase_self] at hl'

theorem markUdpSeen_noDecision (w : World) (k : Key) (wd : Bool) (a : CtArgs) (ha : a.rt = none)
    (h : NoDecision w k) : NoDecision (markUdpSeen w k wd a).1 k := by
  unfold markUdpSeen
  cases hl : udpLive w k with
  | some cs =>
    intro cs' hl'
    simp only at hl'
    rw [alookup_areplace_self _ _ _ _ (udpLive_lookup w k cs hl)] at hl'
    injection hl' with hl'
    obtain ⟨t, hte⟩ := touchUdp_eq cs w.now a ha
    rw [← hl', hte]; exact h cs (udpLive_lookup w k cs hl)
  | none => exact createConn_noDecision _ _ _ _ _ (newConnState_none wd w.now a ha).1

theorem reverseRefresh_noDecision (w : World) (c : Ctx) (k : Key) (hk : (getTuples c).five.rev = k)
    (h : NoDecision w k) : NoDecision (reverseRefresh w c) k := by
  unfold reverseRefresh
  split
  · rw [hk]; exact markTcpSeen_noDecision w k true _ _ {} rfl h
  · split
    · split
      · exact h
      · rw [hk]; exact markUdpSeen_noDecision w k true {} rfl h
    · exact h

/-- the NoDecision invariant, one step: every frame keeps it except a pure SYN of the flow on a
capturing hook sent by somebody other than dae; and every frame of the flow on a capturing hook
passes untouched -/
theorem noDecision_step (rt : RouteIn → Int) (w : World) (h : Hook) (s : Skb) (l2 : Bool) (k : Key)
    (h4 : k.l4 = IPPROTO_TCP)
    (hnew : ∀ p, parsePacket s.raw l2 = .pkt p → p.tuples.five = k → (p.syn && !p.ack) = true →
      (h = .lanIngress ∨ h = .wanEgress) →
      h = .wanEgress ∧ (s.ingressIf ≠ 0 ∨ (pidIsControlPlane w s).isCp = true))
    (hn : NoDecision w k) :
    NoDecision (step rt w h s l2).1 k ∧
    (∀ p, parsePacket s.raw l2 = .pkt p → p.tuples.five = k → (h = .lanIngress ∨ h = .wanEgress) →
      (step rt w h s l2).2 = outOk s s.mark) := by
  by_cases hfk : frameKey h s l2 = some k
  · cases h with
    | lanIngress =>
      obtain ⟨p, hp, hpk⟩ := frameKey_capture (Or.inl rfl) hfk
      subst hpk
      have ht : p.l4proto = IPPROTO_TCP := by rw [← parsePacket_l4 hp]; exact h4
      have hns : (p.syn && !p.ack) = false := by
        cases hx : (p.syn && !p.ack)
        · rfl
        · have := (hnew p hp rfl hx (Or.inl rfl)).1; cases this
      constructor
      · simp only [step]
        rw [lanIngress_pkt rt w s l2 p hp, lanIngressPkt_tcp_est rt w s l2 p ht hns]
        have hm := markTcpSeen_noDecision w p.tuples.five false false (p.fin || p.rst) {} rfl hn
        unfold lanTcpEstablished
        simp only
        cases hr : (markTcpSeen w p.tuples.five false false (p.fin || p.rst) {}).2 with
        | none => exact hm
        | some cs =>
          simp only
          have hcs : cs.hasRouting = 0 := by
            cases hlv : tcpLive w p.tuples.five false with
            | none => rw [markTcpSeen_dead w _ false _ {} hlv] at hr; simp at hr
            | some cs0 =>
              rw [markTcpSeen_live w _ false _ {} cs0 hlv] at hr
              injection hr with hr
              obtain ⟨t, st, hte⟩ := touchTcp_eq cs0 w.now (p.fin || p.rst)
              rw [← hr, hte]; exact hn cs0 (tcpLive_lookup w _ false cs0 hlv)
          simp only [hcs, if_true]; exact hm
      · intro p' hp' _ _
        rw [hp] at hp'; injection hp' with hp'; subst hp'
        exact Props.lan_untracked_tcp_passes rt w s l2 p hp ht hns
          (fun cs hl => hn cs (tcpLive_lookup w _ false cs hl))
    | wanEgress =>
      obtain ⟨p, hp, hpk⟩ := frameKey_capture (Or.inr rfl) hfk
      subst hpk
      have ht : p.l4proto = IPPROTO_TCP := by rw [← parsePacket_l4 hp]; exact h4
      by_cases hi : s.ingressIf = 0
      · by_cases hns : (p.syn && !p.ack) = true
        · -- a pure SYN: must be dae's
          have hcp : (pidIsControlPlane w s).isCp = true := by
            rcases (hnew p hp rfl hns (Or.inr rfl)).2 with h' | h'
            · exact absurd hi h'
            · exact h'
          have hs : p.syn = true := by
            cases hx : p.syn <;> simp_all
          have ha : p.ack = false := by
            cases hx : p.ack <;> simp_all
          obtain ⟨h1, h2⟩ := Props.dae_tcp_syn_passes_and_clears rt w s l2 p hi hp ht hs ha hcp
          refine ⟨?_, ?_⟩
          · intro cs hl
            simp only [step] at hl
            rw [h2] at hl; cases hl
          · intro _ _ _ _
            exact h1
        · have hns' : (p.syn && !p.ack) = false := by
            cases hx : (p.syn && !p.ack) <;> simp_all
          constructor
          · simp only [step]
            rw [wanEgress_tcp rt w s l2 p hi hp ht]
            unfold wanEgressTcp
            simp only [hns', Bool.false_eq_true, if_false]
            have hm := markTcpSeen_noDecision w p.tuples.five false false (p.fin || p.rst) {} rfl hn
            unfold wanTcpEstablished
            simp only
            cases hr : (markTcpSeen w p.tuples.five false false (p.fin || p.rst) {}).2 with
            | none => exact hm
            | some cs =>
              simp only
              have hcs : cs.hasRouting = 0 := by
                cases hlv : tcpLive w p.tuples.five false with
                | none => rw [markTcpSeen_dead w _ false _ {} hlv] at hr; simp at hr
                | some cs0 =>
                  rw [markTcpSeen_live w _ false _ {} cs0 hlv] at hr
                  injection hr with hr
                  obtain ⟨t, st, hte⟩ := touchTcp_eq cs0 w.now (p.fin || p.rst)
                  rw [← hr, hte]; exact hn cs0 (tcpLive_lookup w _ false cs0 hlv)
              simp only [hcs, if_true]; exact hm
          · intro p' hp' _ _
            rw [hp] at hp'; injection hp' with hp'; subst hp'
            exact Props.wan_untracked_tcp_passes rt w s l2 p hi hp ht hns'
              (fun cs hl => hn cs (tcpLive_lookup w _ false cs hl))
      · simp only [step]
        rw [Props.wan_forwarded_passes rt w s l2 hi]
        exact ⟨hn, fun _ _ _ _ => rfl⟩
    | wanIngress =>
      obtain ⟨code, c, hp, hck⟩ := frameKey_reverse (Or.inl rfl) hfk
      refine ⟨?_, fun _ _ _ hh => by rcases hh with hh | hh <;> cases hh⟩
      simp only [step, wanIngress, hp]
      split
      · exact hn
      · exact reverseRefresh_noDecision w c k hck hn
    | lanEgress =>
      obtain ⟨code, c, hp, hck⟩ := frameKey_reverse (Or.inr rfl) hfk
      refine ⟨?_, fun _ _ _ hh => by rcases hh with hh | hh <;> cases hh⟩
      simp only [step, lanEgress, hp]
      split
      · exact hn
      · split
        · exact hn
        · exact reverseRefresh_noDecision w c k hck hn
  · refine ⟨fun cs hl => hn cs (by rw [← step_lookup_ne rt w h s l2 k hfk]; exact hl), ?_⟩
    intro p hp hpk hh
    exfalso; apply hfk
    rcases hh with rfl | rfl <;> simp [frameKey, hp, hpk]

/-! ## UDP flows opened from the WAN side -/

theorem reverseRefresh_wanOriginated (w : World) (c : Ctx) (k : Key) (hk : (getTuples c).five.rev = k)
    (h4 : k.l4 = IPPROTO_UDP) (he : expiredAt w k = false) (h : WanOriginated w k) :
    WanOriginated (reverseRefresh w c) k := by
  obtain ⟨cs, hl, hw, hr⟩ := h
  have hl4 : c.l4proto = IPPROTO_UDP := by rw [← getTuples_l4 c, ← rev_l4, hk]; exact h4
  have hnt : ¬ (c.l4proto = IPPROTO_TCP) := by rw [hl4]; decide
  unfold reverseRefresh
  rw [if_neg hnt, if_pos hl4]
  split
  · exact ⟨cs, hl, hw, hr⟩
  · rw [hk, markUdpSeen_live w k true {} cs (udpLive_of w k cs hl (by rw [h4]; decide) he)]
    obtain ⟨t, hte⟩ := touchUdp_eq cs w.now {} rfl
    exact ⟨_, alookup_areplace_self _ _ _ _ hl, by rw [hte]; exact hw, by rw [hte]; exact hr⟩

/-- the WAN-originated invariant for a UDP flow, one step: it is kept while the entry is not past its
idle timeout, and every frame of the flow on a capturing hook passes untouched -/
theorem wanOriginated_step (rt : RouteIn → Int) (w : World) (h : Hook) (s : Skb) (l2 : Bool) (k : Key)
    (h4 : k.l4 = IPPROTO_UDP) (hsl : shortLivedUdp k = false)
    (hkeep : frameKey h s l2 = some k → expiredAt w k = false)
    (hn : WanOriginated w k) :
    WanOriginated (step rt w h s l2).1 k ∧
    (∀ p, parsePacket s.raw l2 = .pkt p → p.tuples.five = k → (h = .lanIngress ∨ h = .wanEgress) →
      (step rt w h s l2).2 = outOk s s.mark) := by
  by_cases hfk : frameKey h s l2 = some k
  · have he := hkeep hfk
    obtain ⟨cs, hl, hw, hr⟩ := hn
    have hnt : k.l4 ≠ IPPROTO_TCP := by rw [h4]; decide
    obtain ⟨t, hte⟩ := touchUdp_eq cs w.now {} rfl
    cases h with
    | lanIngress =>
      obtain ⟨p, hp, hpk⟩ := frameKey_capture (Or.inl rfl) hfk
      subst hpk
      have hu : p.l4proto = IPPROTO_UDP := by rw [← parsePacket_l4 hp]; exact h4
      have hnt' : p.l4proto ≠ IPPROTO_TCP := by rw [hu]; decide
      obtain ⟨t', hte'⟩ := touchUdp_eq cs w.now { dscp := p.tuples.dscp } rfl
      have hm := markUdpSeen_live w p.tuples.five false { dscp := p.tuples.dscp } cs (udpLive_of w _ cs hl hnt he)
      have hm2 : (markUdpSeen w p.tuples.five false { dscp := p.tuples.dscp }).2 =
          some (touchUdp cs w.now { dscp := p.tuples.dscp }) := by rw [hm]
      have hstep : step rt w .lanIngress s l2 =
          ((markUdpSeen w p.tuples.five false { dscp := p.tuples.dscp }).1, outOk s s.mark) := by
        simp only [step]
        rw [lanIngress_pkt rt w s l2 p hp, lanIngressPkt_udp rt w s l2 p hnt' hsl]
        exact lanUdp_wandir rt w s l2 p _ hm2 (by rw [hte']; exact hw)
      rw [hstep]
      refine ⟨⟨touchUdp cs w.now { dscp := p.tuples.dscp }, ?_, by rw [hte']; exact hw, by rw [hte']; exact hr⟩,
        fun _ _ _ _ => rfl⟩
      rw [hm]; exact alookup_areplace_self _ _ _ _ hl
    | wanEgress =>
      obtain ⟨p, hp, hpk⟩ := frameKey_capture (Or.inr rfl) hfk
      subst hpk
      have hu : p.l4proto = IPPROTO_UDP := by rw [← parsePacket_l4 hp]; exact h4
      by_cases hi : s.ingressIf = 0
      · by_cases hcp : (pidIsControlPlane w s).isCp = true
        · obtain ⟨h1, h2⟩ := Props.dae_udp_never_captured rt w s l2 p hi hp hu hcp
          exact ⟨⟨cs, by simp only [step]; rw [h2]; exact hl, hw, hr⟩, fun _ _ _ _ => h1⟩
        · have hcp' : (pidIsControlPlane w s).isCp = false := by
            cases hx : (pidIsControlPlane w s).isCp <;> simp_all
          have hrest0 := pidIsControlPlane_rest w s
          have hconn0 := pidIsControlPlane_conn w s
          have hl' : udpLive (pidIsControlPlane w s).w p.tuples.five = some cs := by
            rw [udpLive_congr hconn0 hrest0]; exact udpLive_of w _ cs hl hnt he
          obtain ⟨t', hte'⟩ := touchUdp_eq cs (pidIsControlPlane w s).w.now {} rfl
          have hm := markUdpSeen_live (pidIsControlPlane w s).w p.tuples.five false {} cs hl'
          have hstep : step rt w .wanEgress s l2 =
              ((markUdpSeen (pidIsControlPlane w s).w p.tuples.five false {}).1, outOk s s.mark) := by
            simp only [step]
            rw [wanEgress_udp rt w s l2 p hi hp hu]
            unfold wanEgressUdp
            simp only [hcp', Bool.false_eq_true, if_false, hsl, Bool.not_false, if_true]
            rw [hm]
            exact wanUdpRouted_wandir rt _ s l2 p _ _ (by rw [hte']; exact hw)
          rw [hstep]
          refine ⟨⟨touchUdp cs (pidIsControlPlane w s).w.now {}, ?_, by rw [hte']; exact hw, by rw [hte']; exact hr⟩,
            fun _ _ _ _ => rfl⟩
          rw [hm]; exact alookup_areplace_self _ _ _ _ (by rw [hconn0]; exact hl)
      · simp only [step]
        rw [Props.wan_forwarded_passes rt w s l2 hi]
        exact ⟨⟨cs, hl, hw, hr⟩, fun _ _ _ _ => rfl⟩
    | wanIngress =>
      obtain ⟨code, c, hp, hck⟩ := frameKey_reverse (Or.inl rfl) hfk
      refine ⟨?_, fun _ _ _ hh => by rcases hh with hh | hh <;> cases hh⟩
      simp only [step, wanIngress, hp]
      split
      · exact ⟨cs, hl, hw, hr⟩
      · exact reverseRefresh_wanOriginated w c k hck h4 he ⟨cs, hl, hw, hr⟩
    | lanEgress =>
      obtain ⟨code, c, hp, hck⟩ := frameKey_reverse (Or.inr rfl) hfk
      refine ⟨?_, fun _ _ _ hh => by rcases hh with hh | hh <;> cases hh⟩
      simp only [step, lanEgress, hp]
      split
      · exact ⟨cs, hl, hw, hr⟩
      · split
        · exact ⟨cs, hl, hw, hr⟩
        · exact reverseRefresh_wanOriginated w c k hck h4 he ⟨cs, hl, hw, hr⟩
  · obtain ⟨cs, hl, hw, hr⟩ := hn
    refine ⟨⟨cs, by rw [step_lookup_ne rt w h s l2 k hfk]; exact hl, hw, hr⟩, ?_⟩
    intro p hp hpk hh
    exfalso; apply hfk
    rcases hh with rfl | rfl <;> simp [frameKey, hp, hpk]

/-! ## port-53 UDP tuples never get a conn-state decision -/

theorem getTuples_udp_ports (c : Ctx) (h : c.l4proto = IPPROTO_UDP) :
    (getTuples c).five.sport = c.udpSport ∧ (getTuples c).five.dport = c.udpDport := by
  have hn : ¬ (c.l4proto = IPPROTO_TCP) := by rw [h]; decide
  unfold getTuples
  simp only [hn, if_false]
  split <;> exact ⟨rfl, rfl⟩

/-- one step never writes a decision under a short-lived (port-53 UDP) tuple -/
theorem dns_noDecision_step (rt : RouteIn → Int) (w : World) (h : Hook) (s : Skb) (l2 : Bool) (k : Key)
    (hk : shortLivedUdp k = true) (hn : NoDecision w k) : NoDecision (step rt w h s l2).1 k := by
  have h4 : k.l4 = IPPROTO_UDP := by
    unfold shortLivedUdp at hk
    simp only [Bool.and_eq_true, beq_iff_eq] at hk
    exact hk.1
  by_cases hfk : frameKey h s l2 = some k
  · cases h with
    | lanIngress =>
      obtain ⟨p, hp, hpk⟩ := frameKey_capture (Or.inl rfl) hfk
      subst hpk
      have hu : p.l4proto = IPPROTO_UDP := by rw [← parsePacket_l4 hp]; exact h4
      have hnt : p.l4proto ≠ IPPROTO_TCP := by rw [hu]; decide
      simp only [step]
      rw [lanIngress_pkt rt w s l2 p hp, lanIngressPkt_dns rt w s l2 p hnt hk]
      have hconn : (lanRouteNew rt w s l2 p none).1.conn = w.conn := by
        unfold lanRouteNew lanCache
        simp only [hu, hk, decide_true, Bool.and_self, if_true]
        leaves <;> first | rfl | simp
      intro cs hl; rw [hconn] at hl; exact hn cs hl
    | wanEgress =>
      obtain ⟨p, hp, hpk⟩ := frameKey_capture (Or.inr rfl) hfk
      subst hpk
      have hu : p.l4proto = IPPROTO_UDP := by rw [← parsePacket_l4 hp]; exact h4
      simp only [step]
      by_cases hi : s.ingressIf = 0
      · rw [wanEgress_udp rt w s l2 p hi hp hu]
        have hconn : (wanEgressUdp rt w s l2 p).1.conn = w.conn := by
          unfold wanEgressUdp
          simp only [hk, Bool.not_true, Bool.false_eq_true, if_false]
          split
          · simp
          · unfold wanUdpRouted
            simp only
            split <;> simp
        intro cs hl; rw [hconn] at hl; exact hn cs hl
      · rw [Props.wan_forwarded_passes rt w s l2 hi]; exact hn
    | wanIngress =>
      obtain ⟨code, c, hp, hck⟩ := frameKey_reverse (Or.inl rfl) hfk
      simp only [step, wanIngress, hp]
      split
      · exact hn
      · have hl4 : c.l4proto = IPPROTO_UDP := by rw [← getTuples_l4 c, ← rev_l4, hck]; exact h4
        have hports := getTuples_udp_ports c hl4
        have h53 : (decide (c.udpSport = 53) || decide (c.udpDport = 53)) = true := by
          unfold shortLivedUdp at hk
          rw [← hck] at hk
          simp only [Key.rev, hports.1, hports.2, Bool.and_eq_true, beq_iff_eq, Bool.or_eq_true] at hk
          rcases hk.2 with h | h
          · simp [h]
          · simp [h]
        have hnt : ¬ (c.l4proto = IPPROTO_TCP) := by rw [hl4]; decide
        unfold reverseRefresh
        rw [if_neg hnt, if_pos hl4, if_pos h53]
        exact hn
    | lanEgress =>
      obtain ⟨code, c, hp, hck⟩ := frameKey_reverse (Or.inr rfl) hfk
      simp only [step, lanEgress, hp]
      split
      · exact hn
      · split
        · exact hn
        · have hl4 : c.l4proto = IPPROTO_UDP := by rw [← getTuples_l4 c, ← rev_l4, hck]; exact h4
          have hports := getTuples_udp_ports c hl4
          have h53 : (decide (c.udpSport = 53) || decide (c.udpDport = 53)) = true := by
            unfold shortLivedUdp at hk
            rw [← hck] at hk
            simp only [Key.rev, hports.1, hports.2, Bool.and_eq_true, beq_iff_eq, Bool.or_eq_true] at hk
            rcases hk.2 with h | h
            · simp [h]
            · simp [h]
          have hnt : ¬ (c.l4proto = IPPROTO_TCP) := by rw [hl4]; decide
          unfold reverseRefresh
          rw [if_neg hnt, if_pos hl4, if_pos h53]
          exact hn
  · exact fun cs hl => hn cs (by rw [← step_lookup_ne rt w h s l2 k hfk]; exact hl)

end DaeVerif.C03
