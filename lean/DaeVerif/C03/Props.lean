import DaeVerif.C03.RunProofs
import DaeVerif.C03.LayoutProofs
import DaeVerif.C03.Janitor
/-!
# C03 — property theorems, part 2: whole runs, the WAN-ingress marking, timeouts, record layout

Namespace `DaeVerif.C03.Props` (part 1 — one frame on one hook — is `PropsFrame.lean`).  Only
statements a reader should audit; helper lemmas are in `RunProofs` and below it.  A run is a finite
list of `Event`s (`Runs.lean`): before each frame the control plane may have replaced the rule
program, the learned domains, the connectivity bits, the cookie map, `PARAM`, the clock — anything
but `conn_state_map` (`EnvOk`).  The frames of all flows are interleaved arbitrarily.
-/
namespace DaeVerif.C03.Props
open DaeVerif.C03

/-! ## Stickiness -/

/-- **A tracked flow follows the decision taken for its first packet.**  Let flow `k` (TCP or UDP,
not port-53 UDP) have an entry holding decision `d`.  Then along ANY run in which the control plane
changes rules, learned domains, connectivity, cookies and the clock at will, and frames of any
number of other flows are interleaved in any order, as long as no frame of flow `k` is a pure SYN
and each frame of `k` arrives before the entry's idle timeout (`KeepsTracking`):

* every frame of `k` on a capturing hook (LAN ingress; WAN egress of a local, non-dae sender) is
  processed without consulting the rule program — replacing it by any other program gives the same
  output and the same world — and gets the fate decision `d` earns (given room in `redirect_track`);
* the entry still holds `d` at the end of the run. -/
theorem sticky_decision (k : Key) (d : Dec) (h4 : k.l4 = IPPROTO_TCP ∨ k.l4 = IPPROTO_UDP)
    (hsl : shortLivedUdp k = false) :
    ∀ (evs : List Event) (w : World), (∀ e ∈ evs, EnvOk e) → Tracked w k d → KeepsTracking k w evs →
      Follows k d w evs ∧ Tracked (run w evs) k d := by
  intro evs
  induction evs with
  | nil => intro w _ ht _; exact ⟨trivial, ht⟩
  | cons e es ih =>
    intro w henv ht hkeep
    have he : EnvOk e := henv e (List.mem_cons_self ..)
    have ht1 : Tracked (e.pre w) k d := by
      obtain ⟨cs, hl, h⟩ := ht
      exact ⟨cs, by unfold Event.pre; rw [he w]; exact hl, h⟩
    obtain ⟨hk0, hkrest⟩ := hkeep
    have ht2 : Tracked (e.apply w).1 k d :=
      tracked_step e.rt (e.pre w) e.hook e.skb e.l2 k d h4 hsl hk0 ht1
    obtain ⟨ihf, iht⟩ := ih (e.apply w).1 (fun e' he' => henv e' (List.mem_cons_of_mem _ he')) ht2 hkrest
    refine ⟨⟨?_, ihf⟩, iht⟩
    intro p hp hpk hcap
    obtain ⟨cs, hl, hr, hw, hd⟩ := ht1
    subst hpk
    have hh : e.hook = .lanIngress ∨ e.hook = .wanEgress := by
      rcases hcap with h | ⟨h, _⟩
      · exact Or.inl h
      · exact Or.inr h
    have hfk : frameKey e.hook e.skb e.l2 = some p.tuples.five := by
      rcases hh with h | h <;> simp [frameKey, h, hp]
    obtain ⟨hns, hexp⟩ := hk0 hfk
    unfold Event.isNewSyn at hns
    rw [isNewSyn_capture e.hook e.skb e.l2 p hh hp] at hns
    have hcap' : e.hook = .lanIngress ∨ (e.skb.ingressIf = 0 ∧ (pidIsControlPlane (e.pre w) e.skb).isCp = false) := by
      rcases hcap with h | ⟨_, h2, h3⟩
      · exact Or.inl h
      · exact Or.inr ⟨h2, h3⟩
    constructor
    · intro rt'
      exact ((tracked_capture e.rt rt' (e.pre w) e.hook e.skb e.l2 p cs hh hp h4 hsl hns hexp hl hr hw).2 hcap').1
    · intro hroom
      have := ((tracked_capture e.rt e.rt (e.pre w) e.hook e.skb e.l2 p cs hh hp h4 hsl hns hexp hl hr hw).2 hcap').2 hroom
      unfold Event.fate
      rw [← hd]
      exact this

/-! ## From the first packet to the run: a new flow becomes a tracked flow

These close the chain "decision for the first packet ⇒ `Tracked` ⇒ `sticky_decision`": the entry the
first frame of a flow leaves behind holds exactly the decision that frame was given (and is not
flagged WAN-originated), so every later frame follows it. -/

theorem lan_new_tcp_becomes_tracked (rt : RouteIn → Int) (w : World) (s : Skb) (l2 : Bool) (p : Pkt)
    (hp : parsePacket s.raw l2 = .pkt p) (ht : p.l4proto = IPPROTO_TCP) (hs : p.syn = true) (ha : p.ack = false)
    (hr : 0 ≤ rt (lanRouteIn s p)) (hc : connRoom w p.tuples.five) :
    Tracked (lanIngress rt w s l2).1 p.tuples.five (unpackRoute (rt (lanRouteIn s p))) := by
  rw [lanIngress_pkt rt w s l2 p hp, lanIngressPkt_tcp_syn rt w s l2 p ht hs ha,
    markTcpSeen_syn_room w p.tuples.five false (p.fin || p.rst) { dscp := p.tuples.dscp } hc]
  have hl : alookup ({ w with conn := aerase w.conn p.tuples.five ++
      [(p.tuples.five, newConnState false w.now { dscp := p.tuples.dscp })] } : World).conn p.tuples.five =
      some (newConnState false w.now { dscp := p.tuples.dscp }) := alookup_erase_append_self _ _ _
  have hsl : (decide (p.l4proto = IPPROTO_UDP) && shortLivedUdp p.tuples.five) = false := by
    rw [ht]; rfl
  exact ⟨_, lanRouteNew_conn rt _ s l2 p _ (lanLocalSocket_tcp_syn _ s p ht hs ha) hr hsl hl, by simp, rfl, rfl⟩

theorem lan_new_udp_becomes_tracked (rt : RouteIn → Int) (w : World) (s : Skb) (l2 : Bool) (p : Pkt)
    (hp : parsePacket s.raw l2 = .pkt p) (ht : p.l4proto = IPPROTO_UDP)
    (hsl : shortLivedUdp p.tuples.five = false)
    (hnew : ∀ cs, udpLive w p.tuples.five = some cs → cs.hasRouting = 0 ∧ cs.wanDir = false)
    (hc : udpLive w p.tuples.five = none → connRoom w p.tuples.five)
    (hls : lanLocalSocket w s p = false) (hr : 0 ≤ rt (lanRouteIn s p)) :
    Tracked (lanIngress rt w s l2).1 p.tuples.five (unpackRoute (rt (lanRouteIn s p))) := by
  have hnt : p.l4proto ≠ IPPROTO_TCP := by rw [ht]; decide
  rw [lanIngress_pkt rt w s l2 p hp, lanIngressPkt_udp rt w s l2 p hnt hsl]
  have hrest := markUdpSeen_rest w p.tuples.five false { dscp := p.tuples.dscp }
  have hst : ∃ cs, (markUdpSeen w p.tuples.five false { dscp := p.tuples.dscp }).2 = some cs ∧
      cs.wanDir = false ∧ cs.hasRouting = 0 ∧
      alookup (markUdpSeen w p.tuples.five false { dscp := p.tuples.dscp }).1.conn p.tuples.five = some cs := by
    cases hl : udpLive w p.tuples.five with
    | none =>
      rw [markUdpSeen_new_room w _ false _ hl (hc hl)]
      exact ⟨_, rfl, rfl, rfl, alookup_erase_append_self _ _ _⟩
    | some cs =>
      rw [markUdpSeen_live w _ false _ cs hl]
      obtain ⟨t, ht'⟩ := touchUdp_eq cs w.now { dscp := p.tuples.dscp } rfl
      refine ⟨_, rfl, ?_, ?_, alookup_areplace_self _ _ _ _ (udpLive_lookup w _ cs hl)⟩
      · rw [ht']; exact (hnew cs hl).2
      · rw [ht']; exact (hnew cs hl).1
  obtain ⟨cs, hm, hw, hr0, hlk⟩ := hst
  rw [lanUdp_untracked rt w s l2 p cs hm hw hr0]
  have hls' : lanLocalSocket (markUdpSeen w p.tuples.five false { dscp := p.tuples.dscp }).1 s p = false := by
    rw [lanLocalSocket_congr hrest]; exact hls
  have hsl' : (decide (p.l4proto = IPPROTO_UDP) && shortLivedUdp p.tuples.five) = false := by simp [hsl]
  exact ⟨_, lanRouteNew_conn rt _ s l2 p cs hls' hr hsl' hlk, by simp, hw, rfl⟩

/-- a new TCP connection of a local process: tracked with its decision — or, when routed plain direct,
left without any decision (so that `undecided_tcp_flow_passes` applies to the rest of it) -/
theorem wan_new_tcp_becomes_tracked (rt : RouteIn → Int) (w : World) (s : Skb) (l2 : Bool) (p : Pkt)
    (hi : s.ingressIf = 0) (hp : parsePacket s.raw l2 = .pkt p) (ht : p.l4proto = IPPROTO_TCP)
    (hs : p.syn = true) (ha : p.ack = false) (hcp : (pidIsControlPlane w s).isCp = false)
    (hr : 0 ≤ rt (wanRouteIn s p true (ppName (pidIsControlPlane w s).pp) (if l2 then p.ethSrc else zeros 6)))
    (hc : connRoom w p.tuples.five) :
    let d := unpackRoute (rt (wanRouteIn s p true (ppName (pidIsControlPlane w s).pp) (if l2 then p.ethSrc else zeros 6)))
    (¬ (d.ob = OUTBOUND_DIRECT ∧ d.mark = 0 ∧ d.must = 0) → Tracked (wanEgress rt w s l2).1 p.tuples.five d) ∧
    ((d.ob = OUTBOUND_DIRECT ∧ d.mark = 0 ∧ d.must = 0) → NoDecision (wanEgress rt w s l2).1 p.tuples.five) := by
  intro d
  rw [wanEgress_tcp rt w s l2 p hi hp ht]
  unfold wanEgressTcp
  simp only [hs, ha, Bool.not_false, Bool.and_self, if_true]
  unfold wanTcpSyn
  have hneg : ¬ rt (wanRouteIn s p true (ppName (pidIsControlPlane w s).pp) (if l2 then p.ethSrc else zeros 6)) < 0 := by
    omega
  simp only [hcp, Bool.false_eq_true, if_false, hneg]
  have hc' : connRoom (pidIsControlPlane w s).w p.tuples.five :=
    (connRoom_congr (pidIsControlPlane_conn w s) (pidIsControlPlane_rest w s) _).mpr hc
  rw [markTcpSeen_syn_room _ p.tuples.five false (p.fin || p.rst) _ hc']
  constructor
  · intro hnp
    have hrt' : (if (decide (d.ob = OUTBOUND_DIRECT) && d.mark == 0 && d.must == 0) = true then none
        else some (d.ob, d.mark, d.must)) = some (d.ob, d.mark, d.must) := by
      have : (decide (d.ob = OUTBOUND_DIRECT) && d.mark == 0 && d.must == 0) = false := by
        cases hx : (decide (d.ob = OUTBOUND_DIRECT) && d.mark == 0 && d.must == 0)
        · rfl
        · exfalso; apply hnp
          simp only [Bool.and_eq_true, decide_eq_true_eq, beq_iff_eq] at hx
          exact ⟨hx.1.1, hx.1.2, hx.2⟩
      simp [this]
    unfold Tracked
    simp only [d, hrt', wanVerdict_conn]
    exact ⟨_, alookup_erase_append_self (pidIsControlPlane w s).w.conn p.tuples.five _, by simp [newConnState], rfl, rfl⟩
  · intro hpl
    have hrt' : (if (decide (d.ob = OUTBOUND_DIRECT) && d.mark == 0 && d.must == 0) = true then none
        else some (d.ob, d.mark, d.must)) = none := by
      simp [hpl.1, hpl.2.1, hpl.2.2]
    simp only [d, hrt']
    intro cs hl
    simp only [wanVerdict_conn] at hl
    rw [alookup_erase_append_self (pidIsControlPlane w s).w.conn p.tuples.five _] at hl
    injection hl with hl
    rw [← hl]; rfl

theorem wan_new_udp_becomes_tracked (rt : RouteIn → Int) (w : World) (s : Skb) (l2 : Bool) (p : Pkt)
    (hi : s.ingressIf = 0) (hp : parsePacket s.raw l2 = .pkt p) (ht : p.l4proto = IPPROTO_UDP)
    (hsl : shortLivedUdp p.tuples.five = false) (hcp : (pidIsControlPlane w s).isCp = false)
    (hnew : ∀ cs, udpLive w p.tuples.five = some cs → cs.hasRouting = 0 ∧ cs.wanDir = false)
    (hc : udpLive w p.tuples.five = none → connRoom w p.tuples.five)
    (hr : 0 ≤ rt (wanRouteIn s p false (ppName (pidIsControlPlane w s).pp) p.ethSrc)) :
    Tracked (wanEgress rt w s l2).1 p.tuples.five
      (unpackRoute (rt (wanRouteIn s p false (ppName (pidIsControlPlane w s).pp) p.ethSrc))) := by
  rw [wanEgress_udp rt w s l2 p hi hp ht]
  unfold wanEgressUdp
  simp only [hcp, Bool.false_eq_true, if_false, hsl, Bool.not_false, if_true]
  have hrest0 := pidIsControlPlane_rest w s
  have hconn0 := pidIsControlPlane_conn w s
  have hst : ∃ cs, (markUdpSeen (pidIsControlPlane w s).w p.tuples.five false {}).2 = some cs ∧
      cs.wanDir = false ∧ cs.hasRouting = 0 ∧
      alookup (markUdpSeen (pidIsControlPlane w s).w p.tuples.five false {}).1.conn p.tuples.five = some cs := by
    cases hl : udpLive (pidIsControlPlane w s).w p.tuples.five with
    | none =>
      have hl' : udpLive w p.tuples.five = none := by rw [← udpLive_congr hconn0 hrest0]; exact hl
      rw [markUdpSeen_new_room _ _ false _ hl ((connRoom_congr hconn0 hrest0 _).mpr (hc hl'))]
      refine ⟨_, rfl, ?_, ?_, ?_⟩
      · rfl
      · rfl
      · exact alookup_erase_append_self _ _ _
    | some cs =>
      have hl' : udpLive w p.tuples.five = some cs := by rw [← udpLive_congr hconn0 hrest0]; exact hl
      rw [markUdpSeen_live _ _ false _ cs hl]
      obtain ⟨t, ht'⟩ := touchUdp_eq cs (pidIsControlPlane w s).w.now {} rfl
      refine ⟨_, rfl, ?_, ?_, alookup_areplace_self _ _ _ _ (udpLive_lookup _ _ cs hl)⟩
      · rw [ht']; exact (hnew cs hl').2
      · rw [ht']; exact (hnew cs hl').1
  obtain ⟨cs, hm, hw, hr0, hlk⟩ := hst
  rw [hm]
  obtain ⟨cs', h1, h2, h3, h4⟩ := wanUdpRouted_untracked_tracked rt _ s l2 p (pidIsControlPlane w s).pp cs hw hr0 hr
    (dport_ne_53_of_not_shortLived _ (by rw [parsePacket_l4 hp, ht]) hsl) hlk
  exact ⟨cs', h1, h3, h4, h2⟩

/-! ## Flows that must never be captured -/

/-- **A TCP flow without a cached decision is never captured**, for as long as nobody but dae opens
a new connection on its 5-tuple.  Along any run (arbitrary control-plane activity and interleaving),
if no entry of `k` holds a decision at the start, and no frame of the run is a pure SYN of `k` on a
capturing hook sent by somebody other than dae (`NoNewConnection`), then every frame of `k` on LAN
ingress and WAN egress passes untouched (`TC_ACT_OK`, mark and bytes unchanged), and no entry of `k`
holds a decision at the end. -/
theorem undecided_tcp_flow_passes (k : Key) (h4 : k.l4 = IPPROTO_TCP) :
    ∀ (evs : List Event) (w : World), (∀ e ∈ evs, EnvOk e) → NoDecision w k → NoNewConnection k w evs →
      AllPass k w evs ∧ NoDecision (run w evs) k := by
  intro evs
  induction evs with
  | nil => intro w _ hn _; exact ⟨trivial, hn⟩
  | cons e es ih =>
    intro w henv hn hnew
    have he : EnvOk e := henv e (List.mem_cons_self ..)
    have hn1 : NoDecision (e.pre w) k := by
      intro cs hl; unfold Event.pre at hl; rw [he w] at hl; exact hn cs hl
    obtain ⟨hnew0, hnewrest⟩ := hnew
    obtain ⟨hs1, hs2⟩ := noDecision_step e.rt (e.pre w) e.hook e.skb e.l2 k h4
      (fun p hp hpk hsyn _ => hnew0 p hp hpk hsyn) hn1
    obtain ⟨iha, ihn⟩ := ih (e.apply w).1 (fun e' he' => henv e' (List.mem_cons_of_mem _ he')) hs1 hnewrest
    exact ⟨⟨hs2, iha⟩, ihn⟩

/-- **Packets sent by dae itself are never captured again.**  Once dae's own SYN for 5-tuple `k` has
passed the WAN hook (it is recognised by its socket cookie / mark, passes untouched and clears
whatever an earlier flow left under `k`), every later frame of that connection — which can no
longer be recognised as dae's — passes untouched on the capturing hooks, along any run, until
somebody else opens a new connection on the same 5-tuple. -/
theorem dae_connection_never_recaptured (rt : RouteIn → Int) (w : World) (s : Skb) (l2 : Bool) (p : Pkt)
    (hi : s.ingressIf = 0) (hp : parsePacket s.raw l2 = .pkt p) (ht : p.l4proto = IPPROTO_TCP)
    (hs : p.syn = true) (ha : p.ack = false) (hcp : (pidIsControlPlane w s).isCp = true)
    (evs : List Event) (henv : ∀ e ∈ evs, EnvOk e)
    (hnew : NoNewConnection p.tuples.five (wanEgress rt w s l2).1 evs) :
    (wanEgress rt w s l2).2 = outOk s s.mark ∧ AllPass p.tuples.five (wanEgress rt w s l2).1 evs := by
  obtain ⟨h1, h2⟩ := dae_tcp_syn_passes_and_clears rt w s l2 p hi hp ht hs ha hcp
  refine ⟨h1, (undecided_tcp_flow_passes p.tuples.five (by rw [parsePacket_l4 hp, ht]) evs _ henv ?_ hnew).1⟩
  intro cs hl; rw [h2] at hl; cases hl

/-! ## Connections opened from the WAN side -/

/-- **WAN ingress marks the reversed tuple (TCP).**  After a pure SYN from the WAN side was seen by
the WAN-ingress hook, the reply direction `k` (the reversed tuple) has no entry holding a decision —
if there is room, it has a fresh entry flagged WAN-originated. -/
theorem wan_ingress_syn_marks_reverse_tuple (w : World) (s : Skb) (l2 : Bool) (c : Ctx)
    (hp : parseTransport s.raw l2 = .ret 0 c) (ht : c.l4proto = IPPROTO_TCP)
    (hs : c.tcpSyn = true) (ha : c.tcpAck = false) :
    NoDecision (wanIngress w s l2).1 (getTuples c).five.rev ∧
    (connRoom w (getTuples c).five.rev → WanOriginated (wanIngress w s l2).1 (getTuples c).five.rev) := by
  unfold wanIngress
  simp only [hp, bne_self_eq_false, Bool.false_eq_true, if_false]
  unfold reverseRefresh
  simp only [ht, if_true, hs, ha, Bool.not_false, Bool.and_self]
  constructor
  · unfold markTcpSeen
    rw [tcpLive_syn]
    simp only [if_true]
    exact createConn_noDecision _ _ _ _ _ rfl
  · intro hroom
    rw [markTcpSeen_syn_room w _ true _ {} hroom]
    exact ⟨_, alookup_erase_append_self _ _ _, rfl, rfl⟩

/-- **Replies of a TCP connection opened from the WAN side pass untouched** — towards a local
service (WAN egress) or a LAN service (LAN ingress), the SYN-ACK included, along any run, until a new
connection is opened in the reply direction. -/
theorem wan_originated_tcp_replies_pass (w : World) (s : Skb) (l2 : Bool) (c : Ctx)
    (hp : parseTransport s.raw l2 = .ret 0 c) (ht : c.l4proto = IPPROTO_TCP)
    (hs : c.tcpSyn = true) (ha : c.tcpAck = false)
    (evs : List Event) (henv : ∀ e ∈ evs, EnvOk e)
    (hnew : NoNewConnection (getTuples c).five.rev (wanIngress w s l2).1 evs) :
    AllPass (getTuples c).five.rev (wanIngress w s l2).1 evs :=
  (undecided_tcp_flow_passes _ (by rw [rev_l4, getTuples_l4, ht]) evs _ henv
    (wan_ingress_syn_marks_reverse_tuple w s l2 c hp ht hs ha).1 hnew).1

/-- **A pure SYN in the REVERSE direction restarts tracking, as a WAN-originated connection** — also
when the forward direction `k` was a tracked flow with a cached decision.  On WAN ingress and on LAN
egress a frame `syn && !ack` whose reversed tuple is `k` replaces whatever entry `k` had by one
without a decision (flagged WAN-originated when there is room); from then on every frame of `k` on
the capturing hooks passes untouched (`AllPass`), along any run, until a new connection is opened on
`k` from the LAN / local side.  This is the code's reading of "tracking restarts on a new SYN": the
kernel cannot tell a new inbound connection (or a simultaneous open) on a re-used 4-tuple from a
spoofed SYN, so a proxied or blocked flow hit by such a frame is no longer proxied / blocked
(`design_notes/C03.md`, observation "reverse SYN"). -/
theorem reverse_syn_restarts_tracking_as_wan_originated (rt : RouteIn → Int) (w : World) (h : Hook) (s : Skb)
    (l2 : Bool) (c : Ctx) (hh : h = .wanIngress ∨ h = .lanEgress)
    (hp : parseTransport s.raw l2 = .ret 0 c) (ht : c.l4proto = IPPROTO_TCP)
    (hs : c.tcpSyn = true) (ha : c.tcpAck = false)
    (evs : List Event) (henv : ∀ e ∈ evs, EnvOk e)
    (hnew : NoNewConnection (getTuples c).five.rev (step rt w h s l2).1 evs) :
    NoDecision (step rt w h s l2).1 (getTuples c).five.rev ∧
    (connRoom w (getTuples c).five.rev → WanOriginated (step rt w h s l2).1 (getTuples c).five.rev) ∧
    AllPass (getTuples c).five.rev (step rt w h s l2).1 evs := by
  have hstep : (step rt w h s l2).1 = reverseRefresh w c := by
    have hn : ¬ (IPPROTO_TCP = IPPROTO_ICMPV6) := by decide
    rcases hh with rfl | rfl
    · simp [step, wanIngress, hp]
    · simp [step, lanEgress, hp, ht, hn]
  have hrr : reverseRefresh w c =
      (markTcpSeen w (getTuples c).five.rev true true (c.tcpFin || c.tcpRst) {}).1 := by
    unfold reverseRefresh; simp [ht, hs, ha]
  have hnd : NoDecision (step rt w h s l2).1 (getTuples c).five.rev := by
    rw [hstep, hrr]
    unfold markTcpSeen
    rw [tcpLive_syn]
    simp only [if_true]
    exact createConn_noDecision _ _ _ _ _ rfl
  refine ⟨hnd, ?_, ?_⟩
  · intro hroom
    rw [hstep, hrr, markTcpSeen_syn_room w _ true _ {} hroom]
    exact ⟨_, alookup_erase_append_self _ _ _, rfl, rfl⟩
  · exact (undecided_tcp_flow_passes _ (by rw [rev_l4, getTuples_l4, ht]) evs _ henv hnd hnew).1

/-- **WAN ingress marks the reversed tuple (UDP, not port 53)** when the reply direction has no live
entry yet. -/
theorem wan_ingress_udp_marks_reverse_tuple (w : World) (s : Skb) (l2 : Bool) (c : Ctx)
    (hp : parseTransport s.raw l2 = .ret 0 c) (ht : c.l4proto = IPPROTO_UDP)
    (h53 : (c.udpSport = 53 || c.udpDport = 53) = false)
    (hl : udpLive w (getTuples c).five.rev = none) (hroom : connRoom w (getTuples c).five.rev) :
    WanOriginated (wanIngress w s l2).1 (getTuples c).five.rev := by
  unfold wanIngress
  simp only [hp, bne_self_eq_false, Bool.false_eq_true, if_false]
  unfold reverseRefresh
  have hnt : ¬ (c.l4proto = IPPROTO_TCP) := by rw [ht]; decide
  rw [if_neg hnt, if_pos ht]
  simp only [h53, Bool.false_eq_true, if_false]
  rw [markUdpSeen_new_room w _ true {} hl hroom]
  exact ⟨_, alookup_erase_append_self _ _ _, rfl, rfl⟩

/-- "each frame of the flow arrives before the entry's idle timeout" -/
def StaysLive (k : Key) : World → List Event → Prop
  | _, [] => True
  | w, e :: es =>
    (frameKey e.hook e.skb e.l2 = some k → expiredAt (e.pre w) k = false) ∧ StaysLive k (e.apply w).1 es

/-- **Replies of a UDP flow opened from the WAN side pass untouched** on both capturing hooks, along
any run, while the flow's entry is live (120 s idle timeout). -/
theorem wan_originated_udp_replies_pass (k : Key) (h4 : k.l4 = IPPROTO_UDP) (hsl : shortLivedUdp k = false) :
    ∀ (evs : List Event) (w : World), (∀ e ∈ evs, EnvOk e) → WanOriginated w k → StaysLive k w evs →
      AllPass k w evs ∧ WanOriginated (run w evs) k := by
  intro evs
  induction evs with
  | nil => intro w _ hn _; exact ⟨trivial, hn⟩
  | cons e es ih =>
    intro w henv hn hlive
    have he : EnvOk e := henv e (List.mem_cons_self ..)
    have hn1 : WanOriginated (e.pre w) k := by
      obtain ⟨cs, hl, h⟩ := hn
      exact ⟨cs, by unfold Event.pre; rw [he w]; exact hl, h⟩
    obtain ⟨hl0, hlrest⟩ := hlive
    obtain ⟨hs1, hs2⟩ := wanOriginated_step e.rt (e.pre w) e.hook e.skb e.l2 k h4 hsl hl0 hn1
    obtain ⟨iha, ihn⟩ := ih (e.apply w).1 (fun e' he' => henv e' (List.mem_cons_of_mem _ he')) hs1 hlrest
    exact ⟨⟨hs2, iha⟩, ihn⟩

/-! ## DNS tuples stay stateless; what happens when the record maps are full -/

/-- **Port-53 UDP tuples never hold a conn-state decision**, along any run (this discharges the
hypothesis `hnc` of `lan_dns_datagram` / `wan_dns_datagram` for every world reachable from one
without such an entry, e.g. the empty one): no hook ever writes a decision under such a tuple. -/
theorem dns_tuples_never_hold_a_decision (k : Key) (hk : shortLivedUdp k = true) :
    ∀ (evs : List Event) (w : World), (∀ e ∈ evs, EnvOk e) → NoDecision w k → NoDecision (run w evs) k := by
  intro evs
  induction evs with
  | nil => intro w _ hn; exact hn
  | cons e es ih =>
    intro w henv hn
    have he : EnvOk e := henv e (List.mem_cons_self ..)
    have hn1 : NoDecision (e.pre w) k := by
      intro cs hl; unfold Event.pre at hl; rw [he w] at hl; exact hn cs hl
    exact ih _ (fun e' he' => henv e' (List.mem_cons_of_mem _ he'))
      (dns_noDecision_step e.rt (e.pre w) e.hook e.skb e.l2 k hk hn1)

/-- **`redirect_track` full ⇒ the hand-over is refused and the frame dropped** (both tails): a frame
whose decision earns a hand-over to dae is `TC_ACT_SHOT` when the redirect entry cannot be stored. -/
theorem handover_without_redirect_room_drops (w : World) (s : Skb) (l2 : Bool) (p : Pkt) (d : Dec) (dscp : Nat)
    (e isTcp mand : Bool) (mac pn : Bytes) (pid : Nat)
    (hl4 : p.l4proto = if isTcp then IPPROTO_TCP else IPPROTO_UDP)
    (hfull : alookup w.rtrack (redirectKey s p.tuples) = none ∧ w.rtrackCap ≤ w.rtrack.length) :
    (lanFate w s p d = .toDae → (lanVerdict w s l2 p d.ob d.mark d.must dscp e).2.act = TC_ACT_SHOT) ∧
    (wanFate w s p d = .toDae →
      (wanVerdict w s l2 p isTcp d.ob d.mark d.must mac pn pid mand).2.act = TC_ACT_SHOT) := by
  have hprep : ∀ w' : World, w'.rtrack = w.rtrack → w'.rtrackCap = w.rtrackCap → ∀ fw,
      (prepRedirect w' s l2 p fw).failed = true := by
    intro w' h1 h2 fw
    unfold prepRedirect aupdate
    simp only [h1, h2, hfull.1]
    have : w.rtrack.length ≥ w.rtrackCap := hfull.2
    simp [this]
  constructor
  · intro hf
    unfold lanFate groupUp at hf
    unfold lanVerdict
    by_cases h0 : d.ob = OUTBOUND_DIRECT
    · simp [h0] at hf
    · simp only [h0, if_false] at hf ⊢
      by_cases h1 : d.ob = OUTBOUND_BLOCK
      · simp [h1] at hf
      · simp only [h1, if_false] at hf ⊢
        by_cases ha : wanAlive w s.raw.proto d.ob p.l4proto p.tuples.five.dport = true
        · simp only [ha, Bool.not_true, Bool.false_eq_true, if_false]
          unfold redirectLan
          simp only [hprep w rfl rfl false, if_true]
        · simp [ha] at hf
  · intro hf
    unfold wanFate groupUp at hf
    rw [hl4] at hf
    unfold wanVerdict
    by_cases h0 : d.ob = OUTBOUND_DIRECT ∧ d.mark = 0
    · simp [h0] at hf
    · have h0' : (decide (d.ob = OUTBOUND_DIRECT) && d.mark == 0) = false := by
        cases hx : (decide (d.ob = OUTBOUND_DIRECT) && d.mark == 0)
        · rfl
        · exfalso; apply h0
          simp only [Bool.and_eq_true, decide_eq_true_eq, beq_iff_eq] at hx
          exact hx
      simp only [h0', Bool.false_eq_true, if_false, h0] at hf ⊢
      by_cases h1 : d.ob = OUTBOUND_BLOCK
      · simp [h1] at hf
      · simp only [h1, if_false] at hf ⊢
        by_cases ha : wanAlive w s.raw.proto d.ob (if isTcp then IPPROTO_TCP else IPPROTO_UDP) p.tuples.five.dport = true
        · simp only [ha, Bool.not_true, Bool.false_eq_true, if_false]
          split
          · rfl
          · have := hprep (publishHandoff w p.tuples.five ⟨d.mark, d.must, mac, d.ob, pn, pid, p.tuples.dscp⟩).1
              (publishHandoff_rtrack _ _ _).1 (publishHandoff_rtrack _ _ _).2 true
            simp only [this, if_true]
        · simp [ha] at hf

/-- **`routing_handoff_map` full.**  On the WAN hook a datagram whose ONLY record would be the hand-off
entry (port 53, or no conn-state entry) is dropped rather than handed over without a record.  On the
LAN hook the return value of the hand-off update is ignored (`redirect_lan_packet_to_control_plane`):
the frame IS handed over and the map is left as it was — the one situation in which the control
plane does not find the kernel's decision and routes the flow itself (for TCP and non-53 UDP the
conn-state entry still carries it; for a LAN DNS datagram nothing does). -/
theorem handoff_full_behaviour (w : World) (s : Skb) (l2 : Bool) (p : Pkt) (d : Dec) (dscp : Nat) (e : Bool)
    (mac pn : Bytes) (pid : Nat) (hu : p.l4proto = IPPROTO_UDP) (hrt : rtrackRoom w s p)
    (hfull : alookup w.handoff p.tuples.five = none ∧ w.handoffCap ≤ w.handoff.length) :
    (wanFate w s p d = .toDae →
      (wanVerdict w s l2 p false d.ob d.mark d.must mac pn pid true).2 = outShot s) ∧
    (lanFate w s p d = .toDae →
      (lanVerdict w s l2 p d.ob d.mark d.must dscp e).2.act = TC_ACT_REDIRECT ∧
      (lanVerdict w s l2 p d.ob d.mark d.must dscp e).1.handoff = w.handoff) := by
  have hpub : ∀ w' : World, w'.handoff = w.handoff → w'.handoffCap = w.handoffCap → ∀ r,
      publishHandoff w' p.tuples.five r = (w', true) := by
    intro w' h1 h2 r
    unfold publishHandoff aupdate
    simp only [h1, h2, hfull.1]
    have : w.handoff.length ≥ w.handoffCap := hfull.2
    simp [this]
  constructor
  · intro hf
    unfold wanFate groupUp at hf
    rw [hu] at hf
    unfold wanVerdict
    by_cases h0 : d.ob = OUTBOUND_DIRECT ∧ d.mark = 0
    · simp [h0] at hf
    · have h0' : (decide (d.ob = OUTBOUND_DIRECT) && d.mark == 0) = false := by
        cases hx : (decide (d.ob = OUTBOUND_DIRECT) && d.mark == 0)
        · rfl
        · exfalso; apply h0
          simp only [Bool.and_eq_true, decide_eq_true_eq, beq_iff_eq] at hx
          exact hx
      simp only [h0', Bool.false_eq_true, if_false, h0] at hf ⊢
      by_cases h1 : d.ob = OUTBOUND_BLOCK
      · simp [h1] at hf
      · simp only [h1, if_false] at hf ⊢
        by_cases ha : wanAlive w s.raw.proto d.ob IPPROTO_UDP p.tuples.five.dport = true
        · simp only [ha, Bool.not_true, Bool.false_eq_true, if_false, hpub w rfl rfl, Bool.and_self, if_true]
        · simp [ha] at hf
  · intro hf
    unfold lanFate groupUp at hf
    unfold lanVerdict
    by_cases h0 : d.ob = OUTBOUND_DIRECT
    · simp [h0] at hf
    · simp only [h0, if_false] at hf ⊢
      by_cases h1 : d.ob = OUTBOUND_BLOCK
      · simp [h1] at hf
      · simp only [h1, if_false] at hf ⊢
        by_cases ha : wanAlive w s.raw.proto d.ob p.l4proto p.tuples.five.dport = true
        · simp only [ha, Bool.not_true, Bool.false_eq_true, if_false]
          unfold redirectLan
          simp only [prepRedirect_ok w s l2 p false hrt, Bool.false_eq_true, if_false]
          have hh := prepRedirect_handoff w s l2 p false
          have hcap : (prepRedirect w s l2 p false).w.handoffCap = w.handoffCap := by
            unfold prepRedirect; simp only; split <;> rfl
          rw [hpub _ hh hcap]
          exact ⟨by first | rfl | trivial, hh⟩
        · simp [ha] at hf

/-! ## The userspace janitor -/

/-- **The steady-state janitor applies the kernel's own idle timeouts.**  With a common monotone clock,
a non-aggressive janitor round deletes a TCP entry, or a UDP entry of a tuple without port 53, exactly
when the kernel itself would treat it as expired at that moment.  Hence it never ends a live tracking:
an entry that is not past its timeout is still there afterwards. -/
theorem janitor_respects_idle_timeouts (w : World) (k : Key) (cs : ConnState) (hl : cs.lastSeen ≤ w.now)
    (hn : w.now < 2 ^ 64) (h4 : k.l4 = IPPROTO_TCP ∨ (k.l4 = IPPROTO_UDP ∧ shortLivedUdp k = false)) :
    janitorDeletesConn false w.now (k, cs) =
      (if k.l4 = IPPROTO_TCP then tcpExpired cs w.now else udpExpired cs w.now) ∧
    (alookup w.conn k = some cs → expiredAt w k = false →
      alookup (janitor false w.now w).conn k = some cs) := by
  have hs := sub64_of_le w.now cs.lastSeen hl hn
  have hdel : janitorDeletesConn false w.now (k, cs) =
      (if k.l4 = IPPROTO_TCP then tcpExpired cs w.now else udpExpired cs w.now) := by
    unfold janitorDeletesConn janitorTimeout tcpExpired udpExpired
    rw [hs]
    rcases h4 with h | ⟨h, hsl⟩
    · have hne : ¬ (IPPROTO_TCP = IPPROTO_UDP) := by decide
      simp only [h, hne, if_false, if_true, Bool.false_eq_true, Nat.div_one]
      by_cases hst : cs.state = 1
      · simp only [hst, if_true]
        exact Bool.eq_iff_iff.mpr (by simp only [decide_eq_true_eq]; omega)
      · simp only [hst, if_false]
        exact Bool.eq_iff_iff.mpr (by simp only [decide_eq_true_eq]; omega)
    · have hne : ¬ (IPPROTO_UDP = IPPROTO_TCP) := by decide
      have hp : ¬ (k.sport = 53 ∨ k.dport = 53) := by
        unfold shortLivedUdp at hsl
        rw [h] at hsl
        simp only [beq_self_eq_true, Bool.true_and, Bool.or_eq_false_iff, beq_eq_false_iff_ne] at hsl
        intro hc; rcases hc with hc | hc
        · exact hsl.2 hc
        · exact hsl.1 hc
      simp only [h, hne, hp, if_false, if_true, Bool.false_eq_true, Nat.div_one]
      exact Bool.eq_iff_iff.mpr (by simp only [decide_eq_true_eq]; omega)
  refine ⟨hdel, ?_⟩
  intro hlk hexp
  unfold janitor
  simp only
  rw [alookup_filter_keep w.conn _ k]
  · exact hlk
  · intro v hv
    rw [hlk] at hv; injection hv with hv; subst hv
    rw [hdel]
    unfold expiredAt at hexp
    simp only [hlk] at hexp
    simp [hexp]

/-- **Under pressure the janitor HALVES every timeout** (an explicit deviation from the kernel's idle
timeouts, chosen by the control plane when `conn_state_map` is ≥ 70 % full or an overflow was counted):
an aggressive round deletes an established-TCP or UDP entry idle for more than 60 s and a closing TCP
entry idle for more than 5 s — entries the kernel still regards as live, so their flows stop being
tracked early (later TCP packets pass untouched, UDP is re-routed). -/
theorem aggressive_janitor_halves_timeouts (now : Nat) (k : Key) (cs : ConnState) (hl : cs.lastSeen ≤ now)
    (h4 : k.l4 = IPPROTO_TCP ∨ (k.l4 = IPPROTO_UDP ∧ shortLivedUdp k = false)) :
    janitorDeletesConn true now (k, cs) =
      decide (now - cs.lastSeen >
        (if k.l4 = IPPROTO_TCP ∧ cs.state = 1 then 5000000000 else 60000000000)) := by
  unfold janitorDeletesConn janitorTimeout
  rcases h4 with h | ⟨h, hsl⟩
  · have hne : ¬ (IPPROTO_TCP = IPPROTO_UDP) := by decide
    simp only [h, hne, if_false, if_true, true_and]
    by_cases hst : cs.state = 1
    · simp only [hst, if_true, TCP_CLOSING_TIMEOUT]
      exact Bool.eq_iff_iff.mpr (by simp only [decide_eq_true_eq]; omega)
    · simp only [hst, if_false, TCP_EST_TIMEOUT]
      exact Bool.eq_iff_iff.mpr (by simp only [decide_eq_true_eq]; omega)
  · have hne : ¬ (IPPROTO_UDP = IPPROTO_TCP) := by decide
    have hp : ¬ (k.sport = 53 ∨ k.dport = 53) := by
      unfold shortLivedUdp at hsl
      rw [h] at hsl
      simp only [beq_self_eq_true, Bool.true_and, Bool.or_eq_false_iff, beq_eq_false_iff_ne] at hsl
      intro hc; rcases hc with hc | hc
      · exact hsl.2 hc
      · exact hsl.1 hc
    simp only [h, hne, hp, if_false, if_true, false_and, UDP_TIMEOUT]
    exact Bool.eq_iff_iff.mpr (by simp only [decide_eq_true_eq]; omega)

/-- **Stickiness with a control plane that may touch `conn_state_map`** (janitor rounds, deletions of
other flows' entries, …): `sticky_decision` only needs that the entry of flow `k` ITSELF is as the
previous frame left it whenever a frame arrives (`KeyKept`) — which a steady-state janitor round
guarantees for every entry that is not past its idle timeout (`janitor_respects_idle_timeouts`). -/
theorem sticky_decision_janitor (k : Key) (d : Dec) (h4 : k.l4 = IPPROTO_TCP ∨ k.l4 = IPPROTO_UDP)
    (hsl : shortLivedUdp k = false) :
    ∀ (evs : List Event) (w : World), KeyKept k w evs → Tracked w k d → KeepsTracking k w evs →
      Follows k d w evs ∧ Tracked (run w evs) k d := by
  intro evs
  induction evs with
  | nil => intro w _ ht _; exact ⟨trivial, ht⟩
  | cons e es ih =>
    intro w hkept ht hkeep
    obtain ⟨hk1, hkrest'⟩ := hkept
    have ht1 : Tracked (e.pre w) k d := by
      obtain ⟨cs, hl, h⟩ := ht
      exact ⟨cs, by rw [hk1]; exact hl, h⟩
    obtain ⟨hk0, hkrest⟩ := hkeep
    have ht2 : Tracked (e.apply w).1 k d :=
      tracked_step e.rt (e.pre w) e.hook e.skb e.l2 k d h4 hsl hk0 ht1
    obtain ⟨ihf, iht⟩ := ih (e.apply w).1 hkrest' ht2 hkrest
    refine ⟨⟨?_, ihf⟩, iht⟩
    intro p hp hpk hcap
    obtain ⟨cs, hl, hr, hw, hd⟩ := ht1
    subst hpk
    have hh : e.hook = .lanIngress ∨ e.hook = .wanEgress := by
      rcases hcap with h | ⟨h, _⟩
      · exact Or.inl h
      · exact Or.inr h
    have hfk : frameKey e.hook e.skb e.l2 = some p.tuples.five := by
      rcases hh with h | h <;> simp [frameKey, h, hp]
    obtain ⟨hns, hexp⟩ := hk0 hfk
    unfold Event.isNewSyn at hns
    rw [isNewSyn_capture e.hook e.skb e.l2 p hh hp] at hns
    have hcap' : e.hook = .lanIngress ∨ (e.skb.ingressIf = 0 ∧ (pidIsControlPlane (e.pre w) e.skb).isCp = false) := by
      rcases hcap with h | ⟨_, h2, h3⟩
      · exact Or.inl h
      · exact Or.inr ⟨h2, h3⟩
    constructor
    · intro rt'
      exact ((tracked_capture e.rt rt' (e.pre w) e.hook e.skb e.l2 p cs hh hp h4 hsl hns hexp hl hr hw).2 hcap').1
    · intro hroom
      have := ((tracked_capture e.rt e.rt (e.pre w) e.hook e.skb e.l2 p cs hh hp h4 hsl hns hexp hl hr hw).2 hcap').2 hroom
      unfold Event.fate
      rw [← hd]
      exact this

/-! ## Frames the hooks do not route -/

/-- **Fragments, non-TCP/UDP protocols, ICMPv6 and unparsable frames are never routed**: when the
parser does not deliver a TCP/UDP packet, both capturing hooks leave the world untouched and either
pass the frame unmodified (positive parser codes: non-initial or first fragment, unsupported
protocol, ICMPv6, unknown ethertype) or drop it (malformed or truncated headers). -/
theorem unparsed_frames_not_routed (rt : RouteIn → Int) (w : World) (s : Skb) (l2 : Bool)
    (h : ∀ p, parsePacket s.raw l2 ≠ .pkt p) :
    (lanIngress rt w s l2 = (w, outOk s s.mark) ∨ lanIngress rt w s l2 = (w, outShot s)) ∧
    (wanEgress rt w s l2 = (w, outOk s s.mark) ∨ wanEgress rt w s l2 = (w, outShot s)) := by
  unfold lanIngress wanEgress
  cases hp : parsePacket s.raw l2 with
  | shot => exact ⟨Or.inr rfl, by split <;> simp⟩
  | pass => exact ⟨Or.inl rfl, by split <;> simp⟩
  | pkt p => exact absurd hp (h p)

/-- a non-initial IPv4 fragment is passed, not routed (L3 link type; the L2 case differs only by the
14-byte offset) -/
theorem ipv4_noninitial_fragment_passes (rt : RouteIn → Int) (w : World) (s : Skb)
    (hlin : s.raw.lin ≤ s.raw.bytes.length) (hproto : s.raw.proto = ETH_P_IP) (hlen : 20 ≤ s.raw.bytes.length)
    (hihl : 5 ≤ rd s.raw.bytes 0 % 16) (hfrag : be16 s.raw.bytes 6 % 8192 ≠ 0)
    (hnot6 : rd s.raw.bytes 9 ≠ IPPROTO_ICMPV6) :
    lanIngress rt w s false = (w, outOk s s.mark) := by
  unfold lanIngress parsePacket
  rw [parseTransport_eq_slow _ _ hlin]
  unfold parseSlow
  simp only [Bool.false_eq_true, if_false, hproto, if_true]
  unfold slowV4
  rw [loadBytes_of_le _ 0 20 (by omega)]
  have h5 : ¬ (rd (slice s.raw.bytes 0 20) 0 % 16 < 5) := by
    rw [rd_slice _ _ _ _ (by omega)]; simpa using hihl
  have hf : (be16 (slice s.raw.bytes 0 20) 6 % 8192 != 0) = true := by
    rw [be16_slice _ _ _ _ (by omega)]; simpa using hfrag
  simp only [h5, if_false, hf, if_true, pkOf]
  have h9 : ¬ (rd (slice s.raw.bytes 0 20) 9 = IPPROTO_ICMPV6) := by
    rw [rd_slice _ _ _ _ (by omega)]; simpa using hnot6
  simp [h9, PARSE_FRAGMENT]

/-! ## Idle timeouts (monotone clock) -/

/-- **Documented idle timeouts.**  With a monotone 64-bit clock, an entry is past its timeout exactly
when more than 120 s (10 s for a TCP entry that saw FIN/RST) passed since `last_seen_ns`; and a
packet leaves `last_seen_ns` at most one second behind the clock — so a flow whose packets are never
more than 119 s (9 s when closing) apart stays tracked, and one idle for more than 120 s (10 s) is
forgotten. -/
theorem idle_timeouts (cs : ConnState) (now : Nat) (h : cs.lastSeen ≤ now) (hn : now < 2 ^ 64) :
    tcpExpired cs now = decide (now - cs.lastSeen > (if cs.state = 1 then 10000000000 else 120000000000)) ∧
    udpExpired cs now = decide (now - cs.lastSeen > 120000000000) ∧
    (refresh cs now).lastSeen ≤ now ∧ now - (refresh cs now).lastSeen ≤ 1000000000 := by
  have hs := sub64_of_le now cs.lastSeen h hn
  refine ⟨?_, ?_, ?_, ?_⟩
  · unfold tcpExpired; rw [hs]; rfl
  · unfold udpExpired; rw [hs]; rfl
  · unfold refresh; rw [hs]; split <;> simp [h]
  · unfold refresh; rw [hs]
    split
    · simp
    · rename_i hh
      simp only [UPDATE_INTERVAL] at hh
      omega

/-! ## The record the control plane reads: byte layout -/

/-- **`struct conn_state` ↔ `bpfConnState`.**  Reading the 56-byte image the kernel program stores
at the Go struct's field offsets yields exactly the fields that were stored (for in-range values:
`u32` mark/pid, `u8` outbound/must/dscp/has_routing, 6-byte MAC, 16-byte name). -/
theorem conn_state_layout (c : ConnState) (h : c.WF) :
    (encConn c).length = 56 ∧
    goDecConn (encConn c) = ⟨c.hasRouting, ⟨c.mark, c.must, c.mac, c.outbound, c.pname, c.pid, c.dscp⟩⟩ := by
  obtain ⟨h1, h2, h3, h4, h5, h6, h7, h8⟩ := h
  refine ⟨encConn_length c, ?_⟩
  unfold goDecConn
  rw [conn_hasRouting, conn_mark, conn_must, conn_mac, conn_outbound, conn_pname, conn_pid, conn_dscp,
    leVal_le4 _ h1, leVal_le4 _ h2, fit_of_length 6 _ h7, fit_of_length 16 _ h8,
    Nat.mod_eq_of_lt h3, Nat.mod_eq_of_lt h4, Nat.mod_eq_of_lt h5, Nat.mod_eq_of_lt h6]

/-- **`struct routing_handoff_entry` ↔ `bpfRoutingHandoffEntry`.** -/
theorem handoff_layout (x : Handoff) (h : x.WF) :
    (encHandoff x).length = 48 ∧ goDecHandoff (encHandoff x) = x := by
  obtain ⟨h0, h1, h2, h3, h4, h5, h7, h8⟩ := h
  refine ⟨encHandoff_length x, ?_⟩
  unfold goDecHandoff goDecResult
  simp only [Nat.reduceAdd]
  rw [ho_lastSeen, ho_mark, ho_must, ho_mac, ho_outbound, ho_pname, ho_pid, ho_dscp,
    leVal_le8 _ h0, leVal_le4 _ h1, leVal_le4 _ h2, fit_of_length 6 _ h7, fit_of_length 16 _ h8,
    Nat.mod_eq_of_lt h3, Nat.mod_eq_of_lt h4, Nat.mod_eq_of_lt h5]

/-- **Lookup key.**  The key `bpfTuplesKeyFromAddrPorts` builds for (src, dst, l4proto) is byte for
byte the `struct tuples_key` the kernel program stored the entry under (40 bytes: addresses in
network order, ports in network order, protocol, three zero bytes), and distinct in-range tuples have
distinct key bytes. -/
theorem lookup_key_layout (k : Key) :
    goKey k.sip k.sport k.dip k.dport k.l4 = encKey k ∧ (encKey k).length = 40 ∧
    ∀ k', k.WF → k'.WF → encKey k = encKey k' → k = k' :=
  ⟨rfl, encKey_length k, fun k' h h' e => encKey_inj k k' h h' e⟩

/-- **The control plane reads back what the kernel program stored.**  Running `RetrieveRoutingResult`
the way the Go code does — on the raw key/value BYTES of `conn_state_map` and `routing_handoff_map`,
through the bpf2go struct layouts — gives exactly the result of `retrieve` on the structured world
the hook theorems talk about (all stored values in range for their C types). -/
theorem retrieve_reads_the_stored_bytes (w : World) (k : Key) (t : Nat) (hw : w.WF) (hk : k.WF) :
    retrieveGo (connImage w) (handoffImage w) k.sip k.sport k.dip k.dport k.l4 t = retrieve w k t := by
  unfold retrieveGo retrieve connImage handoffImage
  have hkey : goKey k.sip k.sport k.dip k.dport k.l4 = encKey k := rfl
  simp only [hkey]
  rw [alookup_image w.conn encConn k (fun p hp => (hw.1 p hp).1) hk,
    alookup_image w.handoff encHandoff k (fun p hp => (hw.2 p hp).1) hk]
  have hc : ∀ cs, alookup w.conn k = some cs → goDecConn (encConn cs) =
      ⟨cs.hasRouting, ⟨cs.mark, cs.must, cs.mac, cs.outbound, cs.pname, cs.pid, cs.dscp⟩⟩ :=
    fun cs hl => (conn_state_layout cs (hw.1 _ (alookup_mem _ _ _ hl)).2).2
  have hh : ∀ x, alookup w.handoff k = some x → goDecHandoff (encHandoff x) = x :=
    fun x hl => (handoff_layout x (hw.2 _ (alookup_mem _ _ _ hl)).2).2
  by_cases h4 : k.l4 = IPPROTO_TCP ∨ k.l4 = IPPROTO_UDP
  · cases hlc : alookup w.conn k with
    | none =>
      cases hlh : alookup w.handoff k with
      | none => simp [h4]
      | some x => simp [h4, hh x hlh]
    | some cs =>
      by_cases hr : cs.hasRouting = 0
      · cases hlh : alookup w.handoff k with
        | none => simp [h4, hc cs hlc, hr]
        | some x => simp [h4, hc cs hlc, hr, hh x hlh]
      · cases hlh : alookup w.handoff k with
        | none => simp [h4, hc cs hlc, hr]
        | some x => simp [h4, hc cs hlc, hr]
  · cases hlc : alookup w.conn k with
    | none =>
      cases hlh : alookup w.handoff k with
      | none => simp [h4]
      | some x => simp [h4, hh x hlh]
    | some cs =>
      cases hlh : alookup w.handoff k with
      | none => simp [h4]
      | some x => simp [h4, hh x hlh]

/-! ## Who counts as dae, which bit is the health bit -/

/-- **How dae's own packets are recognised** (`pid_is_control_plane`): if the frame's socket cookie is
in `cookie_pid_map`, the pid recorded for it must equal `PARAM.control_plane_pid` (and that must be
set); otherwise the skb mark must equal dae's socket mark (when one is configured) or carry bit
0x100. -/
theorem dae_recognition (w : World) (s : Skb) :
    (pidIsControlPlane w s).isCp =
      match alookup w.cookies s.cookie with
      | some pp => w.param.ctlPid != 0 && pp.pid == w.param.ctlPid
      | none => (w.param.sockMark != 0 && s.mark == w.param.sockMark) || s.mark % 512 / 256 == 1 := by
  unfold pidIsControlPlane
  cases alookup w.cookies s.cookie with
  | none => rfl
  | some pp =>
    simp only
    by_cases h : w.param.ctlPid = 0
    · simp [h]
    · simp [h]

/-- **The health bit of a group** is slot `outbound*6 + 2*domain + family` of
`outbound_connectivity_map` with domain 0 = TCP, 2 = data UDP, family 0 = IPv4 (by `skb->protocol`),
1 = IPv6 — the slot the control plane's `outboundConnectivityMapKey` writes (compared on every run) —
and destination port 53 is always let through. -/
theorem group_health_bit (w : World) (s : Skb) (l4 dport ob : Nat) (hob : ob < 256) :
    groupUp w s l4 dport ob =
      (dport == 53 ||
        aliveAt w (ob * 6 + (if l4 = IPPROTO_UDP then 4 else 0) + (if s.raw.proto = ETH_P_IP then 0 else 1)) != 0) := by
  unfold groupUp wanAlive
  by_cases h53 : dport = 53
  · simp [h53]
  · have hb : (dport == 53) = false := by simp [h53]
    simp only [h53, if_false, hb, Bool.false_or, Nat.mod_eq_of_lt hob]
    have hk : ob * 6 + (if l4 = IPPROTO_UDP then 2 else 0) * 2 + (if s.raw.proto = ETH_P_IP then 0 else 1) < CONNECTIVITY_MAX := by
      unfold CONNECTIVITY_MAX
      split <;> split <;> omega
    simp only [hk, if_true]
    congr 2
    split <;> rfl

/-! ## Non-vacuity: concrete frames and worlds meeting the hypotheses

`exSyn` is the 54-byte Ethernet/IPv4/TCP frame 192.168.1.10:40000 → 1.2.3.4:443 with SYN set,
`exAck` the same with ACK only, `exDns` a UDP datagram to port 53; `exK` the flow's 5-tuple. -/

def exHdr : Bytes :=
  [2,0,0,0,0,2, 2,0,0,0,0,1, 8,0,
   0x45,0,0,0x28,0,0,0,0,0x40,6,0,0,192,168,1,10,1,2,3,4]
def exSynBytes : Bytes := exHdr ++ [0x9c,0x40,0x01,0xbb,0,0,0,1,0,0,0,2,0x50,0x02,0x03,0xe8,0,0,0,0]
def exAckBytes : Bytes := exHdr ++ [0x9c,0x40,0x01,0xbb,0,0,0,1,0,0,0,2,0x50,0x10,0x03,0xe8,0,0,0,0]
def exSyn : Skb := ⟨⟨exSynBytes, 54, true, 0x0800⟩, 3, 3, 0, 0, none⟩
def exAck : Skb := ⟨⟨exAckBytes, 54, true, 0x0800⟩, 3, 3, 0, 0, none⟩
/-- the same SYN leaving the host through the WAN hook, socket cookie 5 -/
def exSynWan : Skb := ⟨⟨exSynBytes, 20, false, 0x0800⟩, 0, 2, 0, 5, none⟩
def exK : Key := ⟨281473913979146, 281470698652420, 40000, 443, 6⟩
def exSynPkt : Pkt := ⟨2048, [2,0,0,0,0,1], [2,0,0,0,0,2], ⟨exK, 0⟩, true, false, false, false, 6, 6⟩
def exAckPkt : Pkt := ⟨2048, [2,0,0,0,0,1], [2,0,0,0,0,2], ⟨exK, 0⟩, false, true, false, false, 6, 0⟩
/-- group 2, alive for (tcp, IPv4) -/
def exWorld : World := { alive := [(12, 1)] }
/-- flow `exK` tracked with decision (group 2, mark 0, not must) -/
def exTracked : World :=
  { exWorld with conn := [(exK, ⟨false, 0, 1000000000, 0, 2, 0, 0, 1, [2,0,0,0,0,1], zeros 16, 0⟩)] }
/-- dae is pid 777 behind cookie 5 -/
def exDaeWorld : World := { exTracked with cookies := [(5, ⟨0, 777, zeros 16⟩)], param := { ctlPid := 777 } }

-- both parse paths deliver the packet (fast path on the linear frame; byte-load path when only 20
-- bytes are linear and the pull failed)
example : parsePacket exSyn.raw true = .pkt exSynPkt ∧ parsePacket exSynWan.raw true = .pkt exSynPkt ∧
    parsePacket exAck.raw true = .pkt exAckPkt := by decide

-- `lan_new_tcp_connection`: all hypotheses hold for `exSyn` in `exWorld` with a rule program that
-- answers "group 2", and the fate is a hand-over to dae
example : parsePacket exSyn.raw true = .pkt exSynPkt ∧ exSynPkt.l4proto = IPPROTO_TCP ∧ exSynPkt.syn = true ∧
    exSynPkt.ack = false ∧ (0 : Int) ≤ (fun _ => (2 : Int)) (lanRouteIn exSyn exSynPkt) ∧
    connRoom exWorld exSynPkt.tuples.five ∧ rtrackRoom exWorld exSyn exSynPkt ∧
    lanFate exWorld exSyn exSynPkt (unpackRoute 2) = .toDae := by
  refine ⟨by decide, rfl, rfl, rfl, by decide, by unfold connRoom; decide, Or.inr (by decide), by decide⟩

-- the map-full case of `lan_new_tcp_map_full`
example : ¬ connRoom { exWorld with connCap := 0 } exK := by unfold connRoom; decide

-- `lan_tracked_tcp_follows_cache` / `sticky_decision`: a tracked, live flow and a run of two frames
-- of it (an ACK on LAN ingress with the rules swapped to "block", then the same on WAN egress)
example : Tracked exTracked exK ⟨2, 0, 0⟩ ∧ tcpLive exTracked exK false ≠ none ∧
    (exK.l4 = IPPROTO_TCP ∨ exK.l4 = IPPROTO_UDP) ∧ shortLivedUdp exK = false ∧
    KeepsTracking exK exTracked
      [⟨fun _ => 1, id, .lanIngress, exAck, true⟩, ⟨fun _ => 0, fun w => { w with now := w.now + 5000000000 }, .lanIngress, exAck, true⟩] ∧
    EnvOk ⟨fun _ => 0, fun w => { w with now := w.now + 5000000000 }, .lanIngress, exAck, true⟩ := by
  refine ⟨⟨_, rfl, by decide, rfl, rfl⟩, by decide, Or.inl rfl, by decide, ⟨fun _ => ⟨by decide, by decide⟩,
    fun _ => ⟨by decide, by decide⟩, trivial⟩, fun _ => rfl⟩

-- `dae_tcp_syn_passes_and_clears` / `dae_connection_never_recaptured`: dae's SYN on a 5-tuple whose
-- earlier (proxied) flow is still tracked; afterwards an ACK of dae's connection is not a new connection
example : exSynWan.ingressIf = 0 ∧ (pidIsControlPlane exDaeWorld exSynWan).isCp = true ∧
    Tracked exDaeWorld exK ⟨2, 0, 0⟩ ∧
    NoNewConnection exK (wanEgress (fun _ => 2) exDaeWorld exSynWan true).1
      [⟨fun _ => 2, id, .wanEgress, { exAck with ingressIf := 0, cookie := 9 }, true⟩] := by
  refine ⟨rfl, by decide, ⟨_, rfl, by decide, rfl, rfl⟩, ⟨fun p hp _ hs => ?_, trivial⟩⟩
  have : p = exAckPkt := by
    have h2 : parsePacket exAck.raw true = .pkt exAckPkt := by decide
    have h3 : parsePacket ({ exAck with ingressIf := 0, cookie := 9 } : Skb).raw true = .pkt exAckPkt := h2
    rw [h3] at hp; injection hp with hp; exact hp.symm
  subst this
  exact absurd hs (by decide)

-- `wan_ingress_syn_marks_reverse_tuple` / `wan_originated_tcp_replies_pass`: the SYN seen from the WAN side
def exSynCtx : Ctx :=
  { ethProto := 2048, ethSrc := [2,0,0,0,0,1], ethDst := [2,0,0,0,0,2], ipVersion := 4, ipSaddr := [192,168,1,10],
    ipDaddr := [1,2,3,4], l4proto := 6, listener := 6, tcpSport := 40000, tcpDport := 443, tcpSyn := true }
example : parseTransport exSyn.raw true = .ret 0 exSynCtx ∧ exSynCtx.l4proto = IPPROTO_TCP ∧
    exSynCtx.tcpSyn = true ∧ exSynCtx.tcpAck = false ∧ connRoom exWorld (getTuples exSynCtx).five.rev := by
  refine ⟨by decide, rfl, rfl, rfl, by unfold connRoom; decide⟩

-- `wan_originated_udp_replies_pass`: a live WAN-originated UDP entry
example : WanOriginated ({ conn := [(⟨1, 2, 5000, 6000, 17⟩, ⟨true, 0, 1000000000, 0, 0, 0, 0, 0, zeros 6, zeros 16, 0⟩)] } : World)
    ⟨1, 2, 5000, 6000, 17⟩ ∧ shortLivedUdp ⟨1, 2, 5000, 6000, 17⟩ = false :=
  ⟨⟨_, rfl, rfl, rfl⟩, by decide⟩

-- `conn_state_layout` / `handoff_layout`: in-range records exist
example : (⟨false, 0, 5, 0xffffffff, 2, 1, 63, 1, [1,2,3,4,5,6], zeros 16, 4242⟩ : ConnState).mark < 2 ^ 32 ∧
    ([1,2,3,4,5,6] : Bytes).length = 6 ∧ (zeros 16).length = 16 := by decide

-- `retrieve_reads_the_stored_bytes`: a world with a stored entry whose values are all in range
example : exTracked.WF ∧ exK.WF := by
  refine ⟨⟨?_, ?_⟩, ?_⟩
  · intro p hp
    have : p = (exK, ⟨false, 0, 1000000000, 0, 2, 0, 0, 1, [2,0,0,0,0,1], zeros 16, 0⟩) := by
      simpa [exTracked] using hp
    subst this
    exact ⟨by unfold Key.WF; decide, by unfold ConnState.WF; decide⟩
  · intro p hp; simp [exTracked, exWorld] at hp
  · unfold Key.WF; decide

/-- a DNS query of the same LAN client: UDP 192.168.1.10:40000 → 1.2.3.4:53 -/
def exDnsBytes : Bytes :=
  [2,0,0,0,0,2, 2,0,0,0,0,1, 8,0,
   0x45,0,0,0x1c,0,0,0,0,0x40,17,0,0,192,168,1,10,1,2,3,4, 0x9c,0x40,0,53,0,8,0,0]
def exDns : Skb := ⟨⟨exDnsBytes, 42, true, 0x0800⟩, 3, 3, 0, 0, none⟩
def exDnsK : Key := ⟨281473913979146, 281470698652420, 40000, 53, 17⟩
def exDnsPkt : Pkt := ⟨2048, [2,0,0,0,0,1], [2,0,0,0,0,2], ⟨exDnsK, 0⟩, false, false, false, false, 17, 17⟩

-- `lan_dns_datagram` / `dns_tuples_never_hold_a_decision` / `handoff_full_behaviour`: the hypotheses hold in the
-- EMPTY world (every health bit 0): the datagram is stateless, and the fate of "group 2" is a hand-over although
-- the group is dead (port 53 is always let through)
example : parsePacket exDns.raw true = .pkt exDnsPkt ∧ exDnsPkt.l4proto = IPPROTO_UDP ∧
    shortLivedUdp exDnsPkt.tuples.five = true ∧ lanLocalSocket {} exDns exDnsPkt = false ∧
    rtrackRoom {} exDns exDnsPkt ∧ handoffRoom {} exDnsPkt.tuples.five ∧
    NoDecision {} exDnsPkt.tuples.five ∧ (0 < ({} : World).now) ∧
    lanFate {} exDns exDnsPkt (unpackRoute 2) = .toDae ∧ groupUp {} exDns 6 443 2 = false := by
  refine ⟨by decide, rfl, by decide, by decide, Or.inr (by decide), Or.inr (by decide), ?_, by decide, by decide,
    by decide⟩
  intro cs hl; cases hl

-- `lan_routing_error_fails_closed`: a rule program without any hit (`route()` = -EPERM) and a packet the hook routes
example : LanConsultsRoute exWorld exSyn exSynPkt ∧ (fun _ => (-1 : Int)) (lanRouteIn exSyn exSynPkt) < 0 ∧
    LanConsultsRoute {} exDns exDnsPkt :=
  ⟨Or.inl ⟨rfl, rfl, rfl⟩, by decide, Or.inr ⟨rfl, by decide, Or.inl (by decide)⟩⟩

-- `reverse_syn_restarts_tracking_as_wan_originated`: `exSyn` read as a frame arriving on WAN ingress is the reverse
-- pure SYN of the flow 1.2.3.4:443 → 192.168.1.10:40000, which may well be tracked
example : parseTransport exSyn.raw true = .ret 0 exSynCtx ∧ exSynCtx.l4proto = IPPROTO_TCP ∧
    exSynCtx.tcpSyn = true ∧ exSynCtx.tcpAck = false ∧
    Tracked ({ conn := [((getTuples exSynCtx).five.rev, ⟨false, 0, 1000000000, 0, 2, 0, 0, 1, zeros 6, zeros 16, 0⟩)] } : World)
      (getTuples exSynCtx).five.rev ⟨2, 0, 0⟩ :=
  ⟨by decide, rfl, rfl, rfl, ⟨⟨false, 0, 1000000000, 0, 2, 0, 0, 1, zeros 6, zeros 16, 0⟩, by decide, by decide, rfl, rfl⟩⟩

end DaeVerif.C03.Props
