import DaeVerif.C03.ParseProofs
/-!
# C03 — property theorems

Only statements a reader should audit live here (namespace `DaeVerif.C03.Props`); helper lemmas are
in `ParseProofs.lean` / `Proofs.lean`.  Every theorem is followed by a non-vacuity `example`.
-/
namespace DaeVerif.C03.Props
open DaeVerif.C03

/-- **Parse-path independence (headers).**  For every frame whose linear area is a prefix of the
skb, whichever of the two parsers ends up handling it — the fast one on the linear bytes, or the
byte-load fallback after the fast one gave up (`bpf_skb_pull_data` failed, or a header crosses the
end of the linear area) — `parse_transport` returns the same code and the same consumed header
fields: namely those the byte-load parser computes from the whole skb.  In particular the result
does not depend on `lin` or on `pullOk`. -/
theorem parse_path_independent (bytes : Bytes) (proto : Nat) (l2 : Bool)
    (lin₁ lin₂ : Nat) (pull₁ pull₂ : Bool) (h₁ : lin₁ ≤ bytes.length) (h₂ : lin₂ ≤ bytes.length) :
    parseTransport ⟨bytes, lin₁, pull₁, proto⟩ l2 = parseTransport ⟨bytes, lin₂, pull₂, proto⟩ l2 := by
  rw [parseTransport_eq_slow _ _ h₁, parseTransport_eq_slow _ _ h₂]
  rfl

end DaeVerif.C03.Props
