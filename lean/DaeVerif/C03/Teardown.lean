import DaeVerif.C03.PropsFrame
import DaeVerif.C03.Dae0Props
import DaeVerif.C03.HookProofs
/-!
# C03 — two places where tracking is NOT what the kernel's idle timeout alone would give

* **Userspace endpoint teardown** (`UdpEndpoint.Close` → `releaseTrackedUdpConnState` →
  `controlPlaneCore.ReleaseUdpConnStateTuples`): every (source, destination) pair a UDP endpoint forwarded
  is registered with it (`TrackUdpConnStateTuplePair`: forward and reversed key); when the endpoint goes
  away — NAT timeout of the userspace endpoint: `DefaultNatTimeout` 30 s, 17 s for DNS payloads, 120 s only
  for QUIC / proxy-backed dialers; also dialer death and short writes — and it was the last owner, both
  `conn_state_map` entries are deleted.  tproxy.c says so itself ("120-second backstop; userspace endpoint
  teardown is the primary owner").  So tracking of a handed-over UDP flow ends at
  min(kernel idle timeout, lifetime of its userspace endpoint).
* **UDP port 53 is never marked WAN-originated**: `do_tproxy_wan_ingress` / `do_tproxy_lan_egress` return
  before `mark_udp_seen` when the source OR destination port is 53, so the reply of a local / LAN service
  listening on UDP 53 to a client on the WAN side is an ordinary stateless port-53 datagram for the
  capturing hooks: routed under the current rules, handed to dae under a proxy decision
  (open finding `c03-wan-opened-udp53-reply-captured`).
-/
namespace DaeVerif.C03

/-- `ReleaseUdpConnStateTuples` of the last owner for one tracked pair -/
def releaseUdp (w : World) (k : Key) : World := { w with conn := aerase (aerase w.conn k) k.rev }

theorem releaseUdp_rest (w : World) (k : Key) : (releaseUdp w k).rest = w.rest := rfl

end DaeVerif.C03

namespace DaeVerif.C03.Props
open DaeVerif.C03

/-- **Endpoint teardown ends tracking.**  After the control plane released a UDP flow's tuples (its
userspace endpoint was closed) neither direction has a conn-state entry any more, no other flow and no
other map is affected, and the flow's next datagram on the LAN hook is a NEW flow: it gets the fate the
CURRENT rule program earns, whatever decision the deleted entry held — stickiness (`sticky_decision_janitor`)
holds exactly up to this step (`KeyKept` = "no release of this flow yet"). -/
theorem endpoint_teardown_ends_tracking (rt : RouteIn → Int) (w : World) (s : Skb) (l2 : Bool) (p : Pkt)
    (hp : parsePacket s.raw l2 = .pkt p) (ht : p.l4proto = IPPROTO_UDP)
    (hsl : shortLivedUdp p.tuples.five = false)
    (hc : connRoom (releaseUdp w p.tuples.five) p.tuples.five)
    (hls : lanLocalSocket (releaseUdp w p.tuples.five) s p = false)
    (hr : 0 ≤ rt (lanRouteIn s p)) (hrt : rtrackRoom (releaseUdp w p.tuples.five) s p) :
    alookup (releaseUdp w p.tuples.five).conn p.tuples.five = none ∧
    alookup (releaseUdp w p.tuples.five).conn p.tuples.five.rev = none ∧
    (∀ k', k' ≠ p.tuples.five → k' ≠ p.tuples.five.rev →
      alookup (releaseUdp w p.tuples.five).conn k' = alookup w.conn k') ∧
    (releaseUdp w p.tuples.five).rest = w.rest ∧
    (lanIngress rt (releaseUdp w p.tuples.five) s l2).2.realises (releaseUdp w p.tuples.five) s true
      (lanFate (releaseUdp w p.tuples.five) s p (unpackRoute (rt (lanRouteIn s p)))) := by
  have h1 : alookup (releaseUdp w p.tuples.five).conn p.tuples.five = none := by
    show alookup (aerase (aerase w.conn p.tuples.five) p.tuples.five.rev) p.tuples.five = none
    by_cases he : p.tuples.five = p.tuples.five.rev
    · rw [← he]; exact alookup_aerase_self _ _
    · rw [alookup_aerase_ne _ _ _ he]; exact alookup_aerase_self _ _
  have hlive : udpLive (releaseUdp w p.tuples.five) p.tuples.five = none := by
    unfold udpLive; rw [h1]
  refine ⟨h1, alookup_aerase_self _ _, ?_, rfl, ?_⟩
  · intro k' hk hkr
    show alookup (aerase (aerase w.conn p.tuples.five) p.tuples.five.rev) k' = _
    rw [alookup_aerase_ne _ _ _ hkr, alookup_aerase_ne _ _ _ hk]
  · exact (lan_new_udp_flow rt _ s l2 p hp ht hsl (fun cs h => by rw [hlive] at h; cases h) (fun _ => hc) hls hr hrt).1

/-- **UDP port 53 leaves no trace on the observing hooks**: a parsed UDP frame with source or destination
port 53 on WAN ingress / LAN egress changes nothing at all — in particular the reversed tuple is NOT
marked as opened from the WAN side. -/
theorem port53_udp_is_not_marked_wan_originated (rt : RouteIn → Int) (w : World) (h : Hook) (s : Skb) (l2 : Bool)
    (c : Ctx) (hh : h = .wanIngress ∨ h = .lanEgress) (hp : parseTransport s.raw l2 = .ret 0 c)
    (hu : c.l4proto = IPPROTO_UDP) (h53 : c.udpSport = 53 ∨ c.udpDport = 53) :
    step rt w h s l2 = (w, outPipe s) := by
  have hne : ¬ (IPPROTO_UDP = IPPROTO_TCP) := by decide
  have hn6 : ¬ (IPPROTO_UDP = IPPROTO_ICMPV6) := by decide
  have hb : (decide (c.udpSport = 53) || decide (c.udpDport = 53)) = true := by
    rcases h53 with h | h <;> simp [h]
  have hrr : reverseRefresh w c = w := by
    unfold reverseRefresh
    simp only [hu, hne, if_false, if_true, hb]
  rcases hh with hh | hh <;> subst hh
  · show wanIngress w s l2 = _
    unfold wanIngress
    rw [hp]
    simp only [bne_self_eq_false, Bool.false_eq_true, if_false, hrr]
  · show lanEgress w s l2 = _
    unfold lanEgress
    rw [hp]
    simp only [bne_self_eq_false, Bool.false_eq_true, if_false, hrr, hu, hn6, decide_false, Bool.and_false,
      Bool.false_and]

/-- **OPEN FINDING `c03-wan-opened-udp53-reply-captured`, exact scope.**  A client on the WAN side sends a
datagram to a local service on UDP port 53 (`q`, seen by WAN ingress); the service's reply (`s`, WAN egress,
not dae's own socket, source port 53) is then NOT passed as the reply of a WAN-opened flow: the inbound
datagram left the world unchanged, and the reply gets the fate the current rule program earns for a
stateless port-53 datagram — handed to dae under a live proxy decision, dropped under block.  (For any
other port `wan_originated_udp_replies_pass` applies.) -/
theorem wan_opened_udp53_service_reply_is_routed (rt : RouteIn → Int) (w : World) (q s : Skb) (lq l2 : Bool)
    (cq : Ctx) (p : Pkt)
    (hq : parseTransport q.raw lq = .ret 0 cq) (hqu : cq.l4proto = IPPROTO_UDP) (hq53 : cq.udpDport = 53)
    (hi : s.ingressIf = 0) (hp : parsePacket s.raw l2 = .pkt p) (ht : p.l4proto = IPPROTO_UDP)
    (hs53 : p.tuples.five.sport = 53) (hcp : (pidIsControlPlane w s).isCp = false)
    (hr : 0 ≤ rt (wanRouteIn s p false (ppName (pidIsControlPlane w s).pp) p.ethSrc)) (hrt : rtrackRoom w s p)
    (hh : handoffRoom w p.tuples.five)
    (hnc : ∀ cs, alookup w.conn p.tuples.five = some cs → cs.hasRouting = 0) (hnow : 0 < w.now) :
    (step rt w .wanIngress q lq).1 = w ∧
    (wanEgress rt (step rt w .wanIngress q lq).1 s l2).2.realises w s false
      (wanFate w s p (unpackRoute (rt (wanRouteIn s p false (ppName (pidIsControlPlane w s).pp) p.ethSrc)))) := by
  have h1 := port53_udp_is_not_marked_wan_originated rt w .wanIngress q lq cq (Or.inl rfl) hq hqu (Or.inr hq53)
  have hw : (step rt w .wanIngress q lq).1 = w := by rw [h1]
  have hsl : shortLivedUdp p.tuples.five = true := by
    have hl4 : p.tuples.five.l4 = IPPROTO_UDP := by rw [parsePacket_l4 hp, ht]
    unfold shortLivedUdp
    simp [hl4, hs53]
  refine ⟨hw, ?_⟩
  rw [hw]
  exact (wan_dns_datagram rt w s l2 p hi hp ht hsl hcp hr hrt hh hnc hnow).1

end DaeVerif.C03.Props
