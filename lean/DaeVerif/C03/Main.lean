import DaeVerif.C03.Layout
import DaeVerif.C03.RouteOf
import DaeVerif.C03.Janitor
import DaeVerif.C03.Dae0
import DaeVerif.C03.Consumer
import DaeVerif.C03.Pressure
import DaeVerif.C03.Teardown
import DaeVerif.C03.Cgroup
import DaeVerif.C03.Janitor2
import DaeVerif.C03.ParamLayout
import DaeVerif.C03.OrigDst
import DaeVerif.C03.Fault
import DaeVerif.Common.Proto
/-!
Line-protocol driver for C03.  The SAME op file is read by the native C driver
(`harness/c/c03_driver.c`, which runs the real TC programs of `control/kern/tproxy.c`); the op
grammar is documented there.  `route()` is `rtOf` (`RouteOf.lean`): C02's `routeK` on the installed
`routing_map` / `domain_routing_map` images — the very function the composition theorems of
`Compose.lean` are about.
-/
open DaeVerif DaeVerif.Proto DaeVerif.C03

structure St where
  w : World := {}
  maps : C02.KMaps := C02.KMaps.empty
  /-- the skb as the last `frame` op left it: mark, cb[0], cb[1], `skb->protocol` -/
  last : Nat × Nat × Nat × Nat := (0, 0, 0, 0)
  /-- the control plane's UDP endpoints with their routing caches, its clock, `udpRouteScopeSensitive` -/
  us : UState := {}
  scope : Bool := false
  /-- tuning constants read from the code (`cfg` op) -/
  relay : RelayCfg := {}
  pressure : PressureCfg := {}
  /-- `ControlPlane.soMarkFromDae` -/
  soMark : Nat := 0
  /-- `max_entries` of `cookie_pid_map` -/
  ckCap : Nat := COOKIE_PID_MAX
  /-- keys a janitor's `BatchLookup` walk collected (`jsnap`), to be deleted by `jdel` -/
  plan : JanPlan := {}

def hx (b : Bytes) : String := bytesToHex b

/-- entries added/changed (`+k:v`) or removed (`-k`), in key order -/
def diffMaps (before after : List (String × String)) : String :=
  let keys := ((before.map (·.1)) ++ (after.map (·.1))).eraseDups.mergeSort (fun a b => a ≤ b)
  let items := keys.filterMap fun k =>
    match before.lookup k, after.lookup k with
    | none, some v => some s!"+{k}:{v}"
    | some _, none => some s!"-{k}"
    | some v0, some v => if v0 = v then none else some s!"+{k}:{v}"
    | none, none => none
  "[" ++ ";".intercalate items ++ "]"

def dumpMap (m : List (String × String)) : String :=
  let sorted := m.mergeSort (fun a b => a.1 ≤ b.1)
  "[" ++ ";".intercalate (sorted.map fun p => s!"{p.1}:{p.2}") ++ "]"

def connImg (w : World) : List (String × String) := w.conn.map fun p => (hx (encKey p.1), hx (encConn p.2))
def hoImg (w : World) : List (String × String) := w.handoff.map fun p => (hx (encKey p.1), hx (encHandoff p.2))
def rtImg (w : World) : List (String × String) := w.rtrack.map fun p => (hx (encRKey p.1), hx (encREntry p.2))
def ckImg (w : World) : List (String × String) := w.cookies.map fun p => (hx (le 8 p.1), hx (encPidPname p.2))

def consumedStr : PR → String
  | .fallback => "-1"
  | .efault => "-14"
  | .ret code c =>
    s!"{code}:{c.ethProto}:{hx c.ethSrc}:{hx c.ethDst}:{if c.ipVersion = 4 then 1 else 0}:{hx c.ipSaddr}:{hx c.ipDaddr}:" ++
    s!"{c.ipTos}:{hx c.v6Saddr}:{hx c.v6Daddr}:{c.v6b0 % 16 * 4 + c.v6b1 / 64}:{c.l4proto}:{c.listener}:" ++
    s!"{c.tcpSport}:{c.tcpDport}:{boolStr c.tcpSyn}{boolStr c.tcpAck}{boolStr c.tcpFin}{boolStr c.tcpRst}:" ++
    s!"{c.udpSport}:{c.udpDport}:{c.icmpType}"

/-- `-` or `<proto>:<mark>:<state>:<netns>:<tuple hex>` -/
def parseSk? (t : String) : Option (Option SockEntry) :=
  if t = "-" then some none
  else match t.splitOn ":" with
    | [pr, a, b, ns, tu] => do
      let pr ← pr.toNat?; let a ← a.toNat?; let b ← b.toNat?; let ns ← ns.toNat?; let tu ← hexToBytes? tu
      pure (some ⟨pr, a, b, ns, tu⟩)
    | _ => none

def parseLpmKey? (tok : String) : Option C12.LpmKey := do
  match tok.splitOn ":" with
  | [l, h] =>
    if h.length != 32 then none else
    let l ← l.toNat?; let d ← hexToNat? h; pure ⟨l, d⟩
  | _ => none

def parseHook? : String → Option Hook
  | "li" => some .lanIngress
  | "le" => some .lanEgress
  | "wi" => some .wanIngress
  | "we" => some .wanEgress
  | _ => none

def frameBytes? (t : String) : Option Bytes := if t = "-" then some [] else hexToBytes? t

def wordsLE (bs : List Nat) : Nat → List Nat
  | 0 => []
  | n + 1 => wordsLE bs n ++ [C02.rd32 .little bs (4 * n)]

def rrStr : Option RResult → String
  | none => "rr=notfound"
  | some r => s!"rr={r.outbound}:{r.mark}:{r.must}:{r.dscp}:{hx (fit 6 r.mac)}:{hx (fit 16 r.pname)}:{r.pid}"

def constTable : List (String × Nat) := [
  ("OUTBOUND_DIRECT", OUTBOUND_DIRECT), ("OUTBOUND_BLOCK", OUTBOUND_BLOCK),
  ("OUTBOUND_MUST_RULES", C02.OB_MustRules), ("OUTBOUND_CONTROL_PLANE_ROUTING", C02.OB_ControlPlane),
  ("TPROXY_MARK", TPROXY_MARK), ("TC_ACT_OK", TC_ACT_OK), ("TC_ACT_SHOT", TC_ACT_SHOT), ("TC_ACT_PIPE", TC_ACT_PIPE),
  ("TC_ACT_REDIRECT", TC_ACT_REDIRECT),
  ("UDP_CONN_STATE_TIMEOUT_NS", UDP_TIMEOUT), ("UDP_CONN_STATE_UPDATE_INTERVAL_NS", UPDATE_INTERVAL),
  ("TCP_CONN_STATE_ESTABLISHED_TIMEOUT_NS", TCP_EST_TIMEOUT), ("TCP_CONN_STATE_CLOSING_TIMEOUT_NS", TCP_CLOSING_TIMEOUT),
  ("TCP_CONN_STATE_UPDATE_INTERVAL_NS", UPDATE_INTERVAL),
  ("IPV6_MAX_EXTENSIONS", IPV6_MAX_EXTENSIONS), ("PARSE_FRAGMENT", PARSE_FRAGMENT), ("NDP_REDIRECT", NDP_REDIRECT),
  ("TCP_STATE_ACTIVE", 0), ("TCP_STATE_CLOSING", 1), ("BPF_TCP_LISTEN", BPF_TCP_LISTEN),
  ("DAE_EVENT_BLOCKED", EV_BLOCKED), ("DAE_EVENT_UDP_CONN_OVERFLOW", EV_UDP_OVERFLOW),
  ("DAE_EVENT_TCP_CONN_OVERFLOW", EV_TCP_OVERFLOW),
  ("sizeof_tuples_key", 40), ("off_tuples_key_sip", 0), ("off_tuples_key_dip", 16), ("off_tuples_key_sport", 32),
  ("off_tuples_key_dport", 34), ("off_tuples_key_l4proto", 36),
  ("sizeof_conn_state", 56), ("off_conn_state_is_wan_ingress_direction", 0), ("off_conn_state_state", 1),
  ("off_conn_state_last_seen_ns", 8), ("off_conn_state_meta", 16), ("off_conn_state_mac", 24),
  ("off_conn_state_pname", 32), ("off_conn_state_pid", 48),
  ("off_meta_mark", 0), ("off_meta_outbound", 4), ("off_meta_must", 5), ("off_meta_dscp", 6), ("off_meta_has_routing", 7),
  ("sizeof_routing_result", 36), ("off_routing_result_mark", 0), ("off_routing_result_must", 4),
  ("off_routing_result_mac", 5), ("off_routing_result_outbound", 11), ("off_routing_result_pname", 12),
  ("off_routing_result_pid", 28), ("off_routing_result_dscp", 32),
  ("sizeof_routing_handoff_entry", 48), ("off_routing_handoff_entry_last_seen_ns", 0),
  ("off_routing_handoff_entry_result", 8),
  ("connectivity_max_entries", CONNECTIVITY_MAX),
  ("routingHandoffTimeout", HANDOFF_TIMEOUT),
  ("L4ProtoType_TCP", L4ProtoType_TCP), ("L4ProtoType_UDP", L4ProtoType_UDP),
  ("IpVersionType_4", IpVersionType_4), ("IpVersionType_6", IpVersionType_6),
  ("OutboundControlPlaneRouting", OUTBOUND_CONTROL_PLANE_ROUTING),
  ("PACKET_HOST", PACKET_HOST), ("PACKET_OTHERHOST", PACKET_OTHERHOST), ("BPF_F_INGRESS", BPF_F_INGRESS)]

def recStr (r : RResult) : String :=
  s!"{r.outbound}:{r.mark}:{r.must}:{r.dscp}:{hx (fit 6 r.mac)}:{hx (fit 16 r.pname)}:{r.pid}"

/-- `-`: the helper fails; `=`: empty; else hex -/
def optBytes? (t : String) : Option (Option Bytes) :=
  if t = "-" then some none else if t = "=" then some (some []) else (hexToBytes? t).map some

/-- the absolute `staleBeforeNs` of a round at time `t` that retires what was idle for more than `ago` -/
def staleAt (t ago : Nat) : Nat := if ago = 0 then 0 else if t > ago then t - ago else 1

def sortedHex (l : List String) : String := ";".intercalate (l.mergeSort (fun a b => a ≤ b))

def resetSt (st : St) : St :=
  { last := (0, 0, 0, 0), us := {}, scope := false, relay := st.relay, pressure := st.pressure, soMark := st.soMark, ckCap := st.ckCap, w := { connCap := st.w.connCap, handoffCap := st.w.handoffCap, rtrackCap := st.w.rtrackCap }, maps := C02.KMaps.empty }

def handle (st : St) (line : String) : St × String :=
  match words line with
  | ["caps", a, b, c] =>
    match a.toNat?, b.toNat?, c.toNat? with
    | some a, some b, some c =>
      (resetSt { st with w := { st.w with connCap := a, handoffCap := b, rtrackCap := c } }, "ok")
    | _, _, _ => (st, "bad-op")
  | ["caps", a, b, c, d] =>
    match a.toNat?, b.toNat?, c.toNat?, d.toNat? with
    | some a, some b, some c, some d =>
      (resetSt { st with ckCap := d, w := { st.w with connCap := a, handoffCap := b, rtrackCap := c } }, "ok")
    | _, _, _, _ => (st, "bad-op")
  | ["reset"] => (resetSt st, "ok")
  | ["cg", prog, cookie, tgid, hasTask, comm, args] =>
    match cookie.toNat?, tgid.toNat?, hasTask.toNat?, optBytes? comm, optBytes? args with
    | some cookie, some tgid, some hasTask, some comm, some args =>
      let t : CgTask := ⟨tgid % 2 ^ 32, comm, args, hasTask % 256 != 0⟩
      let w := st.w
      if prog = "release" then
        let w' := cgRelease w cookie
        ({ st with w := w' }, s!"rc=1 ck={diffMaps (ckImg w) (ckImg w')}")
      else if ["create", "connect4", "connect6", "sendmsg4", "sendmsg6"].contains prog then
        let w' := cgUpdate st.ckCap w cookie t
        ({ st with w := w' }, s!"rc=1 ck={diffMaps (ckImg w) (ckImg w')}")
      else (st, "bad-op")
    | _, _, _, _, _ => (st, "bad-op")
  | ["jan4", aggr, age, ago] =>
    -- one atomic round over the four maps `age` ns from now; `ago` ≠ 0: RunReloadRetirementCleanup retiring what was idle
    -- for more than `ago` ns (always aggressive); nothing is deleted in the driver's world
    match aggr.toNat?, age.toNat?, ago.toNat? with
    | some aggr, some age, some ago =>
      let t := st.w.now + age
      let pl := janPlan (aggr != 0 || ago != 0) t (staleAt t ago) st.w
      (st, s!"del=[{sortedHex (pl.conn.map fun k => hx (encKey k))}] hdel=[{sortedHex (pl.handoff.map fun k => hx (encKey k))}]" ++
        s!" rdel=[{sortedHex (pl.rtrack.map fun k => hx (encRKey k))}] cdel=[{sortedHex (pl.cookies.map fun k => hx (le 8 k))}]")
    | _, _, _ => (st, "bad-op")
  | ["jsnap", aggr, age, ago] =>
    -- phase 1 of a conn-state / hand-off janitor round: the BatchLookup walk
    match aggr.toNat?, age.toNat?, ago.toNat? with
    | some aggr, some age, some ago =>
      let t := st.w.now + age
      ({ st with plan := janPlan (aggr != 0) t (staleAt t ago) st.w }, "-")
    | _, _, _ => (st, "bad-op")
  | ["jdel"] =>
    -- phase 2, on the world as it is now: which of its entries go
    let w' := janApply st.plan st.w
    let gone := fun (img : World → List (String × String)) =>
      sortedHex (((img st.w).filter fun p => ((img w').lookup p.1).isNone).map (·.1))
    ({ st with plan := {} }, s!"del=[{gone connImg}] hdel=[{gone hoImg}]")
  | "param" :: pid :: sm :: ifx :: peer :: mac :: rest =>
    match pid.toNat?, sm.toNat?, ifx.toNat?, peer.toNat?, hexToBytes? mac,
        (match rest with | [] => some 0 | [ns] => ns.toNat? | _ => none) with
    | some pid, some sm, some ifx, some peer, some mac, some ns =>
      ({ st with w := { st.w with param := ⟨pid, sm, ifx, peer % 256 != 0, fit 6 mac, ns⟩ } }, "ok")
    | _, _, _, _, _, _ => (st, "bad-op")
  | ["paramimg", img] =>
    -- PARAM := the bytes the control plane's struct literal serialises to, read back at the C offsets
    match hexToBytes? img with
    | some b =>
      if b.length != SIZEOF_DAE_PARAM then (st, s!"size-mismatch go={b.length} c={SIZEOF_DAE_PARAM}")
      else
        let x := decParam b
        ({ st with w := { st.w with param := x.p } },
          s!"port={x.tproxyPort} pid={x.p.ctlPid} dae0={x.p.dae0If} netns={x.p.netns} mac={hx x.p.peerMac}" ++
          s!" peer={if x.p.usePeer then 1 else 0} task={if x.hasTask then 1 else 0} mark={x.p.sockMark} size={SIZEOF_DAE_PARAM}")
    | none => (st, "bad-op")
  | "lpm" :: slot :: nk :: ks =>
    match slot.toNat?, nk.toNat?, ks.mapM parseLpmKey? with
    | some slot, some nk, some keys =>
      if keys.length != nk then (st, "bad-op")
      else if slot < C02.MaxLpmNum then
        ({ st with maps := { st.maps with lpm := (slot, keys) :: st.maps.lpm.filter (·.1 != slot) } }, "ok")
      else (st, "err=-7")
    | _, _, _ => (st, "bad-op")
  | ["clock", t] =>
    match t.toNat? with
    | some t => ({ st with w := { st.w with now := t } }, "ok")
    | none => (st, "bad-op")
  | "rules" :: n :: hs =>
    match n.toNat?, hs.mapM hexToBytes? with
    | some n, some imgs =>
      if imgs.length != n then (st, "bad-op")
      else ({ st with maps := { st.maps with routing := C02.overwritePrefix st.maps.routing imgs } }, "ok")
    | _, _ => (st, "bad-op")
  | ["meta", n] =>
    match n.toNat? with
    | some n => ({ st with maps := { st.maps with activeLen := n } }, "ok")
    | none => (st, "bad-op")
  | ["dom", k, bm] =>
    match hexToNat? k, hexToBytes? bm with
    | some k, some b =>
      if b.length != 128 then (st, "bad-op")
      else ({ st with maps := { st.maps with domain := (k, wordsLE b 32) :: st.maps.domain.filter (·.1 != k) } }, "ok")
    | _, _ => (st, "bad-op")
  | ["domdel", k] =>
    match hexToNat? k with
    | some k =>
      if (st.maps.domain.lookup k).isSome then
        ({ st with maps := { st.maps with domain := st.maps.domain.filter (·.1 != k) } }, "ok")
      else (st, "err=-2")
    | none => (st, "bad-op")
  | ["alive", k, v] =>
    match k.toNat?, v.toNat? with
    | some k, some v =>
      if k < CONNECTIVITY_MAX then
        ({ st with w := { st.w with alive := (k, v) :: st.w.alive.filter (·.1 != k) } }, "ok")
      else (st, "err=-7")
    | _, _ => (st, "bad-op")
  | ["cookie", c, pid, pn] =>
    match c.toNat?, pid.toNat?, hexToBytes? pn with
    | some c, some pid, some pn =>
      -- bpf_map_update_elem(BPF_ANY) from userspace: fails (silently here) when the map is full
      match aupdate st.ckCap st.w.cookies c ⟨st.w.now, pid, fit 16 pn⟩ with
      | some m => ({ st with w := { st.w with cookies := m } }, "ok")
      | none => (st, "ok")
    | _, _, _ => (st, "bad-op")
  | ["cookiedel", c] =>
    match c.toNat? with
    | some c =>
      if (alookup st.w.cookies c).isSome then
        ({ st with w := { st.w with cookies := aerase st.w.cookies c } }, "ok")
      else (st, "err=-2")
    | none => (st, "bad-op")
  | ["conndel", k] =>
    match hexToBytes? k with
    | some kb =>
      let key := decKey kb
      if (alookup st.w.conn key).isSome then ({ st with w := { st.w with conn := aerase st.w.conn key } }, "ok")
      else (st, "err=-2")
    | none => (st, "bad-op")
  | ["frame", hook, l2, proto, lin, pull, iif, ifx, mark, cookie, sk, hex] =>
    match parseHook? hook, l2.toNat?, proto.toNat?, lin.toNat?, pull.toNat?, iif.toNat?, ifx.toNat?, mark.toNat?,
          cookie.toNat?, parseSk? sk, frameBytes? hex with
    | some hook, some l2, some proto, some lin, some pull, some iif, some ifx, some mark, some cookie, some sk, some bytes =>
      let s : Skb := ⟨⟨bytes, lin, pull != 0, proto⟩, iif, ifx, mark, cookie, sk⟩
      let w := st.w
      let (w', o) := step (rtOf st.maps) w hook s (l2 != 0)
      let redir := match o.redir with
        | none => "-"
        | some (i, f, p) => s!"{i}:{f}:{if p then 1 else 0}"
      let pkt := if o.bytes = bytes then "=" else hx o.bytes
      let evs := (w'.events.drop w.events.length).map fun e => s!"{e.type}:{e.pid}:{e.outbound}:{e.l4proto}"
      let out := s!"v={o.act} mark={o.mark} cb={o.cb0}:{o.cb1} redir={redir} pkt={pkt}" ++
        s!" conn={diffMaps (connImg w) (connImg w')} ho={diffMaps (hoImg w) (hoImg w')}" ++
        s!" rt={diffMaps (rtImg w) (rtImg w')} ck={diffMaps (ckImg w) (ckImg w')}" ++
        s!" ev=[{";".intercalate evs}] ovf={w'.ovfUdp}:{w'.ovfTcp}"
      ({ st with w := w', last := (o.mark, o.cb0, o.cb1, proto) }, out)
    | _, _, _, _, _, _, _, _, _, _, _ => (st, "bad-op")
  | ["cfg", ttl, att, dly, en, ex, rn, sm] =>
    match ttl.toNat?, att.toNat?, dly.toNat?, en.toNat?, ex.toNat?, rn.toNat?, sm.toNat? with
    | some ttl, some att, some dly, some en, some ex, some rn, some sm =>
      ({ st with relay := ⟨ttl, att, dly⟩, pressure := ⟨en, ex, rn⟩, soMark := sm }, "-")
    | _, _, _, _, _, _, _ => (st, "bad-op")
  | ["scope", v] =>
    match v.toNat? with
    | some v => ({ st with scope := v != 0 }, "-")
    | none => (st, "bad-op")
  | ["ep", what, sip, sport, dst] =>
    -- an endpoint of the UDP endpoint pool appears / disappears (its cache starts empty)
    match hexToNat? sip, sport.toNat?,
        (if dst = "-" then some none else match dst.splitOn ":" with
          | [a, p] => (do let a ← hexToNat? a; let p ← p.toNat?; pure (some (a, p)))
          | _ => none) with
    | some sip, some sport, some dst =>
      let k : EKey := ⟨(sip, sport), dst⟩
      let eps := st.us.eps.filter (·.1 != k)
      if what = "add" then ({ st with us := { st.us with eps := (k, none) :: eps } }, "-")
      else if what = "del" then ({ st with us := { st.us with eps := eps } }, "-")
      else (st, "bad-op")
    | _, _, _ => (st, "bad-op")
  | ["use", l4, sip, sport, dip, dport, age, dtms] =>
    -- the record the TCP relay (handleConn head) / the UDP ingress task works with, `dtms` ms of control-plane time later
    match l4.toNat?, hexToNat? sip, sport.toNat?, hexToNat? dip, dport.toNat?, age.toNat?, dtms.toNat? with
    | some l4, some sip, some sport, some dip, some dport, some age, some dtms =>
      let us := { st.us with ut := st.us.ut + dtms * 1000000 }
      let k := retrieve st.w ⟨sip, dip, sport, dport, l4⟩ (st.w.now + age)
      if l4 = IPPROTO_TCP then
        ({ st with us := { us with ut := us.ut + tcpConsumerDelay st.relay k } },
          s!"use={recStr (tcpConsumer k)} fresh=- el={tcpConsumerDelay st.relay k}")
      else if dport = 53 then
        -- DNS ingress fast path
        ({ st with us := us }, s!"use={recStr (dnsConsumer st.soMark k)} fresh=- el=0")
      else
        let x := udpConsumer st.relay st.scope us (sip, sport) (dip, dport) k
        ({ st with us := x.u }, s!"use={recStr x.rr} fresh={boolStr x.fresh} el=0")
    | _, _, _, _, _, _, _ => (st, "bad-op")
  | ["use", l4, sip, sport, dip, dport, age, dtms, fault] =>
    -- the same with one of RetrieveRoutingResult's map lookups failing (an error that is not ErrKeyNotExist)
    match l4.toNat?, hexToNat? sip, sport.toNat?, hexToNat? dip, dport.toNat?, age.toNat?, dtms.toNat? with
    | some l4, some sip, some sport, some dip, some dport, some age, some dtms =>
      let us := { st.us with ut := st.us.ut + dtms * 1000000 }
      let f : LookupFault := if fault = "conn" then .conn else if fault = "ho" then .handoff else .none
      let r := retrieveF f st.w ⟨sip, dip, sport, dport, l4⟩ (st.w.now + age)
      if l4 = IPPROTO_TCP then
        match tcpConsumerF r with
        | none => ({ st with us := us }, "use=error")
        | some rr =>
          ({ st with us := { us with ut := us.ut + tcpConsumerDelayF st.relay r } },
            s!"use={recStr rr} fresh=- el={tcpConsumerDelayF st.relay r}")
      else if dport = 53 then
        ({ st with us := us }, s!"use={recStr (dnsConsumerF st.soMark r)} fresh=- el=0")
      else
        match udpConsumerF st.relay st.scope us (sip, sport) (dip, dport) r with
        | (u, none) => ({ st with us := u }, "use=dropped")
        | (u, some (rr, fresh)) => ({ st with us := u }, s!"use={recStr rr} fresh={boolStr fresh} el=0")
    | _, _, _, _, _, _, _ => (st, "bad-op")
  | ["peer", mask] =>
    -- tproxy_dae0peer_ingress on the skb the last frame op left (after a redirect: the handed-over frame)
    match mask.toNat? with
    | some mask =>
      let listeners := (List.range 3).filter fun i => mask / 2 ^ i % 2 == 1
      let (mk, cb0, cb1, proto) := st.last
      let o := dae0peerIngress listeners mk cb0 cb1 proto
      let opt := fun (x : Option Nat) => match x with | some v => toString v | none => "-"
      (st, s!"v={o.act} mark={o.mark} ptype={opt o.pktType} assign={opt o.assigned}")
    | none => (st, "bad-op")
  | ["d0", proto, lin, pull, hex] =>
    -- tproxy_dae0_ingress on a frame dae sends back towards a captured client
    match proto.toNat?, lin.toNat?, pull.toNat?, frameBytes? hex with
    | some proto, some lin, some pull, some bytes =>
      let w := st.w
      let (w', o) := dae0Ingress w ⟨bytes, lin, pull != 0, proto⟩
      let redir := match o.redir with | none => "-" | some (i, f) => s!"{i}:{f}"
      let pt := match o.pktType with | none => "-" | some v => toString v
      let pkt := if o.bytes = bytes then "=" else hx o.bytes
      ({ st with w := w' }, s!"v={o.act} redir={redir} ptype={pt} pkt={pkt} rt={diffMaps (rtImg w) (rtImg w')}")
    | _, _, _, _ => (st, "bad-op")
  | ["parse", l2, proto, lin, pull, hex] =>
    match l2.toNat?, proto.toNat?, lin.toNat?, pull.toNat?, frameBytes? hex with
    | some l2, some proto, some lin, some pull, some bytes =>
      let r : Raw := ⟨bytes, lin, pull != 0, proto⟩
      (st, s!"f={consumedStr (parseFast r (l2 != 0))} s={consumedStr (parseSlow r (l2 != 0))} t={consumedStr (parseTransport r (l2 != 0))}")
    | _, _, _, _, _ => (st, "bad-op")
  | ["dump"] =>
    (st, s!"conn={dumpMap (connImg st.w)} ho={dumpMap (hoImg st.w)} now={st.w.now}")
  | ["retr", l4, sip, sport, dip, dport, age] =>
    match l4.toNat?, hexToNat? sip, sport.toNat?, hexToNat? dip, dport.toNat?, age.toNat? with
    | some l4, some sip, some sport, some dip, some dport, some age =>
      (st, rrStr (retrieve st.w ⟨sip, dip, sport, dport, l4⟩ (st.w.now + age)))
    | _, _, _, _, _, _ => (st, "bad-op")
  | ["jan", aggr, age] =>
    -- which entries one janitor round (conn-state + hand-off) would delete `age` ns from now; nothing is deleted
    match aggr.toNat?, age.toNat? with
    | some aggr, some age =>
      let t := st.w.now + age
      let dels := ((st.w.conn.filter (janitorDeletesConn (aggr != 0) t)).map fun p => hx (encKey p.1)).mergeSort (fun a b => a ≤ b)
      let hdels := ((st.w.handoff.filter (janitorDeletesHandoff t)).map fun p => hx (encKey p.1)).mergeSort (fun a b => a ≤ b)
      (st, s!"del=[{";".intercalate dels}] hdel=[{";".intercalate hdels}]")
    | _, _ => (st, "bad-op")
  | ["rel", sip, sport, dip, dport] =>
    -- the userspace endpoint of this UDP pair is closed and was its last owner: ReleaseUdpConnStateTuples
    match hexToNat? sip, sport.toNat?, hexToNat? dip, dport.toNat? with
    | some sip, some sport, some dip, some dport =>
      let k : Key := ⟨sip, dip, sport, dport, IPPROTO_UDP⟩
      let w' := releaseUdp st.w k
      let gone := ((st.w.conn.filter fun p => (alookup w'.conn p.1).isNone).map fun p => hx (encKey p.1)).mergeSort (fun a b => a ≤ b)
      ({ st with w := w' }, s!"rel=[{";".intercalate gone}]")
    | _, _, _, _ => (st, "bad-op")
  | ["press", act, below, ov, usage] =>
    -- updateConnStateJanitorPressure: is the next janitor round aggressive?
    match act.toNat?, below.toNat?, ov.toNat?, usage.toNat? with
    | some act, some below, some ov, some usage =>
      let r := pressureStep st.pressure ⟨act != 0, below⟩ (ov != 0) usage
      (st, s!"active={boolStr r.active} below={r.below}")
    | _, _, _, _ => (st, "bad-op")
  | ["origdst", oob] =>
    -- RetrieveOriginalDest on the control messages of a received datagram
    match (if oob = "=" then some [] else hexToBytes? oob) with
    | some b =>
      match retrieveOriginalDest b with
      | .none => (st, "od=-")
      | .v4 a p => (st, s!"od=4:{hx a}:{p}")
      | .v6 a p => (st, s!"od=6:{hx a}:{p}")
    | none => (st, "bad-op")
  | ["hoexp", now, last] =>
    match now.toNat?, last.toNat? with
    | some now, some last => (st, s!"expired={boolStr (handoffExpired now last)}")
    | _, _ => (st, "bad-op")
  | ["connkey", ob, l4, v6] =>
    -- outboundConnectivityMapKey(outbound, {tcp | data-udp}, {4 | 6}) = the slot wan_outbound_is_alive reads
    match ob.toNat?, l4.toNat?, v6.toNat? with
    | some ob, some l4, some v6 =>
      (st, s!"key={ob % 256 * 6 + (if l4 = IPPROTO_UDP then 2 else 0) * 2 + (if v6 = 0 then 0 else 1)}")
    | _, _, _ => (st, "bad-op")
  | "note" :: _ => (st, "-")
  | ["const", name] =>
    match constTable.lookup name with
    | some v => (st, s!"={v}")
    | none => (st, "=-")
  | _ => (st, "bad-op")

def main : IO Unit := lineLoopS ({} : St) handle
