import DaeVerif.C03.Props
/-!
# C03 — clauses that had no theorem yet

* a UDP flow opened from the WAN side towards a LAN service is first seen by the LAN-EGRESS hook (the
  forwarded datagram leaves through the LAN interface): that hook marks the reversed tuple exactly like WAN
  ingress does, so the LAN service's replies pass the LAN-ingress hook untouched (`wan_originated_udp_replies_pass`).
-/
namespace DaeVerif.C03.Props
open DaeVerif.C03

/-- **LAN egress marks the reversed tuple (UDP, not port 53)**: a datagram forwarded to a LAN host (or sent
to it by the router itself) leaves a WAN-originated entry under the reply direction when that direction has
no live entry yet — whichever of the two observing hooks sees the flow first. -/
theorem observing_hooks_mark_reverse_udp_tuple (rt : RouteIn → Int) (w : World) (h : Hook) (s : Skb) (l2 : Bool) (c : Ctx)
    (hh : h = .wanIngress ∨ h = .lanEgress)
    (hp : parseTransport s.raw l2 = .ret 0 c) (ht : c.l4proto = IPPROTO_UDP)
    (h53 : (c.udpSport = 53 || c.udpDport = 53) = false)
    (hl : udpLive w (getTuples c).five.rev = none) (hroom : connRoom w (getTuples c).five.rev) :
    WanOriginated (step rt w h s l2).1 (getTuples c).five.rev ∧ (step rt w h s l2).2 = outPipe s := by
  have hnt : ¬ (c.l4proto = IPPROTO_TCP) := by rw [ht]; decide
  have hn6 : ¬ (IPPROTO_UDP = IPPROTO_ICMPV6) := by decide
  have hrr : WanOriginated (reverseRefresh w c) (getTuples c).five.rev := by
    unfold reverseRefresh
    rw [if_neg hnt, if_pos ht]
    simp only [h53, Bool.false_eq_true, if_false]
    rw [markUdpSeen_new_room w _ true {} hl hroom]
    exact ⟨_, alookup_erase_append_self _ _ _, rfl, rfl⟩
  rcases hh with hh | hh <;> subst hh
  · show WanOriginated (wanIngress w s l2).1 _ ∧ (wanIngress w s l2).2 = _
    unfold wanIngress
    simp only [hp, bne_self_eq_false, Bool.false_eq_true, if_false]
    exact ⟨hrr, by first | rfl | trivial⟩
  · show WanOriginated (lanEgress w s l2).1 _ ∧ (lanEgress w s l2).2 = _
    unfold lanEgress
    simp only [hp, bne_self_eq_false, Bool.false_eq_true, if_false, ht, hn6, decide_false, Bool.and_false,
      Bool.false_and]
    exact ⟨hrr, by first | rfl | trivial⟩

/-- **Replies of a LAN (or local) UDP service to a client on the WAN side pass untouched**, from the first
datagram the observing hook saw, along any run, while the flow is live — the two theorems above chained. -/
theorem wan_opened_udp_service_replies_pass (rt : RouteIn → Int) (w : World) (h : Hook) (s : Skb) (l2 : Bool) (c : Ctx)
    (hh : h = .wanIngress ∨ h = .lanEgress)
    (hp : parseTransport s.raw l2 = .ret 0 c) (ht : c.l4proto = IPPROTO_UDP)
    (h53 : (c.udpSport = 53 || c.udpDport = 53) = false)
    (hl : udpLive w (getTuples c).five.rev = none) (hroom : connRoom w (getTuples c).five.rev)
    (evs : List Event) (henv : ∀ e ∈ evs, EnvOk e)
    (hlive : StaysLive (getTuples c).five.rev (step rt w h s l2).1 evs) :
    AllPass (getTuples c).five.rev (step rt w h s l2).1 evs := by
  have hmark := (observing_hooks_mark_reverse_udp_tuple rt w h s l2 c hh hp ht h53 hl hroom).1
  have hl4 : (getTuples c).five.rev.l4 = IPPROTO_UDP := by rw [rev_l4, getTuples_l4, ht]
  have hsl : shortLivedUdp (getTuples c).five.rev = false := by
    unfold shortLivedUdp
    have hs : (getTuples c).five.rev.sport = (getTuples c).five.dport := rfl
    have hd : (getTuples c).five.rev.dport = (getTuples c).five.sport := rfl
    have hports := getTuples_udp_ports c ht
    rw [hs, hd, hports.1, hports.2]
    simp only [Bool.or_eq_false_iff, decide_eq_false_iff_not] at h53
    simp [h53.1, h53.2]
  exact (wan_originated_udp_replies_pass _ hl4 hsl evs _ henv hmark hlive).1

/-! ## Non-vacuity -/

/-- a datagram 1.2.3.4:40000 → 192.168.1.10:5353 arriving from the WAN side (also: forwarded to the LAN) -/
def exUdpIn : Skb :=
  ⟨⟨[2,0,0,0,0,2, 2,0,0,0,0,1, 8,0, 0x45,0,0,0x20,0,0,0,0,0x40,17,0,0, 1,2,3,4, 192,168,1,10,
     0x9c,0x40, 0x14,0xe9, 0,12, 0,0, 1,2,3,4], 46, true, 0x0800⟩, 2, 2, 0, 0, none⟩
def exUdpCtx : Ctx := match parseTransport exUdpIn.raw true with | .ret _ c => c | _ => {}

example : parseTransport exUdpIn.raw true = .ret 0 exUdpCtx ∧ exUdpCtx.l4proto = IPPROTO_UDP ∧
    (exUdpCtx.udpSport = 53 || exUdpCtx.udpDport = 53) = false ∧
    udpLive exWorld (getTuples exUdpCtx).five.rev = none ∧ connRoom exWorld (getTuples exUdpCtx).five.rev ∧
    (getTuples exUdpCtx).five.rev = ⟨281473913979146, 281470698652420, 5353, 40000, 17⟩ ∧
    alookup (step (fun _ => 2) exWorld .lanEgress { exUdpIn with ifindex := 3 } true).1.conn
      ⟨281473913979146, 281470698652420, 5353, 40000, 17⟩ =
        some ⟨true, 0, 1000000000, 0, 0, 0, 0, 0, zeros 6, zeros 16, 0⟩ := by
  refine ⟨by decide, by decide, by decide, by decide, by unfold connRoom; decide, by decide, by decide⟩

end DaeVerif.C03.Props
