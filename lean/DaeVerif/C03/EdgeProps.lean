import DaeVerif.C03.Dae0Props
import DaeVerif.C03.ParseProofs
import DaeVerif.C03.PropsFrame
import DaeVerif.C03.Consumer
/-!
# C03 — fragments and truncated frames on all four hooks (both link types, IPv4 and IPv6)
-/
namespace DaeVerif.C03

/-- offset of the IP header for the link type -/
def ipOff (l2 : Bool) : Nat := if l2 then 14 else 0

/-- the L3 protocol the parser dispatches on: the Ethernet header's field on L2 links, `skb->protocol` on L3 links -/
def l3Proto (r : Raw) (l2 : Bool) : Nat := if l2 then be16 r.bytes 12 else r.proto

/-- every hook's answer to a frame the parser passes over (positive return code) -/
theorem step_of_parse_positive (rt : RouteIn → Int) (w : World) (h : Hook) (s : Skb) (l2 : Bool) (code : Nat) (c : Ctx)
    (hp : parseTransport s.raw l2 = .ret code c) (hc : code ≠ 0) :
    step rt w h s l2 = (w, outOk s s.mark) := by
  have hb : (code != 0) = true := by simp [hc]
  have hpk : parsePacket s.raw l2 = .pass := by
    unfold parsePacket pkOf; rw [hp]; dsimp only
    split
    · rfl
    · simp
  cases h with
  | lanIngress => show lanIngress rt w s l2 = _; unfold lanIngress; rw [hpk]
  | wanEgress =>
    show wanEgress rt w s l2 = _; unfold wanEgress; rw [hpk]
    split <;> rfl
  | wanIngress => show wanIngress w s l2 = _; unfold wanIngress; rw [hp]; simp only [hb, if_true]
  | lanEgress => show lanEgress w s l2 = _; unfold lanEgress; rw [hp]; simp only [hb, if_true]

/-- every hook's answer to a frame whose headers cannot be loaded -/
theorem step_of_parse_efault (rt : RouteIn → Int) (w : World) (h : Hook) (s : Skb) (l2 : Bool)
    (hp : parseTransport s.raw l2 = .efault) (hloc : h = .wanEgress → s.ingressIf = 0) :
    step rt w h s l2 = (w, outShot s) := by
  have hpk : parsePacket s.raw l2 = .shot := by unfold parsePacket pkOf; rw [hp]
  cases h with
  | lanIngress => show lanIngress rt w s l2 = _; unfold lanIngress; rw [hpk]
  | wanEgress =>
    show wanEgress rt w s l2 = _; unfold wanEgress; rw [hpk]
    have := hloc rfl
    simp [this]
  | wanIngress => show wanIngress w s l2 = _; unfold wanIngress; rw [hp]
  | lanEgress => show lanEgress w s l2 = _; unfold lanEgress; rw [hp]

theorem loadBytes_short (bs : Bytes) (o n : Nat) (h : bs.length < o + n) : loadBytes bs o n = none := by
  unfold loadBytes
  have : ¬ (o + n ≤ bs.length) := by omega
  simp [this]

/-- the slow parser on the IP header at the link type's offset -/
theorem parseSlow_ip (r : Raw) (l2 : Bool) (hlen : ipOff l2 ≤ r.bytes.length) :
    parseSlow r l2 =
      (let c : Ctx := if l2 then { ethProto := be16 (slice r.bytes 0 14) 12, ethDst := slice (slice r.bytes 0 14) 0 6,
                                    ethSrc := slice (slice r.bytes 0 14) 6 6 }
                      else { ethProto := r.proto }
       if c.ethProto = ETH_P_IP then slowV4 r.bytes (ipOff l2) c
       else if c.ethProto = ETH_P_IPV6 then slowV6 r.bytes (ipOff l2) c
       else .ret 1 c) := by
  unfold ipOff at hlen
  unfold parseSlow ipOff
  cases l2
  · simp only [Bool.false_eq_true, if_false]
  · simp only [if_true] at hlen ⊢
    rw [loadBytes_of_le _ 0 14 (by omega)]

end DaeVerif.C03

namespace DaeVerif.C03.Props
open DaeVerif.C03

/-- **Non-initial fragments pass untouched on every hook, both link types, IPv4 and IPv6.**  A frame whose
IPv4 header has a non-zero fragment offset, or whose IPv6 header is directly followed by a Fragment header
with a non-zero offset, is neither routed nor tracked nor dropped: all four hooks answer `TC_ACT_OK` and
leave the skb and every map alone.  (So the later fragments of a datagram whose FIRST fragment was handed
to dae leave directly — the code's behaviour, stated.) -/
theorem noninitial_fragments_pass_on_every_hook (rt : RouteIn → Int) (w : World) (h : Hook) (s : Skb) (l2 : Bool)
    (hlin : s.raw.lin ≤ s.raw.bytes.length)
    (hfrag :
      (l3Proto s.raw l2 = ETH_P_IP ∧ ipOff l2 + 20 ≤ s.raw.bytes.length ∧ 5 ≤ rd s.raw.bytes (ipOff l2) % 16 ∧
        be16 s.raw.bytes (ipOff l2 + 6) % 8192 ≠ 0) ∨
      (l3Proto s.raw l2 = ETH_P_IPV6 ∧ ipOff l2 + 48 ≤ s.raw.bytes.length ∧
        rd s.raw.bytes (ipOff l2 + 6) = IPPROTO_FRAGMENT ∧ be16 s.raw.bytes (ipOff l2 + 42) / 8 ≠ 0)) :
    step rt w h s l2 = (w, outOk s s.mark) := by
  have hlen : ipOff l2 ≤ s.raw.bytes.length := by rcases hfrag with h | h <;> omega
  have hproto : (if l2 then be16 (slice s.raw.bytes 0 14) 12 else s.raw.proto) = l3Proto s.raw l2 := by
    unfold l3Proto
    cases l2
    · rfl
    · simp only [if_true]; rw [be16_slice _ _ _ _ (by omega)]
  have hp : ∃ c, parseTransport s.raw l2 = .ret PARSE_FRAGMENT c := by
    rw [parseTransport_eq_slow _ _ hlin, parseSlow_ip _ _ hlen]
    have hep : ∀ (c1 c2 : Ctx), (if l2 = true then c1 else c2).ethProto = if l2 then c1.ethProto else c2.ethProto := by
      intro c1 c2; cases l2 <;> rfl
    dsimp only
    rw [hep]
    dsimp only
    rw [hproto]
    rcases hfrag with ⟨h4, hl, hihl, hf⟩ | ⟨h6, hl, hnh, hf⟩
    · simp only [h4, if_true]
      unfold slowV4
      rw [loadBytes_of_le _ _ 20 hl]
      have h5 : ¬ (rd (slice s.raw.bytes (ipOff l2) 20) 0 % 16 < 5) := by
        rw [rd_slice _ _ _ _ (by omega)]; simpa using hihl
      have hf' : (be16 (slice s.raw.bytes (ipOff l2) 20) 6 % 8192 != 0) = true := by
        rw [be16_slice _ _ _ _ (by omega)]; simpa using hf
      simp only [h5, if_false, hf', if_true]
      exact ⟨_, rfl⟩
    · have hne : ¬ (ETH_P_IPV6 = ETH_P_IP) := by decide
      simp only [h6, hne, if_false, if_true]
      unfold slowV6
      rw [loadBytes_of_le _ _ 40 (by omega)]
      dsimp only
      have hnh' : rd (slice s.raw.bytes (ipOff l2) 40) 6 = IPPROTO_FRAGMENT := by
        rw [rd_slice _ _ _ _ (by omega)]; exact hnh
      rw [hnh']
      have hloop : slowLoop s.raw.bytes IPV6_MAX_EXTENSIONS IPPROTO_FRAGMENT (ipOff l2 + 40) =
          .frag (rd s.raw.bytes (ipOff l2 + 40)) := by
        show slowLoop s.raw.bytes (7 + 1) IPPROTO_FRAGMENT (ipOff l2 + 40) = _
        unfold slowLoop
        have h1 : ¬ (IPPROTO_FRAGMENT = IPPROTO_NONE) := by decide
        simp only [h1, if_false, if_true]
        rw [loadBytes_of_le _ _ 8 (by omega)]
        have hf' : (be16 (slice s.raw.bytes (ipOff l2 + 40) 8) 2 / 8 != 0) = true := by
          rw [be16_slice _ _ _ _ (by omega)]; simpa using hf
        simp only [hf', if_true]
        rw [rd_slice _ _ _ _ (by omega)]
      rw [hloop]
      exact ⟨_, rfl⟩
  obtain ⟨c, hc⟩ := hp
  exact step_of_parse_positive rt w h s l2 PARSE_FRAGMENT c hc (by decide)

/-- **Truncated frames.**  A frame that ends inside its IP header (IPv4: fewer than 20 bytes, IPv6: fewer
than 40 bytes after the link header) is dropped (`TC_ACT_SHOT`, nothing else changes) by every hook that
parses it — all but WAN egress for forwarded traffic, which passes before parsing; an L2 frame shorter than
an Ethernet header is passed (`TC_ACT_OK`), as is any frame that is neither IPv4 nor IPv6. -/
theorem truncated_frames (rt : RouteIn → Int) (w : World) (h : Hook) (s : Skb) (l2 : Bool)
    (hlin : s.raw.lin ≤ s.raw.bytes.length) (hloc : h = .wanEgress → s.ingressIf = 0) :
    (ipOff l2 ≤ s.raw.bytes.length →
      ((l3Proto s.raw l2 = ETH_P_IP ∧ s.raw.bytes.length < ipOff l2 + 20) ∨
       (l3Proto s.raw l2 = ETH_P_IPV6 ∧ s.raw.bytes.length < ipOff l2 + 40)) →
      step rt w h s l2 = (w, outShot s)) ∧
    (ipOff l2 ≤ s.raw.bytes.length → l3Proto s.raw l2 ≠ ETH_P_IP → l3Proto s.raw l2 ≠ ETH_P_IPV6 →
      step rt w h s l2 = (w, outOk s s.mark)) ∧
    (l2 = true → s.raw.bytes.length < 14 → step rt w h s l2 = (w, outOk s s.mark)) := by
  have hproto : ipOff l2 ≤ s.raw.bytes.length →
      (if l2 then be16 (slice s.raw.bytes 0 14) 12 else s.raw.proto) = l3Proto s.raw l2 := by
    intro hlen
    unfold l3Proto
    cases l2
    · rfl
    · simp only [if_true]
      unfold ipOff at hlen; simp only [if_true] at hlen
      rw [be16_slice _ _ _ _ (by omega)]
  have hep : ∀ (c1 c2 : Ctx), (if l2 = true then c1 else c2).ethProto = if l2 then c1.ethProto else c2.ethProto := by
    intro c1 c2; cases l2 <;> rfl
  refine ⟨?_, ?_, ?_⟩
  · intro hlen hshort
    apply step_of_parse_efault rt w h s l2 _ hloc
    rw [parseTransport_eq_slow _ _ hlin, parseSlow_ip _ _ hlen]
    dsimp only
    rw [hep]
    dsimp only
    rw [hproto hlen]
    rcases hshort with ⟨h4, hs⟩ | ⟨h6, hs⟩
    · simp only [h4, if_true]
      unfold slowV4
      rw [loadBytes_short _ _ _ hs]
    · have hne : ¬ (ETH_P_IPV6 = ETH_P_IP) := by decide
      simp only [h6, hne, if_false, if_true]
      unfold slowV6
      rw [loadBytes_short _ _ _ hs]
  · intro hlen h4 h6
    have : ∃ c, parseTransport s.raw l2 = .ret 1 c := by
      rw [parseTransport_eq_slow _ _ hlin, parseSlow_ip _ _ hlen]
      dsimp only
      rw [hep]
      dsimp only
      rw [hproto hlen]
      simp only [h4, h6, if_false]
      exact ⟨_, rfl⟩
    obtain ⟨c, hc⟩ := this
    exact step_of_parse_positive rt w h s l2 1 c hc (by decide)
  · intro hl2 hs
    subst hl2
    have : parseTransport s.raw true = .ret 1 {} := by
      rw [parseTransport_eq_slow _ _ hlin]
      unfold parseSlow
      simp only [if_true]
      rw [loadBytes_short _ _ _ (by omega)]
    exact step_of_parse_positive rt w h s true 1 {} this (by decide)

/-- **From the SYN on the LAN to the relay**: whenever dae's TCP relay (`handleConn`) looks the connection
up after the hook handled its SYN — at any later time, without waiting in the retry loop — the record it
works with is exactly the decision the kernel took for the SYN (outbound, mark, must, DSCP, client MAC). -/
theorem lan_new_tcp_connection_reaches_relay_with_its_decision (rt : RouteIn → Int) (w : World) (s : Skb) (l2 : Bool)
    (p : Pkt) (hp : parsePacket s.raw l2 = .pkt p) (ht : p.l4proto = IPPROTO_TCP) (hs : p.syn = true)
    (ha : p.ack = false) (hr : 0 ≤ rt (lanRouteIn s p)) (hc : connRoom w p.tuples.five) (hrt : rtrackRoom w s p) (t : Nat) (cfg : RelayCfg) :
    tcpConsumer (retrieve (lanIngress rt w s l2).1 p.tuples.five t) =
      ⟨(unpackRoute (rt (lanRouteIn s p))).mark, (unpackRoute (rt (lanRouteIn s p))).must, p.ethSrc,
        (unpackRoute (rt (lanRouteIn s p))).ob, zeros 16, 0, p.tuples.dscp⟩ ∧
    tcpConsumerDelay cfg (retrieve (lanIngress rt w s l2).1 p.tuples.five t) = 0 := by
  rw [(lan_new_tcp_connection rt w s l2 p hp ht hs ha hr hc hrt).2 t]
  exact ⟨rfl, rfl⟩

end DaeVerif.C03.Props
