import DaeVerif.C03.SourceProofs
/-!
# C03 — hook-level lemmas: new flows, tracked flows, the record the control plane reads
-/
namespace DaeVerif.C03

/-! ## parsed packets -/

theorem getTuples_l4 (c : Ctx) : (getTuples c).five.l4 = c.l4proto := by
  unfold getTuples; leaves <;> rfl

theorem pkOf_pkt {r : PR} {p : Pkt} (h : pkOf r = .pkt p) : ∃ c, r = .ret 0 c ∧ p = toPkt c := by
  cases r with
  | fallback => simp [pkOf] at h
  | efault => simp [pkOf] at h
  | ret code c =>
    simp only [pkOf] at h
    by_cases hi : c.l4proto = IPPROTO_ICMPV6
    · simp [hi] at h
    · simp only [hi, if_false] at h
      by_cases hc : code = 0
      · simp only [hc, if_true] at h
        injection h with h
        exact ⟨c, by rw [hc], h.symm⟩
      · simp [hc] at h

theorem parsePacket_l4 {r : Raw} {l2 : Bool} {p : Pkt} (h : parsePacket r l2 = .pkt p) :
    p.tuples.five.l4 = p.l4proto := by
  obtain ⟨c, _, hp⟩ := pkOf_pkt h
  rw [hp]; exact getTuples_l4 c

/-! ## `RetrieveRoutingResult` -/

theorem retrieve_of_conn (w : World) (k : Key) (t : Nat) (cs : ConnState)
    (hl : alookup w.conn k = some cs) (hr : cs.hasRouting ≠ 0) (h4 : k.l4 = IPPROTO_TCP ∨ k.l4 = IPPROTO_UDP) :
    retrieve w k t = some ⟨cs.mark, cs.must, cs.mac, cs.outbound, cs.pname, cs.pid, cs.dscp⟩ := by
  unfold retrieve
  simp only [h4, if_true, hl, hr, if_false]

theorem retrieve_of_handoff (w : World) (k : Key) (t : Nat) (h : Handoff)
    (hc : ∀ cs, alookup w.conn k = some cs → cs.hasRouting = 0)
    (hl : alookup w.handoff k = some h) (he : handoffExpired t h.lastSeen = false) :
    retrieve w k t = some h.result := by
  unfold retrieve
  by_cases h4 : k.l4 = IPPROTO_TCP ∨ k.l4 = IPPROTO_UDP
  · simp only [h4, if_true]
    cases hcs : alookup w.conn k with
    | none => simp only [hl, he, Bool.false_eq_true, if_false]
    | some cs => simp only [hc cs hcs, if_true, hl, he, Bool.false_eq_true, if_false]
  · simp only [h4, if_false, hl, he, Bool.false_eq_true]

/-- a hand-off entry written at `now` is valid for the next ten seconds -/
theorem handoff_fresh (now age : Nat) (h0 : 0 < now) (ha : age ≤ HANDOFF_TIMEOUT) :
    handoffExpired (now + age) now = false := by
  unfold handoffExpired
  have : ¬ now = 0 := by omega
  simp only [this, if_false]
  split
  · rfl
  · have : now + age - now = age := by omega
    simp only [this]
    exact decide_eq_false (by omega)

/-! ## LAN ingress: routing of a new connection -/

theorem lanRouteNew_fate (rt : RouteIn → Int) (w : World) (s : Skb) (l2 : Bool) (p : Pkt) (st : Option ConnState)
    (hls : lanLocalSocket w s p = false) (hr : 0 ≤ rt (lanRouteIn s p))
    (hst : p.l4proto = IPPROTO_TCP → st.isSome = true) (hrt : rtrackRoom w s p) :
    (lanRouteNew rt w s l2 p st).2.realises w s true (lanFate w s p (unpackRoute (rt (lanRouteIn s p)))) := by
  unfold lanRouteNew
  have hneg : ¬ rt (lanRouteIn s p) < 0 := by omega
  simp only [hls, Bool.false_eq_true, if_false, hneg]
  have hfc : (decide (p.l4proto = IPPROTO_TCP) && st.isNone) = false := by
    by_cases h : p.l4proto = IPPROTO_TCP
    · have := hst h
      cases st <;> simp_all
    · simp [h]
  simp only [hfc, Bool.false_eq_true, if_false]
  have hrest := lanCache_rest w p st (unpackRoute (rt (lanRouteIn s p)))
  rw [← lanFate_congr hrest, ← realises_congr hrest]
  exact lanVerdict_realises _ s l2 p _ _ _ ((rtrackRoom_congr hrest s p).mpr hrt)

/-- the entry through which the decision is cached, when there is one -/
theorem lanRouteNew_conn (rt : RouteIn → Int) (w : World) (s : Skb) (l2 : Bool) (p : Pkt) (cs : ConnState)
    (hls : lanLocalSocket w s p = false) (hr : 0 ≤ rt (lanRouteIn s p))
    (hsl : (decide (p.l4proto = IPPROTO_UDP) && shortLivedUdp p.tuples.five) = false)
    (hl : alookup w.conn p.tuples.five = some cs) :
    alookup (lanRouteNew rt w s l2 p (some cs)).1.conn p.tuples.five =
      some { cs with mac := p.ethSrc, outbound := (unpackRoute (rt (lanRouteIn s p))).ob,
                     mark := (unpackRoute (rt (lanRouteIn s p))).mark,
                     must := (unpackRoute (rt (lanRouteIn s p))).must,
                     dscp := p.tuples.dscp, hasRouting := 1 } := by
  unfold lanRouteNew
  have hneg : ¬ rt (lanRouteIn s p) < 0 := by omega
  simp only [hls, Bool.false_eq_true, if_false, hneg, Option.isNone_some, Bool.and_false, lanVerdict_conn]
  unfold lanCache
  simp only [hsl, Bool.false_eq_true, if_false]
  unfold setConn
  exact alookup_areplace_self _ _ _ _ hl

theorem lanRouteNew_handoff (rt : RouteIn → Int) (w : World) (s : Skb) (l2 : Bool) (p : Pkt) (st : Option ConnState)
    (hls : lanLocalSocket w s p = false) (hr : 0 ≤ rt (lanRouteIn s p))
    (hst : p.l4proto = IPPROTO_TCP → st.isSome = true) (hrt : rtrackRoom w s p)
    (hh : handoffRoom w p.tuples.five)
    (hf : lanFate w s p (unpackRoute (rt (lanRouteIn s p))) = .toDae) :
    alookup (lanRouteNew rt w s l2 p st).1.handoff p.tuples.five =
      some ⟨w.now, ⟨(unpackRoute (rt (lanRouteIn s p))).mark, (unpackRoute (rt (lanRouteIn s p))).must, p.ethSrc,
        (unpackRoute (rt (lanRouteIn s p))).ob, zeros 16, 0, p.tuples.dscp⟩⟩ := by
  unfold lanRouteNew
  have hneg : ¬ rt (lanRouteIn s p) < 0 := by omega
  simp only [hls, Bool.false_eq_true, if_false, hneg]
  have hfc : (decide (p.l4proto = IPPROTO_TCP) && st.isNone) = false := by
    by_cases h : p.l4proto = IPPROTO_TCP
    · have := hst h
      cases st <;> simp_all
    · simp [h]
  simp only [hfc, Bool.false_eq_true, if_false]
  have hrest := lanCache_rest w p st (unpackRoute (rt (lanRouteIn s p)))
  rw [← rest_now hrest]
  exact lanVerdict_handoff _ s l2 p _ _ _ ((rtrackRoom_congr hrest s p).mpr hrt)
    ((handoffRoom_congr hrest _).mpr hh) (by rw [lanFate_congr hrest]; exact hf)

/-! ## dispatch of the two capturing hooks -/

theorem lanIngress_pkt (rt : RouteIn → Int) (w : World) (s : Skb) (l2 : Bool) (p : Pkt)
    (hp : parsePacket s.raw l2 = .pkt p) : lanIngress rt w s l2 = lanIngressPkt rt w s l2 p := by
  unfold lanIngress; rw [hp]

theorem lanIngressPkt_tcp_syn (rt : RouteIn → Int) (w : World) (s : Skb) (l2 : Bool) (p : Pkt)
    (ht : p.l4proto = IPPROTO_TCP) (hs : p.syn = true) (ha : p.ack = false) :
    lanIngressPkt rt w s l2 p =
      lanRouteNew rt (markTcpSeen w p.tuples.five false true (p.fin || p.rst) { dscp := p.tuples.dscp }).1 s l2 p
        (markTcpSeen w p.tuples.five false true (p.fin || p.rst) { dscp := p.tuples.dscp }).2 := by
  unfold lanIngressPkt
  simp [ht, hs, ha]

theorem lanIngressPkt_tcp_est (rt : RouteIn → Int) (w : World) (s : Skb) (l2 : Bool) (p : Pkt)
    (ht : p.l4proto = IPPROTO_TCP) (hns : (p.syn && !p.ack) = false) :
    lanIngressPkt rt w s l2 p = lanTcpEstablished w s l2 p := by
  unfold lanIngressPkt
  simp [ht, hns]

theorem lanIngressPkt_udp (rt : RouteIn → Int) (w : World) (s : Skb) (l2 : Bool) (p : Pkt)
    (ht : p.l4proto ≠ IPPROTO_TCP) (hsl : shortLivedUdp p.tuples.five = false) :
    lanIngressPkt rt w s l2 p = lanUdp rt w s l2 p := by
  unfold lanIngressPkt
  simp [ht, hsl]

theorem lanIngressPkt_dns (rt : RouteIn → Int) (w : World) (s : Skb) (l2 : Bool) (p : Pkt)
    (ht : p.l4proto ≠ IPPROTO_TCP) (hsl : shortLivedUdp p.tuples.five = true) :
    lanIngressPkt rt w s l2 p = lanRouteNew rt w s l2 p none := by
  unfold lanIngressPkt
  simp [ht, hsl]

theorem wanEgress_pkt (rt : RouteIn → Int) (w : World) (s : Skb) (l2 : Bool) (p : Pkt)
    (hi : s.ingressIf = 0) (hp : parsePacket s.raw l2 = .pkt p) :
    wanEgress rt w s l2 =
      if p.l4proto = IPPROTO_TCP then wanEgressTcp rt w s l2 p
      else if p.l4proto = IPPROTO_UDP then wanEgressUdp rt w s l2 p
      else (w, outOk s s.mark) := by
  unfold wanEgress; simp [hi, hp]

/-- the socket lookup only looks at `PARAM` -/
theorem lanLocalSocket_congr {w1 w : World} (h : w1.rest = w.rest) (s : Skb) (p : Pkt) :
    lanLocalSocket w1 s p = lanLocalSocket w s p := by
  unfold lanLocalSocket skLookup; rw [rest_param h]

theorem lanLocalSocket_tcp_syn (w : World) (s : Skb) (p : Pkt) (ht : p.l4proto = IPPROTO_TCP)
    (hs : p.syn = true) (ha : p.ack = false) : lanLocalSocket w s p = false := by
  unfold lanLocalSocket; simp [ht, hs, ha]

/-! ## LAN ingress, UDP -/

theorem redirectLan_realises (w0 w : World) (s : Skb) (l2 : Bool) (p : Pkt) (ob mk mu d : Nat)
    (h : w.rest = w0.rest) (hrt : rtrackRoom w0 s p) :
    (redirectLan w s l2 p ob mk mu d).2.realises w0 s true .toDae := by
  unfold redirectLan
  simp only [prepRedirect_ok w s l2 p false ((rtrackRoom_congr h s p).mpr hrt), Bool.false_eq_true, if_false]
  refine ⟨rfl, rfl, rfl, ?_⟩
  rw [rest_param h]; simp


theorem lanUdp_untracked (rt : RouteIn → Int) (w : World) (s : Skb) (l2 : Bool) (p : Pkt) (cs : ConnState)
    (hm : (markUdpSeen w p.tuples.five false { dscp := p.tuples.dscp }).2 = some cs)
    (hw : cs.wanDir = false) (hr : cs.hasRouting = 0) :
    lanUdp rt w s l2 p =
      lanRouteNew rt (markUdpSeen w p.tuples.five false { dscp := p.tuples.dscp }).1 s l2 p (some cs) := by
  unfold lanUdp
  simp only [hm, hw, hr, Bool.false_eq_true, if_false, bne_self_eq_false]

/-- the cached-decision branch of the LAN UDP path, as an output -/
theorem lanUdp_tracked_out (rt : RouteIn → Int) (w : World) (s : Skb) (l2 : Bool) (p : Pkt) (cs : ConnState)
    (hm : (markUdpSeen w p.tuples.five false { dscp := p.tuples.dscp }).2 = some cs)
    (hw : cs.wanDir = false) (hr : cs.hasRouting ≠ 0) (hrt : rtrackRoom w s p) :
    (lanUdp rt w s l2 p).2.realises w s true (lanFate w s p cs.decision) := by
  have hrest := markUdpSeen_rest w p.tuples.five false { dscp := p.tuples.dscp }
  unfold lanUdp
  have hr' : (cs.hasRouting != 0) = true := by simp [hr]
  simp only [hm, hw, hr', Bool.false_eq_true, if_false, if_true]
  unfold lanFate groupUp ConnState.decision
  simp only
  by_cases h0 : cs.outbound = OUTBOUND_DIRECT
  · simp only [h0, if_true]; exact ⟨rfl, rfl, rfl, rfl⟩
  · simp only [h0, if_false]
    by_cases h1 : cs.outbound = OUTBOUND_BLOCK
    · simp only [h1, if_true]; rfl
    · simp only [h1, if_false]
      rw [wanAlive_congr (rest_alive hrest)]
      by_cases ha : wanAlive w s.raw.proto cs.outbound p.l4proto p.tuples.five.dport = true
      · simp only [ha, Bool.not_true, Bool.false_eq_true, if_false, if_true]
        exact redirectLan_realises w _ s l2 p _ _ _ _ (by rw [setConn_rest]; exact hrest) hrt
      · have : wanAlive w s.raw.proto cs.outbound p.l4proto p.tuples.five.dport = false := by
          cases h : wanAlive w s.raw.proto cs.outbound p.l4proto p.tuples.five.dport <;> simp_all
        simp only [this, Bool.not_false, if_true, Bool.false_eq_true, if_false]
        rfl

/-- the cached-decision branch does not consult the rule program -/
theorem lanUdp_tracked_rt (rt rt' : RouteIn → Int) (w : World) (s : Skb) (l2 : Bool) (p : Pkt) (cs : ConnState)
    (hm : (markUdpSeen w p.tuples.five false { dscp := p.tuples.dscp }).2 = some cs)
    (hw : cs.wanDir = false) (hr : cs.hasRouting ≠ 0) :
    lanUdp rt w s l2 p = lanUdp rt' w s l2 p := by
  have hr' : (cs.hasRouting != 0) = true := by simp [hr]
  unfold lanUdp
  simp only [hm, hw, hr', Bool.false_eq_true, if_false, if_true]

theorem lanUdp_wandir (rt : RouteIn → Int) (w : World) (s : Skb) (l2 : Bool) (p : Pkt) (cs : ConnState)
    (hm : (markUdpSeen w p.tuples.five false { dscp := p.tuples.dscp }).2 = some cs) (hw : cs.wanDir = true) :
    lanUdp rt w s l2 p = ((markUdpSeen w p.tuples.five false { dscp := p.tuples.dscp }).1, outOk s s.mark) := by
  unfold lanUdp
  simp only [hm, hw, if_true]

/-- the entry of a tracked UDP flow keeps its decision (LAN side) -/
theorem lanUdp_tracked_conn (rt : RouteIn → Int) (w : World) (s : Skb) (l2 : Bool) (p : Pkt) (tc : ConnState)
    (hm : (markUdpSeen w p.tuples.five false { dscp := p.tuples.dscp }).2 = some tc)
    (hw : tc.wanDir = false) (hr : tc.hasRouting ≠ 0)
    (hlk : alookup (markUdpSeen w p.tuples.five false { dscp := p.tuples.dscp }).1.conn p.tuples.five = some tc) :
    ∃ cs', alookup (lanUdp rt w s l2 p).1.conn p.tuples.five = some cs' ∧ cs'.decision = tc.decision ∧
      cs'.hasRouting = tc.hasRouting ∧ cs'.wanDir = tc.wanDir := by
  have hr' : (tc.hasRouting != 0) = true := by simp [hr]
  unfold lanUdp
  simp only [hm]
  rw [if_neg (by rw [hw]; decide), if_pos hr']
  split
  · exact ⟨tc, hlk, rfl, rfl, rfl⟩
  · split
    · exact ⟨tc, hlk, rfl, rfl, rfl⟩
    · split
      · exact ⟨tc, hlk, rfl, rfl, rfl⟩
      · simp only [redirectLan_conn]
        exact ⟨_, alookup_areplace_self _ _ _ _ hlk, rfl, rfl, rfl⟩

/-! ## LAN ingress, established TCP -/

theorem lanTcpEstablished_tracked_out (w : World) (s : Skb) (l2 : Bool) (p : Pkt) (cs : ConnState)
    (hm : (markTcpSeen w p.tuples.five false false (p.fin || p.rst) {}).2 = some cs)
    (hr : cs.hasRouting ≠ 0) (hrt : rtrackRoom w s p) :
    (lanTcpEstablished w s l2 p).2.realises w s true (lanFate w s p cs.decision) := by
  have hrest := markTcpSeen_rest w p.tuples.five false false (p.fin || p.rst) {}
  unfold lanTcpEstablished
  simp only [hm, hr, if_false]
  rw [← lanFate_congr hrest, ← realises_congr hrest]
  exact lanVerdict_realises _ s l2 p cs.decision cs.dscp false ((rtrackRoom_congr hrest s p).mpr hrt)

theorem lanTcpEstablished_untracked (w : World) (s : Skb) (l2 : Bool) (p : Pkt)
    (hm : ∀ cs, (markTcpSeen w p.tuples.five false false (p.fin || p.rst) {}).2 = some cs → cs.hasRouting = 0) :
    (lanTcpEstablished w s l2 p).2 = outOk s s.mark := by
  unfold lanTcpEstablished
  simp only
  cases h : (markTcpSeen w p.tuples.five false false (p.fin || p.rst) {}).2 with
  | none => rfl
  | some cs => simp only [hm cs h, if_true]

/-! ## WAN egress -/

theorem wanEgress_tcp (rt : RouteIn → Int) (w : World) (s : Skb) (l2 : Bool) (p : Pkt)
    (hi : s.ingressIf = 0) (hp : parsePacket s.raw l2 = .pkt p) (ht : p.l4proto = IPPROTO_TCP) :
    wanEgress rt w s l2 = wanEgressTcp rt w s l2 p := by
  rw [wanEgress_pkt rt w s l2 p hi hp]; simp [ht]

theorem wanEgress_udp (rt : RouteIn → Int) (w : World) (s : Skb) (l2 : Bool) (p : Pkt)
    (hi : s.ingressIf = 0) (hp : parsePacket s.raw l2 = .pkt p) (ht : p.l4proto = IPPROTO_UDP) :
    wanEgress rt w s l2 = wanEgressUdp rt w s l2 p := by
  have : ¬ (IPPROTO_UDP = IPPROTO_TCP) := by decide
  rw [wanEgress_pkt rt w s l2 p hi hp]; simp [ht, this]

theorem connRoom_congr {w1 w : World} (hc : w1.conn = w.conn) (h : w1.rest = w.rest) (k : Key) :
    connRoom w1 k ↔ connRoom w k := by
  unfold connRoom; rw [hc, rest_connCap h]

theorem tcpLive_congr {w1 w : World} (hc : w1.conn = w.conn) (h : w1.rest = w.rest) (k : Key) (ns : Bool) :
    tcpLive w1 k ns = tcpLive w k ns := by
  unfold tcpLive; rw [hc, rest_now h]

theorem udpLive_congr {w1 w : World} (hc : w1.conn = w.conn) (h : w1.rest = w.rest) (k : Key) :
    udpLive w1 k = udpLive w k := by
  unfold udpLive; rw [hc, rest_now h]

/-- established TCP on the WAN hook: cached decision -/
theorem wanTcpEstablished_tracked_out (w : World) (s : Skb) (l2 : Bool) (p : Pkt) (cs : ConnState)
    (ht : p.l4proto = IPPROTO_TCP)
    (hm : (markTcpSeen w p.tuples.five false false (p.fin || p.rst) {}).2 = some cs)
    (hr : cs.hasRouting ≠ 0) (hrt : rtrackRoom w s p) :
    (wanTcpEstablished w s l2 p).2.realises w s false (wanFate w s p cs.decision) := by
  have hrest := markTcpSeen_rest w p.tuples.five false false (p.fin || p.rst) {}
  unfold wanTcpEstablished
  simp only [hm, hr, if_false]
  rw [← wanFate_congr hrest, ← realises_congr hrest]
  exact wanVerdict_realises _ s l2 p true cs.decision cs.mac cs.pname cs.pid false (by rw [ht]; rfl)
    ((rtrackRoom_congr hrest s p).mpr hrt) (by intro h; cases h)

theorem wanTcpEstablished_untracked (w : World) (s : Skb) (l2 : Bool) (p : Pkt)
    (hm : ∀ cs, (markTcpSeen w p.tuples.five false false (p.fin || p.rst) {}).2 = some cs → cs.hasRouting = 0) :
    (wanTcpEstablished w s l2 p).2 = outOk s s.mark := by
  unfold wanTcpEstablished
  simp only
  cases h : (markTcpSeen w p.tuples.five false false (p.fin || p.rst) {}).2 with
  | none => rfl
  | some cs => simp only [hm cs h, if_true]

/-! ## WAN egress, UDP -/

theorem dport_ne_53_of_not_shortLived (k : Key) (h4 : k.l4 = IPPROTO_UDP) (h : shortLivedUdp k = false) :
    (k.dport != 53) = true := by
  unfold shortLivedUdp at h
  rw [h4] at h
  simp only [beq_self_eq_true, Bool.true_and, Bool.or_eq_false_iff] at h
  simp only [bne_iff_ne, ne_eq]
  intro hd
  rw [hd] at h
  simp at h

theorem wanUdpRouted_untracked_fate (rt : RouteIn → Int) (w : World) (s : Skb) (l2 : Bool) (p : Pkt)
    (pp : Option PidPname) (cs : ConnState) (ht : p.l4proto = IPPROTO_UDP)
    (hsl : shortLivedUdp p.tuples.five = false) (hw : cs.wanDir = false) (hr0 : cs.hasRouting = 0)
    (hr : 0 ≤ rt (wanRouteIn s p false (ppName pp) p.ethSrc)) (hrt : rtrackRoom w s p) :
    (wanUdpRouted rt w s l2 p pp (some cs)).2.realises w s false
      (wanFate w s p (unpackRoute (rt (wanRouteIn s p false (ppName pp) p.ethSrc)))) := by
  unfold wanUdpRouted
  have hneg : ¬ rt (wanRouteIn s p false (ppName pp) p.ethSrc) < 0 := by omega
  simp only [hw, hr0, Bool.false_eq_true, if_false, bne_self_eq_false, hneg, hsl, Option.isNone_some, Bool.or_self]
  have hrest := wanUdpCache_rest w p (some cs) false pp (unpackRoute (rt (wanRouteIn s p false (ppName pp) p.ethSrc)))
    p.ethSrc (ppName pp)
  rw [← wanFate_congr hrest, ← realises_congr hrest]
  exact wanVerdict_realises _ s l2 p false _ _ _ _ false (by rw [ht]; rfl)
    ((rtrackRoom_congr hrest s p).mpr hrt) (by intro h; cases h)

theorem wanUdpRouted_untracked_conn (rt : RouteIn → Int) (w : World) (s : Skb) (l2 : Bool) (p : Pkt)
    (pp : Option PidPname) (cs : ConnState) (hw : cs.wanDir = false) (hr0 : cs.hasRouting = 0)
    (hr : 0 ≤ rt (wanRouteIn s p false (ppName pp) p.ethSrc)) (hdp : (p.tuples.five.dport != 53) = true)
    (hl : alookup w.conn p.tuples.five = some cs) :
    ∃ cs', alookup (wanUdpRouted rt w s l2 p pp (some cs)).1.conn p.tuples.five = some cs' ∧
      cs'.decision = unpackRoute (rt (wanRouteIn s p false (ppName pp) p.ethSrc)) ∧ cs'.hasRouting = 1 ∧
      cs'.mac = p.ethSrc ∧ cs'.dscp = p.tuples.dscp ∧ cs'.pname = ppNameOr pp cs.pname ∧
      cs'.pid = ppPidOr pp cs.pid := by
  unfold wanUdpRouted
  have hneg : ¬ rt (wanRouteIn s p false (ppName pp) p.ethSrc) < 0 := by omega
  dsimp only
  rw [if_neg (by rw [hw]; decide), if_neg (by rw [hr0]; decide), if_neg hneg]
  simp only [wanVerdict_conn]
  unfold wanUdpCache
  simp only [hdp, if_true]
  unfold setConn
  exact ⟨_, alookup_areplace_self _ _ _ _ hl, rfl, rfl, rfl, rfl, rfl, rfl⟩

theorem wanUdpRouted_untracked_tracked (rt : RouteIn → Int) (w : World) (s : Skb) (l2 : Bool) (p : Pkt)
    (pp : Option PidPname) (cs : ConnState) (hw : cs.wanDir = false) (hr0 : cs.hasRouting = 0)
    (hr : 0 ≤ rt (wanRouteIn s p false (ppName pp) p.ethSrc)) (hdp : (p.tuples.five.dport != 53) = true)
    (hl : alookup w.conn p.tuples.five = some cs) :
    ∃ cs', alookup (wanUdpRouted rt w s l2 p pp (some cs)).1.conn p.tuples.five = some cs' ∧
      cs'.decision = unpackRoute (rt (wanRouteIn s p false (ppName pp) p.ethSrc)) ∧ cs'.hasRouting ≠ 0 ∧
      cs'.wanDir = false := by
  unfold wanUdpRouted
  have hneg : ¬ rt (wanRouteIn s p false (ppName pp) p.ethSrc) < 0 := by omega
  dsimp only
  rw [if_neg (by rw [hw]; decide), if_neg (by rw [hr0]; decide), if_neg hneg]
  simp only [wanVerdict_conn]
  unfold wanUdpCache
  simp only [hdp, if_true]
  unfold setConn
  exact ⟨_, alookup_areplace_self _ _ _ _ hl, rfl, Nat.succ_ne_zero 0, hw⟩

theorem wanUdpRouted_tracked_fate (rt : RouteIn → Int) (w : World) (s : Skb) (l2 : Bool) (p : Pkt)
    (pp : Option PidPname) (cs : ConnState) (ht : p.l4proto = IPPROTO_UDP)
    (hsl : shortLivedUdp p.tuples.five = false) (hw : cs.wanDir = false) (hr : cs.hasRouting ≠ 0)
    (hrt : rtrackRoom w s p) :
    (wanUdpRouted rt w s l2 p pp (some cs)).2.realises w s false (wanFate w s p cs.decision) := by
  have hr' : (cs.hasRouting != 0) = true := by simp [hr]
  unfold wanUdpRouted
  simp only [hw, hr', Bool.false_eq_true, if_false, if_true, hsl, Option.isNone_some, Bool.or_self]
  have hrest := wanUdpCache_rest w p (some cs) true pp ⟨cs.outbound, cs.mark, cs.must⟩ cs.mac cs.pname
  rw [← wanFate_congr hrest, ← realises_congr hrest]
  exact wanVerdict_realises _ s l2 p false cs.decision _ _ _ false (by rw [ht]; rfl)
    ((rtrackRoom_congr hrest s p).mpr hrt) (by intro h; cases h)

theorem wanUdpRouted_tracked_rt (rt rt' : RouteIn → Int) (w : World) (s : Skb) (l2 : Bool) (p : Pkt)
    (pp : Option PidPname) (cs : ConnState) (hw : cs.wanDir = false) (hr : cs.hasRouting ≠ 0) :
    wanUdpRouted rt w s l2 p pp (some cs) = wanUdpRouted rt' w s l2 p pp (some cs) := by
  have hr' : (cs.hasRouting != 0) = true := by simp [hr]
  unfold wanUdpRouted
  simp only [hw, hr', Bool.false_eq_true, if_false, if_true]

theorem wanUdpRouted_tracked_conn (rt : RouteIn → Int) (w : World) (s : Skb) (l2 : Bool) (p : Pkt)
    (pp : Option PidPname) (cs : ConnState) (hw : cs.wanDir = false) (hr : cs.hasRouting ≠ 0)
    (hdp : (p.tuples.five.dport != 53) = true) (hl : alookup w.conn p.tuples.five = some cs) :
    ∃ cs', alookup (wanUdpRouted rt w s l2 p pp (some cs)).1.conn p.tuples.five = some cs' ∧
      cs'.decision = cs.decision ∧ cs'.hasRouting = 1 ∧ cs'.wanDir = cs.wanDir := by
  have hr' : (cs.hasRouting != 0) = true := by simp [hr]
  unfold wanUdpRouted
  simp only [hw, hr', Bool.false_eq_true, if_false, if_true, wanVerdict_conn]
  unfold wanUdpCache
  simp only [hdp, if_true]
  unfold setConn
  exact ⟨_, alookup_areplace_self _ _ _ _ hl, rfl, rfl, hw.symm ▸ rfl⟩

theorem wanUdpRouted_wandir (rt : RouteIn → Int) (w : World) (s : Skb) (l2 : Bool) (p : Pkt)
    (pp : Option PidPname) (cs : ConnState) (hw : cs.wanDir = true) :
    wanUdpRouted rt w s l2 p pp (some cs) = (w, outOk s s.mark) := by
  unfold wanUdpRouted
  simp only [hw, if_true]

theorem wanUdpRouted_none_fate (rt : RouteIn → Int) (w : World) (s : Skb) (l2 : Bool) (p : Pkt)
    (pp : Option PidPname) (ht : p.l4proto = IPPROTO_UDP)
    (hr : 0 ≤ rt (wanRouteIn s p false (ppName pp) p.ethSrc)) (hrt : rtrackRoom w s p)
    (hh : handoffRoom w p.tuples.five) :
    (wanUdpRouted rt w s l2 p pp none).2.realises w s false
      (wanFate w s p (unpackRoute (rt (wanRouteIn s p false (ppName pp) p.ethSrc)))) ∧
    (wanUdpRouted rt w s l2 p pp none).1.conn = w.conn ∧
    (wanFate w s p (unpackRoute (rt (wanRouteIn s p false (ppName pp) p.ethSrc))) = .toDae →
      alookup (wanUdpRouted rt w s l2 p pp none).1.handoff p.tuples.five =
        some ⟨w.now, ⟨(unpackRoute (rt (wanRouteIn s p false (ppName pp) p.ethSrc))).mark,
          (unpackRoute (rt (wanRouteIn s p false (ppName pp) p.ethSrc))).must, p.ethSrc,
          (unpackRoute (rt (wanRouteIn s p false (ppName pp) p.ethSrc))).ob, ppName pp, ppPid pp, p.tuples.dscp⟩⟩) := by
  unfold wanUdpRouted
  have hneg : ¬ rt (wanRouteIn s p false (ppName pp) p.ethSrc) < 0 := by omega
  simp only [hneg, if_false, wanVerdict_conn, true_and]
  exact ⟨wanVerdict_realises w s l2 p false _ _ _ _ _ (by rw [ht]; rfl) hrt (fun _ => hh),
    fun hf => wanVerdict_handoff w s l2 p false _ _ _ _ _ (by rw [ht]; rfl) hh hf⟩

end DaeVerif.C03
