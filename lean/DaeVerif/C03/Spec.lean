import DaeVerif.C03.Model
/-!
# C03 — the short specifications the property theorems are stated with

`Fate` is what the property statement says may happen to a frame; `fateOf` reads it off an `Out`.
`lanFate` / `wanFate` say which fate a routing decision `(outbound, mark, must)` earns on the two
capturing hooks — this is the table in the property text:

* direct: pass (LAN: with the rule's mark; WAN: untouched when no mark is needed, otherwise handed
  to dae which applies the mark),
* block: drop,
* a proxy group: hand over to dae, unless its health bit for (protocol, family) is down and the
  destination port is not 53 — then drop.
-/
namespace DaeVerif.C03

/-- the decision cached in an entry -/
def ConnState.decision (cs : ConnState) : Dec := ⟨cs.outbound, cs.mark, cs.must⟩

inductive Fate where
  /-- `TC_ACT_OK`, frame bytes untouched; `mark` = the skb mark afterwards -/
  | pass (mark : Nat)
  /-- `TC_ACT_SHOT` -/
  | drop
  /-- `TC_ACT_REDIRECT` to `dae0` with `cb[0] = TPROXY_MARK` -/
  | toDae
deriving DecidableEq, Repr

/-- health bit of `(outbound, l4proto, family of skb->protocol)`; port 53 is always let through -/
def groupUp (w : World) (s : Skb) (l4 dport ob : Nat) : Bool := wanAlive w s.raw.proto ob l4 dport

def lanFate (w : World) (s : Skb) (p : Pkt) (d : Dec) : Fate :=
  if d.ob = OUTBOUND_DIRECT then .pass d.mark
  else if d.ob = OUTBOUND_BLOCK then .drop
  else if groupUp w s p.l4proto p.tuples.five.dport d.ob then .toDae else .drop

def wanFate (w : World) (s : Skb) (p : Pkt) (d : Dec) : Fate :=
  if d.ob = OUTBOUND_DIRECT ∧ d.mark = 0 then .pass (if p.l4proto = IPPROTO_TCP then 0 else s.mark)
  else if d.ob = OUTBOUND_BLOCK then .drop
  else if groupUp w s p.l4proto p.tuples.five.dport d.ob then .toDae else .drop

/-- an `Out` realises a fate for skb `s` -/
def Out.realises (o : Out) (w : World) (s : Skb) (ingress : Bool) : Fate → Prop
  | .pass m => o.act = TC_ACT_OK ∧ o.mark = m ∧ o.bytes = s.raw.bytes ∧ o.redir = none
  | .drop => o.act = TC_ACT_SHOT
  | .toDae => o.act = TC_ACT_REDIRECT ∧ o.cb0 = TPROXY_MARK ∧ o.mark = s.mark ∧
      o.redir = some (w.param.dae0If, 0, ingress && w.param.usePeer)

/-- room in `redirect_track` for this frame's address pair -/
def rtrackRoom (w : World) (s : Skb) (p : Pkt) : Prop :=
  (alookup w.rtrack (redirectKey s p.tuples)).isSome ∨ w.rtrack.length < w.rtrackCap

/-- room in `routing_handoff_map` for this tuple -/
def handoffRoom (w : World) (k : Key) : Prop :=
  (alookup w.handoff k).isSome ∨ w.handoff.length < w.handoffCap

/-- room in `conn_state_map` for a (re-)created entry of `k` -/
def connRoom (w : World) (k : Key) : Prop := (aerase w.conn k).length < w.connCap

end DaeVerif.C03
