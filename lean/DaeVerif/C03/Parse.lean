/-!
# C03 — header parsing (`control/kern/tproxy.c`)

Executable, core-only model of `parse_transport_fast`, `parse_transport_slow`, `parse_transport`,
`get_tuples`, `parse_packet`.

A frame is the byte list of the whole skb (`bytes`, `skb->len = bytes.length`), of which the first
`lin` bytes are in the linear area (`skb->data .. skb->data_end`) after `bpf_skb_pull_data` was
attempted; `pullOk` says whether that helper returned 0.  The fast parser may only read below `lin`
(each of its `> data_end` tests is modelled by the same comparison) and answers `fallback` (-1)
otherwise; the slow parser reads through `bpf_skb_load_bytes`, which fails exactly when
`offset + len > skb->len`.

The parsed-header context `Ctx` has one field per C struct field that **any later code reads**
(`struct parse_transport_ctx`: `ethh`, `iph.{version,tos,saddr,daddr}`, the first two bytes and the
addresses of `ipv6h`, `tcph.{source,dest,syn,ack,fin,rst}`, `udph.{source,dest}`,
`icmp6h.icmp6_type`, `l4proto`, `listener_l4proto`).  The fast parser fills them field by field, as
the C code does (and computes the listener protocol from the packet bytes, not from its copy); the
slow parser loads whole headers and the fields are then read from the loaded bytes.
-/
namespace DaeVerif.C03

abbrev Bytes := List Nat

def zeros (n : Nat) : Bytes := List.replicate n 0

/-- byte `i` of the buffer (the guards of the parsers make sure it exists) -/
def rd (bs : Bytes) (i : Nat) : Nat := bs.getD i 0

/-- big-endian 16-bit field at offset `o` (`bpf_ntohs` of a `__be16` member) -/
def be16 (bs : Bytes) (o : Nat) : Nat := rd bs o * 256 + rd bs (o + 1)

/-- `n` bytes starting at `o` -/
def slice (bs : Bytes) (o n : Nat) : Bytes := (List.range n).map fun i => rd bs (o + i)

/-- big-endian value of a byte string -/
def beVal (bs : Bytes) : Nat := bs.foldl (fun a b => a * 256 + b) 0

def bitOf (v i : Nat) : Bool := v / 2 ^ i % 2 == 1

-- constants of the C source / UAPI headers (compared with the compiled program by `const` ops)
def ETH_P_IP : Nat := 0x0800
def ETH_P_IPV6 : Nat := 0x86DD
def IPPROTO_TCP : Nat := 6
def IPPROTO_UDP : Nat := 17
def IPPROTO_ICMPV6 : Nat := 58
def IPPROTO_HOPOPTS : Nat := 0
def IPPROTO_ROUTING : Nat := 43
def IPPROTO_FRAGMENT : Nat := 44
def IPPROTO_NONE : Nat := 59
def IPPROTO_DSTOPTS : Nat := 60
def IPV6_MAX_EXTENSIONS : Nat := 8
def PARSE_FRAGMENT : Nat := 2

/-- `is_extension_header` -/
def isExt (nh : Nat) : Bool :=
  nh == IPPROTO_HOPOPTS || nh == IPPROTO_ROUTING || nh == IPPROTO_FRAGMENT || nh == IPPROTO_DSTOPTS

/-- the consumed fields of `struct parse_transport_ctx` -/
structure Ctx where
  ethProto : Nat := 0
  ethSrc : Bytes := zeros 6
  ethDst : Bytes := zeros 6
  ipVersion : Nat := 0
  ipTos : Nat := 0
  ipSaddr : Bytes := zeros 4
  ipDaddr : Bytes := zeros 4
  v6b0 : Nat := 0
  v6b1 : Nat := 0
  v6Saddr : Bytes := zeros 16
  v6Daddr : Bytes := zeros 16
  l4proto : Nat := 0
  listener : Nat := 0
  tcpSport : Nat := 0
  tcpDport : Nat := 0
  tcpSyn : Bool := false
  tcpAck : Bool := false
  tcpFin : Bool := false
  tcpRst : Bool := false
  udpSport : Nat := 0
  udpDport : Nat := 0
  icmpType : Nat := 0
deriving DecidableEq, Repr

/-- result of a parser: `fallback` = -1 (fast path only), `efault` = -EFAULT, `ret c ctx` = `c ≥ 0` -/
inductive PR where
  | fallback
  | efault
  | ret (code : Nat) (c : Ctx)
deriving DecidableEq, Repr

/-- what the hooks see of an skb while parsing -/
structure Raw where
  bytes : Bytes
  /-- linear bytes: `data_end - data` -/
  lin : Nat
  /-- `bpf_skb_pull_data(skb, 128) == 0` -/
  pullOk : Bool
  /-- ethertype in `skb->protocol` (host order) -/
  proto : Nat
deriving DecidableEq, Repr

/-- `tcp_listener_l4proto` on the flag byte -/
def tcpListener (flags : Nat) : Nat := if bitOf flags 1 && !bitOf flags 4 then IPPROTO_TCP else 0

/-! ## `parse_transport_fast` -/

/-- the TCP branch: ten member copies (`source dest seq ack_seq doff rst syn ack fin window`, of
which the consumed ones are kept) and `tcp_listener_l4proto(tcph_ptr)` on the packet itself -/
def fastTcp (bs : Bytes) (lin o : Nat) (c : Ctx) : PR :=
  if o + 20 > lin then .fallback
  else
    .ret 0 { c with
      tcpSport := be16 bs o
      tcpDport := be16 bs (o + 2)
      tcpRst := bitOf (rd bs (o + 13)) 2
      tcpSyn := bitOf (rd bs (o + 13)) 1
      tcpAck := bitOf (rd bs (o + 13)) 4
      tcpFin := bitOf (rd bs (o + 13)) 0
      listener := tcpListener (rd bs (o + 13)) }

def fastUdp (bs : Bytes) (lin o : Nat) (c : Ctx) : PR :=
  if o + 8 > lin then .fallback
  else .ret 0 { c with udpSport := be16 bs o, udpDport := be16 bs (o + 2), listener := IPPROTO_UDP }

def fastIcmp6 (bs : Bytes) (lin o : Nat) (c : Ctx) : PR :=
  if o + 8 > lin then .fallback
  else .ret 0 { c with icmpType := rd bs o }

def fastV4 (bs : Bytes) (lin o : Nat) (c : Ctx) : PR :=
  if o + 20 > lin then .fallback
  else if rd bs o % 16 < 5 then .efault
  else
    let c1 := { c with
      ipVersion := rd bs o / 16
      ipTos := rd bs (o + 1)
      ipSaddr := slice bs (o + 12) 4
      ipDaddr := slice bs (o + 16) 4
      l4proto := rd bs (o + 9) }
    let l4off := o + rd bs o % 16 * 4
    if be16 bs (o + 6) % 8192 != 0 then .ret PARSE_FRAGMENT c1
    else if rd bs (o + 9) = IPPROTO_TCP then fastTcp bs lin l4off c1
    else if rd bs (o + 9) = IPPROTO_UDP then fastUdp bs lin l4off c1
    else .ret 1 c1

/-- outcome of the extension-header loop -/
inductive LoopR where
  | fallback
  | efault
  | frag (nh : Nat)
  | done (nh off : Nat)
deriving DecidableEq, Repr

/-- the `for (i < IPV6_MAX_EXTENSIONS)` loop of the fast parser from `(nexthdr, offset)` -/
def fastLoop (bs : Bytes) (lin : Nat) : Nat → Nat → Nat → LoopR
  | 0, nh, off => .done nh off
  | fuel + 1, nh, off =>
    if nh = IPPROTO_NONE then .efault
    else if nh = IPPROTO_FRAGMENT then
      if off + 8 > lin then .fallback
      else if be16 bs (off + 2) / 8 != 0 then .frag (rd bs off)
      else fastLoop bs lin fuel (rd bs off) (off + 8)
    else if !isExt nh then .done nh off
    else if off + 2 > lin then .fallback
    else fastLoop bs lin fuel (rd bs off) (off + (rd bs (off + 1) + 1) * 8)

def fastV6 (bs : Bytes) (lin o : Nat) (c : Ctx) : PR :=
  if o + 40 > lin then .fallback
  else
    let c1 := { c with
      v6b0 := rd bs o
      v6b1 := rd bs (o + 1)
      v6Saddr := slice bs (o + 8) 16
      v6Daddr := slice bs (o + 24) 16 }
    match fastLoop bs lin IPV6_MAX_EXTENSIONS (rd bs (o + 6)) (o + 40) with
    | .fallback => .fallback
    | .efault => .efault
    | .frag nh => .ret PARSE_FRAGMENT { c1 with l4proto := nh }
    | .done nh off =>
      if isExt nh then .efault
      else
        let c2 := { c1 with l4proto := nh }
        if nh = IPPROTO_TCP then fastTcp bs lin off c2
        else if nh = IPPROTO_UDP then fastUdp bs lin off c2
        else if nh = IPPROTO_ICMPV6 then fastIcmp6 bs lin off c2
        else .ret 1 c2

def parseFast (r : Raw) (l2 : Bool) : PR :=
  if !r.pullOk then .fallback
  else if l2 then
    if 14 > r.lin then .fallback
    else
      let c : Ctx := { ethProto := be16 r.bytes 12, ethDst := slice r.bytes 0 6, ethSrc := slice r.bytes 6 6 }
      if c.ethProto = ETH_P_IP then fastV4 r.bytes r.lin 14 c
      else if c.ethProto = ETH_P_IPV6 then fastV6 r.bytes r.lin 14 c
      else .ret 1 c
  else
    let c : Ctx := { ethProto := r.proto }
    if c.ethProto = ETH_P_IP then fastV4 r.bytes r.lin 0 c
    else if c.ethProto = ETH_P_IPV6 then fastV6 r.bytes r.lin 0 c
    else .ret 1 c

/-! ## `parse_transport_slow` -/

/-- `bpf_skb_load_bytes(skb, o, dst, n)`: `none` when it fails -/
def loadBytes (bs : Bytes) (o n : Nat) : Option Bytes :=
  if o + n > bs.length then none else some (slice bs o n)

-- readers of a loaded header
def tcphSport (h : Bytes) : Nat := be16 h 0
def tcphDport (h : Bytes) : Nat := be16 h 2
def tcphFlags (h : Bytes) : Nat := rd h 13

def slowTcp (bs : Bytes) (o : Nat) (c : Ctx) : PR :=
  match loadBytes bs o 20 with
  | none => .efault
  | some h =>
    .ret 0 { c with
      tcpSport := tcphSport h
      tcpDport := tcphDport h
      tcpRst := bitOf (tcphFlags h) 2
      tcpSyn := bitOf (tcphFlags h) 1
      tcpAck := bitOf (tcphFlags h) 4
      tcpFin := bitOf (tcphFlags h) 0
      listener := tcpListener (tcphFlags h) }

def slowUdp (bs : Bytes) (o : Nat) (c : Ctx) : PR :=
  match loadBytes bs o 8 with
  | none => .efault
  | some h => .ret 0 { c with udpSport := be16 h 0, udpDport := be16 h 2, listener := IPPROTO_UDP }

def slowIcmp6 (bs : Bytes) (o : Nat) (c : Ctx) : PR :=
  match loadBytes bs o 8 with
  | none => .efault
  | some h => .ret 0 { c with icmpType := rd h 0 }

def slowV4 (bs : Bytes) (o : Nat) (c : Ctx) : PR :=
  match loadBytes bs o 20 with
  | none => .efault
  | some h =>
    if rd h 0 % 16 < 5 then .efault
    else
      let c1 := { c with
        ipVersion := rd h 0 / 16
        ipTos := rd h 1
        ipSaddr := slice h 12 4
        ipDaddr := slice h 16 4
        l4proto := rd h 9 }
      if be16 h 6 % 8192 != 0 then .ret PARSE_FRAGMENT c1
      else
        let l4off := o + rd h 0 % 16 * 4
        if rd h 9 = IPPROTO_TCP then slowTcp bs l4off c1
        else if rd h 9 = IPPROTO_UDP then slowUdp bs l4off c1
        else .ret 1 c1

def slowLoop (bs : Bytes) : Nat → Nat → Nat → LoopR
  | 0, nh, off => .done nh off
  | fuel + 1, nh, off =>
    if nh = IPPROTO_NONE then .efault
    else if nh = IPPROTO_FRAGMENT then
      match loadBytes bs off 8 with
      | none => .efault
      | some fh =>
        if be16 fh 2 / 8 != 0 then .frag (rd fh 0)
        else slowLoop bs fuel (rd fh 0) (off + 8)
    else if !isExt nh then .done nh off
    else
      match loadBytes bs off 1 with
      | none => .efault
      | some b0 =>
        match loadBytes bs (off + 1) 1 with
        | none => .efault
        | some b1 => slowLoop bs fuel (rd b0 0) (off + (rd b1 0 + 1) * 8)

def slowV6 (bs : Bytes) (o : Nat) (c : Ctx) : PR :=
  match loadBytes bs o 40 with
  | none => .efault
  | some h =>
    let c1 := { c with
      v6b0 := rd h 0
      v6b1 := rd h 1
      v6Saddr := slice h 8 16
      v6Daddr := slice h 24 16 }
    match slowLoop bs IPV6_MAX_EXTENSIONS (rd h 6) (o + 40) with
    | .fallback => .fallback
    | .efault => .efault
    | .frag nh => .ret PARSE_FRAGMENT { c1 with l4proto := nh }
    | .done nh off =>
      if isExt nh then .efault
      else
        let c2 := { c1 with l4proto := nh }
        if nh = IPPROTO_TCP then slowTcp bs off c2
        else if nh = IPPROTO_UDP then slowUdp bs off c2
        else if nh = IPPROTO_ICMPV6 then slowIcmp6 bs off c2
        else .ret 1 c2

/-- `parse_transport_slow` run on a zeroed context (it is only ever entered after the fast parser
zeroed the context and gave up) -/
def parseSlow (r : Raw) (l2 : Bool) : PR :=
  if l2 then
    match loadBytes r.bytes 0 14 with
    | none => .ret 1 {}
    | some eh =>
      let c : Ctx := { ethProto := be16 eh 12, ethDst := slice eh 0 6, ethSrc := slice eh 6 6 }
      if c.ethProto = ETH_P_IP then slowV4 r.bytes 14 c
      else if c.ethProto = ETH_P_IPV6 then slowV6 r.bytes 14 c
      else .ret 1 c
  else
    let c : Ctx := { ethProto := r.proto }
    if c.ethProto = ETH_P_IP then slowV4 r.bytes 0 c
    else if c.ethProto = ETH_P_IPV6 then slowV6 r.bytes 0 c
    else .ret 1 c

/-- `parse_transport`: fast first, slow on -1 -/
def parseTransport (r : Raw) (l2 : Bool) : PR :=
  match parseFast r l2 with
  | .fallback => parseSlow r l2
  | res => res

/-! ## `get_tuples`, `parse_packet` -/

/-- `struct tuples_key`; addresses as the big-endian value of their 16 bytes, ports in host order -/
structure Key where
  sip : Nat
  dip : Nat
  sport : Nat
  dport : Nat
  l4 : Nat
deriving DecidableEq, Repr

structure Tuples where
  five : Key
  dscp : Nat
deriving DecidableEq, Repr

/-- `::ffff:a.b.c.d` -/
def mapped4 (a : Bytes) : Nat := 0xffff * 2 ^ 32 + beVal a

def getTuples (c : Ctx) : Tuples :=
  let sp := if c.l4proto = IPPROTO_TCP then c.tcpSport else c.udpSport
  let dp := if c.l4proto = IPPROTO_TCP then c.tcpDport else c.udpDport
  if c.ipVersion = 4 then
    ⟨⟨mapped4 c.ipSaddr, mapped4 c.ipDaddr, sp, dp, c.l4proto⟩, c.ipTos / 4⟩
  else
    ⟨⟨beVal c.v6Saddr, beVal c.v6Daddr, sp, dp, c.l4proto⟩, c.v6b0 % 16 * 4 + c.v6b1 / 64⟩

/-- `struct parsed_packet` (consumed fields) -/
structure Pkt where
  ethProto : Nat
  ethSrc : Bytes
  ethDst : Bytes
  tuples : Tuples
  syn : Bool
  ack : Bool
  fin : Bool
  rst : Bool
  l4proto : Nat
  listener : Nat
deriving DecidableEq, Repr

/-- what the callers of `parse_packet` do with its return value: negative ⇒ `TC_ACT_SHOT`,
positive (unsupported protocol, ICMPv6, fragment) ⇒ `TC_ACT_OK`, zero ⇒ continue with the packet -/
inductive PkR where
  | shot
  | pass
  | pkt (p : Pkt)
deriving DecidableEq, Repr

def toPkt (c : Ctx) : Pkt :=
  ⟨c.ethProto, c.ethSrc, c.ethDst, getTuples c, c.tcpSyn, c.tcpAck, c.tcpFin, c.tcpRst, c.l4proto, c.listener⟩

def pkOf : PR → PkR
  | .fallback => .shot   -- -1 from the slow parser does not occur; a negative value is a drop
  | .efault => .shot
  | .ret code c =>
    if c.l4proto = IPPROTO_ICMPV6 then .pass
    else if code = 0 then .pkt (toPkt c) else .pass

def parsePacket (r : Raw) (l2 : Bool) : PkR := pkOf (parseTransport r l2)

end DaeVerif.C03
