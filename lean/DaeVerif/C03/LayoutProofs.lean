import DaeVerif.C03.Layout
/-!
# C03 — the record images decode to what was encoded (helper lemmas)
-/
namespace DaeVerif.C03

@[simp] theorem le_length (n v : Nat) : (le n v).length = n := by simp [le]
@[simp] theorem fit_length (n : Nat) (b : Bytes) : (fit n b).length = n := by simp [fit]
@[simp] theorem zeros_length (n : Nat) : (zeros n).length = n := by simp [zeros]
@[simp] theorem beBytes_length (n v : Nat) : (beBytes n v).length = n := by simp [beBytes]

theorem rd_append (a b : Bytes) (i : Nat) : rd (a ++ b) i = if i < a.length then rd a i else rd b (i - a.length) := by
  unfold rd
  by_cases h : i < a.length
  · simp [h, List.getD, List.getElem?_append_left h]
  · simp [h, List.getD, List.getElem?_append_right (Nat.le_of_not_lt h)]

theorem rd_cons_zero (a : Nat) (b : Bytes) : rd (a :: b) 0 = a := rfl
theorem rd_cons_succ (a : Nat) (b : Bytes) (i : Nat) : rd (a :: b) (i + 1) = rd b i := rfl

theorem leVal_le4 (v : Nat) (h : v < 2 ^ 32) : leVal (le 4 v) = v := by
  simp only [le, leVal, List.range, List.range.loop, List.map, List.foldr]
  omega

theorem leVal_le8 (v : Nat) (h : v < 2 ^ 64) : leVal (le 8 v) = v := by
  simp only [le, leVal, List.range, List.range.loop, List.map, List.foldr]
  omega

theorem fit_of_length (n : Nat) (bs : Bytes) (h : bs.length = n) : fit n bs = bs := by
  apply List.ext_getElem
  · simp [fit, h]
  · intro i h1 h2
    simp [fit, rd, List.getD, h2]

theorem rd_le (n v i : Nat) (h : i < n) : rd (le n v) i = v / 2 ^ (8 * i) % 256 := by
  simp [rd, le, List.getD, h]

theorem rd_fit (n : Nat) (b : Bytes) (i : Nat) (h : i < n) : rd (fit n b) i = rd b i := by
  simp [rd, fit, List.getD, h]

theorem slice4 (b : Bytes) (o : Nat) : slice b o 4 = [rd b o, rd b (o+1), rd b (o+2), rd b (o+3)] := by
  simp [slice, List.range, List.range.loop]

theorem slice6 (b : Bytes) (o : Nat) :
    slice b o 6 = [rd b o, rd b (o+1), rd b (o+2), rd b (o+3), rd b (o+4), rd b (o+5)] := by
  simp [slice, List.range, List.range.loop]

theorem slice8 (b : Bytes) (o : Nat) :
    slice b o 8 = [rd b o, rd b (o+1), rd b (o+2), rd b (o+3), rd b (o+4), rd b (o+5), rd b (o+6), rd b (o+7)] := by
  simp [slice, List.range, List.range.loop]

theorem slice16 (b : Bytes) (o : Nat) :
    slice b o 16 = [rd b o, rd b (o+1), rd b (o+2), rd b (o+3), rd b (o+4), rd b (o+5), rd b (o+6), rd b (o+7),
      rd b (o+8), rd b (o+9), rd b (o+10), rd b (o+11), rd b (o+12), rd b (o+13), rd b (o+14), rd b (o+15)] := by
  simp [slice, List.range, List.range.loop]

theorem fit6 (b : Bytes) : fit 6 b = [rd b 0, rd b 1, rd b 2, rd b 3, rd b 4, rd b 5] := by
  simp [fit, List.range, List.range.loop]

theorem fit16 (b : Bytes) : fit 16 b = [rd b 0, rd b 1, rd b 2, rd b 3, rd b 4, rd b 5, rd b 6, rd b 7,
    rd b 8, rd b 9, rd b 10, rd b 11, rd b 12, rd b 13, rd b 14, rd b 15] := by
  simp [fit, List.range, List.range.loop]

theorem le4 (v : Nat) : le 4 v = [v % 256, v / 256 % 256, v / 65536 % 256, v / 16777216 % 256] := by
  simp [le, List.range, List.range.loop]

theorem le8 (v : Nat) : le 8 v = [v % 256, v / 256 % 256, v / 65536 % 256, v / 16777216 % 256,
    v / 4294967296 % 256, v / 1099511627776 % 256, v / 281474976710656 % 256, v / 72057594037927936 % 256] := by
  simp [le, List.range, List.range.loop]

/-! ### `struct conn_state` read through `bpfConnState` -/

theorem conn_hasRouting (c : ConnState) : rd (encConn c) 23 = c.hasRouting % 256 := by
  simp [encConn, rd_append, rd_cons_zero, rd_cons_succ]
theorem conn_outbound (c : ConnState) : rd (encConn c) 20 = c.outbound % 256 := by
  simp [encConn, rd_append, rd_cons_zero, rd_cons_succ]
theorem conn_must (c : ConnState) : rd (encConn c) 21 = c.must % 256 := by
  simp [encConn, rd_append, rd_cons_zero, rd_cons_succ]
theorem conn_dscp (c : ConnState) : rd (encConn c) 22 = c.dscp % 256 := by
  simp [encConn, rd_append, rd_cons_zero, rd_cons_succ]
theorem conn_mark (c : ConnState) : slice (encConn c) 16 4 = le 4 c.mark := by
  rw [slice4, le4]; simp [encConn, rd_append, rd_cons_succ, rd_le]
theorem conn_pid (c : ConnState) : slice (encConn c) 48 4 = le 4 c.pid := by
  rw [slice4, le4]; simp [encConn, rd_append, rd_cons_succ, rd_le]
theorem conn_mac (c : ConnState) : slice (encConn c) 24 6 = fit 6 c.mac := by
  rw [slice6, fit6]; simp [encConn, rd_append, rd_cons_succ, rd_fit]
theorem conn_pname (c : ConnState) : slice (encConn c) 32 16 = fit 16 c.pname := by
  rw [slice16, fit16]; simp [encConn, rd_append, rd_cons_succ, rd_fit]

/-! ### `struct routing_handoff_entry` read through `bpfRoutingHandoffEntry` -/

theorem ho_lastSeen (h : Handoff) : slice (encHandoff h) 0 8 = le 8 h.lastSeen := by
  rw [slice8, le8]; simp [encHandoff, rd_append, rd_le]
theorem ho_mark (h : Handoff) : slice (encHandoff h) 8 4 = le 4 h.result.mark := by
  rw [slice4, le4]; simp [encHandoff, encResult, rd_append, rd_le]
theorem ho_must (h : Handoff) : rd (encHandoff h) 12 = h.result.must % 256 := by
  simp [encHandoff, encResult, rd_append, rd_cons_zero]
theorem ho_mac (h : Handoff) : slice (encHandoff h) 13 6 = fit 6 h.result.mac := by
  rw [slice6, fit6]; simp [encHandoff, encResult, rd_append, rd_cons_succ, rd_fit]
theorem ho_outbound (h : Handoff) : rd (encHandoff h) 19 = h.result.outbound % 256 := by
  simp [encHandoff, encResult, rd_append, rd_cons_zero, rd_cons_succ]
theorem ho_pname (h : Handoff) : slice (encHandoff h) 20 16 = fit 16 h.result.pname := by
  rw [slice16, fit16]; simp [encHandoff, encResult, rd_append, rd_cons_succ, rd_fit]
theorem ho_pid (h : Handoff) : slice (encHandoff h) 36 4 = le 4 h.result.pid := by
  rw [slice4, le4]; simp [encHandoff, encResult, rd_append, rd_cons_succ, rd_le]
theorem ho_dscp (h : Handoff) : rd (encHandoff h) 40 = h.result.dscp % 256 := by
  simp [encHandoff, encResult, rd_append, rd_cons_zero, rd_cons_succ]

theorem encConn_length (c : ConnState) : (encConn c).length = 56 := by simp [encConn]
theorem encHandoff_length (h : Handoff) : (encHandoff h).length = 48 := by simp [encHandoff, encResult]
theorem encKey_length (k : Key) : (encKey k).length = 40 := by simp [encKey]

/-! ### keys -/

theorem beVal_cons_aux (l : Bytes) : ∀ acc, l.foldl (fun a b => a * 256 + b) acc = acc * 256 ^ l.length + beVal l := by
  induction l with
  | nil => intro acc; simp [beVal]
  | cons x xs ih =>
    intro acc
    simp only [List.foldl_cons, List.length_cons, beVal]
    rw [ih (acc * 256 + x), ih (0 * 256 + x)]
    simp only [Nat.zero_mul, Nat.zero_add, Nat.pow_succ]
    rw [Nat.add_mul, Nat.mul_assoc, Nat.mul_comm 256, Nat.add_assoc]

theorem beVal_cons (a : Nat) (l : Bytes) : beVal (a :: l) = a * 256 ^ l.length + beVal l := by
  unfold beVal
  simp only [List.foldl_cons, Nat.zero_mul, Nat.zero_add]
  exact beVal_cons_aux l a

theorem beBytes_succ (n v : Nat) : beBytes (n + 1) v = (v / 2 ^ (8 * n) % 256) :: beBytes n v := by
  unfold beBytes
  rw [List.range_succ_eq_map, List.map_cons, List.map_map]
  congr 1
  apply List.map_congr_left
  intro i hi
  have : i < n := by simpa using hi
  simp only [Function.comp]
  congr 3
  omega

theorem beVal_beBytes (n v : Nat) : beVal (beBytes n v) = v % 2 ^ (8 * n) := by
  induction n with
  | zero => simp [beBytes, beVal, Nat.mod_one]
  | succ n ih =>
    rw [beBytes_succ, beVal_cons, ih, beBytes_length]
    have h256 : (256 : Nat) ^ n = 2 ^ (8 * n) := by
      rw [show (256 : Nat) = 2 ^ 8 from rfl, ← Nat.pow_mul]
    rw [h256, show 8 * (n + 1) = 8 * n + 8 from by omega, Nat.pow_add, Nat.mod_mul]
    rw [Nat.mul_comm, Nat.add_comm]

theorem slice_append_right (a b : Bytes) (o n : Nat) (h : a.length ≤ o) :
    slice (a ++ b) o n = slice b (o - a.length) n := by
  unfold slice
  apply List.map_congr_left
  intro i _
  rw [rd_append]
  have : ¬ (o + i < a.length) := by omega
  simp only [this, if_false]
  congr 1; omega

theorem slice_append_left (a b : Bytes) (n : Nat) (h : a.length = n) : slice (a ++ b) 0 n = a := by
  unfold slice
  apply List.ext_getElem
  · simp [h]
  · intro i h1 h2
    simp only [List.getElem_map, List.getElem_range, Nat.zero_add]
    rw [rd_append]
    have : i < a.length := by simpa [h] using h1
    simp [this, rd, List.getD]

theorem rd_beBytes2 (v i : Nat) (h : i < 2) : rd (beBytes 2 v) i = v / 2 ^ (8 * (1 - i)) % 256 := by
  simp [rd, beBytes, List.getD, h]

theorem decKey_encKey (k : Key) (h : k.WF) : decKey (encKey k) = k := by
  obtain ⟨h1, h2, h3, h4, h5⟩ := h
  have e : encKey k = beBytes 16 k.sip ++ (beBytes 16 k.dip ++ (beBytes 2 k.sport ++ (beBytes 2 k.dport ++
      ([k.l4 % 256] ++ zeros 3)))) := by
    simp [encKey, List.append_assoc]
  unfold decKey
  rw [e]
  have s1 : slice (beBytes 16 k.sip ++ (beBytes 16 k.dip ++ (beBytes 2 k.sport ++ (beBytes 2 k.dport ++
      ([k.l4 % 256] ++ zeros 3))))) 0 16 = beBytes 16 k.sip := slice_append_left _ _ 16 (by simp)
  have s2 : slice (beBytes 16 k.sip ++ (beBytes 16 k.dip ++ (beBytes 2 k.sport ++ (beBytes 2 k.dport ++
      ([k.l4 % 256] ++ zeros 3))))) 16 16 = beBytes 16 k.dip := by
    rw [slice_append_right _ _ _ _ (by simp)]
    simp only [beBytes_length, Nat.sub_self]
    exact slice_append_left _ _ 16 (by simp)
  rw [s1, s2, beVal_beBytes, beVal_beBytes]
  have p1 : be16 (beBytes 16 k.sip ++ (beBytes 16 k.dip ++ (beBytes 2 k.sport ++ (beBytes 2 k.dport ++
      ([k.l4 % 256] ++ zeros 3))))) 32 = k.sport := by
    simp only [be16, rd_append, beBytes_length]
    simp only [show ¬ (32 < 16) from by omega, show ¬ (33 < 16) from by omega, show ¬ (32 - 16 < 16) from by omega,
      show ¬ (33 - 16 < 16) from by omega, if_false, show 32 - 16 - 16 = 0 from rfl, show 33 - 16 - 16 = 1 from rfl,
      show (0 < 2) from by omega, show (1 < 2) from by omega, if_true, rd_beBytes2]
    omega
  have p2 : be16 (beBytes 16 k.sip ++ (beBytes 16 k.dip ++ (beBytes 2 k.sport ++ (beBytes 2 k.dport ++
      ([k.l4 % 256] ++ zeros 3))))) 34 = k.dport := by
    simp only [be16, rd_append, beBytes_length]
    simp only [show ¬ (34 < 16) from by omega, show ¬ (35 < 16) from by omega, show ¬ (34 - 16 < 16) from by omega,
      show ¬ (35 - 16 < 16) from by omega, if_false, show ¬ (34 - 16 - 16 < 2) from by omega,
      show ¬ (35 - 16 - 16 < 2) from by omega, show 34 - 16 - 16 - 2 = 0 from rfl, show 35 - 16 - 16 - 2 = 1 from rfl,
      show (0 < 2) from by omega, show (1 < 2) from by omega, if_true, rd_beBytes2]
    omega
  have p3 : rd (beBytes 16 k.sip ++ (beBytes 16 k.dip ++ (beBytes 2 k.sport ++ (beBytes 2 k.dport ++
      ([k.l4 % 256] ++ zeros 3))))) 36 = k.l4 := by
    simp only [rd_append, beBytes_length]
    simp only [show ¬ (36 < 16) from by omega, show ¬ (36 - 16 < 16) from by omega, if_false,
      show ¬ (36 - 16 - 16 < 2) from by omega, show ¬ (36 - 16 - 16 - 2 < 2) from by omega,
      show 36 - 16 - 16 - 2 - 2 = 0 from rfl, List.length_singleton, show (0 < 1) from by omega, if_true, rd_cons_zero]
    exact Nat.mod_eq_of_lt h5
  rw [p1, p2, p3, Nat.mod_eq_of_lt (by simpa using h1), Nat.mod_eq_of_lt (by simpa using h2)]

theorem encKey_inj (a b : Key) (ha : a.WF) (hb : b.WF) (h : encKey a = encKey b) : a = b := by
  rw [← decKey_encKey a ha, ← decKey_encKey b hb, h]

/-- looking raw key bytes up in the image of a map = looking the key up in the map -/
theorem alookup_image {β γ : Type} (m : List (Key × β)) (g : β → γ) (k : Key)
    (hm : ∀ p ∈ m, p.1.WF) (hk : k.WF) :
    alookup (m.map fun p => (encKey p.1, g p.2)) (encKey k) = (alookup m k).map g := by
  induction m with
  | nil => rfl
  | cons p rest ih =>
    obtain ⟨a, b⟩ := p
    simp only [List.map_cons]
    unfold alookup
    have hwa : a.WF := hm (a, b) (List.mem_cons_self ..)
    by_cases h : a = k
    · subst h; simp
    · have : ¬ encKey a = encKey k := fun e => h (encKey_inj a k hwa hk e)
      simp only [this, h, if_false]
      exact ih (fun p hp => hm p (List.mem_cons_of_mem _ hp))

end DaeVerif.C03
