import DaeVerif.C03.Proofs
import DaeVerif.C03.Spec
/-!
# C03 — what a decision earns (helper lemmas)

The two verdict tails realise `lanFate` / `wanFate`, and when they hand a frame to dae they leave a
hand-off record with exactly the decision.
-/
namespace DaeVerif.C03

theorem aupdate_isSome_of_room {α β : Type} [DecidableEq α] (cap : Nat) (m : List (α × β)) (k : α) (v : β)
    (h : (alookup m k).isSome ∨ m.length < cap) : ∃ m', aupdate cap m k v = some m' := by
  unfold aupdate
  cases hl : alookup m k with
  | some v0 => exact ⟨_, rfl⟩
  | none =>
    simp only [hl, Option.isSome_none, Bool.false_eq_true, false_or] at h
    have : ¬ (m.length ≥ cap) := by omega
    simp [this]

theorem prepRedirect_ok (w : World) (s : Skb) (l2 : Bool) (p : Pkt) (fw : Bool) (h : rtrackRoom w s p) :
    (prepRedirect w s l2 p fw).failed = false := by
  unfold prepRedirect
  simp only
  obtain ⟨m', hm⟩ := aupdate_isSome_of_room w.rtrackCap w.rtrack (redirectKey s p.tuples)
    ⟨s.ifindex, if l2 then p.ethSrc else zeros 6, if l2 then p.ethDst else zeros 6, if fw then 1 else 0, w.now⟩ h
  rw [hm]

theorem prepRedirect_handoff (w : World) (s : Skb) (l2 : Bool) (p : Pkt) (fw : Bool) :
    (prepRedirect w s l2 p fw).w.handoff = w.handoff := by
  unfold prepRedirect; simp only; split <;> rfl

theorem publishHandoff_rtrack (w : World) (k : Key) (r : RResult) :
    (publishHandoff w k r).1.rtrack = w.rtrack ∧ (publishHandoff w k r).1.rtrackCap = w.rtrackCap := by
  unfold publishHandoff; split <;> exact ⟨rfl, rfl⟩

theorem publishHandoff_ok (w : World) (k : Key) (r : RResult) (h : handoffRoom w k) :
    (publishHandoff w k r).2 = false ∧ alookup (publishHandoff w k r).1.handoff k = some ⟨w.now, r⟩ := by
  unfold publishHandoff
  obtain ⟨m', hm⟩ := aupdate_isSome_of_room w.handoffCap w.handoff k ⟨w.now, r⟩ h
  rw [hm]
  exact ⟨rfl, aupdate_lookup_self _ _ _ _ _ hm⟩

/-- LAN tail: the outcome is the fate the decision earns -/
theorem lanVerdict_realises (w : World) (s : Skb) (l2 : Bool) (p : Pkt) (d : Dec) (dscp : Nat) (e : Bool)
    (hr : rtrackRoom w s p) :
    (lanVerdict w s l2 p d.ob d.mark d.must dscp e).2.realises w s true (lanFate w s p d) := by
  unfold lanVerdict lanFate groupUp
  by_cases h0 : d.ob = OUTBOUND_DIRECT
  · simp only [h0, if_true]
    exact ⟨rfl, rfl, rfl, rfl⟩
  · simp only [h0, if_false]
    by_cases h1 : d.ob = OUTBOUND_BLOCK
    · simp only [h1, if_true]
      rfl
    · simp only [h1, if_false]
      by_cases ha : wanAlive w s.raw.proto d.ob p.l4proto p.tuples.five.dport = true
      · simp only [ha, Bool.not_true, Bool.false_eq_true, if_false, if_true]
        unfold redirectLan
        simp only [prepRedirect_ok w s l2 p false hr, Bool.false_eq_true, if_false]
        exact ⟨rfl, rfl, rfl, by simp⟩
      · have : wanAlive w s.raw.proto d.ob p.l4proto p.tuples.five.dport = false := by
          cases h : wanAlive w s.raw.proto d.ob p.l4proto p.tuples.five.dport <;> simp_all
        simp only [this, Bool.not_false, if_true, Bool.false_eq_true, if_false]
        rfl

/-- LAN tail, hand-over case: the hand-off record carries the decision -/
theorem lanVerdict_handoff (w : World) (s : Skb) (l2 : Bool) (p : Pkt) (d : Dec) (dscp : Nat) (e : Bool)
    (hr : rtrackRoom w s p) (hh : handoffRoom w p.tuples.five) (hf : lanFate w s p d = .toDae) :
    alookup (lanVerdict w s l2 p d.ob d.mark d.must dscp e).1.handoff p.tuples.five =
      some ⟨w.now, ⟨d.mark, d.must, p.ethSrc, d.ob, zeros 16, 0, dscp⟩⟩ := by
  unfold lanFate groupUp at hf
  unfold lanVerdict
  by_cases h0 : d.ob = OUTBOUND_DIRECT
  · simp [h0] at hf
  · simp only [h0, if_false] at hf ⊢
    by_cases h1 : d.ob = OUTBOUND_BLOCK
    · simp [h1] at hf
    · simp only [h1, if_false] at hf ⊢
      by_cases ha : wanAlive w s.raw.proto d.ob p.l4proto p.tuples.five.dport = true
      · simp only [ha, Bool.not_true, Bool.false_eq_true, if_false]
        unfold redirectLan
        simp only [prepRedirect_ok w s l2 p false hr, Bool.false_eq_true, if_false]
        have hroom : handoffRoom (prepRedirect w s l2 p false).w p.tuples.five := by
          unfold handoffRoom at hh ⊢
          rw [prepRedirect_handoff]
          have : (prepRedirect w s l2 p false).w.handoffCap = w.handoffCap := by
            unfold prepRedirect; simp only; split <;> rfl
          rw [this]; exact hh
        have hnow : (prepRedirect w s l2 p false).w.now = w.now := by
          unfold prepRedirect; simp only; split <;> rfl
        rw [(publishHandoff_ok _ _ _ hroom).2, hnow]
      · simp [ha] at hf

/-- WAN tail: the outcome is the fate the decision earns -/
theorem wanVerdict_realises (w : World) (s : Skb) (l2 : Bool) (p : Pkt) (isTcp : Bool) (d : Dec)
    (mac pn : Bytes) (pid : Nat) (mand : Bool)
    (hl4 : p.l4proto = if isTcp then IPPROTO_TCP else IPPROTO_UDP)
    (hr : rtrackRoom w s p) (hh : mand = true → handoffRoom w p.tuples.five) :
    (wanVerdict w s l2 p isTcp d.ob d.mark d.must mac pn pid mand).2.realises w s false (wanFate w s p d) := by
  unfold wanVerdict wanFate groupUp
  rw [hl4]
  by_cases h0 : d.ob = OUTBOUND_DIRECT ∧ d.mark = 0
  · obtain ⟨ha, hb⟩ := h0
    simp only [ha, hb, decide_true, beq_self_eq_true, Bool.and_self, if_true, and_self]
    cases isTcp
    · have : ¬ (IPPROTO_UDP = IPPROTO_TCP) := by decide
      simp only [Bool.false_eq_true, if_false, this]
      exact ⟨rfl, rfl, rfl, rfl⟩
    · simp only [if_true]
      exact ⟨rfl, rfl, rfl, rfl⟩
  · have h0' : (decide (d.ob = OUTBOUND_DIRECT) && d.mark == 0) = false := by
      cases hx : (decide (d.ob = OUTBOUND_DIRECT) && d.mark == 0)
      · rfl
      · exfalso; apply h0
        simp only [Bool.and_eq_true, decide_eq_true_eq, beq_iff_eq] at hx
        exact hx
    simp only [h0', Bool.false_eq_true, if_false, h0]
    by_cases h1 : d.ob = OUTBOUND_BLOCK
    · simp only [h1, if_true]; rfl
    · simp only [h1, if_false]
      by_cases ha : wanAlive w s.raw.proto d.ob (if isTcp then IPPROTO_TCP else IPPROTO_UDP) p.tuples.five.dport = true
      · simp only [ha, Bool.not_true, Bool.false_eq_true, if_false, if_true]
        have hho : ((publishHandoff w p.tuples.five ⟨d.mark, d.must, mac, d.ob, pn, pid, p.tuples.dscp⟩).2 && mand) = false := by
          cases mand
          · simp
          · rw [(publishHandoff_ok _ _ _ (hh rfl)).1]; rfl
        simp only [hho, Bool.false_eq_true, if_false]
        have hroom : rtrackRoom (publishHandoff w p.tuples.five ⟨d.mark, d.must, mac, d.ob, pn, pid, p.tuples.dscp⟩).1 s p := by
          unfold rtrackRoom at hr ⊢
          rw [(publishHandoff_rtrack _ _ _).1, (publishHandoff_rtrack _ _ _).2]; exact hr
        simp only [prepRedirect_ok _ s l2 p true hroom, Bool.false_eq_true, if_false]
        exact ⟨rfl, rfl, rfl, by simp⟩
      · have : wanAlive w s.raw.proto d.ob (if isTcp then IPPROTO_TCP else IPPROTO_UDP) p.tuples.five.dport = false := by
          cases h : wanAlive w s.raw.proto d.ob (if isTcp then IPPROTO_TCP else IPPROTO_UDP) p.tuples.five.dport <;> simp_all
        simp only [this, Bool.not_false, if_true, Bool.false_eq_true, if_false]
        rfl

/-- WAN tail, hand-over case: the hand-off record carries decision, MAC, process and DSCP -/
theorem wanVerdict_handoff (w : World) (s : Skb) (l2 : Bool) (p : Pkt) (isTcp : Bool) (d : Dec)
    (mac pn : Bytes) (pid : Nat) (mand : Bool)
    (hl4 : p.l4proto = if isTcp then IPPROTO_TCP else IPPROTO_UDP)
    (hh : handoffRoom w p.tuples.five) (hf : wanFate w s p d = .toDae) :
    alookup (wanVerdict w s l2 p isTcp d.ob d.mark d.must mac pn pid mand).1.handoff p.tuples.five =
      some ⟨w.now, ⟨d.mark, d.must, mac, d.ob, pn, pid, p.tuples.dscp⟩⟩ := by
  unfold wanFate groupUp at hf
  rw [hl4] at hf
  unfold wanVerdict
  by_cases h0 : d.ob = OUTBOUND_DIRECT ∧ d.mark = 0
  · simp [h0] at hf
  · have h0' : (decide (d.ob = OUTBOUND_DIRECT) && d.mark == 0) = false := by
      cases hx : (decide (d.ob = OUTBOUND_DIRECT) && d.mark == 0)
      · rfl
      · exfalso; apply h0
        simp only [Bool.and_eq_true, decide_eq_true_eq, beq_iff_eq] at hx
        exact hx
    simp only [h0', Bool.false_eq_true, if_false, h0] at hf ⊢
    by_cases h1 : d.ob = OUTBOUND_BLOCK
    · simp [h1] at hf
    · simp only [h1, if_false] at hf ⊢
      by_cases ha : wanAlive w s.raw.proto d.ob (if isTcp then IPPROTO_TCP else IPPROTO_UDP) p.tuples.five.dport = true
      · simp only [ha, Bool.not_true, Bool.false_eq_true, if_false]
        have hok := publishHandoff_ok w p.tuples.five ⟨d.mark, d.must, mac, d.ob, pn, pid, p.tuples.dscp⟩ hh
        simp only [hok.1, Bool.false_and, Bool.false_eq_true, if_false]
        split
        · rw [prepRedirect_handoff]; exact hok.2
        · rw [prepRedirect_handoff]; exact hok.2
      · simp [ha] at hf

end DaeVerif.C03
