import DaeVerif.C03.Proofs
/-!
# C03 — the control plane's CONSUMERS of the hand-over record

* TCP (`ControlPlane.handleConn`, head): `RetrieveRoutingResult(src, dst, TCP)` retried
  `tcpRoutingLookupRetryAttempts = 3` times `tcpRoutingLookupRetryDelay = 2 ms` apart while the answer is
  `ErrKeyNotExist`; still nothing ⇒ the relay continues with `{Outbound: OutboundControlPlaneRouting}`
  (userspace routing).
* UDP (the ingress task of `control_plane.go`): unless routing depends on packet metadata
  (`udpRouteScopeSensitive`), the per-endpoint routing cache is probed first — the endpoint under the
  flow's primary key (source only), else, for sniff-eligible ports (443 / 8443), the one under the
  symmetric key (source + destination); a cache entry is used when it is for the same destination and
  protocol and at most `UdpRoutingResultCacheTtl = 300 ms` old.  Otherwise `RetrieveRoutingResult`;
  `ErrKeyNotExist` ⇒ the same fallback record; a record read from the kernel is then written into the
  cache of the first of the two endpoints that exists.

The statements are copied from /repo into callable functions on every run (`consumer_glue` in
`checks/c03.py`) and executed on the bytes the TC programs stored, under virtual time.
-/
namespace DaeVerif.C03

def OUTBOUND_CONTROL_PLANE_ROUTING : Nat := 0xFD

/-- tuning constants of the relay the property does not fix; the driver reads them from the code on every
run (`cfg` op), the theorems hold for every value -/
structure RelayCfg where
  /-- `UdpRoutingResultCacheTtl` (ns) -/
  ttl : Nat := 300000000
  /-- `tcpRoutingLookupRetryAttempts` -/
  attempts : Nat := 3
  /-- `tcpRoutingLookupRetryDelay` (ns) -/
  delay : Nat := 2000000
deriving DecidableEq, Repr

/-- `&bpfRoutingResult{Outbound: OutboundControlPlaneRouting}` -/
def fallbackRecord : RResult := ⟨0, 0, zeros 6, OUTBOUND_CONTROL_PLANE_ROUTING, zeros 16, 0, 0⟩

/-- the record `handleConn` works with, given what `RetrieveRoutingResult` answers -/
def tcpConsumer (kernel : Option RResult) : RResult := kernel.getD fallbackRecord

/-- time `handleConn` spends in the retry loop -/
def tcpConsumerDelay (cfg : RelayCfg) (kernel : Option RResult) : Nat :=
  if kernel.isSome then 0 else (cfg.attempts - 1) * cfg.delay

/-- DNS ingress fast path (UDP to port 53 with a DNS payload): the record the DNS controller receives;
`soMark` = `c.soMarkFromDae` replaces a zero mark -/
def dnsConsumer (soMark : Nat) (kernel : Option RResult) : RResult :=
  match kernel with
  | some r => if r.mark = 0 then { r with mark := soMark } else r
  | none => { fallbackRecord with mark := soMark }

abbrev AddrPort := Nat × Nat

/-- `UdpEndpointKey` without route scope: full-cone (source only) or symmetric (source, destination) -/
structure EKey where
  src : AddrPort
  dst : Option AddrPort
deriving DecidableEq, Repr

/-- the routing cache of one `UdpEndpoint` -/
structure CacheEnt where
  dst : AddrPort
  proto : Nat
  stamp : Nat
  rr : RResult
deriving DecidableEq, Repr

/-- the endpoints of the pool with their caches, and the control plane's clock -/
structure UState where
  eps : List (EKey × Option CacheEnt) := []
  ut : Nat := 0

def sniffPort (p : Nat) : Bool := p == 443 || p == 8443

/-- `CachedRoutingFallbackKey` for a flow without confirmed QUIC state -/
def fallbackKey (src dst : AddrPort) : Option EKey :=
  if sniffPort dst.2 || sniffPort src.2 then some ⟨src, some dst⟩ else none

/-- `GetCachedRoutingResult(dst, UDP)` on the endpoint under `k` (none: no such endpoint / miss) -/
def cacheProbe (cfg : RelayCfg) (u : UState) (k : EKey) (dst : AddrPort) : Option CacheEnt :=
  match alookup u.eps k with
  | some (some e) =>
    if e.proto = IPPROTO_UDP ∧ e.dst = dst ∧ u.ut - e.stamp ≤ cfg.ttl then some e else none
  | _ => none

def cacheLookup (cfg : RelayCfg) (u : UState) (src dst : AddrPort) : Option CacheEnt :=
  match cacheProbe cfg u ⟨src, none⟩ dst with
  | some e => some e
  | none =>
    match fallbackKey src dst with
    | some k => cacheProbe cfg u k dst
    | none => none

/-- `UpdateCachedRoutingResult` on the first existing endpoint of (primary, fallback) -/
def cacheStore (u : UState) (src dst : AddrPort) (r : RResult) : UState :=
  let e : CacheEnt := ⟨dst, IPPROTO_UDP, u.ut, r⟩
  if (alookup u.eps ⟨src, none⟩).isSome then { u with eps := areplace u.eps ⟨src, none⟩ (some e) }
  else
    match fallbackKey src dst with
    | some k => if (alookup u.eps k).isSome then { u with eps := areplace u.eps k (some e) } else u
    | none => u

/-- result of the UDP ingress task: new state, the record `handlePkt` receives, was it read from the kernel now -/
structure UdpUse where
  u : UState
  rr : RResult
  fresh : Bool

def udpConsumer (cfg : RelayCfg) (scopeSensitive : Bool) (u : UState) (src dst : AddrPort) (kernel : Option RResult) : UdpUse :=
  match (if scopeSensitive then none else cacheLookup cfg u src dst) with
  | some e => ⟨u, e.rr, false⟩
  | none =>
    match kernel with
    | some r => ⟨if scopeSensitive then u else cacheStore u src dst r, r, true⟩
    | none => ⟨u, fallbackRecord, false⟩

/-! ## Statements -/

/-- every cache entry is a record the kernel held for that endpoint's source and the entry's
destination at the moment the entry was written -/
def CacheSound (hist : Nat → AddrPort → AddrPort → Option RResult) (u : UState) : Prop :=
  ∀ k c, (k, some c) ∈ u.eps → c.stamp ≤ u.ut ∧ hist c.stamp k.src c.dst = some c.rr

theorem mem_areplace {α β} [DecidableEq α] (m : List (α × β)) (k : α) (v : β) (p : α × β)
    (h : p ∈ areplace m k v) : p ∈ m ∨ p = (k, v) := by
  unfold areplace at h
  rcases List.mem_map.mp h with ⟨q, hq, rfl⟩
  by_cases hk : q.1 = k
  · simp only [hk, if_true]; exact Or.inr (by first | rfl | trivial)
  · simp only [hk, if_false]; exact Or.inl hq

theorem cacheProbe_sound (cfg : RelayCfg) (hist) (u : UState) (hs : CacheSound hist u) (k : EKey) (dst : AddrPort) (e : CacheEnt)
    (h : cacheProbe cfg u k dst = some e) :
    e.dst = dst ∧ e.stamp ≤ u.ut ∧ u.ut - e.stamp ≤ cfg.ttl ∧ hist e.stamp k.src dst = some e.rr := by
  unfold cacheProbe at h
  split at h
  · rename_i e' he'
    split at h
    · rename_i hc
      cases h
      have := hs k e (alookup_mem _ _ _ he')
      exact ⟨hc.2.1, this.1, hc.2.2, hc.2.1 ▸ this.2⟩
    · cases h
  · cases h

theorem cacheLookup_sound (cfg : RelayCfg) (hist) (u : UState) (hs : CacheSound hist u) (src dst : AddrPort) (e : CacheEnt)
    (h : cacheLookup cfg u src dst = some e) :
    e.stamp ≤ u.ut ∧ u.ut - e.stamp ≤ cfg.ttl ∧ hist e.stamp src dst = some e.rr := by
  unfold cacheLookup at h
  split at h
  · rename_i e' he'
    cases h
    have := cacheProbe_sound cfg hist u hs ⟨src, none⟩ dst e he'
    exact ⟨this.2.1, this.2.2.1, this.2.2.2⟩
  · split at h
    · rename_i k hk
      have := cacheProbe_sound cfg hist u hs k dst e h
      have hksrc : k.src = src := by
        unfold fallbackKey at hk
        split at hk
        · cases hk; rfl
        · cases hk
      exact ⟨this.2.1, this.2.2.1, hksrc ▸ this.2.2.2⟩
    · cases h

theorem cacheStore_sound (hist) (u : UState) (hs : CacheSound hist u) (src dst : AddrPort) (r : RResult)
    (hk : hist u.ut src dst = some r) : CacheSound hist (cacheStore u src dst r) := by
  have key : ∀ k : EKey, k.src = src → CacheSound hist { u with eps := areplace u.eps k (some ⟨dst, IPPROTO_UDP, u.ut, r⟩) } := by
    intro k hksrc k' c hm
    rcases mem_areplace _ _ _ _ hm with h | h
    · exact hs k' c h
    · cases h
      exact ⟨Nat.le_refl _, hksrc ▸ hk⟩
  unfold cacheStore
  dsimp only
  split
  · exact key ⟨src, none⟩ rfl
  · split
    · rename_i k hfk
      split
      · refine key k ?_
        unfold fallbackKey at hfk
        split at hfk
        · cases hfk; rfl
        · cases hfk
      · exact hs
    · exact hs

theorem cacheStore_ut (u : UState) (src dst : AddrPort) (r : RResult) : (cacheStore u src dst r).ut = u.ut := by
  unfold cacheStore
  dsimp only
  split
  · rfl
  · split
    · split <;> rfl
    · rfl

theorem udpConsumer_cases (cfg : RelayCfg) (scope : Bool) (u : UState) (src dst : AddrPort) (kernel : Option RResult) :
    (∃ e, scope = false ∧ cacheLookup cfg u src dst = some e ∧ udpConsumer cfg scope u src dst kernel = ⟨u, e.rr, false⟩) ∨
    (∃ r, kernel = some r ∧
      udpConsumer cfg scope u src dst kernel = ⟨if scope then u else cacheStore u src dst r, r, true⟩) ∨
    (kernel = none ∧ udpConsumer cfg scope u src dst kernel = ⟨u, fallbackRecord, false⟩) := by
  cases scope <;> cases hc : cacheLookup cfg u src dst <;> cases kernel <;> simp [udpConsumer, hc]

end DaeVerif.C03

namespace DaeVerif.C03.Props
open DaeVerif.C03

/-- **The record the UDP relay works with is the kernel's record of this flow at some instant within
the last `UdpRoutingResultCacheTtl` (300 ms as shipped; `cfg.ttl`, any value) — or the userspace-routing fallback when the kernel holds none now.**  `hist t src dst`
is what `RetrieveRoutingResult(src, dst, UDP)` answers at time `t` (`kernel` = now); the per-endpoint
cache never serves a record of another destination, nor one older than `UdpRoutingResultCacheTtl`;
with metadata-dependent routing (`scope`) the cache is not used at all; and the cache stays sound. -/
theorem udp_relay_record_is_at_most_cache_ttl_old (cfg : RelayCfg) (hist : Nat → AddrPort → AddrPort → Option RResult)
    (scope : Bool) (u : UState) (src dst : AddrPort) (kernel : Option RResult)
    (hs : CacheSound hist u) (hk : hist u.ut src dst = kernel) :
    ((∃ t, t ≤ u.ut ∧ u.ut - t ≤ cfg.ttl ∧
        hist t src dst = some (udpConsumer cfg scope u src dst kernel).rr) ∨
      (kernel = none ∧ (udpConsumer cfg scope u src dst kernel).rr = fallbackRecord)) ∧
    ((udpConsumer cfg scope u src dst kernel).fresh = true → kernel = some (udpConsumer cfg scope u src dst kernel).rr) ∧
    (scope = true → (udpConsumer cfg scope u src dst kernel).u = u ∧
      (udpConsumer cfg scope u src dst kernel).rr = kernel.getD fallbackRecord) ∧
    (udpConsumer cfg scope u src dst kernel).u.ut = u.ut ∧ CacheSound hist (udpConsumer cfg scope u src dst kernel).u := by
  rcases udpConsumer_cases cfg scope u src dst kernel with ⟨e, hsc, hc, hx⟩ | ⟨r, hr, hx⟩ | ⟨hn, hx⟩
  · have := cacheLookup_sound cfg hist u hs src dst e hc
    rw [hx]
    refine ⟨Or.inl ⟨e.stamp, this.1, this.2.1, this.2.2⟩, ?_, ?_, rfl, hs⟩
    · intro h; cases h
    · intro h; rw [hsc] at h; cases h
  · rw [hx]
    subst hr
    refine ⟨Or.inl ⟨u.ut, Nat.le_refl _, by simp, hk⟩, fun _ => rfl, ?_, ?_, ?_⟩
    · intro h; subst h; exact ⟨rfl, rfl⟩
    · cases scope
      · exact cacheStore_ut u src dst r
      · rfl
    · cases scope
      · exact cacheStore_sound hist u hs src dst r hk
      · exact hs
  · rw [hx]
    subst hn
    exact ⟨Or.inr ⟨rfl, rfl⟩, (by intro h; cases h), fun _ => ⟨rfl, rfl⟩, rfl, hs⟩

/-- **The TCP relay works with exactly the kernel's record**, and with the userspace-routing fallback
only when `RetrieveRoutingResult` finds none (after `attempts − 1` waits of `delay`: 2 × 2 ms as shipped). -/
theorem tcp_relay_record_is_the_kernel_record (cfg : RelayCfg) (kernel : Option RResult) :
    (∀ r, kernel = some r → tcpConsumer kernel = r ∧ tcpConsumerDelay cfg kernel = 0) ∧
    (kernel = none → tcpConsumer kernel = fallbackRecord ∧
      tcpConsumerDelay cfg kernel = (cfg.attempts - 1) * cfg.delay) := by
  refine ⟨?_, ?_⟩
  · intro r h; subst h; exact ⟨rfl, rfl⟩
  · intro h; subst h; exact ⟨rfl, rfl⟩

/-- **The DNS controller gets the kernel's record of the datagram** (outbound, must, DSCP, MAC, process
exactly; the mark too unless it is 0, which becomes dae's own socket mark), and the userspace-routing
fallback carrying dae's mark only when the kernel holds no record. -/
theorem dns_relay_record_is_the_kernel_record (soMark : Nat) (kernel : Option RResult) :
    (∀ r, kernel = some r →
      (dnsConsumer soMark kernel).outbound = r.outbound ∧ (dnsConsumer soMark kernel).must = r.must ∧
      (dnsConsumer soMark kernel).dscp = r.dscp ∧ (dnsConsumer soMark kernel).mac = r.mac ∧
      (dnsConsumer soMark kernel).pname = r.pname ∧ (dnsConsumer soMark kernel).pid = r.pid ∧
      (dnsConsumer soMark kernel).mark = if r.mark = 0 then soMark else r.mark) ∧
    (kernel = none → dnsConsumer soMark kernel = { fallbackRecord with mark := soMark }) := by
  refine ⟨?_, ?_⟩
  · intro r h; subst h
    unfold dnsConsumer
    dsimp only
    split <;> simp_all
  · intro h; subst h; rfl

end DaeVerif.C03.Props
