import DaeVerif.C03.Model
/-!
# C03 — the two programs on dae's own veth pair that CONSUME a hand-over

`tproxy_dae0peer_ingress` (on `dae0peer`, the end inside dae's netns) receives every frame a capturing
hook redirected to `dae0`: it insists on `cb[0] = TPROXY_MARK`, marks the skb so that policy routing
delivers it locally, and — when `cb[1]` names a listener protocol — assigns the skb to dae's listening
socket of that protocol/family (`listen_socket_map[0]` TCP/IPv4, `[2]` TCP/IPv6, `[1]` UDP).

`tproxy_dae0_ingress` (on `dae0`) receives dae's REPLIES to a captured client; it looks the address
pair up in `redirect_track` (written by `prep_redirect_to_control_plane` when the flow was handed
over), restores the link-layer addresses and sends the frame out of / into the interface the flow
came from.

Kernel helpers: `bpf_sk_assign` / `bpf_skb_change_type` are recorded (their return values are ignored
by the programs); `bpf_skb_store_bytes` cannot fail here (the tuple could be read, so the frame has an
Ethernet header).
-/
namespace DaeVerif.C03

def PACKET_HOST : Nat := 0
def PACKET_OTHERHOST : Nat := 3
def BPF_F_INGRESS : Nat := 1

/-- what `tproxy_dae0peer_ingress` does to an skb -/
structure PeerOut where
  act : Nat
  mark : Nat
  /-- argument of `bpf_skb_change_type`, if called -/
  pktType : Option Nat
  /-- key of `listen_socket_map` whose socket was passed to `bpf_sk_assign` (`none`: no call) -/
  assigned : Option Nat
deriving DecidableEq, Repr

/-- `assign_listener`'s key choice: UDP (and anything that is not TCP) ⇒ 1; TCP ⇒ 2 for
`skb->protocol = ETH_P_IPV6`, else 0 -/
def listenerKey (l4 proto : Nat) : Nat :=
  if l4 = IPPROTO_TCP then (if proto = ETH_P_IPV6 then 2 else 0) else 1

/-- `tproxy_dae0peer_ingress`; `listeners` = the filled slots of `listen_socket_map` -/
def dae0peerIngress (listeners : List Nat) (mark cb0 cb1 proto : Nat) : PeerOut :=
  if cb0 ≠ TPROXY_MARK then ⟨TC_ACT_SHOT, mark, none, none⟩
  else
    ⟨TC_ACT_OK, TPROXY_MARK, some PACKET_HOST,
      if cb1 % 256 = 0 then none
      else if listeners.contains (listenerKey (cb1 % 256) proto) then some (listenerKey (cb1 % 256) proto)
      else none⟩

/-- result of `load_redirect_tuple`: `key k` (0), `other` (1: neither IPv4 nor IPv6), `efault` -/
inductive RtR where
  | key (k : RKey)
  | other
  | efault
deriving DecidableEq, Repr

def rkeyV4 (bs : Bytes) : RKey :=
  ⟨0xffff * 2 ^ 32 + beVal (slice bs 30 4), 0xffff * 2 ^ 32 + beVal (slice bs 26 4)⟩

def rkeyV6 (bs : Bytes) : RKey := ⟨beVal (slice bs 38 16), beVal (slice bs 22 16)⟩

/-- `load_redirect_tuple_fast`: `none` = `LOAD_REDIRECT_TUPLE_FALLBACK`; decides by the ETHERNET
header's protocol field -/
def loadRedirectTupleFast (r : Raw) : Option RtR :=
  if !r.pullOk then none
  else if r.lin < 14 then none
  else if be16 r.bytes 12 = ETH_P_IP then (if r.lin < 34 then none else some (.key (rkeyV4 r.bytes)))
  else if be16 r.bytes 12 = ETH_P_IPV6 then (if r.lin < 54 then none else some (.key (rkeyV6 r.bytes)))
  else some .other

/-- `load_redirect_tuple_slow`: decides by `skb->protocol`; `bpf_skb_load_bytes` fails iff
`offset + len > skb->len` -/
def loadRedirectTupleSlow (r : Raw) : RtR :=
  if r.proto = ETH_P_IP then (if r.bytes.length < 34 then .efault else .key (rkeyV4 r.bytes))
  else if r.proto = ETH_P_IPV6 then (if r.bytes.length < 54 then .efault else .key (rkeyV6 r.bytes))
  else .other

def loadRedirectTuple (r : Raw) : RtR :=
  match loadRedirectTupleFast r with
  | some x => x
  | none => loadRedirectTupleSlow r

/-- what `tproxy_dae0_ingress` does to an skb -/
structure D0Out where
  act : Nat
  /-- `bpf_redirect(ifindex, flags)` -/
  redir : Option (Nat × Nat)
  pktType : Option Nat
  bytes : Bytes
deriving DecidableEq, Repr

/-- the tail of `tproxy_dae0_ingress` once the entry is found -/
def dae0Return (w : World) (r : Raw) (k : RKey) (e : REntry) : World × D0Out :=
  ({ w with rtrack := areplace w.rtrack k { e with lastSeen := w.now } },
   { act := TC_ACT_REDIRECT
     redir := some (e.ifindex, if e.fromWan ≠ 0 then BPF_F_INGRESS else 0)
     pktType := some (if e.fromWan ≠ 0 then PACKET_HOST else PACKET_OTHERHOST)
     bytes := storeBytes (storeBytes r.bytes 6 e.dmac) 0 e.smac })

/-- `tproxy_dae0_ingress` -/
def dae0Ingress (w : World) (r : Raw) : World × D0Out :=
  match loadRedirectTuple r with
  | .key k =>
    match alookup w.rtrack k with
    | some e => dae0Return w r k e
    | none => (w, ⟨TC_ACT_OK, none, none, r.bytes⟩)
  | _ => (w, ⟨TC_ACT_OK, none, none, r.bytes⟩)

end DaeVerif.C03
