import DaeVerif.C03.Janitor2
import DaeVerif.C03.Props
/-!
# C03 — janitor rounds interleaved with traffic, the reload-retirement pass: theorems

The transition system: a state is the kernel world plus the keys a janitor walk has collected but not yet
deleted; a step is a frame on any hook (with the control plane's other activity in front of it), the
`BatchLookup` walk of a janitor round (`snap`), or its delete phase (`del`).  The theorems hold for EVERY
finite trace, i.e. every interleaving of rounds with the traffic of all flows.
-/
namespace DaeVerif.C03

/-! ## delete by key -/

section EraseKeys
variable {α β : Type} [DecidableEq α]

theorem alookup_eraseKeys_mem (m : List (α × β)) (ks : List α) (k : α) (h : k ∈ ks) :
    alookup (eraseKeys m ks) k = none := by
  induction m with
  | nil => rfl
  | cons p rest ih =>
    obtain ⟨a, b⟩ := p
    unfold eraseKeys at ih ⊢
    simp only [List.filter_cons]
    by_cases ha : ks.contains a = true
    · simp only [ha, Bool.not_true, Bool.false_eq_true, if_false]; exact ih
    · simp only [ha, Bool.not_false, if_true]
      have hne : ¬ a = k := by
        intro e; subst e
        exact ha (by simpa using h)
      unfold alookup
      simp only [hne, if_false]
      exact ih

theorem alookup_eraseKeys_not_mem (m : List (α × β)) (ks : List α) (k : α) (h : k ∉ ks) :
    alookup (eraseKeys m ks) k = alookup m k := by
  induction m with
  | nil => rfl
  | cons p rest ih =>
    obtain ⟨a, b⟩ := p
    unfold eraseKeys at ih ⊢
    simp only [List.filter_cons]
    by_cases ha : ks.contains a = true
    · simp only [ha, Bool.not_true, Bool.false_eq_true, if_false]
      have hne : ¬ a = k := by
        intro e; subst e
        exact h (by simpa using ha)
      conv => rhs; unfold alookup
      simp only [hne, if_false]
      exact ih
    · simp only [ha, Bool.not_false, if_true]
      unfold alookup
      by_cases hk : a = k
      · simp [hk]
      · simp only [hk, if_false]; exact ih

theorem mem_collected (m : List (α × β)) (c : α × β → Bool) (k : α) :
    k ∈ (m.filter c).map (·.1) ↔ ∃ v, (k, v) ∈ m ∧ c (k, v) = true := by
  simp only [List.mem_map, List.mem_filter]
  constructor
  · rintro ⟨⟨a, b⟩, ⟨hm, hc⟩, rfl⟩; exact ⟨b, hm, hc⟩
  · rintro ⟨v, hm, hc⟩; exact ⟨(k, v), ⟨hm, hc⟩, rfl⟩

/-- the keys of the map are pairwise different (every map the programs and the drivers build is) -/
def KeysNodup (m : List (α × β)) : Prop := (m.map (·.1)).Nodup

theorem nodup_unique (m : List (α × β)) (h : KeysNodup m) (k : α) (v v' : β)
    (h1 : (k, v) ∈ m) (h2 : (k, v') ∈ m) : v = v' := by
  induction m with
  | nil => cases h1
  | cons p rest ih =>
    unfold KeysNodup at h ih
    simp only [List.map_cons, List.nodup_cons] at h
    rcases List.mem_cons.mp h1 with e1 | e1 <;> rcases List.mem_cons.mp h2 with e2 | e2
    · rw [← e1] at e2; exact (Prod.mk.inj e2).2.symm ▸ rfl
    · exact absurd (List.mem_map.mpr ⟨(k, v'), e2, by rw [← e1]⟩) h.1
    · exact absurd (List.mem_map.mpr ⟨(k, v), e1, by rw [← e2]⟩) h.1
    · exact ih h.2 e1 e2

/-- with pairwise different keys, "collect the expired keys, then delete them" is the atomic filter -/
theorem eraseKeys_collected (m : List (α × β)) (c : α × β → Bool) (h : KeysNodup m) :
    eraseKeys m ((m.filter c).map (·.1)) = m.filter fun p => !c p := by
  unfold eraseKeys
  apply List.filter_congr
  intro p hp
  obtain ⟨a, b⟩ := p
  by_cases hc : c (a, b) = true
  · have : a ∈ (m.filter c).map (·.1) := (mem_collected m c a).mpr ⟨b, hp, hc⟩
    simp [hc, this]
  · have : a ∉ (m.filter c).map (·.1) := by
      intro hm
      obtain ⟨v, hv, hcv⟩ := (mem_collected m c a).mp hm
      have := nodup_unique m h a b v hp hv
      subst this
      exact hc hcv
    simp only [Bool.not_eq_true] at hc
    simp [hc, this]

end EraseKeys

/-! ## the transition system -/

inductive JStep where
  /-- a frame on some hook, preceded by the control plane's other activity -/
  | frame (e : Event)
  /-- phase 1 of a conn-state round: the walk, with the janitor's clock sample and retirement horizon -/
  | snap (aggressive : Bool) (userNow stale : Nat)
  /-- phase 2: the collected keys are deleted -/
  | del

def jstep (st : World × JanPlan) : JStep → World × JanPlan
  | .frame e => ((e.apply st.1).1, st.2)
  | .snap a t s => (st.1, janPlan a t s st.1)
  | .del => (janApply st.2 st.1, {})

def jrun (st : World × JanPlan) : List JStep → World × JanPlan
  | [] => st
  | s :: ss => jrun (jstep st s) ss

/-- "while the flow is tracked", for a trace: frames of `k` are no pure SYNs and arrive before the entry's
idle timeout, the control plane's other activity leaves `conn_state_map` alone, and no janitor WALK finds an
entry of `k` collectable (expired by the janitor's measure, or idle since before the retirement horizon) -/
def JKeeps (k : Key) : World × JanPlan → List JStep → Prop
  | _, [] => True
  | st, s :: ss =>
    (match s with
      | .frame e => EnvOk e ∧
          (frameKey e.hook e.skb e.l2 = some k → e.isNewSyn = false ∧ expiredAt (e.pre st.1) k = false)
      | .snap a t sl => ∀ cs, (k, cs) ∈ st.1.conn → janCollectsConn a t sl (k, cs) = false
      | .del => True) ∧
    JKeeps k (jstep st s) ss

/-- every capturing frame of `k` in the trace gets the fate of decision `d`, independently of the rules -/
def JFollows (k : Key) (d : Dec) : World × JanPlan → List JStep → Prop
  | _, [] => True
  | st, s :: ss =>
    (match s with
      | .frame e => Follows k d st.1 [e]
      | _ => True) ∧
    JFollows k d (jstep st s) ss

theorem keyKept_single (k : Key) (w : World) (e : Event) (h : EnvOk e) : KeyKept k w [e] := by
  refine ⟨?_, trivial⟩
  unfold Event.pre; rw [h w]

end DaeVerif.C03

namespace DaeVerif.C03.Props
open DaeVerif.C03

/-! ## Janitor rounds in two phases -/

/-- **What a walk collects**: exactly the keys under which the map — as it is at the time of the walk —
holds an entry that is past the janitor's timeout for it (by the janitor's own clock sample, signed: an entry
stamped after the sample is never old) or, with a retirement horizon, was last touched before it. -/
theorem janitor_walk_collects_expired_or_retired_entries (a : Bool) (t stale : Nat) (w : World) (k : Key) :
    (k ∈ (janPlan a t stale w).conn ↔ ∃ cs, (k, cs) ∈ w.conn ∧ janCollectsConn a t stale (k, cs) = true) ∧
    (k ∈ (janPlan a t stale w).handoff ↔ ∃ h, (k, h) ∈ w.handoff ∧ janCollectsHandoff t stale (k, h) = true) :=
  ⟨mem_collected _ _ _, mem_collected _ _ _⟩

/-- **The delete phase is by key, whatever the map holds by then**: every collected key is gone from the
world the deletes meet — also when the kernel programs stored a NEW entry under it after the walk — and every
other key keeps its entry.  (`w` is arbitrary: any amount of traffic may lie between the phases.) -/
theorem janitor_delete_phase_is_by_key (pl : JanPlan) (w : World) (k : Key) :
    (k ∈ pl.conn → alookup (janApply pl w).conn k = none) ∧
    (k ∉ pl.conn → alookup (janApply pl w).conn k = alookup w.conn k) ∧
    (k ∈ pl.handoff → alookup (janApply pl w).handoff k = none) ∧
    (k ∉ pl.handoff → alookup (janApply pl w).handoff k = alookup w.handoff k) :=
  ⟨alookup_eraseKeys_mem _ _ _, alookup_eraseKeys_not_mem _ _ _, alookup_eraseKeys_mem _ _ _,
    alookup_eraseKeys_not_mem _ _ _⟩

/-- **A round with no traffic between its phases is the atomic round** of `Janitor.lean` (pairwise
different keys; no retirement horizon). -/
theorem janitor_round_without_traffic_is_atomic (a : Bool) (t : Nat) (w : World)
    (hc : KeysNodup w.conn) (hh : KeysNodup w.handoff) :
    (janRound a t 0 w).conn = (janitor a t w).conn ∧ (janRound a t 0 w).handoff = (janitor a t w).handoff := by
  unfold janRound janApply janPlan janitor
  simp only
  rw [eraseKeys_collected _ _ hc, eraseKeys_collected _ _ hh]
  constructor
  · apply List.filter_congr
    intro p _
    unfold janCollectsConn janitorDeletesConn staleBefore olderThan
    cases janitorTimeout a p.1 p.2 <;> simp
  · apply List.filter_congr
    intro p _
    unfold janCollectsHandoff janitorDeletesHandoff staleBefore
    simp

/-- **A tracked flow keeps its decision under EVERY interleaving of janitor rounds with traffic** — as long
as no walk finds its entry collectable.  Flow `k` holds decision `d`, no key of a pending delete phase is `k`.
Then along any trace of frames (all flows, all hooks, rule / domain / connectivity / clock changes in between),
walks and delete phases in any order, with `JKeeps`: every capturing frame of `k` gets the fate of `d` without
consulting the rule program, and at the end `k` still holds `d`. -/
theorem tracked_flow_survives_interleaved_janitor (k : Key) (d : Dec)
    (h4 : k.l4 = IPPROTO_TCP ∨ k.l4 = IPPROTO_UDP) (hsl : shortLivedUdp k = false) :
    ∀ (tr : List JStep) (st : World × JanPlan), Tracked st.1 k d → k ∉ st.2.conn → JKeeps k st tr →
      JFollows k d st tr ∧ Tracked (jrun st tr).1 k d ∧ k ∉ (jrun st tr).2.conn := by
  intro tr
  induction tr with
  | nil => intro st ht hn _; exact ⟨trivial, ht, hn⟩
  | cons s ss ih =>
    intro st ht hn hk
    obtain ⟨hk0, hkrest⟩ := hk
    cases s with
    | frame e =>
      obtain ⟨henv, hkeep⟩ := hk0
      obtain ⟨hf, htr⟩ := sticky_decision_janitor k d h4 hsl [e] st.1 (keyKept_single k st.1 e henv) ht
        ⟨hkeep, trivial⟩
      obtain ⟨ih1, ih2⟩ := ih (jstep st (.frame e)) htr hn hkrest
      exact ⟨⟨hf, ih1⟩, ih2⟩
    | snap a t sl =>
      have hn' : k ∉ (janPlan a t sl st.1).conn := by
        intro hm
        obtain ⟨cs, hcs, hcol⟩ := (mem_collected _ _ k).mp hm
        rw [hk0 cs hcs] at hcol; cases hcol
      obtain ⟨ih1, ih2⟩ := ih (jstep st (.snap a t sl)) ht hn' hkrest
      exact ⟨⟨trivial, ih1⟩, ih2⟩
    | del =>
      have ht' : Tracked (janApply st.2 st.1) k d := by
        obtain ⟨cs, hl, h⟩ := ht
        exact ⟨cs, by rw [(janitor_delete_phase_is_by_key st.2 st.1 k).2.1 hn]; exact hl, h⟩
      obtain ⟨ih1, ih2⟩ := ih (jstep st .del) ht' (by simp [jstep]) hkrest
      exact ⟨⟨trivial, ih1⟩, ih2⟩

/-! ## The reload-retirement pass -/

/-- **A flow that was active since the retirement horizon survives the reload pass** (and any janitor walk):
an entry stamped at or after `staleBeforeNs` whose age by the janitor's clock is within the (aggressive =
halved) timeout is not collected. -/
theorem reload_retirement_spares_flows_active_since_the_horizon (a : Bool) (t stale : Nat) (k : Key) (cs : ConnState)
    (tm : Nat) (htm : janitorTimeout a k cs = some tm) (hstale : stale ≤ cs.lastSeen) (h0 : cs.lastSeen ≠ 0)
    (hage : t ≤ cs.lastSeen + tm) : janCollectsConn a t stale (k, cs) = false := by
  unfold janCollectsConn
  simp only [htm]
  unfold olderThan staleBefore
  have h1 : ¬ ((t : Int) - (cs.lastSeen : Int) > (tm : Int)) := by omega
  have h2 : ¬ cs.lastSeen < stale := by omega
  simp [h1, h2, h0]

/-- **Everything idle since before the horizon is retired**: after `RunReloadRetirementCleanup(stale)`
(`stale ≠ 0`) no TCP / UDP entry last touched before `stale` is left, in any of the four maps the same rule
applies (`reloadRetirement`); and with `stale = 0` the pass does nothing. -/
theorem reload_retirement_removes_what_was_idle_before_the_horizon (t stale : Nat) (w : World) (k : Key) (cs : ConnState)
    (hs : stale ≠ 0) (hm : (k, cs) ∈ w.conn) (h4 : k.l4 = IPPROTO_TCP ∨ k.l4 = IPPROTO_UDP)
    (hold : cs.lastSeen < stale) :
    alookup (reloadRetirement t stale w).conn k = none ∧ reloadRetirement t 0 w = w := by
  refine ⟨?_, by unfold reloadRetirement; simp⟩
  unfold reloadRetirement
  simp only [hs, if_false]
  apply (janitor_delete_phase_is_by_key _ w k).1
  apply (mem_collected _ _ k).mpr
  refine ⟨cs, hm, ?_⟩
  unfold janCollectsConn
  have ht : ∃ tm, janitorTimeout true k cs = some tm := by
    unfold janitorTimeout
    rcases h4 with h | h
    · have hne : ¬ (IPPROTO_TCP = IPPROTO_UDP) := by decide
      simp [h, hne]
    · simp [h]
  obtain ⟨tm, htm⟩ := ht
  simp only [htm]
  unfold staleBefore
  have : stale > 0 := Nat.pos_of_ne_zero hs
  simp [this, hold]

/-- **A hand-off record published after the janitor's clock sample is never collected** (the kernel stamps
with `bpf_ktime_get_ns` while the walk is under way), nor is one published at or after the horizon. -/
theorem janitor_spares_handoff_published_after_its_clock_sample (t stale : Nat) (k : Key) (h : Handoff)
    (h0 : h.lastSeen ≠ 0) (hafter : t ≤ h.lastSeen) (hstale : stale ≤ h.lastSeen) :
    janCollectsHandoff t stale (k, h) = false := by
  unfold janCollectsHandoff handoffExpired staleBefore
  have h2 : ¬ h.lastSeen < stale := by omega
  simp [h0, hafter, h2]

/-- **A socket whose entry the cookie janitor removed is recognised by its mark only**: `cookie_pid_map`
entries idle for more than 5 minutes (or since before the reload horizon) are forgotten; a frame of such a
socket is dae's iff it carries dae's socket mark or mark bit `0x100` — and the record of a flow it opens
carries no process. -/
theorem forgotten_socket_is_recognised_by_mark_only (t stale : Nat) (w : World) (s : Skb) (pp : PidPname)
    (hm : (s.cookie, pp) ∈ w.cookies) (hold : janCollectsCookie t stale (s.cookie, pp) = true) :
    let w' := janRound false t stale w
    alookup w'.cookies s.cookie = none ∧
    (pidIsControlPlane w' s).isCp =
      ((w.param.sockMark != 0 && s.mark == w.param.sockMark) || s.mark % 512 / 256 == 1) ∧
    (pidIsControlPlane w' s).pp = none := by
  intro w'
  have h1 : alookup w'.cookies s.cookie = none := by
    apply alookup_eraseKeys_mem
    exact (mem_collected _ _ _).mpr ⟨pp, hm, hold⟩
  refine ⟨h1, ?_, ?_⟩
  · rw [dae_recognition, h1]; rfl
  · unfold pidIsControlPlane; rw [h1]

/-! ## Non-vacuity, and the snapshot/delete race spelled out -/

/-- `exTracked` 121 s later: the entry of `exK` is past the 120 s timeout -/
def exIdle : World := { exTracked with now := 122000000000 }

-- `tracked_flow_survives_interleaved_janitor`: a live tracked flow; walk, ACK, delete phase, ACK
example : Tracked exTracked exK ⟨2, 0, 0⟩ ∧ exK ∉ ({} : JanPlan).conn ∧
    JKeeps exK (exTracked, {}) [.snap true 1000000000 0, .frame ⟨fun _ => 1, id, .lanIngress, exAck, true⟩, .del,
      .frame ⟨fun _ => 0, id, .lanIngress, exAck, true⟩] := by
  refine ⟨⟨_, rfl, by decide, rfl, rfl⟩, by simp, ?_, ⟨fun _ => rfl, fun _ => ⟨by decide, by decide⟩⟩,
    trivial, ⟨fun _ => rfl, fun _ => ⟨by decide, by decide⟩⟩, trivial⟩
  intro cs hcs
  have : cs = ⟨false, 0, 1000000000, 0, 2, 0, 0, 1, [2,0,0,0,0,1], zeros 16, 0⟩ := by
    simp only [exTracked, List.mem_singleton, Prod.mk.injEq, true_and] at hcs; exact hcs
  subst this; decide

-- THE RACE (`janitor_delete_phase_is_by_key` with a new entry under a collected key).  The old connection on
-- `exK` has been idle for 121 s.  A janitor walk collects `exK`; before its delete phase the client opens a NEW
-- connection on the same 5-tuple: the SYN is handed to dae under "group 2" and the decision is cached; the
-- delete phase then removes that fresh entry, and the connection's next segment passes the LAN hook untouched
-- (`lan_untracked_tcp_passes`) although its SYN went to the proxy.
example :
    let st1 := jstep (exIdle, {}) (.snap false 122000000000 0)
    let st2 := jstep st1 (.frame ⟨fun _ => 2, id, .lanIngress, exSyn, true⟩)
    let st3 := jstep st2 .del
    exK ∈ st1.2.conn ∧
    (lanIngress (fun _ => 2) exIdle exSyn true).2.act = TC_ACT_REDIRECT ∧
    alookup st2.1.conn exK = some ⟨false, 0, 122000000000, 0, 2, 0, 0, 1, [2,0,0,0,0,1], zeros 16, 0⟩ ∧
    alookup st3.1.conn exK = none ∧
    (lanIngress (fun _ => 2) st3.1 exAck true).2 = outOk exAck exAck.mark := by
  refine ⟨by decide, by decide, by decide, by decide, by decide⟩

-- `reload_retirement_spares_flows_active_since_the_horizon` / `..._removes_what_was_idle_before_the_horizon`
example : janitorTimeout true exK ⟨false, 0, 1000000000, 0, 2, 0, 0, 1, [2,0,0,0,0,1], zeros 16, 0⟩ = some 60000000000 ∧
    alookup (reloadRetirement 3000000000 2000000000 exTracked).conn exK = none ∧
    alookup (reloadRetirement 3000000000 500000000 exTracked).conn exK ≠ none := by
  refine ⟨by decide, by decide, by decide⟩

-- `forgotten_socket_is_recognised_by_mark_only`: dae's cookie 5 idle for 301 s
example : janCollectsCookie 301000000001 0 (5, ⟨0 + 1000000000, 777, zeros 16⟩) = true ∧
    janCollectsCookie 301000000000 0 (5, ⟨1000000000, 777, zeros 16⟩) = false := by decide

end DaeVerif.C03.Props
