import DaeVerif.C03.Janitor
/-!
# C03 — the userspace janitors as they really run: snapshot, then delete by key

`cleanupConnStateMapBeforeLocked`, `cleanupRoutingHandoffMapBeforeLocked`,
`cleanupRedirectTrackMapBeforeLocked`, `cleanupCookiePidMapBeforeLocked` (control_plane.go) all have
the same shape: sample `CLOCK_MONOTONIC` once, walk the map with `BatchLookup` collecting the keys whose
SNAPSHOT value is expired — or, in the reload-retirement pass `RunReloadRetirementCleanup(staleBeforeNs)`,
was last touched before `staleBeforeNs` — and afterwards `BpfMapBatchDelete` those KEYS.  The delete is by
key: whatever the kernel programs stored under a collected key in between goes too.

`Janitor.lean` models one round as an atomic filter (`janitor`); here the two phases are separate
(`janPlan`, `janApply`) so that frames can be interleaved between them, `staleBeforeNs` is a parameter, and
the two remaining maps are covered.
-/
namespace DaeVerif.C03

def REDIRECT_TRACK_TIMEOUT : Nat := 300000000000
def COOKIE_PID_TIMEOUT : Nat := 300000000000

/-- `staleBeforeNs > 0 && (LastSeenNs == 0 || LastSeenNs < staleBeforeNs)` -/
def staleBefore (stale lastSeen : Nat) : Bool := decide (stale > 0) && (lastSeen == 0 || decide (lastSeen < stale))

/-- `age := nowNano - int64(LastSeenNs); age > timeout` (signed: a timestamp after the sample is never old) -/
def olderThan (userNow lastSeen timeout : Nat) : Bool := decide ((userNow : Int) - (lastSeen : Int) > (timeout : Int))

/-- the conn-state janitor collects this entry (entries of other protocols are not even looked at) -/
def janCollectsConn (aggressive : Bool) (userNow stale : Nat) (p : Key × ConnState) : Bool :=
  match janitorTimeout aggressive p.1 p.2 with
  | some t => olderThan userNow p.2.lastSeen t || staleBefore stale p.2.lastSeen
  | none => false

def janCollectsHandoff (userNow stale : Nat) (p : Key × Handoff) : Bool :=
  handoffExpired userNow p.2.lastSeen || staleBefore stale p.2.lastSeen

def janCollectsRtrack (userNow stale : Nat) (p : RKey × REntry) : Bool :=
  olderThan userNow p.2.lastSeen REDIRECT_TRACK_TIMEOUT || staleBefore stale p.2.lastSeen

def janCollectsCookie (userNow stale : Nat) (p : Nat × PidPname) : Bool :=
  olderThan userNow p.2.lastSeen COOKIE_PID_TIMEOUT || staleBefore stale p.2.lastSeen

/-- the keys one round collected -/
structure JanPlan where
  conn : List Key := []
  handoff : List Key := []
  rtrack : List RKey := []
  cookies : List Nat := []
deriving Repr

/-- phase 1 (`BatchLookup` walk) on the world as it is NOW -/
def janPlan (aggressive : Bool) (userNow stale : Nat) (w : World) : JanPlan :=
  { conn := (w.conn.filter (janCollectsConn aggressive userNow stale)).map (·.1)
    handoff := (w.handoff.filter (janCollectsHandoff userNow stale)).map (·.1)
    rtrack := (w.rtrack.filter (janCollectsRtrack userNow stale)).map (·.1)
    cookies := (w.cookies.filter (janCollectsCookie userNow stale)).map (·.1) }

/-- delete a list of keys (`BpfMapBatchDelete`: missing keys are fine) -/
def eraseKeys {α β} [DecidableEq α] (m : List (α × β)) (ks : List α) : List (α × β) :=
  m.filter fun p => !ks.contains p.1

/-- phase 2 on the world as it is THEN -/
def janApply (pl : JanPlan) (w : World) : World :=
  { w with conn := eraseKeys w.conn pl.conn
           handoff := eraseKeys w.handoff pl.handoff
           rtrack := eraseKeys w.rtrack pl.rtrack
           cookies := eraseKeys w.cookies pl.cookies }

/-- a whole round with nothing in between -/
def janRound (aggressive : Bool) (userNow stale : Nat) (w : World) : World :=
  janApply (janPlan aggressive userNow stale w) w

/-- `RunReloadRetirementCleanup(staleBeforeNs)`: nothing when 0, else an aggressive round of all four -/
def reloadRetirement (userNow stale : Nat) (w : World) : World :=
  if stale = 0 then w else janRound true userNow stale w

end DaeVerif.C03
