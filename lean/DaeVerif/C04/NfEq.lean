import DaeVerif.C04.Proofs
/-! # C04 — programs equal up to value order/multiplicity and condition order mean the same -/
namespace DaeVerif.C04
open DaeVerif.RuleScan
variable {δ : Type}

theorem any_of_subset (a : Param → Bool) (xs ys : List Param) (h : xs.all ys.contains = true)
    (hx : xs.any a = true) : ys.any a = true := by
  obtain ⟨p, hp, hap⟩ := List.any_eq_true.mp hx
  have := List.all_eq_true.mp h p hp
  exact List.any_eq_true.mpr ⟨p, List.contains_iff_mem.mp this, hap⟩

theorem any_sameParams (a : Param → Bool) (xs ys : List Param) (h : sameParams xs ys = true) :
    xs.any a = ys.any a := by
  simp only [sameParams, Bool.and_eq_true] at h
  cases hx : xs.any a
  · cases hy : ys.any a
    · rfl
    · have := any_of_subset a ys xs h.2 hy
      rw [hx] at this; exact absurd this (by simp)
  · exact (any_of_subset a xs ys h.1 hx).symm

theorem isEmpty_sameParams (xs ys : List Param) (h : sameParams xs ys = true) : xs.isEmpty = ys.isEmpty := by
  simp only [sameParams, Bool.and_eq_true] at h
  cases xs with
  | nil =>
    cases ys with
    | nil => rfl
    | cons y ys => simp at h
  | cons x xs =>
    cases ys with
    | nil => simp at h
    | cons y ys => rfl

theorem holdsF_nfEqF (S : Sem δ) (f f' : Func) (h : nfEqF f f' = true) : holdsF S f = holdsF S f' := by
  simp only [nfEqF, Bool.and_eq_true, beq_iff_eq] at h
  obtain ⟨⟨hn, hneg⟩, hp⟩ := h
  unfold holdsF
  rw [← hn, ← hneg, isEmpty_sameParams _ _ hp, any_sameParams (S.atom f.name) _ _ hp]

theorem all_of_cover (S : Sem δ) (fs gs : List Func)
    (h : gs.all (fun g => fs.any (fun f => nfEqF f g)) = true) (hfs : fs.all (holdsF S) = true) :
    gs.all (holdsF S) = true := by
  rw [List.all_eq_true]
  intro g hg
  have := List.all_eq_true.mp h g hg
  obtain ⟨f, hf, hfg⟩ := List.any_eq_true.mp this
  rw [← holdsF_nfEqF S f g hfg]
  exact List.all_eq_true.mp hfs f hf

theorem all_of_cover' (S : Sem δ) (fs gs : List Func)
    (h : fs.all (fun f => gs.any (nfEqF f)) = true) (hgs : gs.all (holdsF S) = true) :
    fs.all (holdsF S) = true := by
  rw [List.all_eq_true]
  intro f hf
  have := List.all_eq_true.mp h f hf
  obtain ⟨g, hg, hfg⟩ := List.any_eq_true.mp this
  rw [holdsF_nfEqF S f g hfg]
  exact List.all_eq_true.mp hgs g hg

theorem holdsR_nfEqR (S : Sem δ) (r r' : Rule) (h : nfEqR r r' = true) :
    holdsR S r = holdsR S r' ∧ r.out = r'.out := by
  simp only [nfEqR, Bool.and_eq_true, decide_eq_true_eq] at h
  obtain ⟨⟨h1, h2⟩, ho⟩ := h
  refine ⟨?_, ho⟩
  unfold holdsR
  cases hr : r.funcs.all (holdsF S)
  · cases hr' : r'.funcs.all (holdsF S)
    · rfl
    · have := all_of_cover' S r.funcs r'.funcs h1 hr'
      rw [hr] at this; exact absurd this (by simp)
  · exact (all_of_cover S r.funcs r'.funcs h2 hr).symm

theorem firstMatchAst_nfEqP (S : Sem δ) : ∀ (p q : Prog), nfEqP p q = true → ∀ fb must,
    firstMatchAst S p fb must = firstMatchAst S q fb must := by
  intro p
  induction p with
  | nil =>
    intro q h fb must
    cases q with
    | nil => rfl
    | cons _ _ => simp [nfEqP] at h
  | cons r rs ih =>
    intro q h fb must
    cases q with
    | nil => simp [nfEqP] at h
    | cons r' rs' =>
      simp only [nfEqP, Bool.and_eq_true] at h
      have hr := holdsR_nfEqR S r r' h.1
      simp only [firstMatchAst, hr.1, hr.2, ih rs' h.2]

end DaeVerif.C04
