import DaeVerif.C04.Model
/-!
# C04 — helper lemmas (the property theorems are in `Props.lean`)
-/
namespace DaeVerif.C04
open DaeVerif.RuleScan

variable {δ : Type}

/-! ## stable sort: a rearrangement (as far as `any`, `all`, emptiness and length see) -/

section sort
variable {α : Type} (lt : α → α → Bool)

theorem any_insertBy (p : α → Bool) (x : α) (l : List α) :
    (insertBy lt x l).any p = (p x || l.any p) := by
  induction l with
  | nil => simp [insertBy]
  | cons y ys ih =>
    simp only [insertBy]
    split
    · simp only [List.any_cons, ih]
      cases p x <;> cases p y <;> cases ys.any p <;> rfl
    · simp only [List.any_cons]

theorem all_insertBy (p : α → Bool) (x : α) (l : List α) :
    (insertBy lt x l).all p = (p x && l.all p) := by
  induction l with
  | nil => simp [insertBy]
  | cons y ys ih =>
    simp only [insertBy]
    split
    · simp only [List.all_cons, ih]
      cases p x <;> cases p y <;> cases ys.all p <;> rfl
    · simp only [List.all_cons]

theorem any_stableSort (p : α → Bool) (l : List α) : (stableSort lt l).any p = l.any p := by
  induction l with
  | nil => rfl
  | cons x xs ih =>
    have : stableSort lt (x :: xs) = insertBy lt x (stableSort lt xs) := rfl
    rw [this, any_insertBy, ih, List.any_cons]

theorem all_stableSort (p : α → Bool) (l : List α) : (stableSort lt l).all p = l.all p := by
  induction l with
  | nil => rfl
  | cons x xs ih =>
    have : stableSort lt (x :: xs) = insertBy lt x (stableSort lt xs) := rfl
    rw [this, all_insertBy, ih, List.all_cons]

theorem insertBy_ne_nil (x : α) (l : List α) : insertBy lt x l ≠ [] := by
  cases l with
  | nil => simp [insertBy]
  | cons y ys => simp only [insertBy]; split <;> simp

theorem isEmpty_stableSort (l : List α) : (stableSort lt l).isEmpty = l.isEmpty := by
  cases l with
  | nil => rfl
  | cons x xs =>
    have : stableSort lt (x :: xs) = insertBy lt x (stableSort lt xs) := rfl
    rw [this]
    have h := insertBy_ne_nil lt x (stableSort lt xs)
    cases h' : insertBy lt x (stableSort lt xs) with
    | nil => exact absurd h' h
    | cons _ _ => rfl

end sort

/-! ## one function call -/

/-- what `holdsF` looks at: the name, the negation, emptiness and the disjunction of the values. -/
theorem holdsF_congr (S : Sem δ) (f f' : Func) (hn : f'.name = f.name) (hneg : f'.neg = f.neg)
    (he : f'.params.isEmpty = f.params.isEmpty)
    (ha : f'.params.any (S.atom f.name) = f.params.any (S.atom f.name)) :
    holdsF S f' = holdsF S f := by
  unfold holdsF
  rw [hn, hneg, he, ha]

theorem holdsF_sortParams (S : Sem δ) (f : Func) : holdsF S (sortParams f) = holdsF S f := by
  apply holdsF_congr
  · rfl
  · rfl
  · simp only [sortParams]; split <;> exact isEmpty_stableSort _ _
  · simp only [sortParams]; split <;> exact any_stableSort _ _ _

theorem holdsR_sortFuncsRule (S : Sem δ) (r : Rule) : holdsR S (sortFuncsRule r) = holdsR S r := by
  simp only [holdsR, sortFuncsRule, all_stableSort]

theorem holdsR_sortParamsRule (S : Sem δ) (r : Rule) : holdsR S (sortParamsRule r) = holdsR S r := by
  simp only [holdsR, sortParamsRule, List.all_map]
  congr 1
  funext f
  exact holdsF_sortParams S f

/-! ## dedup -/

theorem any_dedupAux (a : Param → Bool) (ps : List Param) :
    ∀ seen : List Param, ((dedupAux seen ps).any a || seen.any a) = (ps.any a || seen.any a) := by
  induction ps with
  | nil => intro seen; rfl
  | cons p ps ih =>
    intro seen
    simp only [dedupAux]
    split
    next hc =>
      rw [ih seen, List.any_cons]
      cases hap : a p
      · rfl
      · have : seen.any a = true :=
          List.any_eq_true.mpr ⟨p, List.contains_iff_mem.mp hc, hap⟩
        rw [this]; simp
    next hc =>
      have h := ih (p :: seen)
      simp only [List.any_cons] at h ⊢
      cases hap : a p <;> simp [hap] at h ⊢
      exact h

theorem any_dedupParams (a : Param → Bool) (ps : List Param) : (dedupParams ps).any a = ps.any a := by
  have h := any_dedupAux a ps []
  simpa [dedupParams] using h

theorem isEmpty_dedupParams (ps : List Param) : (dedupParams ps).isEmpty = ps.isEmpty := by
  cases ps with
  | nil => rfl
  | cons p ps => simp [dedupParams, dedupAux]

theorem holdsF_dedupFunc (S : Sem δ) (f : Func) : holdsF S (dedupFunc f) = holdsF S f := by
  apply holdsF_congr
  · rfl
  · rfl
  · exact isEmpty_dedupParams _
  · exact any_dedupParams _ _

theorem holdsR_dedupRule (S : Sem δ) (r : Rule) : holdsR S (dedupRule r) = holdsR S r := by
  simp only [holdsR, dedupRule, List.all_map]
  congr 1
  funext f
  exact holdsF_dedupFunc S f

/-! ## first match: congruence under a rule-by-rule rewrite -/

theorem firstMatchAst_map (S : Sem δ) (g : Rule → Rule) (rs : Prog)
    (h : ∀ r ∈ rs, holdsR S (g r) = holdsR S r ∧ (g r).out = r.out) :
    ∀ fb must, firstMatchAst S (rs.map g) fb must = firstMatchAst S rs fb must := by
  induction rs with
  | nil => intro fb must; rfl
  | cons r rs ih =>
    intro fb must
    have hr := h r (by simp)
    have ih' := ih (fun r' hr' => h r' (by simp [hr']))
    simp only [List.map_cons, firstMatchAst, hr.1, hr.2, ih']

/-! ## "a call without parameters means false" bookkeeping -/

theorem emptyOk_of_false (S : Sem δ) (h : ∀ n, S.emptyVal n = false) (p : Prog) : emptyOk S p = true := by
  simp [emptyOk, emptyOkR, h]

theorem emptyOkR_sortFuncsRule (S : Sem δ) (r : Rule) : emptyOkR S (sortFuncsRule r) = emptyOkR S r := by
  simp only [emptyOkR, sortFuncsRule, all_stableSort]

/-! ## the merge loop -/

theorem mergeable_spec (a b : Rule) (h : mergeableG false a b = true) :
    ∃ fa fb, a.funcs = [fa] ∧ b.funcs = [fb] ∧ fa.name = fb.name ∧ fa.neg = false ∧ fb.neg = false ∧
      b.out = a.out := by
  unfold mergeableG at h
  split at h
  next fa fb ha hb =>
    refine ⟨fa, fb, ha, hb, ?_⟩
    simp only [Bool.false_eq_true, if_false, Bool.and_eq_true, beq_iff_eq, Bool.not_eq_true',
      decide_eq_true_eq] at h
    exact ⟨h.1.1, h.1.2.1, h.1.2.2, h.2⟩
  next => exact absurd h (by simp)

theorem absorb_eq (a b : Rule) (fa fb : Func) (ha : a.funcs = [fa]) (hb : b.funcs = [fb]) :
    absorb a b = { a with funcs := [{ fa with params := fa.params ++ fb.params }] } := by
  unfold absorb
  rw [ha, hb]

theorem holdsR_absorb (S : Sem δ) (a b : Rule) (fa fb : Func) (ha : a.funcs = [fa]) (hb : b.funcs = [fb])
    (hn : fa.name = fb.name) (hna : fa.neg = false) (hnb : fb.neg = false)
    (hea : emptyOkR S a = true) (heb : emptyOkR S b = true) :
    holdsR S (absorb a b) = (holdsR S a || holdsR S b) := by
  rw [absorb_eq a b fa fb ha hb]
  have hea' : (!fa.params.isEmpty || !S.emptyVal fa.name) = true := by
    simpa [emptyOkR, ha] using hea
  have heb' : (!fb.params.isEmpty || !S.emptyVal fa.name) = true := by
    rw [hn]; simpa [emptyOkR, hb] using heb
  simp only [holdsR, ha, hb, List.all_cons, List.all_nil, Bool.and_true, holdsF, hna, hnb]
  rw [← hn]
  cases hpa : fa.params with
  | nil =>
    simp only [hpa, List.isEmpty_nil, Bool.not_true, Bool.false_or, Bool.not_eq_true'] at hea'
    cases hpb : fb.params with
    | nil => simp [hea']
    | cons q qs => simp [hea']
  | cons p ps =>
    cases hpb : fb.params with
    | nil =>
      simp only [hpb, List.isEmpty_nil, Bool.not_true, Bool.false_or, Bool.not_eq_true'] at heb'
      simp [heb']
    | cons q qs =>
      simp only [List.cons_append, List.isEmpty_cons, Bool.false_eq_true, if_false, Bool.bne_false,
        List.any_cons, List.any_append]
      cases S.guard fa.name <;> cases S.atom fa.name p <;> cases ps.any (S.atom fa.name) <;>
        cases S.atom fa.name q <;> cases qs.any (S.atom fa.name) <;> rfl

theorem emptyOkR_absorb (S : Sem δ) (a b : Rule) (fa fb : Func) (ha : a.funcs = [fa]) (hb : b.funcs = [fb])
    (hea : emptyOkR S a = true) : emptyOkR S (absorb a b) = true := by
  rw [absorb_eq a b fa fb ha hb]
  simp only [emptyOkR, ha, List.all_cons, List.all_nil, Bool.and_true] at hea ⊢
  cases hpa : fa.params with
  | nil => simp only [hpa, List.isEmpty_nil, Bool.not_true, Bool.false_or] at hea; simp [hea]
  | cons p ps => simp

theorem firstMatchAst_mergeLoop (S : Sem δ) (rs : Prog) :
    ∀ cur : Rule, emptyOkR S cur = true → emptyOk S rs = true → ∀ fb must,
      firstMatchAst S (mergeLoopG false cur rs) fb must = firstMatchAst S (cur :: rs) fb must := by
  induction rs with
  | nil => intro cur _ _ fb must; rfl
  | cons r rs ih =>
    intro cur hcur hrs fb must
    simp only [emptyOk, List.all_cons, Bool.and_eq_true] at hrs
    simp only [mergeLoopG]
    split
    next hm =>
      obtain ⟨fa, fb', ha, hb, hn, hna, hnb, hout⟩ := mergeable_spec cur r hm
      rw [ih (absorb cur r) (emptyOkR_absorb S cur r fa fb' ha hb hcur) hrs.2]
      have hout' : (absorb cur r).out = cur.out := by rw [absorb_eq cur r fa fb' ha hb]
      simp only [firstMatchAst, holdsR_absorb S cur r fa fb' ha hb hn hna hnb hcur hrs.1, hout', hout]
      cases holdsR S cur <;> cases holdsR S r <;> simp <;> cases S.parseOut cur.out <;> rfl
    next =>
      simp only [firstMatchAst, ih r hrs.1 hrs.2]

theorem firstMatchAst_mergeRules (S : Sem δ) (rs : Prog) (h : emptyOk S rs = true) (fb : δ) (must : Bool) :
    firstMatchAst S (mergeRules rs) fb must = firstMatchAst S rs fb must := by
  cases rs with
  | nil => rfl
  | cons r rs =>
    simp only [emptyOk, List.all_cons, Bool.and_eq_true] at h
    exact firstMatchAst_mergeLoop S rs r h.1 h.2 fb must

theorem emptyOk_map_sortFuncs (S : Sem δ) (rs : Prog) :
    emptyOk S (rs.map sortFuncsRule) = emptyOk S rs := by
  simp only [emptyOk, List.all_map]
  congr 1
  funext r
  exact emptyOkR_sortFuncsRule S r

theorem firstMatchAst_mergeSortOpt (S : Sem δ) (rs : Prog) (h : emptyOk S rs = true) (fb : δ) (must : Bool) :
    firstMatchAst S (mergeSortOpt rs) fb must = firstMatchAst S rs fb must := by
  unfold mergeSortOpt mergeSortOptG
  rw [firstMatchAst_map S sortParamsRule _ (fun r _ => ⟨holdsR_sortParamsRule S r, rfl⟩)]
  have : mergeRulesG false (rs.map sortFuncsRule) = mergeRules (rs.map sortFuncsRule) := rfl
  rw [this, firstMatchAst_mergeRules S _ (by rw [emptyOk_map_sortFuncs]; exact h)]
  exact firstMatchAst_map S sortFuncsRule rs (fun r _ => ⟨holdsR_sortFuncsRule S r, rfl⟩) fb must

theorem firstMatchAst_dedupOpt (S : Sem δ) (rs : Prog) (fb : δ) (must : Bool) :
    firstMatchAst S (dedupOpt rs) fb must = firstMatchAst S rs fb must :=
  firstMatchAst_map S dedupRule rs (fun r _ => ⟨holdsR_dedupRule S r, rfl⟩) fb must

end DaeVerif.C04
