import DaeVerif.C04.Model
/-!
# C04 — the `DatReaderOptimizer` cache and worker pool refine the pure expansion `datOpt`

`Model.lean` has two descriptions of the geodata stage: `datOpt g` (every reference is replaced by what
the file lists, `g : Geo` being the files) and the code's shape — a cache in front of the files
(`cachedLoad`, `datOptC`), written to by concurrently running workers (`CacheEv`, `applyEv`), whose
results are collected in arrival order (`collect`).  This file proves they agree

* for every cache content that can arise (`Sound`: an entry holds what the files hold for every
  reference that has the entry's key) — hence for every **history** of rule lists one optimizer object
  has served (`runHistory_eq`);
* for every **interleaving**: a worker's run (`RuleRun`) may be interrupted between any two of its own
  cache accesses by any number of stores of other workers (`Env`);
* for every **arrival order** of the workers' results (`collect_perm`).

The one assumption is `KeyCongr g`: what a reference expands to depends on the file name (with `.dat`
appended when missing) and on the code up to letter case only — i.e. on the cache key.  That is how the
file lookup and the geodata decoder behave (tied by the fixture: codes in both cases, `extra` vs
`extra.dat`, two files that differ in letter case only).
-/
namespace DaeVerif.C04

/-! ## generic: a state-threading run and its pure counterpart -/

def mapOpt {α β : Type} (f : α → Option β) : List α → Option (List β)
  | [] => some []
  | a :: as =>
    match f a with
    | none => none
    | some b =>
      match mapOpt f as with
      | none => none
      | some bs => some (b :: bs)

theorem threadOpt_spec {α β σ : Type} (f : σ → α → Option β × σ) (fp : α → Option β) (Inv : σ → Prop)
    (h : ∀ s a, Inv s → (f s a).1 = fp a ∧ Inv (f s a).2) :
    ∀ (as : List α) (s : σ), Inv s → (threadOpt f s as).1 = mapOpt fp as ∧ Inv (threadOpt f s as).2 := by
  intro as
  induction as with
  | nil => intro s hs; exact ⟨rfl, hs⟩
  | cons a as ih =>
    intro s hs
    have h1 := h s a hs
    rcases hfa : f s a with ⟨ob, s1⟩
    rw [hfa] at h1
    simp only at h1
    cases ob with
    | none =>
      simp only [threadOpt, hfa, mapOpt, ← h1.1]
      exact ⟨trivial, h1.2⟩
    | some b =>
      have h2 := ih s1 h1.2
      rcases hta : threadOpt f s1 as with ⟨obs, s2⟩
      rw [hta] at h2
      simp only at h2
      cases obs with
      | none =>
        simp only [threadOpt, hfa, hta, mapOpt, ← h1.1, ← h2.1]
        exact ⟨trivial, h2.2⟩
      | some bs =>
        simp only [threadOpt, hfa, hta, mapOpt, ← h1.1, ← h2.1]
        exact ⟨trivial, h2.2⟩

/-- a run over a list in which, before every step, the environment may change the state any number of
times; a step is a relation (so runs nest). -/
inductive RunList {α β σ : Type} (env : σ → σ → Prop) (step : σ → α → Option β → σ → Prop) :
    σ → List α → Option (List β) → σ → Prop
  | env {s s1 s' as r} : env s s1 → RunList env step s1 as r s' → RunList env step s as r s'
  | nil {s} : RunList env step s [] (some []) s
  | ok {s s1 s2 a as b bs} : step s a (some b) s1 → RunList env step s1 as (some bs) s2 →
      RunList env step s (a :: as) (some (b :: bs)) s2
  | err1 {s s1 a as} : step s a none s1 → RunList env step s (a :: as) none s1
  | err2 {s s1 s2 a as b} : step s a (some b) s1 → RunList env step s1 as none s2 →
      RunList env step s (a :: as) none s2

theorem RunList_spec {α β σ : Type} (env : σ → σ → Prop) (step : σ → α → Option β → σ → Prop)
    (fp : α → Option β) (Inv : σ → Prop)
    (henv : ∀ s s', Inv s → env s s' → Inv s')
    (hstep : ∀ s a r s', Inv s → step s a r s' → r = fp a ∧ Inv s')
    {s : σ} {as : List α} {r : Option (List β)} {s' : σ} (hrun : RunList env step s as r s') :
    Inv s → r = mapOpt fp as ∧ Inv s' := by
  induction hrun with
  | env he _ ih => intro hs; exact ih (henv _ _ hs he)
  | nil => intro hs; exact ⟨rfl, hs⟩
  | ok h1 _ ih =>
    intro hs
    have a1 := hstep _ _ _ _ hs h1
    have a2 := ih a1.2
    refine ⟨?_, a2.2⟩
    unfold mapOpt
    rw [← a1.1, ← a2.1]
  | err1 h1 =>
    intro hs
    have a1 := hstep _ _ _ _ hs h1
    refine ⟨?_, a1.2⟩
    unfold mapOpt
    rw [← a1.1]
  | err2 h1 _ ih =>
    intro hs
    have a1 := hstep _ _ _ _ hs h1
    have a2 := ih a1.2
    refine ⟨?_, a2.2⟩
    unfold mapOpt
    rw [← a1.1, ← a2.1]

/-- the sequential run is one of the interleaved runs (the environment stays quiet). -/
theorem RunList_of_threadOpt {α β σ : Type} (env : σ → σ → Prop) (f : σ → α → Option β × σ) :
    ∀ (as : List α) (s : σ),
      RunList env (fun s a r s' => f s a = (r, s')) s as (threadOpt f s as).1 (threadOpt f s as).2 := by
  intro as
  induction as with
  | nil => intro s; exact .nil
  | cons a as ih =>
    intro s
    rcases hfa : f s a with ⟨ob, s1⟩
    cases ob with
    | none =>
      simp only [threadOpt, hfa]
      exact .err1 hfa
    | some b =>
      have h2 := ih s1
      rcases hta : threadOpt f s1 as with ⟨obs, s2⟩
      rw [hta] at h2
      cases obs with
      | none =>
        simp only [threadOpt, hfa, hta]
        exact .err2 hfa h2
      | some bs =>
        simp only [threadOpt, hfa, hta]
        exact .ok hfa h2

/-! ## the pure stage as `mapOpt` -/

theorem datParams_eq (g : Geo) (n : String) : ∀ ps : List Param,
    datParams g n ps = (mapOpt (datParam g n) ps).map List.flatten := by
  intro ps
  induction ps with
  | nil => rfl
  | cons p ps ih =>
    unfold datParams mapOpt
    rw [ih]
    cases datParam g n p <;> cases mapOpt (datParam g n) ps <;> simp

theorem datFuncs_eq (g : Geo) : ∀ fs : List Func, datFuncs g fs = mapOpt (datFunc g) fs := by
  intro fs
  induction fs with
  | nil => rfl
  | cons f fs ih =>
    unfold datFuncs mapOpt
    rw [ih]
    cases datFunc g f <;> cases mapOpt (datFunc g) fs <;> rfl

theorem datOpt_eq (g : Geo) : ∀ rs : Prog, datOpt g rs = mapOpt (datRule g) rs := by
  intro rs
  induction rs with
  | nil => rfl
  | cons r rs ih =>
    unfold datOpt mapOpt
    rw [ih]
    cases datRule g r <;> cases mapOpt (datRule g) rs <;> rfl

/-! ## cache soundness -/

/-- what a reference expands to depends on its cache key only. -/
def KeyCongr (g : Geo) : Prop :=
  (∀ f k f' k', cacheKey f k = cacheKey f' k' → g.site f k = g.site f' k') ∧
  (∀ f k f' k', cacheKey f k = cacheKey f' k' → g.ip f k = g.ip f' k')

def SoundTbl (load : String → String → Option (List Param)) (t : Tbl) : Prop :=
  ∀ f k ps, t.lookup (cacheKey f k) = some ps → load f k = some ps

/-- every entry holds what the files hold, for every reference that has the entry's key. -/
def Sound (g : Geo) (c : DatCache) : Prop := SoundTbl g.site c.site ∧ SoundTbl g.ip c.ip

theorem sound_empty (g : Geo) : Sound g {} := by
  constructor <;> intro f k ps h <;> simp [List.lookup] at h

theorem soundTbl_store (load : String → String → Option (List Param))
    (hk : ∀ f k f' k', cacheKey f k = cacheKey f' k' → load f k = load f' k')
    (t : Tbl) (ht : SoundTbl load t) (f k : String) (ps : List Param) (hl : load f k = some ps) :
    SoundTbl load ((cacheKey f k, ps) :: t) := by
  intro f' k' ps' h
  rw [List.lookup_cons] at h
  by_cases he : cacheKey f' k' = cacheKey f k
  · simp only [he, beq_self_eq_true] at h
    rw [hk f' k' f k he, hl]
    injection h with h
    rw [h]
  · have : (cacheKey f' k' == cacheKey f k) = false := by simpa using he
    rw [this] at h
    exact ht f' k' ps' h

theorem cachedLoad_spec (load : String → String → Option (List Param))
    (hk : ∀ f k f' k', cacheKey f k = cacheKey f' k' → load f k = load f' k')
    (t : Tbl) (ht : SoundTbl load t) (f k : String) :
    (cachedLoad load t f k).1 = load f k ∧ SoundTbl load (cachedLoad load t f k).2 := by
  unfold cachedLoad
  cases hlk : t.lookup (cacheKey f k) with
  | some ps => exact ⟨(ht f k ps hlk).symm, ht⟩
  | none =>
    cases hl : load f k with
    | none => exact ⟨rfl, ht⟩
    | some ps => exact ⟨rfl, soundTbl_store load hk t ht f k ps hl⟩

theorem viaSite_spec (g : Geo) (hk : KeyCongr g) (c : DatCache) (hc : Sound g c) (f k : String) :
    (viaSite g c f k).1 = g.site f k ∧ Sound g (viaSite g c f k).2 := by
  have h := cachedLoad_spec g.site hk.1 c.site hc.1 f k
  exact ⟨h.1, h.2, hc.2⟩

theorem viaIp_spec (g : Geo) (hk : KeyCongr g) (c : DatCache) (hc : Sound g c) (f k : String) :
    (viaIp g c f k).1 = g.ip f k ∧ Sound g (viaIp g c f k).2 := by
  have h := cachedLoad_spec g.ip hk.2 c.ip hc.2 f k
  exact ⟨h.1, hc.1, h.2⟩

/-- one cache access of one worker: it sees what the files hold and leaves the cache sound. -/
theorem datParamC_spec (g : Geo) (hk : KeyCongr g) (n : String) (c : DatCache) (p : Param) (hc : Sound g c) :
    (datParamC g c n p).1 = datParam g n p ∧ Sound g (datParamC g c n p).2 := by
  unfold datParamC datParam
  split
  · exact viaSite_spec g hk c hc _ _
  · split
    · exact viaIp_spec g hk c hc _ _
    · split
      · cases cutColon p.val with
        | none => exact ⟨rfl, hc⟩
        | some fc =>
          obtain ⟨file, code⟩ := fc
          simp only
          split
          · exact viaSite_spec g hk c hc _ _
          · split
            · exact viaIp_spec g hk c hc _ _
            · exact ⟨rfl, hc⟩
      · exact ⟨rfl, hc⟩

/-- a store by any worker keeps the cache sound. -/
theorem sound_applyEv (g : Geo) (hk : KeyCongr g) (c : DatCache) (hc : Sound g c) (ev : CacheEv) :
    Sound g (applyEv g c ev) := by
  cases ev with
  | storeSite f k =>
    cases hl : g.site f k with
    | none => simp only [applyEv, hl]; exact hc
    | some ps => simp only [applyEv, hl]; exact ⟨soundTbl_store g.site hk.1 c.site hc.1 f k ps hl, hc.2⟩
  | storeIp f k =>
    cases hl : g.ip f k with
    | none => simp only [applyEv, hl]; exact hc
    | some ps => simp only [applyEv, hl]; exact ⟨hc.1, soundTbl_store g.ip hk.2 c.ip hc.2 f k ps hl⟩

/-- **every reachable cache is sound**: whatever the workers (of this call and of all earlier calls of
the same optimizer object) have stored, in whatever order. -/
theorem sound_reachable (g : Geo) (hk : KeyCongr g) (evs : List CacheEv) :
    ∀ c, Sound g c → Sound g (evs.foldl (applyEv g) c) := by
  induction evs with
  | nil => intro c hc; exact hc
  | cons ev evs ih => intro c hc; exact ih _ (sound_applyEv g hk c hc ev)

/-- what a store of the optimizer itself does to the cache is one of the events. -/
theorem cachedLoad_is_event (load : String → String → Option (List Param)) (t : Tbl) (f k : String) :
    (cachedLoad load t f k).2 = t ∨
      ∃ ps, load f k = some ps ∧ (cachedLoad load t f k).2 = (cacheKey f k, ps) :: t := by
  unfold cachedLoad
  cases t.lookup (cacheKey f k) with
  | some ps => exact .inl rfl
  | none =>
    cases hl : load f k with
    | none => exact .inl rfl
    | some ps => exact .inr ⟨ps, rfl, rfl⟩

/-! ## the sequential optimizer and the history of one optimizer object -/

theorem datFuncC_spec (g : Geo) (hk : KeyCongr g) (c : DatCache) (f : Func) (hc : Sound g c) :
    (datFuncC g c f).1 = datFunc g f ∧ Sound g (datFuncC g c f).2 := by
  have h := threadOpt_spec (fun c p => datParamC g c f.name p) (datParam g f.name) (Sound g)
    (fun s a hs => datParamC_spec g hk f.name s a hs) f.params c hc
  unfold datFuncC datFunc
  rw [datParams_eq]
  rcases ht : threadOpt (fun c p => datParamC g c f.name p) c f.params with ⟨o, c'⟩
  rw [ht] at h
  simp only at h
  rw [← h.1]
  cases o with
  | none => exact ⟨rfl, h.2⟩
  | some pss => exact ⟨rfl, h.2⟩

theorem datRuleC_spec (g : Geo) (hk : KeyCongr g) (c : DatCache) (r : Rule) (hc : Sound g c) :
    (datRuleC g c r).1 = datRule g r ∧ Sound g (datRuleC g c r).2 := by
  have h := threadOpt_spec (datFuncC g) (datFunc g) (Sound g)
    (fun s a hs => datFuncC_spec g hk s a hs) r.funcs c hc
  unfold datRuleC datRule
  rw [datFuncs_eq]
  rcases ht : threadOpt (datFuncC g) c r.funcs with ⟨o, c'⟩
  rw [ht] at h
  simp only at h
  rw [← h.1]
  cases o with
  | none => exact ⟨rfl, h.2⟩
  | some fs => exact ⟨rfl, h.2⟩

theorem datOptC_spec (g : Geo) (hk : KeyCongr g) (c : DatCache) (rs : Prog) (hc : Sound g c) :
    (datOptC g c rs).1 = datOpt g rs ∧ Sound g (datOptC g c rs).2 := by
  rw [datOpt_eq]
  exact threadOpt_spec (datRuleC g) (datRule g) (Sound g) (fun s a hs => datRuleC_spec g hk s a hs) rs c hc

/-- the rule lists one optimizer object normalises one after the other, its cache carried along. -/
def runHistory (g : Geo) : DatCache → List Prog → List (Option Prog)
  | _, [] => []
  | c, p :: ps => (datOptC g c p).1 :: runHistory g (datOptC g c p).2 ps

theorem runHistory_eq (g : Geo) (hk : KeyCongr g) : ∀ (ps : List Prog) (c : DatCache), Sound g c →
    runHistory g c ps = ps.map (datOpt g) := by
  intro ps
  induction ps with
  | nil => intro c _; rfl
  | cons p ps ih =>
    intro c hc
    have h := datOptC_spec g hk c p hc
    unfold runHistory
    rw [h.1, ih _ h.2]
    rfl

/-! ## the worker pool: every interleaving -/

/-- a step of the environment: some other worker stores something. -/
def Env (g : Geo) (c c' : DatCache) : Prop := ∃ ev, c' = applyEv g c ev

def ParamStep (g : Geo) (n : String) (c : DatCache) (p : Param) (r : Option (List Param)) (c' : DatCache) : Prop :=
  datParamC g c n p = (r, c')

def finishFunc (f : Func) (pss : Option (List (List Param))) : Option Func :=
  match pss with
  | some pss => if !f.params.isEmpty && pss.flatten.isEmpty then none else some { f with params := pss.flatten }
  | none => none

/-- a worker expanding one function while the others keep storing. -/
def FuncStep (g : Geo) (c : DatCache) (f : Func) (r : Option Func) (c' : DatCache) : Prop :=
  ∃ pss, RunList (Env g) (ParamStep g f.name) c f.params pss c' ∧ r = finishFunc f pss

/-- a worker's whole job: one rule. -/
def RuleRun (g : Geo) (c : DatCache) (r : Rule) (res : Option Rule) (c' : DatCache) : Prop :=
  ∃ fs, RunList (Env g) (FuncStep g) c r.funcs fs c' ∧ res = fs.map fun fs => { r with funcs := fs }

theorem env_sound (g : Geo) (hk : KeyCongr g) : ∀ s s', Sound g s → Env g s s' → Sound g s' := by
  intro s s' hs ⟨ev, he⟩
  rw [he]
  exact sound_applyEv g hk s hs ev

theorem funcStep_spec (g : Geo) (hk : KeyCongr g) (c : DatCache) (f : Func) (r : Option Func) (c' : DatCache)
    (hc : Sound g c) (h : FuncStep g c f r c') : r = datFunc g f ∧ Sound g c' := by
  obtain ⟨pss, hrun, hr⟩ := h
  have h1 := RunList_spec (Env g) (ParamStep g f.name) (datParam g f.name) (Sound g) (env_sound g hk)
    (fun s a r s' hs hst => by
      have := datParamC_spec g hk f.name s a hs
      unfold ParamStep at hst
      rw [hst] at this
      exact ⟨this.1.symm ▸ rfl, this.2⟩) hrun hc
  refine ⟨?_, h1.2⟩
  rw [hr, h1.1]
  unfold datFunc finishFunc
  rw [datParams_eq]
  cases mapOpt (datParam g f.name) f.params <;> rfl

/-- **a worker computes `datRule`**, whatever the cache held when it started (anything reachable) and
however the other workers' stores fall between its own accesses. -/
theorem ruleRun_spec (g : Geo) (hk : KeyCongr g) (c : DatCache) (r : Rule) (res : Option Rule) (c' : DatCache)
    (hc : Sound g c) (h : RuleRun g c r res c') : res = datRule g r ∧ Sound g c' := by
  obtain ⟨fs, hrun, hr⟩ := h
  have h1 := RunList_spec (Env g) (FuncStep g) (datFunc g) (Sound g) (env_sound g hk)
    (fun s a r s' hs hst => funcStep_spec g hk s a r s' hs hst) hrun hc
  refine ⟨?_, h1.2⟩
  rw [hr, h1.1]
  unfold datRule
  rw [datFuncs_eq]
  cases mapOpt (datFunc g) r.funcs <;> rfl

/-- the sequential `datRuleC` is one of these runs (the relation is inhabited by the executed model). -/
theorem ruleRun_of_datRuleC (g : Geo) (c : DatCache) (r : Rule) :
    RuleRun g c r (datRuleC g c r).1 (datRuleC g c r).2 := by
  have hf : ∀ (c : DatCache) (f : Func), FuncStep g c f (datFuncC g c f).1 (datFuncC g c f).2 := by
    intro c f
    refine ⟨(threadOpt (fun c p => datParamC g c f.name p) c f.params).1, ?_, ?_⟩
    · have := RunList_of_threadOpt (Env g) (fun c p => datParamC g c f.name p) f.params c
      unfold datFuncC
      rcases ht : threadOpt (fun c p => datParamC g c f.name p) c f.params with ⟨o, c'⟩
      rw [ht] at this
      cases o <;> exact this
    · unfold datFuncC finishFunc
      rcases threadOpt (fun c p => datParamC g c f.name p) c f.params with ⟨o, c'⟩
      cases o <;> rfl
  have hstep : ∀ (as : List Func) (s : DatCache),
      RunList (Env g) (FuncStep g) s as (threadOpt (datFuncC g) s as).1 (threadOpt (datFuncC g) s as).2 := by
    intro as
    induction as with
    | nil => intro s; exact .nil
    | cons a as ih =>
      intro s
      have h1 := hf s a
      have h2 := ih (datFuncC g s a).2
      rcases hfa : datFuncC g s a with ⟨ob, s1⟩
      rw [hfa] at h1 h2
      cases ob with
      | none =>
        simp only [threadOpt, hfa]
        exact .err1 h1
      | some b =>
        rcases hta : threadOpt (datFuncC g) s1 as with ⟨obs, s2⟩
        rw [hta] at h2
        cases obs with
        | none =>
          simp only [threadOpt, hfa, hta]
          exact .err2 h1 h2
        | some bs =>
          simp only [threadOpt, hfa, hta]
          exact .ok h1 h2
  refine ⟨(threadOpt (datFuncC g) c r.funcs).1, ?_, ?_⟩
  · have := hstep r.funcs c
    unfold datRuleC
    rcases ht : threadOpt (datFuncC g) c r.funcs with ⟨o, c'⟩
    rw [ht] at this
    cases o <;> exact this
  · unfold datRuleC
    rcases threadOpt (datFuncC g) c r.funcs with ⟨o, c'⟩
    cases o <;> rfl

/-! ## the collector: every arrival order -/

def collectStep (acc : Option (List (Option Rule))) (a : Nat × Option Rule) : Option (List (Option Rule)) :=
  match acc, a.2 with
  | some slots, some r => some (slots.set a.1 (some r))
  | _, _ => none

theorem collect_eq (n : Nat) (arr : List (Nat × Option Rule)) :
    collect n arr = arr.foldl collectStep (some (List.replicate n none)) := rfl

theorem foldl_collect_none (arr : List (Nat × Option Rule)) : arr.foldl collectStep none = none := by
  induction arr with
  | nil => rfl
  | cons a arr ih => simp only [List.foldl_cons, collectStep]; exact ih

/-- an error among the arrivals ends the call with an error, wherever it arrives. -/
theorem foldl_collect_err (arr : List (Nat × Option Rule)) (i : Nat) (h : (i, none) ∈ arr) :
    ∀ acc, arr.foldl collectStep acc = none := by
  induction arr with
  | nil => cases h
  | cons a arr ih =>
    intro acc
    simp only [List.foldl_cons]
    rcases List.mem_cons.mp h with h | h
    · subst h
      have : collectStep acc (i, none) = none := by unfold collectStep; cases acc <;> rfl
      rw [this, foldl_collect_none]
    · exact ih h _

/-- without an error every arrival lands in the slot of its index. -/
theorem foldl_collect_ok (arr : List (Nat × Option Rule)) :
    ∀ (slots : List (Option Rule)), (∀ a ∈ arr, a.2.isSome) → (arr.map (·.1)).Nodup →
      ∃ s, arr.foldl collectStep (some slots) = some s ∧ s.length = slots.length ∧
        (∀ j, (∀ a ∈ arr, a.1 ≠ j) → s[j]? = slots[j]?) ∧
        (∀ a ∈ arr, a.1 < slots.length → s[a.1]? = some a.2) := by
  induction arr with
  | nil => intro slots _ _; exact ⟨slots, rfl, rfl, fun _ _ => rfl, fun a h => by cases h⟩
  | cons a arr ih =>
    intro slots hsome hnd
    obtain ⟨i, r⟩ := a
    have hr : r.isSome := hsome (i, r) (List.mem_cons_self ..)
    obtain ⟨rule, rfl⟩ := Option.isSome_iff_exists.mp hr
    simp only [List.map_cons, List.nodup_cons] at hnd
    obtain ⟨s, h1, h2, h3, h4⟩ := ih (slots.set i (some rule)) (fun a ha => hsome a (List.mem_cons_of_mem _ ha)) hnd.2
    refine ⟨s, ?_, ?_, ?_, ?_⟩
    · simp only [List.foldl_cons, collectStep]; exact h1
    · rw [h2, List.length_set]
    · intro j hj
      have hji : i ≠ j := hj (i, some rule) (List.mem_cons_self ..)
      rw [h3 j (fun a ha => hj a (List.mem_cons_of_mem _ ha)), List.getElem?_set_ne hji]
    · intro a ha hlt
      rcases List.mem_cons.mp ha with ha | ha
      · subst ha
        have hnot : ∀ b ∈ arr, b.1 ≠ i := by
          intro b hb heq
          exact hnd.1 (List.mem_map.mpr ⟨b, hb, heq⟩)
        rw [h3 i hnot]
        simp only at hlt
        rw [List.getElem?_set_self hlt]
      · have := h4 a ha (by rw [List.length_set]; exact hlt)
        exact this

/-- `mapOpt` either fails because one element fails or lists every result. -/
theorem mapOpt_none {α β : Type} (f : α → Option β) : ∀ as : List α, mapOpt f as = none → ∃ a ∈ as, f a = none := by
  intro as
  induction as with
  | nil => intro h; cases h
  | cons a as ih =>
    intro h
    unfold mapOpt at h
    cases hfa : f a with
    | none => exact ⟨a, List.mem_cons_self .., hfa⟩
    | some b =>
      cases hm : mapOpt f as with
      | none => obtain ⟨x, hx, hfx⟩ := ih hm; exact ⟨x, List.mem_cons_of_mem _ hx, hfx⟩
      | some bs => rw [hfa, hm] at h; cases h

theorem mapOpt_some {α β : Type} (f : α → Option β) : ∀ (as : List α) (bs : List β), mapOpt f as = some bs →
    as.map f = bs.map some := by
  intro as
  induction as with
  | nil => intro bs h; cases h; rfl
  | cons a as ih =>
    intro bs h
    unfold mapOpt at h
    cases hfa : f a with
    | none => rw [hfa] at h; cases h
    | some b =>
      cases hm : mapOpt f as with
      | none => rw [hfa, hm] at h; cases h
      | some bs' =>
        rw [hfa, hm] at h
        cases h
        simp only [List.map_cons, hfa, ih bs' hm]

/-- **the collector**: the workers' results `res` (one per rule, by index) arrive in any order; the
outcome is the list of results in rule order, or an error when one worker reported an error. -/
theorem collect_perm (res : List (Option Rule)) (arrivals : List (Nat × Option Rule))
    (harr : arrivals.Perm (res.zipIdx.map fun x => (x.2, x.1))) :
    collect res.length arrivals = if res.all Option.isSome then some res else none := by
  rw [collect_eq]
  by_cases hall : res.all Option.isSome = true
  · rw [if_pos hall]
    have hmem : ∀ a ∈ arrivals, a.1 < res.length ∧ res[a.1]? = some a.2 := by
      intro a ha
      have := (harr.mem_iff).mp ha
      obtain ⟨x, hx, rfl⟩ := List.mem_map.mp this
      have := List.mem_zipIdx hx
      simp only [Nat.zero_add, Nat.zero_le, true_and] at this
      exact ⟨this.1, by rw [List.getElem?_eq_getElem this.1]; simp [this.2]⟩
    have hsome : ∀ a ∈ arrivals, a.2.isSome := by
      intro a ha
      have h := (hmem a ha).2
      have := List.all_eq_true.mp hall a.2 (List.mem_of_getElem? h)
      exact this
    have hnd : (arrivals.map (·.1)).Nodup := by
      have hp := harr.map (·.1)
      rw [hp.nodup_iff]
      simp only [List.map_map]
      have : (List.map ((fun x => x.1) ∘ fun x : Option Rule × Nat => (x.2, x.1)) res.zipIdx) = List.range res.length := by
        apply List.ext_getElem
        · simp
        · intro i h1 h2; simp
      rw [this]
      exact List.nodup_range
    obtain ⟨s, h1, h2, _, h4⟩ := foldl_collect_ok arrivals (List.replicate res.length none) hsome hnd
    rw [h1]
    congr 1
    apply List.ext_getElem?
    intro j
    by_cases hj : j < res.length
    · have hin : (j, res[j]) ∈ arrivals := by
        rw [harr.mem_iff]
        exact List.mem_map.mpr ⟨(res[j], j), by
          rw [List.mem_zipIdx_iff_getElem?]; simp [hj], rfl⟩
      have := h4 (j, res[j]) hin (by simpa using hj)
      simp only at this
      rw [this, List.getElem?_eq_getElem hj]
    · rw [List.getElem?_eq_none (by rw [h2]; simpa using hj), List.getElem?_eq_none (by simpa using hj)]
  · rw [if_neg hall]
    have : ∃ i, i < res.length ∧ res[i]? = some none := by
      have h' : ∃ x ∈ res, x.isSome = false := by
        apply Classical.byContradiction
        intro hne
        apply hall
        rw [List.all_eq_true]
        intro x hx
        cases hxs : x.isSome with
        | true => rfl
        | false => exact absurd ⟨x, hx, hxs⟩ hne
      obtain ⟨x, hx, hnx⟩ := h'
      obtain ⟨i, hi, hxi⟩ := List.getElem_of_mem hx
      cases x with
      | some _ => cases hnx
      | none => exact ⟨i, hi, by rw [List.getElem?_eq_getElem hi, hxi]⟩
    obtain ⟨i, hi, hri⟩ := this
    apply foldl_collect_err arrivals i
    rw [harr.mem_iff]
    exact List.mem_map.mpr ⟨(none, i), by rw [List.mem_zipIdx_iff_getElem?]; simpa using hri, rfl⟩

/-! ## normalisation never empties a rule list -/

theorem mapOpt_length {α β : Type} (f : α → Option β) (as : List α) (bs : List β) (h : mapOpt f as = some bs) :
    bs.length = as.length := by
  have := congrArg List.length (mapOpt_some f as bs h)
  simpa using this.symm

theorem mergeLoopG_ne_nil (b : Bool) : ∀ (rs : List Rule) (cur : Rule), mergeLoopG b cur rs ≠ [] := by
  intro rs
  induction rs with
  | nil => intro cur; simp [mergeLoopG]
  | cons r rs ih =>
    intro cur
    unfold mergeLoopG
    split
    · exact ih _
    · simp

theorem pipeline_nil (g : Geo) (rs : Prog) (hp : dnsPipeline g rs = some []) : rs = [] := by
  unfold dnsPipeline at hp
  cases hE : datOpt g rs with
  | none => rw [hE] at hp; cases hp
  | some e =>
    rw [hE] at hp
    simp only [Option.map_some, Option.some.injEq] at hp
    have hlen := mapOpt_length _ _ _ ((datOpt_eq g rs) ▸ hE)
    cases e with
    | nil => exact List.eq_nil_of_length_eq_zero (by simpa using hlen.symm)
    | cons r e =>
      exfalso
      unfold dedupOpt mergeSortOpt mergeSortOptG at hp
      simp only [List.map_eq_nil_iff, List.map_cons, mergeRulesG] at hp
      exact mergeLoopG_ne_nil _ _ _ hp

end DaeVerif.C04
