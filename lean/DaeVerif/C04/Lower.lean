import DaeVerif.C04.Expand
/-!
# C04 — the compiled program (`RulesBuilder.Apply` + the match-set scan) decides like first match
-/
namespace DaeVerif.C04
open DaeVerif.RuleScan

variable {δ : Type}

/-! ## `groupParamValuesByKey` -/

/-- value of a list of key groups of function `n` -/
def groupsAny (a : Param → Bool) (gs : List (String × List String)) : Bool :=
  gs.any fun g => g.2.any fun v => a ⟨g.1, v⟩

theorem groupsAny_insertGroup (a : Param → Bool) (k v : String) (gs : List (String × List String)) :
    groupsAny a (insertGroup k v gs) = (groupsAny a gs || a ⟨k, v⟩) := by
  induction gs with
  | nil => simp [insertGroup, groupsAny]
  | cons g gs ih =>
    obtain ⟨k', vs⟩ := g
    simp only [insertGroup]
    split
    next hk =>
      subst hk
      simp only [groupsAny, List.any_cons, List.any_append, List.any_nil, Bool.or_false]
      cases vs.any (fun v => a ⟨k', v⟩) <;> cases a ⟨k', v⟩ <;>
        cases gs.any (fun g => g.2.any fun v => a ⟨g.1, v⟩) <;> rfl
    next =>
      simp only [groupsAny, List.any_cons] at ih ⊢
      rw [ih]
      cases vs.any (fun v => a ⟨k', v⟩) <;> cases a ⟨k, v⟩ <;>
        cases gs.any (fun g => g.2.any fun v => a ⟨g.1, v⟩) <;> rfl

theorem insertGroup_ne_nil (k v : String) (gs : List (String × List String)) : insertGroup k v gs ≠ [] := by
  cases gs with
  | nil => simp [insertGroup]
  | cons g gs => obtain ⟨k', vs⟩ := g; simp only [insertGroup]; split <;> simp

theorem groupsAny_foldl (a : Param → Bool) (ps : List Param) :
    ∀ gs, groupsAny a (ps.foldl (fun gs p => insertGroup p.key p.val gs) gs) = (groupsAny a gs || ps.any a) := by
  induction ps with
  | nil => intro gs; simp
  | cons p ps ih =>
    intro gs
    simp only [List.foldl_cons, ih, groupsAny_insertGroup, List.any_cons]
    cases groupsAny a gs <;> cases a p <;> cases ps.any a <;> rfl

theorem groupsAny_groupByKey (a : Param → Bool) (ps : List Param) : groupsAny a (groupByKey ps) = ps.any a := by
  unfold groupByKey
  rw [groupsAny_foldl]
  simp [groupsAny]

theorem foldl_insertGroup_ne_nil (ps : List Param) :
    ∀ gs, gs ≠ [] → ps.foldl (fun gs p => insertGroup p.key p.val gs) gs ≠ [] := by
  induction ps with
  | nil => intro gs h; exact h
  | cons p ps ih => intro gs _; exact ih _ (insertGroup_ne_nil _ _ _)

theorem groupByKey_eq_nil (ps : List Param) : groupByKey ps = [] ↔ ps = [] := by
  constructor
  · intro h
    cases ps with
    | nil => rfl
    | cons p ps =>
      exact absurd h (foldl_insertGroup_ne_nil ps _ (insertGroup_ne_nil _ _ _))
  · intro h; subst h; rfl

/-! ## one function call as a condition of the scan -/

theorem any_groupSets (S : Sem δ) (pv : Bool) (n : String) (g : String × List String) :
    (groupSets pv n g).any (evGroup S) = g.2.any fun v => S.atom n ⟨g.1, v⟩ := by
  unfold groupSets
  cases pv
  · simp [evGroup]
  · simp only [if_true, List.any_map]
    congr 1
    funext v
    simp [evGroup]

theorem toCond_spec (S : Sem δ) (hg : ∀ n, S.guard n = true) (pv : String → Bool) (f : Func)
    (c : Cond (Option Group)) (h : toCond pv f = some c) :
    condHolds (evGroup S) c = holdsF S f ∧ f.params ≠ [] := by
  unfold toCond at h
  cases hL : (groupByKey f.params).flatMap (groupSets (pv f.name) f.name) with
  | nil => simp [hL] at h
  | cons a as =>
    simp only [hL, Option.some.injEq] at h
    subst h
    have hne : f.params ≠ [] := by
      intro hp
      rw [hp] at hL
      simp [groupByKey] at hL
    refine ⟨?_, hne⟩
    have hany := groupsAny_groupByKey (S.atom f.name) f.params
    have hfe : f.params.isEmpty = false := by
      cases hp : f.params with
      | nil => exact absurd hp hne
      | cons _ _ => rfl
    have hL' : (a :: as).any (evGroup S) = f.params.any (S.atom f.name) := by
      rw [← hL, List.any_flatMap, ← hany]
      simp only [groupsAny]
      congr 1
      funext g
      exact any_groupSets S (pv f.name) f.name g
    simp only [condHolds, Cond.alts, holdsF, hg, Bool.true_and, hfe, Bool.false_eq_true, if_false, hL']

theorem toConds_spec (S : Sem δ) (hg : ∀ n, S.guard n = true) (pv : String → Bool) :
    ∀ (fs : List Func) (cs : List (Cond (Option Group))), toConds pv fs = some cs →
      cs.all (condHolds (evGroup S)) = fs.all (holdsF S) ∧ cs.length = fs.length := by
  intro fs
  induction fs with
  | nil => intro cs h; simp only [toConds, Option.some.injEq] at h; subst h; exact ⟨rfl, rfl⟩
  | cons f fs ih =>
    intro cs h
    cases h1 : toCond pv f with
    | none => simp [toConds, h1] at h
    | some c =>
      cases h2 : toConds pv fs with
      | none => simp [toConds, h1, h2] at h
      | some cs' =>
        simp only [toConds, h1, h2, Option.some.injEq] at h
        subst h
        have := ih cs' h2
        exact ⟨by simp only [List.all_cons, (toCond_spec S hg pv f c h1).1, this.1],
          by simp only [List.length_cons, this.2]⟩

/-! ## the whole program -/

theorem scan_lowerProg (S : Sem δ) (hg : ∀ n, S.guard n = true) (fb : δ) :
    ∀ (p : Prog) (es : List (Entry (Option Group) δ)), lowerProg S.perValue S.parseOut p = some es → neP p = true →
      ∀ must, scanAux (evGroup S) (es ++ [⟨none, false, .final fb⟩]) false false must =
        some (firstMatchAst S p fb must) := by
  intro p
  induction p with
  | nil =>
    intro es h _ must
    simp only [lowerProg, Option.some.injEq] at h
    subst h
    simp [scanAux, evGroup, firstMatchAst]
  | cons r rs ih =>
    intro es h hne must
    simp only [neP, List.all_cons, Bool.and_eq_true] at hne
    cases h1 : lowerRuleAst S.perValue S.parseOut r with
    | none => simp [lowerProg, h1] at h
    | some a =>
      cases h2 : lowerProg S.perValue S.parseOut rs with
      | none => simp [lowerProg, h1, h2] at h
      | some b =>
        simp only [lowerProg, h1, h2, Option.some.injEq] at h
        subst h
        unfold lowerRuleAst at h1
        cases h3 : toConds S.perValue r.funcs with
        | none => simp [h3] at h1
        | some cs =>
          have hspec := toConds_spec S hg S.perValue r.funcs cs h3
          cases cs with
          | nil =>
            have : r.funcs.length = 0 := by simpa using hspec.2.symm
            have : r.funcs = [] := List.length_eq_zero_iff.mp this
            simp [neR, this] at hne
          | cons c cs =>
            simp only [h3, Option.some.injEq] at h1
            subst h1
            have hrule : lowerConds (outTail (S.parseOut r.out)) c cs =
                lowerRule (⟨c, cs, S.parseOut r.out⟩ : RuleScan.Rule (Option Group) δ) := rfl
            rw [List.append_assoc, hrule, scan_rule]
            have hholds : ruleHolds (evGroup S) (⟨c, cs, S.parseOut r.out⟩ : RuleScan.Rule (Option Group) δ)
                = holdsR S r := by
              simp only [ruleHolds, Rule.conds, holdsR]
              exact hspec.1
            rw [hholds]
            simp only [firstMatchAst]
            cases hh : holdsR S r
            · simp [ruleEnd, ih b h2 hne.2]
            · cases ho : S.parseOut r.out <;> simp [ruleEnd, ih b h2 hne.2]

/-- `compiledDecision` in one statement. -/
theorem compiledDecision_eq (S : Sem δ) (hg : ∀ n, S.guard n = true) (p : Prog) (fb : δ) (must : Bool)
    (hne : neP p = true) (d : δ × Bool) (h : compiledDecision S p fb must = some d) :
    d = firstMatchAst S p fb must := by
  unfold compiledDecision at h
  cases hl : lowerProg S.perValue S.parseOut p with
  | none => simp [hl] at h
  | some es =>
    simp only [hl] at h
    split at h
    · exact absurd h (by simp)
    · rw [scan_lowerProg S hg fb p es hl hne must] at h
      exact (Option.some.inj h).symm

/-! ## every stage keeps "each rule has a function" -/

theorem neR_sortFuncsRule (r : Rule) : neR (sortFuncsRule r) = neR r := by
  simp [neR, sortFuncsRule, isEmpty_stableSort]

theorem neR_sortParamsRule (r : Rule) : neR (sortParamsRule r) = neR r := by
  simp [neR, sortParamsRule]

theorem neR_dedupRule (r : Rule) : neR (dedupRule r) = neR r := by
  simp [neR, dedupRule]

theorem neP_map (g : Rule → Rule) (h : ∀ r, neR (g r) = neR r) (p : Prog) : neP (p.map g) = neP p := by
  simp only [neP, List.all_map]
  congr 1
  funext r
  exact h r

theorem neP_mergeLoop (rs : Prog) : ∀ cur, neR cur = true → neP rs = true → neP (mergeLoopG false cur rs) = true := by
  induction rs with
  | nil => intro cur h _; simp [mergeLoopG, neP, h]
  | cons r rs ih =>
    intro cur hcur hrs
    simp only [neP, List.all_cons, Bool.and_eq_true] at hrs
    simp only [mergeLoopG]
    split
    next hm =>
      obtain ⟨fa, fb', ha, hb, _⟩ := mergeable_spec cur r hm
      apply ih _ _ hrs.2
      rw [absorb_eq cur r fa fb' ha hb]
      simp [neR]
    next =>
      simp only [neP, List.all_cons, hcur, Bool.true_and]
      exact ih r hrs.1 hrs.2

theorem neP_mergeSortOpt (p : Prog) (h : neP p = true) : neP (mergeSortOpt p) = true := by
  unfold mergeSortOpt mergeSortOptG
  rw [neP_map _ neR_sortParamsRule]
  have h' : neP (p.map sortFuncsRule) = true := by rw [neP_map _ neR_sortFuncsRule]; exact h
  cases hp : p.map sortFuncsRule with
  | nil => rfl
  | cons r rs =>
    rw [hp] at h'
    simp only [neP, List.all_cons, Bool.and_eq_true] at h'
    exact neP_mergeLoop rs r h'.1 h'.2

theorem neP_dedupOpt (p : Prog) : neP (dedupOpt p) = neP p := neP_map _ neR_dedupRule p

/-! ## the compiled selector matcher -/

theorem selPredicate_eq (S : Sem δ) (f : Func) : selPredicate S f = holdsF S f := by
  unfold selPredicate holdsF
  cases hp : f.params with
  | nil => simp [groupByKey]
  | cons p ps =>
    have hany := groupsAny_groupByKey (S.atom f.name) (p :: ps)
    simp only [List.isEmpty_cons, Bool.false_eq_true, if_false, List.nil_append, List.any_map]
    congr 2

theorem selCompiled_eq (S : Sem δ) : ∀ (p : Prog) (fb : δ) (must : Bool),
    selCompiled S p fb must = firstMatchAst S p fb must := by
  intro p
  induction p with
  | nil => intro fb must; rfl
  | cons r rs ih =>
    intro fb must
    have hr : r.funcs.all (selPredicate S) = holdsR S r := by
      unfold holdsR
      congr 1
      funext f
      exact selPredicate_eq S f
    simp only [selCompiled, firstMatchAst, hr, ih]

end DaeVerif.C04
