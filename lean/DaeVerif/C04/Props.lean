import DaeVerif.C04.Split
import DaeVerif.C04.Cache
/-!
# C04 — property theorems

"The rule program that is actually compiled for traffic routing, DNS request routing and DNS
response routing — after alias rewriting, geodata expansion, merging of neighbouring rules, sorting
of conditions and values, and removal of duplicate values — decides every packet or DNS question
exactly as the rule list the user wrote."

Reading guide (all definitions are in `Model.lean`):

* `firstMatchAst S rules fb must` — the meaning of a rule list: first rule from the top all of whose
  (possibly negated) function calls hold, a call holding when any of its values does; `S.atom`
  says whether one value matches the packet/question at hand and is **universally quantified**
  everywhere below, so every statement is "for all packets".
* `userSem S g aliasing` — the same, reading the values as the user wrote them: `dport`/`dip`,
  `domain` key aliases, `geosite:`/`geoip:`/`ext:` references standing for the listed alternatives.
* `trafficPipeline g` / `dnsPipeline g` — the optimizer chains; `compiledDecision S p fb must` — the
  program `p` lowered to match sets by `RulesBuilder.Apply` (+ the fallback set) and run through the
  OR/AND/NOT scan of the real matchers; `none` = the builder rejects the program.
* `ParserWF` — what the parser guarantees; `MatchSetSem` — the three match-set backends.

Only statements to audit live here; proofs are in `Proofs/Expand/Lower/Split.lean`.
-/
namespace DaeVerif.C04.Props
open DaeVerif.C04 DaeVerif.RuleScan

variable {δ : Type}

/-- no geodata at all (for examples that need none) -/
def exGeoNil : Geo := ⟨fun _ _ => none, fun _ _ => none⟩

/-! ## Headline: the three compiled programs (full strength) -/

/-- **Traffic routing.** For every rule list the parser can produce, every geodata content, every
packet (`S.atom`), fallback and must-flag: if the pipeline alias → dat → merge-and-sort → dedup
succeeds and the builder accepts the result, the compiled program's decision is the first-match
decision of the rules as written. -/
theorem traffic_compiled_decides_as_written (S : Sem δ) (hS : MatchSetSem S) (g : Geo) (rs out : Prog)
    (fb : δ) (must : Bool) (d : δ × Bool) (hwf : ParserWF rs)
    (hp : trafficPipeline g rs = some out) (hc : compiledDecision S out fb must = some d) :
    d = firstMatchAst (userSemTraffic S g) rs fb must := by
  rw [trafficPipeline_eq] at hp
  have h := pipeline_core S g true (patchMustOpt rs) out (parserWF_patchMust rs hwf) hp
  rw [compiledDecision_eq S hS.guard out fb must h.2 d hc, h.1, firstMatchAst_patchMust]
  rfl

/-- **DNS response routing** (dat → merge-and-sort → dedup, no alias stage). -/
theorem dns_response_compiled_decides_as_written (S : Sem δ) (hS : MatchSetSem S) (g : Geo)
    (rs out : Prog) (fb : δ) (must : Bool) (d : δ × Bool) (hwf : ParserWF rs)
    (hp : dnsPipeline g rs = some out) (hc : compiledDecision S out fb must = some d) :
    d = firstMatchAst (userSem S g false) rs fb must := by
  rw [dnsPipeline_eq] at hp
  have h := pipeline_core S g false rs out hwf hp
  rw [compiledDecision_eq S hS.guard out fb must h.2 d hc, h.1]

/-- **DNS request routing.** The request matcher is compiled from the rules `SplitRequestRules`
classifies as ordinary DNS rules (`splitCat .dns`), taken *after* normalisation.  Its decision is
the first-match decision over the written list in which only `qname`/`qtype`-category rules can
fire (`withCat · .dns`). -/
theorem dns_request_compiled_decides_as_written (S : Sem δ) (hS : MatchSetSem S) (g : Geo)
    (rs out q : Prog) (fb : δ) (must : Bool) (d : δ × Bool) (hwf : ParserWF rs)
    (hp : dnsPipeline g rs = some out) (hs : splitCat .dns out = some q)
    (hc : compiledDecision S q fb must = some d) :
    d = firstMatchAst (userSem (withCat S .dns) g false) rs fb must := by
  rw [dnsPipeline_eq] at hp
  have h := pipeline_core (withCat S .dns) g false rs out hwf hp
  have hsplit := splitCat_spec S .dns out q hs h.2
  rw [compiledDecision_eq S hS.guard q fb must hsplit.2 d hc, hsplit.1, h.1]

/-! ## Internal selectors (`sub`/`node`/`subnode`, compiled by `daedns.compileMatcher`) -/

/-- **Internal selectors, full strength.** For every `Sem` — in particular `emptyVal = true`, a
selector without parameters is a catch-all, and any per-function guard (`subnode`: the node comes
from a subscription) — the rules of category `c` after normalisation and `SplitRequestRules` decide
like the written list restricted to that category.  (No side condition: since the `fix:` that makes
an expansion to nothing a configuration error, a written selector can never turn into the catch-all.)
What `compileMatcher` does with the rules of the category is `selCompiled` below. -/
theorem internal_selectors_decide_as_written (S : Sem δ) (g : Geo) (c : Cat) (rs out q : Prog)
    (fb : δ) (must : Bool) (hwf : ParserWF rs) (hp : dnsPipeline g rs = some out)
    (hs : splitCat c out = some q) :
    selCompiled S q fb must = firstMatchAst (userSem (withCat S c) g false) rs fb must := by
  rw [dnsPipeline_eq] at hp
  have h := pipeline_core (withCat S c) g false rs out hwf hp
  rw [selCompiled_eq, (splitCat_spec S c out q hs h.2).1, h.1]

/-- **`Router.MatchNodeUpstream`** (what a node's DNS lookup actually uses): subscription nodes are looked
up in the `subnode` rules first and fall through to the `node` rules; manual nodes only see the `node`
rules.  After normalisation and split this gives exactly what the same precedence gives on the written
list.  (`parseOut` always yields an upstream: `compileMatcher` knows no `must_rules`.) -/
theorem node_lookup_decides_as_written {υ : Type} (S : Sem (Option υ)) (g : Geo) (rs out qs qn : Prog)
    (tagged : Bool) (hwf : ParserWF rs) (hp : dnsPipeline g rs = some out)
    (hs : splitCat .subnode out = some qs) (hn : splitCat .node out = some qn) :
    nodeLookup S tagged qs qn =
      orElseLookup (if tagged then (firstMatchAst (userSem (withCat S .subnode) g false) rs none false).1 else none)
        (firstMatchAst (userSem (withCat S .node) g false) rs none false).1 := by
  unfold nodeLookup
  rw [internal_selectors_decide_as_written S g .subnode rs out qs none false hwf hp hs,
    internal_selectors_decide_as_written S g .node rs out qn none false hwf hp hn]

/-- **dae's own lookup for a node, end to end** (`WrapNodeDialer` → `resolvingDialer` → `LookupIPAddr` →
`selectUpstream`): the upstream that answers the question (host, qtype) asked on behalf of a node is the one
the *written* list gives under the documented reading — the first `subnode` rule (subscription nodes only),
else the first `node` rule that matches the node; without such a rule the first ordinary `qname`/`qtype`
rule that matches the question; else the request fallback.  All three matchers come from ONE normalisation
and ONE split of the written list (`out`).  `T` reads the selectors, `S` the question. -/
theorem own_node_lookup_decides_as_written {υ : Type} (S : Sem υ) (hS : MatchSetSem S) (T : Sem (Option υ))
    (g : Geo) (rs out qs qn qd : Prog) (tagged : Bool) (fb d : υ) (hwf : ParserWF rs)
    (hp : dnsPipeline g rs = some out)
    (hs : splitCat .subnode out = some qs) (hn : splitCat .node out = some qn) (hd : splitCat .dns out = some qd)
    (hc : ownNodeLookup S T tagged qs qn qd fb = some d) :
    d = match orElseLookup
            (if tagged then (firstMatchAst (userSem (withCat T .subnode) g false) rs none false).1 else none)
            (firstMatchAst (userSem (withCat T .node) g false) rs none false).1 with
        | some u => u
        | none => (firstMatchAst (userSem (withCat S .dns) g false) rs fb false).1 := by
  unfold ownNodeLookup at hc
  rw [node_lookup_decides_as_written T g rs out qs qn tagged hwf hp hs hn] at hc
  cases hsel : orElseLookup
      (if tagged then (firstMatchAst (userSem (withCat T .subnode) g false) rs none false).1 else none)
      (firstMatchAst (userSem (withCat T .node) g false) rs none false).1 with
  | some u => rw [hsel] at hc; simp only at hc; injection hc with hc; exact hc.symm
  | none =>
    rw [hsel] at hc
    simp only at hc
    cases hcd : compiledDecision S qd fb false with
    | none => rw [hcd] at hc; cases hc
    | some dd =>
      rw [hcd] at hc
      simp only [Option.map_some] at hc
      injection hc with hc
      rw [← hc, dns_request_compiled_decides_as_written S hS g rs out qd fb false dd hwf hp hd hcd]

/-- **dae's own lookup for a subscription link** (`WrapSubscriptionDialer` + `selectUpstream`): first `sub`
rule matching the subscription, else the ordinary rules on the question, else the fallback. -/
theorem own_subscription_lookup_decides_as_written {υ : Type} (S : Sem υ) (hS : MatchSetSem S) (T : Sem (Option υ))
    (g : Geo) (rs out qsub qd : Prog) (fb d : υ) (hwf : ParserWF rs)
    (hp : dnsPipeline g rs = some out)
    (hs : splitCat .sub out = some qsub) (hd : splitCat .dns out = some qd)
    (hc : ownSubLookup S T qsub qd fb = some d) :
    d = match (firstMatchAst (userSem (withCat T .sub) g false) rs none false).1 with
        | some u => u
        | none => (firstMatchAst (userSem (withCat S .dns) g false) rs fb false).1 := by
  unfold ownSubLookup at hc
  rw [internal_selectors_decide_as_written T g .sub rs out qsub none false hwf hp hs] at hc
  cases hsel : (firstMatchAst (userSem (withCat T .sub) g false) rs none false).1 with
  | some u => rw [hsel] at hc; simp only at hc; injection hc with hc; exact hc.symm
  | none =>
    rw [hsel] at hc
    simp only at hc
    cases hcd : compiledDecision S qd fb false with
    | none => rw [hcd] at hc; cases hc
    | some dd =>
      rw [hcd] at hc
      simp only [Option.map_some] at hc
      injection hc with hc
      rw [← hc, dns_request_compiled_decides_as_written S hS g rs out qd fb false dd hwf hp hd hcd]

/-- **When `daedns.NewWithOption` builds no router.**  It returns `nil` when all four rule lists of the normalised,
split program are empty (and the fallback hands dae's own lookups to the base resolver anyway).  Normalisation and
split never lose the last rule: that happens only when the user wrote no rule at all — so "no router" can only
mean "every lookup gets the (pass-through) fallback", which is what the empty list means as written. -/
theorem no_router_only_without_rules (g : Geo) (rs out : Prog) (hp : dnsPipeline g rs = some out)
    (h : ∀ c, splitCat c out = some []) : rs = [] := by
  cases out with
  | nil => exact pipeline_nil g rs hp
  | cons r out =>
    exfalso
    have h1 := h .dns
    unfold splitCat at h1
    cases hc : classifyAll (r :: out) with
    | none => rw [hc] at h1; cases h1
    | some cs =>
      unfold classifyAll at hc
      cases hr : classify r with
      | none => rw [hr] at hc; cases hc
      | some c =>
        have h2 := h c
        unfold splitCat at h2
        have hc' : classifyAll (r :: out) = some cs := by unfold classifyAll; exact hc
        rw [hc'] at h2
        simp only [Option.some.injEq, List.filter_eq_nil_iff] at h2
        have := h2 r (List.mem_cons_self ..)
        simp [hr] at this

/-- … and the empty list does give four empty categories. -/
example : dnsPipeline exGeoNil [] = some [] ∧ ∀ c, splitCat c [] = some [] := ⟨rfl, fun _ => rfl⟩

/-! ## The geodata stage as the code runs it: cache, worker pool, collector -/

/-- **One optimizer object, any history.**  Whatever rule lists a `DatReaderOptimizer` has expanded before
(its cache carried along from call to call), every call returns what a fresh optimizer returns, namely
`datOpt`: the cache never changes a result.  Assumption `KeyCongr`: a reference's content depends on the
file name (+`.dat`) and the code up to letter case only. -/
theorem shared_optimizer_history_is_cache_free (g : Geo) (hk : KeyCongr g) (history : List Prog) :
    runHistory g {} history = history.map (datOpt g) :=
  runHistory_eq g hk history {} (sound_empty g)

/-- the two pipelines with the cache (in any reachable state) in front of the geodata stage — what the driver
executes for the rule lists of a long-lived optimizer — are the pipelines of the headline theorems. -/
theorem cached_pipelines_are_the_pipelines (g : Geo) (hk : KeyCongr g) (c : DatCache) (hc : Sound g c)
    (evs : List CacheEv) (rs : Prog) :
    ((datOptC g (evs.foldl (applyEv g) c) (aliasOpt (patchMustOpt rs))).1.map fun e => dedupOpt (mergeSortOpt e))
        = trafficPipeline g rs ∧
    ((datOptC g (evs.foldl (applyEv g) c) rs).1.map fun e => dedupOpt (mergeSortOpt e)) = dnsPipeline g rs := by
  have hs := sound_reachable g hk evs c hc
  exact ⟨by rw [(datOptC_spec g hk _ _ hs).1]; rfl, by rw [(datOptC_spec g hk _ _ hs).1]; rfl⟩

/-- **The worker pool, every schedule.**  `Optimize` starts one worker per rule.  Worker `i` starts when the
shared cache is in some reachable state (`evs i`: the stores made so far, by anyone, on top of the cache `c0`
the object came with), runs `RuleRun` — its own look-ups and stores with any number of other workers' stores
in between — and reports `res[i]`; the reports arrive at the collector in any order.  The call returns the
rules expanded as `datOpt` does, in rule order, or an error exactly when `datOpt` fails. -/
theorem datreader_pool_every_schedule (g : Geo) (hk : KeyCongr g) (c0 : DatCache) (h0 : Sound g c0) (rs : Prog)
    (res : List (Option Rule)) (hlen : res.length = rs.length)
    (hrun : ∀ i (h : i < rs.length), ∃ (evs : List CacheEv) (c' : DatCache),
      RuleRun g (evs.foldl (applyEv g) c0) rs[i] (res[i]'(hlen ▸ h)) c')
    (arrivals : List (Nat × Option Rule)) (harr : arrivals.Perm (res.zipIdx.map fun x => (x.2, x.1))) :
    collect rs.length arrivals = (datOpt g rs).map (List.map some) := by
  have hres : res = rs.map (datRule g) := by
    apply List.ext_getElem
    · rw [hlen, List.length_map]
    · intro i h1 h2
      have hi : i < rs.length := hlen ▸ h1
      obtain ⟨evs, c', hr⟩ := hrun i hi
      rw [(ruleRun_spec g hk _ _ _ _ (sound_reachable g hk evs c0 h0) hr).1, List.getElem_map]
  rw [← hlen, collect_perm res arrivals harr, datOpt_eq, hres]
  cases hm : mapOpt (datRule g) rs with
  | none =>
    obtain ⟨a, ha, hfa⟩ := mapOpt_none _ _ hm
    have : (rs.map (datRule g)).all Option.isSome = false := by
      rw [List.all_eq_false]
      exact ⟨none, List.mem_map.mpr ⟨a, ha, hfa⟩, by simp⟩
    rw [this]
    rfl
  | some bs =>
    rw [mapOpt_some _ _ _ hm]
    have : (bs.map some).all Option.isSome = true := by
      rw [List.all_eq_true]
      intro x hx
      obtain ⟨b, _, rfl⟩ := List.mem_map.mp hx
      rfl
    rw [this]
    rfl

/-! ## The stages one by one (every clause of the property statement) -/

/-- `config.patchMustOutbound`: rewriting `-> must_X` to `-> X(…, must)` changes nothing but how the
outbound is read (the reading is the definition of the shorthand; the tie executes the real `config.New`). -/
theorem must_shorthand_preserves_meaning (S : Sem δ) (rs : Prog) (fb : δ) (must : Bool) :
    firstMatchAst S (patchMustOpt rs) fb must =
      firstMatchAst { S with parseOut := fun o => S.parseOut (patchOut o) } rs fb must :=
  firstMatchAst_patchMust S rs fb must


/-- alias rewriting + geodata expansion (traffic): the expanded program means what was written. -/
theorem alias_and_geodata_preserve_meaning (S : Sem δ) (g : Geo) (rs E : Prog) (fb : δ) (must : Bool)
    (hwf : ParserWF rs) (hE : datOpt g (aliasOpt rs) = some E) :
    firstMatchAst S E fb must = firstMatchAst (userSem S g true) rs fb must := by
  rw [← preOpt_true] at hE
  exact (firstMatchAst_expand S g true rs E hwf hE).1 fb must

/-- geodata expansion (DNS pipelines). -/
theorem geodata_preserves_meaning (S : Sem δ) (g : Geo) (rs E : Prog) (fb : δ) (must : Bool)
    (hwf : ParserWF rs) (hE : datOpt g rs = some E) :
    firstMatchAst S E fb must = firstMatchAst (userSem S g false) rs fb must := by
  have hE' : datOpt g (preOpt false rs) = some E := by rw [preOpt_false]; exact hE
  exact (firstMatchAst_expand S g false rs E hwf hE').1 fb must

/-- sorting the conditions of a rule by function name. -/
theorem sorting_conditions_preserves_meaning (S : Sem δ) (r : Rule) :
    holdsR S (sortFuncsRule r) = holdsR S r := holdsR_sortFuncsRule S r

/-- sorting the values of a function (both comparators). -/
theorem sorting_values_preserves_meaning (S : Sem δ) (f : Func) :
    holdsF S (sortParams f) = holdsF S f := holdsF_sortParams S f

/-- merging neighbouring non-negated single-condition rules with the same function name and the
same outbound (arbitrary rule lists, arbitrary run lengths). -/
theorem merging_neighbours_preserves_meaning (S : Sem δ) (rs : Prog) (fb : δ) (must : Bool)
    (hok : emptyOk S rs = true) :
    firstMatchAst S (mergeRules rs) fb must = firstMatchAst S rs fb must :=
  firstMatchAst_mergeRules S rs hok fb must

/-- the whole `MergeAndSortRulesOptimizer`. -/
theorem merge_and_sort_preserves_meaning (S : Sem δ) (rs : Prog) (fb : δ) (must : Bool)
    (hok : emptyOk S rs = true) :
    firstMatchAst S (mergeSortOpt rs) fb must = firstMatchAst S rs fb must :=
  firstMatchAst_mergeSortOpt S rs hok fb must

/-- `DeduplicateParamsOptimizer`: no side condition at all. -/
theorem dedup_preserves_meaning (S : Sem δ) (rs : Prog) (fb : δ) (must : Bool) :
    firstMatchAst S (dedupOpt rs) fb must = firstMatchAst S rs fb must :=
  firstMatchAst_dedupOpt S rs fb must

/-- the compiled form: lowering + scan = first match (any accepted program whose rules each have a
function). -/
theorem compiled_program_is_first_match (S : Sem δ) (hS : MatchSetSem S) (p : Prog) (fb : δ) (must : Bool)
    (d : δ × Bool) (hne : ∀ r ∈ p, r.funcs ≠ []) (hc : compiledDecision S p fb must = some d) :
    d = firstMatchAst S p fb must := by
  apply compiledDecision_eq S hS.guard p fb must _ d hc
  simp only [neP, List.all_eq_true, neR]
  intro r hr
  cases hf : r.funcs with
  | nil => exact absurd hf (hne r hr)
  | cons _ _ => rfl

/-- `daedns.compileMatcher` (catch-all for no parameters, one condition per key group, negation
outside, `subnode` guard) is first match. -/
theorem selector_matcher_is_first_match (S : Sem δ) (p : Prog) (fb : δ) (must : Bool) :
    selCompiled S p fb must = firstMatchAst S p fb must := selCompiled_eq S p fb must

/-- `SplitRequestRules`: the rules of one category, in order, decide like the whole list with the
other categories' rules switched off. -/
theorem split_is_category_guard (S : Sem δ) (c : Cat) (p q : Prog) (fb : δ) (must : Bool)
    (hne : ∀ r ∈ p, r.funcs ≠ []) (hs : splitCat c p = some q) :
    firstMatchAst S q fb must = firstMatchAst (withCat S c) p fb must := by
  refine (splitCat_spec S c p q hs ?_).1 fb must
  simp only [neP, List.all_eq_true, neR]
  intro r hr
  cases hf : r.funcs with
  | nil => exact absurd hf (hne r hr)
  | cons _ _ => rfl

/-- Programs that agree up to the order and multiplicity of a function's values and the order of
a rule's conditions mean the same (this is what lets the check tolerate an optimizer that sorts or
deduplicates differently from the model). -/
theorem same_normal_form_same_meaning (S : Sem δ) (p q : Prog) (fb : δ) (must : Bool)
    (h : nfEqP p q = true) : firstMatchAst S p fb must = firstMatchAst S q fb must :=
  firstMatchAst_nfEqP S p q h fb must

/-! ## Non-vacuity and necessity: concrete programs -/

section examples

/-- a packet to port 80 of 10.1.2.3 asking for `www.a.com` -/
def exSem : Sem Nat :=
  { atom := fun n p =>
      (n == "port" && p.val == "80") ||
      (n == "ip" && (p.val == "10.0.0.0/8" || p.val == "10.1.0.0/16")) ||
      (n == "domain" && ((p.key == "suffix" && p.val == "a.com") || (p.key == "keyword" && p.val == "www")))
    guard := fun _ => true
    emptyVal := fun _ => false
    parseOut := fun o =>
      if o.name == "proxy" then .final 2 else if o.name == "must_rules" then .mustRules
      else if o.name == "block" then .final 1 else .final 0 }

theorem exSem_matchSet : MatchSetSem exSem := ⟨fun _ => rfl, fun _ => rfl⟩

def exGeo : Geo :=
  { site := fun file code =>
      if file = "geosite" ∧ code = "cn" then some [⟨"suffix", "a.com"⟩, ⟨"full", "b.com"⟩]
      else if file = "geosite" ∧ code = "empty" then some [] else none
    ip := fun file code =>
      if file = "geoip" ∧ code = "private" then some [⟨"", "192.168.0.0/16"⟩, ⟨"", "10.0.0.0/8"⟩] else none }

/-- aliases (`dport`, `dip`, `contains`, empty domain key), a geodata reference, a repeated value, a
mergeable run `dport(443) ; port(80, 443)`, a negated neighbour pair that must stay apart, a rule whose
conditions get reordered. -/
def exRules : Prog :=
  [ ⟨[⟨"dport", false, [⟨"", "443"⟩]⟩], ⟨"direct", false, []⟩⟩,
    ⟨[⟨"port", false, [⟨"", "8080"⟩, ⟨"", "443"⟩]⟩], ⟨"direct", false, []⟩⟩,
    ⟨[⟨"dport", true, [⟨"", "80"⟩]⟩], ⟨"block", false, []⟩⟩,
    ⟨[⟨"dport", true, [⟨"", "22"⟩]⟩], ⟨"block", false, []⟩⟩,
    ⟨[⟨"dport", false, [⟨"", "80"⟩, ⟨"", "80"⟩]⟩,
      ⟨"domain", false, [⟨"geosite", "cn"⟩, ⟨"", "a.com"⟩, ⟨"contains", "zzz"⟩]⟩,
      ⟨"dip", true, [⟨"geoip", "private"⟩]⟩], ⟨"proxy", false, []⟩⟩,
    ⟨[⟨"dip", false, [⟨"", "10.1.0.0/16"⟩, ⟨"geoip", "private"⟩]⟩], ⟨"proxy", false, [⟨"", "must"⟩]⟩⟩ ]

def exOut : Prog :=
  [ ⟨[⟨"port", false, [⟨"", "443"⟩, ⟨"", "8080"⟩]⟩], ⟨"direct", false, []⟩⟩,
    ⟨[⟨"port", true, [⟨"", "80"⟩]⟩], ⟨"block", false, []⟩⟩,
    ⟨[⟨"port", true, [⟨"", "22"⟩]⟩], ⟨"block", false, []⟩⟩,
    ⟨[⟨"domain", false, [⟨"full", "b.com"⟩, ⟨"keyword", "zzz"⟩, ⟨"suffix", "a.com"⟩]⟩,
      ⟨"ip", true, [⟨"", "10.0.0.0/8"⟩, ⟨"", "192.168.0.0/16"⟩]⟩,
      ⟨"port", false, [⟨"", "80"⟩]⟩], ⟨"proxy", false, []⟩⟩,
    ⟨[⟨"ip", false, [⟨"", "10.0.0.0/8"⟩, ⟨"", "10.1.0.0/16"⟩, ⟨"", "192.168.0.0/16"⟩]⟩],
      ⟨"proxy", false, [⟨"", "must"⟩]⟩⟩ ]

theorem exRules_wf : ParserWF exRules := by decide

/-- the pipeline really rewrites aliases, expands, merges (6 rules → 5), sorts and deduplicates … -/
theorem ex_pipeline : trafficPipeline exGeo exRules = some exOut := by decide

/-- … the builder accepts the result and the compiled program decides `block` (rule 3: the port is
not 22) — the hypotheses of `traffic_compiled_decides_as_written` are satisfiable … -/
theorem ex_compiled : compiledDecision exSem exOut 0 false = some (1, false) := by decide

/-- … and the written list says the same (as the theorem demands). -/
example : firstMatchAst (userSemTraffic exSem exGeo) exRules 0 false = (1, false) :=
  (traffic_compiled_decides_as_written exSem exSem_matchSet exGeo exRules exOut 0 false (1, false)
    exRules_wf ex_pipeline ex_compiled).symm

/-- `nfEqP` relates programs that really differ as ASTs (value order, a duplicate, condition order) … -/
example : nfEqP
    [⟨[⟨"port", false, [⟨"", "80"⟩, ⟨"", "443"⟩]⟩, ⟨"ip", true, [⟨"", "::1"⟩]⟩], ⟨"proxy", false, []⟩⟩]
    [⟨[⟨"ip", true, [⟨"", "::1"⟩]⟩, ⟨"port", false, [⟨"", "443"⟩, ⟨"", "80"⟩, ⟨"", "443"⟩]⟩], ⟨"proxy", false, []⟩⟩] = true := by
  decide

/-- … and separates programs that differ in a value, a negation, a rule boundary or an outbound. -/
example : nfEqP [⟨[⟨"port", false, [⟨"", "80"⟩]⟩], ⟨"proxy", false, []⟩⟩]
    [⟨[⟨"port", false, [⟨"", "80"⟩, ⟨"", "443"⟩]⟩], ⟨"proxy", false, []⟩⟩] = false := by decide

/-- the `must_` shorthand: `must_proxy` becomes `proxy(must)` (and then merges with a neighbour written
that way), `must_rules` and `mustang` are left alone, `must_us_proxy` loses exactly the prefix. -/
example : (patchOut ⟨"must_proxy", false, []⟩ = ⟨"proxy", false, [⟨"", "must"⟩]⟩) ∧
    (patchOut ⟨"must_rules", false, []⟩ = ⟨"must_rules", false, []⟩) ∧
    (patchOut ⟨"mustang", false, []⟩ = ⟨"mustang", false, []⟩) ∧
    (patchOut ⟨"must_us_proxy", false, [⟨"mark", "1"⟩]⟩ = ⟨"us_proxy", false, [⟨"mark", "1"⟩, ⟨"", "must"⟩]⟩) ∧
    (trafficPipeline exGeo [⟨[⟨"dport", false, [⟨"", "80"⟩]⟩], ⟨"must_proxy", false, []⟩⟩,
        ⟨[⟨"dport", false, [⟨"", "443"⟩]⟩], ⟨"proxy", false, [⟨"", "must"⟩]⟩⟩]).map List.length = some 1 := by
  decide

/-- **Why negated neighbours must not be merged** (`fix:` 89b7b19): with the old merge condition
(equal negation is enough) `!port(80) -> proxy ; !port(443) -> proxy ; port(80) -> direct` sends the
port-80 packet to `direct` instead of `proxy`. -/
theorem merge_of_negated_neighbours_unsound :
    ∃ (S : Sem Nat) (rs : Prog) (fb : Nat),
      firstMatchAst S (mergeSortOptG true rs) fb false ≠ firstMatchAst S rs fb false :=
  ⟨exSem,
   [ ⟨[⟨"port", true, [⟨"", "80"⟩]⟩], ⟨"proxy", false, []⟩⟩,
     ⟨[⟨"port", true, [⟨"", "443"⟩]⟩], ⟨"proxy", false, []⟩⟩,
     ⟨[⟨"port", false, [⟨"", "80"⟩]⟩], ⟨"direct", false, []⟩⟩ ], 1, by decide⟩

/-- the same list under the code's merge condition is left alone. -/
example : mergeSortOpt
    [ ⟨[⟨"port", true, [⟨"", "80"⟩]⟩], ⟨"proxy", false, []⟩⟩,
      ⟨[⟨"port", true, [⟨"", "443"⟩]⟩], ⟨"proxy", false, []⟩⟩ ] =
    [ ⟨[⟨"port", true, [⟨"", "80"⟩]⟩], ⟨"proxy", false, []⟩⟩,
      ⟨[⟨"port", true, [⟨"", "443"⟩]⟩], ⟨"proxy", false, []⟩⟩ ] := by decide

/-- outbounds that differ only in the sixth parameter are different outbounds (`fix:` aac4d7a):
the two rules are not merged. -/
example :
    let o (m : String) : Func := ⟨"proxy", false, [⟨"", "must"⟩, ⟨"", "must"⟩, ⟨"", "must"⟩, ⟨"", "must"⟩, ⟨"", "must"⟩, ⟨"mark", m⟩]⟩
    (mergeSortOpt [⟨[⟨"port", false, [⟨"", "80"⟩]⟩], o "1"⟩, ⟨[⟨"port", false, [⟨"", "443"⟩]⟩], o "2"⟩]).length = 2 := by
  decide

/-- `{"", "a:b::c"}` and `{"a", "b::c"}` are different values (`fix:` fd3d399): both survive dedup. -/
example : dedupParams [⟨"", "a:b::c"⟩, ⟨"a", "b::c"⟩, ⟨"", "a:b::c"⟩] = [⟨"", "a:b::c"⟩, ⟨"a", "b::c"⟩] := by
  decide

/-- a function left without parameters by the expansion is a configuration error, not a silently
dropped condition: `dport(80) && domain(geosite:empty) -> proxy` is rejected by the dat stage … -/
example :
    trafficPipeline exGeo [⟨[⟨"dport", false, [⟨"", "80"⟩]⟩, ⟨"domain", false, [⟨"geosite", "empty"⟩]⟩],
        ⟨"proxy", false, []⟩⟩] = none := by
  decide

/-- … and a function without parameters that reaches `RulesBuilder.Apply` some other way is a build
error (`fix:` 7a61f47). -/
example : compiledDecision exSem [⟨[⟨"port", false, [⟨"", "80"⟩]⟩, ⟨"domain", false, []⟩], ⟨"proxy", false, []⟩⟩] 0 false
    = none := by decide

/-- internal selectors: a catch-all `node()` … -/
def exSel : Sem Nat :=
  { atom := fun _ p => p.key == "name" && p.val == "hk-1"
    guard := fun _ => true
    emptyVal := fun _ => true
    parseOut := fun _ => .final 7 }

/-- `node(geosite: empty) -> alidns` can never match as written; it no longer becomes the catch-all
`node()`: the pipeline refuses it. -/
example : dnsPipeline exGeo [⟨[⟨"node", false, [⟨"geosite", "empty"⟩]⟩], ⟨"alidns", false, []⟩⟩] = none := by
  decide

/-- the hypotheses of `internal_selectors_decide_as_written` are satisfiable by a list that is really
merged and split: `node(name: hk-1) -> a ; node(name: jp-2) -> a ; qname(suffix: x) -> a ; sub(tag: s) -> a`. -/
def exSelRules : Prog :=
  [ ⟨[⟨"node", false, [⟨"name", "hk-1"⟩]⟩], ⟨"a", false, []⟩⟩,
    ⟨[⟨"node", false, [⟨"name", "jp-2"⟩]⟩], ⟨"a", false, []⟩⟩,
    ⟨[⟨"qname", false, [⟨"suffix", "x"⟩]⟩], ⟨"a", false, []⟩⟩,
    ⟨[⟨"sub", false, [⟨"tag", "s"⟩]⟩], ⟨"a", false, []⟩⟩ ]

example : ParserWF exSelRules ∧
    (dnsPipeline exGeo exSelRules).bind (splitCat .node) =
      some [⟨[⟨"node", false, [⟨"name", "hk-1"⟩, ⟨"name", "jp-2"⟩]⟩], ⟨"a", false, []⟩⟩] := by
  exact ⟨by decide, by decide⟩

/-- **Why internal selectors without parameters must not take part in merging**: with `emptyVal =
true`, `sub() -> a ; sub(name: hk-1) -> a` (the first rule catches everything) is merged into
`sub(name: hk-1) -> a`.  Not reachable from a configuration file (the parser rejects `sub()`, and an
expansion to nothing is an error), hence the `emptyOk` hypothesis of the stage theorem. -/
theorem merge_needs_parameters_or_false_reading :
    ∃ (S : Sem Nat) (rs : Prog) (fb : Nat),
      firstMatchAst S (mergeSortOpt rs) fb false ≠ firstMatchAst S rs fb false :=
  ⟨{ exSel with atom := fun _ _ => false },
   [ ⟨[⟨"sub", false, []⟩], ⟨"a", false, []⟩⟩, ⟨[⟨"sub", false, [⟨"name", "hk-1"⟩]⟩], ⟨"a", false, []⟩⟩ ],
   0, by decide⟩

/-! ### the cache / pool / own-lookup theorems: non-vacuity -/


/-- geodata given by key: `KeyCongr` holds by construction (what the file lookup + decoder provide). -/
def keyGeo (site ip : Tbl) : Geo := ⟨fun f k => site.lookup (cacheKey f k), fun f k => ip.lookup (cacheKey f k)⟩

theorem keyGeo_congr (site ip : Tbl) : KeyCongr (keyGeo site ip) :=
  ⟨fun _ _ _ _ h => by simp only [keyGeo, h], fun _ _ _ _ h => by simp only [keyGeo, h]⟩

def exKeyGeo : Geo :=
  keyGeo [("geosite.dat:cn", [⟨"suffix", "a.com"⟩]), ("geosite.dat:x@ads", [⟨"full", "b.com"⟩])]
    [("geoip.dat:private", [⟨"", "10.0.0.0/8"⟩])]

def exP1 : Prog := [⟨[⟨"domain", false, [⟨"geosite", "cn"⟩]⟩], ⟨"proxy", false, []⟩⟩]
def exP2 : Prog :=
  [ ⟨[⟨"domain", false, [⟨"geosite", "CN"⟩, ⟨"geosite", "X@Ads"⟩]⟩], ⟨"proxy", false, []⟩⟩,
    ⟨[⟨"ip", false, [⟨"geoip", "private"⟩, ⟨"geoip", "nosuch"⟩]⟩], ⟨"proxy", false, []⟩⟩ ]

/-- the cache is really filled and really hit (`geosite:CN` after `geosite:cn`, an `@attr` code in another case),
an error leaves the history intact, and every call returns what the cache-free stage returns. -/
example : (datOptC exKeyGeo {} exP1).2.site = [("geosite.dat:cn", [⟨"suffix", "a.com"⟩])] ∧
    (datOptC exKeyGeo (datOptC exKeyGeo {} exP1).2 exP2).2.site.length = 2 ∧
    (datOptC exKeyGeo (datOptC exKeyGeo {} exP1).2 exP2).2.ip.length = 1 ∧
    runHistory exKeyGeo {} [exP1, exP2, exP1] = [datOpt exKeyGeo exP1, none, datOpt exKeyGeo exP1] := by
  decide

/-- files whose content depended on the letter case of the code would break the cache: `KeyCongr` is needed. -/
def badGeo : Geo := ⟨fun _ k => if k = "cn" then some [⟨"suffix", "a.com"⟩] else some [⟨"suffix", "b.com"⟩], fun _ _ => none⟩
theorem key_congruence_needed : ∃ (g : Geo) (h : List Prog), runHistory g {} h ≠ h.map (datOpt g) :=
  ⟨badGeo, [exP1, [⟨[⟨"domain", false, [⟨"geosite", "CN"⟩]⟩], ⟨"proxy", false, []⟩⟩]], by decide⟩

def exPoolRules : Prog :=
  [ ⟨[⟨"domain", false, [⟨"geosite", "cn"⟩]⟩], ⟨"proxy", false, []⟩⟩,
    ⟨[⟨"domain", false, [⟨"geosite", "CN"⟩, ⟨"geosite", "X@Ads"⟩]⟩], ⟨"direct", false, []⟩⟩ ]

def exPoolRes : List (Option Rule) :=
  [ (datRuleC exKeyGeo {} exPoolRules[0]).1,
    (datRuleC exKeyGeo ([CacheEv.storeSite "geosite" "cn"].foldl (applyEv exKeyGeo) {}) exPoolRules[1]).1 ]

/-- the hypotheses of `datreader_pool_every_schedule` are satisfiable by a run in which worker 1 starts after
worker 0 has stored `geosite.dat:cn` (and hits that entry with `geosite:CN`) and reports first. -/
example : collect 2 [(1, exPoolRes[1]), (0, exPoolRes[0])] = (datOpt exKeyGeo exPoolRules).map (List.map some) :=
  datreader_pool_every_schedule exKeyGeo (keyGeo_congr _ _) {} (sound_empty _) exPoolRules exPoolRes rfl
    (fun i h => match i, h with
      | 0, _ => ⟨[], _, ruleRun_of_datRuleC exKeyGeo {} exPoolRules[0]⟩
      | 1, _ => ⟨[CacheEv.storeSite "geosite" "cn"], _, ruleRun_of_datRuleC exKeyGeo _ exPoolRules[1]⟩)
    _ (List.Perm.swap _ _ [])

example : (datOpt exKeyGeo exPoolRules).map List.length = some 2 := by decide

/-- the question `x`/A asked for node `jp-2` of subscription `s2` -/
def exOwnS : Sem Nat :=
  { atom := fun n p => n == "qname" && p.val == "x"
    guard := fun _ => true
    emptyVal := fun _ => false
    parseOut := fun o => .final (if o.name == "a" then 1 else if o.name == "b" then 2 else 3) }

def exOwnT (nodeName : String) : Sem (Option Nat) :=
  optSem { exOwnS with atom := fun n p => (n == "node" || n == "subnode") && p.key == "name" && p.val == nodeName
                       emptyVal := fun _ => true }

def exOwnRules : Prog :=
  [ ⟨[⟨"node", false, [⟨"name", "hk-1"⟩]⟩], ⟨"a", false, []⟩⟩,
    ⟨[⟨"node", false, [⟨"name", "jp-2"⟩]⟩], ⟨"a", false, []⟩⟩,
    ⟨[⟨"qname", false, [⟨"suffix", "y"⟩, ⟨"geosite", "cn"⟩]⟩], ⟨"c", false, []⟩⟩,
    ⟨[⟨"qname", false, [⟨"suffix", "x"⟩]⟩], ⟨"b", false, []⟩⟩,
    ⟨[⟨"subnode", false, [⟨"subtag", "s"⟩]⟩], ⟨"c", false, []⟩⟩,
    ⟨[⟨"sub", false, [⟨"tag", "s"⟩]⟩], ⟨"c", false, []⟩⟩ ]

def exOwnOut : Prog :=
  [ ⟨[⟨"node", false, [⟨"name", "hk-1"⟩, ⟨"name", "jp-2"⟩]⟩], ⟨"a", false, []⟩⟩,
    ⟨[⟨"qname", false, [⟨"full", "b.com"⟩, ⟨"suffix", "a.com"⟩, ⟨"suffix", "y"⟩]⟩], ⟨"c", false, []⟩⟩,
    ⟨[⟨"qname", false, [⟨"suffix", "x"⟩]⟩], ⟨"b", false, []⟩⟩,
    ⟨[⟨"subnode", false, [⟨"subtag", "s"⟩]⟩], ⟨"c", false, []⟩⟩,
    ⟨[⟨"sub", false, [⟨"tag", "s"⟩]⟩], ⟨"c", false, []⟩⟩ ]

theorem exOwn_hyps : ParserWF exOwnRules ∧ dnsPipeline exGeo exOwnRules = some exOwnOut ∧
    splitCat .subnode exOwnOut = some [exOwnOut[3]] ∧ splitCat .node exOwnOut = some [exOwnOut[0]] ∧
    splitCat .dns exOwnOut = some [exOwnOut[1], exOwnOut[2]] ∧ splitCat .sub exOwnOut = some [exOwnOut[4]] := by
  decide

/-- node `jp-2`: the (merged) node rule names upstream 1; node `us-3`: no selector matches, the question `x` is
routed by the ordinary rules to upstream 2 — both as `own_node_lookup_decides_as_written` says. -/
example : ownNodeLookup exOwnS (exOwnT "jp-2") true [exOwnOut[3]] [exOwnOut[0]] [exOwnOut[1], exOwnOut[2]] 7 = some 1 ∧
    ownNodeLookup exOwnS (exOwnT "us-3") true [exOwnOut[3]] [exOwnOut[0]] [exOwnOut[1], exOwnOut[2]] 7 = some 2 ∧
    ownSubLookup exOwnS (exOwnT "us-3") [exOwnOut[4]] [exOwnOut[1], exOwnOut[2]] 7 = some 2 := by
  decide

example : (match orElseLookup (firstMatchAst (userSem (withCat (exOwnT "us-3") .subnode) exGeo false) exOwnRules none false).1
      (firstMatchAst (userSem (withCat (exOwnT "us-3") .node) exGeo false) exOwnRules none false).1 with
    | some u => u
    | none => (firstMatchAst (userSem (withCat exOwnS .dns) exGeo false) exOwnRules 7 false).1) = 2 :=
  (own_node_lookup_decides_as_written exOwnS ⟨fun _ => rfl, fun _ => rfl⟩ (exOwnT "us-3") exGeo exOwnRules exOwnOut
    [exOwnOut[3]] [exOwnOut[0]] [exOwnOut[1], exOwnOut[2]] true 7 2 exOwn_hyps.1 exOwn_hyps.2.1 exOwn_hyps.2.2.1
    exOwn_hyps.2.2.2.1 exOwn_hyps.2.2.2.2.1 (by decide)).symm

end examples

end DaeVerif.C04.Props
