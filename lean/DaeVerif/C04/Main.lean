import DaeVerif.C04.Model
import DaeVerif.Common.Proto
/-!
Line-protocol driver for C04 (stateful).  Grammar (space separated tokens, `~` = empty string,
every list is count-prefixed):

```
param  := key val
func   := name neg(0|1) K param^K
rule   := F func^F func            -- the last func is the outbound
prog   := N rule^N
geo    := G (kind(site|ip) file code (K param^K | !))^G      -- `!` = load error; absent = load error
labels := L (func (F id mark must | M))^L                     -- what an outbound decides; M = must_rules
P <backend:scan|scansplit|sel> <cat:dns|sub|node|subnode> <alias:0|1> geo labels FB id mark must
  A n (name key val)^n  GN n name^n  prog
      → opt=<prog after the pipeline | err> split=<#rules of the category | - | err>
q <bits|-> <gbits|->
      → dec=<id.mark.must | err> spec=<id.mark.must>
pipeline <site:traffic|dnsreq|dnsresp|daedns> <optimizer type names, comma separated, as found in the source>
      → pipeline=<the list the theorems are about>
N prog | prog
      → nf=<0|1>        (`nfEqP`: same up to value order/multiplicity and condition order)
```
`bits` gives the truth value of every atom of the `A` table for this packet, `gbits` the value of the
guard of every name in `GN`.  `dec` is the model of the compiled program (pipeline, split, lowering,
scan — or first match for internal selectors), `spec` is first match over the rules as written.
-/
open DaeVerif DaeVerif.C04 DaeVerif.Proto DaeVerif.RuleScan

abbrev Dec := Nat × Nat × Bool

abbrev Tk (α : Type) := List String → Option (α × List String)

def unTok (s : String) : String := if s = "~" then "" else s
def tok (s : String) : String := if s = "" then "~" else s

def pNat : Tk Nat
  | t :: ts => t.toNat?.map (·, ts)
  | [] => none

def pStr : Tk String
  | t :: ts => some (unTok t, ts)
  | [] => none

def pMany {α : Type} (p : Tk α) : Nat → Tk (List α)
  | 0, ts => some ([], ts)
  | n + 1, ts => do
    let (a, ts) ← p ts
    let (as, ts) ← pMany p n ts
    pure (a :: as, ts)

def pCounted {α : Type} (p : Tk α) : Tk (List α) := fun ts => do
  let (n, ts) ← pNat ts
  pMany p n ts

def pParam : Tk Param := fun ts => do
  let (k, ts) ← pStr ts
  let (v, ts) ← pStr ts
  pure (⟨k, v⟩, ts)

def pFunc : Tk Func := fun ts => do
  let (n, ts) ← pStr ts
  let (neg, ts) ← pNat ts
  let (ps, ts) ← pCounted pParam ts
  pure (⟨n, neg == 1, ps⟩, ts)

def pRule : Tk Rule := fun ts => do
  let (fs, ts) ← pCounted pFunc ts
  let (o, ts) ← pFunc ts
  pure (⟨fs, o⟩, ts)

def pProg : Tk Prog := pCounted pRule

structure GeoEntry where
  kind : String
  file : String
  code : String
  params : Option (List Param)

def pGeoEntry : Tk GeoEntry := fun ts => do
  let (kind, ts) ← pStr ts
  let (file, ts) ← pStr ts
  let (code, ts) ← pStr ts
  match ts with
  | "!" :: ts => pure (⟨kind, file, code, none⟩, ts)
  | _ =>
    let (ps, ts) ← pCounted pParam ts
    pure (⟨kind, file, code, some ps⟩, ts)

def geoLookup (es : List GeoEntry) (kind file code : String) : Option (List Param) :=
  match es.find? fun e => e.kind == kind && e.file == file && e.code == code with
  | some e => e.params
  | none => none

def mkGeo (es : List GeoEntry) : Geo := ⟨geoLookup es "site", geoLookup es "ip"⟩

def pLabel : Tk (Func × RuleOut Dec) := fun ts => do
  let (o, ts) ← pFunc ts
  match ts with
  | "M" :: ts => pure ((o, .mustRules), ts)
  | "F" :: ts =>
    let (id, ts) ← pNat ts
    let (mark, ts) ← pNat ts
    let (must, ts) ← pNat ts
    pure ((o, .final (id, mark, must == 1)), ts)
  | _ => none

def mkParseOut (ls : List (Func × RuleOut Dec)) (o : Func) : RuleOut Dec :=
  match ls.find? fun l => decide (l.1 = o) with
  | some l => l.2
  | none => .final (99999, 0, false)

def pAtom : Tk (String × Param) := fun ts => do
  let (n, ts) ← pStr ts
  let (p, ts) ← pParam ts
  pure ((n, p), ts)

def parseCat : String → Option Cat
  | "dns" => some .dns
  | "sub" => some .sub
  | "node" => some .node
  | "subnode" => some .subnode
  | _ => none

structure Ctx where
  backend : String
  cat : Cat
  aliasing : Bool
  geo : Geo
  parseOut : Func → RuleOut Dec
  fb : Dec
  atoms : List (String × Param)
  guardNames : List String
  prog : Prog
  /-- the program after the optimizer pipeline -/
  out : Option Prog
  /-- … and after `SplitRequestRules` for the backends that split -/
  final : Option Prog

def expect (s : String) : Tk Unit
  | t :: ts => if t = s then some ((), ts) else none
  | [] => none

def parseCtx (ts : List String) : Option Ctx := do
  let (backend, ts) ← pStr ts
  let (catS, ts) ← pStr ts
  let cat ← parseCat catS
  let (al, ts) ← pNat ts
  let (_, ts) ← expect "G" ts
  let (ges, ts) ← pCounted pGeoEntry ts
  let (_, ts) ← expect "L" ts
  let (ls, ts) ← pCounted pLabel ts
  let (_, ts) ← expect "FB" ts
  let (fid, ts) ← pNat ts
  let (fmark, ts) ← pNat ts
  let (fmust, ts) ← pNat ts
  let (_, ts) ← expect "A" ts
  let (atoms, ts) ← pCounted pAtom ts
  let (_, ts) ← expect "GN" ts
  let (gn, ts) ← pCounted pStr ts
  let (prog, ts) ← pProg ts
  if !ts.isEmpty then none
  let geo := mkGeo ges
  let aliasing := al == 1
  let out := if aliasing then trafficPipeline geo prog else dnsPipeline geo prog
  let final := if backend == "scan" then out else out.bind (splitCat cat)
  pure { backend, cat, aliasing, geo, parseOut := mkParseOut ls, fb := (fid, fmark, fmust == 1),
         atoms, guardNames := gn, prog, out, final }

/-! serialisation -/

def sParam (p : Param) : String := tok p.key ++ " " ++ tok p.val

def sFunc (f : Func) : String :=
  " ".intercalate ([tok f.name, boolStr f.neg, toString f.params.length] ++ f.params.map sParam)

def sRule (r : Rule) : String :=
  " ".intercalate ([toString r.funcs.length] ++ r.funcs.map sFunc ++ [sFunc r.out])

def sProg (p : Prog) : String := " ".intercalate ([toString p.length] ++ p.map sRule)

def sDec (d : Dec × Bool) : String :=
  s!"{d.1.1}.{d.1.2.1}.{boolStr (d.1.2.2 || d.2)}"

def indexOf? {α : Type} [BEq α] (x : α) : List α → Nat → Option Nat
  | [], _ => none
  | y :: ys, i => if y == x then some i else indexOf? x ys (i + 1)

def bitAt (bits : List Char) (i : Nat) : Bool := bits.getD i '0' == '1'

def mkSem (c : Ctx) (bits gbits : List Char) : Sem Dec :=
  { atom := fun n p =>
      match indexOf? (n, p) c.atoms 0 with
      | some i => bitAt bits i
      | none => false
    guard := fun n =>
      match indexOf? n c.guardNames 0 with
      | some i => bitAt gbits i
      | none => true
    emptyVal := fun _ => c.backend == "sel"
    parseOut := c.parseOut }

def answer (c : Ctx) (bits gbits : List Char) : String :=
  let S := mkSem c bits gbits
  let U := userSem S c.geo c.aliasing
  let spec :=
    if c.backend == "scan" then firstMatchAst U c.prog c.fb false
    else firstMatchAst (withCat U c.cat) c.prog c.fb false
  let dec : Option (Dec × Bool) :=
    match c.final with
    | none => none
    | some p =>
      if c.backend == "sel" then some (firstMatchAst S p c.fb false)
      else compiledDecision S p c.fb false
  let d := match dec with
    | some d => sDec d
    | none => "err"
  s!"dec={d} spec={sDec spec}"

def handle (st : Option Ctx) (line : String) : Option Ctx × String :=
  match words line with
  | "P" :: rest =>
    match parseCtx rest with
    | some c =>
      let o := match c.out with
        | some p => sProg p
        | none => "err"
      let sp :=
        if c.backend == "scan" then "-"
        else match c.final with
          | some p => toString p.length
          | none => "err"
      (some c, s!"opt={o} split={sp}")
    | none => (none, "bad-op")
  | ["pipeline", site, _] =>
    -- which optimizer list the theorems cover for this call site
    (st, "pipeline=" ++ ",".intercalate (if site == "traffic" then trafficStages else dnsStages))
  | "N" :: rest =>
    -- `N progA | progB` → are the two programs equal up to value order/multiplicity and condition order?
    match pProg rest with
    | some (a, "|" :: rest') =>
      match pProg rest' with
      | some (b, []) => (st, "nf=" ++ boolStr (nfEqP a b))
      | _ => (st, "bad-op")
    | _ => (st, "bad-op")
  | ["q", bits, gbits] =>
    match st with
    | some c =>
      let b := if bits == "-" then [] else bits.toList
      let g := if gbits == "-" then [] else gbits.toList
      (st, answer c b g)
    | none => (st, "bad-op")
  | _ => (st, "bad-op")

def main : IO Unit := lineLoopS (none : Option Ctx) handle
