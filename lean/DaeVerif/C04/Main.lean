import DaeVerif.C04.Model
import DaeVerif.Common.Proto
import Std.Data.HashMap
/-!
Line-protocol driver for C04 (stateful).  Grammar (space separated tokens, `~` = empty string,
every list is count-prefixed):

```
param  := key val
func   := name neg(0|1) K param^K
rule   := F func^F func            -- the last func is the outbound
prog   := N rule^N
geo    := G (kind(site|ip) file code (K param^K | !))^G      -- `!` = load error; absent = load error
labels := L (func (F id mark must | M))^L                     -- what an outbound decides (after the must_ rewrite); M = must_rules
P <backend:scan|scansplit|sel|selnode|own|ownsub> <cat:dns|sub|node|subnode> <alias:0|1> geo labels FB id mark must FBW func MX <consts.MaxMatchSetLen>
  A n (name key val)^n  GN n name^n  prog
      → opt=<prog after the pipeline | err> split=<#rules of the category | - | err>
q <bits|-> <gbits|->
      → dec=<id.mark.must | err> spec=<id.mark.must> raw=<id.mark.must | err> sens=<3 bits> m=<0|1>
        raw  = the program after alias/dat only (no merge, sort, dedup), compiled and run
        sens = would this evaluation be decided differently by (1) merging negated neighbours too,
               (2) de-duplicating on the value only, (3) comparing outbounds by name only — generator
               sensitivity counters, not compared with the implementation
        m    = the deciding rule of the normalised program absorbed at least one neighbour
sharedcache <n>
      → opt=<the current program normalised by the model optimizer whose CACHE has served every earlier
            sharedcache line (`datOptC`, state carried from line to line) | err> split=-
pipeline <site:traffic|dnsreq|dnsresp|daedns> <optimizer type names, comma separated, as found in the source>
      → pipeline=<the list the theorems are about>
N prog | prog
      → nf=<0|1>        (`nfEqP`: same up to value order/multiplicity and condition order)
```
Backends `own` / `ownsub`: dae's own lookup on behalf of a node / a subscription (`ownNodeLookup` /
`ownSubLookup`: selector matchers first, then the request matcher on the question, then the fallback).
`bits` gives the truth value of every atom of the `A` table for this packet, `gbits` the value of the
guard of every name in `GN`.  `dec` is the model of the compiled program (pipeline, split, lowering,
scan — or first match for internal selectors), `spec` is first match over the rules as written.
-/
open DaeVerif DaeVerif.C04 DaeVerif.Proto DaeVerif.RuleScan

abbrev Dec := Nat × Nat × Bool

abbrev Tk (α : Type) := List String → Option (α × List String)

def unTok (s : String) : String := if s = "~" then "" else s
def tok (s : String) : String := if s = "" then "~" else s

def pNat : Tk Nat
  | t :: ts => t.toNat?.map (·, ts)
  | [] => none

def pStr : Tk String
  | t :: ts => some (unTok t, ts)
  | [] => none

def pMany {α : Type} (p : Tk α) : Nat → Tk (List α)
  | 0, ts => some ([], ts)
  | n + 1, ts => do
    let (a, ts) ← p ts
    let (as, ts) ← pMany p n ts
    pure (a :: as, ts)

def pCounted {α : Type} (p : Tk α) : Tk (List α) := fun ts => do
  let (n, ts) ← pNat ts
  pMany p n ts

def pParam : Tk Param := fun ts => do
  let (k, ts) ← pStr ts
  let (v, ts) ← pStr ts
  pure (⟨k, v⟩, ts)

def pFunc : Tk Func := fun ts => do
  let (n, ts) ← pStr ts
  let (neg, ts) ← pNat ts
  let (ps, ts) ← pCounted pParam ts
  pure (⟨n, neg == 1, ps⟩, ts)

def pRule : Tk Rule := fun ts => do
  let (fs, ts) ← pCounted pFunc ts
  let (o, ts) ← pFunc ts
  pure (⟨fs, o⟩, ts)

def pProg : Tk Prog := pCounted pRule

structure GeoEntry where
  kind : String
  file : String
  code : String
  params : Option (List Param)

def pGeoEntry : Tk GeoEntry := fun ts => do
  let (kind, ts) ← pStr ts
  let (file, ts) ← pStr ts
  let (code, ts) ← pStr ts
  match ts with
  | "!" :: ts => pure (⟨kind, file, code, none⟩, ts)
  | _ =>
    let (ps, ts) ← pCounted pParam ts
    pure (⟨kind, file, code, some ps⟩, ts)

def geoLookup (es : List GeoEntry) (kind file code : String) : Option (List Param) :=
  match es.find? fun e => e.kind == kind && e.file == file && e.code == code with
  | some e => e.params
  | none => none

def mkGeo (es : List GeoEntry) : Geo := ⟨geoLookup es "site", geoLookup es "ip"⟩

def pLabel : Tk (Func × RuleOut Dec) := fun ts => do
  let (o, ts) ← pFunc ts
  match ts with
  | "M" :: ts => pure ((o, .mustRules), ts)
  | "F" :: ts =>
    let (id, ts) ← pNat ts
    let (mark, ts) ← pNat ts
    let (must, ts) ← pNat ts
    pure ((o, .final (id, mark, must == 1)), ts)
  | _ => none

def mkParseOut (ls : List (Func × RuleOut Dec)) (o : Func) : RuleOut Dec :=
  match ls.find? fun l => decide (l.1 = o) with
  | some l => l.2
  | none => .final (99999, 0, false)

def pAtom : Tk (String × Param) := fun ts => do
  let (n, ts) ← pStr ts
  let (p, ts) ← pParam ts
  pure ((n, p), ts)

def parseCat : String → Option Cat
  | "dns" => some .dns
  | "sub" => some .sub
  | "node" => some .node
  | "subnode" => some .subnode
  | _ => none

/-! what-if variants of the optimizers (only for the sensitivity counters) -/

/-- merge loop with an arbitrary merge condition -/
def mergeLoopBy (ok : Rule → Rule → Bool) (cur : Rule) : List Rule → List Rule
  | [] => [cur]
  | r :: rs => if ok cur r then mergeLoopBy ok (absorb cur r) rs else cur :: mergeLoopBy ok r rs

def mergeBy (ok : Rule → Rule → Bool) : Prog → Prog
  | [] => []
  | r :: rs => mergeLoopBy ok r rs

def mergeableByName (a b : Rule) : Bool :=
  match a.funcs, b.funcs with
  | [fa], [fb] => fa.name == fb.name && !fa.neg && !fb.neg && a.out.name == b.out.name
  | _, _ => false

def dedupValAux (seen : List String) : List Param → List Param
  | [] => []
  | p :: ps => if seen.contains p.val then dedupValAux seen ps else p :: dedupValAux (p.val :: seen) ps

def variantNeg (e : Prog) : Prog := dedupOpt (mergeSortOptG true e)
def variantVal (e : Prog) : Prog :=
  (mergeSortOpt e).map fun r => { r with funcs := r.funcs.map fun f => { f with params := dedupValAux [] f.params } }
def variantName (e : Prog) : Prog :=
  dedupOpt ((mergeBy mergeableByName (e.map sortFuncsRule)).map sortParamsRule)

/-- for every rule the real merge loop outputs: did it absorb a neighbour -/
def mergeFlagsLoop (cur : Rule) (absorbed : Bool) : List Rule → List Bool
  | [] => [absorbed]
  | r :: rs =>
    if mergeableG false cur r then mergeFlagsLoop (absorb cur r) true rs
    else absorbed :: mergeFlagsLoop r false rs

def mergeFlags : Prog → List Bool
  | [] => []
  | r :: rs => mergeFlagsLoop r false rs

/-- index of the rule that decides (mirrors `firstMatchAst`) -/
def firstMatchIdx {δ : Type} (S : Sem δ) : Prog → Nat → Option Nat
  | [], _ => none
  | r :: rs, i =>
    if holdsR S r then
      match S.parseOut r.out with
      | .final _ => some i
      | .mustRules => firstMatchIdx S rs (i + 1)
    else firstMatchIdx S rs (i + 1)

structure Ctx where
  backend : String
  cat : Cat
  aliasing : Bool
  geo : Geo
  parseOut : Func → RuleOut Dec
  fb : Dec
  atoms : List (String × Param)
  guardNames : List String
  prog : Prog
  /-- the program after the optimizer pipeline -/
  out : Option Prog
  /-- … and after `SplitRequestRules` for the backends that split -/
  final : Option Prog
  /-- the program after alias/dat only (then split) -/
  rawFinal : Option Prog
  /-- `selnode` only: the node-category rules (`final` holds the subnode-category rules) -/
  final2 : Option Prog
  rawFinal2 : Option Prog
  /-- `own` / `ownsub`: the ordinary (`qname`/`qtype`) rules -/
  final3 : Option Prog
  rawFinal3 : Option Prog
  /-- for every rule of `final`: did it absorb a neighbour -/
  mergedFlags : List Bool
  /-- what-if variants of the pipeline (sensitivity counters) -/
  variants : List (Option Prog)
  atomIx : Std.HashMap (String × Param) Nat
  /-- consts.MaxMatchSetLen of the code under test -/
  maxSets : Nat
  /-- the tables of the P line cover everything the model will look up -/
  complete : Bool

def expect (s : String) : Tk Unit
  | t :: ts => if t = s then some ((), ts) else none
  | [] => none

def parseCtx (ts : List String) : Option Ctx := do
  let (backend, ts) ← pStr ts
  let (catS, ts) ← pStr ts
  let cat ← parseCat catS
  let (al, ts) ← pNat ts
  let (_, ts) ← expect "G" ts
  let (ges, ts) ← pCounted pGeoEntry ts
  let (_, ts) ← expect "L" ts
  let (ls, ts) ← pCounted pLabel ts
  let (_, ts) ← expect "FB" ts
  let (fid, ts) ← pNat ts
  let (fmark, ts) ← pNat ts
  let (fmust, ts) ← pNat ts
  let (_, ts) ← expect "FBW" ts
  let (fbw, ts) ← pFunc ts
  let (_, ts) ← expect "MX" ts
  let (maxSets, ts) ← pNat ts
  let (_, ts) ← expect "A" ts
  let (atoms, ts) ← pCounted pAtom ts
  let (_, ts) ← expect "GN" ts
  let (gn, ts) ← pCounted pStr ts
  let (prog, ts) ← pProg ts
  if !ts.isEmpty then none
  let geo := mkGeo ges
  let aliasing := al == 1
  -- traffic: the rules reach the call site through config.New, which rewrites the must_ shorthand
  let prog0 := if aliasing then patchMustOpt prog else prog
  let expanded := datOpt geo (if aliasing then aliasOpt prog0 else prog0)
  let out := if aliasing then trafficPipeline geo prog else dnsPipeline geo prog
  let split (p : Option Prog) : Option Prog :=
    if backend == "scan" then p
    else if backend == "selnode" || backend == "own" then p.bind (splitCat .subnode)
    else if backend == "ownsub" then p.bind (splitCat .sub)
    else p.bind (splitCat cat)
  let split2 (p : Option Prog) : Option Prog :=
    if backend == "selnode" || backend == "own" then p.bind (splitCat .node) else none
  let split3 (p : Option Prog) : Option Prog :=
    if backend == "own" || backend == "ownsub" then p.bind (splitCat .dns) else none
  let atomIx := (atoms.zipIdx).foldl (fun m (a, i) => if m.contains a then m else m.insert a i) {}
  let known (o : Func) : Bool := ls.any fun l => decide (l.1 = o)
  let fbOut := if aliasing then patchOut fbw else fbw
  let outsKnown := (prog0.all fun r => known r.out) && (backend != "scan" || known fbOut)
  -- the fallback decision: what the (rewritten) written fallback decides; other backends pass it as numbers
  let fb : Dec := if backend == "scan" then
      match mkParseOut ls fbOut with
      | .final d => d
      | .mustRules => (99998, 0, false)
    else (fid, fmark, fmust == 1)
  let atomsKnown := match expanded with
    | some e => e.all fun r => r.funcs.all fun f => f.params.all fun p => atomIx.contains (f.name, p)
    | none => true
  let merged := match expanded with
    | some e => mergeFlags (e.map sortFuncsRule)
    | none => []
  let mergedFlags := match out with
    | some o => ((o.zip merged).filter fun (r, _) => backend == "scan" || classify r = some cat).map (·.2)
    | none => []
  pure { backend, cat, aliasing, geo, parseOut := mkParseOut ls, fb,
         atoms, guardNames := gn, prog, out, final := split out, rawFinal := split expanded,
         final2 := split2 out, rawFinal2 := split2 expanded, final3 := split3 out, rawFinal3 := split3 expanded, mergedFlags,
         variants := [split (expanded.map variantNeg), split (expanded.map variantVal), split (expanded.map variantName)],
         atomIx, maxSets, complete := outsKnown && atomsKnown }

/-! serialisation -/

def sParam (p : Param) : String := tok p.key ++ " " ++ tok p.val

def sFunc (f : Func) : String :=
  " ".intercalate ([tok f.name, boolStr f.neg, toString f.params.length] ++ f.params.map sParam)

def sRule (r : Rule) : String :=
  " ".intercalate ([toString r.funcs.length] ++ r.funcs.map sFunc ++ [sFunc r.out])

def sProg (p : Prog) : String := " ".intercalate ([toString p.length] ++ p.map sRule)

def sDec (d : Dec × Bool) : String :=
  s!"{d.1.1}.{d.1.2.1}.{boolStr (d.1.2.2 || d.2)}"

def indexOf? {α : Type} [BEq α] (x : α) : List α → Nat → Option Nat
  | [], _ => none
  | y :: ys, i => if y == x then some i else indexOf? x ys (i + 1)

def bitAt (bits : Array Char) (i : Nat) : Bool := bits.getD i '0' == '1'

def mkSem (c : Ctx) (bits gbits : Array Char) : Sem Dec :=
  { atom := fun n p =>
      match c.atomIx[(n, p)]? with
      | some i => bitAt bits i
      | none => false
    guard := fun n =>
      match indexOf? n c.guardNames 0 with
      | some i => bitAt gbits i
      | none => true
    emptyVal := fun n => c.backend == "sel" ||
      ((c.backend == "own" || c.backend == "ownsub") && (internalCat n).isSome)
    parseOut := c.parseOut
    perValue := fun n => ["port", "sport", "pname", "dscp", "qtype", "upstream"].contains n
    maxMatchSets := c.maxSets }

def isOwn (c : Ctx) : Bool := c.backend == "own" || c.backend == "ownsub"

/-- the question is read by the match-set backend: no per-function guard there -/
def questionSem (S : Sem Dec) : Sem Dec := { S with guard := fun _ => true }

def runFinal (c : Ctx) (S : Sem Dec) (p p2 p3 : Option Prog) (tagged : Bool) : Option (Dec × Bool) :=
  match p with
  | none => none
  | some p =>
    if c.backend == "selnode" then
      match p2 with
      | none => none
      | some q => some ((nodeLookup (optSem S) tagged p q).getD c.fb, false)
    else if c.backend == "own" then
      match p2, p3 with
      | some q, some d => (ownNodeLookup (questionSem S) (optSem S) tagged p q d c.fb).map (·, false)
      | _, _ => none
    else if c.backend == "ownsub" then
      match p3 with
      | some d => (ownSubLookup (questionSem S) (optSem S) p d c.fb).map (·, false)
      | none => none
    else if c.backend == "sel" then some (selCompiled S p c.fb false)
    else compiledDecision S p c.fb false

def sOptDec : Option (Dec × Bool) → String
  | some d => sDec d
  | none => "err"

def answer (c : Ctx) (bits gbits : Array Char) : String :=
  let S := mkSem c bits gbits
  let U := if c.aliasing then userSemTraffic S c.geo else userSem S c.geo false
  let tagged := bitAt gbits 0
  let spec : Dec × Bool :=
    if c.backend == "scan" then firstMatchAst U c.prog c.fb false
    else if c.backend == "selnode" then
      -- the precedence of `MatchNodeUpstream` on the written list (`Props.node_lookup_decides_as_written`)
      let OG := optSem S
      ((orElseLookup (if tagged then (firstMatchAst (userSem (withCat OG .subnode) c.geo false) c.prog none false).1 else none)
        (firstMatchAst (userSem (withCat OG .node) c.geo false) c.prog none false).1).getD c.fb, false)
    else if c.backend == "own" then
      -- `Props.own_node_lookup_decides_as_written`
      let OG := optSem S
      (match orElseLookup (if tagged then (firstMatchAst (userSem (withCat OG .subnode) c.geo false) c.prog none false).1 else none)
          (firstMatchAst (userSem (withCat OG .node) c.geo false) c.prog none false).1 with
        | some u => u
        | none => (firstMatchAst (userSem (withCat (questionSem S) .dns) c.geo false) c.prog c.fb false).1, false)
    else if c.backend == "ownsub" then
      -- `Props.own_subscription_lookup_decides_as_written`
      (match (firstMatchAst (userSem (withCat (optSem S) .sub) c.geo false) c.prog none false).1 with
        | some u => u
        | none => (firstMatchAst (userSem (withCat (questionSem S) .dns) c.geo false) c.prog c.fb false).1, false)
    else firstMatchAst (withCat U c.cat) c.prog c.fb false
  let dec := runFinal c S c.final c.final2 c.final3 tagged
  let raw := runFinal c S c.rawFinal c.rawFinal2 c.rawFinal3 tagged
  let astDec := if c.backend == "selnode" || isOwn c then none else c.final.map fun p => firstMatchAst S p c.fb false
  let sens := c.variants.map fun v =>
    match v, astDec with
    | some p, some d => if firstMatchAst S p c.fb false == d then '0' else '1'
    | _, _ => '0'
  let m := match c.final with
    | some p =>
      if c.backend == "selnode" || isOwn c then false else
      match firstMatchIdx S p 0 with
      | some i => c.mergedFlags.getD i false
      | none => false
    | none => false
  s!"dec={sOptDec dec} spec={sDec spec} raw={sOptDec raw} sens={String.ofList sens} m={boolStr m}"

structure St where
  ctx : Option Ctx := none
  /-- the cache of the long-lived model optimizer (`sharedcache` lines) -/
  cache : DatCache := {}

/-- the pipeline of the current program with the cache `dc` in front of the geodata stage -/
def cachedPipeline (c : Ctx) (dc : DatCache) : Option Prog × DatCache :=
  let r := datOptC c.geo dc (if c.aliasing then aliasOpt (patchMustOpt c.prog) else c.prog)
  (r.1.map fun e => dedupOpt (mergeSortOpt e), r.2)

def handle (st : St) (line : String) : St × String :=
  match words line with
  | "P" :: rest =>
    match parseCtx rest with
    | some c =>
      if !c.complete then ({ st with ctx := none }, "bad-op incomplete-tables") else
      let o := match c.out with
        | some p => sProg p
        | none => "err"
      let sp :=
        if c.backend == "scan" then "-"
        else match c.final with
          | some p => toString p.length
          | none => "err"
      ({ st with ctx := some c }, s!"opt={o} split={sp} fb={sDec (c.fb, false)}")
    | none => ({ st with ctx := none }, "bad-op")
  | ["sharedcache", "witness"] => (st, "shared=same")
  | ["sharedcache", _] =>
    -- a DatReaderOptimizer that has served other rule lists before: the model optimizer with its cache
    match st.ctx with
    | some c =>
      let r := cachedPipeline c st.cache
      ({ st with cache := r.2 }, "opt=" ++ (match r.1 with | some p => sProg p | none => "err") ++ " split=-")
    | none => (st, "bad-op")
  | ["pipeline", site, _] =>
    -- which optimizer list the theorems cover for this call site; no optimizer options, plain glue
    (st, "pipeline=" ++ ",".intercalate (if site == "traffic" then trafficStages else dnsStages) ++
      " fields=none glue=ok")
  | "N" :: rest =>
    -- `N progA | progB` → are the two programs equal up to value order/multiplicity and condition order?
    match pProg rest with
    | some (a, "|" :: rest') =>
      match pProg rest' with
      | some (b, []) => (st, "nf=" ++ boolStr (nfEqP a b))
      | _ => (st, "bad-op")
    | _ => (st, "bad-op")
  | ["q", bits, gbits] =>
    match st.ctx with
    | some c =>
      let b := if bits == "-" then #[] else bits.toList.toArray
      let g := if gbits == "-" then #[] else gbits.toList.toArray
      if b.size != c.atoms.length || g.size != c.guardNames.length then (st, "bad-op wrong-number-of-bits")
      else (st, answer c b g)
    | none => (st, "bad-op")
  | _ => (st, "bad-op")

def main : IO Unit := lineLoopS ({} : St) handle
