import DaeVerif.C04.Proofs
/-!
# C04 — alias rewriting and geodata expansion against the user-level meaning
-/
namespace DaeVerif.C04
open DaeVerif.RuleScan

variable {δ : Type}

/-- what the stages before `dat` do to a function / rule / program. -/
def preFunc (aliasing : Bool) (f : Func) : Func :=
  ⟨preName aliasing f.name, f.neg, f.params.map (preParam aliasing (preName aliasing f.name))⟩

def preRule (aliasing : Bool) (r : Rule) : Rule := { r with funcs := r.funcs.map (preFunc aliasing) }

def preOpt (aliasing : Bool) (rs : Prog) : Prog := rs.map (preRule aliasing)

theorem preParam_false (n : String) (p : Param) : preParam false n p = p := by
  simp [preParam]

theorem preFunc_false (f : Func) : preFunc false f = f := by
  cases f with
  | mk n neg ps =>
    simp only [preFunc, preName, Bool.false_eq_true, if_false]
    congr 1
    have : (preParam false n) = id := by funext p; exact preParam_false n p
    rw [this, List.map_id]

theorem preFunc_true (f : Func) : preFunc true f = aliasFunc f := by
  cases f with
  | mk n neg ps =>
    simp only [preFunc, preName, if_true, aliasFunc, aliasParams]
    congr 1
    by_cases h : aliasName n = "domain"
    · simp [h, preParam]
    · simp only [h, if_false]
      have : (preParam true (aliasName n)) = id := by
        funext p; simp [preParam, h]
      rw [this, List.map_id]

theorem preOpt_false (rs : Prog) : preOpt false rs = rs := by
  induction rs with
  | nil => rfl
  | cons r rs ih =>
    simp only [preOpt, List.map_cons] at ih ⊢
    rw [ih]
    congr 1
    cases r with
    | mk fs o =>
      simp only [preRule]
      congr 1
      have : preFunc false = id := by funext f; exact preFunc_false f
      rw [this, List.map_id]

theorem preOpt_true (rs : Prog) : preOpt true rs = aliasOpt rs := by
  simp only [preOpt, aliasOpt]
  congr 1
  funext r
  simp only [preRule, aliasRule]
  congr 1
  have : preFunc true = aliasFunc := by funext f; exact preFunc_true f
  rw [this]

/-- the pipelines in terms of `preOpt`. -/
theorem trafficPipeline_eq (g : Geo) (rs : Prog) :
    trafficPipeline g rs =
      (datOpt g (preOpt true (patchMustOpt rs))).map fun e => dedupOpt (mergeSortOpt e) := by
  rw [preOpt_true]; rfl

/-- the `must_` shorthand only touches outbounds. -/
theorem firstMatchAst_patchMust (S : Sem δ) : ∀ (rs : Prog) (fb : δ) (must : Bool),
    firstMatchAst S (patchMustOpt rs) fb must =
      firstMatchAst { S with parseOut := fun o => S.parseOut (patchOut o) } rs fb must := by
  intro rs
  induction rs with
  | nil => intro fb must; rfl
  | cons r rs ih =>
    intro fb must
    have ih' := ih
    simp only [patchMustOpt, List.map_cons] at ih' ⊢
    simp only [firstMatchAst, ih']
    rfl

theorem parserWF_patchMust (rs : Prog) (h : ParserWF rs) : ParserWF (patchMustOpt rs) := by
  intro r hr
  simp only [patchMustOpt, List.mem_map] at hr
  obtain ⟨r0, hr0, rfl⟩ := hr
  exact h r0 hr0

theorem dnsPipeline_eq (g : Geo) (rs : Prog) :
    dnsPipeline g rs = (datOpt g (preOpt false rs)).map fun e => dedupOpt (mergeSortOpt e) := by
  rw [preOpt_false]; rfl

/-! ## dat: the expansion of a parameter list is the disjunction of the expansions -/

theorem any_datParams (g : Geo) (n : String) (a : Param → Bool) :
    ∀ ps out, datParams g n ps = some out →
      out.any a = ps.any fun p => match datParam g n p with
        | some e => e.any a
        | none => false := by
  intro ps
  induction ps with
  | nil => intro out h; simp only [datParams, Option.some.injEq] at h; subst h; rfl
  | cons p ps ih =>
    intro out h
    cases h1 : datParam g n p with
    | none => simp [datParams, h1] at h
    | some e =>
      cases h2 : datParams g n ps with
      | none => simp [datParams, h1, h2] at h
      | some b =>
        simp only [datParams, h1, h2, Option.some.injEq] at h
        subst h
        simp only [List.any_append, List.any_cons, h1, ih b h2]

theorem datFunc_spec (g : Geo) (f f' : Func) (h : datFunc g f = some f') :
    ∃ out, datParams g f.name f.params = some out ∧ f' = { f with params := out } ∧
      (f.params ≠ [] → out ≠ []) := by
  unfold datFunc at h
  cases h1 : datParams g f.name f.params with
  | none => simp [h1] at h
  | some out =>
    simp only [h1] at h
    split at h
    · exact absurd h (by simp)
    next hc =>
      simp only [Option.some.injEq] at h
      refine ⟨out, rfl, h.symm, ?_⟩
      intro hne ho
      subst ho
      cases hp : f.params with
      | nil => exact hne hp
      | cons _ _ => simp [hp] at hc

/-- One function call: what the expanded call means to the backend is what the written call means
to the user (the written call has parameters, hence so has the expanded one). -/
theorem holdsF_expand (S : Sem δ) (g : Geo) (aliasing : Bool) (f f' : Func) (hne : f.params ≠ [])
    (h : datFunc g (preFunc aliasing f) = some f') :
    holdsF S f' = holdsF (userSem S g aliasing) f ∧ f'.params.isEmpty = false := by
  obtain ⟨out, hout, hf', hone⟩ := datFunc_spec g _ f' h
  subst hf'
  simp only [preFunc] at hout hone ⊢
  have houtne : out ≠ [] := hone (by
    intro hm
    exact hne (List.map_eq_nil_iff.mp hm))
  have hoe : out.isEmpty = false := by
    cases ho : out with
    | nil => exact absurd ho houtne
    | cons _ _ => rfl
  refine ⟨?_, hoe⟩
  have hany := any_datParams g (preName aliasing f.name) (S.atom (preName aliasing f.name)) _ out hout
  rw [List.any_map] at hany
  have hfe : f.params.isEmpty = false := by
    cases hp : f.params with
    | nil => exact absurd hp hne
    | cons _ _ => rfl
  simp only [holdsF, userSem, hfe, hoe, Bool.false_eq_true, if_false]
  have huser : f.params.any (userAtom S g aliasing f.name) = out.any (S.atom (preName aliasing f.name)) := by
    rw [hany]
    congr 1
  rw [huser]

/-! ## lists of functions, rules, programs -/

def noEmptyParamsF (fs : List Func) : Prop := ∀ f ∈ fs, f.params ≠ []

/-- every function has a parameter -/
def paramsOkR (r : Rule) : Bool := r.funcs.all fun f => !f.params.isEmpty
def paramsOkP (p : Prog) : Bool := p.all paramsOkR

theorem emptyOk_of_paramsOk (S : Sem δ) (p : Prog) (h : paramsOkP p = true) : emptyOk S p = true := by
  simp only [paramsOkP, paramsOkR, List.all_eq_true] at h
  simp only [emptyOk, emptyOkR, List.all_eq_true, Bool.or_eq_true]
  intro r hr f hf
  exact Or.inl (h r hr f hf)

theorem datFuncs_spec (S : Sem δ) (g : Geo) (aliasing : Bool) :
    ∀ fs fs', noEmptyParamsF fs → datFuncs g (fs.map (preFunc aliasing)) = some fs' →
      fs'.all (holdsF S) = fs.all (holdsF (userSem S g aliasing)) ∧ fs'.isEmpty = fs.isEmpty ∧
        (fs'.all fun f => !f.params.isEmpty) = true := by
  intro fs
  induction fs with
  | nil =>
    intro fs' _ h
    simp only [List.map_nil, datFuncs, Option.some.injEq] at h
    subst h; exact ⟨rfl, rfl, rfl⟩
  | cons f fs ih =>
    intro fs' hne h
    simp only [List.map_cons, datFuncs] at h
    cases h1 : datFunc g (preFunc aliasing f) with
    | none => simp [h1] at h
    | some f1 =>
      cases h2 : datFuncs g (fs.map (preFunc aliasing)) with
      | none => simp [h1, h2] at h
      | some fs1 =>
        simp only [h1, h2, Option.some.injEq] at h
        subst h
        have hf := holdsF_expand S g aliasing f f1 (hne f (by simp)) h1
        have hrest := ih fs1 (fun f' hf' => hne f' (by simp [hf'])) h2
        exact ⟨by simp only [List.all_cons, hf.1, hrest.1], rfl,
          by simp only [List.all_cons, hf.2, hrest.2.2, Bool.not_false, Bool.and_self]⟩

theorem datRule_spec (S : Sem δ) (g : Geo) (aliasing : Bool) (r r' : Rule) (hne : noEmptyParamsF r.funcs)
    (h : datRule g (preRule aliasing r) = some r') :
    holdsR S r' = holdsR (userSem S g aliasing) r ∧ r'.out = r.out ∧ r'.funcs.isEmpty = r.funcs.isEmpty ∧
      paramsOkR r' = true := by
  unfold datRule at h
  simp only [preRule] at h
  cases h1 : datFuncs g (r.funcs.map (preFunc aliasing)) with
  | none => simp [h1] at h
  | some fs' =>
    simp only [h1, Option.some.injEq] at h
    subst h
    have := datFuncs_spec S g aliasing r.funcs fs' hne h1
    exact ⟨this.1, rfl, this.2.1, this.2.2⟩

/-- nonempty-function bookkeeping -/
def neR (r : Rule) : Bool := !r.funcs.isEmpty
def neP (p : Prog) : Bool := p.all neR

theorem firstMatchAst_expand (S : Sem δ) (g : Geo) (aliasing : Bool) :
    ∀ rs E, ParserWF rs → datOpt g (preOpt aliasing rs) = some E →
      (∀ fb must, firstMatchAst S E fb must = firstMatchAst (userSem S g aliasing) rs fb must) ∧
        neP E = true ∧ paramsOkP E = true := by
  intro rs
  induction rs with
  | nil =>
    intro E _ h
    simp only [preOpt, List.map_nil, datOpt, Option.some.injEq] at h
    subst h
    exact ⟨fun _ _ => rfl, rfl, rfl⟩
  | cons r rs ih =>
    intro E hwf h
    simp only [preOpt, List.map_cons, datOpt] at h
    cases h1 : datRule g (preRule aliasing r) with
    | none => simp [h1] at h
    | some r1 =>
      cases h2 : datOpt g (rs.map (preRule aliasing)) with
      | none => simp [h1, h2] at h
      | some E1 =>
        simp only [h1, h2, Option.some.injEq] at h
        subst h
        have hr := hwf r (by simp)
        have hspec := datRule_spec S g aliasing r r1 hr.2 h1
        have hrest := ih E1 (fun r' hr' => hwf r' (by simp [hr'])) h2
        refine ⟨fun fb must => ?_, ?_, ?_⟩
        · simp only [firstMatchAst, hspec.1, hspec.2.1, hrest.1]
          rfl
        · have hrne : r.funcs.isEmpty = false := by
            cases hp : r.funcs with
            | nil => exact absurd hp hr.1
            | cons _ _ => rfl
          simp only [neP, List.all_cons, neR, hspec.2.2.1, hrne, Bool.not_false, Bool.true_and]
          exact hrest.2.1
        · simp only [paramsOkP, List.all_cons, hspec.2.2.2, Bool.true_and]
          exact hrest.2.2

end DaeVerif.C04
